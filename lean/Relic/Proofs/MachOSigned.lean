/-
  Relic.Proofs.MachOSigned — from `sign f p = .ok so` to the signed file: what `patchSignature` returns in its two
  branches (`patchSignature_fresh` / `Fresh`, `patchSignature_reuse`), the patched header buffer byte by byte
  (`HdrSpec`, `fresh_hdrSpec`), `signedFile` as the reference result of the patch set (`signedFile_of_constructible`
  for ascending `Add` calls, `signedFile_swapped` when LC_CODE_SIGNATURE precedes __LINKEDIT), the hashed stream as
  prefix of the written file (`written_take_stream`), the scanner's markers against the parser's command list
  (`Marks`), the verifier's locator on the signed file (`locate_fresh`, `locate_reuse`) and the assembly
  `sign_then_locate_core`; `large_signature_refused`; helpers to evaluate `sign` on concrete images.
-/
import Relic.Proofs.MachOWalk
import Relic.Props.C12
namespace Relic.MachO
open Relic Relic.Binpatch Relic.CodeDir
set_option linter.unusedSimpArgs false

/-! ### `patchSignature`, fresh-region branch, in closed form -/

def freshSigStart (m : Markers) : Nat := if m.sigStart = 0 then align m.codeSize.toNat 8 else m.sigStart

def lcOf (m : Markers) : Nat := if m.loadCsStart ≠ 0 then m.loadCsStart else m.nextLc

/-- the buffer after `patchNcmd` -/
def h1Of (m : Markers) (hdr : Bytes) : Bytes :=
  if m.loadCsStart ≠ 0 then hdr else
    let h := if hdr.length < m.nextLc + 16 then hdr ++ zeros (m.nextLc + 16 - hdr.length) else hdr
    let h := put h 16 (wr32 m.be ((rd32 m.be h 16 + 1) % 2 ^ 32))
    put h 20 (wr32 m.be ((rd32 m.be h 20 + 16) % 2 ^ 32))

def fileszOf (m : Markers) (sigStart sigSize : Nat) : Nat := (sigStart + sigSize + 2 ^ 64 - m.leOffset % 2 ^ 64) % 2 ^ 64

/-- the buffer after `patchLinkEdit` -/
def h2Of (m : Markers) (h1 : Bytes) (filesz : Nat) : Bytes :=
  if m.is64 then put (put h1 (m.lePos + 32) (wr64 m.be (align filesz 4096))) (m.lePos + 48) (wr64 m.be filesz)
  else put (put h1 (m.lePos + 28) (wr32 m.be (align filesz 4096))) (m.lePos + 36) (wr32 m.be filesz)

def csCmd (m : Markers) (sigStart sigSize : Nat) : Bytes :=
  wr32 m.be 0x1d ++ wr32 m.be 16 ++ wr32 m.be sigStart ++ wr32 m.be sigSize

/-- the recorded header ranges, in the order of the `patch.Add` calls -/
def hdrRanges (m : Markers) : List (Nat × Nat) :=
  (if m.loadCsStart ≠ 0 then [] else [(16, 8)]) ++
  [(if m.is64 then (m.lePos + 32, 24) else (m.lePos + 28, 12)), (lcOf m, 16)]

structure Fresh (m : Markers) (hdr : Bytes) (sigSize0 : Int) (po : PatchOut) : Prop where
  csNonneg : 0 ≤ m.codeSize
  startGe : m.codeSize.toNat ≤ freshSigStart m
  room : m.loadCsStart = 0 → m.nextLc + 16 ≤ m.firstSh
  filesz : fileszOf m (freshSigStart m) (align sigSize0.toNat 8) < 2 ^ 62
  leRoom : (if m.is64 then m.lePos + 56 else m.lePos + 40) ≤ (h1Of m hdr).length
  csRoom : lcOf m + 16 ≤ (h1Of m hdr).length
  newHeader : po.newHeader = put (h2Of m (h1Of m hdr) (fileszOf m (freshSigStart m) (align sigSize0.toNat 8))) (lcOf m)
                (csCmd m (freshSigStart m) (align sigSize0.toNat 8))
  sigBufLen : po.sigBufLen = align sigSize0.toNat 8
  sigStart : po.sigStart = freshSigStart m
  padding : po.padding = freshSigStart m - m.codeSize.toNat
  patches : po.patches = hdrPatches po.newHeader (hdrRanges m) ++
              [⟨m.codeSize.toNat, m.sigLen, zeros (po.padding + po.sigBufLen)⟩]

theorem h2Of_length (m : Markers) (h1 : Bytes) (filesz : Nat)
    (h : (if m.is64 then m.lePos + 56 else m.lePos + 40) ≤ h1.length) : (h2Of m h1 filesz).length = h1.length := by
  unfold h2Of
  cases hb : m.is64
  · simp only [hb, Bool.false_eq_true, ↓reduceIte] at h ⊢
    rw [put_length _ _ _ (by rw [put_length _ _ _ (by simp; omega)]; simp; omega), put_length _ _ _ (by simp; omega)]
  · simp only [hb, ↓reduceIte] at h ⊢
    rw [put_length _ _ _ (by rw [put_length _ _ _ (by simp; omega)]; simp; omega), put_length _ _ _ (by simp; omega)]

theorem patchSignature_fresh (m : Markers) (hdr : Bytes) (sigSize0 : Int) (po : PatchOut)
    (hn : ¬ (m.sigLen : Int) ≥ sigSize0) (h : patchSignature m hdr sigSize0 = .ok po) : Fresh m hdr sigSize0 po := by
  unfold patchSignature at h
  rw [if_neg hn] at h
  by_cases hr : m.codeSize < 0 ∨ m.codeSize > 2 ^ 40
  · rw [if_pos hr] at h; cases h
  rw [if_neg hr] at h
  simp only [] at h
  by_cases hp : (if m.sigStart = 0 then align m.codeSize.toNat 8 else m.sigStart) < m.codeSize.toNat
  · rw [if_pos hp] at h; cases h
  rw [if_neg hp] at h
  have hss : (if m.sigStart = 0 then align m.codeSize.toNat 8 else m.sigStart) = freshSigStart m := rfl
  have hcs0 : 0 ≤ m.codeSize := by omega
  rw [hss] at hp
  simp only [hss] at h
  by_cases hl : m.loadCsStart ≠ 0
  · rw [if_pos hl] at h
    simp only [] at h
    have e1 : h1Of m hdr = hdr := by unfold h1Of; rw [if_pos hl]
    have elc : lcOf m = m.loadCsStart := by unfold lcOf; rw [if_pos hl]
    cases hb : m.is64
    · simp only [hb, Bool.false_eq_true, ↓reduceIte] at h
      split at h
      · cases h
      · rename_i c1
        split at h
        · cases h
        · rename_i c2
          split at h
          · cases h
          · rename_i c3
            injection h with h; subst h
            refine ⟨hcs0, by omega, fun c => absurd c hl, by unfold fileszOf; omega, ?_, ?_, ?_, rfl, rfl, rfl, ?_⟩
            · rw [e1]; simp only [hb, Bool.false_eq_true, ↓reduceIte]; omega
            · rw [e1, elc]
              have := h2Of_length m hdr (fileszOf m (freshSigStart m) (align sigSize0.toNat 8))
                (by simp only [hb, Bool.false_eq_true, ↓reduceIte]; omega)
              unfold h2Of fileszOf at this
              simp only [hb, Bool.false_eq_true, ↓reduceIte] at this
              omega
            · simp only [e1, elc, h2Of, csCmd, fileszOf, hb, Bool.false_eq_true, ↓reduceIte]
            · simp only [hdrPatches, hdrRanges, elc, hl, hb, Bool.false_eq_true, ↓reduceIte, List.map_cons, List.map_nil,
                List.nil_append, List.cons_append, ne_eq, not_true_eq_false, not_false_eq_true]
    · simp only [hb, ↓reduceIte] at h
      split at h
      · cases h
      · rename_i c1
        split at h
        · cases h
        · rename_i c2
          split at h
          · cases h
          · rename_i c3
            injection h with h; subst h
            refine ⟨hcs0, by omega, fun c => absurd c hl, by unfold fileszOf; omega, ?_, ?_, ?_, rfl, rfl, rfl, ?_⟩
            · rw [e1]; simp only [hb, Bool.false_eq_true, ↓reduceIte]; omega
            · rw [e1, elc]
              have := h2Of_length m hdr (fileszOf m (freshSigStart m) (align sigSize0.toNat 8))
                (by simp only [hb, Bool.false_eq_true, ↓reduceIte]; omega)
              unfold h2Of fileszOf at this
              simp only [hb, Bool.false_eq_true, ↓reduceIte] at this
              omega
            · simp only [e1, elc, h2Of, csCmd, fileszOf, hb, Bool.false_eq_true, ↓reduceIte]
            · simp only [hdrPatches, hdrRanges, elc, hl, hb, Bool.false_eq_true, ↓reduceIte, List.map_cons, List.map_nil,
                List.nil_append, List.cons_append, ne_eq, not_true_eq_false, not_false_eq_true]
  · have hl0 : m.loadCsStart = 0 := by omega
    rw [if_neg hl] at h
    by_cases ho : m.nextLc + 16 > m.firstSh
    · rw [if_pos ho] at h; cases h
    rw [if_neg ho] at h
    simp only [] at h
    have elc : lcOf m = m.nextLc := by unfold lcOf; rw [if_neg hl]
    generalize hH0 : (if hdr.length < m.nextLc + 16 then hdr ++ zeros (m.nextLc + 16 - hdr.length) else hdr) = h0 at h
    cases hb : m.is64
    · simp only [hb, Bool.false_eq_true, ↓reduceIte] at h
      split at h
      · cases h
      · rename_i c1
        split at h
        · cases h
        · rename_i c2
          split at h
          · cases h
          · rename_i c3
            injection h with h; subst h
            refine ⟨hcs0, by omega, fun _ => by omega, by unfold fileszOf; omega, ?_, ?_, ?_, rfl, rfl, rfl, ?_⟩
            · simp only [h1Of, hH0, hl0, ne_eq, not_true_eq_false, hb, Bool.false_eq_true, ↓reduceIte]; omega
            · have := h2Of_length m (h1Of m hdr) (fileszOf m (freshSigStart m) (align sigSize0.toNat 8))
                (by simp only [h1Of, hH0, hl0, ne_eq, not_true_eq_false, hb, Bool.false_eq_true, ↓reduceIte]; omega)
              rw [← this, elc]
              simp only [h1Of, hH0, h2Of, fileszOf, hl0, ne_eq, not_true_eq_false, hb, Bool.false_eq_true, ↓reduceIte]
              omega
            · simp only [h1Of, hH0, hl0, ne_eq, not_true_eq_false, elc, h2Of, csCmd, fileszOf, hb, Bool.false_eq_true, ↓reduceIte]
            · simp only [hdrPatches, hdrRanges, elc, hl0, hb, Bool.false_eq_true, ↓reduceIte, List.map_cons, List.map_nil,
                List.nil_append, List.cons_append, ne_eq, not_true_eq_false, not_false_eq_true]
    · simp only [hb, ↓reduceIte] at h
      split at h
      · cases h
      · rename_i c1
        split at h
        · cases h
        · rename_i c2
          split at h
          · cases h
          · rename_i c3
            injection h with h; subst h
            refine ⟨hcs0, by omega, fun _ => by omega, by unfold fileszOf; omega, ?_, ?_, ?_, rfl, rfl, rfl, ?_⟩
            · simp only [h1Of, hH0, hl0, ne_eq, not_true_eq_false, hb, Bool.false_eq_true, ↓reduceIte]; omega
            · have := h2Of_length m (h1Of m hdr) (fileszOf m (freshSigStart m) (align sigSize0.toNat 8))
                (by simp only [h1Of, hH0, hl0, ne_eq, not_true_eq_false, hb, Bool.false_eq_true, ↓reduceIte]; omega)
              rw [← this, elc]
              simp only [h1Of, hH0, h2Of, fileszOf, hl0, ne_eq, not_true_eq_false, hb, Bool.false_eq_true, ↓reduceIte]
              omega
            · simp only [h1Of, hH0, hl0, ne_eq, not_true_eq_false, elc, h2Of, csCmd, fileszOf, hb, Bool.false_eq_true, ↓reduceIte]
            · simp only [hdrPatches, hdrRanges, elc, hl0, hb, Bool.false_eq_true, ↓reduceIte, List.map_cons, List.map_nil,
                List.nil_append, List.cons_append, ne_eq, not_true_eq_false, not_false_eq_true]

theorem patchSignature_reuse (m : Markers) (hdr : Bytes) (sigSize0 : Int) (po : PatchOut)
    (hn : (m.sigLen : Int) ≥ sigSize0) (h : patchSignature m hdr sigSize0 = .ok po) :
    po = ⟨hdr, m.sigLen, m.sigStart, 0, [⟨m.sigStart, m.sigLen, zeros m.sigLen⟩]⟩ := by
  unfold patchSignature at h
  rw [if_pos hn] at h
  injection h with h
  exact h.symm

/-! ### the patched header buffer, byte by byte -/

theorem h2Of_getElem? (m : Markers) (h1 : Bytes) (filesz : Nat)
    (h : (if m.is64 then m.lePos + 56 else m.lePos + 40) ≤ h1.length) (i : Nat) :
    (h2Of m h1 filesz)[i]? =
      if m.is64 then
        if m.lePos + 48 ≤ i ∧ i < m.lePos + 56 then (wr64 m.be filesz)[i - (m.lePos + 48)]?
        else if m.lePos + 32 ≤ i ∧ i < m.lePos + 40 then (wr64 m.be (align filesz 4096))[i - (m.lePos + 32)]?
        else h1[i]?
      else
        if m.lePos + 36 ≤ i ∧ i < m.lePos + 40 then (wr32 m.be filesz)[i - (m.lePos + 36)]?
        else if m.lePos + 28 ≤ i ∧ i < m.lePos + 32 then (wr32 m.be (align filesz 4096))[i - (m.lePos + 28)]?
        else h1[i]? := by
  unfold h2Of
  cases hb : m.is64
  · simp only [hb, Bool.false_eq_true, ↓reduceIte] at h ⊢
    rw [put_getElem? _ _ _ (by rw [put_length _ _ _ (by simp; omega)]; simp; omega), put_getElem? _ _ _ (by simp; omega)]
    simp only [wr32_length]
  · simp only [hb, ↓reduceIte] at h ⊢
    rw [put_getElem? _ _ _ (by rw [put_length _ _ _ (by simp; omega)]; simp; omega), put_getElem? _ _ _ (by simp; omega)]
    simp only [wr64_length]

theorem csCmd_length (m : Markers) (a b : Nat) : (csCmd m a b).length = 16 := by
  simp [csCmd]

/-- outside the written fields the buffer after `patchLinkEdit` and `patchLoadCmd` is the buffer before -/
theorem h3_same (m : Markers) (h1 : Bytes) (filesz a b : Nat)
    (hle : (if m.is64 then m.lePos + 56 else m.lePos + 40) ≤ h1.length) (hlc : lcOf m + 16 ≤ h1.length) (i : Nat)
    (h1' : ¬ leField m.is64 m.lePos i) (h2' : ¬ (lcOf m ≤ i ∧ i < lcOf m + 16)) :
    (put (h2Of m h1 filesz) (lcOf m) (csCmd m a b))[i]? = h1[i]? := by
  rw [put_getElem? _ _ _ (by rw [h2Of_length m h1 filesz hle, csCmd_length]; exact hlc), csCmd_length, if_neg h2',
    h2Of_getElem? m h1 filesz hle]
  unfold leField at h1'
  cases hb : m.is64
  · simp only [hb, Bool.false_eq_true, ↓reduceIte] at h1' ⊢
    rw [if_neg (by omega), if_neg (by omega)]
  · simp only [hb, ↓reduceIte] at h1' ⊢
    rw [if_neg (by omega), if_neg (by omega)]

theorem h3_length (m : Markers) (h1 : Bytes) (filesz a b : Nat)
    (hle : (if m.is64 then m.lePos + 56 else m.lePos + 40) ≤ h1.length) (hlc : lcOf m + 16 ≤ h1.length) :
    (put (h2Of m h1 filesz) (lcOf m) (csCmd m a b)).length = h1.length := by
  rw [put_length _ _ _ (by rw [h2Of_length m h1 filesz hle, csCmd_length]; exact hlc), h2Of_length m h1 filesz hle]

theorem h3_cs (m : Markers) (h1 : Bytes) (filesz a b : Nat)
    (hle : (if m.is64 then m.lePos + 56 else m.lePos + 40) ≤ h1.length) (hlc : lcOf m + 16 ≤ h1.length) (j : Nat) (hj : j < 16) :
    (put (h2Of m h1 filesz) (lcOf m) (csCmd m a b))[lcOf m + j]? = (csCmd m a b)[j]? := by
  rw [put_getElem? _ _ _ (by rw [h2Of_length m h1 filesz hle, csCmd_length]; exact hlc), csCmd_length,
    if_pos (by omega)]
  congr 1; omega

theorem h3_filesz (m : Markers) (h1 : Bytes) (filesz a b : Nat) (hb : m.is64 = true)
    (hle : (if m.is64 then m.lePos + 56 else m.lePos + 40) ≤ h1.length) (hlc : lcOf m + 16 ≤ h1.length)
    (hd : m.lePos + 56 ≤ lcOf m ∨ lcOf m + 16 ≤ m.lePos + 48) (j : Nat) (hj : j < 8) :
    (put (h2Of m h1 filesz) (lcOf m) (csCmd m a b))[m.lePos + 48 + j]? = (wr64 m.be filesz)[j]? := by
  rw [put_getElem? _ _ _ (by rw [h2Of_length m h1 filesz hle, csCmd_length]; exact hlc), csCmd_length,
    if_neg (by omega), h2Of_getElem? m h1 filesz hle]
  simp only [hb, ↓reduceIte]
  rw [if_pos (by omega)]
  congr 1; omega

/-- reading the four words of the written LC_CODE_SIGNATURE command -/
theorem csCmd_reads (m : Markers) (x : Bytes) (lc a b : Nat) (h : ∀ j, j < 16 → x[lc + j]? = (csCmd m a b)[j]?) :
    rd32 m.be x lc = 0x1d ∧ rd32 m.be x (lc + 4) = 16 ∧ rd32 m.be x (lc + 8) = a % 2 ^ 32 ∧ rd32 m.be x (lc + 12) = b % 2 ^ 32 := by
  have l4 := wr32_length m.be
  refine ⟨?_, ?_, ?_, ?_⟩
  · have := rd32_of_bytes m.be x lc 0x1d (fun j hj => by
      rw [h j (by omega)]; unfold csCmd
      rw [List.append_assoc, List.append_assoc, List.getElem?_append_left (by rw [l4]; exact hj)])
    rw [this]
  · have := rd32_of_bytes m.be x (lc + 4) 16 (fun j hj => by
      rw [Nat.add_assoc, h (4 + j) (by omega)]; unfold csCmd
      rw [List.append_assoc, List.append_assoc, List.getElem?_append_right (by rw [l4]; omega), l4,
        List.getElem?_append_left (by rw [l4]; omega)]
      congr 1; omega)
    rw [this]
  · exact rd32_of_bytes m.be x (lc + 8) a (fun j hj => by
      rw [Nat.add_assoc, h (8 + j) (by omega)]; unfold csCmd
      rw [List.append_assoc, List.append_assoc, List.getElem?_append_right (by rw [l4]; omega), l4,
        List.getElem?_append_right (by rw [l4]; omega), l4, List.getElem?_append_left (by rw [l4]; omega)]
      congr 1; omega)
  · exact rd32_of_bytes m.be x (lc + 12) b (fun j hj => by
      rw [Nat.add_assoc, h (12 + j) (by omega)]; unfold csCmd
      rw [List.append_assoc, List.append_assoc, List.getElem?_append_right (by rw [l4]; omega), l4,
        List.getElem?_append_right (by rw [l4]; omega), l4, List.getElem?_append_right (by rw [l4]; omega), l4]
      congr 1; omega)

theorem getElem?_append_zeros_lt (hdr : Bytes) (n i : Nat) (h : i < hdr.length) : (hdr ++ zeros n)[i]? = hdr[i]? :=
  List.getElem?_append_left h

/-- the buffer after `patchNcmd` when a command is added: 16 zero bytes appended, ncmds + 1, sizeofcmds + 16 -/
theorem h1Of_new (m : Markers) (hdr : Bytes) (hl0 : m.loadCsStart = 0) (hlen : hdr.length = m.nextLc) (h24 : 24 ≤ hdr.length) :
    (h1Of m hdr).length = m.nextLc + 16 ∧
    (∀ i, ¬ (16 ≤ i ∧ i < 24) → (h1Of m hdr)[i]? = (hdr ++ zeros 16)[i]?) ∧
    (∀ j, j < 4 → (h1Of m hdr)[16 + j]? = (wr32 m.be ((rd32 m.be hdr 16 + 1) % 2 ^ 32))[j]?) ∧
    (∀ j, j < 4 → (h1Of m hdr)[20 + j]? = (wr32 m.be ((rd32 m.be hdr 20 + 16) % 2 ^ 32))[j]?) := by
  have e0 : (if hdr.length < m.nextLc + 16 then hdr ++ zeros (m.nextLc + 16 - hdr.length) else hdr) = hdr ++ zeros 16 := by
    rw [if_pos (by omega)]; congr 2; omega
  have hl : (hdr ++ zeros 16).length = m.nextLc + 16 := by simp [zeros]; omega
  have r16 : rd32 m.be (hdr ++ zeros 16) 16 = rd32 m.be hdr 16 :=
    rd32_congr _ _ _ _ (fun i h1 h2 => List.getElem?_append_left (by omega))
  have pl : (put (hdr ++ zeros 16) 16 (wr32 m.be ((rd32 m.be hdr 16 + 1) % 2 ^ 32))).length = m.nextLc + 16 := by
    rw [put_length _ _ _ (by rw [hl, wr32_length]; omega), hl]
  have r20 : rd32 m.be (put (hdr ++ zeros 16) 16 (wr32 m.be ((rd32 m.be hdr 16 + 1) % 2 ^ 32))) 20 = rd32 m.be hdr 20 :=
    rd32_congr _ _ _ _ (fun i h1 h2 => by
      rw [put_getElem? _ _ _ (by rw [hl, wr32_length]; omega), wr32_length, if_neg (by omega)]
      exact List.getElem?_append_left (by omega))
  have e1 : h1Of m hdr = put (put (hdr ++ zeros 16) 16 (wr32 m.be ((rd32 m.be hdr 16 + 1) % 2 ^ 32))) 20
      (wr32 m.be ((rd32 m.be hdr 20 + 16) % 2 ^ 32)) := by
    unfold h1Of
    rw [if_neg (by omega)]
    simp only [e0, r16, r20]
  rw [e1]
  have G : ∀ i, (put (put (hdr ++ zeros 16) 16 (wr32 m.be ((rd32 m.be hdr 16 + 1) % 2 ^ 32))) 20
      (wr32 m.be ((rd32 m.be hdr 20 + 16) % 2 ^ 32)))[i]? =
        if 20 ≤ i ∧ i < 24 then (wr32 m.be ((rd32 m.be hdr 20 + 16) % 2 ^ 32))[i - 20]?
        else if 16 ≤ i ∧ i < 20 then (wr32 m.be ((rd32 m.be hdr 16 + 1) % 2 ^ 32))[i - 16]?
        else (hdr ++ zeros 16)[i]? := by
    intro i
    rw [put_getElem? _ _ _ (by rw [pl, wr32_length]; omega), put_getElem? _ _ _ (by rw [hl, wr32_length]; omega)]
    simp only [wr32_length]
  refine ⟨?_, ?_, ?_, ?_⟩
  · rw [put_length _ _ _ (by rw [pl, wr32_length]; omega), pl]
  · intro i hi
    rw [G i, if_neg (by omega), if_neg (by omega)]
  · intro j hj
    rw [G (16 + j), if_neg (by omega), if_pos (by omega)]
    congr 1; omega
  · intro j hj
    rw [G (20 + j), if_pos (by omega)]
    congr 1; omega

theorem h1Of_old (m : Markers) (hdr : Bytes) (hl : m.loadCsStart ≠ 0) : h1Of m hdr = hdr := by
  unfold h1Of; rw [if_pos hl]

/-- the header buffer `patchSignature` returns (fresh-region branch) against the input file -/
structure HdrSpec (f : Bytes) (m : Markers) (x : Bytes) (a b filesz : Nat) : Prop where
  len : x.length = if m.loadCsStart = 0 then m.nextLc + 16 else m.nextLc
  same : ∀ i, i < m.nextLc → ¬ (m.loadCsStart = 0 ∧ 16 ≤ i ∧ i < 24) → ¬ leField m.is64 m.lePos i →
    ¬ (lcOf m ≤ i ∧ i < lcOf m + 16) → x[i]? = f[i]?
  cs : ∀ j, j < 16 → x[lcOf m + j]? = (csCmd m a b)[j]?
  fsz : m.is64 = true → (m.lePos + 56 ≤ lcOf m ∨ lcOf m + 16 ≤ m.lePos + 48) →
    ∀ j, j < 8 → x[m.lePos + 48 + j]? = (wr64 m.be filesz)[j]?
  cnt : m.loadCsStart = 0 → 28 ≤ m.lePos →
    (∀ j, j < 4 → x[16 + j]? = (wr32 m.be ((rd32 m.be f 16 + 1) % 2 ^ 32))[j]?) ∧
    (∀ j, j < 4 → x[20 + j]? = (wr32 m.be ((rd32 m.be f 20 + 16) % 2 ^ 32))[j]?)
  leRoom : (if m.is64 then m.lePos + 56 else m.lePos + 40) ≤ x.length
  csRoom : lcOf m + 16 ≤ x.length

theorem fresh_hdrSpec (f : Bytes) (m : Markers) (sigSize0 : Int) (po : PatchOut)
    (hstop : m.nextLc ≤ f.length) (h28 : 28 ≤ m.nextLc)
    (F : Fresh m (f.take m.nextLc) sigSize0 po) :
    HdrSpec f m po.newHeader (freshSigStart m) (align sigSize0.toNat 8)
      (fileszOf m (freshSigStart m) (align sigSize0.toNat 8)) := by
  have hlen : (f.take m.nextLc).length = m.nextLc := by rw [List.length_take]; omega
  have htk : ∀ i, i < m.nextLc → (f.take m.nextLc)[i]? = f[i]? := fun i hi => List.getElem?_take_of_lt hi
  have r16 : rd32 m.be (f.take m.nextLc) 16 = rd32 m.be f 16 := rd32_congr _ _ _ _ (fun i h1 h2 => htk i (by omega))
  have r20 : rd32 m.be (f.take m.nextLc) 20 = rd32 m.be f 20 := rd32_congr _ _ _ _ (fun i h1 h2 => htk i (by omega))
  have hxl := h3_length m _ (fileszOf m (freshSigStart m) (align sigSize0.toNat 8)) (freshSigStart m)
    (align sigSize0.toNat 8) F.leRoom F.csRoom
  rw [← F.newHeader] at hxl
  have h1len : (h1Of m (f.take m.nextLc)).length = if m.loadCsStart = 0 then m.nextLc + 16 else m.nextLc := by
    by_cases c : m.loadCsStart = 0
    · rw [if_pos c]; exact (h1Of_new m _ c hlen (by omega)).1
    · rw [if_neg c, h1Of_old m _ c, hlen]
  refine ⟨by rw [hxl, h1len], ?_, ?_, ?_, ?_, by rw [hxl]; exact F.leRoom, by rw [hxl]; exact F.csRoom⟩
  · intro i hi hn hf hc
    rw [F.newHeader, h3_same m _ _ _ _ F.leRoom F.csRoom i hf hc]
    by_cases c : m.loadCsStart = 0
    · rw [(h1Of_new m _ c hlen (by omega)).2.1 i (fun h => hn ⟨c, h⟩),
        List.getElem?_append_left (by omega), htk i hi]
    · rw [h1Of_old m _ c, htk i hi]
  · intro j hj
    rw [F.newHeader]; exact h3_cs m _ _ _ _ F.leRoom F.csRoom j hj
  · intro hb hd j hj
    rw [F.newHeader]; exact h3_filesz m _ _ _ _ hb F.leRoom F.csRoom hd j hj
  · intro c hle
    have hlc : lcOf m = m.nextLc := by unfold lcOf; rw [if_neg (by omega)]
    have N := h1Of_new m _ c hlen (by omega)
    rw [r16] at N; rw [r20] at N
    constructor
    · intro j hj
      rw [F.newHeader, h3_same m _ _ _ _ F.leRoom F.csRoom (16 + j)
        (by unfold leField; cases m.is64 <;> simp <;> omega) (by omega)]
      exact N.2.2.1 j hj
    · intro j hj
      rw [F.newHeader, h3_same m _ _ _ _ F.leRoom F.csRoom (20 + j)
        (by unfold leField; cases m.is64 <;> simp <;> omega) (by omega)]
      exact N.2.2.2 j hj

/-! ### the locator, given the header facts -/

/-- `readSigBlob`'s answer once the command is found -/
def sigAnswer (a b : Nat) : Res (Nat × Nat) := if b > 10000000 then .err "toolarge" else .ok (a, b)

theorem locate_of_header (g : Bytes) (be : Bool) (magic : Nat) (loads : List Load) (lc a b : Nat)
    (hm : readMagic g = some (be, magic)) (h28 : 28 ≤ g.length)
    (hlen : hdrEndOf magic + rd32 be g 20 ≤ g.length)
    (hw : loadLoop be g (hdrEndOf magic + rd32 be g 20) (rd32 be g 16) (hdrEndOf magic) = .ok loads)
    (hf : loads.find? (fun e => e.2.1 = 0x1d) = some (lc, 0x1d, 16))
    (ha : rd32 be g (lc + 8) = a) (hb : rd32 be g (lc + 12) = b) (hin : a + b ≤ g.length) :
    locate g = sigAnswer a b := by
  have nf : newFile g = .ok (be, loads) := by
    unfold newFile
    rw [if_neg (by omega), hm]
    simp only []
    rw [if_neg (by omega)]
    unfold hdrEndOf at hlen hw
    rw [if_neg (by omega), hw]
  unfold locate sigAnswer
  rw [nf]
  simp only []
  rw [hf]
  simp only []
  rw [if_neg (by simp), ha, hb]
  split
  · rfl
  · rw [if_neg (by omega)]

theorem readMagic_congr (f g : Bytes) (h : ∀ i, i < 4 → g[i]? = f[i]?) : readMagic g = readMagic f := by
  have : g.take 4 = f.take 4 := by
    have := slice_congr f g 0 4 (fun i _ hi => h i (by omega))
    simpa using this
  unfold readMagic; rw [this]

theorem inRanges_hdrRanges (m : Markers) (i : Nat) :
    inRanges (hdrRanges m) i = false ↔
      (m.loadCsStart = 0 → ¬ (16 ≤ i ∧ i < 24)) ∧
      ¬ ((if m.is64 then m.lePos + 32 else m.lePos + 28) ≤ i ∧ i < (if m.is64 then m.lePos + 56 else m.lePos + 40)) ∧
      ¬ (lcOf m ≤ i ∧ i < lcOf m + 16) := by
  unfold inRanges hdrRanges
  by_cases c : m.loadCsStart = 0 <;> cases hb : m.is64 <;>
    simp [c] <;> omega

theorem spec_layout (f : Bytes) (m : Markers) (x : Bytes) (a b fs : Nat) (S : HdrSpec f m x a b fs) (cs : Nat)
    (h28 : 28 ≤ m.nextLc) (hbel : x.length ≤ cs) (ho : cs + m.sigLen ≤ f.length) :
    Layout f x (hdrRanges m) cs m.sigLen := by
  have hxl := S.len
  refine ⟨?_, ?_, hbel, ho⟩
  · intro r hr
    have hle := S.leRoom
    have hcs := S.csRoom
    unfold hdrRanges at hr
    rcases List.mem_append.mp hr with h | h
    · by_cases c : m.loadCsStart = 0
      · simp [c] at h; subst h; simp only; split at hxl <;> omega
      · simp [c] at h
    · simp only [List.mem_cons, List.mem_nil_iff, or_false] at h
      rcases h with h | h
      · subst h; cases hb : m.is64 <;> simp only [hb, Bool.false_eq_true, ↓reduceIte] at hle ⊢ <;> omega
      · subst h; exact hcs
  · intro i hi hr
    obtain ⟨h1, h2, h3⟩ := (inRanges_hdrRanges m i).mp hr
    refine S.same i ?_ (fun h => h1 h.1 h.2) ?_ h3
    · by_cases c : m.loadCsStart = 0
      · have : lcOf m = m.nextLc := by unfold lcOf; rw [if_neg (by omega)]
        rw [if_pos c] at hxl; omega
      · rw [if_neg c] at hxl; omega
    · unfold leField
      cases hb : m.is64 <;> simp only [hb, Bool.false_eq_true, ↓reduceIte] at h2 ⊢ <;> omega

theorem written_length (f h3 : Bytes) (rs : List (Nat × Nat)) (cs sigLen padding : Nat) (sigBuf : Bytes)
    (L : Layout f h3 rs cs sigLen) :
    (written f h3 rs cs sigLen padding sigBuf).length = f.length + (padding + sigBuf.length) - sigLen := by
  unfold written
  rw [sem_append]
  have h1 : (sem f [⟨cs, sigLen, zeros padding ++ sigBuf⟩]).length = f.length + (padding + sigBuf.length) - sigLen := by
    show (splice f cs sigLen (zeros padding ++ sigBuf)).length = _
    rw [splice_length]; have := L.oldInside; simp [zeros]; omega
  rw [sem_hdrPatches_length h3 _ rs L.ranges (by rw [h1]; have := L.hdrBelow; have := L.oldInside; omega), h1]

/-- below the end of the header buffer the written file IS the header buffer -/
theorem written_header (f h3 : Bytes) (rs : List (Nat × Nat)) (cs sigLen padding : Nat) (sigBuf : Bytes)
    (L : Layout f h3 rs cs sigLen) (i : Nat) (hi : i < h3.length) :
    (written f h3 rs cs sigLen padding sigBuf)[i]? = h3[i]? := by
  rw [written_getElem? f h3 rs cs sigLen padding sigBuf L i]
  cases c : inRanges rs i
  · simp only [Bool.false_eq_true, ↓reduceIte]
    rw [if_pos (by have := L.hdrBelow; omega)]
    exact (L.agree i hi c).symm
  · simp only [↓reduceIte]

theorem chainEnd_ge (l : List Load) : ∀ pos, (∀ e ∈ l, 8 ≤ e.2.2) → pos + 8 * l.length ≤ chainEnd pos l := by
  induction l with
  | nil => intro pos _; simp [chainEnd]
  | cons a t ih =>
    intro pos h
    have := ih (pos + a.2.2) (fun e he => h e (List.mem_cons_of_mem _ he))
    have := h a List.mem_cons_self
    simp only [chainEnd, List.length_cons]; omega

theorem hdrEndOf_ge (magic : Nat) : 28 ≤ hdrEndOf magic := by unfold hdrEndOf; split <;> omega

/-- what the scanner's markers mean in terms of the list the verifier's walk returns on the input -/
structure Marks (f : Bytes) (m : Markers) (loads : List Load) : Prop where
  walk : loadLoop m.be f m.nextLc (rd32 m.be f 16) (hdrEndOf m.magic) = .ok loads
  le : ∃ c s, (m.lePos, c, s) ∈ loads ∧ (c = 1 ∨ c = 0x19)
  csNone : m.loadCsStart = 0 → ∀ e ∈ loads, e.2.1 ≠ 0x1d
  csZero : m.loadCsStart = 0 → m.sigLen = 0
  sigStartLt : m.sigStart < 2 ^ 32
  sigLenLt : m.sigLen < 2 ^ 32
  csSome : m.loadCsStart ≠ 0 → ∃ s, (m.loadCsStart, 0x1d, s) ∈ loads ∧ m.sigStart = rd32 m.be f (m.loadCsStart + 8) ∧
    m.sigLen = rd32 m.be f (m.loadCsStart + 12)

theorem marks_of_scan (f : Bytes) (m : Markers) (st : ScanSt) (S : ScanInv f m st) (loads : List Load)
    (hnf : newFile f = .ok (m.be, loads)) : Marks f m loads := by
  obtain ⟨magic', hm', _, hl⟩ := newFile_inv f m.be loads hnf
  have : magic' = m.magic := by
    have := S.magic; rw [hm'] at this; injection this with this; injection this
  subst this
  rw [← S.nextLc] at hl
  obtain ⟨a, b, c⟩ := loadLoop_sound _ _ _ _ _ _ hl
  obtain ⟨i1, i2⟩ := cmdLoop_loads _ _ _ _ _ _ _ _ S.loop hl
  have hge := hdrEndOf_ge m.magic
  refine ⟨hl, ?_, ?_, ?_, ?_, ?_, ?_⟩
  · rcases i1 with h | h
    · exact absurd (S.lePos.trans h) S.lePos0
    · rw [S.lePos]; exact h
  · intro h0 e he
    rcases i2 with ⟨_, _, _, h⟩ | ⟨s, hm, _, _⟩
    · exact h e he
    · have := (chain_mem loads _ b _ hm).1
      rw [← S.loadCsStart, h0] at this
      simp only at this; omega
  · intro h0
    rcases i2 with ⟨_, _, h, _⟩ | ⟨s, hm, _, _⟩
    · rw [S.sigLen, h]
    · have := (chain_mem loads _ b _ hm).1
      rw [← S.loadCsStart, h0] at this
      simp only at this; omega
  · rcases i2 with ⟨_, h, _, _⟩ | ⟨s, _, h, _⟩
    · rw [S.sigStart, h]; decide
    · rw [S.sigStart, h]; exact rd32_lt _ _ _
  · rcases i2 with ⟨_, _, h, _⟩ | ⟨s, _, _, h⟩
    · rw [S.sigLen, h]; decide
    · rw [S.sigLen, h]; exact rd32_lt _ _ _
  · intro hne
    rcases i2 with ⟨h, _, _, _⟩ | ⟨s, hm, h1, h2⟩
    · exact absurd (S.loadCsStart.trans h) hne
    · rw [S.loadCsStart, S.sigStart, S.sigLen]; exact ⟨s, hm, h1, h2⟩

/-- **locate_fresh**: the verifier's locator on the file written in the fresh-region branch -/
theorem locate_fresh (f : Bytes) (m : Markers) (st : ScanSt) (S : ScanInv f m st) (loads : List Load)
    (M : Marks f m loads)
    (oneSig : ∀ e ∈ loads, e.2.1 = 0x1d → e.1 = m.loadCsStart ∧ e.2.2 = 16)
    (noSlack : m.loadCsStart = 0 → chainEnd (hdrEndOf m.magic) loads = m.nextLc)
    (leKind : rd32 m.be f m.lePos = 0x19 ↔ m.is64 = true)
    (x : Bytes) (a b fs : Nat) (HS : HdrSpec f m x a b fs) (hfs : fs < 2 ^ 62) (ha : a < 2 ^ 32) (hb : b < 2 ^ 32)
    (rs : List (Nat × Nat)) (cs padding : Nat) (sigBuf : Bytes) (L : Layout f x rs cs m.sigLen)
    (hsum : cs + padding = a) (hbuf : sigBuf.length = b) :
    locate (written f x rs cs m.sigLen padding sigBuf) = sigAnswer a b := by
  have hge := hdrEndOf_ge m.magic
  have hl := M.walk
  obtain ⟨hlen, hch, hok⟩ := loadLoop_sound _ _ _ _ _ _ hl
  have hpos : ∀ e ∈ loads, 0 < e.2.2 := fun e he => by have := (hok e he).2.2.1; omega
  obtain ⟨cLe, sLe, hle, hcle⟩ := M.le
  have hLe := hok _ hle
  obtain ⟨a1, a2, a3, a4, a5⟩ := hLe
  simp only at a1 a2 a3 a4 a5
  have hsz := stepChk_size _ _ _ _ _ a5
  have hk : (cLe = 0x19 ∧ m.is64 = true) ∨ (cLe = 1 ∧ m.is64 = false) := by
    rcases hcle with h | h
    · right; refine ⟨h, ?_⟩
      cases hb : m.is64
      · rfl
      · have := leKind.mpr hb; omega
    · left; exact ⟨h, leKind.mp (by omega)⟩
  have hleGe := (chain_mem loads _ hch _ hle).1
  simp only at hleGe
  have hnext := S.nextLc
  have hxl := HS.len
  have hbel := L.hdrBelow
  have hold := L.oldInside
  -- the written file, below the end of the header buffer, is the header buffer
  have G : ∀ i, i < x.length → (written f x rs cs m.sigLen padding sigBuf)[i]? = x[i]? :=
    fun i hi => written_header f x _ cs m.sigLen padding sigBuf L i hi
  have glen := written_length f x rs cs m.sigLen padding sigBuf L
  have hxn : m.nextLc ≤ x.length := by split at hxl <;> omega
  have hlcGe : 28 ≤ lcOf m := by
    unfold lcOf
    by_cases c : m.loadCsStart ≠ 0
    · rw [if_pos c]
      obtain ⟨s, hm, _⟩ := M.csSome c
      have := (chain_mem loads _ hch _ hm).1
      simp only at this; omega
    · rw [if_neg c]; omega
  have notLe : ∀ i, i < 28 → ¬ leField m.is64 m.lePos i := by
    intro i hi; unfold leField; cases m.is64 <;> simp <;> omega
  -- magic
  have hmag : readMagic (written f x rs cs m.sigLen padding sigBuf) = some (m.be, m.magic) := by
    rw [readMagic_congr f _ (fun i hi => by
      rw [G i (by omega)]
      exact HS.same i (by omega) (by omega) (notLe i (by omega)) (by omega))]
    exact S.magic
  have csr := csCmd_reads m (written f x rs cs m.sigLen padding sigBuf) (lcOf m) a b (fun j hj => by
    rw [G _ (by have := HS.csRoom; omega)]; exact HS.cs j hj)
  have ra : a % 2 ^ 32 = a := Nat.mod_eq_of_lt ha
  have rb : b % 2 ^ 32 = b := Nat.mod_eq_of_lt hb
  have hin : a + b ≤ (written f x rs cs m.sigLen padding sigBuf).length := by rw [glen]; omega
  -- the patched file size field
  have h48 : m.is64 = true → (m.lePos + 56 ≤ lcOf m ∨ lcOf m + 16 ≤ m.lePos + 48) →
      rd64 m.be (written f x rs cs m.sigLen padding sigBuf) (m.lePos + 48) < 2 ^ 63 := by
    intro hb64 hd
    rw [rd64_of_bytes m.be _ _ fs (fun j hj => by
      rw [G _ (by have := HS.leRoom; rw [hb64] at this; simp only [↓reduceIte] at this; omega)]
      exact HS.fsz hb64 hd j hj)]
    have : fs % 2 ^ 64 = fs := Nat.mod_eq_of_lt (by omega)
    omega
  by_cases c : m.loadCsStart = 0
  · -- a command is appended
    have hlc : lcOf m = m.nextLc := by unfold lcOf; rw [if_neg (by omega)]
    rw [if_pos c] at hxl
    have hend := noSlack c
    have hcnt := chainEnd_ge loads (hdrEndOf m.magic) (fun e he => (hok e he).2.2.1)
    obtain ⟨k1, k2⟩ := HS.cnt c (by omega)
    have r16 : rd32 m.be (written f x rs cs m.sigLen padding sigBuf) 16 = rd32 m.be f 16 + 1 := by
      rw [rd32_of_bytes m.be _ 16 _ (fun j hj => by rw [G _ (by omega)]; exact k1 j hj)]
      rw [Nat.mod_mod, Nat.mod_eq_of_lt (by omega)]
    have r20 : rd32 m.be (written f x rs cs m.sigLen padding sigBuf) 20 = rd32 m.be f 20 + 16 := by
      rw [rd32_of_bytes m.be _ 20 _ (fun j hj => by rw [G _ (by omega)]; exact k2 j hj)]
      rw [Nat.mod_mod, Nat.mod_eq_of_lt (by omega)]
    have hle56 : m.is64 = true → m.lePos + 56 ≤ lcOf m := by
      intro hb64
      rcases hk with ⟨k, _⟩ | ⟨_, k⟩
      · have := (hsz.2 k).1; omega
      · rw [hb64] at k; cases k
    have W := walk_patched_new m.be f (written f x rs cs m.sigLen padding sigBuf) m.nextLc (hdrEndOf m.magic)
      (rd32 m.be f 16) loads m.is64 m.lePos cLe sLe hl hend hle hk
      (fun i h1 h2 h3 => by
        rw [G i (by omega)]
        exact HS.same i h2 (by omega) h3 (by omega))
      (fun hb64 => h48 hb64 (Or.inl (hle56 hb64)))
      (by rw [← hlc]; exact csr.1) (by rw [← hlc]; exact csr.2.1)
    refine locate_of_header _ m.be m.magic (loads ++ [(m.nextLc, 0x1d, 16)]) (lcOf m) a b hmag (by rw [glen]; omega) ?_ ?_ ?_ ?_ ?_ hin
    · rw [r20, glen]; omega
    · rw [r16, r20, show hdrEndOf m.magic + (rd32 m.be f 20 + 16) = m.nextLc + 16 by omega]; exact W
    · rw [hlc]; exact find_cs_append loads _ (M.csNone c) rfl
    · rw [csr.2.2.1, ra]
    · rw [csr.2.2.2, rb]
  · -- the existing command is overwritten
    have hlc : lcOf m = m.loadCsStart := by unfold lcOf; rw [if_pos c]
    rw [if_neg c] at hxl
    obtain ⟨s, hm, _, _⟩ := M.csSome c
    have hs16 : s = 16 := (oneSig _ hm rfl).2
    subst hs16
    have hcsIn := (hok _ hm).2.2.2.1
    simp only at hcsIn
    have same24 : ∀ i, 16 ≤ i → i < 24 → (written f x rs cs m.sigLen padding sigBuf)[i]? = f[i]? := by
      intro i h1 h2
      rw [G i (by omega)]
      exact HS.same i (by omega) (fun h => c h.1) (notLe i (by omega)) (by omega)
    have r16 : rd32 m.be (written f x rs cs m.sigLen padding sigBuf) 16 = rd32 m.be f 16 :=
      rd32_congr _ _ _ _ (fun i h1 h2 => same24 i h1 (by omega))
    have r20 : rd32 m.be (written f x rs cs m.sigLen padding sigBuf) 20 = rd32 m.be f 20 :=
      rd32_congr _ _ _ _ (fun i h1 h2 => same24 i (by omega) (by omega))
    have hle56 : m.is64 = true → (m.lePos + 56 ≤ lcOf m ∨ lcOf m + 16 ≤ m.lePos + 48) := by
      intro hb64
      rcases chain_disjoint loads _ hch hpos _ hle _ hm with h | h | h
      · injection h with _ h; injection h with h _
        rcases hk with ⟨k, _⟩ | ⟨k, _⟩ <;> omega
      · simp only at h
        rcases hk with ⟨k, _⟩ | ⟨_, k⟩
        · have := (hsz.2 k).1; left; omega
        · rw [hb64] at k; cases k
      · simp only at h; right; omega
    have W := walk_patched_old m.be f (written f x rs cs m.sigLen padding sigBuf) m.nextLc (hdrEndOf m.magic)
      (rd32 m.be f 16) loads m.is64 m.lePos cLe sLe m.loadCsStart hl hm hle hk
      (fun i h1 h2 h3 h4 => by
        rw [G i (by omega)]
        exact HS.same i h2 (fun h => c h.1) h3 (by rw [hlc]; exact h4))
      (fun hb64 => h48 hb64 (hle56 hb64))
      (by rw [← hlc]; exact csr.1) (by rw [← hlc]; exact csr.2.1)
    refine locate_of_header _ m.be m.magic loads (lcOf m) a b hmag (by rw [glen]; omega) ?_ ?_ ?_ ?_ ?_ hin
    · rw [r20, glen]; omega
    · rw [r16, r20, ← hnext]; exact W
    · rw [hlc]
      exact find_cs loads _ (fun e he h => by
        obtain ⟨h1, h2⟩ := oneSig e he h
        obtain ⟨p, q, r⟩ := e
        simp only at h h1 h2
        rw [h, h1, h2]) hm
    · rw [csr.2.2.1, ra]
    · rw [csr.2.2.2, rb]

/-! ### the signed file is the reference result of the patch set -/

theorem wirePatches_concat (po : PatchOut) (A : List Patch) (off old n : Nat) (sigBuf : Bytes)
    (hp : po.patches = A ++ [⟨off, old, zeros (n + po.sigBufLen)⟩]) :
    wirePatches po sigBuf = sortByOff (build 4294967295 (A ++ [⟨off, old, zeros n ++ sigBuf⟩])) := by
  unfold wirePatches
  rw [hp]
  simp only [List.getLast?_concat, List.dropLast_concat]
  have : (zeros (n + po.sigBufLen)).take ((zeros (n + po.sigBufLen)).length - po.sigBufLen) = zeros n := by
    simp [zeros]
  rw [this]

theorem signedFile_of_constructible (f : Bytes) (po : PatchOut) (blob : Bytes) (x : Bytes) (rs : List (Nat × Nat))
    (cs sigLen n : Nat) (hb : blob.length ≤ po.sigBufLen)
    (hp : po.patches = hdrPatches x rs ++ [⟨cs, sigLen, zeros (n + po.sigBufLen)⟩])
    (hc : wfFrom f.length 0 (hdrPatches x rs ++ [⟨cs, sigLen, zeros n ++ (blob ++ zeros (po.sigBufLen - blob.length))⟩]) = true) :
    signedFile f po blob = .ok (written f x rs cs sigLen n (blob ++ zeros (po.sigBufLen - blob.length))) := by
  unfold signedFile
  rw [if_neg (by omega), wirePatches_concat po _ cs sigLen n _ hp,
    sortByOff_id f.length 0 _ (wf_build _ _ _ hc)]
  exact Relic.Props.C12.add_spec _ f _ hc

theorem addSplit_small (M off old : Nat) (blob : Bytes) (h : old ≤ M) : addSplit M off old blob = [⟨off, old, blob⟩] := by
  rw [addSplit, dif_neg (by omega)]

/-- the patch set when the existing LC_CODE_SIGNATURE command lies IN FRONT of the __LINKEDIT command: the `Add`
    calls come out of order (`le` first), nothing coalesces, `Dump` sorts, the result is the reference result for
    the ranges in ascending order -/
theorem signedFile_swapped (f : Bytes) (po : PatchOut) (blob : Bytes) (x : Bytes) (le : Nat × Nat)
    (lc cs sigLen n : Nat) (hb : blob.length ≤ po.sigBufLen)
    (hp : po.patches = hdrPatches x [le, (lc, 16)] ++ [⟨cs, sigLen, zeros (n + po.sigBufLen)⟩])
    (h0 : 0 < le.2) (h1 : lc + 16 ≤ le.1) (h2 : le.1 + le.2 ≤ cs) (h3 : cs + sigLen ≤ f.length)
    (hM1 : le.2 ≤ 4294967295) (hM2 : sigLen ≤ 4294967295) :
    signedFile f po blob = .ok (written f x [(lc, 16), le] cs sigLen n (blob ++ zeros (po.sigBufLen - blob.length))) := by
  unfold signedFile
  rw [if_neg (by omega), wirePatches_concat po _ cs sigLen n _ hp]
  have a1 : ¬ lc = le.1 + le.2 := by omega
  have a2 : ¬ cs = lc + 16 := by omega
  have hbuild : build 4294967295 (hdrPatches x [le, (lc, 16)] ++
      [⟨cs, sigLen, zeros n ++ (blob ++ zeros (po.sigBufLen - blob.length))⟩]) =
      [⟨le.1, le.2, (x.drop le.1).take le.2⟩, ⟨lc, 16, (x.drop lc).take 16⟩,
       ⟨cs, sigLen, zeros n ++ (blob ++ zeros (po.sigBufLen - blob.length))⟩] := by
    simp only [hdrPatches, List.map_cons, List.map_nil, build, List.cons_append, List.nil_append, List.foldl_cons,
      List.foldl_nil]
    have s1 : add 4294967295 [] ⟨le.1, le.2, (x.drop le.1).take le.2⟩ = [⟨le.1, le.2, (x.drop le.1).take le.2⟩] := by
      simp only [add, List.getLast?_nil, List.nil_append]; exact addSplit_small _ _ _ _ hM1
    have s2 : add 4294967295 [⟨le.1, le.2, (x.drop le.1).take le.2⟩] ⟨lc, 16, (x.drop lc).take 16⟩ =
        [⟨le.1, le.2, (x.drop le.1).take le.2⟩, ⟨lc, 16, (x.drop lc).take 16⟩] := by
      simp only [add, List.getLast?_singleton]
      rw [if_neg (fun h => a1 h.1), addSplit_small _ _ _ _ (by omega)]; rfl
    have s3 : add 4294967295 [⟨le.1, le.2, (x.drop le.1).take le.2⟩, ⟨lc, 16, (x.drop lc).take 16⟩]
        ⟨cs, sigLen, zeros n ++ (blob ++ zeros (po.sigBufLen - blob.length))⟩ =
        [⟨le.1, le.2, (x.drop le.1).take le.2⟩, ⟨lc, 16, (x.drop lc).take 16⟩,
         ⟨cs, sigLen, zeros n ++ (blob ++ zeros (po.sigBufLen - blob.length))⟩] := by
      simp only [add, List.getLast?_cons_cons, List.getLast?_singleton]
      rw [if_neg (fun h => a2 h.1), addSplit_small _ _ _ _ hM2]; rfl
    rw [s1, s2, s3]
  rw [hbuild]
  have hsort : sortByOff [⟨le.1, le.2, (x.drop le.1).take le.2⟩, ⟨lc, 16, (x.drop lc).take 16⟩,
       ⟨cs, sigLen, zeros n ++ (blob ++ zeros (po.sigBufLen - blob.length))⟩] =
      [⟨lc, 16, (x.drop lc).take 16⟩, ⟨le.1, le.2, (x.drop le.1).take le.2⟩,
       ⟨cs, sigLen, zeros n ++ (blob ++ zeros (po.sigBufLen - blob.length))⟩] := by
    simp [sortByOff, insertByOff, show ¬ le.1 ≤ lc by omega, show le.1 ≤ cs by omega, show lc ≤ cs by omega]
  rw [hsort]
  obtain ⟨r, hr, hs⟩ := rewriteLoop_spec f 0 [⟨lc, 16, (x.drop lc).take 16⟩, ⟨le.1, le.2, (x.drop le.1).take le.2⟩,
       ⟨cs, sigLen, zeros n ++ (blob ++ zeros (po.sigBufLen - blob.length))⟩] (Nat.zero_le _)
       (by simp [wfFrom]; omega)
  rw [applyRewrite, hr]
  have e : r = written f x [(lc, 16), le] cs sigLen n (blob ++ zeros (po.sigBufLen - blob.length)) := by
    have : f.take 0 ++ r = r := by simp
    rw [← this, hs]; rfl
  rw [e]

theorem layout_perm (f x : Bytes) (rs rs' : List (Nat × Nat)) (cs sigLen : Nat) (L : Layout f x rs cs sigLen)
    (h : ∀ r, r ∈ rs' ↔ r ∈ rs) : Layout f x rs' cs sigLen := by
  refine ⟨fun r hr => L.ranges r ((h r).mp hr), fun i hi hr => L.agree i hi ?_, L.hdrBelow, L.oldInside⟩
  cases c : inRanges rs i with
  | false => rfl
  | true =>
    simp only [inRanges, List.any_eq_true, decide_eq_true_eq] at c
    obtain ⟨r, hr', hc⟩ := c
    have : inRanges rs' i = true := by
      simp only [inRanges, List.any_eq_true, decide_eq_true_eq]
      exact ⟨r, (h r).mpr hr', hc⟩
    rw [this] at hr; cases hr

theorem constructible_fresh (f : Bytes) (m : Markers) (x : Bytes) (cs sigLen : Nat) (blob : Bytes)
    (hle : 28 ≤ m.lePos) (hord : (if m.is64 then m.lePos + 56 else m.lePos + 40) ≤ lcOf m)
    (hcs : lcOf m + 16 ≤ cs) (hin : cs + sigLen ≤ f.length) :
    wfFrom f.length 0 (hdrPatches x (hdrRanges m) ++ [⟨cs, sigLen, blob⟩]) = true := by
  unfold hdrPatches hdrRanges
  by_cases c : m.loadCsStart = 0 <;> cases hb : m.is64 <;>
    simp only [hb, Bool.false_eq_true, ↓reduceIte] at hord <;>
    simp [c, wfFrom] <;> omega

/-- the image that is hashed is the prefix of the written file — for the CURRENT `plan.stream` (rest of the file cut at
    the end of code), without any assumption on what lies behind the end of code -/
theorem written_take_stream (f h3 : Bytes) (rs : List (Nat × Nat)) (cs sigLen padding : Nat) (sigBuf : Bytes)
    (L : Layout f h3 rs cs sigLen) :
    (written f h3 rs cs sigLen padding sigBuf).take (cs + padding) =
      (h3 ++ (f.drop h3.length).take (cs - h3.length) ++ zeros padding).take (cs + padding) := by
  apply List.ext_getElem?
  intro i
  have hcs : cs ≤ f.length := by have := L.oldInside; omega
  have hh := L.hdrBelow
  have hrl : ((f.drop h3.length).take (cs - h3.length)).length = cs - h3.length := by
    simp only [List.length_take, List.length_drop]; omega
  by_cases ci : i < cs + padding
  · rw [List.getElem?_take_of_lt ci, List.getElem?_take_of_lt ci]
    by_cases c2 : i < h3.length
    · rw [written_header f h3 rs cs sigLen padding sigBuf L i c2, List.append_assoc, List.getElem?_append_left c2]
    · have c0 : inRanges rs i = false := by
        cases h : inRanges rs i with
        | false => rfl
        | true =>
          simp only [inRanges, List.any_eq_true, decide_eq_true_eq] at h
          obtain ⟨r, hr, h1, h2⟩ := h
          have := L.ranges r hr
          omega
      rw [written_getElem? f h3 rs cs sigLen padding sigBuf L i, c0]
      simp only [Bool.false_eq_true, ↓reduceIte]
      by_cases c1 : i < cs
      · rw [if_pos c1, List.append_assoc, List.getElem?_append_right (by omega),
          List.getElem?_append_left (by rw [hrl]; omega), List.getElem?_take_of_lt (by omega), List.getElem?_drop]
        congr 1; omega
      · rw [if_neg c1, if_pos ci, List.getElem?_append_right (by rw [List.length_append, hrl]; omega)]
        simp only [zeros, List.getElem?_replicate, List.length_append, hrl]
        rw [if_pos (by omega)]
  · rw [List.getElem?_eq_none_iff.mpr (by simp only [List.length_take]; omega),
        List.getElem?_eq_none_iff.mpr (by simp only [List.length_take]; omega)]

/-- the signature region of the written file is the signature buffer -/
theorem written_slice (f h3 : Bytes) (rs : List (Nat × Nat)) (cs sigLen padding : Nat) (sigBuf : Bytes)
    (L : Layout f h3 rs cs sigLen) :
    sliceOf (written f h3 rs cs sigLen padding sigBuf) (cs + padding) sigBuf.length = sigBuf := by
  unfold sliceOf
  apply slice_eq_of_getElem?
  intro j hj
  have c0 : inRanges rs (cs + padding + j) = false := by
    cases h : inRanges rs (cs + padding + j) with
    | false => rfl
    | true =>
      simp only [inRanges, List.any_eq_true, decide_eq_true_eq] at h
      obtain ⟨r, hr, h1, h2⟩ := h
      have := L.ranges r hr
      have := L.hdrBelow
      omega
  rw [written_getElem? f h3 rs cs sigLen padding sigBuf L, c0]
  simp only [Bool.false_eq_true, ↓reduceIte]
  rw [if_neg (by omega), if_neg (by omega), if_pos (by omega)]
  congr 1; omega

/-! ### what successful `plan` / `sign` say -/

theorem plan_inv (f : Bytes) (hashSize entLen reqLen : Nat) (pl : Plan) (h : planOrig f hashSize entLen reqLen = .ok pl) :
    scanOrig f = .ok pl.m ∧
    patchSignature pl.m (f.take pl.m.consumed)
      (Int.tdiv (pl.m.codeSize * (20 + hashSize : Nat)) 4096 + (entLen + reqLen : Nat) + 16384) = .ok pl.po ∧
    pl.po.newHeader.length - pl.m.consumed ≤ f.length - pl.m.consumed ∧
    pl.stream = (pl.po.newHeader ++
        (f.drop (pl.m.consumed + (pl.po.newHeader.length - pl.m.consumed))).take
          (pl.m.codeSize - (pl.po.newHeader.length : Int)).toNat ++ zeros pl.po.padding).take pl.po.sigStart := by
  unfold planOrig at h
  cases hs : scanOrig f with
  | err e => rw [hs] at h; cases h
  | panic e => rw [hs] at h; cases h
  | diverge => rw [hs] at h; cases h
  | ok m =>
    rw [hs] at h
    simp only [] at h
    cases hp : patchSignature m (f.take m.consumed)
        (Int.tdiv (m.codeSize * (20 + hashSize : Nat)) 4096 + (entLen + reqLen : Nat) + 16384) with
    | err e => rw [hp] at h; cases h
    | panic e => rw [hp] at h; cases h
    | diverge => rw [hp] at h; cases h
    | ok po =>
      rw [hp] at h
      simp only [] at h
      split at h
      · cases h
      · rename_i hlen
        injection h with h; subst h
        refine ⟨rfl, hp, ?_, rfl⟩
        show po.newHeader.length - m.consumed ≤ f.length - m.consumed
        omega

theorem signBlob_limit (p : SignParams) (stream : Bytes) (sg : Signed) (h : signBlob p stream = .ok sg) :
    sg.pages.limit = stream.length := by
  unfold signBlob at h
  simp only [] at h
  split at h
  · cases h
  · cases h
  · cases h
  · split at h
    · injection h with h; subst h
      simp only [hashPages]; split <;> rfl
    · cases h
    · cases h
    · cases h

theorem sign_inv (f : Bytes) (p : SignParams) (so : SignOut) (h : signOrig f p = .ok so) :
    ∃ hashSize entLen reqLen, planOrig f hashSize entLen reqLen = .ok so.plan ∧ so.signed.pages.limit = so.plan.stream.length ∧
      hashSize = hashSizeOf p.hash ∧ entLen = (p.entitlement.map (·.length)).getD 0 ∧
      reqLen = (p.requirements.map (·.length)).getD 0 := by
  unfold signOrig at h
  split at h
  · cases h
  · cases h
  · cases h
  · rename_i pl hpl
    split at h
    · cases h
    · cases h
    · cases h
    · rename_i p' opq hd
      split at h
      · rename_i sg hsg
        injection h with h; subst h
        exact ⟨_, _, _, hpl, signBlob_limit _ _ _ hsg, rfl, rfl, rfl⟩
      · cases h
      · cases h
      · cases h

/-! ### the reuse branch -/

/-- **locate_reuse**: the old signature region overwritten in place, header untouched -/
theorem locate_reuse (f : Bytes) (m : Markers) (st : ScanSt) (S : ScanInv f m st) (loads : List Load)
    (M : Marks f m loads)
    (oneSig : ∀ e ∈ loads, e.2.1 = 0x1d → e.1 = m.loadCsStart ∧ e.2.2 = 16)
    (hsl : m.sigLen ≠ 0)
    (sigBuf : Bytes) (hbuf : sigBuf.length = m.sigLen)
    (L : Layout f (f.take m.nextLc) [] m.sigStart m.sigLen) :
    locate (written f (f.take m.nextLc) [] m.sigStart m.sigLen 0 sigBuf) = sigAnswer m.sigStart m.sigLen := by
  have hge := hdrEndOf_ge m.magic
  have hl := M.walk
  obtain ⟨hlen, hch, hok⟩ := loadLoop_sound _ _ _ _ _ _ hl
  have hnext := S.nextLc
  have hstop := S.stopLe
  have hxl : (f.take m.nextLc).length = m.nextLc := by rw [List.length_take]; omega
  have hold := L.oldInside
  have G : ∀ i, i < m.nextLc → (written f (f.take m.nextLc) [] m.sigStart m.sigLen 0 sigBuf)[i]? = f[i]? := by
    intro i hi
    rw [written_header f _ _ _ _ _ _ L i (by omega), List.getElem?_take_of_lt hi]
  have glen := written_length f (f.take m.nextLc) [] m.sigStart m.sigLen 0 sigBuf L
  have hc : m.loadCsStart ≠ 0 := fun h => hsl (M.csZero h)
  obtain ⟨s, hm, e1, e2⟩ := M.csSome hc
  have hs16 : s = 16 := (oneSig _ hm rfl).2
  subst hs16
  have hcsIn := (hok _ hm).2.2.2.1
  simp only at hcsIn
  refine locate_of_header _ m.be m.magic loads m.loadCsStart _ _ ?_ (by rw [glen]; omega) ?_ ?_ ?_ ?_ ?_
    (by rw [glen]; omega)
  · rw [readMagic_congr f _ (fun i hi => G i (by omega))]; exact S.magic
  · rw [rd32_congr _ f _ 20 (fun i h1 h2 => G i (by omega)), glen]; omega
  · rw [rd32_congr _ f _ 20 (fun i h1 h2 => G i (by omega)), rd32_congr _ f _ 16 (fun i h1 h2 => G i (by omega)), ← hnext]
    exact loadLoop_agree m.be f _ m.nextLc m.nextLc _ _ loads (Nat.le_refl _) (fun i _ h2 => G i h2) hl
  · exact find_cs loads _ (fun e he h => by
      obtain ⟨h1, h2⟩ := oneSig e he h
      obtain ⟨p, q, r⟩ := e
      simp only at h h1 h2
      rw [h, h1, h2]) hm
  · rw [rd32_congr _ f _ _ (fun i h1 h2 => G i (by omega)), e1]
  · rw [rd32_congr _ f _ _ (fun i h1 h2 => G i (by omega)), e2]

/-- where the LC_CODE_SIGNATURE command that gets written lies relative to the recorded __LINKEDIT command: behind it
    (always so when the command is appended), or — an existing command only — in front of it -/
theorem cs_position (f : Bytes) (m : Markers) (loads : List Load) (M : Marks f m loads)
    (oneSig : ∀ e ∈ loads, e.2.1 = 0x1d → e.1 = m.loadCsStart ∧ e.2.2 = 16) :
    28 ≤ m.lePos ∧ (m.lePos + 56 ≤ lcOf m ∨ (m.loadCsStart ≠ 0 ∧ lcOf m + 16 ≤ m.lePos ∧ 28 ≤ lcOf m)) := by
  have hge := hdrEndOf_ge m.magic
  obtain ⟨hlen, hch, hok⟩ := loadLoop_sound _ _ _ _ _ _ M.walk
  have hpos : ∀ e ∈ loads, 0 < e.2.2 := fun e he => by have := (hok e he).2.2.1; omega
  obtain ⟨cLe, sLe, hle, hcle⟩ := M.le
  obtain ⟨a1, a2, a3, a4, a5⟩ := hok _ hle
  simp only at a1 a2 a3 a4 a5
  have hsz := stepChk_size _ _ _ _ _ a5
  have h56 : 56 ≤ sLe := by
    rcases hcle with h | h
    · exact hsz.1 h
    · have := (hsz.2 h).1; omega
  have hleGe := (chain_mem loads _ hch _ hle).1
  simp only at hleGe
  refine ⟨by omega, ?_⟩
  unfold lcOf
  by_cases c : m.loadCsStart ≠ 0
  · rw [if_pos c]
    obtain ⟨s, hm, _⟩ := M.csSome c
    have hs16 : s = 16 := (oneSig _ hm rfl).2
    subst hs16
    have hcsGe := (chain_mem loads _ hch _ hm).1
    simp only at hcsGe
    rcases chain_disjoint loads _ hch hpos _ hle _ hm with h | h | h
    · injection h with _ h; injection h with h _
      rcases hcle with k | k <;> omega
    · simp only at h; left; omega
    · simp only at h; right; exact ⟨c, h, by omega⟩
  · rw [if_neg c]; left; omega

/-! ### assembly -/

/-- a reserved region of at most 10^7 bytes forces the end of code below 2^32 − 8: `uint32(sigStart)` cannot truncate
    before `readSigBlob`'s size limit strikes -/
theorem cs_lt_of_small (cs k e : Nat) (c : Int) (hc : c = (cs : Int)) (hk : 20 ≤ k)
    (h : align (Int.tdiv (c * (k : Nat)) 4096 + (e : Nat) + 16384).toNat 8 ≤ 10000000) : cs + 8 < 2 ^ 32 := by
  subst hc
  have h1 : Int.tdiv ((cs : Int) * (k : Nat)) 4096 = ((cs * k / 4096 : Nat) : Int) := by
    rw [← Int.natCast_mul]; exact (Int.ofNat_tdiv _ _).symm
  rw [h1] at h
  have h2 : cs * 20 ≤ cs * k := Nat.mul_le_mul_left _ hk
  have h3 : cs * 20 / 4096 ≤ cs * k / 4096 := Nat.div_le_div_right h2
  have h4 : ∀ x, x ≤ align x 8 := by intro x; unfold align; split <;> omega
  have := h4 (((cs * k / 4096 : Nat) : Int) + (e : Nat) + 16384).toNat
  omega

theorem chainEnd_sum (loads : List Load) (pos : Nat) : chainEnd pos loads = pos + (loads.map (fun e => e.2.2)).sum :=
  chainEnd_eq_sum loads pos

/-- **sign_then_locate_core**: both branches of `patchSignature`; the hypotheses are the fields of
    `Relic.Props.C01.Regular` -/
theorem sign_then_locate_core (f : Bytes) (p : SignParams) (so : SignOut) (blob : Bytes) (loads : List Load)
    (hs : signOrig f p = .ok so)
    (accepts : newFile f = .ok (so.plan.m.be, loads))
    (oneSig : ∀ e ∈ loads, e.2.1 = 0x1d → e.1 = so.plan.m.loadCsStart ∧ e.2.2 = 16)
    (noSlack : so.plan.m.loadCsStart = 0 →
      hdrEndOf so.plan.m.magic + (loads.map (fun e => e.2.2)).sum = so.plan.m.nextLc)
    (leKind : rd32 so.plan.m.be f so.plan.m.lePos = 0x19 ↔ so.plan.m.is64 = true)
    (hdrBelow : (so.plan.po.newHeader.length : Int) ≤ so.plan.m.codeSize)
    (oldInside : so.plan.m.codeSize + so.plan.m.sigLen ≤ f.length)
    (small : so.plan.po.sigBufLen ≤ 10000000 ∨ (so.plan.po.sigStart < 2 ^ 32 ∧ so.plan.po.sigBufLen < 2 ^ 32))
    (hb : blob.length ≤ so.plan.po.sigBufLen) :
    ∃ g, signedFile f so.plan.po blob = .ok g ∧
      locate g = sigAnswer so.plan.po.sigStart so.plan.po.sigBufLen ∧
      g.take so.plan.po.sigStart = so.plan.stream ∧
      sliceOf g so.plan.po.sigStart so.plan.po.sigBufLen = blob ++ zeros (so.plan.po.sigBufLen - blob.length) ∧
      so.signed.pages.limit = so.plan.po.sigStart := by
  obtain ⟨hashSize, entLen, reqLen, hpl, hlim, _, _, _⟩ := sign_inv f p so hs
  generalize so.plan = pl at *
  obtain ⟨hscan, hpatch, hext, hstream⟩ := plan_inv f hashSize entLen reqLen pl hpl
  obtain ⟨m, po, stream, oldSig⟩ := pl
  simp only at *
  obtain ⟨st, S⟩ := scan_inv f m hscan
  have M := marks_of_scan f m st S loads accepts
  have hge := hdrEndOf_ge m.magic
  have hnext := S.nextLc
  have hstop := S.stopLe
  rw [S.consumed] at hpatch hext hstream
  have hsb : (blob ++ zeros (po.sigBufLen - blob.length)).length = po.sigBufLen := by
    simp [zeros]; omega
  by_cases hre : (m.sigLen : Int) ≥ Int.tdiv (m.codeSize * (20 + hashSize : Nat)) 4096 + (entLen + reqLen : Nat) + 16384
  · -- the old region is reused
    have hpo := patchSignature_reuse m _ _ po hre hpatch
    subst hpo
    simp only at *
    have hxl : (f.take m.nextLc).length = m.nextLc := by rw [List.length_take]; omega
    have hcs0 : 0 ≤ m.codeSize := by omega
    have hsl : m.sigLen ≠ 0 := by
      intro h0
      have h1 : 0 ≤ Int.tdiv (m.codeSize * (20 + hashSize : Nat)) 4096 :=
        Int.tdiv_nonneg (Int.mul_nonneg hcs0 (by omega)) (by omega)
      rw [h0] at hre
      omega
    have hcs := S.codeSize hsl
    have L : Layout f (f.take m.nextLc) [] m.sigStart m.sigLen :=
      ⟨fun r hr => (by cases hr), fun i hi _ => List.getElem?_take_of_lt (by omega), by omega, by omega⟩
    refine ⟨_, signedFile_of_constructible f _ blob (f.take m.nextLc) [] m.sigStart m.sigLen 0 hb
      (by simp [hdrPatches]) (by simp [hdrPatches, wfFrom]; omega), ?_, ?_, ?_, ?_⟩
    · exact locate_reuse f m st S loads M oneSig hsl _ hsb L
    · have := written_take_stream f (f.take m.nextLc) [] m.sigStart m.sigLen 0 (blob ++ zeros (m.sigLen - blob.length)) L
      rw [Nat.add_zero] at this
      have e1 : m.nextLc + ((f.take m.nextLc).length - m.nextLc) = (f.take m.nextLc).length := by omega
      have e2 : (m.codeSize - ((f.take m.nextLc).length : Int)).toNat = m.sigStart - (f.take m.nextLc).length := by omega
      rw [this, hstream, e1, e2]
    · have := written_slice f (f.take m.nextLc) [] m.sigStart m.sigLen 0 (blob ++ zeros (m.sigLen - blob.length)) L
      rw [Nat.add_zero, hsb] at this
      exact this
    · rw [hlim, hstream, List.length_take, List.length_append, List.length_append, hxl, List.length_take,
        List.length_drop]
      simp only [zeros, List.length_replicate]
      omega
  · -- a fresh region
    have F := patchSignature_fresh m _ _ po hre hpatch
    have HS := fresh_hdrSpec f m _ po hstop (by omega) F
    have hcs0 := F.csNonneg
    have hxl := HS.len
    have hxn : m.nextLc ≤ po.newHeader.length := by split at hxl <;> omega
    have L0 := spec_layout f m po.newHeader _ _ _ HS m.codeSize.toNat (by omega) (by omega) (by omega)
    have hord := cs_position f m loads M oneSig
    have hsum : m.codeSize.toNat + po.padding = po.sigStart := by
      rw [F.padding, F.sigStart]; have := F.startGe; omega
    have off32 : po.sigStart < 2 ^ 32 := by
      rcases small with small | ⟨h, _⟩
      · have h1 := cs_lt_of_small m.codeSize.toNat (20 + hashSize) (entLen + reqLen) m.codeSize
          (Int.toNat_of_nonneg hcs0).symm (by omega) (by rw [← F.sigBufLen]; exact small)
        have h2 := M.sigStartLt
        rw [F.sigStart]; unfold freshSigStart
        split
        · have : align m.codeSize.toNat 8 < m.codeSize.toNat + 8 := by unfold align; split <;> omega
          omega
        · exact h2
      · exact h
    have len32 : po.sigBufLen < 2 ^ 32 := by
      rcases small with small | ⟨_, h⟩
      · omega
      · exact h
    -- the patch set, in whichever order the header ranges come
    obtain ⟨rs, L, hsf⟩ : ∃ rs, Layout f po.newHeader rs m.codeSize.toNat m.sigLen ∧
        signedFile f po blob = .ok (written f po.newHeader rs m.codeSize.toNat m.sigLen po.padding
          (blob ++ zeros (po.sigBufLen - blob.length))) := by
      rcases hord.2 with hasc | ⟨hne, hdesc, hlc28⟩
      · exact ⟨hdrRanges m, L0, signedFile_of_constructible f po blob po.newHeader (hdrRanges m) m.codeSize.toNat m.sigLen
          po.padding hb F.patches
          (constructible_fresh f m _ _ _ _ hord.1 (by split <;> omega) (by have := HS.csRoom; omega) (by omega))⟩
      · have hr : hdrRanges m = [(if m.is64 then (m.lePos + 32, 24) else (m.lePos + 28, 12)), (lcOf m, 16)] := by
          unfold hdrRanges; rw [if_pos hne]; rfl
        have hp := F.patches
        rw [hr] at hp
        have hroom := HS.leRoom
        have hsl := M.sigLenLt
        refine ⟨[(lcOf m, 16), (if m.is64 then (m.lePos + 32, 24) else (m.lePos + 28, 12))],
          layout_perm _ _ _ _ _ _ L0 (by intro r; rw [hr]; simp only [List.mem_cons, List.mem_nil_iff, or_false]; exact Or.comm),
          signedFile_swapped f po blob po.newHeader _ (lcOf m) m.codeSize.toNat m.sigLen po.padding hb hp ?_ ?_ ?_ (by omega) ?_
            (by omega)⟩
        · cases hb64 : m.is64 <;> simp
        · cases hb64 : m.is64 <;> simp <;> omega
        · cases hb64 : m.is64 <;> simp only [hb64, Bool.false_eq_true, ↓reduceIte] at hroom ⊢ <;> omega
        · cases hb64 : m.is64 <;> simp
    refine ⟨_, hsf, ?_, ?_, ?_, ?_⟩
    · have := locate_fresh f m st S loads M oneSig (fun c => by rw [chainEnd_sum]; exact noSlack c) leKind
        po.newHeader _ _ _ HS F.filesz (by rw [← F.sigStart]; exact off32) (by rw [← F.sigBufLen]; exact len32)
        rs m.codeSize.toNat po.padding (blob ++ zeros (po.sigBufLen - blob.length)) L (by rw [← F.sigStart]; exact hsum)
        (by rw [hsb, F.sigBufLen])
      rw [this, F.sigStart, F.sigBufLen]
    · have := written_take_stream f po.newHeader rs m.codeSize.toNat m.sigLen po.padding
        (blob ++ zeros (po.sigBufLen - blob.length)) L
      rw [hsum] at this
      have e1 : m.nextLc + (po.newHeader.length - m.nextLc) = po.newHeader.length := by omega
      have e2 : (m.codeSize - (po.newHeader.length : Int)).toNat = m.codeSize.toNat - po.newHeader.length := by omega
      rw [this, hstream, e1, e2]
    · have := written_slice f po.newHeader rs m.codeSize.toNat m.sigLen po.padding
        (blob ++ zeros (po.sigBufLen - blob.length)) L
      rw [hsum, hsb] at this
      exact this
    · rw [hlim, hstream, List.length_take, List.length_append, List.length_append, List.length_take,
        List.length_drop]
      simp only [zeros, List.length_replicate]
      omega

theorem sigAnswer_small (a b : Nat) (h : b ≤ 10000000) : sigAnswer a b = .ok (a, b) := by
  unfold sigAnswer; rw [if_neg (by omega)]

theorem sigAnswer_large (a b : Nat) (h : 10000000 < b) : sigAnswer a b = .err "toolarge" := by
  unfold sigAnswer; rw [if_pos h]

/-- **large_signature_refused** (defect candidate in relic: `Sign` reserves without upper limit, `readSigBlob` refuses
    more than 10^7 bytes).  For a regular image (hypotheses = the fields of `Relic.Props.C01.RegularImage`) whose
    reserved region exceeds 10^7 bytes, offsets still within 32 bits, everything else goes through — the signed file
    exists and its prefix is the hashed stream — but the locator refuses it.  With SHA-256 and no entitlements this is
    every image with `codeSize ≥ 786401832`. -/
theorem large_signature_refused (f : Bytes) (p : SignParams) (so : SignOut) (blob : Bytes) (loads : List Load)
    (hs : signOrig f p = .ok so)
    (accepts : newFile f = .ok (so.plan.m.be, loads))
    (oneSig : ∀ e ∈ loads, e.2.1 = 0x1d → e.1 = so.plan.m.loadCsStart ∧ e.2.2 = 16)
    (noSlack : so.plan.m.loadCsStart = 0 →
      hdrEndOf so.plan.m.magic + (loads.map (fun e => e.2.2)).sum = so.plan.m.nextLc)
    (leKind : rd32 so.plan.m.be f so.plan.m.lePos = 0x19 ↔ so.plan.m.is64 = true)
    (hdrBelow : (so.plan.po.newHeader.length : Int) ≤ so.plan.m.codeSize)
    (oldInside : so.plan.m.codeSize + so.plan.m.sigLen ≤ f.length)
    (hbig : 10000000 < so.plan.po.sigBufLen)
    (h32 : so.plan.po.sigStart < 2 ^ 32 ∧ so.plan.po.sigBufLen < 2 ^ 32)
    (hb : blob.length ≤ so.plan.po.sigBufLen) :
    ∃ g, signedFile f so.plan.po blob = .ok g ∧ locate g = .err "toolarge" ∧
      g.take so.plan.po.sigStart = so.plan.stream := by
  obtain ⟨g, h1, h2, h3, _⟩ := sign_then_locate_core f p so blob loads hs accepts oneSig noSlack leKind
    hdrBelow oldInside (Or.inr h32) hb
  exact ⟨g, h1, by rw [h2, sigAnswer_large _ _ hbig], h3⟩

/-! ### evaluating `sign` on concrete images (after `scan` has been evaluated through `scan_eq_L`) -/

/-- `planOrig` behind the scan -/
def planFrom (f : Bytes) (m : Markers) (hashSize entLen reqLen : Nat) : Res Plan :=
  let est : Int := Int.tdiv (m.codeSize * (20 + hashSize : Nat)) 4096 + (entLen + reqLen : Nat) + 16384
  match patchSignature m (f.take m.consumed) est with
  | .err e => .err e
  | .panic p => .panic p
  | .diverge => .diverge
  | .ok po =>
    let extended := po.newHeader.length - m.consumed
    if f.length - m.consumed < extended then .err "eof" else
    let rest := (f.drop (m.consumed + extended)).take (m.codeSize - (po.newHeader.length : Int)).toNat
    let stream := (po.newHeader ++ rest ++ zeros po.padding).take po.sigStart
    let fromR := min rest.length (po.sigStart - po.newHeader.length)
    .ok ⟨m, po, stream, if m.sigLen ≠ 0 then some (((f.drop (m.consumed + extended)).drop fromR).take m.sigLen) else none⟩

theorem plan_of_scan (f : Bytes) (m : Markers) (hashSize entLen reqLen : Nat) (h : scanOrig f = .ok m) :
    planOrig f hashSize entLen reqLen = planFrom f m hashSize entLen reqLen := by
  unfold planOrig planFrom; rw [h]; rfl

/-- `signOrig` behind the plan -/
def signFrom (p : SignParams) (r : Res Plan) : Res SignOut :=
  match r with
  | .err e => .err e
  | .panic s => .panic s
  | .diverge => .diverge
  | .ok pl =>
    match defaults p pl.oldSig with
    | .err e => .err e
    | .panic s => .panic s
    | .diverge => .diverge
    | .ok (p', opq) =>
      match signBlob p' pl.stream with
      | .ok s => .ok ⟨pl, s, opq⟩
      | .err e => .err e
      | .panic s => .panic s
      | .diverge => .diverge

theorem sign_of_scan (f : Bytes) (p : SignParams) (m : Markers) (h : scanOrig f = .ok m) :
    signOrig f p = signFrom p (planFrom f m (hashSizeOf p.hash) ((p.entitlement.map (·.length)).getD 0)
      ((p.requirements.map (·.length)).getD 0)) := by
  rw [← plan_of_scan f m _ _ _ h]; rfl

/-! ### helpers for concrete witnesses -/

/-- the size estimate of `machos.Sign` -/
def estOf (m : Markers) (p : SignParams) : Int :=
  Int.tdiv (m.codeSize * (20 + hashSizeOf p.hash : Nat)) 4096 +
    ((p.entitlement.map (·.length)).getD 0 + (p.requirements.map (·.length)).getD 0 : Nat) + 16384

/-- a successful `signOrig` whose scan is known and whose old region (if any) is too small -/
theorem sign_fresh_facts (f : Bytes) (p : SignParams) (so : SignOut) (m : Markers) (hs : signOrig f p = .ok so)
    (hscan : scanOrig f = .ok m) (hn : ¬ (m.sigLen : Int) ≥ estOf m p) :
    so.plan.m = m ∧ Fresh m (f.take m.nextLc) (estOf m p) so.plan.po ∧
    HdrSpec f m so.plan.po.newHeader (freshSigStart m) (align (estOf m p).toNat 8)
      (fileszOf m (freshSigStart m) (align (estOf m p).toNat 8)) := by
  obtain ⟨hashSize, entLen, reqLen, hpl, _, e1, e2, e3⟩ := sign_inv f p so hs
  subst e1; subst e2; subst e3
  obtain ⟨hscan', hpatch, _, _⟩ := plan_inv f _ _ _ so.plan hpl
  have hm : so.plan.m = m := by rw [hscan] at hscan'; injection hscan' with h; exact h.symm
  rw [hm] at hpatch
  obtain ⟨st, S⟩ := scan_inv f m hscan
  rw [S.consumed] at hpatch
  have F := patchSignature_fresh m _ _ so.plan.po hn hpatch
  have hge := hdrEndOf_ge m.magic
  have := S.nextLc
  exact ⟨hm, F, fresh_hdrSpec f m _ so.plan.po S.stopLe (by omega) F⟩

/-- a successful `signOrig` whose scan is known and whose old region is big enough -/
theorem sign_reuse_facts (f : Bytes) (p : SignParams) (so : SignOut) (m : Markers) (hs : signOrig f p = .ok so)
    (hscan : scanOrig f = .ok m) (hn : (m.sigLen : Int) ≥ estOf m p) :
    so.plan.m = m ∧ so.plan.po = ⟨f.take m.nextLc, m.sigLen, m.sigStart, 0, [⟨m.sigStart, m.sigLen, zeros m.sigLen⟩]⟩ := by
  obtain ⟨hashSize, entLen, reqLen, hpl, _, e1, e2, e3⟩ := sign_inv f p so hs
  subst e1; subst e2; subst e3
  obtain ⟨hscan', hpatch, _, _⟩ := plan_inv f _ _ _ so.plan hpl
  have hm : so.plan.m = m := by rw [hscan] at hscan'; injection hscan' with h; exact h.symm
  rw [hm] at hpatch
  obtain ⟨st, S⟩ := scan_inv f m hscan
  rw [S.consumed] at hpatch
  exact ⟨hm, patchSignature_reuse m _ _ so.plan.po hn hpatch⟩

/-- the written file of the fresh-region branch, given the order of the patched ranges -/
theorem fresh_signedFile (f : Bytes) (m : Markers) (sigSize0 : Int) (po : PatchOut) (blob : Bytes)
    (F : Fresh m (f.take m.nextLc) sigSize0 po)
    (HS : HdrSpec f m po.newHeader (freshSigStart m) (align sigSize0.toNat 8)
      (fileszOf m (freshSigStart m) (align sigSize0.toNat 8)))
    (h28 : 28 ≤ m.nextLc) (hle : 28 ≤ m.lePos) (hord : m.lePos + 56 ≤ lcOf m)
    (hbel : po.newHeader.length ≤ m.codeSize.toNat) (hin : m.codeSize.toNat + m.sigLen ≤ f.length)
    (hb : blob.length ≤ po.sigBufLen) :
    Layout f po.newHeader (hdrRanges m) m.codeSize.toNat m.sigLen ∧
    signedFile f po blob = .ok (written f po.newHeader (hdrRanges m) m.codeSize.toNat m.sigLen po.padding
      (blob ++ zeros (po.sigBufLen - blob.length))) := by
  have L := spec_layout f m po.newHeader _ _ _ HS m.codeSize.toNat h28 hbel hin
  exact ⟨L, signedFile_of_constructible f po blob po.newHeader (hdrRanges m) m.codeSize.toNat m.sigLen po.padding hb
    F.patches (constructible_fresh f m _ _ _ _ hle (by split <;> omega) (by have := HS.csRoom; omega) hin)⟩

/-- the model of `debug/macho` is partial: a first load command of a kind whose decoding is not modelled
    (LC_SYMTAB, LC_DYSYMTAB, LC_LOAD_DYLIB, LC_RPATH) makes the locator answer "unmodelled" -/
theorem locate_unmodelled (g : Bytes) (be : Bool) (magic n : Nat)
    (hm : readMagic g = some (be, magic)) (h28 : 28 ≤ g.length)
    (hlen : hdrEndOf magic + rd32 be g 20 ≤ g.length) (hn : rd32 be g 16 = n + 1)
    (hs1 : 8 ≤ rd32 be g (hdrEndOf magic + 4)) (hs2 : rd32 be g (hdrEndOf magic + 4) ≤ rd32 be g 20)
    (hc : rd32 be g (hdrEndOf magic) = 0x8000001c ∨ rd32 be g (hdrEndOf magic) = 0xc ∨ rd32 be g (hdrEndOf magic) = 0x2 ∨
      rd32 be g (hdrEndOf magic) = 0xb) :
    locate g = .err "unmodelled" := by
  have hw : loadLoop be g (hdrEndOf magic + rd32 be g 20) (n + 1) (hdrEndOf magic) = .err "unmodelled" := by
    rw [loadLoop_succ, if_neg (by omega), if_neg (by omega)]
    have : stepChk be g (hdrEndOf magic) (rd32 be g (hdrEndOf magic)) (rd32 be g (hdrEndOf magic + 4)) = .err "unmodelled" := by
      unfold stepChk; rw [if_pos hc]
    rw [this]
  have nf : newFile g = .err "unmodelled" := by
    unfold newFile
    rw [if_neg (by omega), hm]
    simp only []
    rw [if_neg (by omega)]
    unfold hdrEndOf at hlen hw
    rw [if_neg (by omega), hn, hw]
  unfold locate
  rw [nf]

theorem locate_err_of_walk (g : Bytes) (be : Bool) (magic : Nat) (e : String)
    (hm : readMagic g = some (be, magic)) (h28 : 28 ≤ g.length)
    (hlen : hdrEndOf magic + rd32 be g 20 ≤ g.length)
    (hw : loadLoop be g (hdrEndOf magic + rd32 be g 20) (rd32 be g 16) (hdrEndOf magic) = .err e) :
    locate g = .err e := by
  have nf : newFile g = .err e := by
    unfold newFile
    rw [if_neg (by omega), hm]
    simp only []
    rw [if_neg (by omega)]
    unfold hdrEndOf at hlen hw
    rw [if_neg (by omega), hw]
  unfold locate
  rw [nf]

/-- a command that passes, followed by a failing walk -/
theorem loadLoop_cons_err (be : Bool) (g : Bytes) (stop n : Nat) (e : Load) (err : String)
    (h : StepOK be g stop e) (hr : loadLoop be g stop n (e.1 + e.2.2) = .err err) :
    loadLoop be g stop (n + 1) e.1 = .err err := by
  obtain ⟨h1, h2, h3, h4, h5⟩ := h
  rw [loadLoop_succ, h1, h2, h5, if_neg (by omega), if_neg (by omega)]
  simp only [hr]

/-- a command whose size field is below 8 stops the walk -/
theorem loadLoop_cmdsize (be : Bool) (g : Bytes) (stop n pos : Nat) (h8 : 8 ≤ stop - pos) (hs : rd32 be g (pos + 4) < 8) :
    loadLoop be g stop (n + 1) pos = .err "cmdsize" := by
  rw [loadLoop_succ, if_neg (by omega), if_pos (Or.inl hs)]

end Relic.MachO

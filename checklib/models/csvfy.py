"""Apple code-signature verifier, decision logic (C02, C01, C08, C11): Relic.Model.CsVerify vs lib/fruit/csblob Verify /
checkCDHashes / checkPlistHashes / bestDir / VerifyPages, lib/fruit/machos Verify, signers/macho verifyFat / verifyIPA on
structurally mutated, really signed Mach-O images; signing histories with growing signature slots vs lib/fruit/machos
PatchSignature.  The model answers with a PLAN (ordered hash comparisons + structural verdict); this module evaluates it
with hashlib."""
import hashlib, types

TOKENS = ["CSV"]
RULE = ("CSV: thin Mach-O images built by the harness (32/64-bit, __TEXT 4095..8200 bytes around the page boundary, unaligned "
        "__LINKEDIT ends) are signed with relic's machos.Sign (SHA-1 / SHA-256 / SHA-384; requirements, entitlements, DER "
        "entitlements, Info.plist and CodeResources bound; RSA-2048 / P-256), the superblob is taken apart by the harness's own "
        "reader and re-marshalled: code byte / header byte changed; an alternate code directory (SHA-1 / SHA-256 / SHA-384, slots "
        "0x1000 / 0x1005, in front of or behind the signed one) nobody vouched for, over altered or unaltered code; the signed "
        "directory replaced / duplicated in slot 0 (attacker's copy first or second) / moved to 0x1000 / to the non-directory slot "
        "0x1006 / removed; directory flag, identifier, special slot, code slot bytes flipped; index order reversed; CMS item removed / "
        "emptied / followed or preceded by an empty wrapper / garbage / signature byte flipped; every hashed item flipped / "
        "removed / truncated / duplicated with the bad copy first or last / added without a slot / swapped; unknown items, "
        "ticket, detached magic, other magic; Info.plist / CodeResources parameter altered / absent / empty / unbound. With the "
        "CMS made anew by the test key (relic's pkcs7 builder): plist attribute with an extra / no / flipped / untruncated / "
        "short entry, malformed, key missing, two values; CDHashes2 with flipped digest, entry without directory, unknown OID, MD5 "
        "first, entry twice; only one of the two attributes / neither, each with a stronger / same-type / weaker unvouched "
        "alternate over altered code; CMS over other content, with embedded (equal / other) content, without authenticated "
        "attributes, without signers, unknown digest algorithm, signature flipped, no certificates, an undecodable timestamp "
        "token / counter-signature, two signer infos one with a bad plist; directories that bind less (no code slots, short code limit, limit beyond the file, page shift 25 / "
        "13 / 0, single page, zero code slot, zero requirements slot, rep-specific slot bound). Apple-style two-directory "
        "signatures (SHA-1 in slot 0, SHA-256 alternate) with the alternate removed / replaced / doubled / in another slot, the "
        "primary removed / replaced, slots swapped, a third stronger directory, plist order swapped / primary only, CDHashes2 "
        "primary only / swapped, two directories of one hash type. blob mode = csblob.Verify + VerifyPages as lib/fruit/dmg "
        "uses them (rep-specific parameter, single-page and paged directories, reader longer / shorter). wrap = verifyIPA on a "
        "zip holding Info.plist, CodeResources and a thin or fat (1 / 2 slices) executable. fuzz = 1-2 random bytes of the "
        "superblob outside the CMS item. history = up to 5 re-signing rounds with growing / shrinking estimates (SHA-1 -> "
        "SHA-256 -> SHA-384, entitlements / requirements added) through machos.Sign, each output read back with debug/macho "
        "(__LINKEDIT and LC_CODE_SIGNATURE must end at the end of the file) and verified. The model reads the superblob with "
        "its own parseSuper / parseCodeDirectory, takes the CMS facts (digest algorithm, messageDigest, signature valid, the "
        "two cdhash attributes) from the table on the op line — which the implementation runner re-derives from the file with "
        "encoding/asn1, crypto/rsa, crypto/ecdsa, crypto/x509 (desc-mismatch otherwise) — and predicts the verdict and the "
        "error class. Non-trivial = distinct op.")
TRUSTED = ["Relic.Model.CsVerify is hand-written from lib/fruit/csblob/{csblob,verify,attrs}.go, lib/fruit/machos/verify.go, "
           "lib/fruit/dmg/verify.go, signers/macho/{fatfile,ipa}.go; tied by differential execution on every run",
           "harness/csvfy: the CMS table (which signer infos, messageDigest, whether the signature over the attribute bytes verifies "
           "under the bundled certificate named by issuer and serial, the content-type rule, the decoded cdhash attributes) is "
           "computed with the Go standard library; hash comparisons of a plan are evaluated by the check with hashlib"]
ASSUMPTIONS = ["CSV: the PKCS#7 layer below csblob.Verify is one bit per signer info (its model is Relic.Model.Cms); certificate "
               "chain validation is outside (relic verify runs it after the signature check)",
               "CSV: at most 12 code directories per superblob (Go's sort.Slice is an insertion sort up to 12 elements, i.e. "
               "stable; the model refuses to predict beyond that when slots repeat)",
               "CSV stated gaps (theorems with witnesses, replayed as prot=0 ops): the slot number of a directory is not bound "
               "(dir_slot_unbound), a hashed item no directory has a slot for is accepted (special_blob_unbound_accepted), of two "
               "items of one type the last one counts, only the LAST signer info's cdhash attributes are read, "
               "a directory without code slots / with a short code limit binds no / less code (the signer's statement), "
               "two directories of one hash type share one map entry (plist_same_alg_gap; with a signed list that repeats an "
               "entry a middle directory of that type is covered by nothing: same_alg_unvouched_directory_accepted)",
               "CSV: the model describes the current code (Relic.CsVerify.tree: fixes F-CSV-1 994e09d and F-CSV-2 91159af in); "
               "the behaviour of the original code (unvouched alternate accepted, fat slice ignoring Info.plist / "
               "CodeResources) is a VIOLATION"]
UNPROVED_C02 = ["Relic.Props.C02.csblob_every_directory_vouched_full (every code directory of an accepted superblob is covered by "
                "the CMS, with no hypothesis on the signed list): false on every tree for signed lists that repeat an entry "
                "(computed[] is a map keyed by hash function) — witness same_alg_unvouched_directory_accepted, "
                "csblob_every_directory_vouched_full_false; proved for the current code for lists without repetition: "
                "csblob_every_directory_vouched (+ alt_codedir_unvouched_rejected, fixed_alternates_need_plist); the original "
                "defect F-CSV-1 (repaired by 994e09d) is csblob_every_directory_vouched_full_orig_false"]
UNPROVED_C01 = ["Relic.Props.C01.csblob_sign_then_verify_bytes_full (byte level: parseSignature of the superblob csblob.Sign marshals is "
                "accepted; needs the parseSuper/marshalSuperBlob and parseCodeDirectory/newCodeDirectory round trips on rendered "
                "bytes); proved at the decision level for every hash family: csblob_sign_then_verify, "
                "macho_sign_then_verify_decision; executed per `none` / `resign-same` op"]
UNPROVED_C08 = ["Relic.Props.C08.macho_history_bytes_full (byte-level: scanFile of the written file returns the markers of the "
                "arithmetic history): the re-scan is tied by the history ops only; proved: linkedit_arith_exact (fields "
                "PatchSignature writes) and macho_history (every history of the arithmetic keeps __LINKEDIT, the signature "
                "slot and the file coterminous, so the next round is never refused)"]

ALG = {2: "md5", 3: "sha1", 4: "sha224", 5: "sha256", 6: "sha384", 7: "sha512"}


def _b(h):
    return b"" if h == "-" else bytes.fromhex(h)


def _eval(plan, final):
    """evaluate a plan with real hash functions: first failing comparison decides"""
    if plan != "-":
        for c in plan.split(","):
            label, alg, trunc, stream, exp = c.split(":")
            name = ALG.get(int(alg))
            if name is None:
                return "err " + label
            d = hashlib.new(name, _b(stream)).digest()
            if int(trunc):
                d = d[:int(trunc)]
            if d != _b(exp):
                return "err " + label
    if final == "ok":
        return "ok"
    return final.replace("_", " ", 1)


def _canon_one(m):
    m = m.strip()
    if m.startswith("ok plan="):
        p = m.split(" ")
        return _eval(p[1][5:], p[2][6:])
    if m.startswith("err parse-"):
        return "err parse"
    if m.startswith("err locate-"):
        return "err locate"
    return m


def _kind(op):
    return op.split(" ", 2)[1]


def canon_model(op, mres):
    k = _kind(op)
    if k == "verify":
        return _canon_one(mres)
    if k == "wrap":
        parts = [_canon_one(x) for x in mres.split(" | ")]
        for p in parts:
            if p != "ok":
                return p
        return "ok n=%d" % len(parts)
    return mres


def equiv(op, il, mres):
    k = _kind(op)
    if k == "history":
        a = [t for t in il.split(" ") if not t.startswith("v=")]
        return a == mres.split(" ")
    if il.startswith("err cms-sig:"):
        # errors of the PKCS#7 / PKCS#9 layer have no class of their own in the runner: signature stage or timestamp stage
        return mres in ("err cms-sig", "err timestamp")
    if mres == "err unmodelled-sort":
        return not il.startswith("panic")
    return il == mres


def weight(op):
    return 1


def nontrivial(op, mres, tag):
    return mres != "bad-op"


def _mut(op):
    f = op.split(" ", 3)
    m = f[2]
    parts = m.split(":")
    if len(parts) >= 2 and parts[1] == "fuzz":
        return "fuzz"
    return parts[-1] if len(parts) > 1 else m


def branch(op, mres, tag):
    k = _kind(op)
    r = mres.split(" ")
    if k == "history":
        return "csv-history:" + r[0] + ":" + str(len(r) - 1)
    return "csv-%s-%s:%s" % (k, _mut(op), " ".join(r[:2]) if r[0] != "ok" else "ok")


_THM = [("alt-dir", "alt_codedir_unvouched_rejected"), ("third-dir", "alt_codedir_unvouched_rejected"), ("alt-removed", "alt_codedir_unvouched_rejected"),
        ("alt-replaced", "alt_codedir_unvouched_rejected"), ("alt-twice", "alt_codedir_unvouched_rejected"), ("dir-dup", "alt_codedir_unvouched_rejected"),
        ("plist-lists-primary-only", "alt_codedir_unvouched_rejected"),
        ("code-flip", "code_change_rejected"), ("header-flip", "code_change_rejected"), ("code-altered", "code_change_rejected"), ("page-", "code_change_rejected"),
        ("blob", "special_slot_change_rejected"), ("info-plist", "special_slot_change_rejected"), ("resources", "special_slot_change_rejected"),
        ("rep-", "special_slot_change_rejected"),
        ("plist-", "cdhash_list_change_rejected"), ("cdh-", "cdhash_list_change_rejected"),
        ("dir-", "csblob_accept_iff"), ("cms-", "csblob_accept_iff"), ("primary-", "csblob_accept_iff"), ("slots-swapped", "csblob_accept_iff")]


def _thm(mut, kind="verify"):
    if kind == "wrap" and not mut.endswith("code-flip"):
        return "ipa_bundle_files_bound"
    if "only-cdh+" in mut or "no-cdhash-attrs+" in mut:
        return "csblob_every_directory_vouched"
    for pat, t in _THM:
        if pat in mut:
            return t
    return "csblob_accept_iff"


def predicate(prop, op, il, mres, tag):
    f = op.split(" ")
    k = f[1]
    if il.startswith(("crash", "not-run")):
        return ("Relic.Props.%s (code-signature verifier)" % prop, mres, "implementation process died: " + il[:160])
    if il == "desc-mismatch":
        return ("Relic.Props.%s (csvfy harness tables)" % prop, mres, "the CMS table on the op line is not what the file gives")
    if il.startswith("panic") and not (mres.startswith("panic") and il == mres):
        return ("Relic.Props.C11.csverify_no_panic", "ok | err", "code-signature verifier panicked: " + il[:200])
    if k in ("verify", "wrap"):
        mut, prot = f[2], f[3]
        if prot == "1" and il.startswith("ok"):
            return ("Relic.Props.C02." + _thm(mut, k), "err",
                    "mutation '%s' alters protected content (or adds a code directory nobody vouched for) and the verifier reports success" % mut)
        if ":cms-ber-" in mut and not il.startswith("ok"):
            return ("Relic.Props.C02.csblob_accept_iff (acceptance is a function of the CMS VALUE: the BER-to-DER repacking of parseSignature is a parameter of the model, tied here)", "ok",
                    "a valid third-party signature whose CMS is written with %s lengths is rejected: %s" % (mut.split(":cms-ber-")[1], il[:160]))
        if prop == "C01" and mut.endswith((":none", ":resign-same")) and not il.startswith("ok"):
            return ("Relic.Props.C01.csblob_sign_then_verify", "ok", "relic's verifier rejects what relic's signer wrote: " + il[:200])
        return None
    if k == "history":
        # the property itself on the real outputs: every round signs, verifies, and leaves __LINKEDIT, the signature slot and
        # the file coterminous (read back through debug/macho)
        toks = il.split(" ")
        if toks[0] != "ok":
            return ("Relic.Props.C08.macho_history", "ok", "history op failed: " + il[:200])
        want = len(f[3].split(","))
        rounds = [t for t in toks[1:] if t.startswith("r")]
        vs = [t for t in toks[1:] if t.startswith("v=")]
        for i, t in enumerate(rounds):
            v = t.split("=", 1)[1]
            if v.startswith("err"):
                return ("Relic.Props.C08.macho_history", "round %d signs" % i,
                        "re-signing round %d of relic's own output failed: %s" % (i, v))
            ss, sbl, flen, leoff, lefsz, lcoff, lclen = [int(x) for x in v.split(":")]
            if leoff + lefsz != flen or lcoff + lclen != flen or lcoff < leoff or lcoff % 8 or lclen % 8:
                return ("Relic.Props.C08.linkedit_arith_exact", "__LINKEDIT ends at EOF = end of the 8-aligned signature slot",
                        "round %d: file %d bytes, __LINKEDIT [%d,%d), LC_CODE_SIGNATURE [%d,%d)" %
                        (i, flen, leoff, leoff + lefsz, lcoff, lcoff + lclen))
        if len(rounds) != want:
            return ("Relic.Props.C08.macho_history", "%d rounds" % want, "only %d rounds ran: %s" % (len(rounds), il[:200]))
        if vs and any(x != "ok" for x in vs[0][2:].split(",")):
            return ("Relic.Props.C08.macho_history", "every round verifies", "relic's verifier rejects a re-signed image: " + vs[0])
    return None


def matches_known(k, op, il, mres, tag):
    ident = k.get("identity", {})
    site = ident.get("site", "")
    f = op.split(" ")
    if len(f) < 4:
        return False
    mut = f[2]
    if il.startswith("panic") and mres.startswith("panic") and il == mres and site and site in il:
        return True     # csblob.parseCodeDirectory slot slicing (listed under C11): same site in model and code
    return False


# ---------------------------------------------------------------------------------------------
# second correspondence under a pseudo-property (C11 keeps its own runner)

def second(ctx, prop, pseudo, cov, findings, known):
    """run the CSV ops of `prop` (generator registered under `pseudo` in harness/cmd/vh/csvfy.go) and merge the results"""
    import runner
    from composite import install as _install
    rops = ctx.get("replay_ops")
    if rops and not all(o.startswith("CSV ") for o in rops):
        return cov, findings, known
    ns = {"TIE": "corr:csvfy", "TIE_THEOREM": "Relic.Props.%s (fragment %s_CsVerify.lean: model Relic.Model.CsVerify vs lib/fruit/csblob, "
          "lib/fruit/machos Verify in-process)" % (prop, prop), "IMPL_PARALLEL": 8}
    _install(ns, prop, ["csvfy"])
    orig = runner.load_known
    runner.load_known = lambda: [dict(k, property=pseudo) if k.get("property") == prop else k for k in orig()]
    try:
        c2, f2, k2 = runner.correspondence(pseudo, ctx, types.SimpleNamespace(**ns))
    finally:
        runner.load_known = orig
    for key in ("evaluations", "op_lines", "distinct_nontrivial", "traces_validated_against_impl"):
        cov[key] = cov.get(key, 0) + c2.get(key, 0)
    cov.setdefault("op_kinds", {}).update(c2.get("op_kinds", {}))
    cov.setdefault("model_branches", {}).update({"csv " + k: v for k, v in list(c2.get("model_branches", {}).items())[:25]})
    if ns["RULE"] not in cov.get("rule", ""):
        cov["rule"] = (cov.get("rule", "") + " || " if cov.get("rule") else "") + ns["RULE"]
    k2 = [(dict(k, property=prop), op) for k, op in k2]
    return cov, findings + f2, known + k2


def replay_only(ctx):
    rops = ctx.get("replay_ops")
    return bool(rops) and all(o.startswith("CSV ") for o in rops)

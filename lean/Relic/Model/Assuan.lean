/-
  Relic.Model.Assuan — the libassuan CLIENT of relic (lib/assuan/assuan.go, scd.go, csexp.go) against a daemon that is
  given as a step function on received lines.  Core Lean only (linked into the native driver).

  What is modelled, line by line of the Go source:
    * `url.PathEscape` / `url.PathUnescape` (mode encodePathSegment) as used for D lines, S lines and the data blob;
    * `Conn.readLine` (`bufio.Reader.ReadString('\n')`, `line[:len(line)-1]`, `strings.SplitN(line, " ", 2)`, `parts[0]`)
      with every slice / index expression as an explicit partial operation (`panic` when out of range);
    * `Conn.read` (the response loop: D / S / INQUIRE / # / terminal status), `Conn.data` (512-byte chunks of the ESCAPED
      string, then END), `Conn.Transact` (closed check, write, read, non-OK status = error), `Conn.Close`;
    * `parseCsExp` (iterative parser with an explicit stack; `bytes.IndexByte`, `strconv.ParseUint(…, 10, 64)`, the three
      slice expressions) and `ScdKey.Public` (the walk over the parsed tree with every `Items[i]` as a partial operation);
    * `ScdConn.Learn`, `ScdConn.CheckPin`, `ScdKey.Sign` (SETDATA transaction, then PKSIGN transaction with PIN inquiry).

  The daemon side is a parameter: `Daemon σ` maps one received line to (new state, bytes sent back, close?).  Two instances:
  `scripted` (a hostile or broken scdaemon: the i-th command is answered with the i-th scripted byte string, whatever it
  is) and `honest` (scdaemon as the protocol defines it: connection state = the last SETDATA value; PKSIGN signs whatever
  was stored last with the key named).  Blocking is explicit: reading when nothing is buffered and the daemon has not
  closed is `block` (the Go code has no read deadline and ignores its context).
-/
import Relic.Base.Bytes
namespace Relic.Assuan
open Relic

def ascii (s : String) : Bytes := s.toList.map fun c => UInt8.ofNat c.toNat

/-! ## percent-escaping (net/url, mode encodePathSegment) -/

def isAlnum (c : UInt8) : Bool :=
  (97 ≤ c && c ≤ 122) || (65 ≤ c && c ≤ 90) || (48 ≤ c && c ≤ 57)

/-- `url.shouldEscape(c, encodePathSegment)`: unreserved characters and `$ & + : = @` pass, everything else
    (including `/ ; , ?`, space, `%`, control bytes, bytes ≥ 0x80) is escaped -/
def shouldEscape (c : UInt8) : Bool :=
  if isAlnum c then false
  else if c == 45 || c == 95 || c == 46 || c == 126 then false
  else if c == 36 || c == 38 || c == 43 || c == 58 || c == 61 || c == 64 then false
  else true

/-- `"0123456789ABCDEF"[n]` for n < 16 -/
def hexU (n : UInt8) : UInt8 := if n < 10 then 48 + n else 55 + n

def escByte (c : UInt8) : Bytes :=
  if shouldEscape c then [37, hexU (c >>> 4), hexU (c &&& 15)] else [c]

/-- `url.PathEscape` -/
def pathEscape (b : Bytes) : Bytes := b.flatMap escByte

/-- `ishex` + `unhex` -/
def unhex (c : UInt8) : Option UInt8 :=
  if 48 ≤ c && c ≤ 57 then some (c - 48)
  else if 97 ≤ c && c ≤ 102 then some (c - 97 + 10)
  else if 65 ≤ c && c ≤ 70 then some (c - 65 + 10)
  else none

/-- `url.PathUnescape`: `none` = EscapeError (a `%` not followed by two hex digits).  `+` is NOT turned into a space in this mode. -/
def pathUnescape : Bytes → Option Bytes
  | [] => some []
  | c :: rest =>
    if c = 37 then
      match rest with
      | a :: b :: rest' =>
        match unhex a, unhex b with
        | some x, some y => (pathUnescape rest').map ((x <<< 4 ||| y) :: ·)
        | _, _ => none
      | _ => none
    else (pathUnescape rest).map (c :: ·)

/-! ## results and errors -/

/-- error values, as far as the callers distinguish them (type assertions, `strings.Contains(StatusMessage, "Bad PIN")`) or
    wrap them (`fmt.Errorf("…: %w", err)`) -/
inductive Err where
  | io                         -- read/write error on the socket, EOF
  | escape                     -- url.EscapeError
  | inq                        -- "unexpected INQUIRE: …" raised by an inquire callback (returned once the terminal line has been read)
  | closed                     -- "connection is closed"
  | resp (status msg : Bytes)  -- a Response with Status ≠ OK returned as the error
  | wrap (ctx : String) (e : Err)
  | msg (cls : String)
  deriving Repr, DecidableEq

def Err.cls : Err → String
  | .io => "io"
  | .escape => "escape"
  | .inq => "inq"
  | .closed => "closed"
  | .resp _ _ => "resp"
  | .wrap c e => c ++ ":" ++ e.cls
  | .msg c => c

/-- outcome of a client function: value, Go error, panic (with its site), or blocked for ever on the socket -/
inductive Out (α : Type) where
  | ok (a : α)
  | fail (e : Err)
  | panic (site : String)
  | block
  deriving Repr, DecidableEq

namespace Out
def bind {α β} (r : Out α) (f : α → Out β) : Out β :=
  match r with
  | ok a => f a
  | fail e => fail e
  | panic s => panic s
  | block => block
instance : Monad Out where
  pure := ok
  bind := bind
def isPanic {α} : Out α → Bool
  | panic _ => true
  | _ => false
def isBlock {α} : Out α → Bool
  | block => true
  | _ => false
end Out

/-- `l[i]` as Go evaluates it -/
def idx {α} (l : List α) (i : Nat) (site : String) : Out α :=
  match l[i]? with
  | some a => .ok a
  | none => .panic site

/-! ## the connection -/

structure Daemon (σ : Type) where
  /-- sent on connect: (state, bytes, close afterwards) -/
  greet : σ → σ × Bytes × Bool
  /-- one received non-empty line (without the newline) -/
  recv : σ → Bytes → σ × Bytes × Bool
  /-- upper bound of what one client line can trigger, for the fuel of the read loop -/
  slack : Nat

structure Conn (σ : Type) where
  st : σ
  inbuf : Bytes          -- bytes sent by the daemon and not yet consumed by the client's bufio.Reader
  closed : Bool          -- the daemon has shut down its sending side: reads see EOF after `inbuf`; it still reads (and ignores) what the client sends
  wdead : Bool           -- client writes fail (the peer is gone); neither daemon below ever sets it, the Go branch exists
  isNil : Bool           -- `c.conn == nil` (after Close)
  log : List Bytes       -- the non-empty lines the daemon received, oldest first

def deliverLine {σ} (dm : Daemon σ) (c : Conn σ) (l : Bytes) : Conn σ :=
  if l.isEmpty then c else
  if c.closed then { c with log := c.log ++ [l] } else
  let (st', out, cl) := dm.recv c.st l
  { c with st := st', inbuf := c.inbuf ++ out, closed := cl, log := c.log ++ [l] }

/-- the complete lines of a byte string (a trailing fragment without newline is dropped: every client write ends in `\n`) -/
def splitLines : Bytes → List Bytes
  | [] => []
  | b :: rest =>
    if b = 10 then [] :: splitLines rest
    else match splitLines rest with
      | [] => []
      | l :: ls => (b :: l) :: ls

/-- `c.write`: one `conn.Write` -/
def write {σ} (dm : Daemon σ) (c : Conn σ) (s : Bytes) : Conn σ × Bool :=
  if c.wdead then (c, false) else ((splitLines s).foldl (deliverLine dm) c, true)

def chunks512 : Nat → Bytes → List Bytes
  | 0, _ => []
  | f + 1, b => if b.isEmpty then [] else b.take 512 :: chunks512 f (b.drop 512)

def sD : Bytes := [68, 32]                      -- "D "
def sEND : Bytes := [69, 78, 68]                -- "END"
def sCANCEL : Bytes := [67, 65, 78, 67, 69, 76] -- "CANCEL"

def writeChunks {σ} (dm : Daemon σ) : Conn σ → List Bytes → Conn σ × Bool
  | c, [] => (c, true)
  | c, ch :: rest =>
    match write dm c (sD ++ ch ++ [10]) with
    | (c', true) => writeChunks dm c' rest
    | (c', false) => (c', false)

/-- `c.data(d)`: the escaped string in chunks of 512 bytes, one D line each, then END -/
def sendData {σ} (dm : Daemon σ) (c : Conn σ) (d : Bytes) : Conn σ × Bool :=
  let e := pathEscape d
  match writeChunks dm c (chunks512 e.length e) with
  | (c', true) => write dm c' (sEND ++ [10])
  | (c', false) => (c', false)

/-- `bufio.Reader.ReadString('\n')` on what has been received: the line INCLUDING its delimiter, and the rest -/
def readString : Bytes → Option (Bytes × Bytes)
  | [] => none
  | b :: rest =>
    if b = 10 then some ([b], rest)
    else match readString rest with
      | some (l, r) => some (b :: l, r)
      | none => none

/-- `strings.SplitN(line, " ", 2)` -/
def splitN2 (l : Bytes) : List Bytes :=
  match l.span (· != 32) with
  | (a, []) => [a]
  | (a, _ :: b) => [a, b]

/-- `Conn.readLine` after a successful ReadString: `line[:len(line)-1]`, SplitN, `parts[0]`, `parts[1]` -/
def parseLine (line : Bytes) : Out (Bytes × Bytes) :=
  if line.length = 0 then .panic "assuan.readLine:line[:len-1]" else
  let l := line.take (line.length - 1)
  let parts := splitN2 l
  match idx parts 0 "assuan.readLine:parts[0]" with
  | .ok status => if parts.length > 1 then (idx parts 1 "assuan.readLine:parts[1]").bind fun m => .ok (status, m) else .ok (status, [])
  | .fail e => .fail e
  | .panic s => .panic s
  | .block => .block

/-- one `readLine` on the connection: blocks when no complete line is buffered and the daemon is still there -/
def readLine {σ} (c : Conn σ) : Conn σ × Out (Bytes × Bytes) :=
  match readString c.inbuf with
  | none => if c.closed then ({ c with inbuf := [] }, .fail .io) else (c, .block)
  | some (line, rest) => ({ c with inbuf := rest }, parseLine line)

structure Response where
  status : Bytes
  message : Bytes
  lines : List Bytes
  blob : Bytes
  deriving Repr, DecidableEq

/-- the inquire callbacks that exist in scd.go -/
inductive Inquire where
  | none                 -- `nil`: always CANCEL
  | learn                -- Learn: answers every inquiry with the empty string
  | pin (p : Bytes)      -- CheckPin / Sign: `pin + "\x00"` for NEEDPIN…, an error otherwise
  deriving Repr

def needpin : Bytes := [78, 69, 69, 68, 80, 73, 78]   -- "NEEDPIN"

/-- `some d` = send `d`; `none` = send CANCEL; the Bool says whether an error is saved for the end of the transaction -/
def Inquire.answer (q : Inquire) (m : Bytes) : Option Bytes × Bool :=
  match q with
  | .none => (Option.none, false)
  | .learn => (some [], false)
  | .pin p => if needpin.isPrefixOf m then (some (p ++ [0]), false) else (Option.none, true)

def sOK : Bytes := [79, 75]
def sERR : Bytes := [69, 82, 82]
def sINQUIRE : Bytes := [73, 78, 81, 85, 73, 82, 69]
def sS : Bytes := [83]
def sDstatus : Bytes := [68]
def sHash : Bytes := [35]

/-- `Conn.read`.  `fuel` only bounds the recursion; see `Proofs/Assuan.lean` for when it is never exhausted. -/
def readLoop {σ} (dm : Daemon σ) (q : Inquire) : Nat → Conn σ → (quoted : Bytes) → (lines : List Bytes) → (saved : Bool) →
    Conn σ × Out Response
  | 0, c, _, _, _ => (c, .block)
  | fuel + 1, c, quoted, lines, saved =>
    match readLine c with
    | (c, .fail e) => (c, .fail e)
    | (c, .panic s) => (c, .panic s)
    | (c, .block) => (c, .block)
    | (c, .ok (status, m)) =>
      if status = sDstatus then readLoop dm q fuel c (quoted ++ m) lines saved
      else if status = sS then
        match pathUnescape m with
        | none => (c, .fail .escape)
        | some u => readLoop dm q fuel c quoted (lines ++ [u]) saved
      else if status = sINQUIRE then
        match q.answer m with
        | (some d, _) =>
          match sendData dm c d with
          | (c', true) => readLoop dm q fuel c' quoted lines saved
          | (c', false) => (c', .fail .io)
        | (none, sv) =>
          let c' := (write dm c (sCANCEL ++ [10])).1      -- `_ = c.write("CANCEL\n")`: a write error is ignored
          readLoop dm q fuel c' quoted lines (saved || sv)
      else if status = sHash then readLoop dm q fuel c quoted lines saved
      else
        -- terminal line
        if quoted.length > 0 then
          match pathUnescape quoted with
          | none => (c, .fail .escape)
          | some b => if saved then (c, .fail .inq) else (c, .ok ⟨status, m, lines, b⟩)
        else if saved then (c, .fail .inq) else (c, .ok ⟨status, m, lines, []⟩)

/-- `Conn.Transact` (runs under `c.mu`: one atomic step of the connection) -/
def transact {σ} (dm : Daemon σ) (c : Conn σ) (cmd : Bytes) (q : Inquire) : Conn σ × Out Response :=
  if c.isNil then (c, .fail .closed) else
  match write dm c (cmd ++ [10]) with
  | (c, false) => (c, .fail .io)
  | (c, true) =>
    match readLoop dm q (c.inbuf.length + dm.slack + 1) c [] [] false with
    | (c, .ok r) => if r.status = sOK then (c, .ok r) else (c, .fail (.resp r.status r.message))
    | (c, o) => (c, o)

/-- `Conn.Close` -/
def close {σ} (c : Conn σ) : Conn σ := { c with isNil := true, closed := true, wdead := true, inbuf := [] }

/-- `Dial`: connect, read the greeting -/
def dial {σ} (dm : Daemon σ) (s0 : σ) : Conn σ × Out Unit :=
  let (st, out, cl) := dm.greet s0
  let c : Conn σ := { st := st, inbuf := out, closed := cl, wdead := false, isNil := false, log := [] }
  match readLine c with
  | (c, .ok (status, _)) => if status = sOK then (c, .ok ()) else (close c, .fail (.msg "greet"))
  | (c, .fail e) => (close c, .fail e)
  | (c, .panic s) => (c, .panic s)
  | (c, .block) => (c, .block)

/-! ## canonical S-expressions (csexp.go) -/

/-- `csExp`: an atom has `Value` (non-nil, possibly empty) and no `Items`; a list has `Items` and a nil `Value` -/
inductive CsExp where
  | atom (v : Bytes)
  | list (items : List CsExp)
  deriving Repr

def CsExp.items : CsExp → List CsExp
  | .atom _ => []
  | .list l => l

/-- `.Value`: `none` = nil slice -/
def CsExp.value : CsExp → Option Bytes
  | .atom v => some v
  | .list _ => none

def isDigit (c : UInt8) : Bool := 48 ≤ c && c ≤ 57

/-- `strconv.ParseUint(s, 10, 64)`: non-empty, decimal digits only (no sign, no underscore), value < 2^64 -/
def parseUint (s : Bytes) : Option Nat :=
  if s.isEmpty || !s.all isDigit then none else
  let v := s.foldl (fun acc c => acc * 10 + (c.toNat - 48)) 0
  if v < 2 ^ 64 then some v else none

/-- `bytes.IndexByte(b, ':')` (`none` = -1) -/
def indexColon : Bytes → Option Nat
  | [] => none
  | b :: rest => if b = 58 then some 0 else (indexColon rest).map (· + 1)

/-- `b[lo:hi]` / `b[lo:]` as Go evaluates them -/
def sliceP (b : Bytes) (lo hi : Nat) (site : String) : Out Bytes :=
  match slice? b lo hi with
  | some r => .ok r
  | none => .panic site

/-- the loop of `parseCsExp`.  `stack` = the item lists under construction, innermost first (Go keeps pointers to the nodes and
    appends the child to its parent when it is opened; the resulting tree is the same).  `err "csexp"` = InvalidCsExp. -/
def csLoop : Nat → Bytes → List (List CsExp) → Res (List CsExp)
  | 0, _, _ => .diverge
  | fuel + 1, blob, stack =>
    match blob with
    | [] =>
      match stack with
      | [root] => .ok root
      | _ => .err "csexp"                       -- len(stack) > 1  (len(stack) = 0 cannot happen)
    | c :: rest =>
      if c = 40 then csLoop fuel rest ([] :: stack)
      else if c = 41 then
        match stack with
        | top :: parent :: more => csLoop fuel rest ((parent ++ [CsExp.list top]) :: more)
        | _ => .err "csexp"                     -- len(stack) < 2
      else
        match indexColon blob with
        | none => .err "csexp"
        | some n =>
          if n < 1 then .err "csexp" else
          match slice? blob 0 n with
          | none => .panic "csexp:blob[:n]"
          | some digits =>
            match parseUint digits with
            | none => .err "csexp"
            | some length =>
              if length > blob.length - n - 1 then .err "csexp" else
              match slice? blob (n + 1) blob.length with
              | none => .panic "csexp:blob[n+1:]"
              | some b1 =>
                match slice? b1 0 length, slice? b1 length b1.length with
                | some data, some b2 =>
                  match stack with
                  | top :: more => csLoop fuel b2 ((top ++ [CsExp.atom data]) :: more)
                  | [] => .panic "csexp:top"
                | _, _ => .panic "csexp:blob[:length]"

/-- `parseCsExp(blob)`: the root's items -/
def parseCsExp (blob : Bytes) : Res (List CsExp) := csLoop (blob.length + 1) blob [[]]

/-! ## scd.go -/

structure ScdConn (σ : Type) where
  conn : Conn σ
  serial : Bytes

structure ScdKey where
  serial : Bytes
  fingerprint : Bytes
  keyGrip : Bytes
  keyId : Bytes
  deriving Repr, DecidableEq

/-- `strings.Split(line, " ")` -/
def splitSp : Bytes → List Bytes
  | [] => [[]]
  | b :: rest =>
    match splitSp rest with
    | [] => [[]]            -- unreachable
    | l :: ls => if b = 32 then [] :: l :: ls else (b :: l) :: ls

def kSERIALNO : Bytes := ascii "SERIALNO"
def kKEYPAIRINFO : Bytes := ascii "KEYPAIRINFO"
def kKEYFPR : Bytes := ascii "KEY-FPR"
def kOPENPGP : Bytes := ascii "OPENPGP."

structure LearnAcc where
  serial : Bytes
  grips : List Bytes
  ids : List Bytes
  fprs : List (Bytes × Bytes)     -- the map, as an association list in insertion order (the LAST entry of a key wins)
  deriving Repr

def lookupFpr (m : List (Bytes × Bytes)) (k : Bytes) : Bytes :=
  match (m.reverse.find? (·.1 = k)) with
  | some e => e.2
  | none => []

/-- one iteration of the loop over `res.Lines` in Learn; every `parts[i]` is a partial operation -/
def learnLine (a : LearnAcc) (line : Bytes) : Out LearnAcc :=
  let parts := splitSp line
  (idx parts 0 "scd.Learn:parts[0]").bind fun p0 =>
  if p0 = kSERIALNO then
    if parts.length < 2 then .ok a else (idx parts 1 "scd.Learn:SERIALNO parts[1]").bind fun p1 => .ok { a with serial := p1 }
  else if p0 = kKEYPAIRINFO then
    if parts.length < 3 then .ok a else
    (idx parts 1 "scd.Learn:KEYPAIRINFO parts[1]").bind fun p1 =>
    if p1 = [88] then .ok a else
    (idx parts 2 "scd.Learn:KEYPAIRINFO parts[2]").bind fun p2 =>
    .ok { a with grips := a.grips ++ [p1], ids := a.ids ++ [p2] }
  else if p0 = kKEYFPR then
    if parts.length < 3 then .ok a else
    (idx parts 1 "scd.Learn:KEY-FPR parts[1]").bind fun p1 =>
    (idx parts 2 "scd.Learn:KEY-FPR parts[2]").bind fun p2 =>
    .ok { a with fprs := a.fprs ++ [(kOPENPGP ++ p1, p2)] }
  else .ok a

def learnLines : LearnAcc → List Bytes → Out LearnAcc
  | a, [] => .ok a
  | a, l :: ls => (learnLine a l).bind fun a' => learnLines a' ls

/-- the loop building `infos`: `keygrips[i]` is a partial operation -/
def mkInfos (serial : Bytes) (a : LearnAcc) : Nat → List Bytes → Out (List ScdKey)
  | _, [] => .ok []
  | i, kid :: rest =>
    (idx a.grips i "scd.Learn:keygrips[i]").bind fun g =>
    (mkInfos serial a (i + 1) rest).bind fun tl =>
    .ok ({ serial := serial, fingerprint := lookupFpr a.fprs kid, keyGrip := g, keyId := kid } :: tl)

def cLEARN : Bytes := ascii "LEARN"

/-- `ScdConn.Learn`.  NOTE `s.Serial` is assigned while the lines are processed, i.e. also when Learn then fails. -/
def learn {σ} (dm : Daemon σ) (s : ScdConn σ) : ScdConn σ × Out (List ScdKey) :=
  match transact dm s.conn cLEARN .learn with
  | (c, .fail e) => ({ s with conn := c }, .fail (.wrap "enum" e))
  | (c, .panic p) => ({ s with conn := c }, .panic p)
  | (c, .block) => ({ s with conn := c }, .block)
  | (c, .ok res) =>
    match learnLines { serial := s.serial, grips := [], ids := [], fprs := [] } res.lines with
    | .ok a =>
      let s' : ScdConn σ := { conn := c, serial := a.serial }
      if a.ids.length = 0 then (s', .fail (.msg "enum:nokey")) else (s', mkInfos a.serial a 0 a.ids)
    | .fail e => ({ s with conn := c }, .fail e)
    | .panic p => ({ s with conn := c }, .panic p)
    | .block => ({ s with conn := c }, .block)

/-- `strings.Contains(hay, needle)` -/
def containsSub (needle : Bytes) : Bytes → Bool
  | [] => needle.isEmpty
  | h :: t => needle.isPrefixOf (h :: t) || containsSub needle t

def kBadPIN : Bytes := ascii "Bad PIN"
def cCHECKPIN : Bytes := ascii "CHECKPIN "

/-- the common tail of CheckPin and Sign: `err.(Response)` with "Bad PIN" in the status message = PinIncorrectError -/
def pinErr (ctx : String) (e : Err) : Err :=
  match e with
  | .resp _ m => if containsSub kBadPIN m then .msg "badpin" else .wrap ctx e
  | _ => .wrap ctx e

/-- `ScdConn.CheckPin` -/
def checkPin {σ} (dm : Daemon σ) (s : ScdConn σ) (pin : Bytes) : ScdConn σ × Out Unit :=
  let pre : ScdConn σ × Out Unit :=
    if s.serial.isEmpty then
      match learn dm s with
      | (s', .ok infos) =>
        match idx infos 0 "scd.CheckPin:infos[0]" with
        | .ok k => ({ s' with serial := k.serial }, .ok ())
        | .panic p => (s', .panic p)
        | .fail e => (s', .fail e)
        | .block => (s', .block)
      | (s', .fail e) => (s', .fail e)
      | (s', .panic p) => (s', .panic p)
      | (s', .block) => (s', .block)
    else (s, .ok ())
  match pre with
  | (s, .ok ()) =>
    match transact dm s.conn (cCHECKPIN ++ s.serial) (.pin pin) with
    | (c, .ok _) => ({ s with conn := c }, .ok ())
    | (c, .fail e) => ({ s with conn := c }, .fail (pinErr "pin" e))
    | (c, .panic p) => ({ s with conn := c }, .panic p)
    | (c, .block) => ({ s with conn := c }, .block)
  | (s, .fail e) => (s, .fail e)
  | (s, .panic p) => (s, .panic p)
  | (s, .block) => (s, .block)

/-- what `ScdKey.Public` returns for an RSA key: `N = SetBytes(n)`, `E = int(SetBytes(e).Int64())` -/
structure RsaPub where
  n : Nat
  e : Int
  deriving Repr, DecidableEq

/-- `big.Int.Int64()` of a non-negative value: the low 64 bits, reinterpreted as signed -/
def int64Of (v : Nat) : Int :=
  let w := v % 2 ^ 64
  if w < 2 ^ 63 then Int.ofNat w else Int.ofNat w - Int.ofNat (2 ^ 64)

def kPublicKey : Bytes := ascii "public-key"
def kRsa : Bytes := ascii "rsa"

/-- the loop over `exp.Items[1:]` filling the `values` map (later entries win) -/
def pubValues : List CsExp → List (Bytes × Option Bytes) → Out (List (Bytes × Option Bytes))
  | [], acc => .ok acc
  | item :: rest, acc =>
    if item.items.length ≠ 2 then .fail (.msg "pubkey") else
    (idx item.items 0 "scd.Public:item.Items[0]").bind fun i0 =>
    (idx item.items 1 "scd.Public:item.Items[1]").bind fun i1 =>
    pubValues rest (acc ++ [((i0.value.getD []), i1.value)])

/-- `values[name]`: nil when absent OR when the entry's value is a nil slice -/
def mapGet (m : List (Bytes × Option Bytes)) (k : Bytes) : Option Bytes :=
  match m.reverse.find? (·.1 = k) with
  | some e => e.2
  | none => none

/-- `ScdKey.Public` after the READKEY transaction: parse, walk the tree -/
def publicOfBlob (blob : Bytes) : Out RsaPub :=
  match parseCsExp blob with
  | .err _ => .fail (.msg "csexp")
  | .panic p => .panic p
  | .diverge => .block
  | .ok items =>
    if items.length ≠ 1 then .fail (.msg "pubkey") else
    (idx items 0 "scd.Public:exp.Items[0]").bind fun e1 =>
    if e1.items.length ≠ 2 then .fail (.msg "pubkey") else
    (idx e1.items 0 "scd.Public:exp.Items[0]#2").bind fun tag =>
    if tag.value ≠ some kPublicKey then .fail (.msg "pubkey") else
    (idx e1.items 1 "scd.Public:exp.Items[1]").bind fun e2 =>
    if e2.items.length = 0 then .fail (.msg "pubkey") else
    (idx e2.items 0 "scd.Public:exp.Items[0]#3").bind fun kt =>
    let keyType := kt.value.getD []
    (pubValues (e2.items.drop 1) []).bind fun vals =>
    if keyType = kRsa then
      match mapGet vals [110], mapGet vals [101] with
      | some n, some e => .ok { n := beVal n, e := int64Of (beVal e) }
      | _, _ => .fail (.msg "rsakey")
    else .fail (.msg "keytype")

def cREADKEY : Bytes := ascii "READKEY "

def scdPublic {σ} (dm : Daemon σ) (c : Conn σ) (k : ScdKey) : Conn σ × Out RsaPub :=
  match transact dm c (cREADKEY ++ k.keyId) .none with
  | (c, .ok res) => (c, publicOfBlob res.blob)
  | (c, .fail e) => (c, .fail e)
  | (c, .panic p) => (c, .panic p)
  | (c, .block) => (c, .block)

/-- the `crypto.SignerOpts` argument of Sign, as far as the code looks at it -/
inductive SignOpts where
  | nilOpts                -- `opts == nil`
  | zeroHash               -- `opts.HashFunc() == 0`
  | pss                    -- `*rsa.PSSOptions`
  | named (h : Bytes)      -- a hash with an entry in x509tools.HashNames; `h` = lower-cased name without dashes
  | unnamed                -- any other registered hash (HashNames[…] == "")
  deriving Repr, DecidableEq

def hexUpper (b : Bytes) : Bytes := b.flatMap fun (c : UInt8) => [hexU (c >>> 4), hexU (c &&& 15)]

def cSETDATA : Bytes := ascii "SETDATA "
def cPKSIGN : Bytes := ascii "PKSIGN --hash="

def setdataCmd (d : Bytes) : Bytes := cSETDATA ++ hexUpper d
/-- `fmt.Sprintf("PKSIGN --hash=%s %s\n", hashName, k.KeyId)`: the command carries its own newline, Transact adds another -/
def pksignCmd (h keyId : Bytes) : Bytes := cPKSIGN ++ h ++ [32] ++ keyId ++ [10]

/-- `ScdKey.Sign`: two transactions on the shared connection -/
def scdSign {σ} (dm : Daemon σ) (c : Conn σ) (k : ScdKey) (digest : Bytes) (opts : SignOpts) (pin : Bytes) : Conn σ × Out Bytes :=
  match opts with
  | .nilOpts => (c, .fail (.msg "opts"))
  | .zeroHash => (c, .fail (.msg "opts"))
  | .pss => (c, .fail (.msg "pss"))
  | .unnamed => (c, .fail (.msg "hash"))
  | .named h =>
    match transact dm c (setdataCmd digest) .none with
    | (c, .fail e) => (c, .fail e)
    | (c, .panic p) => (c, .panic p)
    | (c, .block) => (c, .block)
    | (c, .ok _) =>
      match transact dm c (pksignCmd h k.keyId) (.pin pin) with
      | (c, .ok res) => (c, .ok res.blob)
      | (c, .fail e) => (c, .fail (pinErr "sign" e))
      | (c, .panic p) => (c, .panic p)
      | (c, .block) => (c, .block)

/-! ## daemons -/

def isDataLine (l : Bytes) : Bool := sD.isPrefixOf l || l = sEND || l = sCANCEL

/-- a hostile or broken daemon: greeting = first script entry; the i-th COMMAND (a line that is not `D …`, `END`, `CANCEL`)
    is answered with the next entry; an entry flagged `true`, or an exhausted script, ends the daemon's output (EOF) -/
structure Script where
  rest : List (Bytes × Bool)

def scripted : Daemon Script where
  greet s := match s.rest with
    | [] => (s, [], true)
    | (b, cl) :: tl => (⟨tl⟩, b, cl)
  recv s l :=
    if isDataLine l then (s, [], false) else
    match s.rest with
    | [] => (s, [], true)
    | (b, cl) :: tl => (⟨tl⟩, b, cl)
  slack := 0

/-- one key slot of the honest daemon -/
structure Slot where
  n : Nat               -- OPENPGP.<n>
  kind : Nat            -- 0 = RSA key, 1 = ECC key, 2 = listed with keygrip "X" (no key)
  deriving Repr, DecidableEq

structure Honest where
  serial : Bytes              -- empty = no SERIALNO line
  pin : Bytes
  inqSign : Bool              -- PKSIGN asks for the PIN
  slots : List Slot
  data : Option Bytes         -- THE connection state: what the last SETDATA stored
  awaiting : Option Bytes     -- the command waiting for the answer to INQUIRE NEEDPIN
  answer : Bytes              -- raw D payloads received so far
  pubBlob : Nat → Nat → Bytes -- READKEY answer of slot n of the given kind (the harness's fixed test keys; opaque here)
  sigOf : Nat → Bytes → Bytes → Bytes   -- signature of slot n over (hash name, digest): abstract, injective by construction in the driver

def decDigits (n : Nat) : Bytes := ascii (toString n)

def slotId (n : Nat) : Bytes := kOPENPGP ++ decDigits n
def slotGrip (s : Slot) : Bytes := if s.kind = 2 then [88] else ascii "A1B2C3D4E5F60718293A4B5C6D7E8F9001020304" ++ decDigits s.n
def slotFpr (s : Slot) : Bytes := ascii "F0E1D2C3B4A5968778695A4B3C2D1E0F1122334" ++ decDigits s.n

def line (b : Bytes) : Bytes := b ++ [10]

/-- D lines for a blob: fully escaped, 300 escaped bytes per line (a `%XX` triple may straddle two lines: legal) -/
def dLines : Nat → Bytes → Bytes
  | 0, _ => []
  | f + 1, b => if b.isEmpty then [] else line (sD ++ b.take 300) ++ dLines f (b.drop 300)

def blobLines (b : Bytes) : Bytes := let e := pathEscape b; dLines e.length e

def okLine : Bytes := line sOK
def errLine (m : String) : Bytes := line (sERR ++ [32] ++ ascii m)

def hashLen (h : Bytes) : Option Nat :=
  if h = ascii "md5" then some 16 else if h = ascii "sha1" then some 20 else if h = ascii "sha224" then some 28
  else if h = ascii "sha256" then some 32 else if h = ascii "sha384" then some 48 else if h = ascii "sha512" then some 64 else none

def findSlot (h : Honest) (keyId : Bytes) : Option Slot := h.slots.find? fun s => slotId s.n = keyId

/-- the signing step proper: signs WHATEVER WAS STORED LAST with the key named -/
def honestSign (h : Honest) (hash keyId : Bytes) : Bytes :=
  match findSlot h keyId with
  | none => errLine "100663305 No secret key <SCD>"
  | some s =>
    if s.kind ≠ 0 then errLine "100663365 Not supported <SCD>" else
    match h.data with
    | none => errLine "100663354 No data <SCD>"
    | some d =>
      match hashLen hash with
      | none => errLine "100663336 Invalid argument <SCD>"
      | some n => if d.length ≠ n then errLine "100663404 Invalid length <SCD>" else blobLines (h.sigOf s.n hash d) ++ okLine

def cmdWord (l : Bytes) : Bytes × Bytes :=
  match l.span (· != 32) with
  | (a, []) => (a, [])
  | (a, _ :: b) => (a, b)

def fromHexU : Bytes → Option Bytes
  | [] => some []
  | [_] => none
  | a :: b :: rest =>
    match unhex a, unhex b, fromHexU rest with
    | some x, some y, some r => some ((x <<< 4 ||| y) :: r)
    | _, _, _ => none

def kInqNeedpin : Bytes := ascii "INQUIRE NEEDPIN ||Please enter the PIN"
def badPinLine : Bytes := errLine "100663383 Bad PIN <SCD>"

/-- PKSIGN arguments: `--hash=<h> <keyid>` -/
def pksignArgs (a : Bytes) : Bytes × Bytes :=
  let (opt, kid) := cmdWord a
  ((opt.drop 7), kid)

def honestRun (h : Honest) (cmd : Bytes) : Honest × Bytes :=
  let (w, a) := cmdWord cmd
  if w = ascii "PKSIGN" then
    let (hash, kid) := pksignArgs a
    (h, honestSign h hash kid)
  else (h, okLine)    -- CHECKPIN

def honest : Daemon Honest where
  greet h := (h, line (sOK ++ ascii " GNU Privacy Guard's Smartcard server ready"), false)
  recv h l :=
    match h.awaiting with
    | some cmd =>
      if sD.isPrefixOf l then ({ h with answer := h.answer ++ l.drop 2 }, [], false)
      else if l = sEND then
        let h' := { h with awaiting := none, answer := [] }
        match pathUnescape h.answer with
        | some p => if p = h.pin ++ [0] then let (h2, out) := honestRun h' cmd; (h2, out, false) else (h', badPinLine, false)
        | none => (h', errLine "100663571 Invalid data <SCD>", false)
      else if l = sCANCEL then ({ h with awaiting := none, answer := [] }, errLine "100663395 Operation cancelled <SCD>", false)
      else (h, errLine "100663571 Unexpected command during inquiry <SCD>", false)
    | none =>
      let (w, a) := cmdWord l
      if w = ascii "LEARN" then
        let ser := if h.serial.isEmpty then [] else line (sS ++ [32] ++ kSERIALNO ++ [32] ++ h.serial)
        let app := line (ascii "S APPTYPE OPENPGP")
        let kp := h.slots.flatMap fun s => line (sS ++ [32] ++ kKEYPAIRINFO ++ [32] ++ slotGrip s ++ [32] ++ slotId s.n)
        let fp := h.slots.flatMap fun s => line (sS ++ [32] ++ kKEYFPR ++ [32] ++ decDigits s.n ++ [32] ++ slotFpr s)
        (h, ser ++ app ++ kp ++ fp ++ okLine, false)
      else if w = ascii "CHECKPIN" then ({ h with awaiting := some l, answer := [] }, line kInqNeedpin, false)
      else if w = ascii "READKEY" then
        match findSlot h a with
        | none => (h, errLine "100663305 No public key <SCD>", false)
        | some s => if s.kind = 2 then (h, errLine "100663305 No public key <SCD>", false) else (h, blobLines (h.pubBlob s.n s.kind) ++ okLine, false)
      else if w = ascii "SETDATA" then
        match fromHexU a with
        | some d => ({ h with data := some d }, okLine, false)
        | none => (h, errLine "100663414 Invalid hex string <SCD>", false)
      else if w = ascii "PKSIGN" then
        if h.inqSign then ({ h with awaiting := some l, answer := [] }, line kInqNeedpin, false)
        else let (h2, out) := honestRun h l; (h2, out, false)
      else (h, errLine "100663571 Unknown IPC command <SCD>", false)
  slack := 1 <<< 16

end Relic.Assuan

/-
  C09 (first half) — split independence of every streaming digester: what the server digests does not depend on how
  the upload is cut into reads.

  Theorems about the reader calculus Relic.Model.Reader (streams = chunk lists incl. empty reads, ending in io.EOF or an
  error, possibly delivered with the last data; Go's io.ReadFull / io.Copy / io.CopyN / io.ReadAll / bufio.Reader
  transcribed as the loops over `Read` that they are) and about the digester programs of Relic.Model.ReaderProgs
  (`digestPE` incl. the page-hash path, `digestCab`, `digestPS`).  Helper lemmas: Relic/Proofs/Reader*.lean.
  The tie to /repo: (1) the call inventory of the Go digesters is re-extracted on every run
  (Relic.Generated.Readers) and must equal the table the programs were written from (`readers_generated_ok`);
  (2) differential execution of the programs and the real digesters on scripted readers (ops `RD run`).
-/
import Relic.Proofs.ReaderProgs
import Relic.Proofs.ReaderPE
import Relic.Proofs.ReaderCab
import Relic.Proofs.ReaderPS
import Relic.Model.ReaderCalls
import Relic.Generated.Readers
namespace Relic.Props.C09
open Relic Relic.Rd

/-! ## the calculus -/

/-- **run_eq_whole.** A program without a raw `Read` computes on any stream what it computes on the whole buffer:
    same result (value, error, panic), same bytes to every sink in the same order, same logical remainder.
    Side conditions, each needed (witnesses below): programs that use a `bufio.Reader` need a stream that never answers
    100 consecutive reads with `0, nil`; programs that probe for end of input with a one-byte `Read` need a stream
    without empty reads whose terminal error is not delivered together with data. -/
theorem run_eq_whole {α : Type} (p : Prog α) (hp : p.rawFree) (s : Stream)
    (hb : p.bufFree ∨ s.NoStall) (hq : p.probeFree ∨ s.Plain) :
    (run p (M.raw s)).1 = (runFlat p (Flat.raw s.data s.term)).1 ∧
    (run p (M.raw s)).2.1 = (runFlat p (Flat.raw s.data s.term)).2.1 ∧
    (run p (M.raw s)).2.2.abs = (runFlat p (Flat.raw s.data s.term)).2.2 := by
  have h := run_flat p hp (M.raw s) trivial (by
    rcases hb with h | h
    · exact Or.inr ⟨h, rfl⟩
    · exact Or.inl h) hq
  have e : (M.raw s).abs = Flat.raw s.data s.term := by simp [M.raw, M.abs, Flat.raw]
  rw [e] at h
  exact ⟨h.1, h.2.1, h.2.2.abs⟩

/-- **run_split_independent.** Two streams with the same concatenation and the same terminal condition — however
    they are cut into reads, with or without empty reads, with the terminal error on its own or together with the last
    bytes — give the same result, the same sink contents and leave the same logical remainder, for every program
    built from `ReadFull`, `Copy`/`CopyN`/`ReadAll`/`Discard`, `bufio` (`Peek`, `ReadByte`, `ReadString`, `WriteTo`),
    the one-byte probe, sink writes and arbitrary pure computation. -/
theorem run_split_independent {α : Type} (p : Prog α) (hp : p.rawFree) (s s' : Stream)
    (hd : s.data = s'.data) (ht : s.term = s'.term)
    (hb : p.bufFree ∨ (s.NoStall ∧ s'.NoStall)) (hq : p.probeFree ∨ (s.Plain ∧ s'.Plain)) :
    (run p (M.raw s)).1 = (run p (M.raw s')).1 ∧
    (run p (M.raw s)).2.1 = (run p (M.raw s')).2.1 ∧
    (run p (M.raw s)).2.2.abs = (run p (M.raw s')).2.2.abs := by
  have h1 := run_eq_whole p hp s (hb.imp id (·.1)) (hq.imp id (·.1))
  have h2 := run_eq_whole p hp s' (hb.imp id (·.2)) (hq.imp id (·.2))
  rw [hd, ht] at h1
  exact ⟨h1.1.trans h2.1.symm, h1.2.1.trans h2.2.1.symm, h1.2.2.trans h2.2.2.symm⟩

-- non-vacuity: a program with all raw-free primitives of `io`, on two different deliveries (one with empty reads and
-- the error delivered with the last byte)
example :
    let p : Prog (Bytes × Nat) :=
      .readFull 3 fun r => .copy (some 2) schedCopy fun b _ => .emit 1 b <| .copy none schedReadAll fun c _ =>
        .ret ((match r with | .ok x => x | .short x _ => x), c.length)
    run p (M.raw ⟨[[1], [], [2, 3, 4], [5, 6], [], [7]], .eof, true⟩) =
      ((.ok ([1, 2, 3], 2)), [(1, [4, 5])], ⟨⟨[], .eof, true⟩, none⟩) ∧
    run p (M.raw ⟨[[1, 2, 3, 4, 5, 6, 7]], .eof, false⟩) =
      ((.ok ([1, 2, 3], 2)), [(1, [4, 5])], ⟨⟨[], .eof, false⟩, none⟩) := by
  decide

/-- the program of the counter-example: `n, _ := r.Read(make([]byte, 2)); return n` -/
def rawLen : Prog Nat := .rawRead 2 fun b _ => .ret b.length

/-- **raw_read_not_split_independent.** A primitive that exposes the length of a single `Read` is not split
    independent: the same two bytes delivered as `[1],[2]` and as `[1,2]`. -/
theorem raw_read_not_split_independent :
    ∃ (p : Prog Nat) (s s' : Stream), s.data = s'.data ∧ s.term = s'.term ∧ s.Plain ∧ s'.Plain ∧
      (run p (M.raw s)).1 ≠ (run p (M.raw s')).1 :=
  ⟨rawLen, ⟨[[1], [2]], .eof, false⟩, ⟨[[1, 2]], .eof, false⟩, rfl, rfl, by decide +kernel, by decide +kernel, by decide⟩

/-- `_, err := r.Read(make([]byte, 1)); return err == nil` — "is anything left?" -/
def probeLeft : Prog Bool := .probe fun e => .ret e.isNone

/-- **probe_not_split_independent.** The one-byte probe is not split independent outside `Plain` streams, in both
    directions: (a) nothing is left but an empty read is pending: the probe says "something left";
    (b) one byte is left and arrives together with io.EOF: the probe says "nothing left". -/
theorem probe_not_split_independent :
    (run probeLeft (M.raw ⟨[[]], .eof, false⟩)).1 = .ok true ∧ (runFlat probeLeft (Flat.raw [] .eof)).1 = .ok false ∧
    (run probeLeft (M.raw ⟨[[0x55]], .eof, true⟩)).1 = .ok false ∧ (runFlat probeLeft (Flat.raw [0x55] .eof)).1 = .ok true := by
  decide

/-- `br := bufio.NewReader(r); _, err := br.Peek(1)` -/
def peekOne : Prog (Option BErr) := .wrapBufio 4096 <| .peek 1 fun _ e => .ret e

/-- **bufio_stall_not_split_independent.** `bufio.Reader` gives up after 100 consecutive empty reads
    (io.ErrNoProgress): with 99 of them in front of a byte `Peek(1)` succeeds, with 100 it fails. -/
theorem bufio_stall_not_split_independent :
    (run peekOne (M.raw ⟨List.replicate 99 [] ++ [[7]], .eof, false⟩)).1 = .ok none ∧
    (run peekOne (M.raw ⟨List.replicate 100 [] ++ [[7]], .eof, false⟩)).1 = .ok (some .noProgress) := by
  decide

/-! ## the digesters -/

/-- **pe_reader_split_independent.** `authenticode.DigestPE` — headers, gap, sections (with `io.CopyN`, or page by
    page with `io.ReadFull` when page hashes are asked for), trailer — returns the same sizes, markers and page-hash
    table inputs and feeds the same bytes to the image hash for every two deliveries of the same bytes with the same
    end (EOF or error).  No side condition. -/
theorem pe_reader_split_independent (pg : Bool) (s s' : Stream) (hd : s.data = s'.data) (ht : s.term = s'.term) :
    (run (digestPE pg) (M.raw s)).1 = (run (digestPE pg) (M.raw s')).1 ∧
    sinkBytes (run (digestPE pg) (M.raw s)).2.1 hashSink = sinkBytes (run (digestPE pg) (M.raw s')).2.1 hashSink := by
  have h := run_split_independent (digestPE pg) (digestPE_free pg).rawFree s s' hd ht
    (Or.inl (digestPE_free pg).bufFree) (Or.inl (digestPE_free pg).probeFree)
  exact ⟨h.1, by rw [h.2.1]⟩

theorem pe_reader_eq_whole (pg : Bool) (s : Stream) :
    (run (digestPE pg) (M.raw s)).1 = (runFlat (digestPE pg) (Flat.raw s.data s.term)).1 ∧
    (run (digestPE pg) (M.raw s)).2.1 = (runFlat (digestPE pg) (Flat.raw s.data s.term)).2.1 := by
  have h := run_eq_whole (digestPE pg) (digestPE_free pg).rawFree s
    (Or.inl (digestPE_free pg).bufFree) (Or.inl (digestPE_free pg).probeFree)
  exact ⟨h.1, h.2.1⟩

/-- **ps_reader_split_independent.** `authenticode.DigestPowershell` (one `bufio.Reader`: `Peek(2)`, `ReadString`,
    pairs of `ReadByte`, `io.Copy(io.Discard, br)`) returns the same sizes and feeds the same bytes to the hash for every
    two deliveries of the same bytes, provided neither stalls for 100 consecutive reads. -/
theorem ps_reader_split_independent (style fuel : Nat) (s s' : Stream) (hd : s.data = s'.data) (ht : s.term = s'.term)
    (hs : s.NoStall) (hs' : s'.NoStall) :
    (run (digestPS style fuel) (M.raw s)).1 = (run (digestPS style fuel) (M.raw s')).1 ∧
    sinkBytes (run (digestPS style fuel) (M.raw s)).2.1 hashSink =
      sinkBytes (run (digestPS style fuel) (M.raw s')).2.1 hashSink := by
  have h := run_split_independent (digestPS style fuel) (digestPS_free style fuel).rawFree s s' hd ht
    (Or.inr ⟨hs, hs'⟩) (Or.inl (digestPS_free style fuel).probeFree)
  exact ⟨h.1, by rw [h.2.1]⟩

theorem ps_reader_eq_whole (style fuel : Nat) (s : Stream) (hs : s.NoStall) :
    (run (digestPS style fuel) (M.raw s)).1 = (runFlat (digestPS style fuel) (Flat.raw s.data s.term)).1 ∧
    (run (digestPS style fuel) (M.raw s)).2.1 = (runFlat (digestPS style fuel) (Flat.raw s.data s.term)).2.1 := by
  have h := run_eq_whole (digestPS style fuel) (digestPS_free style fuel).rawFree s
    (Or.inr hs) (Or.inl (digestPS_free style fuel).probeFree)
  exact ⟨h.1, h.2.1⟩

/-- **cab_reader_split_independent.** `cabfile.Digest` (after fix F-rd-cab-tail: the rest of the input is drained with
    `io.Copy(io.Discard, r)` and the byte count decides about trailing garbage) returns the same result, hashes the same
    bytes and builds the same `Patched` header for every two deliveries of the same bytes with the same end.  No side
    condition. -/
theorem cab_reader_split_independent (s s' : Stream) (hd : s.data = s'.data) (ht : s.term = s'.term) :
    (run digestCab (M.raw s)).1 = (run digestCab (M.raw s')).1 ∧
    (run digestCab (M.raw s)).2.1 = (run digestCab (M.raw s')).2.1 := by
  have h := run_split_independent digestCab digestCab_free.rawFree s s' hd ht
    (Or.inl digestCab_free.bufFree) (Or.inl digestCab_free.probeFree)
  exact ⟨h.1, h.2.1⟩

theorem cab_reader_eq_whole (s : Stream) :
    (run digestCab (M.raw s)).1 = (runFlat digestCab (Flat.raw s.data s.term)).1 ∧
    (run digestCab (M.raw s)).2.1 = (runFlat digestCab (Flat.raw s.data s.term)).2.1 := by
  have h := run_eq_whole digestCab digestCab_free.rawFree s (Or.inl digestCab_free.bufFree) (Or.inl digestCab_free.probeFree)
  exact ⟨h.1, h.2.1⟩

/-- a minimal cabinet: 36-byte header (no folders, no files, no flags, TotalSize = OffsetFiles = 36) -/
def tinyCab : Bytes :=
  [0x4d, 0x53, 0x43, 0x46, 0, 0, 0, 0, 36, 0, 0, 0, 0, 0, 0, 0, 36, 0, 0, 0, 0, 0, 0, 0, 3, 1, 0, 0, 0, 0, 0, 0, 0, 0, 0, 0]

-- the two deliveries that fooled the original code
example : (run digestCab (M.raw ⟨[tinyCab ++ [0x55]], .eof, true⟩)).1 = .err "trailing" ∧
    (run digestCab (M.raw ⟨[tinyCab, []], .eof, false⟩)).1.isOk = true := by decide +kernel

/-! ### the code before fix F-rd-cab-tail (`digestCabOrig`: one-byte probe `r.Read(make([]byte, 1))`) -/

/-- the statement, for the original code -/
def cab_orig_reader_split_independent_full : Prop :=
  ∀ (s s' : Stream), s.data = s'.data → s.term = s'.term →
    (run digestCabOrig (M.raw s)).1 = (run digestCabOrig (M.raw s')).1

/-- the original code was split independent over `Plain` streams only (no empty reads; the terminal error not delivered
    with data): its last act was a one-byte `r.Read` whose error alone decided between "trailing garbage" and success -/
theorem cab_orig_reader_split_independent_partial (s s' : Stream) (hd : s.data = s'.data) (ht : s.term = s'.term)
    (hp : s.Plain) (hp' : s'.Plain) :
    (run digestCabOrig (M.raw s)).1 = (run digestCabOrig (M.raw s')).1 ∧
    (run digestCabOrig (M.raw s)).2.1 = (run digestCabOrig (M.raw s')).2.1 := by
  have h := run_split_independent digestCabOrig digestCabOrig_free.rawFree s s' hd ht
    (Or.inl digestCabOrig_free.bufFree) (Or.inr ⟨hp, hp'⟩)
  exact ⟨h.1, h.2.1⟩

/-- **cab_reader_split_dependent** (finding F-rd-cab-tail, repaired).  The original `cabfile.Digest` depended on the delivery:
    (a) a cabinet followed by one byte of garbage was refused when read from a file, and accepted — the garbage
        ignored — when the reader returned io.EOF together with that byte (as net/http request bodies do);
    (b) a well-formed cabinet was refused ("trailing garbage") when the reader answered the final probe with `0, nil`. -/
theorem cab_reader_split_dependent :
    (run digestCabOrig (M.raw ⟨[tinyCab ++ [0x55]], .eof, false⟩)).1 = .err "trailing" ∧
    (run digestCabOrig (M.raw ⟨[tinyCab ++ [0x55]], .eof, true⟩)).1.isOk = true ∧
    (run digestCabOrig (M.raw ⟨[tinyCab], .eof, false⟩)).1.isOk = true ∧
    (run digestCabOrig (M.raw ⟨[tinyCab, []], .eof, false⟩)).1 = .err "trailing" := by
  decide +kernel

theorem cab_orig_reader_split_independent_full_false : ¬ cab_orig_reader_split_independent_full := by
  intro h
  have := h ⟨[tinyCab ++ [0x55]], .eof, false⟩ ⟨[tinyCab ++ [0x55]], .eof, true⟩ rfl rfl
  have c := cab_reader_split_dependent
  rw [c.1] at this
  have c2 := c.2.1
  rw [← this] at c2
  simp [Res.isOk] at c2

/-! ## digesters behind archive framing: ZIP through a stream, tar, code pages, ar -/

/-- generic corollary for programs that use neither raw reads, probes nor bufio -/
theorem free_split_independent {α : Type} (p : Prog α) (hf : p.Free true true true) (s s' : Stream)
    (hd : s.data = s'.data) (ht : s.term = s'.term) :
    (run p (M.raw s)).1 = (run p (M.raw s')).1 ∧ (run p (M.raw s)).2.1 = (run p (M.raw s')).2.1 := by
  have h := run_split_independent p hf.rawFree s s' hd ht (Or.inl hf.bufFree) (Or.inl hf.probeFree)
  exact ⟨h.1, h.2.1⟩

/-- **readAt_client_split_independent.** `zipslicer.streamReaderAt` (`io.CopyN` to Discard + `io.ReadFull`) makes every
    consumer of a streamed ZIP split independent: whatever sequence of `ReadAt(len, off)` requests a client issues as a
    function of the answers it got (SectionReader, TeeReader, flate's own buffering, CRC and descriptor checks, the JAR
    manifest and AppX block-map logic are such clients), its result is the same for all deliveries of the same bytes. -/
theorem readAt_client_split_independent {α : Type} (c : RAClient α) (pos : Nat) (s s' : Stream)
    (hd : s.data = s'.data) (ht : s.term = s'.term) :
    (run (raProg c pos) (M.raw s)).1 = (run (raProg c pos) (M.raw s')).1 :=
  (free_split_independent _ (raProg_free c pos) s s' hd ht).1

-- a client that reads a 2-byte length at offset 1 and then that many bytes right behind it
example :
    let c : RAClient Bytes := .readAt 2 1 fun a => match a with
      | .ok b => .readAt (b.headD 0).toNat 3 fun a2 => match a2 with | .ok d => .done d | _ => .fail "short"
      | _ => .fail "short"
    (run (raProg c 0) (M.raw ⟨[[9, 2], [], [0, 7], [8, 9]], .eof, true⟩)).1 = .ok [7, 8] ∧
    (run (raProg c 0) (M.raw ⟨[[9, 2, 0, 7, 8, 9]], .eof, false⟩)).1 = .ok [7, 8] := by decide +kernel

/-- **jar_reader_split_independent** (JAR, APK, AppX, VSIX: every digester that goes through `zipslicer.ReadZipTar`).
    The whole path from the upload stream to the ZIP reader — `archive/tar` framing (`tr.Next`, `ioutil.ReadAll(tr)` of
    `zipdir.bin`, the member reader of `contents.zip`), `zipTarReader.Read` with its `tr.Next()` check on the member's io.EOF,
    and `streamReaderAt.ReadAt` (`io.CopyN` to Discard + `io.ReadFull`, `pos` not advanced by a failed skip) — is split
    independent for EVERY consumer `mk cd size` of the resulting `io.ReaderAt`: whatever `ReadAt(len, off)` calls the consumer
    issues as a function of the directory blob, the size and the answers so far (SectionReader, TeeReader, flate with its own
    bufio, CRC / descriptor checks, `signjar`'s manifest logic, `signappx`'s block map, `apk`'s merkle hasher are such
    consumers), its result and everything it wrote to its sinks are the same for all deliveries of the same bytes.
    Tar layer: plain headers (as `ZipToTar` writes them), see `tarParse`.
    Scope of the tie: for uploads that fail with a transport error the program is tied to the code up to and including the
    first answer that carries that error (real consumers stop there): afterwards the Go code reports io.EOF or the transport
    error again depending on whether the error came together with the member's last byte (`zipTarReader` keeps `tr` when
    `tr.Read` returns a non-EOF error), which no program of the calculus can see. -/
theorem jar_reader_split_independent {α : Type} (mk : Bytes → Nat → ZClient α) (s s' : Stream)
    (hd : s.data = s'.data) (ht : s.term = s'.term) :
    (run (readZipTar mk) (M.raw s)).1 = (run (readZipTar mk) (M.raw s')).1 ∧
    (run (readZipTar mk) (M.raw s)).2.1 = (run (readZipTar mk) (M.raw s')).2.1 :=
  free_split_independent _ (readZipTar_free mk) s s' hd ht

/-- and on any delivery the consumer sees what it sees on the whole buffer -/
theorem jar_reader_eq_whole {α : Type} (mk : Bytes → Nat → ZClient α) (s : Stream) :
    (run (readZipTar mk) (M.raw s)).1 = (runFlat (readZipTar mk) (Flat.raw s.data s.term)).1 := by
  have f := readZipTar_free mk
  exact (run_eq_whole _ f.rawFree s (Or.inl f.bufFree) (Or.inl f.probeFree)).1

/-! What stays open for JAR/APK/AppX/VSIX (`jar_reader_refines_model_full`, no Lean statement): naming the concrete consumer — i.e.
    compress/flate, the CRC check and `updateManifest` as one `ZClient` — and its refinement to `Relic.Model.Jar` / `Appx` / `ApkSign`,
    which start from the parsed ZIP.  PAX/GNU tar records are outside `tarParse`. -/

/-- **xap_reader_split_independent_partial.** `signxap.DigestXapTar` over `archive/tar` restricted to plain headers
    (`tarNext`: CopyN-discard, tryReadFull of the padding, ReadFull of the 512-byte block(s); `tarCopy`: the limited
    pass-through reads of `regFileReader`): same patch offsets and same bytes hashed for all deliveries; `removeSig` is any
    function (the model's `Relic.Xap.removeSignature` in the tie). -/
theorem xap_reader_split_independent_partial (removeSig : Bytes → Bytes) (fuel : Nat) (s s' : Stream)
    (hd : s.data = s'.data) (ht : s.term = s'.term) :
    (run (digestXapTar removeSig fuel) (M.raw s)).1 = (run (digestXapTar removeSig fuel) (M.raw s')).1 ∧
    (run (digestXapTar removeSig fuel) (M.raw s)).2.1 = (run (digestXapTar removeSig fuel) (M.raw s')).2.1 :=
  free_split_independent _ (xapLoop_free _ _ _ _) s s' hd ht

/-- **msi_reader_split_independent_partial.** `authenticode.DigestMsiTar` (plain and extended) over the same tar layer:
    the sequence of writes to the hash, including the pre-hashed metadata blob, is the same for all deliveries. -/
theorem msi_reader_split_independent_partial (extended : Bool) (fuel : Nat) (s s' : Stream)
    (hd : s.data = s'.data) (ht : s.term = s'.term) :
    (run (digestMsiTar extended fuel) (M.raw s)).1 = (run (digestMsiTar extended fuel) (M.raw s')).1 ∧
    (run (digestMsiTar extended fuel) (M.raw s)).2.1 = (run (digestMsiTar extended fuel) (M.raw s')).2.1 :=
  free_split_independent _ (msiLoop_free _ _ _ _ _) s s' hd ht

/-! `xap_reader_split_independent_full` / `msi_reader_split_independent_full` — for every tar stream `archive/tar` accepts (PAX
    and GNU extension records, sparse members, base-256 sizes, header checksums) — have no Lean statement: `tarParse` reads plain
    headers only and trusts the block; also open is the refinement to the member-list models `Relic.Xap.digestTar` /
    `Relic.MsiDigest.digestMsiTar`, which start after archive/tar has parsed. -/

/-- **macho_pages_reader_split_independent.** `csblob.hashPages` (the code-directory slots of Mach-O and DMG signing:
    4096-byte pages read with `io.ReadFull`, the short last page hashed as it is): same pages and code limit for all
    deliveries, whatever the page size and fuel. -/
theorem macho_pages_reader_split_independent (pageSize fuel : Nat) (s s' : Stream)
    (hd : s.data = s'.data) (ht : s.term = s'.term) :
    (run (hashPages pageSize fuel) (M.raw s)).1 = (run (hashPages pageSize fuel) (M.raw s')).1 :=
  (free_split_independent _ (hashPagesLoop_free _ _ _ _) s s' hd ht).1

example : (run (hashPages 4 5) (M.raw ⟨[[1, 2, 3], [4, 5], [], [6, 7, 8, 9, 10]], .eof, true⟩)).1 =
    .ok ([[1, 2, 3, 4], [5, 6, 7, 8], [9, 10]], 10) := by decide

/-! `macho_reader_split_independent_full` has no Lean statement: `machos.Sign` reads the header through `io.TeeReader` + `scanFile`
    (binary.Read / ReadFull), then hashes `io.LimitReader(io.MultiReader(header, code, padding))` with `hashPages`; the load-command
    scan and the MultiReader / LimitReader composition have no reader program (all their calls are primitives: readers_generated_ok). -/

/-- **deb_reader_split_independent_partial.** The member walk of `signdeb.Sign` over `blakesmith/ar` and `readercounter`
    (8-byte global header discarded, per member CopyN-discard + ReadFull(60), the member copied to md5/sha1 through ar's limited
    pass-through Read, `counter.N` for the patch offset): the per-member (name, size, content) lines, the patch offset and
    length are the same for all deliveries.  Partial: the control tarball is also fed to a gzip/xz/tar parser through an
    io.Pipe (for the audit record), which is not modelled. -/
theorem deb_reader_split_independent_partial (clean : Bytes → Bytes) (role : Bytes) (fuel : Nat) (s s' : Stream)
    (hd : s.data = s'.data) (ht : s.term = s'.term) :
    (run (digestDeb clean role fuel) (M.raw s)).1 = (run (digestDeb clean role fuel) (M.raw s')).1 :=
  (free_split_independent _ (digestDeb_free _ _ _) s s' hd ht).1

/-! `deb_reader_split_independent_full` (including the `PackageInfo` parsed from the control tarball) has no Lean statement. -/

/-! ## refinement: the reader programs on any delivery = the whole-buffer format models

  `obs` = (result, bytes written to the hash, bytes written to `patched`).  The right-hand sides are the existing
  models of C01/C02/C03/C05/C08 (Relic.Model.PE / Cab / PS), which are functions of the file: so what the server digests
  from the upload is what the verifier's run of the same digester computes from the patched file on disk. -/

theorem obs_congr {α σ τ : Type} (x : Res α × Log × σ) (y : Res α × Log × τ) (h1 : x.1 = y.1) (h2 : x.2.1 = y.2.1) :
    obs x = obs y := by
  obtain ⟨a, b, c⟩ := x
  obtain ⟨a', b', c'⟩ := y
  simp only at h1 h2
  subst h1; subst h2
  rfl

/-- **pe_reader_refines_model.** For every delivery of a file (any cuts, empty reads, io.EOF with or after the last
    bytes), `DigestPE` as the Go source reads it computes exactly what the whole-buffer model `Relic.PE.DigestPE` says:
    the same outcome class, `OrigSize`, `CertStart`, markers, the same bytes fed to the image hash, and — with page
    hashes — the page-hash table inputs of `Relic.PE.pageHashInputs` (read page by page with io.ReadFull).
    `peObs` maps the two panics of the model of the original code to the errors the repaired code returns and puts the
    "headers larger than a page" refusal first, as the code does. -/
theorem pe_reader_refines_model (pg : Bool) (s : Stream) (ht : s.term = .eof) :
    obs (run (digestPE pg) (M.raw s)) = peObs pg s.data := by
  have h := pe_reader_eq_whole pg s
  rw [obs_congr _ _ h.1 h.2, ht]
  exact pe_flat pg s.data

/-- **cab_reader_refines_model.** For every delivery of a file: result, hashed stream and `Patched` of `Relic.Cab.DigestCab`. -/
theorem cab_reader_refines_model (s : Stream) (ht : s.term = .eof) :
    obs (run digestCab (M.raw s)) = cabObs s.data := by
  have h := cab_reader_eq_whole s
  rw [obs_congr _ _ h.1 h.2, ht]
  exact cab_flat s.data

/-- **ps_reader_refines_model** (deliveries that never stall for 100 reads; any fuel above the length): text size,
    signature size, UTF-16 flag and hashed stream of `Relic.PS.DigestPS`. -/
theorem ps_reader_refines_model (style fuel : Nat) (s : Stream) (ht : s.term = .eof) (hs : s.NoStall)
    (hf : s.data.length + 1 < fuel) :
    obs (run (digestPS style fuel) (M.raw s)) = psObs s.data style := by
  have h := ps_reader_eq_whole style fuel s hs
  rw [obs_congr _ _ h.1 h.2, ht]
  exact ps_flat s.data style fuel hf

-- non-vacuity of the refinements: a delivery with empty reads and io.EOF delivered with the last byte
example : (⟨[[0x4d], [], [0x5a, 1, 2]], .eof, true⟩ : Stream).term = .eof ∧
    (⟨[[0x23, 0x20], [0x78, 13, 10]], .eof, false⟩ : Stream).Plain ∧
    (⟨[[0x23], [], [], [0x78]], .eof, true⟩ : Stream).NoStall := by decide

/-! ## T-gen: the call inventory of the Go digesters -/

/-- **readers_generated_ok.** Every call that the digester functions of the current /repo make on their reader, and on
    readers derived from it, is the call (callee and arguments as written) that the reader programs were written
    from.  Replacing an `io.ReadFull` by a `Read` loop, a `CopyN` by a hand-written copy, or adding a call, changes the
    regenerated list and breaks this theorem. -/
theorem readers_generated_ok :
    Relic.Generated.Readers.calls = Calls.asGenerated Calls.expected := by
  decide +kernel

/-- every listed call is a primitive of the calculus (none exposes the size of a single `Read`) -/
theorem readers_all_in_calculus : Calls.allInCalculus Calls.expected = true := by decide

/-- no listed function probes with a one-byte `Read` any more (cabfile.Digest: fix F-rd-cab-tail; pgptools.readOneSignature:
    its probe now is an `io.ReadFull`) -/
theorem readers_probes : Calls.probes Calls.expected = [] := by decide

end Relic.Props.C09

/- line-protocol handlers of property C11: the constant oracle of the entry-point sweep and the small parser models -/
import Relic.Model.ApkBlock
import Relic.Model.CsBlob
import Relic.Model.Binpatch
namespace Relic.Driver.C11
open Relic

def showUnit (r : Res Unit) : String :=
  match r with
  | .ok _ => "ok"
  | .err e => s!"err {e}"
  | .panic p => s!"panic {p}"
  | .diverge => "diverge"

/-- `C11 ep|srv …`: the oracle is the constant "no panic, no abort, no timeout, allocation within the bound" -/
def handle : List String → String
  | "ep" :: _ => "safe"
  | "srv" :: _ => "safe"
  | _ => "bad-op"

/-- both variants are printed: the unchanged code first, the guarded code in the tag -/
def both (orig fixed : String) : String := s!"{orig} #fixed={fixed.replace " " "_"}"

def handleApk : List String → String
  | ["verify", hx] =>
    match fromHex hx with
    | none => "bad-op"
    | some g => both (showUnit (ApkBlock.verifyGap false g)) (showUnit (ApkBlock.verifyGap true g))
  | _ => "bad-op"

def handleCs : List String → String
  | ["super", hx] =>
    match fromHex hx with
    | none => "bad-op"
    | some g => both (showUnit (CsBlob.verifyBlob false g)) (showUnit (CsBlob.verifyBlob true g))
  | _ => "bad-op"

def handleXap : List String → String
  | ["rm", hx] =>
    match fromHex hx with
    | none => "bad-op"
    | some g =>
      let sh (r : Res Bytes) : String := match r with
        | .ok _ => "ok" | .err e => s!"err {e}" | .panic p => s!"panic {p}" | .diverge => "diverge"
      both (sh (CsBlob.removeSignature false g)) (sh (CsBlob.removeSignature true g))
  | _ => "bad-op"

def handleBin : List String → String
  | ["load", hx] =>
    match fromHex hx with
    | none => "bad-op"
    | some g =>
      match Binpatch.load g with
      | .ok ps => s!"ok {ps.length}"
      | .err e => s!"err {e}"
      | .panic p => s!"panic {p}"
      | .diverge => "diverge"
  | _ => "bad-op"

end Relic.Driver.C11

/-
  Relic.Proofs.ZipRewriteFull — the two rewriters of Relic.Model.ZipRewrite on a readable archive, all the
  way to the independent reader: `manglerRewrite_parses` (VSIX / AppX), `jarRewrite_parses` (JAR / APK v1).
-/
import Relic.Proofs.ZipPass
namespace Relic.Zip
open Relic Relic.SpecZip

/-- kept flags from a predicate on the directory entry (`keepFile` of signjar / vsix) -/
def setKeep (keep : File → Bool) (kms : List KM) : List KM := kms.map fun q => (keep q.2.2.file, q.2.1, q.2.2)

theorem setKeep_ms (keep : File → Bool) (kms : List KM) : (setKeep keep kms).map (·.2.2) = kms.map (·.2.2) := by
  simp [setKeep, List.map_map, Function.comp_def]

theorem setKeep_members (keep : File → Bool) (kms : List KM) : (setKeep keep kms).map (·.2.1) = kms.map (·.2.1) := by
  simp [setKeep, List.map_map, Function.comp_def]

theorem assign_keptPMs (z : Bytes) (keep : File → Bool) : ∀ (kms : List KM) (L : Nat),
    (assign keep (kms.map (·.2.2)) L).map (fun p => placed p.1 p.2) = (keptPMs z (setKeep keep kms) L).map (·.1) := by
  intro kms
  induction kms with
  | nil => intro _; rfl
  | cons q r ih =>
    intro L
    obtain ⟨k, sm, m⟩ := q
    have ih' := ih
    simp only [setKeep] at ih' ⊢
    simp only [List.map_cons, assign, keptPMs]
    cases hk : keep m.file
    · simp only [Bool.false_eq_true, if_false]; exact ih' L
    · simp only [if_true, List.map_cons, ih' (L + m.total)]

theorem keptBytes_K (z : Bytes) (keep : File → Bool) : ∀ (kms : List KM),
    keptBytes z keep (kms.map (·.2.2)) = keptBytesK z (setKeep keep kms) := by
  intro kms
  induction kms with
  | nil => rfl
  | cons q r ih =>
    obtain ⟨k, sm, m⟩ := q
    simp only [setKeep] at ih ⊢
    simp only [List.map_cons, keptBytes, keptBytesK, ih]

theorem keptLen_K (keep : File → Bool) : ∀ (kms : List KM), keptLen keep (kms.map (·.2.2)) = keptLenK (setKeep keep kms) := by
  intro kms
  induction kms with
  | nil => rfl
  | cons q r ih =>
    obtain ⟨k, sm, m⟩ := q
    simp only [setKeep] at ih ⊢
    simp only [List.map_cons, keptLen, keptLenK, ih]

theorem contigMs_K : ∀ (kms : List KM) (pos stop : Nat), contigMs pos (kms.map (·.2.2)) stop → contigK pos kms stop := by
  intro kms
  induction kms with
  | nil => intro _ _ h; exact h
  | cons q r ih => intro pos stop h; obtain ⟨k, sm, m⟩ := q; exact ⟨h.1, ih _ _ h.2⟩

theorem contigK_setKeep (keep : File → Bool) : ∀ (kms : List KM) (pos stop : Nat), contigK pos kms stop →
    contigK pos (setKeep keep kms) stop := by
  intro kms
  induction kms with
  | nil => intro _ _ h; exact h
  | cons q r ih => intro pos stop h; obtain ⟨k, sm, m⟩ := q; exact ⟨h.1, ih _ _ h.2⟩

theorem jarRead_some {z : Bytes} {d : Directory} {ms : List Member} (h63 : z.length < 2 ^ 63) (h : jarRead z = .ok (d, ms)) :
    readStream z = .ok d ∧ passMembers jarReads (ST z 0) d.files = .ok ms := by
  unfold jarRead at h
  unfold readStream
  cases hf : findDirectory ⟨z, false, 0⟩ with
  | ok loc =>
    rw [hf] at h
    simp only at h ⊢
    split at h
    · cases h
    · next hle =>
      rw [if_neg (by omega), if_neg hle]
      cases hr : readWithDirectory z.length (z.drop loc) with
      | ok d' =>
        rw [hr] at h
        simp only at h
        cases hp : passMembers jarReads ⟨z, true, 0⟩ d'.files with
        | ok ms' =>
          rw [hp] at h
          simp only at h
          split at h
          · simp only [Res.ok.injEq, Prod.mk.injEq] at h
            obtain ⟨rfl, rfl⟩ := h
            exact ⟨rfl, hp⟩
          · cases h
        | err e => rw [hp] at h; cases h
        | panic s => rw [hp] at h; cases h
        | diverge => rw [hp] at h; cases h
      | err e => rw [hr] at h; cases h
      | panic s => rw [hr] at h; cases h
      | diverge => rw [hr] at h; cases h
  | err e => rw [hf] at h; cases h
  | panic s => rw [hf] at h; cases h
  | diverge => rw [hf] at h; cases h

theorem manglerRead_some {z : Bytes} {d : Directory} {ms : List Member} (h63 : z.length < 2 ^ 63) (h : manglerRead z = .ok (d, ms)) :
    readStream z = .ok d ∧ passMembers vsixReads (ST z 0) d.files = .ok ms := by
  unfold manglerRead at h
  unfold readStream
  cases hf : findDirectory ⟨z, false, 0⟩ with
  | ok loc =>
    rw [hf] at h
    simp only at h ⊢
    split at h
    · cases h
    · next hle =>
      rw [if_neg (by omega), if_neg hle]
      cases hr : readWithDirectory z.length (z.drop loc) with
      | ok d' =>
        rw [hr] at h
        simp only at h
        cases hp : passMembers vsixReads ⟨z, true, 0⟩ d'.files with
        | ok ms' =>
          rw [hp] at h
          simp only [Res.ok.injEq, Prod.mk.injEq] at h
          obtain ⟨rfl, rfl⟩ := h
          exact ⟨rfl, hp⟩
        | err e => rw [hp] at h; cases h
        | panic s => rw [hp] at h; cases h
        | diverge => rw [hp] at h; cases h
      | err e => rw [hr] at h; cases h
      | panic s => rw [hr] at h; cases h
      | diverge => rw [hr] at h; cases h
  | err e => rw [hf] at h; cases h
  | panic s => rw [hf] at h; cases h
  | diverge => rw [hf] at h; cases h

/-- **what the forward pass of a rewriter read**, for a readable archive: the directory `Read` returns, and
    the members as measured (one per directory entry, in order) -/
theorem pass_measured {z : Bytes} {a : Archive} (hp : parse z = some a) (hc : a.ends.comment = [])
    (h42 : 42 ≤ z.length) (h63 : z.length < 2 ^ 63) (hfix : (a.members.all fun m => fixedNeed m.entry.need) = true)
    (hsigned : descSigned a = true) (hw : (a.members.all (widthOK a)) = true)
    (rd : File → Bool) {d : Directory} {ms : List Member} (hrs : readStream z = .ok d)
    (hpm : passMembers rd (ST z 0) d.files = .ok ms) :
    ∃ kms, MeasuredL z a a.ends.cdOff kms ∧ kms.map (·.2.1) = a.members ∧ kms.map (·.2.2) = ms ∧
      d.dirLoc = a.ends.cdOff ∧ a.ends.cdOff ≤ z.length := by
  obtain ⟨hen, _, hes, _, _⟩ := parse_some hp
  obtain ⟨d0, hd0, hfiles, hloc, _⟩ := read_of_parse hp hc h42 h63 hfix
  have := readStream_of_read hd0
  rw [hrs] at this
  simp only [Res.ok.injEq] at this
  subst this
  obtain ⟨p, hp22, _, _, _, _, hrest⟩ := ends_some hen
  have hcdz : a.ends.cdOff ≤ z.length := by
    split at hrest
    · obtain ⟨_, _, hq, _, hf, _⟩ := hrest
      omega
    · have := hrest.1; omega
  obtain ⟨kms, hM, hsm, _⟩ := measured_exists hp h63 hsigned hw a.members [] _ _ (fun _ h => h) hes
  have hfs : d.files = filesOf z a.ends.cdOff (kms.map (·.2.1.entry)) := by
    rw [hfiles, ← hsm, List.map_map]; rfl
  rw [hfs] at hpm
  exact ⟨kms, hM, hsm, (passMembers_measured rd kms _ 0 ms hM hpm).symm, hloc, hcdz⟩

/-- **`Mangle` + `Mangler.NewFile` + `MakePatch` on a readable archive** (the VSIX / AppX way of
    rewriting; code with the layout check of fix-F9): the output parses, kept members first, then the
    added ones. -/
theorem manglerRewrite_parses {z : Bytes} {a : Archive} (hp : parse z = some a) (hc : a.ends.comment = [])
    (h42 : 42 ≤ z.length) (h63 : z.length < 2 ^ 63) (hfix : (a.members.all fun m => fixedNeed m.entry.need) = true)
    (hsigned : descSigned a = true) (hw : (a.members.all (widthOK a)) = true)
    (mt md : Nat) (hmt : mt < 2 ^ 16) (hmd : md < 2 ^ 16) (news : List NewMember) (hnews : ∀ n ∈ news, NewOK n)
    (force : Bool) (out : Bytes) (h : manglerRewrite z news mt md force = .ok out) (hbound : out.length < 2 ^ 64) :
    ∃ kms0 a', MeasuredL z a a.ends.cdOff kms0 ∧ kms0.map (·.2.1) = a.members ∧ parse out = some a' ∧
      specView out = some (keptViews z (setKeep vsixKeep kms0) 0 ++ newViews mt md news (keptLenK (setKeep vsixKeep kms0))) ∧
      MsFor out a'.ends.cdOff
        ((keptPMs z (setKeep vsixKeep kms0) 0 ++ newPMs mt md news (keptLenK (setKeep vsixKeep kms0))).map (·.2)) a'.members ∧
      a'.ends.comment = [] ∧
      a'.ends.count = (keptPMs z (setKeep vsixKeep kms0) 0).length + news.length ∧
      contigK 0 kms0 a.ends.cdOff ∧
      a'.ends.cdOff = keptLenK (setKeep vsixKeep kms0) + (newEntries mt md news (keptLenK (setKeep vsixKeep kms0))).2.length ∧
      ((∀ n ∈ news, NewReadable n) → 42 ≤ out.length →
        noComment a' out = true ∧ descSigned a' = true ∧ zip64Fixed a' = true ∧ (a'.members.all (widthOK a')) = true) := by
  unfold manglerRewrite manglerRewriteWith at h
  cases hr : manglerRead z with
  | ok x =>
    obtain ⟨d, ms⟩ := x
    rw [hr] at h
    simp only at h
    obtain ⟨hrs, hpm⟩ := manglerRead_some h63 hr
    obtain ⟨kms0, hM0, hsm0, hms, hloc, hcdz⟩ := pass_measured hp hc h42 h63 hfix hsigned hw vsixReads hrs hpm
    unfold manglerAssemble at h
    cases hwk : walk true false vsixKeep ms 0 { files := [], size := 0, dirLoc := 0 } [] with
    | ok y =>
      obtain ⟨nd1, dels, pos⟩ := y
      rw [hwk] at h
      simp only at h
      obtain ⟨w1, w2, w3, w4, w5⟩ := walk_spec true false vsixKeep ms 0 _ [] nd1 dels pos hwk
      split at h
      · cases h
      · next hne =>
        have hpos : pos = d.dirLoc := by simpa using hne
        have hcm : contigMs 0 ms d.dirLoc := by rw [← hpos]; exact w5 rfl
        generalize hkms : setKeep vsixKeep kms0 = kms at *
        have hM : MeasuredL z a a.ends.cdOff kms := by rw [← hkms]; exact MeasuredL_flags _ kms0 _ hM0
        have hmem : ∀ q ∈ kms, q.2.1 ∈ a.members := by
          intro q hq
          rw [← hsm0, ← setKeep_members vsixKeep, hkms]
          exact List.mem_map.mpr ⟨q, hq, rfl⟩
        have hck0 : contigK 0 kms0 a.ends.cdOff := by
          apply contigMs_K; rw [hms, ← hloc]; exact hcm
        have e_files : nd1.files = (keptPMs z kms 0).map (·.1) := by
          rw [w1, ← hms]
          simp only [List.nil_append]
          rw [assign_keptPMs z vsixKeep kms0 0, hkms]
        have e_loc : nd1.dirLoc = keptLenK kms := by
          rw [w2, ← hms, keptLen_K vsixKeep kms0, hkms]; simp
        have e_kb : applyDels z 0 dels d.dirLoc = keptBytesK z kms := by
          rw [w3, List.nil_append, applyDels_contig z vsixKeep ms 0 _ hcm, ← hms, keptBytes_K z vsixKeep kms0, hkms]
        have hA := addNews_spec mt md news [] nd1
        simp only [List.nil_append] at hA
        obtain ⟨a1, a2, a3, _⟩ := hA
        generalize hP : addNews mt md news ([], nd1) = P at *
        have hH : headersOK P.2.files = true := by
          cases hh : headersOK P.2.files with
          | true => rfl
          | false => rw [hh] at h; simp at h
        rw [hH] at h
        simp only [Bool.not_true, Bool.false_eq_true, if_false, Res.ok.injEq] at h
        have hx : ∀ q ∈ keptPMs z kms 0, dirHeaderOK q.1 = true := by
          intro q hq
          rw [a2, e_files] at hH
          simp only [headersOK, List.all_eq_true] at hH
          exact hH q.1 (List.mem_append_left _ (List.mem_map.mpr ⟨q, hq, rfl⟩))
        have hkl := keptBytesK_length hcdz kms _ hM
        have hBl : (keptBytesK z kms ++ P.1).length = P.2.dirLoc := by
          rw [List.length_append, hkl, a1, a3, e_loc]
        have hwd : writeDirectory P.2 force = ((headersOf P.2.files).1,
            endRecords P.2.files.length (headersOf P.2.files).1.length P.2.dirLoc force (maxReader P.2.files),
            { P.2 with files := (headersOf P.2.files).2 }) := rfl
        rw [hwd, e_kb] at h
        simp only at h
        have hout : out = (keptBytesK z kms ++ P.1) ++ (headersOf P.2.files).1 ++
            endRecords P.2.files.length (headersOf P.2.files).1.length P.2.dirLoc force (maxReader P.2.files) := by
          rw [← h]
        have hb2 : (keptBytesK z kms ++ P.1).length + (headersOf P.2.files).1.length < 2 ^ 64 := by
          have := congrArg List.length hout
          simp only [List.length_append] at this hbound ⊢
          omega
        obtain ⟨a', hp', hfor, hview, e1, e2, e3, _, _, hR⟩ := kept_news_parses hcdz kms _ hM hmem mt md hmt hmd news hnews hx force
          (keptBytesK z kms ++ P.1) (headersOf P.2.files).1
          (endRecords P.2.files.length (headersOf P.2.files).1.length P.2.dirLoc force (maxReader P.2.files)) P.2.files
          (by rw [a1, e_loc]) (by rw [a2, e_files, e_loc]) rfl (by rw [hBl]) hb2
        rw [← hout] at hp' hfor hview hR
        have ecd : a'.ends.cdOff = keptLenK kms + (newEntries mt md news (keptLenK kms)).2.length := by
          rw [e1, hBl, a3, e_loc]
        have hRR : (∀ n ∈ news, NewReadable n) → 42 ≤ out.length →
            noComment a' out = true ∧ descSigned a' = true ∧ zip64Fixed a' = true ∧ (a'.members.all (widthOK a')) = true := by
          intro hnr h42
          apply hR _ h42
          intro q hq
          have hkle : 0 + keptLenK kms ≤ a.ends.cdOff := by
            apply keptLenK_le kms 0 _
            rw [← hkms]; exact contigK_setKeep _ _ _ _ hck0
          rcases List.mem_append.mp hq with hq | hq
          · exact keptPMs_readable hcdz hfix hw kms _ 0 hM hmem (by omega) hx q hq
          · exact newPMs_readable mt md news _ (fun n hn => ⟨hnews n hn, hnr n hn⟩) q hq
        subst hkms
        refine ⟨kms0, a', hM0, hsm0, hp', hview, by rw [e1]; exact hfor, e2, ?_, hck0, ecd, hRR⟩
        rw [e3, a2, e_files, List.length_append, List.length_map, newEntries_fst_length]
    | err e => rw [hwk] at h; cases h
    | panic s => rw [hwk] at h; cases h
    | diverge => rw [hwk] at h; cases h
  | err e => rw [hr] at h; cases h
  | panic s => rw [hr] at h; cases h
  | diverge => rw [hr] at h; cases h

/-- **`insertSignature` of lib/signjar on a readable archive** (JAR, APK v1; code with the layout check of
    fix-F9): the output parses, added members first, then the kept ones. -/
theorem jarRewrite_parses {z : Bytes} {a : Archive} (hp : parse z = some a) (hc : a.ends.comment = [])
    (h42 : 42 ≤ z.length) (h63 : z.length < 2 ^ 63) (hfix : (a.members.all fun m => fixedNeed m.entry.need) = true)
    (hsigned : descSigned a = true) (hw : (a.members.all (widthOK a)) = true)
    (mt md : Nat) (hmt : mt < 2 ^ 16) (hmd : md < 2 ^ 16) (news : List NewMember) (hnews : ∀ n ∈ news, NewOK n)
    (out : Bytes) (h : jarRewrite z news mt md = .ok out) (hbound : out.length < 2 ^ 64) :
    ∃ kms0 a', MeasuredL z a a.ends.cdOff kms0 ∧ kms0.map (·.2.1) = a.members ∧ parse out = some a' ∧
      specView out = some (newViews mt md news 0 ++ keptViews z (setKeep jarKeep kms0) (newEntries mt md news 0).2.length) ∧
      MsFor out a'.ends.cdOff
        ((newPMs mt md news 0 ++ keptPMs z (setKeep jarKeep kms0) (newEntries mt md news 0).2.length).map (·.2)) a'.members ∧
      a'.ends.comment = [] ∧ contigK 0 kms0 a.ends.cdOff ∧
      a'.ends.cdOff = (newEntries mt md news 0).2.length + keptLenK (setKeep jarKeep kms0) ∧
      ((∀ n ∈ news, NewReadable n) → 42 ≤ out.length →
        noComment a' out = true ∧ descSigned a' = true ∧ zip64Fixed a' = true ∧ (a'.members.all (widthOK a')) = true) := by
  unfold jarRewrite jarRewriteWith at h
  cases hr : jarRead z with
  | ok x =>
    obtain ⟨d, ms⟩ := x
    rw [hr] at h
    simp only at h
    obtain ⟨hrs, hpm⟩ := jarRead_some h63 hr
    obtain ⟨kms0, hM0, hsm0, hms, hloc, hcdz⟩ := pass_measured hp hc h42 h63 hfix hsigned hw jarReads hrs hpm
    unfold jarAssemble at h
    have hA := addNews_spec mt md news [] { files := [], size := 0, dirLoc := 0 }
    simp only [List.nil_append, Nat.zero_add] at hA
    obtain ⟨a1, a2, a3, _⟩ := hA
    generalize hP : addNews mt md news ([], { files := [], size := 0, dirLoc := 0 }) = P at *
    obtain ⟨body, nd0⟩ := P
    simp only at h a1 a2 a3
    cases hwk : walk true true jarKeep ms 0 nd0 [] with
    | ok y =>
      obtain ⟨nd, dels, pos⟩ := y
      rw [hwk] at h
      simp only at h
      obtain ⟨w1, w2, w3, w4, w5⟩ := walk_spec true true jarKeep ms 0 _ [] nd dels pos hwk
      split at h
      · cases h
      · next hne =>
        have hpos : pos = d.dirLoc := by simpa using hne
        have hcm : contigMs 0 ms d.dirLoc := by rw [← hpos]; exact w5 rfl
        have hH : headersOK nd.files = true := by
          cases hh : headersOK nd.files with
          | true => rfl
          | false => rw [hh] at h; simp at h
        rw [hH] at h
        simp only [Bool.not_true, Bool.false_eq_true, if_false, Res.ok.injEq] at h
        generalize hkms : setKeep jarKeep kms0 = kms at *
        have hM : MeasuredL z a a.ends.cdOff kms := by rw [← hkms]; exact MeasuredL_flags _ kms0 _ hM0
        have hmem : ∀ q ∈ kms, q.2.1 ∈ a.members := by
          intro q hq
          rw [← hsm0, ← setKeep_members jarKeep, hkms]
          exact List.mem_map.mpr ⟨q, hq, rfl⟩
        have hck0 : contigK 0 kms0 a.ends.cdOff := by
          apply contigMs_K; rw [hms, ← hloc]; exact hcm
        generalize hL : (newEntries mt md news 0).2.length = L at *
        have e_files : nd.files = (newEntries mt md news 0).1 ++ (keptPMs z kms L).map (·.1) := by
          rw [w1, a2, a3, ← hms, assign_keptPMs z jarKeep kms0 L, hkms]
        have e_loc : nd.dirLoc = L + keptLenK kms := by
          rw [w2, a3, ← hms, keptLen_K jarKeep kms0, hkms]
        have e_kb : applyDels z 0 dels d.dirLoc = keptBytesK z kms := by
          rw [w3, List.nil_append, applyDels_contig z jarKeep ms 0 _ hcm, ← hms, keptBytes_K z jarKeep kms0, hkms]
        have hx : ∀ q ∈ keptPMs z kms L, dirHeaderOK q.1 = true := by
          intro q hq
          rw [e_files] at hH
          simp only [headersOK, List.all_eq_true] at hH
          exact hH q.1 (List.mem_append_right _ (List.mem_map.mpr ⟨q, hq, rfl⟩))
        have hkl := keptBytesK_length hcdz kms _ hM
        have hBl : (body ++ keptBytesK z kms).length = nd.dirLoc := by
          rw [List.length_append, hkl, a1, e_loc, hL]
        have hwd : writeDirectory nd false = ((headersOf nd.files).1,
            endRecords nd.files.length (headersOf nd.files).1.length nd.dirLoc false (maxReader nd.files),
            { nd with files := (headersOf nd.files).2 }) := rfl
        rw [hwd, e_kb] at h
        simp only at h
        have hout : out = (body ++ keptBytesK z kms) ++ (headersOf nd.files).1 ++
            endRecords nd.files.length (headersOf nd.files).1.length nd.dirLoc false (maxReader nd.files) := by
          rw [← h]
        have hb2 : (body ++ keptBytesK z kms).length + (headersOf nd.files).1.length < 2 ^ 64 := by
          have := congrArg List.length hout
          simp only [List.length_append] at this hbound ⊢
          omega
        obtain ⟨a', hp', hfor, hview, e1, e2, _, _, _, hR⟩ := news_kept_parses hcdz kms _ hM hmem mt md hmt hmd news hnews (by rw [hL]; exact hx) false
          (body ++ keptBytesK z kms) (headersOf nd.files).1
          (endRecords nd.files.length (headersOf nd.files).1.length nd.dirLoc false (maxReader nd.files)) nd.files
          (by rw [a1]) (by rw [e_files, hL]) rfl (by rw [hBl]) hb2
        rw [← hout] at hp' hfor hview hR
        rw [hL] at hfor hview hR
        have ecd : a'.ends.cdOff = L + keptLenK kms := by rw [e1, hBl, e_loc]
        have hRR : (∀ n ∈ news, NewReadable n) → 42 ≤ out.length →
            noComment a' out = true ∧ descSigned a' = true ∧ zip64Fixed a' = true ∧ (a'.members.all (widthOK a')) = true := by
          intro hnr h42
          apply hR _ h42
          intro q hq
          have hb64 : L + keptLenK kms < 2 ^ 64 := by
            have := congrArg List.length hout
            simp only [List.length_append] at this hbound
            rw [List.length_append] at hBl
            omega
          rcases List.mem_append.mp hq with hq | hq
          · exact newPMs_readable mt md news _ (fun n hn => ⟨hnews n hn, hnr n hn⟩) q hq
          · exact keptPMs_readable hcdz hfix hw kms _ L hM hmem hb64 hx q hq
        subst hkms
        subst hL
        exact ⟨kms0, a', hM0, hsm0, hp', hview, by rw [e1]; exact hfor, e2, hck0, ecd, hRR⟩
    | err e => rw [hwk] at h; cases h
    | panic s => rw [hwk] at h; cases h
    | diverge => rw [hwk] at h; cases h
  | err e => rw [hr] at h; cases h
  | panic s => rw [hr] at h; cases h
  | diverge => rw [hr] at h; cases h

/-! ### below 4 GiB -/


/-- a member of the input as a standard reader sees it (`specView`) -/
def viewOf (z : Bytes) (m : SpecZip.Member) : View :=
  ⟨m.entry.name, m.entry.method, m.entry.flags, m.entry.crc, m.entry.csize, m.entry.usize, m.entry.extra, m.entry.comment,
   (z.drop m.dataOff).take m.entry.csize⟩

theorem specView_eq {z : Bytes} {a : Archive} (hp : parse z = some a) : specView z = some (a.members.map (viewOf z)) := by
  unfold specView; rw [hp]; rfl

/-- below 4 GiB nothing is re-synthesised with a ZIP64 extra: the kept members keep their views -/
theorem keptViews_small (z : Bytes) : ∀ (kms : List KM) (L : Nat),
    (∀ q ∈ kms, q.1 = true → q.2.1.entry.csize < u32Max ∧ q.2.1.entry.usize < u32Max) → L + keptLenK kms < u32Max →
    keptViews z kms L = (kms.filter (·.1)).map (fun q => viewOf z q.2.1) := by
  intro kms
  induction kms with
  | nil => intro _ _ _; rfl
  | cons q r ih =>
    intro L hs hb
    obtain ⟨k, sm, m⟩ := q
    cases k with
    | false =>
      simp only [keptViews, keptLenK, Bool.false_eq_true, if_false, Nat.zero_add, List.filter_cons] at hb ⊢
      exact ih L (fun q hq => hs q (List.mem_cons_of_mem _ hq)) hb
    | true =>
      simp only [keptViews, keptLenK, if_true, List.filter_cons, List.map_cons] at hb ⊢
      rw [ih (L + m.total) (fun q hq => hs q (List.mem_cons_of_mem _ hq)) (by omega)]
      congr 1
      have := hs _ (List.mem_cons_self ..) rfl
      simp only at this
      have hn : ¬ (sm.entry.hoff ≠ L ∧ (sm.entry.csize ≥ u32Max ∨ sm.entry.usize ≥ u32Max ∨ L ≥ u32Max)) := by omega
      simp only [viewOf, movedExtra, hn, if_false]

/-- the kept members' views are the input's views filtered by the keep predicate on the name -/
theorem filter_views {z : Bytes} {a : Archive} (keep : File → Bool) (keepName : Bytes → Bool) (hk : ∀ f, keep f = keepName f.name) :
    ∀ (kms : List KM) (at_ : Nat), MeasuredL z a at_ kms →
    ((setKeep keep kms).filter (·.1)).map (fun q => viewOf z q.2.1) =
      ((kms.map (·.2.1)).map (viewOf z)).filter (fun v => keepName v.name) := by
  intro kms
  induction kms with
  | nil => intro _ _; rfl
  | cons q r ih =>
    intro at_ hM
    obtain ⟨k, sm, m⟩ := q
    obtain ⟨_, _, _, ⟨l, ddb, hfile⟩, _, _, _, _, hrest⟩ := hM
    have hname : m.file.name = sm.entry.name := by rw [hfile]; rfl
    have ih' := ih _ hrest
    simp only [setKeep] at ih' ⊢
    simp only [List.map_cons, List.filter_cons]
    have : (viewOf z sm).name = sm.entry.name := rfl
    rw [this, hk m.file, hname]
    cases keepName sm.entry.name
    · simp only [Bool.false_eq_true, if_false]; exact ih'
    · simp only [if_true, List.map_cons, ih']

end Relic.Zip

/- line-protocol handlers for C20 (health counter, loop skeleton)

   C20 hist <N> <intervalSecs> <ntok> <k> <step>*k     step = <outcomes>,<age>,<d>
       N, intervalSecs : raw config values (before config.Normalize; may be 0 or negative)
       outcomes        : one of o/e/t per token (`-` when there is no token)
       age             : `-` or milliseconds by which healthLastPing is moved into the past after the check
       d               : Config.Server.Disabled at the time of the query (0/1)
     → ok <code>:<status> …      #N=<N> I=<ms> <trailingFailures>,<stale>,<d> …
   C20 loop <k> <intervalSecs>
     → exited [extra=0] | spinning busy | unknown        (from the regenerated loop term)
-/
import Relic.Model.Health
import Relic.Model.HealthLoop
import Relic.Generated.HealthLoop
namespace Relic.Driver.C20
open Relic.Health

def parseOutcomes (s : String) : Option (List Outcome) :=
  if s = "-" then some [] else
  s.toList.mapM fun c =>
    if c = 'o' then some Outcome.ok else if c = 'e' then some .error else if c = 't' then some .timeout else none

structure StepOp where
  outcomes : List Outcome
  age : Option Int
  disabled : Bool

def parseStep (ntok : Nat) (s : String) : Option StepOp :=
  match s.splitOn "," with
  | [o, a, d] => do
    let os ← parseOutcomes o
    if os.length ≠ ntok then none
    let age ← if a = "-" then some none else a.toInt?.map some
    let dis ← if d = "1" then some true else if d = "0" then some false else none
    pure ⟨os, age, dis⟩
  | _ => none

structure Acc where
  st : State
  t : Int
  oks : List Bool      -- outcomes of the checks so far, oldest first
  out : List String
  tags : List String

def stepTime : Int := 1000

def doStep (N I : Int) (a : Acc) (s : StepOp) : Acc :=
  let t := a.t + stepTime
  let ok := allOk s.outcomes
  let st := check N a.st ok t
  let st := match s.age with
    | some g => { st with lastPing := t - g }     -- VerifSetHealthLastPing(now - age)
    | none => st
  let h := healthy s.disabled I st t
  let oks := a.oks ++ [ok]
  { st := st, t := t, oks := oks,
    out := a.out ++ [s!"{httpCode h}:{st.status}"],
    tags := a.tags ++ [s!"{trailingFailures oks},{if stale I st.lastPing t then 1 else 0},{if s.disabled then 1 else 0}"] }

def handle : List String → String
  | "hist" :: n :: iv :: ntok :: k :: steps =>
    match n.toInt?, iv.toInt?, ntok.toNat?, k.toNat? with
    | some n, some iv, some ntok, some k =>
      if steps.length ≠ k then "bad-op" else
      match steps.mapM (parseStep ntok) with
      | none => "bad-op"
      | some ss =>
        let N := normalizeFailures n
        let I := checkInterval (normalizeInterval iv)
        let a := ss.foldl (doStep N I) ⟨start N 0, 0, [], [], []⟩
        s!"ok {" ".intercalate a.out} #N={N} I={I} {" ".intercalate a.tags}"
    | _, _, _, _ => "bad-op"
  -- one round of ntok successful pings of `ping` ms each (sequential), queried `wait` ms after it completed: the age that
  -- `stale` compares with three intervals runs from the COMPLETION of the round (Relic.Health.check stamps `now` there)
  | ["slow", ntok, ping, wait, iv] =>
    match ntok.toNat?, ping.toNat?, wait.toNat?, iv.toInt? with
    | some nt, some p, some w, some iv =>
      let N := normalizeFailures 3
      let I := checkInterval (normalizeInterval iv)
      let done : Int := ((nt * p : Nat) : Int)
      let st := check N (start N 0) true done
      s!"ok {httpCode (healthy false I st (done + (w : Int)))} #slow completed={done} age={w}"
    | _, _, _, _ => "bad-op"
  -- the server is closed while a check is in flight: the loop shape `exitsOnClose` runs the check inline in the selecting
  -- goroutine, so after the check returns the next select sees Closed and no further check starts
  -- a server left alone: the loop completes a round every interval (a round over zero tokens succeeds), so after `wait` ms
  -- the last completion is less than one interval (+ the round) old: never stale, status N
  | ["idle", _ntok, iv, _wait] =>
    match iv.toInt? with
    | some iv =>
      let N := normalizeFailures 3
      let I := checkInterval (normalizeInterval iv)
      let st := check N (start N 0) true 0
      s!"ok {httpCode (healthy false I st (I / 2))}"
    | none => "bad-op"
  -- /health while a check round is inside a hanging ping: `Healthy` reads the last stored state under the lock that the
  -- round does NOT hold while it pings (the previous round succeeded a moment ago)
  | ["busy"] =>
    let N := normalizeFailures 3
    let I := checkInterval (normalizeInterval 1)
    let st := check N (start N 0) true 0
    s!"ok {httpCode (healthy false I st 100)}"
  | ["loopmid", _iv] =>
    let t := Relic.Generated.HealthLoop.term
    if Relic.HealthLoop.exitsOnClose Relic.HealthLoop.hcName Relic.HealthLoop.closedChan t then "exited extra=0"
    else if Relic.HealthLoop.spinsOnClose Relic.HealthLoop.closedChan t then "spinning busy"
    else "unknown"
  | ["loop", k, _iv] =>
    match k.toNat? with
    | some k =>
      let t := Relic.Generated.HealthLoop.term
      if Relic.HealthLoop.exitsOnClose Relic.HealthLoop.hcName Relic.HealthLoop.closedChan t then
        (if k = 0 then "exited" else "exited extra=0")
      else if Relic.HealthLoop.spinsOnClose Relic.HealthLoop.closedChan t then "spinning busy"
      else "unknown"
    | none => "bad-op"
  | _ => "bad-op"

end Relic.Driver.C20

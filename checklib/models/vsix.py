"""VSIX / OPC package model glue (signers/vsix, lib/signappx/contenttypes.go): canonicalisation of the model's answer (hashes are
computed here, never in Lean) and the per-property predicates evaluated on the implementation's output."""
import base64
import hashlib

TOKENS = ["VSIX"]
RULE = ("VSIX: OPC packages built part by part (extension.vsixmanifest + parts with known / unknown / mixed-case / empty extensions, "
        "names needing XML escaping, non-ASCII and percent-encoded names, directory-like names, names without extension with and "
        "without an Override, names that do not survive path.Join (`?`, `//`, `./`, `..`, leading `/`), foreign `.rels` / `.psdor` / "
        "`.psdsxs` parts and stale signature parts at every place keepFile branches on, duplicate member names, empty parts; "
        "[Content_Types].xml with Defaults / Overrides (missing, duplicated, without leading slash, empty, with `..` segments or `?`), "
        "absent, doubled, malformed) signed through relic's real VSIX signer (sha1..sha512 x RSA / P-256 / P-384 / P-521, with and "
        "without --detach-certs, one or two certificates) and verified with relic's real verifier. Ops: sign (part list of the "
        "output in order with SHA-256 of every part the model predicts byte for byte, the Manifest as written = URI + digest per "
        "Reference, the content type table read back by ContentTypes.Parse, relic's verdict on its own output), resign (signed, "
        "rewritten with archive/zip, signed again with the same or another key / hash / flag), verify (part-level edits of really "
        "signed packages: byte flips / appends / removals / renames of payload parts, shadowing duplicates before and after, added "
        "payload parts (rejected since the repairs of FV3 / FV4), parts added under names relic takes for signature metadata, content types changed / removed / garbage, every relationship part edited / retargeted / removed / given a second "
        "origin, origin part non-empty, signature part flipped / emptied / comment-only / foreign / with an edited DigestValue / "
        "swapped with the signature of another key or another package, detached certificates flipped / removed / replaced, "
        "certificate relationships added to a package with embedded certificates; and Objects crafted here and signed with the "
        "real xmldsig.SignEnveloping: several / no / empty Manifests, other digest algorithms and namespace spellings, malformed "
        "base64, URI spellings that reach another part, repeated and prefixed child elements, error precedence), path (path.Clean / "
        "Base / Dir / Ext / relPath / keepFile / the URI-to-part mapping / Append-then-Find on boundary strings and random "
        "compositions). Non-trivial = distinct sign/resign/verify op whose model answer is not bad-op.")
TRUSTED = ["Relic.Model.Vsix is hand-written from signers/vsix/{mangle,contenttypes,rels,oxmlsig,signer,consts}.go and "
           "lib/signappx/contenttypes.go; tied by differential execution",
           "the enveloping XML-DSig layer (xmldsig.SignEnveloping + WriteToBytes / ReadFromString + xmldsig.Verify + checkTimestamp), "
           "encoding/xml on relationship and content-type parts, x509.ParseCertificates and base64 are parameters of the model (Env): "
           "their verdict on every part travels on the op line, computed by the generator with the real code and recomputed by the "
           "runner (stale ops are refused); digests on the op line are recomputed here with hashlib",
           "the ZIP layer (zipslicer.Mangle / NewFile / MakePatch, archive/zip) is the black box `kept members in order, then the new "
           "members in call order` (Relic.Props.C03.zip_rewrite_preserves_members; ZIPRW ops)"]
ASSUMPTIONS = ["VSIX sign-then-verify is claimed for every package relic signs, for configurations passing the decidable condition cfgOk (the signer's "
               "own part names are distinct, not payload names and survive Append/Find: true for every base32 name calcFileName returns); the "
               "model describes the repaired code (fx = true: FV1, FV3, FV4 and the two panics), the code before is kept as fx = false for the witnesses",
               "generated part names avoid carriage returns and `]]>` (listed findings F16-cr-write / F16-attr-cdata-end of the XML layer)",
               "re-signing is exercised on the first result rewritten by archive/zip: relic cannot re-read the 24-byte descriptors of the "
               "empty members it writes (listed finding F7a)",
               "no time-stamping service is configured (checkTimestamp's verdict is part of the XML-layer parameter)"]

HASHES = {"sha1": hashlib.sha1, "sha224": hashlib.sha224, "sha256": hashlib.sha256, "sha384": hashlib.sha384, "sha512": hashlib.sha512}


def _b(h):
    return b"" if h == "-" else bytes.fromhex(h)


def _kv(tag):
    return dict(p.split("=", 1) for p in tag.split(" ") if "=" in p)


def _fields(line):
    """'ok a=1 b=2' -> ('ok', {a:1, b:2})"""
    f = line.split(" ")
    return f[0], dict(p.split("=", 1) for p in f[1:] if "=" in p)


def _op_hash(op):
    f = op.split(" ")
    if f[1] == "sign":
        return f[2]
    if f[1] == "resign":
        return f[9]
    return None


def canon_model(op, mres):
    """replace the byte streams of the model's answer by their digests, as the runner prints them"""
    f = op.split(" ")
    if f[1] not in ("sign", "resign") or not mres.startswith("ok "):
        return mres
    head, kv = _fields(mres)
    hname = _op_hash(op)
    parts = []
    for it in kv["parts"].split(";"):
        n, d = it.split(":")
        parts.append(n + ":" + ("*" if d in ("SIG", "CT") else hashlib.sha256(_b(d)).hexdigest()))
    refs = "_"
    if kv["refs"] != "_":
        out = []
        for it in kv["refs"].split(";"):
            u, s = it.split("=")
            out.append(u + "=" + HASHES[hname](_b(s)).hexdigest())
        refs = ";".join(out)
    return "ok parts=%s refs=%s ct=%s V=%s algs=ok" % (";".join(parts), refs, kv["ct"], kv["V"])


def equiv(op, il, mres):
    if il == mres:
        return True
    f = op.split(" ")
    if f[1] in ("sign", "resign") and il.startswith("ok ") and mres.startswith("ok "):
        _, a = _fields(il)
        _, b = _fields(mres)
        if set(a) != set(b):
            return False
        for k in a:
            if k == "parts":
                pa, pb = a[k].split(";"), b[k].split(";")
                if len(pa) != len(pb):
                    return False
                for x, y in zip(pa, pb):
                    nx, dx = x.split(":")
                    ny, dy = y.split(":")
                    if nx != ny or (dy != "*" and dx != dy):
                        return False
            elif a[k] != b[k]:
                return False
        return True
    return False


def weight(op):
    return 1


def nontrivial(op, mres, tag):
    return op.split(" ")[1] != "path" and mres != "bad-op"


def branch(op, mres, tag):
    f = op.split(" ")
    kind = f[1]
    if kind == "path":
        return "vsix-path:" + f[2]
    if kind == "verify":
        return "vsix-verify:" + f[4].split("-")[0] + ":" + " ".join(mres.split(" ")[:2])[:40]
    if mres.startswith("ok "):
        _, kv = _fields(mres)
        t = _kv(tag)
        return "vsix-%s:ok:wf=%s:V=%s" % (kind, t.get("wf", "?"), kv.get("V", "?").split(":")[0])
    return "vsix-%s:%s" % (kind, mres[:50])


def _parts(field):
    if field == "_":
        return []
    out = []
    for it in field.split(";"):
        f = it.split(":")
        out.append((_b(f[0]), _b(f[1])))
    return out


DIGSIG = b"package/services/digital-signature/"


def _signature_machinery(name):
    """parts that belong to the package signature by the OPC rules (independent of keepFile)"""
    return name == b"[Content_Types].xml" or name == b"_rels/.rels" or name == b"_rels/" or name.startswith(DIGSIG)


def _htable_ok(op):
    """verify ops: the digests on the op line are the digests of the parts"""
    f = op.split(" ")
    for it in f[3].split(";"):
        x = it.split(":")
        data = _b(x[1])
        for a in x[2:]:
            if a.startswith("H="):
                for e in a[2:].split("+"):
                    alg, d = e.split(".")
                    if HASHES[alg](data).hexdigest() != d:
                        return False
    if f[2] != "_":
        for e in f[2].split("+"):
            t, d = e.split(".")
            text = _b(t).replace(b"\r", b"").replace(b"\n", b"")
            try:
                dec = base64.b64decode(text, validate=True)
            except Exception:
                dec = None
            if dec is not None and d != "bad" and _b(d) != dec:
                return False
    return True


def predicate(prop, op, il, mres, tag):
    f = op.split(" ")
    kind = f[1]
    if il.startswith(("crash", "not-run", "stale-op", "bad-op")) and kind != "path" and mres != "bad-op":
        return ("Relic.Props.%s (vsix)" % prop, mres[:80], "implementation runner: " + il[:120])
    kv = _kv(tag)
    if kind in ("sign", "resign") and il.startswith("err ") and il.endswith(" dirty"):
        return ("Relic.Props.C03.vsix_refusal_is_clean", "input untouched, nothing written", "refused signing left traces: " + il)
    if kind == "resign" and il.startswith("second-") and prop in ("C08", "C01"):
        return ("Relic.Props.C08.vsix_resign_total_full", "second signing succeeds", "relic signed the package once, the second signing of the result failed: " + il[:120])
    if kind in ("sign", "resign") and il.startswith("ok "):
        _, a = _fields(il)
        hname = _op_hash(op)
        inp = _parts(f[-1])
        out = [(_b(x.split(":")[0]), x.split(":")[1]) for x in a["parts"].split(";")]
        v = a.get("V", "")
        if prop in ("C01", "C08", "C03") and not v.startswith("ok:" + hname + ":"):
            # full strength since the repair of FV1: whatever relic signs, relic verifies
            return ("Relic.Props.C01.vsix_sign_then_verify", "V=ok:" + hname, "relic's verifier rejects relic's own VSIX signature: " + v)
        if prop in ("C03", "C08"):
            # every part that is not signature machinery is byte-identical and in order
            want = [(n, hashlib.sha256(d).hexdigest()) for n, d in inp if not _signature_machinery(n)]
            got = [(n, h) for n, h in out if not _signature_machinery(n)]
            if got != want:
                lost = [n for n, _ in want if n not in [g for g, _ in got]]
                if lost and all(g in want for g in got):
                    if prop == "C08":
                        return None  # what the first signing drops is C03's business (listed there)
                    return ("Relic.Props.C03.vsix_payload_preserved (foreign relationship / origin / signature-typed parts)", "every non-signature part kept",
                            "signing dropped parts that do not belong to the package signature: " + ", ".join(repr(n)[2:-1] for n in lost)[:200])
                return ("Relic.Props.C03.vsix_payload_preserved", "payload parts byte-identical and in order", "signing changed or reordered payload parts")
        if prop == "C08":
            nsig = sum(1 for n, _ in out if n.endswith(b".psdsxs"))
            norg = sum(1 for n, _ in out if n.endswith(b".psdor"))
            if nsig != 1 or norg != 1:
                return ("Relic.Props.C08.vsix_resign_replaces", "one signature part, one origin part", "%d signature parts, %d origin parts after signing" % (nsig, norg))
    if kind == "verify":
        if not _htable_ok(op):
            return ("Relic.Props.%s (vsix digest table)" % prop, "digests of the parts", "generator handed the model a wrong digest / base64 table")
        label = f[4]
        if prop == "C02" and label.startswith("p-") and il.startswith("ok "):
            thm = {"p-add-part": "vsix_unlisted_part_rejected", "p-shadow-before": "vsix_shadowed_member_rejected",
                   "p-shadow-after": "vsix_shadowed_member_rejected"}.get(label, "vsix_tamper_evident")
            return ("Relic.Props.C02." + thm, "rejected", "edit '%s' of a signed package is accepted by relic's verifier" % label)
        if prop == "C02" and label.startswith("g-") and il.startswith("ok "):
            gap = {"g-add-meta": "vsix_unlisted_metadata_part_accepted"}.get(label, "vsix_content_types_unchecked")
            return ("Relic.Props.C02." + gap, "rejected", "edit '%s' of a signed package is accepted by relic's verifier" % label)
    return None


def matches_known(k, op, il, mres, tag):
    ident = k.get("identity", {})
    site = ident.get("site", "")
    f = op.split(" ")
    kind = f[1]
    kv = _kv(tag)
    if not site.startswith("vsix."):
        return False
    if not equiv(op, il, mres):
        return False  # a listed finding never excuses a disagreement between model and implementation
    if ident.get("vsix") == "uri-roundtrip":
        return kind in ("sign", "resign") and il.startswith("ok ") and kv.get("refsok") == "0" and " V=ok:" not in il
    if ident.get("vsix") == "foreign-parts-dropped":
        if kind not in ("sign", "resign") or not il.startswith("ok "):
            return False
        _, a = _fields(il)
        outn = [_b(x.split(":")[0]) for x in a["parts"].split(";")]
        lost = [n for n, _ in _parts(f[-1]) if not _signature_machinery(n) and n not in outn]
        return bool(lost) and all(n.endswith((b".rels", b".psdor", b".psdsxs")) for n in lost)
    if ident.get("vsix") in ("unlisted-metadata-part", "content-types"):
        labels = {"unlisted-metadata-part": ("g-add-meta",),
                  "content-types": ("g-ctypes-changed", "g-ctypes-removed", "g-ctypes-garbage")}[ident["vsix"]]
        return kind == "verify" and f[4] in labels and il.startswith("ok ")
    return False

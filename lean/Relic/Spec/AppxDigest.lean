/-
  Relic.Spec.AppxDigest — the five digests of an APPX/MSIX package signature, transcribed from the public
  description of the format (Microsoft, "App package signature" / the MSIX SDK's signature validation; the same
  reading is implemented by osslsigncode's appx.c).  Independent of `Relic.Model.Appx` and `Relic.Model.Zip`: only the
  byte codecs of `Relic.Base.Bytes` and the declarative ZIP reading of `Relic.Spec.Zip` are used.

  The signed content of `AppxSignature.p7x` is `"APPX"` followed by tagged hash values:
    AXPC  hash of the package bytes from offset 0 up to the local file header of `AppxSignature.p7x` — the local file
          records (header, data, data descriptor) of every other part; the signature part is the last record;
    AXCD  hash of the central directory the package would have WITHOUT the signature part: the directory records of
          every other part followed by the end-of-directory records in which the entry counts, the directory size, the
          directory offset (= where the signature part's record starts, i.e. where the directory would start) and the
          ZIP64 locator's offset are adjusted accordingly; everything else in those records as in the file;
    AXCT  hash of the uncompressed `[Content_Types].xml`;
    AXBM  hash of the uncompressed `AppxBlockMap.xml`;
    AXCI  hash of the uncompressed `AppxMetadata/CodeIntegrity.cat` (present iff the package has that part).
  Hash functions are parameters: this file defines the hashed byte STREAMS.

  The transcription was checked against a package produced by Microsoft's own tools
  (functest/packages/App1_1.0.3.0_x64.appx): all five streams hash to the values inside its signature
  (op `APPX fixture`, evaluated by the check on every run).
-/
import Relic.Spec.Zip
namespace Relic.SpecAppx
open Relic

def nSignature : Bytes := [65, 112, 112, 120, 83, 105, 103, 110, 97, 116, 117, 114, 101, 46, 112, 55, 120]
def nCatalog : Bytes := [65, 112, 112, 120, 77, 101, 116, 97, 100, 97, 116, 97, 47, 67, 111, 100, 101, 73, 110, 116, 101, 103, 114, 105, 116, 121, 46, 99, 97, 116]
def nBlockMap : Bytes := [65, 112, 112, 120, 66, 108, 111, 99, 107, 77, 97, 112, 46, 120, 109, 108]
def nContentTypes : Bytes := [91, 67, 111, 110, 116, 101, 110, 116, 95, 84, 121, 112, 101, 115, 93, 46, 120, 109, 108]

structure Digests where
  axpc : Bytes
  axcd : Bytes
  axct : Bytes
  axbm : Bytes
  axci : Option Bytes
  deriving Repr, DecidableEq

/-! ### layout form: the package cut at the places the description names -/

/-- ZIP64 end-of-central-directory record, its locator and the (saturated) end record, APPNOTE 4.3.14–4.3.16, with
    the two version fields `vm`/`vn` of the ZIP64 record left open -/
def endRecords (vm vn count size off : Nat) : Bytes :=
  [0x50, 0x4b, 0x06, 0x06] ++ leBytes 8 44 ++ leBytes 2 vm ++ leBytes 2 vn ++ leBytes 4 0 ++ leBytes 4 0 ++
    leBytes 8 count ++ leBytes 8 count ++ leBytes 8 size ++ leBytes 8 off ++
  ([0x50, 0x4b, 0x06, 0x07] ++ leBytes 4 0 ++ leBytes 8 (off + size) ++ leBytes 4 1) ++
  ([0x50, 0x4b, 0x05, 0x06] ++ leBytes 2 0 ++ leBytes 2 0 ++ leBytes 2 0xffff ++ leBytes 2 0xffff ++
    leBytes 4 0xffffffff ++ leBytes 4 0xffffffff ++ leBytes 2 0)

/-- a signed package written with ZIP64 end records, cut into the pieces the description names -/
structure Cut where
  /-- local file records of every part except the signature, from offset 0 -/
  body : Bytes
  /-- local file record of `AppxSignature.p7x` -/
  sigRecord : Bytes
  /-- central directory records of the parts in `body`, `n` of them -/
  dir : Bytes
  n : Nat
  /-- central directory record of `AppxSignature.p7x` -/
  sigEntry : Bytes
  vm : Nat
  vn : Nat

def Cut.file (c : Cut) : Bytes :=
  c.body ++ c.sigRecord ++ (c.dir ++ c.sigEntry) ++
  endRecords c.vm c.vn (c.n + 1) (c.dir.length + c.sigEntry.length) (c.body.length + c.sigRecord.length)

def Cut.axpc (c : Cut) : Bytes := c.body

/-- the directory and end records the package would have without the signature part -/
def Cut.axcd (c : Cut) : Bytes := c.dir ++ endRecords c.vm c.vn c.n c.dir.length c.body.length

/-! ### file form: the same reading, through `Relic.Spec.Zip.parse` of the signed package -/

def part (inflate : Bytes → Option Bytes) (p : Bytes) (a : SpecZip.Archive) (name : Bytes) : Option (Option Bytes) :=
  match (a.members.filter fun m => m.entry.name == name).getLast? with
  | none => some none
  | some m =>
    let data := (p.drop m.dataOff).take m.entry.csize
    if m.entry.method = 0 then some (some data) else (inflate data).map some

def ofFile (inflate : Bytes → Option Bytes) (p : Bytes) : Option Digests := do
  let a ← SpecZip.parse p
  let last ← a.members.getLast?
  if last.entry.name ≠ nSignature then none
  -- the signature part is the last record and the last directory entry; no other part bears its name
  if (a.members.filter fun m => m.entry.name == nSignature).length ≠ 1 then none
  let sigOff := last.entry.hoff
  let n := a.ends.count - 1
  let dir := (p.drop a.ends.cdOff).take (a.ends.cdSize - last.entry.len)
  let eocd := (p.drop a.ends.eocd).take 22
  let ends :=
    if a.ends.zip64 then
      let q := a.ends.first
      (p.drop q).take 24 ++ leBytes 8 n ++ leBytes 8 n ++ leBytes 8 dir.length ++ leBytes 8 sigOff ++
      ((p.drop (q + 56)).take 8 ++ leBytes 8 (sigOff + dir.length) ++ (p.drop (q + 72)).take 4) ++ eocd
    else
      eocd.take 8 ++ leBytes 2 n ++ leBytes 2 n ++ leBytes 4 dir.length ++ leBytes 4 sigOff ++ eocd.drop 20
  let ct ← part inflate p a nContentTypes
  let bm ← part inflate p a nBlockMap
  let ci ← part inflate p a nCatalog
  some ⟨p.take sigOff, dir ++ ends, ← ct, ← bm, ci⟩

/-! ### block map (the same source): every part except `[Content_Types].xml`, `AppxBlockMap.xml`,
    `AppxMetadata/CodeIntegrity.cat` and `AppxSignature.p7x` has a `File` element listing the hashes of the consecutive
    64 KiB blocks of its uncompressed contents (the last block shorter, no empty block). -/

def blocks : Nat → Bytes → List Bytes
  | 0, _ => []
  | fuel + 1, b => if b.length = 0 then [] else b.take 65536 :: blocks fuel (b.drop 65536)

end Relic.SpecAppx

/-
  C01 — Every signature relic produces verifies.   VSIX / OPC part (model `Relic.Model.Vsix` of signers/vsix):
  for every package (list of parts, whatever it contains: stale signature parts, foreign relationship parts, duplicate
  names, several or no `[Content_Types].xml`), every hash, with or without `--detach-certs`, `verify` on the package `sign`
  returns follows the relationship chain to the signature part the signer wrote, reads back the Manifest it wrote, maps every
  Reference URI back to the part it was made from and recomputes exactly the digests the signer stored — provided the two
  decidable condition `cfgOk` (the signer's own part names; true for every name `calcFileName` returns) holds and the
  environment (XML-DSig layer, `encoding/xml`, digests) is sound on what the signer wrote.  Since the repair of finding FV1 the
  signer refuses (error, nothing written) exactly the inputs with a part name that does not survive
  `path.Join("./"+URI)` cut at the first `?` (`refsOk`; `vsix_sign_refuses_iff`), and since the repair of FV4 inputs with two
  kept members of one name; before, it signed them into packages relic's own verifier rejects (`vsix_uri_roundtrip_gap`).
-/
import Relic.Proofs.VsixSign
import Relic.Proofs.VsixDemo
import Relic.Proofs.VsixSort
import Relic.Proofs.VsixPath
namespace Relic.Props.C01
open Relic Relic.Xml Relic.XmlSig Relic.Vsix

/-- the environment is sound on what this signing wrote: relationship parts parse back, a digest compares equal to
    itself, the detached certificates parse, the enveloping XML signature over `obj` verifies and hands back `obj` and the
    signer's key `pk`, which one of the certificates carries -/
structure VsixSound (E : Env) (c : Cfg) (obj : Node) (pk : Bytes) : Prop where
  relsTop : E.parseRels (marshalRels (appendRel E [] sOrigin sigOriginType)) = some (appendRel E [] sOrigin sigOriginType)
  relsOrigin : E.parseRels (marshalRels (appendRel E [] (sigName c) sigType)) = some (appendRel E [] (sigName c) sigType)
  relsCerts : c.detach = true → E.parseRels (marshalRels (certRels E c.chain [])) = some (certRels E c.chain [])
  digest : ∀ s, E.digestCmp c.hash s (E.dtext c.hash s) = .ok
  certs : c.detach = true → ∀ x ∈ c.chain, ∃ ks, E.parseCerts x.2 = some ks
  xml : ∃ emb, (∀ extra, E.xopen (E.xsign c.hash c.detach obj) extra = .ok ⟨obj, c.hash, pk, emb, none⟩) ∧
          (c.detach = false → pk ∈ emb)
  leaf : c.detach = true → pk ∈ chainKeys E c.chain

/-- `readSignature` on the signer's output: the signature part and the keys of the detached certificates -/
theorem readSignature_signed (E : Env) (c : Cfg) (pkg : Pkg) (obj : Node) (ct : CT) (pk : Bytes) (F : CfgFacts c)
    (S : VsixSound E c obj pk) :
    readSignature E (findLast (keptOf pkg ++ newsOf E c obj ct)) =
      .ok (E.xsign c.hash c.detach obj, if c.detach then chainKeys E c.chain else []) := by
  have ftop := files_top F E obj ct (keptOf pkg)
  have forg := files_originRels F E obj ct (keptOf pkg)
  have fsig := files_sig F E obj ct (keptOf pkg)
  have find1 := find_origin E
  have find2 := find_sig F E
  unfold readSignature
  simp only [ftop, Option.isNone_some, Bool.false_eq_true, if_false, parseRelsAt, readZip, S.relsTop, find1, forg, S.relsOrigin,
    find2, fsig]
  cases hd : c.detach with
  | false =>
    have fabs : findLast (keptOf pkg ++ newsOf E c obj ct) (relPath (sigName c)) = none :=
      look_absent F.sigRelsNotKept (F.sigRelsAbsent hd)
    simp [fabs]
  | true =>
    have frel := files_sigRels F E obj ct (keptOf pkg) hd
    obtain ⟨tail, ht, hf⟩ := certRels_spec E c.chain []
    simp only [List.nil_append] at ht
    have hcerts : readCerts E (findLast (keptOf pkg ++ newsOf E c obj ct)) (certRels E c.chain []) = .ok (chainKeys E c.chain) := by
      rw [ht]
      apply readCerts_chain E _ c.chain tail hf
      intro x hx
      refine ⟨?_, F.certBack x hx, S.certs hd x hx⟩
      exact files_cert F E obj ct (keptOf pkg) hd hx
    simp [frel, S.relsCerts hd, hcerts]

/-- every stored reference resolves, in the signed package, to the part whose bytes were digested -/
theorem refs_resolve (fx : Bool) (E : Env) (c : Cfg) (pkg : Pkg) (s : Vsix.Signed) (F : CfgFacts c) (hs : Vsix.sign fx E c pkg = .ok s) :
    ∀ r ∈ s.refs, findLast s.parts r.name = some ⟨r.name, r.stream⟩ := by
  obtain ⟨m, hm, hrefs, hobj, hkept, hct, hparts⟩ := sign_inv hs
  obtain ⟨hk, hdig⟩ := mangle_spec fx E pkg {} m hm
  simp only [List.nil_append] at hk
  intro r hr
  have hmem : (r.name, r.stream) ∈ sortMap (addDigests m.digests (fixedNews E c)) := by
    rw [← mkRefs_spec _ _ _ _ hrefs]
    exact List.mem_map_of_mem (f := fun r => (r.name, r.stream)) hr
  rw [mem_sortMap, addDigests, hdig, ← List.foldl_append, mem_digests] at hmem
  simp only [List.not_mem_nil, and_false, or_false] at hmem
  rw [hparts, hk]
  rw [findLast_append] at hmem
  cases hq : findLast (fixedNews E c) r.name with
  | some q =>
    rw [hq] at hmem
    simp only [Option.some.injEq] at hmem
    subst hmem
    have := (findLast_some hq).1
    exact look_new F _ (p := ⟨r.name, r.stream⟩) (by simp only [newsOf, List.mem_append]; exact Or.inl (Or.inl this))
  | none =>
    rw [hq] at hmem
    simp only at hmem
    have hkeep : keepFile r.name = true := by
      have := (findLast_some hmem).1
      exact keptOf_keep this
    rw [look_kept F _ hkeep, hmem]

/-- the guarded form, for the signer and verifier before (`fx = false`) and after (`fx = true`) the repairs -/
theorem vsix_sign_then_verify_guarded (fx : Bool) (E : Env) (c : Cfg) (pkg : Pkg) (s : Vsix.Signed) (pk : Bytes)
    (hs : Vsix.sign fx E c pkg = .ok s) (hc : cfgOk c = true) (hr : refsOk s.refs = true) (S : VsixSound E c s.obj pk)
    (hnd : fx = true → ((keptOf pkg).map (·.name)).Nodup) :
    Vsix.verify fx E s.parts = .ok ⟨c.hash, pk, s.refs.map fun r => (r.name, r.stream)⟩ := by
  have F := cfgFacts_of_cfgOk hc
  have hres := refs_resolve fx E c pkg s F hs
  obtain ⟨m, hm, hrefs, hobj, hkept, hct, hparts⟩ := sign_inv hs
  obtain ⟨hk, -⟩ := mangle_spec fx E pkg {} m hm
  simp only [List.nil_append] at hk
  obtain ⟨emb, hx, hemb⟩ := S.xml
  have hrs := readSignature_signed E c pkg s.obj s.ctOut pk F S
  have hck : checkRefs E (findLast s.parts) (decodeManifest s.obj) = .ok (s.refs.map fun r => (r.name, r.stream)) := by
    rw [hobj, decodeManifest_objectNode]
    apply checkRefs_ok E _ c.hash S.digest
    intro r hrm
    simp only [refsOk, List.all_eq_true, decide_eq_true_eq] at hr
    exact ⟨hr r hrm, hres r hrm⟩
  have hcore : verifyCore E (findLast s.parts) =
      .ok ((E.xsign c.hash c.detach s.obj, if c.detach then chainKeys E c.chain else []),
           ⟨s.obj, c.hash, pk, emb, none⟩, s.refs.map fun r => (r.name, r.stream)) := by
    unfold verifyCore
    rw [hparts, hk] at hck ⊢
    rw [hrs]
    simp only [hx, hck]
  have hnames : s.parts.map (·.name) = (keptOf pkg).map (·.name) ++ newNames c := by
    rw [hparts, hk, List.map_append, newsOf_names]
  -- no two members of one name, no payload member outside the Manifest
  have hdup : fx = true → hasDup s.parts = false := by
    intro hfx
    simp only [hasDup, hnames, Bool.not_eq_false', decide_eq_true_eq]
    rw [List.nodup_append]
    refine ⟨hnd hfx, F.nodup, ?_⟩
    intro a ha b hb hab
    obtain ⟨p, hp, rfl⟩ := List.mem_map.mp ha
    have h1 := keptOf_keep hp
    have h2 := F.notKept b hb
    rw [← hab, h1] at h2
    cases h2
  have hunc : uncovered (s.parts.map (·.name)) (s.refs.map fun r => (r.name, r.stream)) = false := by
    cases hu : uncovered (s.parts.map (·.name)) (s.refs.map fun r => (r.name, r.stream)) with
    | false => rfl
    | true =>
      exfalso
      simp only [uncovered, List.any_eq_true, Bool.and_eq_true, Bool.not_eq_true', List.any_eq_false,
        decide_eq_false_iff_not] at hu
      obtain ⟨n, hn, hkeep, hnot⟩ := hu
      rw [hnames, List.mem_append] at hn
      rcases hn with hn | hn
      · obtain ⟨p, hp, rfl⟩ := List.mem_map.mp hn
        simp only [keptOf, List.mem_filter] at hp
        have := (refs_names_iff hs p.name).mpr (Or.inl ⟨p, hp.1, rfl, hkeep⟩)
        obtain ⟨r, hr', hrn⟩ := List.mem_map.mp this
        exact hnot (r.name, r.stream) (List.mem_map.mpr ⟨r, hr', rfl⟩) (by simpa using hrn)
      · have := F.notKept n hn
        rw [hkeep] at this
        cases this
  unfold Vsix.verify verifyF
  cases fx with
  | false =>
    simp only [Bool.false_and, Bool.false_eq_true, if_false, hcore]
    cases hd : c.detach with
    | false => simp [hemb hd]
    | true => simp [S.leaf hd]
  | true =>
    simp only [hdup rfl, Bool.and_false, Bool.false_eq_true, if_false, hcore, hunc]
    cases hd : c.detach with
    | false => simp [hemb hd]
    | true => simp [S.leaf hd]

/-- **vsix_sign_then_verify** (full strength, repaired code).  For every package — whatever it holds — every configuration passing
    `cfgOk` and every environment sound on what this signing wrote: if `sign` returns a package, `verify` accepts it under the
    signer's key and hash, having looked up and hashed, Reference by Reference and in Manifest order, exactly the
    (part, bytes) pairs whose digests the signer stored.  What `sign` refuses instead is characterised by
    `vsix_sign_refuses_iff`. -/
theorem vsix_sign_then_verify (E : Env) (c : Cfg) (pkg : Pkg) (s : Vsix.Signed) (pk : Bytes)
    (hs : Vsix.sign true E c pkg = .ok s) (hc : cfgOk c = true) (S : VsixSound E c s.obj pk) :
    Vsix.verify true E s.parts = .ok ⟨c.hash, pk, s.refs.map fun r => (r.name, r.stream)⟩ :=
  vsix_sign_then_verify_guarded true E c pkg s pk hs hc (sign_true_ok hs).1 S (fun _ => (sign_true_ok hs).2)

/-- **vsix_sign_refuses_iff.** Relative to the signer before the repairs: on an input it signed into `s₀` and that has no two
    kept members of one name, the repaired signer returns the same `s₀` exactly when every part name survives the Reference
    URI (`refsOk`), and refuses with the error `unreferencable` exactly when one does not. -/
theorem vsix_sign_refuses_iff (E : Env) (c : Cfg) (pkg : Pkg) (s₀ : Vsix.Signed) (h0 : Vsix.sign false E c pkg = .ok s₀)
    (hnd : ((keptOf pkg).map (·.name)).Nodup) :
    (Vsix.sign true E c pkg = .ok s₀ ↔ refsOk s₀.refs = true) ∧
    (Vsix.sign true E c pkg = .err "unreferencable" ↔ refsOk s₀.refs = false) := by
  obtain ⟨h1, h2⟩ := sign_true_of_false h0 hnd
  cases hr : refsOk s₀.refs with
  | true => simp [h1 hr]
  | false => simp [h2 hr]

/-- a second kept member of a name is refused -/
theorem vsix_sign_refuses_duplicates (E : Env) (c : Cfg) (pkg : Pkg) (s : Vsix.Signed) (hs : Vsix.sign true E c pkg = .ok s) :
    ((pkg.filter fun p => keepFile p.name).map (·.name)).Nodup :=
  (sign_true_ok hs).2

theorem demo_sign (fx d : Bool) (pkg : Pkg) (h : (Vsix.sign fx (demoE (demoCfg d) pkg) (demoCfg d) pkg).isOk = true) :
    Vsix.sign fx (demoE (demoCfg d) pkg) (demoCfg d) pkg = .ok (demoSigned fx (demoCfg d) pkg) := by
  unfold demoSigned
  cases hs : Vsix.sign fx (demoE (demoCfg d) pkg) (demoCfg d) pkg with
  | ok s => rfl
  | err x => rw [hs] at h; cases h
  | panic x => rw [hs] at h; cases h
  | diverge => rw [hs] at h; cases h

theorem demo_sound (fx d : Bool) : VsixSound (demoE (demoCfg d) demoPkg) (demoCfg d) (demoSigned fx (demoCfg d) demoPkg).obj [7] := by
  have hc : ∀ (pkg : Pkg) x, x ∈ (demoCfg d).chain → ∃ ks, (demoE (demoCfg d) pkg).parseCerts x.2 = some ks := by
    intro pkg x hx
    simp only [demoCfg, List.mem_singleton] at hx
    subst hx
    exact ⟨[[7]], rfl⟩
  cases d
  · cases fx
    · exact ⟨by decide +kernel, by decide +kernel, by decide, fun s => by simp [demoE, demoEnv], fun _ => hc _, ⟨[[7]], fun _ => rfl, fun _ => by decide⟩, by decide⟩
    · exact ⟨by decide +kernel, by decide +kernel, by decide, fun s => by simp [demoE, demoEnv], fun _ => hc _, ⟨[[7]], fun _ => rfl, fun _ => by decide⟩, by decide⟩
  · cases fx
    · exact ⟨by decide +kernel, by decide +kernel, fun _ => by decide +kernel, fun s => by simp [demoE, demoEnv], fun _ => hc _, ⟨[[7]], fun _ => rfl, fun _ => by decide⟩,
        fun _ => by decide⟩
    · exact ⟨by decide +kernel, by decide +kernel, fun _ => by decide +kernel, fun s => by simp [demoE, demoEnv], fun _ => hc _, ⟨[[7]], fun _ => rfl, fun _ => by decide⟩,
        fun _ => by decide⟩

/-- the hypotheses are satisfiable, with embedded and with detached certificates, on a package that holds a payload part,
    a content types part, a foreign relationship part and a stale origin part: the verifier recomputes four digests -/
example (d : Bool) : Vsix.verify true (demoE (demoCfg d) demoPkg) (demoSigned true (demoCfg d) demoPkg).parts =
    .ok ⟨.sha256, [7], (demoSigned true (demoCfg d) demoPkg).refs.map fun r => (r.name, r.stream)⟩ ∧
    (demoSigned true (demoCfg d) demoPkg).refs.length = 4 := by
  refine ⟨vsix_sign_then_verify _ (demoCfg d) demoPkg _ [7] (demo_sign true d demoPkg (by cases d <;> rfl)) (by cases d <;> decide)
    (demo_sound true d), by cases d <;> decide⟩

/-- the statement for the code before the repairs, without the `refsOk` guard -/
def vsix_sign_then_verify_full_orig : Prop :=
  ∀ (E : Env) (c : Cfg) (pkg : Pkg) (s : Vsix.Signed) (pk : Bytes), Vsix.sign false E c pkg = .ok s → cfgOk c = true → VsixSound E c s.obj pk →
    ∃ v, Vsix.verify false E s.parts = .ok v

theorem query_sound : VsixSound (demoE (demoCfg false) queryPkg) (demoCfg false) (demoSigned false (demoCfg false) queryPkg).obj [7] :=
  ⟨by decide +kernel, by decide +kernel, by decide, fun s => by simp [demoE, demoEnv], (fun h => nomatch h), ⟨[[7]], fun _ => rfl, fun _ => by decide⟩, by decide⟩

/-- **vsix_uri_roundtrip_gap** (finding FV1, repaired).  A part named `a?b.txt`.  Before the repair: signing succeeds, and relic's
    verifier rejects the result ("file not found: a": `checkManifest` cuts the cleaned URI at the first `?`, which here is
    inside the part name).  After it: signing is refused. -/
theorem vsix_uri_roundtrip_gap :
    Vsix.sign false (demoE (demoCfg false) queryPkg) (demoCfg false) queryPkg = .ok (demoSigned false (demoCfg false) queryPkg) ∧
    refsOk (demoSigned false (demoCfg false) queryPkg).refs = false ∧
    Vsix.verify false (demoE (demoCfg false) queryPkg) (demoSigned false (demoCfg false) queryPkg).parts = .err "file-not-found" ∧
    Vsix.sign true (demoE (demoCfg false) queryPkg) (demoCfg false) queryPkg = .err "unreferencable" :=
  ⟨demo_sign false false queryPkg rfl, by decide, by decide +kernel,
    ((vsix_sign_refuses_iff _ _ _ _ (demo_sign false false queryPkg rfl) (by decide)).2).mpr (by decide)⟩

theorem vsix_sign_then_verify_full_orig_false : ¬ vsix_sign_then_verify_full_orig := by
  intro h
  obtain ⟨v, hv⟩ := h _ _ _ _ [7] vsix_uri_roundtrip_gap.1 (by decide) query_sound
  rw [vsix_uri_roundtrip_gap.2.2.1] at hv
  cases hv

/-- **vsix_refsOk_of_simple.** A syntactic class on which the `refsOk` guard holds: part names made of slash-separated
    segments that are non-empty, not `.` or `..` and free of `?` (what OPC part names look like), content types without a
    `..` segment after their first slash. -/
theorem vsix_refsOk_of_simple (refs : List Ref) (h : ∀ r ∈ refs, SimpleName r.name ∧ CtOk r.ctype) : refsOk refs = true := by
  simp only [refsOk, List.all_eq_true, decide_eq_true_eq]
  intro r hr
  have := uriPath_simple r.name r.ctype (h r hr).1 (h r hr).2
  simpa [Ref.uri, List.append_assoc] using this

/-- the three digested parts the signer adds are in the class, with their built-in content types -/
example : SimpleName (relPath []) ∧ SimpleName (relPath sOrigin) ∧ SimpleName sOrigin ∧ CtOk ctRels ∧ CtOk ctPsdor ∧ CtOk defaultContentType := by
  refine ⟨⟨[sRelsSeg], extRels, by decide, by decide, by decide⟩,
    ⟨[[0x70, 0x61, 0x63, 0x6b, 0x61, 0x67, 0x65], [0x73, 0x65, 0x72, 0x76, 0x69, 0x63, 0x65, 0x73],
       [0x64, 0x69, 0x67, 0x69, 0x74, 0x61, 0x6c, 0x2d, 0x73, 0x69, 0x67, 0x6e, 0x61, 0x74, 0x75, 0x72, 0x65], sRelsSeg],
      [0x6f, 0x72, 0x69, 0x67, 0x69, 0x6e, 0x2e, 0x70, 0x73, 0x64, 0x6f, 0x72, 0x2e, 0x72, 0x65, 0x6c, 0x73], by decide, by decide, by decide⟩,
    ⟨[[0x70, 0x61, 0x63, 0x6b, 0x61, 0x67, 0x65], [0x73, 0x65, 0x72, 0x76, 0x69, 0x63, 0x65, 0x73],
       [0x64, 0x69, 0x67, 0x69, 0x74, 0x61, 0x6c, 0x2d, 0x73, 0x69, 0x67, 0x6e, 0x61, 0x74, 0x75, 0x72, 0x65]],
      [0x6f, 0x72, 0x69, 0x67, 0x69, 0x6e, 0x2e, 0x70, 0x73, 0x64, 0x6f, 0x72], by decide, by decide, by decide⟩,
    by decide, by decide, by decide⟩

/-- **vsix_manifest_sorted.** The Manifest lists every covered part exactly once, in strictly ascending byte order of the
    part names (`sort.Strings` over the keys of `m.digests`), whatever the order or multiplicity of the members. -/
theorem vsix_manifest_sorted (fx : Bool) (E : Env) (c : Cfg) (pkg : Pkg) (s : Vsix.Signed) (hs : Vsix.sign fx E c pkg = .ok s) :
    (s.refs.map (·.name)).Pairwise (fun a b => bytesLt a b = true) :=
  refs_sorted hs

example : ((demoSigned true (demoCfg false) demoPkg).refs.map (·.name)).Pairwise (fun a b => bytesLt a b = true) :=
  vsix_manifest_sorted true _ _ _ _ (demo_sign true false demoPkg rfl)

end Relic.Props.C01

/-
  Lemmas about one signing round of the XAP model: the digest on the framing `ZipToTar` writes, the patch (through the
  real patch path, C12), and what re-signing the result does.
-/
import Relic.Proofs.Xap
import Relic.Props.C12
namespace Relic.Xap
open Relic

/-- what `DigestXapTar` hashes and what signing keeps of the file `z` whose directory starts at `loc`: everything up to
    the directory, then the directory blob as `removeSignature` leaves it -/
def base (z : Bytes) (loc : Nat) : Bytes := z.take loc ++ removeSignature (z.drop loc)

theorem base_length (z : Bytes) (loc : Nat) (h : loc ≤ z.length) :
    (base z loc).length = loc + (removeSignature (z.drop loc)).length := by
  simp [base]; omega

theorem base_length_le (z : Bytes) (loc : Nat) (h : loc ≤ z.length) : (base z loc).length ≤ z.length := by
  rw [base_length z loc h]
  have := removeSignature_length_le (z.drop loc)
  simp at this; omega

/-- `base` is a prefix of the file -/
theorem base_eq_take (z : Bytes) (loc : Nat) (h : loc ≤ z.length) : base z loc = z.take (base z loc).length := by
  have hl := base_length z loc h
  have hle := removeSignature_length_le (z.drop loc)
  rw [hl]
  unfold base
  rw [removeSignature_take (z.drop loc)]
  rw [List.take_add]
  congr 1
  rw [List.length_take, Nat.min_eq_left hle]

theorem nameZip_ne_nameCD : nameZip ≠ nameCD := by decide

theorem walk_zipToTar (z : Bytes) (loc : Nat) (h : loc ≤ z.length) :
    walk [] true (zipToTar z loc) = .ok (z.drop loc, ⟨nameZip, z.length, z⟩) := by
  unfold zipToTar
  rw [walk, if_pos rfl, if_neg (by simp), walk, if_neg nameZip_ne_nameCD, if_pos rfl]

/-- **digestTar_zipToTar.** On the two-member framing of `(z, loc)` the digest succeeds, hashes `base z loc` and asks for
    the range from there to the end of the file to be replaced. -/
theorem digestTar_zipToTar (z : Bytes) (loc : Nat) (h : loc ≤ z.length) :
    digestTar (zipToTar z loc) true =
      .ok ⟨base z loc, ((base z loc).length : Int), (z.length : Int) - ((base z loc).length : Int)⟩ := by
  unfold digestTar
  rw [walk_zipToTar z loc h, bind_ok]
  have hb : ((z.length : Int) - ((z.drop loc).length : Int)).toNat = loc := by
    simp only [List.length_drop]; omega
  simp only []
  rw [hb, if_neg (by omega)]
  have hl := base_length z loc h
  congr 2
  · rw [hl]; simp only [List.length_drop]; omega
  · rw [hl]; simp only [List.length_drop]; omega

/-- the single patch of one signing round -/
def thePatch (z : Bytes) (loc : Nat) (s : Bytes) : Binpatch.Patch :=
  ⟨(base z loc).length, z.length - (base z loc).length, sigBlock s⟩

theorem thePatch_constructible (z : Bytes) (loc : Nat) (s : Bytes) (h : loc ≤ z.length) :
    Props.C12.Constructible z.length [thePatch z loc s] := by
  have := base_length_le z loc h
  show Binpatch.wfFrom z.length 0 [thePatch z loc s] = true
  simp only [Binpatch.wfFrom, thePatch, Bool.and_true, Bool.and_eq_true]
  exact ⟨decide_eq_true (Nat.zero_le _), decide_eq_true (by omega)⟩

theorem patchCalls_digest (z : Bytes) (loc : Nat) (s : Bytes) (h : loc ≤ z.length) :
    patchCalls ⟨base z loc, ((base z loc).length : Int), (z.length : Int) - ((base z loc).length : Int)⟩ s =
      some [thePatch z loc s] := by
  have := base_length_le z loc h
  unfold patchCalls thePatch
  rw [if_neg (by simp only []; omega)]
  simp only [Int.toNat_natCast]
  congr 3
  omega

theorem sem_thePatch (z : Bytes) (loc : Nat) (s : Bytes) (h : loc ≤ z.length) :
    Binpatch.sem z [thePatch z loc s] = base z loc ++ sigBlock s := by
  have hle := base_length_le z loc h
  simp only [Binpatch.sem, List.foldr, thePatch, splice]
  have : (base z loc).length + (z.length - (base z loc).length) = z.length := by omega
  rw [this, List.drop_length, List.append_nil, ← base_eq_take z loc h]

/-- **signRound_eq.** One signing round on `(z, loc)` (digest, `Sign`, the patch applied through `Add` and the rewrite
    loop) writes `base z loc ++ header ++ s ++ trailer`. -/
theorem signRound_eq (z : Bytes) (loc : Nat) (s : Bytes) (h : loc ≤ z.length) :
    signRound z loc s = .ok (base z loc ++ sigBlock s) := by
  unfold signRound
  rw [digestTar_zipToTar z loc h, bind_ok]
  unfold applyPatch
  rw [patchCalls_digest z loc s h]
  simp only []
  rw [Props.C12.add_spec uint32Max z _ (thePatch_constructible z loc s h), sem_thePatch z loc s h]

/-- **base_signed.** The directory blob of relic's own output is the old one followed by a consistent frame, which
    `removeSignature` takes off again: the next round hashes and keeps exactly what this round did. -/
theorem base_signed (z : Bytes) (loc : Nat) (s : Bytes) (h : loc ≤ z.length) (hs : s.length + 8 < 4294967296) :
    base (base z loc ++ sigBlock s) loc = base z loc := by
  have e : base z loc ++ sigBlock s = z.take loc ++ (removeSignature (z.drop loc) ++ sigBlock s) := by
    simp [base]
  have hl : (z.take loc).length = loc := by simp; omega
  show (base z loc ++ sigBlock s).take loc ++ removeSignature ((base z loc ++ sigBlock s).drop loc) = base z loc
  rw [e, take_append_len _ _ loc hl, drop_append_len _ _ loc hl, append_sigBlock, removeSignature_framed _ _ _ _ _ hs]
  rfl

end Relic.Xap

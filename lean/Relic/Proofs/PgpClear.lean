/-
  Relic.Proofs.PgpClear — the dash escaper that ClearSign drives, characterised line by line.
  Central lemma: `esc_spec` (what is written and what is hashed, as functions of the lines of the input).
-/
import Relic.Model.Pgp
import Relic.Spec.OpenPgp
namespace Relic.Pgp
open Relic

/-- a line without its trailing blanks, tabs and carriage returns -/
def stripWs : Bytes → Bytes
  | [] => []
  | b :: r =>
    match stripWs r with
    | [] => if isWs b then [] else [b]
    | t => b :: t

/-- §7.1 dash-escaping of one line -/
def escLine : Bytes → Bytes
  | 45 :: l => 45 :: 32 :: 45 :: l
  | l => l

/-- first line of `bs` and what follows its line feed (`none`: no line feed) -/
def cut : Bytes → Bytes × Option Bytes
  | [] => ([], none)
  | b :: bs => if b = 10 then ([], some bs) else ((b :: (cut bs).1), (cut bs).2)

/-- the octets hashed for a list of lines: CR LF in front of every line but the very first -/
def hashLines (first : Bool) : List Bytes → Bytes
  | [] => []
  | t :: ts => (if first then [] else crlf) ++ stripWs t ++ hashLines false ts

def AllWs (w : Bytes) : Prop := ∀ b ∈ w, isWs b = true

theorem stripWs_allWs (w : Bytes) (h : AllWs w) : stripWs w = [] := by
  induction w with
  | nil => rfl
  | cons b r ih =>
    have hr : AllWs r := fun x hx => h x (List.mem_cons_of_mem _ hx)
    have hb : isWs b = true := h b (List.mem_cons_self ..)
    simp only [stripWs, ih hr, hb, if_true]

theorem stripWs_append_nonws (p : Bytes) (b : UInt8) (r : Bytes) (hb : isWs b = false) :
    stripWs (p ++ b :: r) = p ++ b :: stripWs r := by
  induction p with
  | nil =>
    simp only [List.nil_append, stripWs]
    cases h : stripWs r with
    | nil => simp [hb]
    | cons x xs => rfl
  | cons a p ih =>
    simp only [List.cons_append, stripWs, ih]
    cases p <;> rfl

theorem isWs_10 : isWs 10 = false := by decide
theorem isWs_45 : isWs 45 = false := by decide


/-! unfolding lemmas of `esc`, one per branch of dashEscaper.Write -/
theorem esc_mid_ws (f : Bool) (w : Bytes) (b : UInt8) (bs : Bytes) (h : isWs b = true) :
    esc ⟨false, f, w⟩ (b :: bs) = esc ⟨false, f, w ++ [b]⟩ bs := by
  simp [esc, h]
theorem esc_mid_lf (f : Bool) (w : Bytes) (bs : Bytes) :
    esc ⟨false, f, w⟩ (10 :: bs) = (10 :: (esc ⟨true, f, []⟩ bs).1, (esc ⟨true, f, []⟩ bs).2) := by
  simp [esc, isWs_10]
theorem esc_mid_other (f : Bool) (w : Bytes) (b : UInt8) (bs : Bytes) (h : isWs b = false) (h10 : b ≠ 10) :
    esc ⟨false, f, w⟩ (b :: bs) = (w ++ b :: (esc ⟨false, f, []⟩ bs).1, w ++ b :: (esc ⟨false, f, []⟩ bs).2) := by
  simp [esc, h, h10]
theorem esc_bol_ws (f : Bool) (b : UInt8) (bs : Bytes) (h : isWs b = true) :
    esc ⟨true, f, []⟩ (b :: bs) = ((esc ⟨false, false, [b]⟩ bs).1, (if f then [] else crlf) ++ (esc ⟨false, false, [b]⟩ bs).2) := by
  cases f <;> simp [esc, h]
theorem esc_bol_lf (f : Bool) (bs : Bytes) :
    esc ⟨true, f, []⟩ (10 :: bs) = (10 :: (esc ⟨true, false, []⟩ bs).1, (if f then [] else crlf) ++ (esc ⟨true, false, []⟩ bs).2) := by
  cases f <;> simp [esc, isWs_10]
theorem esc_bol_dash (f : Bool) (bs : Bytes) :
    esc ⟨true, f, []⟩ (45 :: bs) = (45 :: 32 :: 45 :: (esc ⟨false, false, []⟩ bs).1,
      (if f then [] else crlf) ++ 45 :: (esc ⟨false, false, []⟩ bs).2) := by
  cases f <;> simp [esc, isWs_45]
theorem esc_bol_other (f : Bool) (b : UInt8) (bs : Bytes) (h : isWs b = false) (h10 : b ≠ 10) (h45 : b ≠ 45) :
    esc ⟨true, f, []⟩ (b :: bs) = (b :: (esc ⟨false, false, []⟩ bs).1, (if f then [] else crlf) ++ b :: (esc ⟨false, false, []⟩ bs).2) := by
  cases f <;> simp [esc, h, h10, h45]

theorem cut_length (bs r : Bytes) (h : (cut bs).2 = some r) : r.length < bs.length := by
  induction bs with
  | nil => simp [cut] at h
  | cons b bs ih =>
    unfold cut at h
    split at h
    · simp at h; subst h; simp
    · simp only at h
      have := ih h
      simp only [List.length_cons]; omega

/-- mid-line: from a state holding back whitespace `w`, the rest of the line is written (and hashed) without its trailing
    whitespace, then the next line starts -/
theorem esc_mid (f : Bool) (bs : Bytes) : ∀ w, AllWs w →
    esc ⟨false, f, w⟩ bs =
      match (cut bs).2 with
      | some r => (stripWs (w ++ (cut bs).1) ++ 10 :: (esc ⟨true, f, []⟩ r).1, stripWs (w ++ (cut bs).1) ++ (esc ⟨true, f, []⟩ r).2)
      | none => (stripWs (w ++ (cut bs).1) ++ [10], stripWs (w ++ (cut bs).1)) := by
  induction bs with
  | nil =>
    intro w hw
    simp [esc, cut, stripWs_allWs w hw]
  | cons b bs ih =>
    intro w hw
    by_cases h10 : b = 10
    · subst h10
      rw [esc_mid_lf]
      simp [cut, stripWs_allWs w hw]
    · by_cases hws : isWs b = true
      · have hw' : AllWs (w ++ [b]) := by
          intro x hx
          rcases List.mem_append.mp hx with h | h
          · exact hw x h
          · simp at h; subst h; exact hws
        rw [esc_mid_ws f w b bs hws, ih (w ++ [b]) hw']
        simp only [cut, h10, if_false, List.append_assoc, List.cons_append, List.nil_append]
      · have hws' : isWs b = false := by simpa using hws
        rw [esc_mid_other f w b bs hws' h10, ih [] (by intro x hx; simp at hx)]
        simp only [cut, h10, if_false, List.nil_append, stripWs_append_nonws w b _ hws']
        cases (cut bs).2 <;> simp

theorem escLine_of_head (l : Bytes) (h : l.head? ≠ some 45) : escLine l = l := by
  cases l with
  | nil => rfl
  | cons a l =>
    unfold escLine
    split
    · rename_i heq; injection heq with h1 _; subst h1; simp at h
    · rfl

theorem stripWs_head (b : UInt8) (r : Bytes) : stripWs (b :: r) = [] ∨ (stripWs (b :: r)).head? = some b := by
  simp only [stripWs]
  cases stripWs r with
  | nil => by_cases h : isWs b = true <;> simp [h]
  | cons x xs => simp

/-- line start: a whole line is written dash-escaped and without trailing whitespace, hashed without the escape, with
    CR LF in front unless it is the very first line -/
theorem esc_bol (f : Bool) (b : UInt8) (bs : Bytes) :
    esc ⟨true, f, []⟩ (b :: bs) =
      match (cut (b :: bs)).2 with
      | some r => (escLine (stripWs (cut (b :: bs)).1) ++ 10 :: (esc ⟨true, false, []⟩ r).1,
                   (if f then [] else crlf) ++ stripWs (cut (b :: bs)).1 ++ (esc ⟨true, false, []⟩ r).2)
      | none => (escLine (stripWs (cut (b :: bs)).1) ++ [10], (if f then [] else crlf) ++ stripWs (cut (b :: bs)).1) := by
  by_cases h10 : b = 10
  · subst h10
    rw [esc_bol_lf]
    simp [cut, stripWs, escLine]
  · by_cases hws : isWs b = true
    · have hw : AllWs [b] := by intro x hx; simp at hx; subst hx; exact hws
      have h45 : b ≠ 45 := by intro e; subst e; simp [isWs_45] at hws
      rw [esc_bol_ws f b bs hws, esc_mid false bs [b] hw]
      simp only [cut, h10, if_false, List.cons_append, List.nil_append]
      have he : escLine (stripWs (b :: (cut bs).1)) = stripWs (b :: (cut bs).1) := by
        apply escLine_of_head
        rcases stripWs_head b (cut bs).1 with h | h
        · rw [h]; simp
        · rw [h]; intro e; injection e with e; exact h45 e
      rw [he]
      cases (cut bs).2 <;> simp
    · have hws' : isWs b = false := by simpa using hws
      have hm := esc_mid false bs [] (by intro x hx; simp at hx)
      have hs : stripWs (b :: (cut bs).1) = b :: stripWs (cut bs).1 := stripWs_append_nonws [] b _ hws'
      by_cases h45 : b = 45
      · subst h45
        rw [esc_bol_dash, hm]
        simp only [cut, h10, if_false, hs, List.nil_append, escLine]
        cases (cut bs).2 <;> simp
      · rw [esc_bol_other f b bs hws' h10 h45, hm]
        have he : escLine (b :: stripWs (cut bs).1) = b :: stripWs (cut bs).1 :=
          escLine_of_head _ (by simp; exact h45)
        simp only [cut, h10, if_false, hs, he, List.nil_append]
        cases (cut bs).2 <;> simp

theorem rawTokens_cons_ne (b : UInt8) (bs : Bytes) (h : b ≠ 10) :
    rawTokens (b :: bs) = match rawTokens bs with
      | [] => [[b]]
      | l :: ls => (b :: l) :: ls := by
  simp only [rawTokens, h, if_false]
  cases rawTokens bs <;> rfl

theorem cut_cons_ne (b : UInt8) (bs : Bytes) (h : b ≠ 10) : cut (b :: bs) = (b :: (cut bs).1, (cut bs).2) := by
  simp [cut, h]

theorem rawTokens_cut (b : UInt8) (bs : Bytes) :
    rawTokens (b :: bs) = (cut (b :: bs)).1 :: (match (cut (b :: bs)).2 with | some r => rawTokens r | none => []) := by
  induction bs generalizing b with
  | nil =>
    by_cases h : b = 10 <;> simp [rawTokens, cut, h]
  | cons c bs ih =>
    by_cases h : b = 10
    · simp [rawTokens, cut, h]
    · rw [rawTokens_cons_ne b _ h, ih c, cut_cons_ne b _ h]

/-- **esc_spec.** what the dash escaper writes and hashes, line by line (lines = the pieces between line feeds, a final
    unterminated piece counting when it is not empty) -/
theorem esc_spec (text : Bytes) (f : Bool) :
    esc ⟨true, f, []⟩ text =
      ((rawTokens text).flatMap (fun l => escLine (stripWs l) ++ [10]), hashLines f (rawTokens text)) := by
  generalize hn : text.length = n
  induction n using Nat.strongRecOn generalizing text f with
  | _ n ih =>
    cases text with
    | nil => simp [esc, rawTokens, hashLines]
    | cons b bs =>
      rw [esc_bol, rawTokens_cut]
      cases hc : (cut (b :: bs)).2 with
      | none => simp [hashLines]
      | some r =>
        have hl := cut_length (b :: bs) r hc
        have := ih r.length (by omega) r false rfl
        simp only [this, List.flatMap_cons, hashLines, List.append_assoc, List.cons_append, List.nil_append]

/-! ### the written lines under the RFC's reading (§7.1) -/

theorem dashUnescape_escLine (l : Bytes) : Spec.OpenPgp.dashUnescape (escLine l) = l := by
  cases l with
  | nil => rfl
  | cons a l =>
    by_cases h : a = 45
    · subst h; rfl
    · have : escLine (a :: l) = a :: l := escLine_of_head _ (by simp; exact h)
      rw [this]
      unfold Spec.OpenPgp.dashUnescape
      split
      · rename_i heq; injection heq with h1 _; exact absurd h1 h
      · rfl

theorem stripWs_snoc (l : Bytes) (h : stripWs l ≠ []) : ∃ p x, stripWs l = p ++ [x] ∧ isWs x = false := by
  induction l with
  | nil => exact absurd rfl h
  | cons b r ih =>
    simp only [stripWs] at h ⊢
    cases hr : stripWs r with
    | nil =>
      rw [hr] at h
      by_cases hb : isWs b = true
      · simp [hb] at h
      · simp only [hb]
        exact ⟨[], b, rfl, by simpa using hb⟩
    | cons x xs =>
      obtain ⟨p, y, hp, hy⟩ := ih (by rw [hr]; simp)
      rw [hr] at hp
      exact ⟨b :: p, y, by simp [hp], hy⟩

theorem isBlank_isWs (x : UInt8) (h : isWs x = false) : Spec.OpenPgp.isBlank x = false := by
  unfold isWs at h
  unfold Spec.OpenPgp.isBlank
  simp only [Bool.or_eq_false_iff, decide_eq_false_iff_not] at h ⊢
  exact ⟨h.1.1, h.1.2⟩

/-- a line relic has stripped has nothing left for the RFC's trailing-whitespace rule to remove -/
theorem stripTrailing_stripWs (l : Bytes) : Spec.OpenPgp.stripTrailing (stripWs l) = stripWs l := by
  unfold Spec.OpenPgp.stripTrailing
  by_cases h : stripWs l = []
  · rw [h]; rfl
  · obtain ⟨p, x, hp, hx⟩ := stripWs_snoc l h
    rw [hp]
    simp [List.dropWhile, isBlank_isWs x hx]

theorem joinCRLF_hashLines (t : Bytes) (ts : List Bytes) :
    Spec.OpenPgp.joinCRLF (stripWs t :: ts.map stripWs) = stripWs t ++ hashLines false ts := by
  induction ts generalizing t with
  | nil => simp [Spec.OpenPgp.joinCRLF, hashLines]
  | cons u us ih =>
    simp only [List.map_cons, Spec.OpenPgp.joinCRLF, ih u, hashLines]
    simp [Spec.OpenPgp.crlf, crlf]

theorem hashLines_true (ts : List Bytes) : hashLines true ts = Spec.OpenPgp.joinCRLF (ts.map stripWs) := by
  cases ts with
  | nil => rfl
  | cons t ts =>
    rw [List.map_cons, joinCRLF_hashLines]
    simp [hashLines]

/-! ### the scanner of headClearSign / tailClearSign stops at a long line -/

theorem tailToks_long (c : Bool) (pre : List Bytes) (t : Bytes) (post : List Bytes)
    (hp : ∀ p ∈ pre, p.length < maxTok) (ht : t.length ≥ maxTok) :
    tailToks c (pre ++ t :: post) = .err "toolong" := by
  induction pre generalizing c with
  | nil => simp [tailToks, ht]
  | cons p ps ih =>
    have h1 : ¬ (p.length ≥ maxTok) := by have := hp p (List.mem_cons_self ..); omega
    have hps : ∀ q ∈ ps, q.length < maxTok := fun q hq => hp q (List.mem_cons_of_mem _ hq)
    simp only [List.cons_append, tailToks, h1, if_false]
    split
    · rw [ih true hps]
    · exact ih false hps

theorem headToks_no_panic (ts : List Bytes) : ∀ s, headToks ts ≠ .panic s := by
  induction ts with
  | nil => intro s; simp [headToks]
  | cons t ts ih =>
    intro s
    unfold headToks
    split
    · simp
    · split
      · simp
      · cases h : headToks ts with
        | ok o => simp
        | err e => simp
        | panic q => exact absurd h (ih q)
        | diverge => simp

theorem tailToks_no_panic (ts : List Bytes) : ∀ c s, tailToks c ts ≠ .panic s := by
  induction ts with
  | nil => intro c s; simp [tailToks]
  | cons t ts ih =>
    intro c s
    unfold tailToks
    split
    · simp
    · split
      · cases h : tailToks true ts with
        | ok o => simp
        | err e => simp
        | panic q => exact absurd h (ih true q)
        | diverge => simp
      · exact ih false s

end Relic.Pgp

/- Relic.Model.Xar at the level of bytes: the header codec, the layout of what `Sign` + `Apply` write, `Open` on it -/
import Relic.Proofs.XarView
import Relic.Proofs.Codec
namespace Relic.Xar
open Relic

/-! ### slices of concatenations -/

theorem sl_cat (pre a post : Bytes) (off n : Nat) (h1 : off = pre.length) (h2 : n = a.length) :
    sl (pre ++ (a ++ post)) off n = a := by
  subst h1 h2; simp [sl]

theorem sl_cat_end (pre a : Bytes) (off n : Nat) (h1 : off = pre.length) (h2 : n = a.length) :
    sl (pre ++ a) off n = a := by
  have := sl_cat pre a [] off n h1 h2
  simpa using this

theorem drop_cat (pre post : Bytes) (n : Nat) (h : n = pre.length) : (pre ++ post).drop n = post := by
  subst h; simp

theorem sl_zero_len (b : Bytes) (off : Nat) : sl b off 0 = [] := by simp [sl]

theorem sl_length_le (b : Bytes) (off n : Nat) (h : off + n ≤ b.length) : (sl b off n).length = n := by
  simp [sl]; omega

/-- a slice that lies behind a prefix -/
theorem sl_skip (pre b : Bytes) (off n : Nat) (h : pre.length ≤ off) : sl (pre ++ b) off n = sl b (off - pre.length) n := by
  simp only [sl, List.drop_append]
  have : List.drop off pre = [] := List.drop_eq_nil_of_le h
  simp [this]

/-! ### the header -/

theorem u64_nat (n : Nat) (h : n < 2 ^ 63) : u64 (n : Int) = n := by
  unfold u64
  have : ((n : Int) % 2 ^ 64) = n := Int.emod_eq_of_lt (by omega) (by omega)
  rw [this]; simp

theorem i64_nat (n : Nat) (h : n < 2 ^ 63) : i64 n = (n : Int) := by
  unfold i64; exact w64_id (by unfold inI64; omega)

theorem hkOfHdr_hdr (k : HK) : hkOfHdr k.hdr = some k := by cases k <;> rfl

theorem HK.hdr_lt (k : HK) : k.hdr < 256 ^ 4 := by cases k <;> decide

/-- `parseHeader` reads back the header `appendSignatures` writes -/
theorem parseHeader_newHdr (hk : HK) (c u : Nat) (hc : c < 2 ^ 63) (hu : u < 2 ^ 63) (rest : Bytes) :
    parseHeader ((newHdr hk c u).enc ++ rest) = .ok (newHdr hk c u, hk) := by
  have e : (newHdr hk c u).enc ++ rest = beBytes 4 xarMagic ++ (beBytes 2 28 ++ (beBytes 2 1 ++ (beBytes 8 c ++ (beBytes 8 u ++
      (beBytes 4 hk.hdr ++ rest))))) := by
    simp [Hdr.enc, newHdr, u64_nat c hc, u64_nat u hu, List.append_assoc]
  have hlen : ¬ ((newHdr hk c u).enc ++ rest).length < 28 := by simp [Hdr.enc]; omega
  have f0 : sl ((newHdr hk c u).enc ++ rest) 0 4 = beBytes 4 xarMagic := by
    rw [e]; simpa using sl_cat [] (beBytes 4 xarMagic) _ 0 4 rfl (by simp)
  have f1 : sl ((newHdr hk c u).enc ++ rest) 4 2 = beBytes 2 28 := by
    rw [e]; exact sl_cat _ _ _ 4 2 (by simp) (by simp)
  have f2 : sl ((newHdr hk c u).enc ++ rest) 6 2 = beBytes 2 1 := by
    rw [e, ← List.append_assoc]; exact sl_cat _ _ _ 6 2 (by simp) (by simp)
  have f3 : sl ((newHdr hk c u).enc ++ rest) 8 8 = beBytes 8 c := by
    rw [e, ← List.append_assoc, ← List.append_assoc]; exact sl_cat _ _ _ 8 8 (by simp) (by simp)
  have f4 : sl ((newHdr hk c u).enc ++ rest) 16 8 = beBytes 8 u := by
    rw [e, ← List.append_assoc, ← List.append_assoc, ← List.append_assoc]; exact sl_cat _ _ _ 16 8 (by simp) (by simp)
  have f5 : sl ((newHdr hk c u).enc ++ rest) 24 4 = beBytes 4 hk.hdr := by
    rw [e, ← List.append_assoc, ← List.append_assoc, ← List.append_assoc, ← List.append_assoc]
    exact sl_cat _ _ _ 24 4 (by simp) (by simp)
  have m : beVal (beBytes 4 xarMagic) = xarMagic := beVal_beBytes_of_lt 4 _ (by decide)
  have v1 : beVal (beBytes 2 28) = 28 := beVal_beBytes_of_lt 2 _ (by decide)
  have v2 : beVal (beBytes 2 1) = 1 := beVal_beBytes_of_lt 2 _ (by decide)
  have v3 : beVal (beBytes 8 c) = c := beVal_beBytes_of_lt 8 _ (by omega)
  have v4 : beVal (beBytes 8 u) = u := beVal_beBytes_of_lt 8 _ (by omega)
  have v5 : beVal (beBytes 4 hk.hdr) = hk.hdr := beVal_beBytes_of_lt 4 _ hk.hdr_lt
  simp only [parseHeader, readHdr, hlen, ↓reduceIte, f0, f1, f2, f3, f4, f5, m, v1, v2, v3, v4, v5, i64_nat c hc, i64_nat u hu,
    hkOfHdr_hdr, ne_eq, not_true_eq_false]
  rfl

theorem Hdr.enc_length (h : Hdr) : h.enc.length = 28 := by simp [Hdr.enc]

/-! ### reading from a file -/

theorem readAt_cat (pre a post : Bytes) (off : Int) (n : Nat) (h1 : off = pre.length) (h2 : n = a.length) :
    readAt (pre ++ (a ++ post)) off n = some a := by
  subst h1 h2
  unfold readAt
  have h0 : ¬ ((pre.length : Int) < 0) := by omega
  simp only [h0, ↓reduceIte]
  split
  · rename_i hz
    have : a = [] := List.length_eq_zero_iff.mp hz
    simp [this]
  · simp [sl]

theorem allocRead_cat (fx : Bool) (site cls : String) (pre a post : Bytes) (n off : Int) (h1 : off = pre.length) (h2 : n = a.length)
    (h3 : a.length ≤ 2 ^ 48) : allocRead fx site cls (pre ++ (a ++ post)) n off = .ok a := by
  unfold allocRead
  have hn : ¬ (n < 0 ∨ n > maxAlloc) := by unfold maxAlloc; omega
  have hn' : ¬ (n < 0 ∨ n > ((pre ++ (a ++ post)).length : Int)) := by simp only [List.length_append]; omega
  have hr : readAt (pre ++ (a ++ post)) off n.toNat = some a := readAt_cat pre a post off n.toNat h1 (by omega)
  cases fx
  · simp [hn, hr]
  · simp only [↓reduceIte, hn', hr]

/-! ### `lastOffset` and the notary ticket -/

theorem lastOffset_nonneg : ∀ fs : List XFile, 0 ≤ lastOffset fs
  | [] => by simp [lastOffset]
  | .mk a ks :: rest => by
    simp only [lastOffset]
    have := lastOffset_nonneg rest
    omega

theorem lastOffset_le (B : Int) (hB : 0 ≤ B) : ∀ fs : List XFile, (∀ b ∈ flatXs fs, w64 (b.offset + b.length) ≤ B) → lastOffset fs ≤ B
  | [], _ => by simpa [lastOffset] using hB
  | .mk a ks :: rest, h => by
    simp only [lastOffset]
    have h1 : w64 (a.offset + a.length) ≤ B := h a (by simp [flatXs, flatX])
    have h2 := lastOffset_le B hB ks fun b hb => h b (by simp [flatXs, flatX, hb])
    have h3 := lastOffset_le B hB rest fun b hb => h b (by simp [flatXs, flatX, hb])
    omega

theorem lastOffset_lt : ∀ fs : List XFile, lastOffset fs < 2 ^ 63
  | [] => by simp [lastOffset]
  | .mk a ks :: rest => by
    simp only [lastOffset]
    have h1 := lastOffset_lt ks
    have h2 := lastOffset_lt rest
    have h3 := w64_inI64 (a.offset + a.length)
    unfold inI64 at h3
    omega

/-- the ticket step cannot fail on a file of sane size, wherever the last member is said to end (a wrapped-around position
    never yields a trailer length between 1 and 999999) -/
theorem readTicket_ok (f : Bytes) (fs : List XFile) (base : Int) (h0 : 0 ≤ base) (h1 : base < 2 ^ 62)
    (h2 : f.length < 2 ^ 62) : ∃ tk, readTicket f fs base = .ok tk := by
  unfold readTicket
  have hl := lastOffset_nonneg fs
  have hu := lastOffset_lt fs
  by_cases hc : lastOffset fs + base < 2 ^ 63
  · have e1 : w64 (lastOffset fs + base) = lastOffset fs + base := w64_id (by unfold inI64; omega)
    have e2 : w64 ((f.length : Int) - (lastOffset fs + base)) = (f.length : Int) - (lastOffset fs + base) :=
      w64_id (by unfold inI64; omega)
    simp only [e1, e2]
    split
    · rename_i hc
      have hr : readAt f (lastOffset fs + base) ((f.length : Int) - (lastOffset fs + base)).toNat =
          some (sl f (lastOffset fs + base).toNat ((f.length : Int) - (lastOffset fs + base)).toNat) := by
        unfold readAt
        have a1 : ¬ (lastOffset fs + base < 0) := by omega
        have a2 : ¬ (((f.length : Int) - (lastOffset fs + base)).toNat = 0) := by omega
        have a3 : (lastOffset fs + base).toNat + ((f.length : Int) - (lastOffset fs + base)).toNat ≤ f.length := by omega
        simp [a1, a2, a3]
      exact ⟨_, by rw [hr]⟩
    · exact ⟨none, rfl⟩
  · have e1 : w64 (lastOffset fs + base) = lastOffset fs + base - 2 ^ 64 := by unfold w64; omega
    have e2 : ¬ (w64 ((f.length : Int) - (lastOffset fs + base - 2 ^ 64)) > 0 ∧
        w64 ((f.length : Int) - (lastOffset fs + base - 2 ^ 64)) < 1000000) := by unfold w64; omega
    simp only [e1, e2, ↓reduceIte]
    exact ⟨none, rfl⟩

/-! ### `Open` step by step -/

theorem openPlan_eq (fx : Bool) (E : Env) (f : Bytes) (h : Hdr) (hk : HK) (z : Bytes) (tree : Xml) (n : Nat) (toc : XToc)
    (hp : parseHeader f = .ok (h, hk)) (hreg : regionSR f h.hsize h.clen = z) (hz : E.decode z = some (tree, n))
    (hu : unmarshal E.num tree = some toc) (hs : tocSizesOk h f.length = true) (hn : (n : Int) ≤ h.ulen) :
    openPlanG fx E f = openBody fx E f hk z n toc (w64 (h.hsize + h.clen)) := by
  unfold openPlanG
  rw [hp]
  have hn' : ¬ ((n : Int) > h.ulen) := by omega
  simp only [hs, Bool.not_true, Bool.and_false, Bool.false_eq_true, ↓reduceIte, hreg, hz, hn', decide_false, hu]

theorem openBody_eq (fx : Bool) (E : Env) (f : Bytes) (k : HK) (reg : Bytes) (n : Nat) (toc : XToc) (base : Int) (stored : Bytes)
    (hsz : toc.ck.size = k.size) (hck : readAt f (w64 (base + toc.ck.offset)) k.size = some stored) :
    openBody fx E f k reg n toc base = ⟨[.hashEq "ckmismatch" k reg stored], openRest fx E f k stored toc base n⟩ := by
  unfold openBody
  simp only [hsz, ne_eq, not_true_eq_false, ↓reduceIte, hck]

theorem openRest_eq (fx : Bool) (E : Env) (f : Bytes) (k : HK) (stored : Bytes) (toc : XToc) (base : Int) (n : Nat)
    (sg : Option Bytes × List String) (x tk : Option Bytes)
    (h1 : readSig fx E f base toc.sig = .ok sg) (h2 : readXSig fx f base toc.xsig = .ok x) (h3 : readTicket f toc.files base = .ok tk) :
    openRest fx E f k stored toc base n =
      .ok ⟨k, stored, toc, base, sg.1, sg.2, x, tk, n + k.size + optLen sg.1 + optLen x + optLen tk⟩ := by
  unfold openRest
  rw [h1, h2, h3]
  rfl

/-! ### `Open` on a file laid out as `appendSignatures` lays it out -/

/-- header, compressed TOC, checksum, classic signature (empty for a non-RSA key), CMS area, then whatever follows -/
def layout (C : Crypto) (hk : HK) (z : Bytes) (u : Nat) (rsa cmsArea tail : Bytes) : Bytes :=
  (newHdr hk z.length u).enc ++ (z ++ (C.H hk z ++ (rsa ++ (cmsArea ++ tail))))

theorem layout_length (C : Crypto) (hH : ∀ k b, (C.H k b).length = k.size) (hk : HK) (z : Bytes) (u : Nat) (rsa cmsArea tail : Bytes) :
    (layout C hk z u rsa cmsArea tail).length = 28 + z.length + hk.size + rsa.length + cmsArea.length + tail.length := by
  simp [layout, Hdr.enc_length, hH]; omega

theorem open_layout (fx : Bool) (C : Crypto) (E : Env) (hH : ∀ k b, (C.H k b).length = k.size) (hk : HK) (ki : KeyInfo) (hki : ki.small)
    (z : Bytes) (u : Nat) (rsa cmsArea tail : Bytes) (tree : Xml) (n : Nat) (fs : List XFile)
    (hz : E.decode z = some (tree, n)) (hu : unmarshal E.num tree = some { tocOfKey hk ki with files := fs })
    (hzl : z.length < 2 ^ 40) (hul : u ≤ 100000000) (hnu : n ≤ u)
    (hrsa : rsa.length = ki.rsaSize.getD 0) (hcms : (cmsArea.length : Int) = 6144 + ki.derTotal)
    (hc1 : ki.certTexts ≠ []) (hc2 : ∀ c ∈ ki.certTexts, E.certOk c = true)
    (hlen : (layout C hk z u rsa cmsArea tail).length < 2 ^ 62) :
    ∃ tk, openPlanG fx E (layout C hk z u rsa cmsArea tail) =
      ⟨[.hashEq "ckmismatch" hk z (C.H hk z)],
       .ok ⟨hk, C.H hk z, { tocOfKey hk ki with files := fs }, 28 + z.length, ki.rsaSize.map (fun _ => rsa),
            (if ki.rsaSize.isSome then ki.certTexts else []), some cmsArea, tk,
            n + hk.size + optLen (ki.rsaSize.map (fun _ => rsa)) + optLen (some cmsArea) + optLen tk⟩⟩ := by
  have hs := hk.size_le
  obtain ⟨hd, hr⟩ := hki
  have hp : parseHeader (layout C hk z u rsa cmsArea tail) = .ok (newHdr hk z.length u, hk) :=
    parseHeader_newHdr hk z.length u (by omega) (by omega) _
  have hreg : regionSR (layout C hk z u rsa cmsArea tail) 28 (z.length : Int) = z := by
    have hnn : ¬ ((z.length : Int) < 0) := by omega
    unfold regionSR region
    simp only [hnn, ↓reduceIte]
    split
    · rename_i h0
      have : z = [] := List.length_eq_zero_iff.mp (by omega)
      simp [this]
    · simp only [Int.toNat_natCast]
      exact sl_cat _ z _ 28 z.length (by simp [Hdr.enc_length]) rfl
  have hbase : w64 (((28 : Nat) : Int) + (z.length : Int)) = 28 + (z.length : Int) := w64_id (by unfold inI64; omega)
  -- the checksum
  have hck : readAt (layout C hk z u rsa cmsArea tail) (w64 (28 + (z.length : Int) + 0)) hk.size = some (C.H hk z) := by
    have e : w64 (28 + (z.length : Int) + 0) = ((28 + z.length : Nat) : Int) := by
      rw [w64_id (by unfold inI64; omega)]; omega
    rw [e]
    have : layout C hk z u rsa cmsArea tail = ((newHdr hk z.length u).enc ++ z) ++ (C.H hk z ++ (rsa ++ (cmsArea ++ tail))) := by
      simp [layout, List.append_assoc]
    rw [this]
    exact readAt_cat _ _ _ _ _ (by simp [Hdr.enc_length]) (by simp [hH])
  have hcl : cmsArea.length ≤ 2 ^ 48 := by omega
  -- the ticket
  obtain ⟨tk, htk⟩ := readTicket_ok (layout C hk z u rsa cmsArea tail) fs (28 + (z.length : Int)) (by omega) (by omega) hlen
  have hsz : tocSizesOk (newHdr hk z.length u) (layout C hk z u rsa cmsArea tail).length = true := by
    have hl := layout_length C hH hk z u rsa cmsArea tail
    simp only [tocSizesOk, newHdr, maxTOCSize, decide_eq_true_eq, hl]
    omega
  have hnu' : (n : Int) ≤ (newHdr hk z.length u).ulen := by simp only [newHdr]; omega
  refine ⟨tk, ?_⟩
  cases hrs : ki.rsaSize with
  | none =>
    have hu' : unmarshal E.num tree = some ⟨⟨hk.name, 0, hk.size, []⟩, none, some ⟨"CMS", hk.size, 6144 + ki.derTotal, ki.certTexts⟩, fs⟩ := by
      simpa [tocOfKey, hrs] using hu
    have hr0 : rsa = [] := List.length_eq_zero_iff.mp (by simp [hrsa, hrs])
    subst hr0
    have hx : readXSig fx (layout C hk z u [] cmsArea tail) (28 + (z.length : Int))
        (some ⟨"CMS", hk.size, 6144 + ki.derTotal, ki.certTexts⟩) = .ok (some cmsArea) := by
      have : layout C hk z u [] cmsArea tail = ((newHdr hk z.length u).enc ++ z ++ C.H hk z) ++ (cmsArea ++ tail) := by
        simp [layout, List.append_assoc]
      simp only [readXSig]
      rw [this, allocRead_cat fx _ _ _ cmsArea tail _ _ (by
        rw [w64_id (by unfold inI64; omega)]; simp [Hdr.enc_length, hH]; omega) (by omega) hcl]
      rfl
    have hbase' : w64 (((newHdr hk z.length u).hsize : Int) + (newHdr hk z.length u).clen) = 28 + (z.length : Int) := hbase
    rw [openPlan_eq fx E _ (newHdr hk z.length u) hk z tree n _ hp hreg hz hu' hsz hnu', hbase',
      openBody_eq fx E _ hk z n ⟨⟨hk.name, 0, hk.size, []⟩, none, some ⟨"CMS", hk.size, 6144 + ki.derTotal, ki.certTexts⟩, fs⟩
        (28 + (z.length : Int)) (C.H hk z) rfl hck,
      openRest_eq fx E _ hk (C.H hk z) ⟨⟨hk.name, 0, hk.size, []⟩, none, some ⟨"CMS", hk.size, 6144 + ki.derTotal, ki.certTexts⟩, fs⟩
        (28 + (z.length : Int)) n (none, []) (some cmsArea) tk rfl hx htk]
    simp [tocOfKey, hrs]
  | some m =>
    have hu' : unmarshal E.num tree = some ⟨⟨hk.name, 0, hk.size, []⟩, some ⟨"RSA", hk.size, m, ki.certTexts⟩,
        some ⟨"CMS", hk.size + m, 6144 + ki.derTotal, ki.certTexts⟩, fs⟩ := by
      simpa [tocOfKey, hrs] using hu
    have hm := hr m hrs
    have hrl : rsa.length = m := by simp [hrsa, hrs]
    have hs1 : readSig fx E (layout C hk z u rsa cmsArea tail) (28 + (z.length : Int))
        (some ⟨"RSA", hk.size, m, ki.certTexts⟩) = .ok (some rsa, ki.certTexts) := by
      have : layout C hk z u rsa cmsArea tail = ((newHdr hk z.length u).enc ++ z ++ C.H hk z) ++ (rsa ++ (cmsArea ++ tail)) := by
        simp [layout, List.append_assoc]
      simp only [readSig]
      rw [this, allocRead_cat fx _ _ _ rsa (cmsArea ++ tail) _ _ (by
        rw [w64_id (by unfold inI64; omega)]; simp [Hdr.enc_length, hH]; omega) (by omega) (by omega)]
      have h1 : ki.certTexts.isEmpty = false := by
        cases h : ki.certTexts with
        | nil => exact absurd h hc1
        | cons _ _ => rfl
      have h2 : ki.certTexts.all E.certOk = true := List.all_eq_true.mpr hc2
      simp [Res.bind, h1, h2]
    have hx : readXSig fx (layout C hk z u rsa cmsArea tail) (28 + (z.length : Int))
        (some ⟨"CMS", hk.size + m, 6144 + ki.derTotal, ki.certTexts⟩) = .ok (some cmsArea) := by
      have : layout C hk z u rsa cmsArea tail = ((newHdr hk z.length u).enc ++ z ++ C.H hk z ++ rsa) ++ (cmsArea ++ tail) := by
        simp [layout, List.append_assoc]
      simp only [readXSig]
      rw [this, allocRead_cat fx _ _ _ cmsArea tail _ _ (by
        rw [w64_id (by unfold inI64; omega)]; simp [Hdr.enc_length, hH]; omega) (by omega) hcl]
      rfl
    have hbase' : w64 (((newHdr hk z.length u).hsize : Int) + (newHdr hk z.length u).clen) = 28 + (z.length : Int) := hbase
    rw [openPlan_eq fx E _ (newHdr hk z.length u) hk z tree n _ hp hreg hz hu' hsz hnu', hbase',
      openBody_eq fx E _ hk z n ⟨⟨hk.name, 0, hk.size, []⟩, some ⟨"RSA", hk.size, m, ki.certTexts⟩,
          some ⟨"CMS", hk.size + m, 6144 + ki.derTotal, ki.certTexts⟩, fs⟩ (28 + (z.length : Int)) (C.H hk z) rfl hck,
      openRest_eq fx E _ hk (C.H hk z) ⟨⟨hk.name, 0, hk.size, []⟩, some ⟨"RSA", hk.size, m, ki.certTexts⟩,
          some ⟨"CMS", hk.size + m, 6144 + ki.derTotal, ki.certTexts⟩, fs⟩ (28 + (z.length : Int)) n
        (some rsa, ki.certTexts) (some cmsArea) tk hs1 hx htk]
    simp [tocOfKey, hrs]

end Relic.Xar

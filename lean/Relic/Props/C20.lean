/-
  C20 — Health reporting follows token state with the configured hysteresis.
  Property theorems about `Relic.Model.Health` (model of healthCheck / Healthy / serveHealth in
  /repo/server/view_health.go) and about the loop skeleton regenerated from `healthCheckLoop`
  (`Relic.Generated.HealthLoop.term`, language and semantics in `Relic.Model.HealthLoop`).
  Helper lemmas live in Relic/Proofs/Health.lean.
-/
import Relic.Proofs.Health
import Relic.Generated.HealthLoop
namespace Relic.Props.C20
open Relic.Health Relic.HealthLoop

/-! ## the counter -/

/-- **status_counts_trailing_failures.** For every threshold `N ≥ 1`, start time and history of
    completed checks, the counter equals `N` minus the number of most recent consecutive failures,
    cut off at `0`; hence it is positive exactly when fewer than `N` trailing checks failed. -/
theorem status_counts_trailing_failures (N t0 : Int) (hN : 1 ≤ N) (h : History) :
    (Health.run N t0 h).status = N - min N (trailingFailures (h.map (·.1)) : Int) ∧
    ((Health.run N t0 h).status > 0 ↔ (trailingFailures (h.map (·.1)) : Int) < N) := by
  have e := status_rev N t0 hN h.reverse
  rw [List.reverse_reverse] at e
  refine ⟨e, ?_⟩
  rw [Health.run, e]
  omega

example : (Health.run 3 0 [(true, 10), (false, 20), (false, 30)]).status = 1 := by decide
example : (Health.run 2 0 [(false, 10), (false, 20), (false, 30)]).status = 0 := by decide

/-- **trailing_failures_spec.** `trailingFailures h ≥ N` says precisely "the most recent `N` checks
    exist and all failed" (so the count condition of the property text is the one proved above). -/
theorem trailing_failures_spec (N : Nat) (h : List Bool) :
    N ≤ trailingFailures h ↔ N ≤ h.length ∧ ∀ b ∈ h.reverse.take N, b = false := by
  have := le_length_takeWhile (fun b => !b) h.reverse N
  simpa [trailingFailures] using this

example : trailingFailures [false, true, false, false] = 2 := by decide

/-- the time of the last completed check is what staleness is measured from -/
theorem lastPing_is_last_completed (N t0 : Int) (h : History) :
    (Health.run N t0 h).lastPing = lastCompleted t0 h := by
  have e := lastPing_rev N t0 h.reverse
  rwa [List.reverse_reverse] at e

/-- **healthy_iff.** `/health` answers 200 exactly when the server is not disabled, the last completed
    check (or the start) is at most three intervals old, and fewer than `N` trailing checks failed. -/
theorem healthy_iff (N t0 : Int) (hN : 1 ≤ N) (disabled : Bool) (interval now : Int) (h : History) :
    healthy disabled interval (Health.run N t0 h) now = true ↔
      disabled = false ∧ ¬ (now - lastCompleted t0 h > 3 * interval) ∧
      (trailingFailures (h.map (·.1)) : Int) < N := by
  have s := (status_counts_trailing_failures N t0 hN h).2
  have l := lastPing_is_last_completed N t0 h
  cases disabled <;> simp [healthy, stale, l, s]

/-- the HTTP face of it: 200 iff healthy, else 503 -/
theorem http_code_iff (b : Bool) : (httpCode b = 200 ↔ b = true) ∧ (httpCode b = 503 ↔ b = false) := by
  cases b <;> simp [httpCode]

example : healthy false 5000 (Health.run 2 0 [(false, 1000)]) 2000 = true := by decide
example : healthy false 5000 (Health.run 2 0 [(false, 1000), (false, 2000)]) 2500 = false := by decide
example : healthy false 5000 (Health.run 2 0 [(true, 1000)]) 16001 = false := by decide   -- stale
example : healthy false 5000 (Health.run 2 0 [(true, 1000)]) 16000 = true := by decide    -- exactly 3 intervals: not stale
example : healthy true 5000 (Health.run 2 0 [(true, 1000)]) 1000 = false := by decide     -- disabled

/-- **one_success_restores.** Whatever the state, one check in which every token answers resets the
    counter to `N`; the server is then healthy until it is disabled or three intervals pass. -/
theorem one_success_restores (N : Int) (hN : 1 ≤ N) (st : State) (t interval now : Int)
    (fresh : now - t ≤ 3 * interval) :
    (check N st true t).status = N ∧ healthy false interval (check N st true t) now = true := by
  simp [check, healthy, stale]
  omega

example : healthy false 1000 (check 4 ⟨0, 0⟩ true 50) 60 = true := by decide

/-- one failure never makes a healthy server with `N ≥ 2` unhealthy right after a success (hysteresis) -/
theorem failures_below_threshold_tolerated (N t0 : Int) (hN : 1 ≤ N) (h : History) (k : Nat) (hk : (k : Int) < N)
    (fails : List Int) (hl : fails.length = k) (t : Int) :
    (Health.run N t0 (h ++ (true, t) :: fails.map (fun x => (false, x)))).status > 0 := by
  rw [(status_counts_trailing_failures N t0 hN _).2]
  have : trailingFailures ((h ++ (true, t) :: fails.map (fun x => (false, x))).map (·.1)) = k := by
    simp [trailingFailures, Function.comp_def, hl]
  omega

/-- **nonpositive_threshold_never_healthy.** What the code does with a negative `TokenCheckFailures`
    (`0` is replaced by `3` in `config.Normalize`, negative values are kept): the counter never moves and
    `/health` never answers 200. -/
theorem nonpositive_threshold_never_healthy (N t0 : Int) (hN : N ≤ 0) (disabled : Bool) (interval now : Int)
    (h : History) :
    (Health.run N t0 h).status = N ∧ healthy disabled interval (Health.run N t0 h) now = false := by
  have e := status_nonpos N t0 hN h.reverse
  rw [List.reverse_reverse] at e
  refine ⟨e, ?_⟩
  rw [Health.run]
  cases disabled <;> simp [healthy, e] <;> omega

example : normalizeFailures 0 = 3 ∧ normalizeFailures (-2) = -2 := by decide

/-- a check's outcome is the conjunction over the served tokens of "Ping returned nil" -/
theorem allOk_iff (ts : List Outcome) : allOk ts = true ↔ ∀ o ∈ ts, o = .ok := by
  simp only [allOk, List.all_eq_true]
  constructor <;> intro h o ho <;> have := h o ho <;> cases o <;> simp_all [pingOk]

/-! ## the loop -/

/-- in an iteration that takes a case receiving from the closed channel, a loop with
    `exitsOnClose` returns from the function and does not call `hc` -/
theorem closed_case_exits (hc ch : String) (t : Loop) (ht : exitsOnClose hc ch t = true)
    (i : Nat) (c : Case) (hi : t.cases[i]? = some c) (hc' : isClosedCase ch c = true) :
    (iter t i).1 = .exited ∧ hc ∉ (iter t i).2 := by
  simp only [exitsOnClose, Bool.and_eq_true, List.all_eq_true] at ht
  obtain ⟨⟨hpre, _⟩, hall⟩ := ht
  have hp := exec_quiet hc t.pre (by simpa [List.all_eq_true] using hpre)
  have hb := hall c (List.mem_of_getElem? hi)
  simp only [hc', Bool.not_true, Bool.false_or] at hb
  have he := exec_endsInExit hc t.label t.selLabel _ c.body hb
  simp only [iter, hp.1, atLoop, hi]
  rcases he.2 with hr | ⟨x, hx, hl, hs, ha⟩
  · rw [hr]
    simp only [inSelect, List.mem_append, not_or]
    exact ⟨trivial, hp.2, he.1⟩
  · have hq := exec_quietEnd hc t.after ha
    have hs' : ¬ t.selLabel = some x := hs
    rw [hx]
    simp only [inSelect, hs', hl, if_false, if_true, finish]
    rcases hq.1 with hf | hf <;> rw [hf] <;>
      simp only [List.mem_append, not_or] <;> exact ⟨trivial, ⟨hp.2, he.1⟩, hq.2⟩

/-- **loop_exits_on_close.** For every loop term with `exitsOnClose`: there is a case receiving from
    the closed channel (index `i`; a receive from a closed channel is always ready, so the case is
    enabled in every iteration once the channel is closed), and for every execution prefix that is
    still running and every continuation in which the runtime takes that case, the function returns
    in that very iteration, having performed no further call of `hc` – whatever `rest` the schedule
    would have held is never executed. -/
theorem loop_exits_on_close (hc ch : String) (t : Loop) (ht : exitsOnClose hc ch t = true) :
    ∃ i, closedIdx ch t = some i ∧
      ∀ (sched : List Nat) (calls : List String), HealthLoop.run t sched = (.running, calls) →
        ∀ rest : List Nat, ∃ more, HealthLoop.run t (sched ++ i :: rest) = (.exited, calls ++ more) ∧ hc ∉ more := by
  have hany : t.cases.any (isClosedCase ch) = true := by
    simp only [exitsOnClose, Bool.and_eq_true] at ht
    exact ht.1.2
  have hlt : t.cases.findIdx (isClosedCase ch) < t.cases.length := List.findIdx_lt_length_of_exists (by simpa using hany)
  refine ⟨t.cases.findIdx (isClosedCase ch), by simp [closedIdx, hlt], ?_⟩
  intro sched calls hrun rest
  have hget : t.cases[t.cases.findIdx (isClosedCase ch)]? = some (t.cases[t.cases.findIdx (isClosedCase ch)]'hlt) :=
    List.getElem?_eq_getElem hlt
  have hclosed : isClosedCase ch (t.cases[t.cases.findIdx (isClosedCase ch)]'hlt) = true := List.findIdx_getElem
  have hx := closed_case_exits hc ch t ht _ _ hget hclosed
  rw [run_append t sched _ calls hrun]
  rcases hiter : iter t (t.cases.findIdx (isClosedCase ch)) with ⟨o, cl⟩
  rw [hiter] at hx
  simp only at hx
  obtain ⟨ho, hcl⟩ := hx
  subst ho
  exact ⟨cl, by simp [HealthLoop.run, hiter], hcl⟩

/-- **loop_exits_on_close_idle.** In particular, when only the closed channel is ready (the timer has
    been re-armed: every schedule then consists of the closed case), the goroutine ends in the first
    iteration after the close and performs no `hc` at all. -/
theorem loop_exits_on_close_idle (hc ch : String) (t : Loop) (ht : exitsOnClose hc ch t = true) :
    ∃ i, closedIdx ch t = some i ∧
      ∀ n, ∃ more, HealthLoop.run t (List.replicate (n + 1) i) = (.exited, more) ∧ hc ∉ more := by
  obtain ⟨i, hi, h⟩ := loop_exits_on_close hc ch t ht
  refine ⟨i, hi, fun n => ?_⟩
  have := h [] [] rfl (List.replicate n i)
  simpa [List.replicate_succ] using this

/-- an iteration of a loop without any exit statement keeps running, whichever case is taken -/
theorem iter_noExit (t : Loop) (ht : noExit t = true) (i : Nat) (hi : i < t.cases.length) :
    (iter t i).1 = .running := by
  simp only [noExit, Bool.and_eq_true, List.all_eq_true] at ht
  obtain ⟨⟨hpre, hpost⟩, hcases⟩ := ht
  have hp := exec_passive t.pre (by simpa [List.all_eq_true] using hpre)
  have hq := exec_passive t.post (by simpa [List.all_eq_true] using hpost)
  have hb := exec_noExit (t.cases[i]).body (by simpa [List.all_eq_true] using hcases _ (List.getElem_mem hi))
  simp only [iter, hp, atLoop, List.getElem?_eq_getElem hi]
  rcases hb with hb | hb | hb <;> rw [hb] <;> simp [inSelect, hq]

/-- **no_exit_never_terminates.** A loop in which no statement can end it (only calls, other
    statements, unlabeled `break`/`continue` inside the `select`) is still running after every
    schedule, of any length. -/
theorem no_exit_never_terminates (t : Loop) (ht : noExit t = true) (sched : List Nat)
    (hs : ∀ i ∈ sched, i < t.cases.length) : (HealthLoop.run t sched).1 = .running := by
  induction sched with
  | nil => rfl
  | cons c cs ih =>
    have h1 := iter_noExit t ht c (hs c (by simp))
    have h2 := ih (fun i hi => hs i (by simp [hi]))
    rcases hi : iter t c with ⟨o, cl⟩
    rw [hi] at h1
    simp only at h1
    subst h1
    simp [HealthLoop.run, hi, h2]

/-- **loop_break_spins.** A loop whose case for the closed channel is a bare `break` (which in Go leaves
    only the `select`) never terminates once the channel is closed: the closed case is always ready, and
    however many times it is taken the goroutine is still in the loop – a busy spin, since a ready
    `select` does not block. -/
theorem loop_break_spins (ch : String) (t : Loop) (ht : spinsOnClose ch t = true) :
    ∃ i c, t.cases[i]? = some c ∧ isClosedCase ch c = true ∧
      ∀ n, (HealthLoop.run t (List.replicate n i)).1 = .running := by
  simp only [spinsOnClose, Bool.and_eq_true, List.any_eq_true, beq_iff_eq] at ht
  obtain ⟨⟨hpre, hpost⟩, c, hmem, hcl, hbody⟩ := ht
  obtain ⟨i, hi, hget⟩ := List.getElem_of_mem hmem
  have hp := exec_passive t.pre hpre
  have hq := exec_passive t.post hpost
  have hit : (iter t i).1 = .running := by
    simp [iter, hp, atLoop, List.getElem?_eq_getElem hi, hget, hbody, exec, inSelect, hq]
  refine ⟨i, c, by simp [List.getElem?_eq_getElem hi, hget], hcl, fun n => ?_⟩
  induction n with
  | zero => rfl
  | succ n ih =>
    rcases hiter : iter t i with ⟨o, cl⟩
    rw [hiter] at hit
    simp only at hit
    subst hit
    simp [List.replicate_succ, HealthLoop.run, hiter, ih]

/-! ### non-vacuity, and defect F1 as a witness -/

/-- `healthCheckLoop` as it stands upstream (F1): `case <-s.Closed: break` -/
def upstreamLoop : Loop :=
  { label := none, pre := [], selLabel := none,
    cases := [⟨.recv "t.C", [.call "s.healthCheck", .call "t.Reset"]⟩, ⟨.recv "s.Closed", [.break_ none]⟩],
    post := [], after := [] }

/-- the same with `return` (the proposed fix), and with a labelled break -/
def fixedLoop : Loop :=
  { label := none, pre := [], selLabel := none,
    cases := [⟨.recv "t.C", [.call "s.healthCheck", .call "t.Reset"]⟩, ⟨.recv "s.Closed", [.return_]⟩],
    post := [], after := [] }
def labelledLoop : Loop :=
  { label := some "loop", pre := [], selLabel := none,
    cases := [⟨.recv "t.C", [.call "s.healthCheck", .call "t.Reset"]⟩,
              ⟨.recv "s.Closed", [.call "log", .break_ (some "loop")]⟩],
    post := [], after := [.call "t.Stop"] }

example : exitsOnClose hcName closedChan fixedLoop = true := by decide
example : exitsOnClose hcName closedChan labelledLoop = true := by decide
example : HealthLoop.run fixedLoop [0, 0, 1, 0] = (.exited, ["s.healthCheck", "t.Reset", "s.healthCheck", "t.Reset"]) := by decide
example : HealthLoop.run labelledLoop [0, 1] = (.exited, ["s.healthCheck", "t.Reset", "log", "t.Stop"]) := by decide

/-- **upstream_loop_never_exits (F1).** The loop as written upstream does not satisfy `exitsOnClose`,
    and no schedule whatsoever makes it return: closing the server leaves the goroutine spinning. -/
theorem upstream_loop_never_exits :
    exitsOnClose hcName closedChan upstreamLoop = false ∧ spinsOnClose closedChan upstreamLoop = true ∧
    ∀ sched : List Nat, (∀ i ∈ sched, i < 2) → (HealthLoop.run upstreamLoop sched).1 = .running :=
  ⟨by decide, by decide, fun sched hs => no_exit_never_terminates upstreamLoop (by decide) sched hs⟩

example : HealthLoop.run upstreamLoop [1, 1, 1, 1, 1, 1] = (.running, []) := by decide

/-! ### obligations on the term regenerated from /repo (T-gen) -/

/-- **relic_health_loop_exits_on_close.** The loop of the *current* `healthCheckLoop` ends on close.
    (False on a tree with defect F1, where the build of this module fails here.) -/
theorem relic_health_loop_exits_on_close :
    exitsOnClose hcName closedChan Relic.Generated.HealthLoop.term = true := by decide

/-- the comparisons of the *current* `Healthy` are the ones `Relic.Health.healthy` models
    (`> 3*interval`, `> 0`, `Disabled` first) -/
theorem relic_healthy_shape :
    Relic.Generated.HealthLoop.healthyShape = modelledHealthyShape := by decide

end Relic.Props.C20

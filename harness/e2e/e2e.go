// Package e2e: end-to-end oracle over every signer type: sign (n rounds, differing keys) → verify with
// integrity on → signature count, digest algorithm, signer certificate, payload view through an independent
// reader, IsSigned before/after.  Formats without a Lean model are *exercised* through this oracle only.
package e2e

import (
	"archive/zip"
	"bufio"
	"bytes"
	"crypto"
	_ "crypto/sha1"
	"crypto/sha256"
	_ "crypto/sha512"
	"debug/pe"
	"encoding/hex"
	"fmt"
	"io"
	"os"
	"path/filepath"
	"sort"
	"strings"
	"sync"

	"github.com/sassoftware/relic/v8/signers"

	"verifharness/hx"
	"verifharness/sg"
)

const fixtures = "/repo/functest/packages"

// Fixture files per signer type
var Fix = map[string][]string{
	"pe-coff": {"WindowsFormsApplication1.exe", "ClassLibrary1.dll"},
	"msi":     {"dummy.msi"},
	"cab":     {"dummy.cab"},
	"ps":      {"hello.ps1", "hello.ps1xml", "hello.mof"},
	"jar":     {"hello.jar"},
	"apk":     {"dummy.apk"},
	"appx":    {"App1_1.0.3.0_x64.appx"},
	"vsix":    {"VSIXProject1.vsix"},
	"xap":     {"dummy.xap"},
	"cat":     {"hyperv.cat"},
	"deb":     {"zlib1g_1.2.8.dfsg-5_i386.deb"},
	"rpm":     {"rocky-basesystem-11-13.el9.noarch.rpm"},
	"dmg":     {"dummy.dmg"},
	"xar":     {"dummy.pkg"},
	"pgp":     {"gen:txt:mixed.txt"},
}

var Types = []string{"pe-coff", "msi", "cab", "ps", "jar", "apk", "appx", "vsix", "xap", "cat", "deb", "rpm", "dmg", "xar", "pgp"}

// PgpFlagSets: every output form of the PGP signer (detached / inline / cleartext) x armor x text mode
var PgpFlagSets = []string{"-", "armor=true", "textmode=true", "armor=true;textmode=true", "inline=true", "inline=true;armor=true",
	"inline=true;textmode=true", "inline=true;armor=true;textmode=true", "clearsign=true", "clearsign=true;textmode=true"}

// (the hidden flag pgp=mini-clear exists for relic 2.0 clients, which merge the returned armor block into a cleartext
// document themselves; alone it yields no verifiable artifact.  The merge is covered by the PGP model's `merge` ops.)
var Hashes = []string{"sha1", "sha224", "sha256", "sha384", "sha512"}

func hashOf(n string) crypto.Hash {
	switch n {
	case "sha1":
		return crypto.SHA1
	case "sha224":
		return crypto.SHA224
	case "sha256":
		return crypto.SHA256
	case "sha384":
		return crypto.SHA384
	case "sha512":
		return crypto.SHA512
	}
	return 0
}

func hashName(h crypto.Hash) string {
	return strings.ToLower(strings.ReplaceAll(h.String(), "-", ""))
}

func Gen(w *bufio.Writer, seed uint64, tier string, prop string) {
	r := hx.NewRng(seed ^ 0xe2e)
	keys := sg.KeyKinds
	// (1) the option table, exhaustively: type x key x digest, one round
	if prop == "C01" {
		for _, t := range Types {
			for _, k := range keys {
				for _, h := range Hashes {
					fmt.Fprintf(w, "E2E sign %s %s %s %s -\n", t, Fix[t][0], h, k)
				}
			}
		}
		// per-signer flags
		for _, fl := range []string{"page-hashes=true", "description=d;desc-url=http://u"} {
			fmt.Fprintf(w, "E2E sign pe-coff %s sha256 p256 %s\n", Fix["pe-coff"][0], fl)
		}
		fmt.Fprintf(w, "E2E sign pe-coff %s sha1 rsa page-hashes=true\n", Fix["pe-coff"][1])
		fmt.Fprintf(w, "E2E sign pe-coff %s sha512 rsa page-hashes=true\n", Fix["pe-coff"][1])
		for _, fl := range []string{"sections-only=true", "inline-signature=true", "apk-v2-present=true", "key-alias=FOO"} {
			fmt.Fprintf(w, "E2E sign jar %s sha256 rsa %s\n", Fix["jar"][0], fl)
		}
		fmt.Fprintf(w, "E2E sign msi %s sha256 rsa no-extended-sig=true\n", Fix["msi"][0])
		fmt.Fprintf(w, "E2E sign vsix %s sha256 rsa detach-certs=true\n", Fix["vsix"][0])
		for _, role := range []string{"builder", "origin", "maint", "archive"} {
			fmt.Fprintf(w, "E2E sign deb %s sha256 rsa role=%s\n", Fix["deb"][0], role)
		}
		for _, fx := range Fix["ps"] {
			fmt.Fprintf(w, "E2E sign ps %s sha256 p384 -\n", fx)
		}
		for _, fl := range PgpFlagSets {
			for _, fx := range []string{"gen:txt:mixed.txt", "gen:txt:crlf.txt", "gen:txt:binary.bin"} {
				fmt.Fprintf(w, "E2E sign pgp %s sha256 rsa %s\n", fx, fl)
			}
			fmt.Fprintf(w, "E2E sign pgp gen:txt:mixed.txt sha512 rsa,rsa %s\n", fl)
		}
	}
	// (1b) JAR shapes the fixture does not have, and histories whose *options* differ between the rounds
	for _, v := range JarVariants {
		fmt.Fprintf(w, "E2E sign jar gen:jar:%s.jar sha256 rsa,p256 -\n", v)
	}
	for _, h := range []string{
		"msi dummy.msi sha256 rsa,p256 -|no-extended-sig=true", "msi dummy.msi sha256 rsa,p256 no-extended-sig=true|-",
		"msi dummy.msi sha1 p256,p256,rsa -|no-extended-sig=true|-",
		"jar hello.jar sha256 rsa,p256 sections-only=true|-", "jar hello.jar sha256 rsa,p256 -|inline-signature=true",
		"jar gen:jar:plain.jar sha256 rsa,p256 inline-signature=true|-", "jar hello.jar sha256 p256,p256 key-alias=ONE|key-alias=TWO",
		"pe-coff ClassLibrary1.dll sha256 rsa,p256 page-hashes=true|-", "pe-coff ClassLibrary1.dll sha256 rsa,p256 -|page-hashes=true",
		"apk dummy.apk sha256 rsa,p256 -", "ps hello.ps1xml sha256 rsa,p256 -", "ps hello.mof sha256 rsa,p256 -",
	} {
		fmt.Fprintf(w, "E2E sign %s\n", h)
	}
	if prop == "C02" {
		fmt.Fprintf(w, "E2E graft jar rsa rsa2\n")
		fmt.Fprintf(w, "E2E graft jar p256 p256b\n")
		return
	}
	// (2) histories: repeated signing with differing keys (and digests where the type allows)
	n := 12
	if tier == "thorough" {
		n = 60
	}
	if prop == "C01" {
		n = 4
	}
	for i := 0; i < n; i++ {
		t := Types[r.Intn(len(Types))]
		fx := Fix[t][r.Intn(len(Fix[t]))]
		rounds := 2 + r.Intn(3)
		var ks []string
		for j := 0; j < rounds; j++ {
			k := keys[r.Intn(len(keys))]
			if t == "deb" || t == "rpm" {
				k = "rsa"
			}
			ks = append(ks, k)
		}
		h := "sha256"
		fmt.Fprintf(w, "E2E sign %s %s %s %s -\n", t, fx, h, strings.Join(ks, ","))
	}
	if prop == "C08" {
		fmt.Fprintf(w, "E2E repeat 200 dmg dummy.dmg sha256 p384,p384 -\n")
		fmt.Fprintf(w, "E2E repeat 60 pe-coff ClassLibrary1.dll sha256 p256,rsa -\n")
		fmt.Fprintf(w, "E2E repeat 60 jar hello.jar sha256 p256,rsa -\n")
	}
	if prop == "C08" || prop == "C03" {
		for _, t := range Types { // every type at least twice
			k := "p256,rsa"
			if t == "deb" || t == "rpm" {
				k = "rsa,rsa"
			}
			fmt.Fprintf(w, "E2E sign %s %s sha256 %s -\n", t, Fix[t][0], k)
		}
	}
}

// payload view through a reader that shares no code with relic (where the standard library has one)
func payloadView(typ, path string) string {
	h := sha256.New()
	switch typ {
	case "jar", "apk", "vsix", "appx", "xap":
		zr, err := zip.OpenReader(path)
		if err != nil {
			return "unreadable:" + strings.ReplaceAll(err.Error(), " ", "_")
		}
		defer zr.Close()
		var lines []string
		for _, f := range zr.File {
			n := f.Name
			up := strings.ToUpper(n)
			if strings.HasPrefix(up, "META-INF/") && !strings.Contains(up[len("META-INF/"):], "/") && (strings.HasSuffix(up, ".SF") || strings.HasSuffix(up, ".RSA") || strings.HasSuffix(up, ".EC") || strings.HasSuffix(up, ".DSA") || up == "META-INF/MANIFEST.MF") {
				continue
			}
			if up == "META-INF/" { // directory entry added with the signature files
				continue
			}
			if strings.HasPrefix(n, "package/services/digital-signature/") || n == "[Content_Types].xml" || n == "_rels/.rels" ||
				n == "AppxSignature.p7x" || n == "AppxBlockMap.xml" || n == "AppxMetadata/CodeIntegrity.cat" ||
				(typ == "appx" && n == "AppxManifest.xml") { // the manifest's Publisher is rewritten to the signing certificate's subject
				continue // signature metadata rewritten by the signer
			}
			rc, err := f.Open()
			if err != nil {
				return "unreadable-member:" + n
			}
			d := sha256.New()
			if _, err := io.Copy(d, rc); err != nil {
				rc.Close()
				return "corrupt-member:" + n
			}
			rc.Close()
			lines = append(lines, fmt.Sprintf("%s %x", n, d.Sum(nil)))
		}
		// order matters for the property; keep archive order
		for _, l := range lines {
			fmt.Fprintln(h, l)
		}
	case "pe-coff":
		f, err := pe.Open(path)
		if err != nil {
			return "unreadable:" + strings.ReplaceAll(err.Error(), " ", "_")
		}
		defer f.Close()
		for _, s := range f.Sections {
			d, err := s.Data()
			if err != nil {
				return "unreadable-section:" + s.Name
			}
			fmt.Fprintf(h, "%s %d %d %x\n", s.Name, s.Offset, s.Size, sha256.Sum256(d))
		}
	case "ps":
		b, err := os.ReadFile(path)
		if err != nil {
			return "unreadable"
		}
		// script text up to the signature block marker (either encoding)
		for _, m := range [][]byte{[]byte("# SIG # Begin signature block"), []byte("<!-- SIG # Begin signature block"), []byte("/* SIG # Begin signature block")} {
			if i := bytes.Index(b, m); i >= 0 {
				b = b[:i]
			}
			wide := make([]byte, 0, 2*len(m))
			for _, c := range m {
				wide = append(wide, c, 0)
			}
			if i := bytes.Index(b, wide); i >= 0 {
				b = b[:i]
			}
		}
		h.Write(bytes.TrimRight(b, "\r\n\x00"))
	case "pgp":
		return "n/a" // detached: the content file is never an output; signed messages: Relic.Model.Pgp (payload theorems)
	default:
		return "n/a"
	}
	return hex.EncodeToString(h.Sum(nil))[:16]
}

// genFixture builds synthetic inputs: "gen:jar:<variant>.jar", "gen:txt:<variant>"
func genFixture(spec string) ([]byte, error) {
	switch spec {
	case "gen:txt:mixed.txt": // bare LF, CRLF, lone CR, trailing blanks, dash-escaped lines, no final newline
		return []byte("first line\nsecond line with trailing blanks  \t\r\n- dash line\n-----BEGIN PGP FAKE-----\nFrom here\rlone CR\n\nlast line without newline"), nil
	case "gen:txt:crlf.txt":
		return []byte("alpha\r\nbeta\r\n\r\ngamma\r\n"), nil
	case "gen:txt:binary.bin":
		b := make([]byte, 700)
		for i := range b {
			b[i] = byte(i*7 + i/13)
		}
		return b, nil
	}
	parts := strings.Split(strings.TrimSuffix(spec, ".jar"), ":")
	if len(parts) != 3 || parts[1] != "jar" {
		return nil, fmt.Errorf("unknown generated fixture %s", spec)
	}
	return BuildJar(parts[2], []byte("payload of "+parts[2]))
}

// JarVariants: shapes of JAR input that the fixture does not have
var JarVariants = []string{"plain", "nomanifest", "attronly", "attronlyall", "nestedmeta", "dirs", "emptymember", "stored", "partialmanifest"}

// BuildJar writes a small JAR of the given shape.
func BuildJar(variant string, class []byte) ([]byte, error) {
	var buf bytes.Buffer
	zw := zip.NewWriter(&buf)
	add := func(name string, data []byte, method uint16) error {
		w, err := zw.CreateHeader(&zip.FileHeader{Name: name, Method: method})
		if err != nil {
			return err
		}
		_, err = w.Write(data)
		return err
	}
	method := zip.Deflate
	if variant == "stored" {
		method = zip.Store
	}
	manifest := "Manifest-Version: 1.0\r\nCreated-By: verif\r\n\r\n"
	switch variant {
	case "attronly": // an entry that is listed with attributes but carries no digest yet
		manifest += "Name: com/example/A.class\r\nJava-Bean: True\r\n\r\n"
	case "attronlyall": // every member is listed, none has a digest yet: nothing else forces a manifest rewrite
		for _, n := range []string{"com/example/A.class", "res/one.txt", "res/two.txt"} {
			manifest += "Name: " + n + "\r\nJava-Bean: True\r\n\r\n"
		}
	case "partialmanifest": // lists one of several members only
		manifest += "Name: res/one.txt\r\nX-Note: listed\r\n\r\n"
	}
	if variant != "nomanifest" {
		if err := add("META-INF/MANIFEST.MF", []byte(manifest), method); err != nil {
			return nil, err
		}
	}
	if variant == "dirs" {
		if err := add("com/", nil, zip.Store); err != nil {
			return nil, err
		}
		if err := add("com/example/", nil, zip.Store); err != nil {
			return nil, err
		}
	}
	if err := add("com/example/A.class", class, method); err != nil {
		return nil, err
	}
	if err := add("res/one.txt", []byte("one"), method); err != nil {
		return nil, err
	}
	if err := add("res/two.txt", []byte("two two"), method); err != nil {
		return nil, err
	}
	if variant == "emptymember" {
		if err := add("res/empty.txt", nil, zip.Store); err != nil {
			return nil, err
		}
	}
	if variant == "nestedmeta" { // payload below META-INF/ that only *looks* like signature files
		for _, n := range []string{"META-INF/resources/keys/vendor-root.RSA", "META-INF/services/piano.SF", "META-INF/maven/SIG-helper.txt", "META-INF/sub/OTHER.EC"} {
			if err := add(n, []byte("not a signature: "+n), method); err != nil {
				return nil, err
			}
		}
	}
	if err := zw.Close(); err != nil {
		return nil, err
	}
	return buf.Bytes(), nil
}

// graft: the signature block of JAR A (signed with `key`, content embedded: inline-signature) is dropped into JAR B
// (different content; manifest and .SF freshly computed by signing B with a *rogue* key of the same type).
// The verifier, trusting only `key`'s certificate, must reject the result.
func graftJar(key, rogue string) string {
	dir, err := os.MkdirTemp("", "vh-graft-")
	if err != nil {
		panic(err)
	}
	defer os.RemoveAll(dir)
	a, _ := BuildJar("plain", []byte("genuine class file A"))
	b, _ := BuildJar("plain", []byte("attacker's class file B"))
	pa, pb := filepath.Join(dir, "a.jar"), filepath.Join(dir, "b.jar")
	os.WriteFile(pa, a, 0o644)
	os.WriteFile(pb, b, 0o644)
	if err := sg.Sign("jar", pa, pa, sg.Cert(key), crypto.SHA256, map[string]string{"inline-signature": "true"}); err != nil {
		return "err sign-a:" + strings.ReplaceAll(err.Error(), " ", "_")
	}
	if err := sg.Sign("jar", pb, pb, sg.Cert(rogue), crypto.SHA256, nil); err != nil {
		return "err sign-b:" + strings.ReplaceAll(err.Error(), " ", "_")
	}
	isBlock := func(n string) bool {
		up := strings.ToUpper(n)
		return strings.HasPrefix(up, "META-INF/") && (strings.HasSuffix(up, ".RSA") || strings.HasSuffix(up, ".EC") || strings.HasSuffix(up, ".DSA"))
	}
	var blockA []byte
	za, err := zip.OpenReader(pa)
	if err != nil {
		return "err open-a"
	}
	for _, f := range za.File {
		if isBlock(f.Name) {
			rc, _ := f.Open()
			blockA, _ = io.ReadAll(rc)
			rc.Close()
		}
	}
	za.Close()
	if blockA == nil {
		return "err no-block"
	}
	zb, err := zip.OpenReader(pb)
	if err != nil {
		return "err open-b"
	}
	var out bytes.Buffer
	zw := zip.NewWriter(&out)
	for _, f := range zb.File {
		rc, _ := f.Open()
		data, _ := io.ReadAll(rc)
		rc.Close()
		if isBlock(f.Name) {
			data = blockA
		}
		w, _ := zw.CreateHeader(&zip.FileHeader{Name: f.Name, Method: f.Method})
		w.Write(data)
	}
	zb.Close()
	zw.Close()
	pg := filepath.Join(dir, "grafted.jar")
	os.WriteFile(pg, out.Bytes(), 0o644)
	sigs, err := sg.Verify("jar", pg, sg.Cert(key), false)
	if err != nil {
		return "ok rejected"
	}
	for _, s := range sigs {
		if s.X509Signature != nil && s.X509Signature.Certificate.Equal(sg.Cert(key).Leaf) {
			return "ok ACCEPTED-as-genuine-signer"
		}
	}
	return "ok accepted-as-rogue-signer"
}

func classifyRefusal(err error) string {
	s := err.Error()
	switch {
	case strings.Contains(s, "unsupported hash") || strings.Contains(s, "unknown hash") || strings.Contains(s, "invalid hash") ||
		strings.Contains(s, "unsupported public key algorithm") || strings.Contains(s, "unsupported page hash"):
		return "hash"
	case strings.Contains(s, "no pgp certificate"):
		return "key"
	case strings.Contains(s, "JAR did not contain a manifest"):
		return "input"
	}
	return "other:" + strings.ReplaceAll(s, " ", "_")
}

func parseFlags(s string) map[string]string {
	m := map[string]string{}
	if s == "-" || s == "" {
		return m
	}
	for _, kv := range strings.Split(s, ";") {
		p := strings.SplitN(kv, "=", 2)
		if len(p) == 2 {
			m[p[0]] = p[1]
		}
	}
	return m
}

// Handle: E2E sign <type> <fixture> <hash> <k1,k2,...> <flags>
func Handle(f []string) string {
	if f[0] == "graft" && len(f) == 4 && f[1] == "jar" {
		return graftJar(f[2], f[3])
	}
	if f[0] == "repeat" && len(f) == 7 {
		// repeat <n> <type> <fixture> <hash> <keys> <flags>: the same history n times, 8 at a time; schedule-dependent
		// failures (e.g. the transform goroutine racing with Apply, F28) need many runs to show
		n := int(hx.Atoi(f[1]))
		sub := append([]string{"sign"}, f[2:]...)
		res := make([]string, n)
		sem := make(chan struct{}, 8)
		var wg sync.WaitGroup
		for i := 0; i < n; i++ {
			wg.Add(1)
			sem <- struct{}{}
			go func(i int) {
				defer wg.Done()
				defer func() { <-sem }()
				res[i] = Handle(sub)
			}(i)
		}
		wg.Wait()
		for i, r := range res {
			if r != res[0] || !strings.HasPrefix(r, "ok") {
				if !strings.HasPrefix(r, "ok") {
					return fmt.Sprintf("FAIL run=%d/%d %s", i+1, n, r)
				}
				return fmt.Sprintf("FAIL run=%d/%d differs: %s", i+1, n, r)
			}
		}
		return res[0]
	}
	if f[0] != "sign" {
		return "bad-op"
	}
	typ, fx, hn := f[1], f[2], f[3]
	keys := strings.Split(f[4], ",")
	// flags: one set for all rounds, or one set per round separated by '|'
	flagSets := strings.Split(f[5], "|")
	flagsFor := func(i int) map[string]string {
		if i < len(flagSets) {
			return parseFlags(flagSets[i])
		}
		return parseFlags(flagSets[len(flagSets)-1])
	}
	mod := signers.ByName(typ)
	if mod == nil {
		return "bad-op"
	}
	var data []byte
	var err error
	if strings.HasPrefix(fx, "gen:") {
		data, err = genFixture(fx)
	} else {
		data, err = os.ReadFile(filepath.Join(fixtures, fx))
	}
	if err != nil {
		return "bad-op fixture"
	}
	dir, err := os.MkdirTemp("", "vh-e2e-")
	if err != nil {
		panic(err)
	}
	defer os.RemoveAll(dir)
	path := filepath.Join(dir, strings.ReplaceAll(filepath.Base(fx), ":", "_"))
	if err := os.WriteFile(path, data, 0o644); err != nil {
		panic(err)
	}
	isSigned := func() string {
		fh, err := os.Open(path)
		if err != nil {
			return "?"
		}
		defer fh.Close()
		b, err := mod.IsSigned(fh)
		if err != nil {
			return "e"
		}
		if b {
			return "1"
		}
		return "0"
	}
	before := isSigned()
	view0 := payloadView(typ, path)
	h := hashOf(hn)
	for i, k := range keys {
		cert := sg.Cert(k)
		// signinit.Init: a signer that needs a PGP certificate refuses a key without one
		if mod.CertTypes&signers.CertTypePgp != 0 && cert.PgpKey == nil {
			return "refused key"
		}
		out := path
		if i%2 == 1 { // alternate between in-place and new-path output
			out = filepath.Join(dir, fmt.Sprintf("out%d-%s", i, strings.ReplaceAll(filepath.Base(fx), ":", "_")))
		}
		content := ""
		if typ == "pgp" {
			// a detached signature goes to its own file and is verified against the content; signed messages
			// (inline, cleartext) replace nothing either: relic writes them to the output path
			fl := flagsFor(i)
			out = filepath.Join(dir, fmt.Sprintf("out%d.sig", i))
			if fl["inline"] != "true" && fl["clearsign"] != "true" && fl["pgp"] != "mini-clear" {
				content = path
			}
		}
		if err := sg.Sign(typ, path, out, cert, h, flagsFor(i)); err != nil {
			if i == 0 && strings.HasPrefix(err.Error(), "sign:") || strings.HasPrefix(err.Error(), "flags:") {
				// the input must be untouched by a refusal
				now, _ := os.ReadFile(path)
				if !bytes.Equal(now, data) {
					return "FAIL refusal-touched-input"
				}
				return "refused " + classifyRefusal(err)
			}
			return fmt.Sprintf("FAIL round=%d sign:%s", i+1, strings.ReplaceAll(err.Error(), " ", "_"))
		}
		if content == "" {
			path = out
		}
		sigs, err := sg.VerifyContent(typ, out, content, cert, false)
		if err != nil {
			return fmt.Sprintf("FAIL round=%d verify:%s", i+1, strings.ReplaceAll(err.Error(), " ", "_"))
		}
		if len(sigs) != 1 {
			return fmt.Sprintf("FAIL round=%d sigs=%d", i+1, len(sigs))
		}
		s := sigs[0]
		if s.Hash != h {
			return fmt.Sprintf("FAIL round=%d hash=%s", i+1, hashName(s.Hash))
		}
		if s.X509Signature != nil {
			if !s.X509Signature.Certificate.Equal(cert.Leaf) {
				return fmt.Sprintf("FAIL round=%d cert-mismatch", i+1)
			}
		} else if s.SignerPgp != nil {
			if cert.PgpKey == nil || s.SignerPgp.PrimaryKey.KeyId != cert.PgpKey.PrimaryKey.KeyId {
				return fmt.Sprintf("FAIL round=%d pgp-key-mismatch", i+1)
			}
		} else {
			return fmt.Sprintf("FAIL round=%d no-signer-identity", i+1)
		}
		if v := payloadView(typ, path); v != view0 {
			return fmt.Sprintf("FAIL round=%d payload:%s", i+1, v)
		}
	}
	return fmt.Sprintf("ok sigs=1 hash=%s cert=match payload=same issigned=%s>%s rounds=%d", hn, before, isSigned(), len(keys))
}

var _ = sort.Strings

/-
  Relic.Proofs.MagicTable — the decision list of `Detect` written out as nested conditionals over named tests, and
  which tests exclude one another.
-/
import Relic.Proofs.Magic
namespace Relic.Magic
open Relic

abbrev isRpm (bs : Bytes) : Bool := atPos bs pRpm 0
abbrev isDebHdr (bs : Bytes) : Bool := atPos bs pDeb 0
abbrev isArmor (bs : Bytes) : Bool := atPos bs pArmor 0
abbrev hasCtl (bs : Bytes) : Bool := containsIn bs pOidCtl 256
abbrev hasSignedData (bs : Bytes) : Bool := containsIn bs pOidSigned 256
abbrev isTar (bs : Bytes) : Bool := atPos bs pUstar 257
abbrev isMZ (bs : Bytes) : Bool := atPos bs pMZ 0
abbrev isCfb (bs : Bytes) : Bool := atPos bs pCfb 0
abbrev isCabHdr (bs : Bytes) : Bool := atPos bs pCab 0
abbrev hasAsm (bs : Bytes) : Bool := containsIn bs pAsm1 256 || containsIn bs pAsm2 256
abbrev isMachoLE (bs : Bytes) : Bool := atPos bs pMacho64 0 || atPos bs pMacho32 0
abbrev isMachoBE (bs : Bytes) : Bool := atPos bs pMacho64BE 0 || atPos bs pMacho32BE 0
/-- either byte order -/
abbrev isMacho (bs : Bytes) : Bool := isMachoLE bs || isMachoBE bs
abbrev isFat (bs : Bytes) : Bool := atPos bs pFat 0
abbrev isXar (bs : Bytes) : Bool := atPos bs pXar 0
abbrev isPgpBin (bs : Bytes) : Bool := atPos bs [0x89] 0 || atPos bs [0xc2] 0 || atPos bs [0xc4] 0

theorem detect_unfold (bs : Bytes) : detect bs =
    if isRpm bs then .rpm else if isDebHdr bs then .deb else if isArmor bs then .pgp else if hasCtl bs then .cat
    else if hasSignedData bs then .pkcs7 else if isTar bs then .unknown
    else if isMZ bs then (if mzProbe bs then .pecoff else .unknown)
    else if isCfb bs then .msi else if isCabHdr bs then .cab else if hasAsm bs then .appManifest
    else if isMacho bs then .machO else if isFat bs then .machOFat else if isXar bs then .xar
    else if isPgpBin bs then .pgp else .unknown := by
  simp [detect, detectWith, rules, Rule.fires, Test.eval, runAction, Bool.or_assoc]

/-- the list with the `MZ` probe over the original 4096-byte reader -/
theorem detectOrigFM1_unfold (bs : Bytes) : detectOrigFM1 bs =
    if isRpm bs then .rpm else if isDebHdr bs then .deb else if isArmor bs then .pgp else if hasCtl bs then .cat
    else if hasSignedData bs then .pkcs7 else if isTar bs then .unknown
    else if isMZ bs then (if mzProbeOrig bs then .pecoff else .unknown)
    else if isCfb bs then .msi else if isCabHdr bs then .cab else if hasAsm bs then .appManifest
    else if isMacho bs then .machO else if isFat bs then .machOFat else if isXar bs then .xar
    else if isPgpBin bs then .pgp else .unknown := by
  simp [detectOrigFM1, detectWith, rulesOrigFM1, Rule.fires, Test.eval, runAction, Bool.or_assoc]

/-- the list before the big-endian Mach-O magics were added -/
theorem detectOrigFM3_unfold (bs : Bytes) : detectOrigFM3 bs =
    if isRpm bs then .rpm else if isDebHdr bs then .deb else if isArmor bs then .pgp else if hasCtl bs then .cat
    else if hasSignedData bs then .pkcs7 else if isTar bs then .unknown
    else if isMZ bs then (if mzProbe bs then .pecoff else .unknown)
    else if isCfb bs then .msi else if isCabHdr bs then .cab else if hasAsm bs then .appManifest
    else if isMachoLE bs then .machO else if isFat bs then .machOFat else if isXar bs then .xar
    else if isPgpBin bs then .pgp else .unknown := by
  simp [detectOrigFM3, detectWith, rulesOrigFM3, Rule.fires, Test.eval, runAction, Bool.or_assoc]

/-- a prefix test whose pattern starts with byte `b` -/
def Test.prefixByte (b : UInt8) : Test → Bool
  | .at 0 (c :: _) => c == b
  | _ => false

/-! ### prefixes -/

theorem atPos0_iff (bs pat : Bytes) : atPos bs pat 0 = true ↔ pat.length ≤ bufSize ∧ bs.take pat.length = pat := by
  unfold atPos peekAny
  simp only [Nat.zero_add, List.drop_zero]
  by_cases hp : pat.length ≤ bufSize
  · rw [Nat.min_eq_left hp]
    constructor
    · intro h
      split at h
      · cases h
      · exact ⟨hp, by simpa using h⟩
    · rintro ⟨_, h⟩
      have hl : (List.take pat.length bs).length = pat.length := by rw [h]
      simp [h]
  · have hm : min pat.length bufSize = bufSize := Nat.min_eq_right (by omega)
    rw [hm]
    have : (List.take bufSize bs).length < pat.length := by
      simp only [List.length_take]; omega
    rw [if_pos this]
    simp [hp]

theorem atPos0_head {bs : Bytes} {b : UInt8} {p : Bytes} (h : atPos bs (b :: p) 0 = true) : bs.head? = some b := by
  have := ((atPos0_iff bs (b :: p)).mp h).2
  cases bs with
  | nil => simp at this
  | cons c cs =>
    simp only [List.length_cons, List.take_succ_cons, List.cons.injEq] at this
    simp [this.1]

/-- two prefix tests whose first bytes differ cannot both hold -/
theorem atPos0_excl {bs : Bytes} {a b : UInt8} {p q : Bytes} (h : atPos bs (a :: p) 0 = true) (hne : a ≠ b) :
    atPos bs (b :: q) 0 = false := by
  cases hq : atPos bs (b :: q) 0
  · rfl
  · have h1 := atPos0_head h
    have h2 := atPos0_head hq
    rw [h1] at h2
    injection h2 with h2
    exact absurd h2 hne

theorem atPos0_second {bs : Bytes} {a b : UInt8} {p : Bytes} (h : atPos bs (a :: b :: p) 0 = true) : bs.take 2 = [a, b] := by
  have := ((atPos0_iff bs (a :: b :: p)).mp h).2
  match bs, this with
  | c :: d :: cs, this =>
    simp only [List.length_cons, List.take_succ_cons, List.cons.injEq] at this
    simp [this.1, this.2.1]
  | [c], this => simp at this
  | [], this => simp at this

/-- `MZ…` and `MSCF…` share the first byte only -/
theorem mz_cab_excl {bs : Bytes} (h : isMZ bs = true) : isCabHdr bs = false := by
  cases hq : isCabHdr bs
  · rfl
  · have h1 := atPos0_second (bs := bs) (a := 77) (b := 90) (p := []) h
    have h2 := atPos0_second (bs := bs) (a := 77) (b := 83) (p := [67, 70]) hq
    rw [h1] at h2
    revert h2
    decide

theorem ite_eq_iff_b {α : Type} (c : Bool) (a b t : α) :
    (if c = true then a else b) = t ↔ (c = true ∧ a = t) ∨ (c = false ∧ b = t) := by cases c <;> simp

theorem leVal_take2_of_small (l : Bytes) (h : leVal (l.take 4) < 65536) : leVal (l.take 2) = leVal (l.take 4) := by
  match l with
  | [] => rfl
  | [_] => rfl
  | [_, _] => rfl
  | [a, b, c] =>
    have := a.toNat_lt; have := b.toNat_lt; have := c.toNat_lt
    simp [leVal] at h ⊢; omega
  | a :: b :: c :: d :: _ =>
    have := a.toNat_lt; have := b.toNat_lt; have := c.toNat_lt; have := d.toNat_lt
    simp [leVal] at h ⊢; omega

theorem leVal_take2_mod (l : Bytes) (h : 4 ≤ l.length) : leVal (l.take 2) = leVal (l.take 4) % 65536 := by
  match l, h with
  | a :: b :: c :: d :: _, _ =>
    have := a.toNat_lt; have := b.toNat_lt; have := c.toNat_lt; have := d.toNat_lt
    simp [leVal]; omega

/-- four bytes are determined by their big-endian value -/
theorem be4_eq (l : Bytes) (h4 : l.length = 4) : l = beBytes 4 (beVal l) := by
  match l, h4 with
  | [a, b, c, d], _ =>
    have := a.toNat_lt; have := b.toNat_lt; have := c.toNat_lt; have := d.toNat_lt
    simp [beVal, beBytes]
    have e1 : (a.toNat * 16777216 + (b.toNat * 65536 + (c.toNat * 256 + d.toNat))) / 16777216 % 256 = a.toNat := by omega
    have e2 : (a.toNat * 16777216 + (b.toNat * 65536 + (c.toNat * 256 + d.toNat))) / 65536 % 256 = b.toNat := by omega
    have e3 : (a.toNat * 16777216 + (b.toNat * 65536 + (c.toNat * 256 + d.toNat))) / 256 % 256 = c.toNat := by omega
    have e4 : (a.toNat * 16777216 + (b.toNat * 65536 + (c.toNat * 256 + d.toNat))) % 256 = d.toNat := by omega
    rw [e1, e2, e3, e4]
    simp

end Relic.Magic

#!/bin/bash
# seedtest.sh <mutdir e.g. /tmp/mut/C12a/out/1> <prop> [tier]: confirm the demo in a scratch worktree, then run our check on /repo with the patch applied
set -u
m="$1"; prop="$2"; tier="${3:-quick}"
export GOFLAGS=-mod=mod GOPROXY=off GOSUMDB=off GOTOOLCHAIN=local
wt=$(dirname $(dirname "$m"))/repo
echo "== demo files: $(ls $m/demo)"
# place demo test files next to the package they name
for f in $m/demo/*_test.go; do
  [ -f "$f" ] || continue
  pkg=$(grep -m1 '^package ' "$f" | awk '{print $2}')
  dest=$(grep -o 'lib/[a-z0-9/]*\|server\|token/[a-z0-9/]*\|config\|signers/[a-z0-9/]*\|cmdline/[a-z0-9/]*\|internal/[a-z0-9/]*' $m/notes.md | head -1)
  echo "   demo $f (package $pkg) -> notes mention dir: $dest"
done
echo "== check on /repo with patch"
git -C /repo apply --check "$m/patch.diff" || { echo "PATCH DOES NOT APPLY to /repo HEAD"; exit 2; }
git -C /repo apply "$m/patch.diff"
(cd /verif && VERIF_TIER=$tier timeout 1800 ./check $prop --tier $tier 2>&1 | tail -6 | cut -c1-300)
git -C /repo checkout -- .
git -C /repo status --short | head -3

/-
  Relic.Proofs.ZipAssemble — an output assembled as `members ++ central directory ++ end records`, the
  directory being what `WriteDirectory` serialises for entries that stand for the members placed back to
  back from offset 0, is parsed by `Relic.Spec.Zip` to exactly those members (`parse_assembled`).
-/
import Relic.Proofs.ZipMembers
namespace Relic.Zip
open Relic Relic.SpecZip

/-- a member to be found in an output: its central record and its bytes -/
structure PM where
  e : Entry
  x : Bytes

/-- the members lie back to back in `B` from `pos` to `stop`, each a well-formed member for its record -/
def PMsSeg (B : Bytes) : Nat → List PM → Nat → Prop
  | pos, [], stop => pos = stop
  | pos, p :: r, stop => p.e.hoff = pos ∧ (B.drop pos).take p.x.length = p.x ∧
      MemberRec p.x p.e.name p.e.flags p.e.crc p.e.csize p.e.usize ∧ EntryOK p.e ∧ PMsSeg B (pos + p.x.length) r stop

/-- … up to the end of `B` -/
def PMsAt (B : Bytes) (pos : Nat) (ps : List PM) : Prop := PMsSeg B pos ps B.length

theorem PMsSeg_append {B : Bytes} : ∀ (ps qs : List PM) (p q r : Nat), PMsSeg B p ps q → PMsSeg B q qs r →
    PMsSeg B p (ps ++ qs) r := by
  intro ps
  induction ps with
  | nil => intro qs p q r h1 h2; simp only [PMsSeg] at h1; subst h1; exact h2
  | cons a ps ih =>
    intro qs p q r h1 h2
    exact ⟨h1.1, h1.2.1, h1.2.2.1, h1.2.2.2.1, ih qs _ q r h1.2.2.2.2 h2⟩

/-- what the specification returns for a placed member -/
def PlacedM (out : Bytes) (cd : Nat) (p : PM) (m : SpecZip.Member) : Prop :=
  memberOf out cd p.e = some m ∧ m.entry = p.e ∧ m.dataOff = p.e.hoff + 30 + fld p.x 26 2 + fld p.x 28 2 ∧
  (out.drop m.dataOff).take p.e.csize = (p.x.drop (30 + fld p.x 26 2 + fld p.x 28 2)).take p.e.csize ∧
  (p.e.flags % 16 / 8 ≠ 1 → m.descWidths = [] ∧ m.dataOff + p.e.csize = p.e.hoff + p.x.length) ∧
  (p.e.flags % 16 / 8 = 1 → ∃ w, w ∈ m.descWidths ∧ (w = 16 ∨ w = 24) ∧ m.dataOff + p.e.csize + w = p.e.hoff + p.x.length ∧
    m.descWidths = descWidthsAt out (m.dataOff + p.e.csize) cd p.e)

def MsFor (out : Bytes) (cd : Nat) : List PM → List SpecZip.Member → Prop
  | [], [] => True
  | p :: ps, m :: ms => PlacedM out cd p m ∧ MsFor out cd ps ms
  | _, _ => False

theorem PMsAt_le {B : Bytes} : ∀ (ps : List PM) (pos : Nat), PMsAt B pos ps → pos ≤ B.length := by
  intro ps
  induction ps with
  | nil => intro pos h; simp [PMsAt, PMsSeg] at h; omega
  | cons p r ih => intro pos h; have := ih _ h.2.2.2.2; omega

theorem take_drop_append (B t : Bytes) (pos n : Nat) (h : pos + n ≤ B.length) :
    ((B ++ t).drop pos).take n = (B.drop pos).take n := by
  rw [List.drop_append_of_le_length (by omega), List.take_append_of_le_length (by rw [List.length_drop]; omega)]

theorem ordered_mono : ∀ (ms : List SpecZip.Member) (p q : Nat), q ≤ p → ordered p ms = true → ordered q ms = true := by
  intro ms
  cases ms with
  | nil => intro _ _ _ _; rfl
  | cons m ms =>
    intro p q hq h
    simp only [ordered, Bool.and_eq_true, decide_eq_true_eq] at h ⊢
    exact ⟨by omega, h.2⟩

/-- **the members are found.** -/
theorem members_placed {B t : Bytes} : ∀ (ps : List PM) (pos : Nat), PMsAt B pos ps →
    ∃ ms, (ps.map (·.e)).mapM (memberOf (B ++ t) B.length) = some ms ∧ ordered pos ms = true ∧
      MsFor (B ++ t) B.length ps ms := by
  intro ps
  induction ps with
  | nil => intro pos _; exact ⟨[], by simp, by simp [ordered], trivial⟩
  | cons p r ih =>
    intro pos h
    obtain ⟨hoff, hx, hrec, hok, hrest⟩ := h
    have hle := PMsAt_le r _ hrest
    obtain ⟨ms, hms, hord, hfor⟩ := ih _ hrest
    have hx' : ((B ++ t).drop p.e.hoff).take p.x.length = p.x := by
      rw [hoff, take_drop_append B t pos _ hle]; exact hx
    obtain ⟨m, hm, hme, hdo, hnd, hd⟩ := memberOf_placed (out := B ++ t) (cd := B.length) hrec hok hx' (by omega) (by simp)
    have hlen := hrec.len
    refine ⟨m :: ms, ?_, ?_, ⟨⟨hm, hme, hdo, ?_, hnd, hd⟩, hfor⟩⟩
    · simp only [List.map_cons, List.mapM_cons, Option.bind_eq_bind, hm, Option.bind_some, hms]; rfl
    · simp only [ordered, Bool.and_eq_true, decide_eq_true_eq, hme]
      refine ⟨by omega, ?_⟩
      by_cases c : p.e.flags % 16 / 8 = 1
      · obtain ⟨w, hw, _, hend, _⟩ := hd c
        have hmin := minW_le hw
        exact ordered_mono ms _ _ (by omega) hord
      · obtain ⟨hws, hend⟩ := hnd c
        rw [hws]
        simp only [List.foldl_nil, List.headD_nil, Nat.add_zero]
        rw [hend, hoff]; exact hord
    · rw [hdo]
      have hx'' : ((B ++ t).drop p.e.hoff).take p.x.length = p.x.take p.x.length := by rw [List.take_length]; exact hx'
      have := seg_eq_of_take hx'' (30 + fld p.x 26 2 + fld p.x 28 2) p.e.csize (by omega)
      rw [List.drop_drop] at this
      rw [← this]; congr 2; omega

theorem MsFor_entries {out : Bytes} {cd : Nat} : ∀ (ps : List PM) (ms : List SpecZip.Member), MsFor out cd ps ms →
    ms.map (·.entry) = ps.map (·.e) := by
  intro ps
  induction ps with
  | nil => intro ms h; cases ms <;> simp_all [MsFor]
  | cons p r ih =>
    intro ms h
    cases ms with
    | nil => simp [MsFor] at h
    | cons m ms => simp only [MsFor] at h; simp [h.1.2.1, ih ms h.2]

/-- **an archive assembled from placed members and the directory `WriteDirectory` serialises parses.**
    `B`: the members back to back from offset 0; `fps`: each directory entry with the member it stands for
    (the record `GetDirectoryHeader` emits is decoded as the member's central record); the directory is
    written where `B` ends.  Then `B ++ cd ++ eod` is a valid archive whose members are exactly those, in
    order, each found where it was placed. -/
theorem parse_assembled (B : Bytes) (fps : List (File × PM)) (force : Bool) (fs : List File) (cd eod : Bytes)
    (hfs : fs = fps.map (·.1)) (hcd : cd = (headersOf fs).1)
    (heod : eod = endRecords fs.length cd.length B.length force (maxReader fs))
    (hem : ∀ q ∈ fps, Emits q.1 q.2.e) (hpl : PMsAt B 0 (fps.map (·.2)))
    (hbound : B.length + cd.length < 2 ^ 64) :
    ∃ a, parse (B ++ cd ++ eod) = some a ∧ MsFor (B ++ cd ++ eod) B.length (fps.map (·.2)) a.members ∧
      a.ends.cdOff = B.length ∧ a.ends.comment = [] ∧ a.ends.count = fps.length ∧ a.ends.first = B.length + cd.length ∧
      a.ends.zip64 = needZip64 fs.length cd.length B.length force (maxReader fs) := by
  have hlen : fs.length = fps.length := by rw [hfs, List.length_map]
  have hent := entries_headersOf (fps.map (fun q => (q.1, q.2.e))) B eod (by
    intro p hp
    obtain ⟨q, hq, rfl⟩ := List.mem_map.mp hp
    exact hem q hq)
  simp only [List.map_map, List.length_map] at hent
  have hfs' : (fps.map ((fun x => x.1) ∘ fun q => (q.1, q.2.e))) = fs := by
    rw [hfs]; apply List.map_congr_left; intro q _; rfl
  have hes : (fps.map ((fun x => x.2) ∘ fun q => (q.1, q.2.e))) = (fps.map (·.2)).map (·.e) := by
    rw [List.map_map]; apply List.map_congr_left; intro q _; rfl
  rw [hfs', hes, ← hcd] at hent
  have hcount := (entries_count_le _ _ _ _ _ hent).1
  have hends := ends_endRecords (B ++ cd) fs.length cd.length B.length force (maxReader fs)
    (by simp [List.length_append]) (by omega) (by simp only [List.length_append]; exact hbound)
  rw [← heod] at hends
  obtain ⟨ms, hms, hord, hfor⟩ := members_placed (B := B) (t := cd ++ eod) _ 0 hpl
  rw [← List.append_assoc] at hms hfor
  refine ⟨⟨⟨(B ++ cd).length + (if needZip64 fs.length cd.length B.length force (maxReader fs) then 76 else 0),
      (B ++ cd).length, needZip64 fs.length cd.length B.length force (maxReader fs), fs.length, cd.length, B.length, []⟩, ms⟩,
    ?_, hfor, rfl, rfl, hlen, by simp [List.length_append], rfl⟩
  unfold parse
  simp only [Option.bind_eq_bind]
  rw [hends]
  simp only [Option.bind_some, List.length_append]
  rw [if_neg (by simp), hlen, hent]
  simp only [Option.bind_some]
  rw [hms]
  simp only [Option.bind_some, hord, Bool.not_true, Bool.false_eq_true, if_false]

/-! ### the assembled archive is again `relicReadable` -/


/-- in a strictly ascending list, `find?` returns the smallest element that satisfies the predicate -/
theorem find?_sorted {p : Nat → Bool} : ∀ (l : List Nat) (w : Nat), l.Pairwise (· < ·) → w ∈ l → p w = true →
    (∀ w' ∈ l, w' < w → p w' = false) → l.find? p = some w := by
  intro l
  induction l with
  | nil => intro w _ h _ _; cases h
  | cons a t ih =>
    intro w hs hw hp hlt
    rw [List.pairwise_cons] at hs
    rcases List.mem_cons.mp hw with rfl | hw
    · simp [List.find?_cons, hp]
    · have ha : a < w := hs.1 w hw
      have hpa : p a = false := hlt a (List.mem_cons_self ..) ha
      simp only [List.find?_cons, hpa]
      exact ih w hs.2 hw hp (fun w' h1 h2 => hlt w' (List.mem_cons_of_mem _ h1) h2)

theorem filterMap_sublist_map {α β} (c : α → Bool) (g : α → β) : ∀ l : List α,
    (l.filterMap fun x => if c x then some (g x) else none).Sublist (l.map g) := by
  intro l
  induction l with
  | nil => exact List.Sublist.slnil
  | cons a t ih =>
    simp only [List.filterMap_cons, List.map_cons]
    cases c a
    · simp only [Bool.false_eq_true, if_false]; exact ih.cons _
    · simp only [if_true]; exact ih.cons₂ _

/-- the descriptor widths found are listed in ascending order (12, 16, 20, 24) -/
theorem descWidthsAt_sorted (z : Bytes) (at_ lim : Nat) (e : Entry) : (descWidthsAt z at_ lim e).Pairwise (· < ·) := by
  have hsub : (descWidthsAt z at_ lim e).Sublist [12, 16, 20, 24] := by
    unfold descWidthsAt
    have := filterMap_sublist_map
      (fun (p : Bool × Bool) =>
        decide ((p.2 = true ∨ (e.csize < 2 ^ 32 ∧ e.usize < 2 ^ 32)) ∧ at_ + (descEnc p.1 p.2 e.crc e.csize e.usize).length ≤ lim ∧
          bytesAt z at_ (descEnc p.1 p.2 e.crc e.csize e.usize).length = some (descEnc p.1 p.2 e.crc e.csize e.usize)))
      (fun (p : Bool × Bool) => (descEnc p.1 p.2 e.crc e.csize e.usize).length)
      [(false, false), (true, false), (false, true), (true, true)]
    simp only [List.map_cons, List.map_nil, descEnc_length] at this
    simp only [decide_eq_true_eq] at this
    exact this
  exact List.Pairwise.sublist hsub (by decide)

/-- members placed back to back: every member lies inside `[pos, stop]`, ends where another one starts or at
    `stop`, and no member starts strictly inside another one -/
theorem PMsSeg_sep {B : Bytes} : ∀ (ps : List PM) (pos stop : Nat), PMsSeg B pos ps stop →
    ∀ p ∈ ps, pos ≤ p.e.hoff ∧ p.e.hoff + p.x.length ≤ stop ∧
      (p.e.hoff + p.x.length = stop ∨ ∃ q ∈ ps, q.e.hoff = p.e.hoff + p.x.length) ∧
      ∀ q ∈ ps, q.e.hoff ≤ p.e.hoff ∨ p.e.hoff + p.x.length ≤ q.e.hoff := by
  intro ps
  induction ps with
  | nil => intro _ _ _ p hp; cases hp
  | cons a r ih =>
    intro pos stop h p hp
    obtain ⟨hoff, _, _, _, hrest⟩ := h
    have hi := ih _ _ hrest
    have hle : pos + a.x.length ≤ stop := by
      cases r with
      | nil => simp only [PMsSeg] at hrest; omega
      | cons b r' => have := (hi b (List.mem_cons_self ..)).2.1; have := (hi b (List.mem_cons_self ..)).1; omega
    rcases List.mem_cons.mp hp with rfl | hp
    · refine ⟨by omega, by omega, ?_, ?_⟩
      · cases r with
        | nil => simp only [PMsSeg] at hrest; left; omega
        | cons b r' => right; exact ⟨b, List.mem_cons_of_mem _ (List.mem_cons_self ..), by rw [hrest.1, hoff]⟩
      · intro q hq
        rcases List.mem_cons.mp hq with rfl | hq
        · left; omega
        · right; have := (hi q hq).1; omega
    · obtain ⟨h1, h2, h3, h4⟩ := hi p hp
      refine ⟨by omega, h2, ?_, ?_⟩
      · rcases h3 with h3 | ⟨q, hq, h3⟩
        · left; exact h3
        · right; exact ⟨q, List.mem_cons_of_mem _ hq, h3⟩
      · intro q hq
        rcases List.mem_cons.mp hq with rfl | hq
        · left; omega
        · exact h4 q hq

theorem MsFor_mem {out : Bytes} {cd : Nat} : ∀ (ps : List PM) (ms : List SpecZip.Member), MsFor out cd ps ms →
    ∀ m ∈ ms, ∃ p ∈ ps, PlacedM out cd p m := by
  intro ps
  induction ps with
  | nil => intro ms h m hm; cases ms with
    | nil => cases hm
    | cons _ _ => simp [MsFor] at h
  | cons p r ih =>
    intro ms h m hm
    cases ms with
    | nil => cases hm
    | cons m0 ms =>
      simp only [MsFor] at h
      rcases List.mem_cons.mp hm with rfl | hm
      · exact ⟨p, List.mem_cons_self .., h.1⟩
      · obtain ⟨q, hq, hpl⟩ := ih ms h.2 m hm
        exact ⟨q, List.mem_cons_of_mem _ hq, hpl⟩

/-- the width clause of `relicReadable`, on a placed member: the descriptor that ends the member is one
    `readDataDesc` recognises -/
def PMWidthOK (p : PM) : Prop :=
  p.e.flags % 16 / 8 = 1 →
    (p.x.length ≠ 30 + fld p.x 26 2 + fld p.x 28 2 + p.e.csize + 16 ∨ p.e.usize ≠ 0xffffffff) ∧
    (p.x.length ≠ 30 + fld p.x 26 2 + fld p.x 28 2 + p.e.csize + 24 ∨ p.e.usize ≥ 0xffffffff ∨
      p.e.csize / 2 ^ 32 % 2 ^ 32 ≠ p.e.usize % 2 ^ 32)

/-- **the assembled archive is again in the class `relicReadable`** (clause by clause), when every entry's ZIP64
    markers are fixed-layout and every member's descriptor is one `readDataDesc` recognises -/
theorem assembled_readable {B : Bytes} {ps : List PM} {out : Bytes} {a : Archive} (hpl : PMsAt B 0 ps)
    (hfor : MsFor out B.length ps a.members) (hcd : a.ends.cdOff = B.length) (hcom : a.ends.comment = [])
    (hfix : ∀ p ∈ ps, fixedNeed p.e.need = true) (hwok : ∀ p ∈ ps, PMWidthOK p) (h42 : 42 ≤ out.length) :
    noComment a out = true ∧ descSigned a = true ∧ zip64Fixed a = true ∧ (a.members.all (widthOK a)) = true := by
  have hents := MsFor_entries ps a.members hfor
  refine ⟨by simp [noComment, hcom, h42], ?_, ?_, ?_⟩
  · simp only [descSigned, List.all_eq_true]
    intro m hm
    obtain ⟨p, hp, _, he, _, _, hnd, hd⟩ := MsFor_mem ps a.members hfor m hm
    by_cases c : p.e.flags % 16 / 8 = 1
    · obtain ⟨w, hw, hw2, _, _⟩ := hd c
      rcases hw2 with rfl | rfl
      · simp; exact Or.inl (Or.inr hw)
      · simp; exact Or.inr hw
    · simp [(hnd c).1]
  · simp only [zip64Fixed, List.all_eq_true]
    intro m hm
    obtain ⟨p, hp, _, he, _⟩ := MsFor_mem ps a.members hfor m hm
    have := hfix p hp
    rw [← he] at this
    simpa [fixedNeed] using this
  · simp only [List.all_eq_true]
    intro m hm
    obtain ⟨p, hp, hmo, he, hdo, _, hnd, hd⟩ := MsFor_mem ps a.members hfor m hm
    unfold widthOK
    by_cases c : p.e.flags % 16 / 8 = 1
    · obtain ⟨w, hw, hw2, hend, hws⟩ := hd c
      obtain ⟨s1, s2, s3, s4⟩ := PMsSeg_sep ps 0 B.length hpl p hp
      -- membership in `nexts`
      have hnx : ∀ x, (a.members.map (·.entry.hoff) ++ [a.ends.cdOff]).contains x = true ↔
          (x = B.length ∨ ∃ q ∈ ps, q.e.hoff = x) := by
        intro x
        rw [List.contains_iff_mem, List.mem_append, hcd]
        have : a.members.map (·.entry.hoff) = ps.map (·.e.hoff) := by
          have := congrArg (List.map (·.hoff)) hents
          simpa [List.map_map, Function.comp_def] using this
        rw [this]
        constructor
        · rintro (h | h)
          · obtain ⟨q, hq, rfl⟩ := List.mem_map.mp h; exact Or.inr ⟨q, hq, rfl⟩
          · left; simpa using h
        · rintro (h | ⟨q, hq, rfl⟩)
          · right; simp [h]
          · left; exact List.mem_map.mpr ⟨q, hq, rfl⟩
      have htw : trueWidth a m = some w := by
        unfold trueWidth
        rw [he]
        apply find?_sorted _ w (by rw [hws]; exact descWidthsAt_sorted _ _ _ _) hw
        · rw [hnx]
          rcases s3 with h | ⟨q, hq, h⟩
          · left; omega
          · right; exact ⟨q, hq, by omega⟩
        · intro w' hw' hlt
          cases hc : (a.members.map (·.entry.hoff) ++ [a.ends.cdOff]).contains (m.dataOff + p.e.csize + w') with
          | false => rfl
          | true =>
            exfalso
            rw [hnx] at hc
            rcases hc with h | ⟨q, hq, h⟩
            · omega
            · rcases s4 q hq with h' | h'
              · omega
              · omega
      rw [htw]
      have hemp : m.descWidths.isEmpty = false := by
        cases hh : m.descWidths with
        | nil => rw [hh] at hw; cases hw
        | cons _ _ => rfl
      rw [hemp, Bool.false_or, he]
      obtain ⟨k1, k2⟩ := hwok p hp c
      have hxl : p.x.length = 30 + fld p.x 26 2 + fld p.x 28 2 + p.e.csize + w := by omega
      simp only [Bool.and_eq_true, Bool.or_eq_true, bne_iff_ne, ne_eq, decide_eq_true_eq]
      refine ⟨?_, ?_⟩
      · rcases k1 with h | h
        · left; intro hw16; apply h; rw [hxl, hw16]
        · right; exact h
      · rcases k2 with h | h | h
        · left; left; intro hw24; apply h; rw [hxl, hw24]
        · left; right; exact h
        · right; exact h
    · simp [(hnd c).1]

end Relic.Zip

// Package c20: generator and implementation runner for property C20
// (server/view_health.go: healthCheck, Healthy, serveHealth, healthCheckLoop).
//
// Ops (see lean/Relic/Driver/C20.lean):
//
//	C20 hist <N> <intervalSecs> <ntok> <k> <outcomes>,<age>,<d> …
//	C20 loop <k> <intervalSecs>
//
// The health counters are package-level variables of relic's server package, so ops are
// executed strictly one after another within a process.
package c20

import (
	"bufio"
	"context"
	"crypto"
	"crypto/x509"
	"errors"
	"fmt"
	"net/http/httptest"
	"strconv"
	"strings"
	"sync"
	"sync/atomic"
	"syscall"
	"time"

	"github.com/rs/zerolog"

	"github.com/sassoftware/relic/v8/config"
	"github.com/sassoftware/relic/v8/lib/passprompt"
	"github.com/sassoftware/relic/v8/server"
	"github.com/sassoftware/relic/v8/token"

	"verifharness/hx"
)

const fakeType = "veriffake-c20"

var (
	scriptMu sync.Mutex
	script   = map[string]byte{} // token name -> 'o' | 'e' | 't'
	pings    int64
)

// fakeToken: Ping does what the script says for the current step.
type fakeToken struct {
	name string
	cfg  *config.TokenConfig
}

func (t *fakeToken) Ping(ctx context.Context) error {
	atomic.AddInt64(&pings, 1)
	scriptMu.Lock()
	b := script[t.name]
	scriptMu.Unlock()
	switch b {
	case 'e':
		return errors.New("scripted failure")
	case 't':
		<-ctx.Done() // block until pingOne's timeout
		return ctx.Err()
	case 's': // slow but successful
		scriptMu.Lock()
		d := pingDelay
		scriptMu.Unlock()
		select {
		case <-time.After(d):
		case <-ctx.Done():
			return ctx.Err()
		}
	}
	return nil
}

var pingDelay time.Duration

// runSlow: one check round made of ntok successful pings of pingms each (sequential: the round takes ntok*pingms), then
// GET /health waitms after the round COMPLETED.  The staleness rule counts from the completion of the last check.
func runSlow(f []string) string {
	if len(f) != 4 {
		return "bad-op"
	}
	ntok, pingms, waitms, iv := int(hx.Atoi(f[0])), int(hx.Atoi(f[1])), int(hx.Atoi(f[2])), int(hx.Atoi(f[3]))
	cfg, err := mkConfig(3, iv, ntok)
	if err != nil {
		return "err config"
	}
	s, err := server.VerifNew(cfg)
	if err != nil {
		return "err new"
	}
	defer s.Close()
	scriptMu.Lock()
	for name := range script {
		delete(script, name)
	}
	for i := 0; i < ntok; i++ {
		script[tokName(i)] = 's'
	}
	pingDelay = time.Duration(pingms) * time.Millisecond
	scriptMu.Unlock()
	t0 := time.Now()
	ok := s.VerifHealthCheck()
	took := time.Since(t0)
	if !ok || took < time.Duration(ntok*pingms)*time.Millisecond || took > time.Duration(ntok*pingms+400)*time.Millisecond {
		return fmt.Sprintf("err round ok=%t took=%dms", ok, took.Milliseconds())
	}
	time.Sleep(time.Duration(waitms) * time.Millisecond)
	rec := httptest.NewRecorder()
	s.Handler().ServeHTTP(rec, httptest.NewRequest("GET", "/health", nil))
	return fmt.Sprintf("ok %d", rec.Code)
}
func (t *fakeToken) Close() error                { return nil }
func (t *fakeToken) Config() *config.TokenConfig { return t.cfg }
func (t *fakeToken) GetKey(ctx context.Context, keyName string) (token.Key, error) {
	return nil, token.NotImplementedError{Op: "get-key", Type: fakeType}
}
func (t *fakeToken) Import(keyName string, privKey crypto.PrivateKey) (token.Key, error) {
	return nil, token.NotImplementedError{Op: "import-key", Type: fakeType}
}
func (t *fakeToken) ImportCertificate(cert *x509.Certificate, labelBase string) error {
	return token.NotImplementedError{Op: "import-certificate", Type: fakeType}
}
func (t *fakeToken) Generate(keyName string, keyType token.KeyType, bits uint) (token.Key, error) {
	return nil, token.NotImplementedError{Op: "generate-key", Type: fakeType}
}
func (t *fakeToken) ListKeys(opts token.ListOptions) error {
	return token.NotImplementedError{Op: "list-keys", Type: fakeType}
}

func register() {
	token.Openers[fakeType] = func(cfg *config.Config, name string, _ passprompt.PasswordGetter) (token.Token, error) {
		tc, err := cfg.GetToken(name)
		if err != nil {
			return nil, err
		}
		return &fakeToken{name: name, cfg: tc}, nil
	}
}

func tokName(i int) string { return fmt.Sprintf("tok%d", i) }

// mkConfig: ntok fake tokens, each referenced by one key that has a role (so that
// ListServedTokens serves it), no clients; raw TokenCheck* values go through config.Normalize.
func mkConfig(n, interval, ntok int) (*config.Config, error) {
	cfg := &config.Config{
		Tokens: map[string]*config.TokenConfig{},
		Keys:   map[string]*config.KeyConfig{},
		Server: &config.ServerConfig{TokenCheckFailures: n, TokenCheckInterval: interval, TokenCheckTimeout: 1},
	}
	for i := 0; i < ntok; i++ {
		cfg.Tokens[tokName(i)] = &config.TokenConfig{Type: fakeType}
		cfg.Keys[fmt.Sprintf("key%d", i)] = &config.KeyConfig{Token: tokName(i), Roles: []string{"verif"}}
	}
	// a token without any key with roles is not served and must never be pinged
	cfg.Tokens["unserved"] = &config.TokenConfig{Type: fakeType}
	cfg.Keys["norole"] = &config.KeyConfig{Token: "unserved"}
	if err := cfg.Normalize(""); err != nil {
		return nil, err
	}
	return cfg, nil
}

// ---------------------------------------------------------------- implementation

func runHist(f []string) string {
	if len(f) < 4 {
		return "bad-op"
	}
	n, iv, ntok, k := int(hx.Atoi(f[0])), int(hx.Atoi(f[1])), int(hx.Atoi(f[2])), int(hx.Atoi(f[3]))
	steps := f[4:]
	if len(steps) != k {
		return "bad-op"
	}
	cfg, err := mkConfig(n, iv, ntok)
	if err != nil {
		return "err config"
	}
	s, err := server.VerifNew(cfg)
	if err != nil {
		return "err new"
	}
	defer s.Close()
	if len(s.VerifTokens()) != ntok {
		return fmt.Sprintf("err served-tokens=%d", len(s.VerifTokens()))
	}
	h := s.Handler()
	var sb strings.Builder
	sb.WriteString("ok")
	for _, st := range steps {
		p := strings.Split(st, ",")
		if len(p) != 3 || (p[0] != "-" && len(p[0]) != ntok) || (p[0] == "-" && ntok != 0) {
			return "bad-op"
		}
		scriptMu.Lock()
		for name := range script {
			delete(script, name)
		}
		script["unserved"] = 'e'
		for i := 0; i < ntok; i++ {
			script[tokName(i)] = p[0][i]
		}
		scriptMu.Unlock()
		cfg.Server.Disabled = p[2] == "1"
		s.VerifHealthCheck()
		if p[1] != "-" {
			age := time.Duration(hx.Atoi(p[1])) * time.Millisecond
			server.VerifSetHealthLastPing(time.Now().Add(-age))
		}
		rec := httptest.NewRecorder()
		h.ServeHTTP(rec, httptest.NewRequest("GET", "/health", nil))
		status, _ := server.VerifHealthState()
		code := strconv.Itoa(rec.Code)
		if rec.Code == 200 && rec.Body.String() != "OK\r\n" {
			code = "200-bad-body"
		}
		fmt.Fprintf(&sb, " %s:%d", code, status)
	}
	return sb.String()
}

func cpuTime() time.Duration {
	var ru syscall.Rusage
	if err := syscall.Getrusage(syscall.RUSAGE_SELF, &ru); err != nil {
		return 0
	}
	return time.Duration(ru.Utime.Nano() + ru.Stime.Nano())
}

// runLoop: the real healthCheckLoop in a goroutine; after k completed checks Close() the server and
// require the goroutine to finish within one second.
func runLoop(f []string) string {
	if len(f) != 2 {
		return "bad-op"
	}
	k, iv := int(hx.Atoi(f[0])), int(hx.Atoi(f[1]))
	cfg, err := mkConfig(3, iv, 1)
	if err != nil {
		return "err config"
	}
	s, err := server.VerifNew(cfg)
	if err != nil {
		return "err new"
	}
	scriptMu.Lock()
	script[tokName(0)] = 'o'
	scriptMu.Unlock()
	done := make(chan struct{})
	p0 := atomic.LoadInt64(&pings)
	go s.VerifHealthLoop(done)
	if k > 0 {
		deadline := time.Now().Add(time.Duration(k*iv+5) * time.Second)
		for atomic.LoadInt64(&pings)-p0 < int64(k) {
			if time.Now().After(deadline) {
				s.Close()
				return "err no-check-ran"
			}
			time.Sleep(time.Millisecond)
		}
		time.Sleep(50 * time.Millisecond) // let healthCheck finish and the timer be re-armed
	}
	atClose := atomic.LoadInt64(&pings)
	cpu0 := cpuTime()
	s.Close()
	select {
	case <-done:
		if k == 0 {
			return "exited" // timer(0) and Closed are both ready: whether one check still runs is the runtime's choice
		}
		time.Sleep(50 * time.Millisecond)
		return fmt.Sprintf("exited extra=%d", atomic.LoadInt64(&pings)-atClose)
	case <-time.After(time.Second):
		if cpuTime()-cpu0 > 400*time.Millisecond {
			return "spinning busy" // the goroutine is leaked and keeps a core busy
		}
		return "spinning idle"
	}
}

// runLoopMid: the real healthCheckLoop with a slow token (ping 400 ms); the server is closed while the first check is in
// flight.  The loop must end and no further check may start afterwards (watched for two intervals and a half).
func runLoopMid(f []string) string {
	if len(f) != 1 {
		return "bad-op"
	}
	iv := int(hx.Atoi(f[0]))
	cfg, err := mkConfig(3, iv, 1)
	if err != nil {
		return "err config"
	}
	s, err := server.VerifNew(cfg)
	if err != nil {
		return "err new"
	}
	scriptMu.Lock()
	script[tokName(0)] = 's'
	pingDelay = 400 * time.Millisecond
	scriptMu.Unlock()
	done := make(chan struct{})
	p0 := atomic.LoadInt64(&pings)
	go s.VerifHealthLoop(done)
	deadline := time.Now().Add(5 * time.Second)
	for atomic.LoadInt64(&pings)-p0 < 1 {
		if time.Now().After(deadline) {
			s.Close()
			return "err no-check-ran"
		}
		time.Sleep(time.Millisecond)
	}
	time.Sleep(100 * time.Millisecond) // inside the ping
	atClose := atomic.LoadInt64(&pings)
	s.Close()
	select {
	case <-done:
	case <-time.After(2 * time.Second):
		return "spinning idle"
	}
	time.Sleep(time.Duration(iv)*2500*time.Millisecond + 500*time.Millisecond)
	return fmt.Sprintf("exited extra=%d", atomic.LoadInt64(&pings)-atClose)
}

// runIdle: the real loop on a server with ntok served tokens (0 = none), interval iv s, left alone for waitms; then GET /health.
// Nothing is disabled, nothing fails: the answer must be 200 however long the server has been up (a check round over zero
// tokens is a completed round).
func runIdle(f []string) string {
	if len(f) != 3 {
		return "bad-op"
	}
	ntok, iv, waitms := int(hx.Atoi(f[0])), int(hx.Atoi(f[1])), int(hx.Atoi(f[2]))
	cfg, err := mkConfig(3, iv, ntok)
	if err != nil {
		return "err config"
	}
	s, err := server.VerifNew(cfg)
	if err != nil {
		return "err new"
	}
	scriptMu.Lock()
	for name := range script {
		delete(script, name)
	}
	for i := 0; i < ntok; i++ {
		script[tokName(i)] = 'o'
	}
	scriptMu.Unlock()
	done := make(chan struct{})
	go s.VerifHealthLoop(done)
	time.Sleep(time.Duration(waitms) * time.Millisecond)
	rec := httptest.NewRecorder()
	s.Handler().ServeHTTP(rec, httptest.NewRequest("GET", "/health", nil))
	s.Close()
	select {
	case <-done:
	case <-time.After(2 * time.Second):
		return fmt.Sprintf("ok %d loop-not-ended", rec.Code)
	}
	return fmt.Sprintf("ok %d", rec.Code)
}

// runBusy: a token whose Ping hangs until the per-token timeout (1 s); while the check round is inside that ping, GET /health
// must be answered at once from the last known state (here: healthy, the previous round succeeded), not wait for the round.
func runBusy(f []string) string {
	cfg, err := mkConfig(3, 1, 1)
	if err != nil {
		return "err config"
	}
	s, err := server.VerifNew(cfg)
	if err != nil {
		return "err new"
	}
	defer s.Close()
	scriptMu.Lock()
	for name := range script {
		delete(script, name)
	}
	script[tokName(0)] = 'o'
	scriptMu.Unlock()
	if !s.VerifHealthCheck() {
		return "err first-round"
	}
	scriptMu.Lock()
	script[tokName(0)] = 't'
	scriptMu.Unlock()
	p0 := atomic.LoadInt64(&pings)
	roundDone := make(chan struct{})
	go func() { s.VerifHealthCheck(); close(roundDone) }()
	deadline := time.Now().Add(3 * time.Second)
	for atomic.LoadInt64(&pings) == p0 {
		if time.Now().After(deadline) {
			return "err round-not-started"
		}
		time.Sleep(time.Millisecond)
	}
	time.Sleep(100 * time.Millisecond) // inside the hanging ping
	type ans struct{ code int }
	ch := make(chan ans, 1)
	go func() {
		rec := httptest.NewRecorder()
		s.Handler().ServeHTTP(rec, httptest.NewRequest("GET", "/health", nil))
		ch <- ans{rec.Code}
	}()
	res := "blocked"
	select {
	case a := <-ch:
		res = strconv.Itoa(a.code)
	case <-time.After(500 * time.Millisecond):
	}
	<-roundDone
	return "ok " + res
}

var setup sync.Once

// Handle runs the real code on one op (fields after the property tag).  Ops must be handled one
// at a time within a process: relic's health counters are package-level variables.
func Handle(f []string) string {
	setup.Do(func() {
		register()
		zerolog.SetGlobalLevel(zerolog.Disabled)
	})
	if len(f) < 1 {
		return "bad-op"
	}
	switch f[0] {
	case "hist":
		return runHist(f[1:])
	case "loop":
		return runLoop(f[1:])
	case "slow":
		return runSlow(f[1:])
	case "loopmid":
		return runLoopMid(f[1:])
	case "idle":
		return runIdle(f[1:])
	case "busy":
		return runBusy(f[1:])
	}
	return "bad-op"
}

// Impl reads ops from stdin.
func Impl() { hx.EachLine(Handle) }

// ---------------------------------------------------------------- generator

func normInterval(iv int) int {
	if iv == 0 {
		return 60
	}
	return iv
}

type step struct {
	out string
	age string
	dis int
}

func emit(w *bufio.Writer, n, iv, ntok int, steps []step) {
	fmt.Fprintf(w, "C20 hist %d %d %d %d", n, iv, ntok, len(steps))
	for _, s := range steps {
		fmt.Fprintf(w, " %s,%s,%d", s.out, s.age, s.dis)
	}
	fmt.Fprintln(w)
}

// Gen writes the op list for one run.
func Gen(w *bufio.Writer, seed uint64, tier string) {
	// (a) exhaustive small scope: thresholds 1..3 (thorough 1..4), one token, every ok/error history up to length 4 (5)
	maxN, maxLen := 3, 4
	if tier == "thorough" {
		maxN, maxLen = 4, 6
	}
	for n := 1; n <= maxN; n++ {
		for l := 1; l <= maxLen; l++ {
			for bits := 0; bits < 1<<l; bits++ {
				steps := make([]step, l)
				for i := range steps {
					steps[i] = step{out: "o", age: "-"}
					if bits>>i&1 == 1 {
						steps[i].out = "e"
					}
				}
				emit(w, n, 1, 1, steps)
			}
		}
	}
	// (b) every staleness age around the boundary x disabled, after one ok / one failed check
	for _, iv := range []int{1, 2, 60, 0, -1} {
		b := 3 * normInterval(iv) * 1000
		for _, age := range []int{-5000, 0, 1, b - 1000, b - 400, b + 400, b + 1000, 10 * b} {
			for dis := 0; dis < 2; dis++ {
				for _, o := range []string{"o", "e"} {
					emit(w, 2, iv, 1, []step{{out: o, age: strconv.Itoa(age), dis: dis}, {out: "o", age: "-", dis: 0}})
				}
			}
		}
	}
	// (c) seeded random histories
	r := hx.NewRng(seed)
	count, maxSteps := 3000, 12
	if tier == "thorough" {
		count, maxSteps = 30000, 40
	}
	for c := 0; c < count; c++ {
		var n int
		switch x := r.Intn(100); {
		case x < 80:
			n = 1 + r.Intn(5)
		case x < 88:
			n = 0 // Normalize -> 3
		case x < 94:
			n = -1 - r.Intn(3)
		default:
			n = 6 + r.Intn(3)
		}
		iv := r.Pick(1, 1, 2, 5, 60, 0)
		if r.Intn(40) == 0 {
			iv = -1
		}
		ntok := 1 + r.Intn(3)
		if r.Intn(20) == 0 {
			ntok = 0
		}
		timeouts := r.Intn(100) < 3 // each timeout costs a real second
		failPct := r.Pick(10, 50, 80, 95)
		disMode := 0 // never
		switch x := r.Intn(100); {
		case x < 10:
			disMode = 1 // per step
		case x < 15:
			disMode = 2 // always
		}
		l := 1 + r.Intn(maxSteps)
		steps := make([]step, l)
		b := 3 * normInterval(iv) * 1000
		usedTimeouts := 0
		for i := range steps {
			out := []byte(strings.Repeat("o", ntok))
			if ntok > 0 && r.Intn(100) < failPct {
				// a non-empty subset of the tokens fails
				first := r.Intn(ntok)
				for j := range out {
					if j == first || r.Intn(3) == 0 {
						out[j] = 'e'
						if timeouts && usedTimeouts < 2 && r.Intn(4) == 0 {
							out[j] = 't'
							usedTimeouts++
						}
					}
				}
			}
			s := step{out: string(out), age: "-"}
			if ntok == 0 {
				s.out = "-"
			}
			if r.Intn(100) < 30 {
				s.age = strconv.Itoa(r.Pick(-5000, 0, 1, b-1000, b-500, b+500, b+1000, 10*b, b+60000))
			}
			switch disMode {
			case 1:
				s.dis = r.Intn(2)
			case 2:
				s.dis = 1
			}
			steps[i] = s
		}
		emit(w, n, iv, ntok, steps)
	}
	// (d) the real loop: close before / after the first check (and after the second one, thorough)
	// (e) a slow but successful round (three pings of 0.9 s, interval 1 s), queried 0.5 s / 3.3 s after it completed
	fmt.Fprintln(w, "C20 slow 3 900 500 1")
	fmt.Fprintln(w, "C20 slow 1 200 3300 1")
	fmt.Fprintln(w, "C20 loopmid 1")
	// (f) a server without served tokens left alone for more than three intervals; /health while a ping hangs
	fmt.Fprintln(w, "C20 idle 0 1 3600")
	fmt.Fprintln(w, "C20 idle 1 1 3600")
	fmt.Fprintln(w, "C20 busy")
	fmt.Fprintln(w, "C20 loop 0 60")
	fmt.Fprintln(w, "C20 loop 1 60")
	fmt.Fprintln(w, "C20 loop 1 1")
	if tier == "thorough" {
		fmt.Fprintln(w, "C20 loop 2 1")
		fmt.Fprintln(w, "C20 loop 3 1")
	}
}

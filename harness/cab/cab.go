// Package cab: cabinet generator and implementation runner for the CAB model
// (lib/cabfile/cabfile.go, lib/authenticode/cabfile.go).
package cab

import (
	"bufio"
	"bytes"
	"crypto"
	_ "crypto/sha256"
	"encoding/binary"
	"encoding/hex"
	"errors"
	"fmt"
	"io"
	"os"
	"strings"

	"github.com/sassoftware/relic/v8/lib/authenticode"
	"github.com/sassoftware/relic/v8/lib/cabfile"

	"verifharness/hx"
	"verifharness/pe"
	"verifharness/sg"
)

// Params of a synthetic cabinet. relic reads the header, the reserve area and the folder headers; the CFFILE
// entries and CFDATA blocks behind them are opaque bytes to it.
type Params struct {
	Folders  int // NumFolders
	Files    int // NumFiles (header field only)
	DataLen  int // bytes from OffsetFiles to the end of the cabinet
	Reserve  int // 0 none; 1 reserve header with an all-zero 20-byte signature header whose CabinetSize is patched to TotalSize; 2 zero padding
	Padding  int // extra zero bytes in the reserve area (Reserve == 2)
	Flags    uint16
	Gap      int // bytes between the folder headers and OffsetFiles (irregular)
	TotalAdj int // added to TotalSize (irregular)
}

func RandParams(r *hx.Rng) Params {
	p := Params{
		Folders: r.Pick(0, 1, 1, 1, 2, 3, 5),
		Files:   r.Pick(0, 1, 2, 7, 300),
		DataLen: r.Pick(0, 1, 7, 8, 9, 40, 100, 257, 1000),
		Reserve: r.Pick(0, 0, 0, 1, 2, 2),
	}
	if p.Reserve == 2 {
		p.Padding = r.Pick(1, 4, 8, 20, 100, 6144)
	}
	if r.Intn(12) == 0 {
		p.Gap = r.Pick(-8, -4, 4, 8)
		if r.Bool() {
			p.TotalAdj = p.Gap
		}
	} else if r.Intn(16) == 0 {
		p.TotalAdj = r.Pick(-4, -1, 1, 4)
	}
	return p
}

// Build serialises the cabinet; content bytes come from r.
func Build(r *hx.Rng, p Params) []byte {
	var b bytes.Buffer
	hdr := r.Bytes(36)
	binary.LittleEndian.PutUint32(hdr[0:], cabfile.Magic)
	flags := p.Flags
	if p.Reserve != 0 {
		flags |= 4
	}
	binary.LittleEndian.PutUint16(hdr[24:], 0x0103)
	binary.LittleEndian.PutUint16(hdr[26:], uint16(p.Folders))
	binary.LittleEndian.PutUint16(hdr[28:], uint16(p.Files))
	binary.LittleEndian.PutUint16(hdr[30:], flags)
	b.Write(hdr)
	switch p.Reserve {
	case 1:
		res := make([]byte, 24)
		binary.LittleEndian.PutUint16(res[0:], 20)
		copy(res[4:8], r.Bytes(4))   // Unknown1
		copy(res[16:24], r.Bytes(8)) // Unknown2, Unknown3
		b.Write(res)
	case 2:
		res := make([]byte, 24+p.Padding)
		binary.LittleEndian.PutUint16(res[0:], uint16(20+p.Padding))
		b.Write(res)
	}
	foldersEnd := b.Len() + 8*p.Folders
	off := foldersEnd + p.Gap
	total := foldersEnd + p.DataLen + p.TotalAdj
	for i := 0; i < p.Folders; i++ {
		fh := r.Bytes(8)
		binary.LittleEndian.PutUint32(fh[0:], uint32(off+16*p.Files+r.Intn(p.DataLen+1)))
		b.Write(fh)
	}
	b.Write(r.Bytes(p.DataLen))
	out := b.Bytes()
	binary.LittleEndian.PutUint32(out[8:], uint32(total))
	binary.LittleEndian.PutUint32(out[16:], uint32(off))
	if p.Reserve == 1 {
		binary.LittleEndian.PutUint32(out[44:], uint32(total)) // CabinetSize must agree with TotalSize
	}
	return out
}

// FakeSigned embeds an opaque blob through the real Digest → MakePatch → Apply path.
func FakeSigned(f []byte, blob []byte) []byte {
	d, err := cabfile.Digest(bytes.NewReader(f), crypto.SHA256)
	if err != nil {
		return f
	}
	out := applySafe(f, d, blob)
	if out == nil {
		return f
	}
	return out
}

func applySafe(f []byte, d *cabfile.CabinetDigest, blob []byte) (out []byte) {
	defer func() {
		if recover() != nil {
			out = nil
		}
	}()
	return pe.ApplyMem(f, d.MakePatch(blob))
}

// Mutate produces the malformed stream: field-targeted overwrites, truncations, appended bytes.
func Mutate(r *hx.Rng, f []byte) []byte {
	g := append([]byte{}, f...)
	put16 := func(off int, v uint16) {
		if off+2 <= len(g) {
			binary.LittleEndian.PutUint16(g[off:], v)
		}
	}
	put32 := func(off int, v uint32) {
		if off+4 <= len(g) {
			binary.LittleEndian.PutUint32(g[off:], v)
		}
	}
	n := len(g)
	b32 := []uint32{0, 1, 20, 24, 35, 36, 37, 59, 60, 61, 68, uint32(n), uint32(n - 1), uint32(n + 1), uint32(n - 8), uint32(n + 8), uint32(n - 24), uint32(n + 24),
		0x7fffffff, 0x80000000, 0xffffffe8, 0xfffffff8, 0xffffffff}
	v32 := func() uint32 { return b32[r.Intn(len(b32))] }
	switch r.Intn(16) {
	case 0:
		put32(0, cabfile.Magic^uint32(1<<uint(r.Intn(32))))
	case 1:
		put32(8, v32()) // TotalSize
	case 2:
		put32(16, v32()) // OffsetFiles
	case 3: // both, consistently shifted
		d := uint32(r.Pick(-24, -8, -4, 4, 8, 24))
		if n >= 20 {
			put32(8, binary.LittleEndian.Uint32(g[8:])+d)
			put32(16, binary.LittleEndian.Uint32(g[16:])+d)
		}
	case 4:
		put16(26, uint16(r.Pick(0, 1, 2, 3, 100, 0xffff))) // NumFolders
	case 5:
		put16(30, uint16(r.Pick(0, 1, 2, 3, 4, 5, 6, 7, 8, 12, 0x8000, 0x8004, 0xffff))) // Flags
	case 6:
		put16(36, uint16(r.Pick(0, 4, 19, 20, 21, 24, 28, 0xffff))) // HeaderSize
	case 7:
		if 40 <= n {
			g[38+r.Intn(2)] = byte(r.Pick(1, 8, 255)) // FolderSize / DataSize
		}
	case 8:
		put32(44, v32()) // CabinetSize
	case 9: // SignatureSize: kept small, the code allocates it before reading
		put32(48, uint32(r.Pick(0, 1, 7, 8, 9, n, n+1, 1<<16, 1<<20)))
	case 10, 11: // truncate at a field boundary or anywhere
		cut := r.Pick(0, 1, 4, 35, 36, 37, 39, 40, 41, 59, 60, 61, 67, 68, n-1, n-8, r.Intn(n+1))
		if cut >= 0 && cut <= n {
			g = g[:cut]
		}
	case 12: // append bytes
		g = append(g, r.Bytes(r.Pick(1, 7, 8, 9))...)
	case 13: // a non-zero byte in the reserve padding / signature header
		if n > 60 {
			g[40+r.Intn(min(n-40, 40))] = byte(r.Pick(0, 1, 255))
		}
	default: // random byte in the headers
		if n > 0 {
			g[r.Intn(min(n, 100))] = byte(r.U64())
		}
	}
	return g
}

// SignReal signs a cabinet with a real key through relic's cab signer and returns the signed bytes.
func SignReal(f []byte, key string) ([]byte, error) {
	dir, err := os.MkdirTemp("", "vh-cab-")
	if err != nil {
		return nil, err
	}
	defer os.RemoveAll(dir)
	p := dir + "/a.cab"
	if err := os.WriteFile(p, f, 0o644); err != nil {
		return nil, err
	}
	if err := sg.Sign("cab", p, p, sg.Cert(key), crypto.SHA256, nil); err != nil {
		return nil, err
	}
	if _, err := sg.Verify("cab", p, sg.Cert(key), false); err != nil {
		return nil, fmt.Errorf("verify after sign: %w", err)
	}
	return os.ReadFile(p)
}

// genMutations: model-directed mutation campaign on really signed cabinets (C02)
func genMutations(w *bufio.Writer, r *hx.Rng, tier string) {
	files, per := 6, 220
	if tier == "thorough" {
		files, per = 40, 800
	}
	for i := 0; i < files; i++ {
		p := RandParams(r)
		p.Gap, p.TotalAdj, p.Flags = 0, 0, 0
		if p.Padding > 100 {
			p.Padding = 100
		}
		f := Build(r, p)
		if i%3 == 2 { // sign over an existing signature
			f = FakeSigned(f, r.Bytes(r.Pick(9, 64)))
		}
		signed, err := SignReal(f, []string{"p256", "rsa"}[i%2])
		if err != nil {
			fmt.Fprintf(w, "CAB signfail %s %s\n", hx.Hex(f), strings.ReplaceAll(err.Error(), " ", "_"))
			continue
		}
		d, err := cabfile.Digest(bytes.NewReader(signed), crypto.SHA256)
		if err != nil {
			fmt.Fprintf(w, "CAB signfail %s %s\n", hx.Hex(f), strings.ReplaceAll(err.Error(), " ", "_"))
			continue
		}
		total := int(d.Cabinet.Header.TotalSize)
		var pos []int
		for q := 0; q < 60+8*p.Folders+4 && q < len(signed); q++ { // every header byte
			pos = append(pos, q)
		}
		pos = append(pos, total-2, total-1, total, total+1, total+4, len(signed)-9, len(signed)-8, len(signed)-1)
		for len(pos) < per {
			pos = append(pos, r.Intn(len(signed)))
		}
		var sb strings.Builder
		n := 0
		for _, q := range pos {
			if q < 0 || q >= len(signed) {
				continue
			}
			nb := signed[q] ^ byte(1<<uint(r.Intn(8)))
			if r.Intn(4) == 0 {
				nb = byte(r.U64())
			}
			// SignatureSize: keep the mutated value small (the code allocates it before reading)
			if q == 50 || q == 51 {
				nb = signed[q]
			}
			fmt.Fprintf(&sb, " %d:%d", q, nb)
			n++
		}
		fmt.Fprintf(w, "CAB mutate %s %d%s\n", hx.Hex(signed), n, sb.String())
	}
}

// genSpec (C05): cabinets of every reserve-area kind, unsigned / fake-signed once or twice / really re-signed by the patch
// path, plus the repository's fixture and a malformed stream; op specdigest = specification's digest vs. the real imprint
func genSpec(w *bufio.Writer, r *hx.Rng, tier string) {
	n := 200
	if tier == "thorough" {
		n = 3000
	}
	repo := os.Getenv("VERIF_REPO")
	if repo == "" {
		repo = "/repo"
	}
	if fx, err := os.ReadFile(repo + "/functest/packages/dummy.cab"); err == nil {
		fmt.Fprintf(w, "CAB specdigest %s\n", hx.Hex(fx))
		if out, _, e := signOnce(fx, r.Bytes(77)); e == "" {
			fmt.Fprintf(w, "CAB specdigest %s\n", hx.Hex(out))
		}
	}
	for i := 0; i < n; i++ {
		p := RandParams(r)
		f := Build(r, p)
		variant := r.Intn(10)
		switch {
		case variant < 3:
		case variant < 5:
			f = FakeSigned(f, r.Bytes(r.Pick(1, 8, 15, 16, 100)))
			if r.Bool() {
				f = FakeSigned(f, r.Bytes(r.Pick(3, 24, 200)))
			}
		case variant < 7: // signed by the real Digest -> MakePatch -> apply path
			if out, _, e := signOnce(f, r.Bytes(r.Pick(1, 8, 9, 300))); e == "" {
				f = out
			}
		default:
			if r.Bool() {
				f = FakeSigned(f, r.Bytes(r.Pick(1, 8, 100)))
			}
			f = Mutate(r, f)
		}
		fmt.Fprintf(w, "CAB specdigest %s\n", hx.Hex(f))
	}
}

func Gen(w *bufio.Writer, seed uint64, tier string, prop string) {
	r := hx.NewRng(seed ^ 0x434142)
	if prop == "C02" {
		genMutations(w, r, tier)
		return
	}
	if prop == "C05" {
		genSpec(w, r, tier)
		return
	}
	n := 220
	if tier == "thorough" {
		n = 4000
	}
	for i := 0; i < n; i++ {
		p := RandParams(r)
		f := Build(r, p)
		variant := r.Intn(10)
		switch {
		case variant < 4: // well-formed, unsigned
		case variant < 6: // already carrying a (fake) signature once or twice
			f = FakeSigned(f, r.Bytes(r.Pick(1, 8, 15, 16, 100)))
			if r.Bool() {
				f = FakeSigned(f, r.Bytes(r.Pick(3, 24, 200)))
			}
		default: // malformed stream
			if r.Bool() {
				f = FakeSigned(f, r.Bytes(r.Pick(1, 8, 100)))
			}
			f = Mutate(r, f)
			if r.Intn(4) == 0 {
				f = Mutate(r, f)
			}
		}
		fmt.Fprintf(w, "CAB digest %s\n", hx.Hex(f))
		if variant < 6 || r.Intn(3) == 0 {
			fmt.Fprintf(w, "CAB sign %s %s\n", hx.Hex(f), hx.Hex(r.Bytes(r.Pick(1, 7, 8, 9, 64, 300))))
		}
		if variant < 6 && (prop == "C08" || r.Intn(4) == 0) {
			fmt.Fprintf(w, "CAB resign %s %s %s\n", hx.Hex(f), hx.Hex(r.Bytes(r.Pick(1, 8, 20, 77))), hx.Hex(r.Bytes(r.Pick(1, 8, 9, 300))))
		}
		if variant >= 4 {
			fmt.Fprintf(w, "CAB locate %s\n", hx.Hex(f))
		}
	}
	// one really signed cabinet per run: sign → verify through the signer module, then the model on the same bytes
	for i := 0; i < 3; i++ {
		p := RandParams(r)
		p.Gap, p.TotalAdj, p.Flags = 0, 0, 0
		f := Build(r, p)
		fmt.Fprintf(w, "CAB realsign %s %s\n", hx.Hex(f), []string{"p256", "rsa", "p384"}[i])
	}
	genReal(w, r, tier, prop) // structured cabinets (real.go)
}

func classify(err error) string {
	s := err.Error()
	switch {
	case errors.Is(err, io.EOF) || errors.Is(err, io.ErrUnexpectedEOF):
		return "eof"
	case strings.Contains(s, "not a cab file"):
		return "notcab"
	case strings.Contains(s, "unknown reserved data"):
		return "reserved"
	case strings.Contains(s, "reserve header for signature is"):
		return "reservesize"
	case strings.Contains(s, "invalid padding"):
		return "padding"
	case strings.Contains(s, "cabinet size is"):
		return "sizemismatch"
	case strings.Contains(s, "multipart"):
		return "multipart"
	case strings.Contains(s, "unsupported flags"):
		return "flags"
	case strings.Contains(s, "trailing garbage"):
		return "trailing"
	case strings.Contains(s, "contains no signatures"):
		return "notsigned"
	}
	return "other:" + strings.ReplaceAll(s, " ", "_")
}

func panicSite(v interface{}) string {
	return "other:" + strings.ReplaceAll(fmt.Sprint(v), " ", "_")
}

// signOnce: Digest → MakePatch → Apply on the real code
func signOnce(img, sig []byte) ([]byte, *cabfile.CabinetDigest, string) {
	d, err := cabfile.Digest(bytes.NewReader(img), crypto.SHA256)
	if err != nil {
		return nil, nil, "err " + classify(err)
	}
	imprint := append([]byte{}, d.Imprint...)
	out := pe.ApplyMem(img, d.MakePatch(sig))
	if out == nil {
		return nil, nil, "err apply"
	}
	d.Imprint = imprint
	return out, d, ""
}

// Handle runs one op on the real code.
func Handle(f []string) (res string) {
	defer func() {
		if v := recover(); v != nil {
			res = "panic " + panicSite(v)
		}
	}()
	switch f[0] {
	case "digest":
		img := hx.MustUnHex(f[1])
		d, err := cabfile.Digest(bytes.NewReader(img), crypto.SHA256)
		if err != nil {
			return "err " + classify(err)
		}
		return fmt.Sprintf("ok imprint=%s patched=%s %d %d %d", hex.EncodeToString(d.Imprint), hx.Hex(d.Patched),
			d.Cabinet.Header.TotalSize, d.Cabinet.Header.OffsetFiles, d.Cabinet.SignatureHeader.Size())
	case "specdigest":
		// the real imprint, to be compared with the hash of the specification's digest input (Relic.Spec.CabDigest)
		img := hx.MustUnHex(f[1])
		d, err := cabfile.Digest(bytes.NewReader(img), crypto.SHA256)
		if err != nil {
			return "err " + classify(err)
		}
		return "ok spec imprint=" + hex.EncodeToString(d.Imprint)
	case "sign":
		img := hx.MustUnHex(f[1])
		out, d, e := signOnce(img, hx.MustUnHex(f[2]))
		if e != "" {
			return e
		}
		again := "same-digest"
		d2, err := cabfile.Digest(bytes.NewReader(out), crypto.SHA256)
		if err != nil {
			again = "redigest-err-" + classify(err)
		} else if !bytes.Equal(d2.Imprint, d.Imprint) {
			again = "digest-changed"
		}
		return fmt.Sprintf("ok %s %s", hx.Hex(out), again)
	case "resign":
		img := hx.MustUnHex(f[1])
		s1, s2 := hx.MustUnHex(f[2]), hx.MustUnHex(f[3])
		g1, _, e := signOnce(img, s1)
		if e != "" {
			return e
		}
		g2, _, e := signOnce(g1, s2)
		if e != "" {
			return "err second-" + strings.TrimPrefix(e, "err ")
		}
		direct, _, e := signOnce(img, s2)
		if e != "" {
			return e
		}
		verdict := "replaced"
		if !bytes.Equal(g2, direct) {
			verdict = "not-replaced"
		}
		return fmt.Sprintf("ok %s %s", hx.Hex(g2), verdict)
	case "realsign":
		img := hx.MustUnHex(f[1])
		signed, err := SignReal(img, f[2])
		if err != nil {
			return "err " + strings.ReplaceAll(err.Error(), " ", "_")
		}
		// second round with another key: still verifies, and the data is where the first round put it
		signed2, err := SignReal(signed, "p256b")
		if err != nil {
			return "err second-" + strings.ReplaceAll(err.Error(), " ", "_")
		}
		c1, err1 := cabfile.Parse(bytes.NewReader(signed))
		c2, err2 := cabfile.Parse(bytes.NewReader(signed2))
		if err1 != nil || err2 != nil {
			return "err reparse"
		}
		t := int(c1.Header.TotalSize)
		if c2.Header.TotalSize != c1.Header.TotalSize || !bytes.Equal(signed[:48], signed2[:48]) || !bytes.Equal(signed[52:t], signed2[52:t]) {
			return "err second-round-moved-bytes"
		}
		// the model gets the signed bytes with the signature blob cut out; it re-embeds a blob of that length
		return fmt.Sprintf("ok %s %d", hx.Hex(signed[:t]), len(c1.Signature))
	case "signfail":
		return "err " + f[2]
	case "mutate":
		img := hx.MustUnHex(f[1])
		var out []string
		for _, m := range f[3:] {
			parts := strings.SplitN(m, ":", 2)
			pos, nb := int(hx.Atoi(parts[0])), byte(hx.Atoi(parts[1]))
			if img[pos] == nb {
				out = append(out, "same")
				continue
			}
			g := append([]byte{}, img...)
			g[pos] = nb
			res := func() (r string) {
				defer func() {
					if v := recover(); v != nil {
						r = "panic:" + panicSite(v)
					}
				}()
				if _, err := authenticode.VerifyCab(bytes.NewReader(g), false); err != nil {
					return "fail"
				}
				return "pass"
			}()
			out = append(out, res)
		}
		return "ok " + strings.Join(out, " ")
	case "locate":
		img := hx.MustUnHex(f[1])
		cab, err := cabfile.Parse(bytes.NewReader(img))
		if err != nil {
			return "err " + classify(err)
		}
		if len(cab.Signature) == 0 {
			// what VerifyCab reports
			_, err := authenticode.VerifyCab(bytes.NewReader(img), true)
			if err == nil {
				return "err verify-accepted-unsigned"
			}
			return "err " + classify(err)
		}
		return "ok " + hx.Hex(cab.Signature)
	}
	return "bad-op"
}

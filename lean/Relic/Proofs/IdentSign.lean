/-
  Relic.Proofs.IdentSign — the identity part of appmanifest.Sign / Verify on the manifest abstraction.
-/
import Relic.Model.Ident
namespace Relic.Ident
open Relic

/-- no namespace-prefixed attribute with local name `k` comes before the first unprefixed one
    (etree's `SelectAttrValue(k)` returns the first attribute with that *local* name) -/
def NoPrefixedBefore (k : String) : List XAttr → Prop
  | [] => True
  | a :: rest => if a.key = k then a.space = "" else NoPrefixedBefore k rest

instance (k : String) : (l : List XAttr) → Decidable (NoPrefixedBefore k l)
  | [] => isTrue trivial
  | a :: rest =>
    if h : a.key = k then
      if h2 : a.space = "" then isTrue (by simp [NoPrefixedBefore, h, h2])
      else isFalse (by simp [NoPrefixedBefore, h, h2])
    else
      match instDecidableNoPrefixedBefore k rest with
      | isTrue p => isTrue (by simp [NoPrefixedBefore, h, p])
      | isFalse p => isFalse (by simp [NoPrefixedBefore, h, p])

theorem attrValueOrig_createAttr (k v : String) (l : List XAttr) (h : NoPrefixedBefore k l) :
    attrValueOrig k (createAttr k v l) = v := by
  induction l with
  | nil => simp [createAttr, attrValueOrig]
  | cons a rest ih =>
    simp only [createAttr]
    split
    · simp [attrValueOrig]
    · rename_i hc
      simp only [attrValueOrig]
      simp only [NoPrefixedBefore] at h
      split
      · rename_i hk
        simp only [hk, ↓reduceIte] at h
        exact absurd ⟨h, hk⟩ hc
      · rename_i hk
        simp only [hk, ↓reduceIte] at h
        exact ih h

/-- repaired code: the attribute read back is the attribute written, whatever else the element carries -/
theorem attrValue_createAttr (k v : String) (l : List XAttr) : attrValue k (createAttr k v l) = v := by
  induction l with
  | nil => simp [createAttr, attrValue]
  | cons a rest ih =>
    simp only [createAttr]
    split
    · simp [attrValue]
    · rename_i hc
      simp only [attrValue, hc, ↓reduceIte, ih]

theorem attrValue_createAttr_other (k k' v : String) (l : List XAttr) (hk : k' ≠ k) :
    attrValue k' (createAttr k v l) = attrValue k' l := by
  induction l with
  | nil => simp [createAttr, attrValue, hk.symm]
  | cons a rest ih =>
    simp only [createAttr]
    split
    · rename_i hc
      have h1 : ¬ (a.space = "" ∧ a.key = k') := by rw [hc.2]; exact fun h => hk h.2.symm
      simp [attrValue, hk.symm, h1]
    · simp only [attrValue, ih]

theorem createAttr_createAttr (k v1 v2 : String) (l : List XAttr) :
    createAttr k v2 (createAttr k v1 l) = createAttr k v2 l := by
  induction l with
  | nil => simp [createAttr]
  | cons a rest ih =>
    simp only [createAttr]
    split
    · simp [createAttr]
    · rename_i hc
      simp only [createAttr, hc, ↓reduceIte, ih]

/-- what `Sign` derives from the certificate -/
def identOf (sha1 : Bytes → Bytes) (c : Loaded) : Res Ident :=
  match publicKeyToken sha1 c.leaf.key with
  | .ok token =>
    match publisherIdentity sha1 c with
    | .ok (name, ikh) => .ok ⟨token, name, ikh⟩
    | .err e => .err e
    | .panic p => .panic p
    | .diverge => .diverge
  | .err e => .err e
  | .panic p => .panic p
  | .diverge => .diverge

/-- `signIdent` written with `identOf` -/
theorem signIdent_eq {α} (sha1 : Bytes → Bytes) (m : Manifest α) (c : Loaded) :
    signIdent sha1 m c =
      match publicKeyToken sha1 c.leaf.key, m.asi with
      | .ok token, some attrs =>
        match publisherIdentity sha1 c with
        | .ok (name, ikh) => .ok ⟨some (createAttr "publicKeyToken" token attrs), [(name, ikh)], some name, m.others⟩
        | .err e => .err e
        | .panic p => .panic p
        | .diverge => .diverge
      | .ok _, none => .err "no-assemblyIdentity"
      | .err e, _ => .err e
      | .panic p, _ => .panic p
      | .diverge, _ => .diverge := by
  unfold signIdent
  cases publicKeyToken sha1 c.leaf.key <;> cases m.asi <;> simp
  cases publisherIdentity sha1 c with
  | ok p => obtain ⟨n, i⟩ := p; rfl
  | err e => rfl
  | panic p => rfl
  | diverge => rfl

theorem signIdent_ok {α} (sha1 : Bytes → Bytes) (m m' : Manifest α) (c : Loaded) (h : signIdent sha1 m c = .ok m') :
    ∃ id attrs, identOf sha1 c = .ok id ∧ m.asi = some attrs ∧
      m' = ⟨some (createAttr "publicKeyToken" id.token attrs), [(id.name, id.issuerKeyHash)], some id.name, m.others⟩ := by
  rw [signIdent_eq] at h
  unfold identOf
  cases ht : publicKeyToken sha1 c.leaf.key with
  | ok token =>
    cases ha : m.asi with
    | none => simp [ht, ha] at h
    | some attrs =>
      cases hp : publisherIdentity sha1 c with
      | ok p =>
        obtain ⟨name, ikh⟩ := p
        simp only [ht, ha, hp] at h
        cases h
        exact ⟨⟨token, name, ikh⟩, attrs, rfl, rfl, rfl⟩
      | err e => simp [ht, ha, hp] at h
      | panic p => simp [ht, ha, hp] at h
      | diverge => simp [ht, ha, hp] at h
  | err e => simp [ht] at h
  | panic p => simp [ht] at h
  | diverge => simp [ht] at h

/-- signing again with another certificate gives exactly what signing the original manifest with it gives -/
theorem signIdent_resign {α} (sha1 : Bytes → Bytes) (m m1 : Manifest α) (c1 c2 : Loaded)
    (h : signIdent sha1 m c1 = .ok m1) : signIdent sha1 m1 c2 = signIdent sha1 m c2 := by
  obtain ⟨id, attrs, _, ha, hm⟩ := signIdent_ok sha1 m m1 c1 h
  rw [signIdent_eq, signIdent_eq, hm, ha]
  cases publicKeyToken sha1 c2.leaf.key with
  | ok t =>
    cases publisherIdentity sha1 c2 with
    | ok p => simp only [createAttr_createAttr]
    | err e => rfl
    | panic p => rfl
    | diverge => rfl
  | err e => rfl
  | panic p => rfl
  | diverge => rfl

/-- the original `Verify`'s identity comparison does not look at the publisher elements -/
theorem verifyIdentOrig_publishers {α} (sha1 : Bytes → Bytes) (m : Manifest α) (pubs : List (String × String))
    (lic : Option String) (k : PubKey) :
    verifyIdentOrig sha1 { m with publishers := pubs, licSubject := lic } k = verifyIdentOrig sha1 m k := by
  simp [verifyIdentOrig]

theorem identOf_ok (sha1 : Bytes → Bytes) (c : Loaded) (id : Ident) (h : identOf sha1 c = .ok id) :
    publicKeyToken sha1 c.leaf.key = .ok id.token ∧
    ∃ iss s n, issuerCert c = some iss ∧ skidStream iss.key = .ok s ∧ id.issuerKeyHash = hexStr (sha1 s) ∧
      formatPkixName .msosco c.leaf.subject = .ok n ∧ id.name = bytesToString n := by
  unfold identOf publisherIdentity issuerOf at h
  cases h1 : publicKeyToken sha1 c.leaf.key with
  | ok t =>
    cases h3 : issuerCert c with
    | none => simp [h1, h3] at h
    | some iss =>
      cases h4 : skidStream iss.key with
      | ok s =>
        cases h5 : formatPkixName .msosco c.leaf.subject with
        | ok n =>
          simp only [h1, h3, h4, h5, Option.map_some] at h
          cases h
          exact ⟨rfl, iss, s, n, rfl, h4, rfl, rfl, rfl⟩
        | err e => simp [h1, h3, h4, h5] at h
        | panic p => simp [h1, h3, h4, h5] at h
        | diverge => simp [h1, h3, h4, h5] at h
      | err e => simp [h1, h3, h4] at h
      | panic p => simp [h1, h3, h4] at h
      | diverge => simp [h1, h3, h4] at h
  | err e => simp [h1] at h
  | panic p => simp [h1] at h
  | diverge => simp [h1] at h

/-! ### the repaired verifier -/

/-- what an accepting run of the repaired comparison establishes; the issuerKeyHash can be judged only if a
    certificate named like the leaf's issuer is carried -/
theorem verifyIdent_ok {α} (sha1 : Bytes → Bytes) (m : Manifest α) (k : PubKey) (carried : List LCert)
    (h : verifyIdent sha1 m k carried = .ok ()) :
    ∃ attrs token leaf n ikh,
      m.asi = some attrs ∧ publicKeyToken sha1 k = .ok token ∧ attrValue "publicKeyToken" attrs = token ∧
      carried.find? (fun c => c.key = k) = some leaf ∧ formatPkixName .msosco leaf.subject = .ok n ∧
      m.publishers = [(bytesToString n, ikh)] ∧ m.licSubject = some (bytesToString n) ∧
      ((∃ x ∈ carried, x.subject = leaf.issuer) →
        ∃ cand s, cand ∈ carried ∧ cand.subject = leaf.issuer ∧ skidStream cand.key = .ok s ∧ ikh = hexStr (sha1 s)) := by
  unfold verifyIdent at h
  cases ha : m.asi with
  | none => simp [ha] at h
  | some attrs =>
    cases ht : publicKeyToken sha1 k with
    | ok token =>
      simp only [ha, ht] at h
      split at h
      · cases h
      · rename_i htok
        cases hl : carried.find? (fun c => c.key = k) with
        | none => simp [hl] at h
        | some leaf =>
          simp only [hl] at h
          unfold checkPublisher at h
          cases hp : m.publishers with
          | nil => simp [hp] at h
          | cons p rest =>
            cases rest with
            | cons q r => simp [hp] at h
            | nil =>
              obtain ⟨name, ikh⟩ := p
              simp only [hp] at h
              cases hf : formatPkixName .msosco leaf.subject with
              | ok n =>
                simp only [hf] at h
                split at h
                · cases h
                · rename_i hname
                  cases hls : m.licSubject with
                  | none => simp [hls] at h
                  | some ls =>
                    simp only [hls] at h
                    split at h
                    · cases h
                    · rename_i hlic
                      have e1 : name = bytesToString n := by simpa using hname
                      have e2 : ls = bytesToString n := by simpa using hlic
                      refine ⟨attrs, token, leaf, n, ikh, rfl, rfl, by simpa using htok, rfl, hf, by rw [e1], by rw [e2], ?_⟩
                      intro ⟨x, hx, hxs⟩
                      split at h
                      · rename_i hemp
                        have : x ∈ carried.filter (fun c => c.subject = leaf.issuer) :=
                          List.mem_filter.mpr ⟨hx, by simpa using hxs⟩
                        rw [List.isEmpty_iff.mp hemp] at this
                        cases this
                      · split at h
                        · rename_i hany
                          obtain ⟨cand, hc, hm⟩ := List.any_eq_true.mp hany
                          have hc2 := List.mem_filter.mp hc
                          unfold issuerHashMatches at hm
                          cases hs : skidStream cand.key with
                          | ok s =>
                            simp only [hs, decide_eq_true_eq] at hm
                            exact ⟨cand, s, hc2.1, by simpa using hc2.2, hs, hm.symm⟩
                          | err e => simp [hs] at hm
                          | panic p => simp [hs] at hm
                          | diverge => simp [hs] at hm
                        · cases h
              | err e => simp [hf] at h
              | panic p => simp [hf] at h
              | diverge => simp [hf] at h
    | err e => simp [ha, ht] at h
    | panic p => simp [ha, ht] at h
    | diverge => simp [ha, ht] at h

theorem chainOf_find_leaf (c : Loaded) :
    (chainOf c).find? (fun x => x.key = c.leaf.key) = some ⟨c.leaf.subject, c.leaf.issuer, c.leaf.key, true⟩ := by
  simp [chainOf]

/-- `Issuer()` and `Chain()` agree: the certificate whose key hash `Sign` writes is carried (by subject and key), or no
    certificate named like the issuer is carried at all -/
def IssuerAgrees (c : Loaded) : Prop :=
  ∀ iss, issuerCert c = some iss →
    (∃ y ∈ chainOf c, y.subject = c.leaf.issuer ∧ y.key = iss.key) ∨ (∀ y ∈ chainOf c, y.subject ≠ c.leaf.issuer)

/-- the repaired verifier accepts what `Sign` writes -/
theorem verifyIdent_signed {α} (sha1 : Bytes → Bytes) (m m' : Manifest α) (c : Loaded)
    (h : signIdent sha1 m c = .ok m') (hc : IssuerAgrees c) : verifyIdent sha1 m' c.leaf.key (chainOf c) = .ok () := by
  obtain ⟨id, attrs, hid, _, hm⟩ := signIdent_ok sha1 m m' c h
  obtain ⟨ht, iss, s, n, hiss, hs, hikh, hf, hname⟩ := identOf_ok sha1 c id hid
  subst hm
  rcases hc iss hiss with ⟨x, hx, hxs, hxk⟩ | hnone
  · have hcand : ((chainOf c).filter (fun y => y.subject = c.leaf.issuer)).any (issuerHashMatches sha1 id.issuerKeyHash) = true := by
      apply List.any_eq_true.mpr
      refine ⟨x, List.mem_filter.mpr ⟨hx, by simpa using hxs⟩, ?_⟩
      simp [issuerHashMatches, hxk, hs, hikh]
    have hne : ((chainOf c).filter (fun y => y.subject = c.leaf.issuer)).isEmpty = false := by
      cases hfl : (chainOf c).filter (fun y => y.subject = c.leaf.issuer) with
      | nil => rw [hfl] at hcand; simp at hcand
      | cons a b => rfl
    simp [verifyIdent, ht, attrValue_createAttr, chainOf_find_leaf, checkPublisher, hf, hname, hcand, hne]
  · have hemp : ((chainOf c).filter (fun y => y.subject = c.leaf.issuer)).isEmpty = true := by
      rw [List.isEmpty_iff, List.filter_eq_nil_iff]
      intro y hy; simpa using hnone y hy
    simp [verifyIdent, ht, attrValue_createAttr, chainOf_find_leaf, checkPublisher, hf, hname, hemp]

end Relic.Ident

/- walkAttributes does not depend on the position of a non-declaration attribute -/
import Relic.Proofs.XmlSort
namespace Relic.Xml
open Relic

theorem usesSpace_perm (esp s : Bytes) {l l' : List Attr} (hp : l.Perm l') : usesSpace esp l s = usesSpace esp l' s := by
  unfold usesSpace
  rw [hp.any_eq]

/-- the attributes already passed matter only as a multiset -/
theorem walkLoop_done_perm (esp : Bytes) : ∀ (todo done done' : List Attr) (kids : List Node), done.Perm done' →
    (walkLoop esp done todo kids).2 = (walkLoop esp done' todo kids).2 ∧
    ((walkLoop esp done todo kids).1).Perm (walkLoop esp done' todo kids).1 := by
  intro todo
  induction todo with
  | nil => intro done done' kids hp; exact ⟨by simp only [walkLoop], by simpa only [walkLoop] using hp⟩
  | cons a todo ih =>
    intro done done' kids hp
    simp only [walkLoop]
    cases hd : getDecl a with
    | none => exact ih _ _ _ (hp.append_right _)
    | some s =>
      simp only
      rw [usesSpace_perm esp s (hp.append_right (a :: todo))]
      split
      · exact ih _ _ _ (hp.append_right _)
      · exact ih _ _ _ hp

/-- swapping two neighbouring attributes of which the first is not a namespace declaration -/
theorem walkLoop_swap (esp : Bytes) (a b : Attr) (ha : getDecl a = none) :
    ∀ (pre done post : List Attr) (kids : List Node),
    (walkLoop esp done (pre ++ a :: b :: post) kids).2 = (walkLoop esp done (pre ++ b :: a :: post) kids).2 ∧
    ((walkLoop esp done (pre ++ a :: b :: post) kids).1).Perm (walkLoop esp done (pre ++ b :: a :: post) kids).1 := by
  intro pre
  induction pre with
  | nil =>
    intro done post kids
    simp only [List.nil_append]
    rw [walkLoop, ha]
    simp only
    cases hb : getDecl b with
    | none =>
      rw [walkLoop, hb, walkLoop, hb, walkLoop, ha]
      simp only
      refine walkLoop_done_perm esp post _ _ kids ?_
      simp only [List.append_assoc]
      exact List.Perm.append_left done (List.Perm.swap b a [])
    | some s =>
      have hu : usesSpace esp ((done ++ [a]) ++ b :: post) s = usesSpace esp (done ++ b :: a :: post) s := by
        apply usesSpace_perm
        simp only [List.append_assoc]
        exact List.Perm.append_left done (List.Perm.swap b a post)
      rw [walkLoop, hb, walkLoop, hb]
      simp only
      rw [hu]
      split
      · rw [walkLoop, ha]
        simp only
        refine walkLoop_done_perm esp post _ _ kids ?_
        simp only [List.append_assoc]
        exact List.Perm.append_left done (List.Perm.swap b a [])
      · rw [walkLoop, ha]
        exact ⟨rfl, List.Perm.refl _⟩
  | cons h pre ih =>
    intro done post kids
    simp only [List.cons_append]
    rw [walkLoop, walkLoop]
    cases hh : getDecl h with
    | none => exact ih _ _ _
    | some s =>
      simp only
      have hu : usesSpace esp (done ++ h :: (pre ++ a :: b :: post)) s = usesSpace esp (done ++ h :: (pre ++ b :: a :: post)) s := by
        apply usesSpace_perm
        exact List.Perm.append_left done (List.Perm.cons h (List.Perm.append_left pre (List.Perm.swap b a post)))
      rw [hu]
      split
      · exact ih _ _ _
      · exact ih _ _ _

theorem walkLoop_sublist (esp : Bytes) : ∀ (todo done : List Attr) (kids : List Node),
    ((walkLoop esp done todo kids).1).Sublist (done ++ todo) := by
  intro todo
  induction todo with
  | nil => intro done kids; simp [walkLoop]
  | cons a todo ih =>
    intro done kids
    simp only [walkLoop]
    have keep : ∀ k, ((walkLoop esp (done ++ [a]) todo k).1).Sublist (done ++ a :: todo) := by
      intro k
      have := ih (done ++ [a]) k
      simpa [List.append_assoc] using this
    have drop : ∀ k, ((walkLoop esp done todo k).1).Sublist (done ++ a :: todo) := by
      intro k
      exact (ih done k).trans (List.Sublist.append_left (List.sublist_cons_self a todo) done)
    cases getDecl a with
    | none => exact keep _
    | some s =>
      simp only
      split
      · exact keep _
      · exact drop _

/-- **walk is invariant under such a swap**, for attribute lists with pairwise distinct names -/
theorem walk_swap (sp tag : Bytes) (pre post : List Attr) (a b : Attr) (kids : List Node)
    (ha : getDecl a = none) (hn : NamesNodup (pre ++ a :: b :: post)) :
    walk (.elem sp tag (pre ++ a :: b :: post) kids) = walk (.elem sp tag (pre ++ b :: a :: post) kids) := by
  rw [walk, walk]
  obtain ⟨h2, h1⟩ := walkLoop_swap sp a b ha pre [] post kids
  rw [h2]
  have hs := walkLoop_sublist sp (pre ++ a :: b :: post) [] kids
  simp only [List.nil_append] at hs
  have hnk : NamesNodup (walkLoop sp [] (pre ++ a :: b :: post) kids).1 := List.Pairwise.sublist hs hn
  rw [sortAttrs_perm_invariant _ _ h1 hnk]

end Relic.Xml

/- line-protocol handler for the code-signature decision model (C01, C02, C08, C11): first token `CSV`.

   CSV verify <mut> <prot> <mode> <file> <info> <res> <rep> <page> <skip> <cms>
     mode   macho: <file> is a thin Mach-O image; the model locates the signature (`Relic.MachO.locate`), parses it
                   (`parseSig`) and plans `machos.Verify(file, info, res, skip)`
            blob:  <file> is the signature superblob; plans `csblob.Verify(blob, {info, res, rep})` followed by
                   `VerifyPages(page)` (the use `(*DMG).Verify` makes of it)
     info/res/rep  `n` = nil, `-` = empty, hex otherwise
     cms    `-` = no CMS item (longer than 8 bytes); else one description per such item, in index order, separated by `~`:
            `!` = the item does not decode; otherwise
            e=<n|hex>/ts=<0|1>/<signer>/<signer>…   with
            signer = a=<crypto.Hash|x>;at=<0|1>;md=<n|hex>;r=<0|1>;c=<A|B|E|alg.hex+…>;p=<A|B|E|hex+…>
            (A absent, B undecodable, E empty list; alg `x` = OID that is no known digest)
     answer `ok plan=<label:alg:trunc:stream:expected,…> final=<ok|err_class>`: the check evaluates the plan with hashlib

   CSV history <file> <hash:entlen:reqlen,…>
     re-signing rounds on the image: per round the arithmetic of `scanFile` / `PatchSignature` (estimate from the code
     size, the hash size and the lengths of the entitlement / requirement parameters), the file with a zero signature
     buffer is the next round's input.  Answer `ok r0=ss:sbl:flen:leoff:lefilesz:lcoff:lclen r1=…`

   CSV wrap <mut> <prot> <fat> <info> <res> <file> <cms> [<file> <cms>]
     `verifyFat` on a thin image (fat=0, one slice, the bundle parameters are passed on) or on a fat image (fat=1: every
     slice is verified with nil, nil); answer: one `plan=… final=…` group per slice, separated by ` | `
-/
import Relic.Model.CsVerify
import Relic.Model.MachO
namespace Relic.Driver.CsVerify
open Relic Relic.CodeDir Relic.CsVerify

def optHex (s : String) : Option (Option Bytes) :=
  if s = "n" then some none else (fromHex s).map some

def parseNatX (s : String) : Option (Option Nat) :=
  if s = "x" then some none else s.toNat?.map some

def kvOf (s : String) (sep : String) : List (String × String) :=
  (s.splitOn sep).filterMap fun (e : String) =>
    match e.splitOn "=" with
    | [k, v] => some (k, v)
    | _ => none

def look (kv : List (String × String)) (k : String) : Option String := (kv.find? (·.1 == k)).map (·.2)

def parseCdh (s : String) : Option (AttrV (List (Option Nat × Bytes))) :=
  if s = "A" then some .absent else if s = "B" then some .bad else if s = "E" then some (.val []) else
  ((s.splitOn "+").mapM fun (e : String) =>
    match e.splitOn "." with
    | [a, h] => do pure ((← parseNatX a), (← fromHex h))
    | _ => none).map .val

def parsePl (s : String) : Option (AttrV (List Bytes)) :=
  if s = "A" then some .absent else if s = "B" then some .bad else if s = "E" then some (.val []) else
  ((s.splitOn "+").mapM fromHex).map .val

def parseSigner (s : String) : Option SignerV := do
  let kv := kvOf s ";"
  let a ← parseNatX (← look kv "a")
  let at_ ← look kv "at"
  let md ← optHex (← look kv "md")
  let r ← look kv "r"
  let c ← parseCdh (← look kv "c")
  let p ← parsePl (← look kv "p")
  pure ⟨a, at_ == "1", md, r == "1", c, p⟩

/-- `none` = malformed description; `some none` = "!" -/
def parseCms (s : String) : Option (Option CmsV) :=
  if s = "!" then some none else
  match s.splitOn "/" with
  | e :: ts :: signers => do
    let e ← match e.splitOn "=" with
      | ["e", v] => optHex v
      | _ => none
    let ts ← match ts.splitOn "=" with
      | ["ts", v] => some (v == "1")
      | _ => none
    let ss ← signers.mapM parseSigner
    pure (some ⟨e, ss, ts⟩)
  | _ => none

/-- the CMS items of a superblob in index order (type 0x10000, longer than 8 bytes): their payloads -/
def cmsPayloads (blob : Bytes) : List Bytes :=
  match parseSuper blob with
  | .ok (_, items) => (items.filter fun i => i.itype = 0x10000 ∧ i.len > 8).map fun i => (sliceOf blob i.off i.len).drop 8
  | _ => []

/-- the decoder of CMS items as a table: the k-th description belongs to the k-th CMS item of the blob -/
def cmsFun (blob : Bytes) (descs : List (Option CmsV)) : Bytes → Res CmsV := fun b =>
  match ((cmsPayloads blob).zip descs).find? (fun p => p.1 == b) with
  | some (_, some v) => .ok v
  | _ => .err "cms-parse"

/-- `-` = no CMS item; otherwise descriptions separated by `~` -/
def parseCmsList (s : String) : Option (List (Option CmsV)) :=
  if s = "-" then some [] else (s.splitOn "~").mapM parseCms

def finStr (r : Res Unit) : String :=
  match r with
  | .ok _ => "ok"
  | .err e => s!"err_{e}"
  | .panic p => s!"panic_{p}"
  | .diverge => "diverge"

def stepStr (s : Step) : String := s!"{s.label}:{s.alg}:{s.trunc}:{toHex s.stream}:{toHex s.expected}"

def planStr (p : Plan) : String :=
  s!"plan={if p.steps.isEmpty then "-" else ",".intercalate (p.steps.map stepStr)} final={finStr p.final}"

def sigTag (s : Sig) : String :=
  let best := match bestDir s.dirs with
    | some b => s!"{b.itype}/{b.d.hdr.hashType}/{codeSize b.d.hdr}"
    | none => "none"
  s!"#dirs={",".intercalate (s.dirs.map fun c => s!"{c.itype}/{c.d.hdr.hashType}")} best={best} cms={if s.cms.isSome then 1 else 0}"

def parseErr {α} (r : Res α) : String :=
  match r with
  | .err e => s!"err parse-{e}"
  | .panic p => s!"panic {p}"
  | .diverge => "diverge"
  | .ok _ => "ok"

/-- more than 12 directories with a repeated slot: Go's `sort.Slice` is no longer an insertion sort -/
def sortModelled (s : Sig) : Bool := s.dirs.length ≤ 12 ∨ (s.dirs.map (·.itype)).Nodup

/-- (answer, tag) -/
def verifyCore (mode : String) (f : Bytes) (P : CsVerify.Params) (page : Bytes) (skip : Bool) (cms : List (Option CmsV)) : String × String :=
  if mode = "macho" then
    match MachO.locate f with
    | .err e => (s!"err locate-{e}", "")
    | .panic p => (s!"panic {p}", "")
    | .diverge => ("diverge", "")
    | .ok (off, len) =>
      match parseSig (cmsFun (sliceOf f off len) cms) (sliceOf f off len) with
      | .ok s => if sortModelled s then (s!"ok {planStr (machoPlan tree P s f skip)}", sigTag s) else ("err unmodelled-sort", "")
      | r => (parseErr r, "")
  else
    match parseSig (cmsFun f cms) f with
    | .ok s => if sortModelled s then (s!"ok {planStr (blobPlan tree P s page skip)}", sigTag s) else ("err unmodelled-sort", "")
    | r => (parseErr r, "")

def verifyLine (mode : String) (f : Bytes) (P : CsVerify.Params) (page : Bytes) (skip : Bool) (cms : List (Option CmsV)) : String :=
  let r := verifyCore mode f P page skip cms
  if r.2.isEmpty then r.1 else s!"{r.1} {r.2}"

/-- one re-signing round on `f`: (line fragment, next file) -/
def round (f : Bytes) (hs entLen reqLen : Nat) : Except String (String × Bytes) :=
  match MachO.plan f hs entLen reqLen with
  | .err e => .error s!"sign-{e}"
  | .panic p => .error s!"panic-{p}"
  | .diverge => .error "diverge"
  | .ok pl =>
    match MachO.signedFile f pl.po [] with
    | .ok g =>
      match MachO.scan g with
      | .ok m => .ok (s!"{pl.po.sigStart}:{pl.po.sigBufLen}:{g.length}:{m.leOffset}:{m.leFilesz}:{m.sigStart}:{m.sigLen}", g)
      | _ => .error "rescan"
    | _ => .error "apply"

def rounds (f : Bytes) : Nat → List (Nat × Nat × Nat) → String
  | _, [] => ""
  | k, (h, e, r) :: rest =>
    match round f (hashSizeOf h) e r with
    | .ok (s, g) => s!" r{k}={s}" ++ rounds g (k + 1) rest
    | .error e => s!" r{k}=err-{e}"

def parseRounds (s : String) : Option (List (Nat × Nat × Nat)) :=
  (s.splitOn ",").mapM fun e =>
    match e.splitOn ":" with
    | [h, a, b] => do pure ((← h.toNat?), (← a.toNat?), (← b.toNat?))
    | _ => none

def wrapSlices : List String → Option (List (Bytes × List (Option CmsV)))
  | [] => some []
  | f :: c :: rest => do
    let f ← fromHex f
    let c ← parseCmsList c
    let r ← wrapSlices rest
    pure ((f, c) :: r)
  | _ => none

def sliceLine (fat : Bool) (info res : Option Bytes) (x : Bytes × List (Option CmsV)) : String :=
  (verifyCore "macho" x.1 (wrapParams tree fat info res none) [] false x.2).1

def handle : List String → String
  | ["verify", _, _, mode, fhex, info, res, rep, phex, skip, cms] =>
    match fromHex fhex, optHex info, optHex res, optHex rep, fromHex phex, parseCmsList cms with
    | some f, some info, some res, some rep, some page, some cms =>
      verifyLine mode f ⟨info, res, rep⟩ page (skip = "1") cms
    | _, _, _, _, _, _ => "bad-op"
  | ["history", fhex, rs] =>
    match fromHex fhex, parseRounds rs with
    | some f, some rs => "ok" ++ rounds f 0 rs
    | _, _ => "bad-op"
  | "wrap" :: _ :: _ :: fat :: info :: res :: rest =>
    match optHex info, optHex res, wrapSlices rest with
    | some info, some res, some sl =>
      if sl.isEmpty then "bad-op" else " | ".intercalate (sl.map (sliceLine (fat = "1") info res))
    | _, _, _ => "bad-op"
  | _ => "bad-op"

end Relic.Driver.CsVerify

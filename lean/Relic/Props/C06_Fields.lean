/-
  C06 — generated obligations about the VALUES in the audit record (T-gen): tools/extractaudit
  re-emits, on every run, the def-use facts of lib/audit, signinit.Init/InitKey, serveSign, signCmd,
  AuditContext, SignOpts.SetBinPatch/SetPkcs7 and of every signer module as
  `Relic.Generated.AuditFields`; the checks of `Relic.AuditFields` are run on them by `decide`.
  They say that the audit attribute and the value used derive from the SAME source:
    kconf.Name() of the key the token returned  ↔ sig.keyname;   mod.Name ↔ sig.type;
    the `hash` handed to Init = opts.Hash (the only digest a signer mentions) ↔ sig.hash;
    cert.Leaf / cert.PgpKey of the certificate returned for signing ↔ sig.x509.* / sig.pgp.*;
    query "filename" ↔ client.filename;  request.RemoteAddr ↔ client.ip;  the authenticated caller ↔ client.name/dn;
  and that nothing else (no signer module, no setter) writes or deletes those attributes.
  These facts are what the model `Relic.AuditRec` (theorem `record_names_what_was_used`) assumes
  about the code's shape.
-/
import Relic.Model.AuditFields
import Relic.Generated.AuditFields
namespace Relic.Props.C06
open Relic.AuditFields Relic.Generated

/-- the check really discriminates: logging the requested name instead of kconf.Name(), a digest
    constant in a signer, swapped client fields are all rejected -/
example : checkInit { AuditFields.init with
    calls := AuditFields.init.calls.map fun c => if c.callee = "audit.New" then { c with args := ["keyName", "mod.Name", "hash"] } else c } = false := by decide
example : checkServeSign { AuditFields.serveSign with
    attrs := AuditFields.serveSign.attrs.map fun a => if a.key = "client.filename" then { a with value := "keyName" } else a } = false := by decide
example : checkSigners (AuditFields.signers.map fun s => { s with
    funcs := s.funcs.map fun f => { f with mentions := "crypto.SHA256" :: f.mentions } }) = false := by decide

theorem auditNew_generated : checkAuditNew AuditFields.auditNew = true := by decide
theorem setCerts_generated :
    checkSetX509Cert AuditFields.setX509Cert = true ∧ checkSetPgpCert AuditFields.setPgpCert = true := by decide
theorem init_generated : checkInitKey AuditFields.initKey = true ∧ checkInit AuditFields.init = true := by decide
theorem serveSign_fields_generated : checkServeSign AuditFields.serveSign = true := by decide
theorem signCmd_fields_generated : checkSignCmd AuditFields.signCmd = true := by decide
theorem setters_generated :
    checkOtherSetters AuditFields.setTimestamp AuditFields.setMimeType AuditFields.setCounterSignature = true ∧
    checkMarshal AuditFields.marshal = true ∧ checkAuditContext AuditFields.auditContext = true ∧
    checkOptsSetters AuditFields.setBinPatch AuditFields.setPkcs7 = true := by decide
theorem signers_generated : checkSigners AuditFields.signers = true := by decide
end Relic.Props.C06

/-
  C05 (APPX): the five byte streams relic hashes into `AppxSignature.p7x` are those of the format's description
  (`Relic.Spec.AppxDigest`, layout form): AXPC = the package from offset 0 up to the signature part's record, AXCD = the
  central directory and end records the package would have without the signature part, AXCT / AXBM / AXCI = the
  uncompressed content types, block map and catalog.
-/
import Relic.Proofs.AppxSign
namespace Relic.Props.C05
open Relic Relic.Zip Relic.Appx

theorem headersOf_append : ∀ (a b : List File),
    (headersOf (a ++ b)).1 = (headersOf a).1 ++ (headersOf b).1 ∧ (headersOf (a ++ b)).2 = (headersOf a).2 ++ (headersOf b).2
  | [], b => by simp [headersOf]
  | f :: a, b => by
    obtain ⟨h1, h2⟩ := headersOf_append a b
    simp only [List.cons_append, headersOf, h1, h2]
    simp [List.append_assoc]

/-- an entry whose directory record is written without changing the entry: it carries its raw record, or it needs no
    ZIP64 extra field (sizes and offset below 4 GiB) -/
def Plain (f : File) : Prop := f.raw ≠ [] ∨ (f.csize < u32Max ∧ f.usize < u32Max ∧ f.offset < u32Max)

theorem getDirectoryHeader_plain {f : File} (h : Plain f) : (getDirectoryHeader f).2 = f := by
  unfold getDirectoryHeader
  split
  · rfl
  next hraw =>
    rcases h with h | ⟨h1, h2, h3⟩
    · exact absurd h (by simpa using hraw)
    · have : ¬ (f.csize ≥ u32Max ∨ f.usize ≥ u32Max ∨ f.offset ≥ u32Max) := by omega
      simp [this]

theorem headersOf_plain : ∀ (fs : List File), (∀ f ∈ fs, Plain f) → (headersOf fs).2 = fs
  | [], _ => rfl
  | f :: fs, h => by
    simp only [headersOf]
    rw [getDirectoryHeader_plain (h f (by simp)), headersOf_plain fs (fun g hg => h g (by simp [hg]))]

theorem headersOf_length : ∀ (fs : List File), (headersOf fs).2.length = fs.length
  | [] => rfl
  | f :: fs => by simp [headersOf, headersOf_length fs]

/-- `WriteDirectory(…, forceZip64 = true)` writes the end records of the description, versions 4.5 -/
theorem endRecords_force (count size off minV : Nat) :
    Zip.endRecords count size off true minV = SpecAppx.endRecords 45 45 count size off := by
  have e1 : leBytes 4 sigEnd64 = [0x50, 0x4b, 0x06, 0x06] := by decide
  have e2 : leBytes 4 sigLoc64 = [0x50, 0x4b, 0x06, 0x07] := by decide
  have e3 : leBytes 4 sigEnd = [0x50, 0x4b, 0x05, 0x06] := by decide
  unfold Zip.endRecords needZip64 SpecAppx.endRecords
  simp only [Bool.or_true, Bool.true_or, if_true, encEnd64, encLoc64, encEnd, e1, e2, e3, u16Max, u32Max, List.append_assoc]

/-- the regenerated parts need no ZIP64 extra field -/
def PartsPlain (g : Digested) (ps : Parts) : Prop :=
  (∀ f ∈ (newEntries ps.mt ps.md (partMembers g.p.hasPE ps) g.p.outz.dirLoc).1, Plain f)

/-- **appx_digest_eq_spec.** For every package and every content of the regenerated parts: if relic signs, the file it
    writes is a package cut as the description says (`SpecAppx.Cut.file`), and the streams it hashed are the description's:
    AXPC = all local file records before the signature part's = the file up to that record, AXCD = the directory
    records of the other parts followed by ZIP64 end records adjusted as if the signature part were absent, AXCT/AXBM/AXCI
    = the uncompressed parts.  Moreover the body starts with the untouched payload prefix of the input. -/
theorem appx_digest_eq_spec (c : Codec) (z : Bytes) (ps : Parts) (r : Signed) (h : sign c z ps = .ok r) :
    ∃ (g : Digested) (cut : SpecAppx.Cut), digest c z = .ok g ∧
      (PartsPlain g ps →
        r.out = cut.file ∧ r.streams.axpc = cut.axpc ∧ r.streams.axcd = cut.axcd) ∧
      cut.body = z.take g.patchStart ++ partsBytes g ps ∧ cut.body.length = r.sigOff ∧ cut.vm = 45 ∧ cut.vn = 45 ∧
      cut.n = g.p.members.length + (partMembers g.p.hasPE ps).length ∧
      r.streams.axct = ps.ctypes.plain ∧ r.streams.axbm = ps.blockmap.plain ∧
      r.streams.axci = (if g.p.hasPE then some ps.catalog.plain else none) := by
  unfold sign at h
  split at h
  next g hg =>
    obtain ⟨s1, s2, s3, s4, _, s6⟩ := digest_spec hg
    obtain ⟨_, a2, a3, a4, _⟩ := assemble_ok h
    let sigE := newEntryAt ps.mt ps.md (sigMember ps) (d4Of g ps).dirLoc
    refine ⟨g, ⟨z.take g.patchStart ++ partsBytes g ps, sigBytes ps, (headersOf (d4Of g ps).files).1, (d4Of g ps).files.length,
                (getDirectoryHeader sigE).1, 45, 45⟩, hg, ?_, rfl, ?_, rfl, rfl, ?_, ?_, ?_, ?_⟩
    · intro hp
      have hplain : ∀ f ∈ (d4Of g ps).files, Plain f := by
        intro f hf
        simp only [d4Of, List.mem_append] at hf
        rcases hf with hf | hf
        · exact Or.inl (s6 f hf)
        · exact hp f hf
      have hfix := headersOf_plain _ hplain
      have hloc : (d4Of g ps).dirLoc = (z.take g.patchStart ++ partsBytes g ps).length := by
        simp [d4Of, s2, List.length_take, Nat.min_eq_left s3]
      refine ⟨?_, ?_, ?_⟩
      · rw [a2]
        simp only [SpecAppx.Cut.file, writeDirectory, endRecords_force, d5Of, hfix]
        obtain ⟨q1, _⟩ := headersOf_append (d4Of g ps).files [sigE]
        simp only [sigE] at q1
        rw [q1]
        simp [headersOf, List.append_assoc, hloc]
        simp only [sigE, hloc, List.length_append, List.length_take]
      · rw [a3]; simp [SpecAppx.Cut.axpc, s1]
      · rw [a3]; simp [SpecAppx.Cut.axcd, writeDirectory, endRecords_force, hloc]
    · rw [a4]; simp [d4Of, s2, List.length_take, Nat.min_eq_left s3]
    · simp [d4Of, s4, newEntries_len]
    · rw [a3]
    · rw [a3]
    · rw [a3]
  all_goals cases h
where
  newEntries_len (mt md : Nat) : ∀ (news : List NewMember) (o : Nat), (newEntries mt md news o).1.length = news.length := by
    intro news
    induction news with
    | nil => intro o; rfl
    | cons n ns ih => intro o; simp [newEntries, ih]

end Relic.Props.C05

namespace Relic.Props.C05
open Relic Relic.Zip Relic.Appx

/-- witness package: one stored payload member `a` and a stored `AppxManifest.xml`, 32-bit end record -/
def zEx : Bytes := [80, 75, 3, 4, 20, 0, 0, 0, 0, 0, 0, 0, 0, 0, 153, 40, 230, 143, 2, 0, 0, 0, 2, 0, 0, 0, 1, 0, 0, 0, 97, 120, 121, 80, 75, 3, 4, 20, 0, 0, 0, 0, 0, 0, 0, 0, 0, 115, 147, 120, 36, 4, 0, 0, 0, 4, 0, 0, 0, 16, 0, 0, 0, 65, 112, 112, 120, 77, 97, 110, 105, 102, 101, 115, 116, 46, 120, 109, 108, 60, 80, 47, 62, 80, 75, 1, 2, 20, 0, 20, 0, 0, 0, 0, 0, 0, 0, 0, 0, 153, 40, 230, 143, 2, 0, 0, 0, 2, 0, 0, 0, 1, 0, 0, 0, 0, 0, 0, 0, 0, 0, 0, 0, 0, 0, 0, 0, 0, 0, 97, 80, 75, 1, 2, 20, 0, 20, 0, 0, 0, 0, 0, 0, 0, 0, 0, 115, 147, 120, 36, 4, 0, 0, 0, 4, 0, 0, 0, 16, 0, 0, 0, 0, 0, 0, 0, 0, 0, 0, 0, 0, 0, 33, 0, 0, 0, 65, 112, 112, 120, 77, 97, 110, 105, 102, 101, 115, 116, 46, 120, 109, 108, 80, 75, 5, 6, 0, 0, 0, 0, 2, 0, 2, 0, 109, 0, 0, 0, 83, 0, 0, 0, 0, 0]

def cEx : Codec := { inflate := fun _ => none, peOk := fun _ => true, manifestOk := fun _ => true, blockMap := fun _ => none, ctypesOk := fun _ => true }
def psEx : Parts := ⟨⟨[60, 81, 47, 62], [60, 81, 47, 62], 7⟩, ⟨[66], [3, 0], 1⟩, ⟨[67], [3, 1], 2⟩, ⟨[], [], 0⟩, ⟨[80, 75, 67, 88], [9, 9], 3⟩, 0, 33⟩

def okAnd {α} (r : Res α) (p : α → Bool) : Bool := match r with | .ok a => p a | _ => false

set_option maxRecDepth 8000 in
/-- non-vacuity: the model signs the witness package (payload prefix of 33 bytes kept, AXPC = the output up to the
    signature part's record) -/
example : okAnd (sign cEx zEx psEx) (fun r => r.out.take 33 == zEx.take 33 && r.streams.axpc == r.out.take r.sigOff &&
    decide (33 < r.sigOff)) = true := by decide

end Relic.Props.C05

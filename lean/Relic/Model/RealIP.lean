/-
  Relic.Model.RealIP — model of internal/realip/realip.go and zhttp.StripPort.

  `trustedClient` decides which address the rest of the server sees as the caller
  and whether the request counts as "proxied" (only then is `Ssl-Client-Cert`
  honoured by `PeerCertificates`).  The set of trusted networks is abstract:
  `inNets : String → Bool` is `net.ParseIP(addr) != nil ∧ some configured net contains it`
  (net.ParseIP / IPNet.Contains are trusted; the harness supplies the predicate as data).
  Core Lean only.
-/
import Relic.Base.Bytes
namespace Relic.RealIP

/-- index of the first occurrence (Go `strings.IndexByte`, `none` = -1) -/
def indexOf? (c : Char) : List Char → Option Nat
  | [] => none
  | x :: xs => if x = c then some 0 else (indexOf? c xs).map (· + 1)

/-- zhttp.StripPort on the characters of the address -/
def stripPortL (s : List Char) : List Char :=
  let bracket : Bool :=
    match indexOf? ']' s with
    | some j => decide (j > 1) && (s.head? == some '[')
    | none => false
  if bracket then
    -- clientIP[1:j]
    match indexOf? ']' s with
    | some j => (s.drop 1).take (j - 1)
    | none => s
  else
    match indexOf? ':' s with
    | some i => if i > 0 ∧ s.count ':' = 1 then s.take i else s
    | none => s

def stripPort (s : String) : String := String.ofList (stripPortL s.toList)

/-- `hopTrusted`: the UNIX-socket peer "@" is always trusted -/
def hopTrusted (inNets : String → Bool) (addr : String) : Bool :=
  addr == "@" || inNets addr

/-- `strings.Split(v, ",")` on the characters (structural, so that examples evaluate in the kernel) -/
def splitComma : List Char → List (List Char)
  | [] => [[]]
  | c :: cs =>
    match splitComma cs with
    | [] => [[]]
    | w :: ws => if c = ',' then [] :: w :: ws else (c :: w) :: ws

/-- the white space `strings.TrimSpace` removes (ASCII set, U+0085, U+00A0; the rarer Unicode spaces are not modelled) -/
def isSpace (c : Char) : Bool :=
  c = ' ' || c = '\t' || c = '\n' || c = '\r' || c.toNat = 0x0b || c.toNat = 0x0c || c.toNat = 0x85 || c.toNat = 0xa0

def trimSpace (s : List Char) : List Char :=
  ((s.dropWhile isSpace).reverse.dropWhile isSpace).reverse

/-- all `X-Forwarded-For` header values → list of hops (split at ',', trimmed, empties dropped) -/
def parseHops (values : List String) : List String :=
  (values.flatMap fun v => (splitComma v.toList).map fun h => String.ofList (trimSpace h)).filter (· ≠ "")

/-- `trustedClient` given the already split hops: (address the server will use, proxied) -/
def trustedClientHops (inNets : String → Bool) (remoteAddr : String) (hops : List String) : String × Bool :=
  let remoteIP := stripPort remoteAddr
  if !hopTrusted inNets remoteIP then (remoteIP, false)
  else
    -- closest hop first: the first one that is not itself a trusted proxy
    match hops.reverse.find? (fun h => !hopTrusted inNets h) with
    | some h => (h, true)
    | none =>
      match hops with
      | h :: _ => (h, true)
      | [] => (remoteIP, false)

def trustedClient (inNets : String → Bool) (remoteAddr : String) (xff : List String) : String × Bool :=
  trustedClientHops inNets remoteAddr (parseHops xff)

/-- specification of the derived address: the peer itself unless it is a trusted proxy; then the right-most
    forwarded-for hop that is not a trusted proxy, else the left-most hop, else the peer -/
def specAddr (inNets : String → Bool) (remoteAddr : String) (hops : List String) : String :=
  if !hopTrusted inNets (stripPort remoteAddr) then stripPort remoteAddr
  else match (hops.filter fun h => !hopTrusted inNets h).getLast? with
    | some h => h
    | none => hops.head?.getD (stripPort remoteAddr)

end Relic.RealIP

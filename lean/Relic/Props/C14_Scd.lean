/-
  C14 — concurrent signing through ONE scdaemon token (token/scdtoken over lib/assuan).

  scdaemon keeps, per connection, the value of the last SETDATA; PKSIGN signs whatever is stored with the key it names.  relic
  has one connection per token, so a signature is two transactions whose pairing must survive every schedule.  What pairs
  them is `scdToken.mu`, held by `scdKey.Sign` from before SETDATA until PKSIGN has returned.

    * `scd_sign_pair_atomic` — for EVERY schedule (any list of thread indices, any number of threads, any mix of Sign / GetKey /
      Ping / ListKeys calls) that the mutex admits, each Sign call that has run its PKSIGN got the signature over ITS OWN digest
      with ITS OWN key; proved by induction over the schedule from an invariant (Relic.Proofs.ScdToken.Inv).
    * `scd_sign_pair_not_atomic_without_lock` — with the mutex released before the card operation there is a schedule (all
      steps enabled, both calls complete) in which A receives the signature over B's digest.
    * T-gen: tools/extractscd re-extracts the lock span of scdKey.Sign and of the other token methods, of Conn.Transact, and
      the transaction list of ScdKey.Sign on every run (Relic.Generated.ScdLocks); the obligations below are by `decide`.
-/
import Relic.Proofs.ScdToken
import Relic.Generated.ScdLocks
namespace Relic.Props.C14
open Relic Relic.ScdToken Relic.ScdToken.Sched

/-- **scd_sign_pair_atomic.**  Any schedule, any calls: under the lock discipline of the source every Sign call whose PKSIGN
    has run holds the signature over its own digest under its own key, and a completed Sign call has such a result. -/
theorem scd_sign_pair_atomic (calls : Nat → Call) (sched : List Nat) (s' : State)
    (h : run .locked calls init sched = some s') (i : Nat) (k : KeyId) (d : Digest) (hc : calls i = .sign k d) :
    (∀ r, s'.res i = some r → r = some ⟨k, d⟩) ∧
    (done .locked calls s' i → s'.res i = some (some ⟨k, d⟩)) := by
  have hi := inv_run sched (inv_init calls) h
  have hr := hi.res i k d hc
  constructor
  · intro r hres
    by_cases h3 : 3 ≤ s'.pc i
    · have := hr.1 h3; rw [this] at hres; exact (Option.some.inj hres).symm
    · have := hr.2 (by omega); rw [this] at hres; cases hres
  · intro hd
    have : s'.pc i = 4 := by
      unfold done at hd; rw [hd, hc]; rfl
    exact hr.1 (by omega)

/-- no schedule makes two threads hold the token mutex, and whoever is inside a Sign between SETDATA and PKSIGN finds its own
    digest stored in the daemon -/
theorem scd_stored_digest_is_holders (calls : Nat → Call) (sched : List Nat) (s' : State)
    (h : run .locked calls init sched = some s') (i : Nat) (k : KeyId) (d : Digest) (hc : calls i = .sign k d)
    (hh : s'.holder = some i) (hp : s'.pc i = 2) : s'.data = some d :=
  ((inv_run sched (inv_init calls) h).mid i hh).2.2.2 k d hc hp

/-- the statement is not vacuous: three concurrent signs, a GetKey and a Ping, interleaved as far as the mutex allows, all complete -/
def scdDemoCalls : Nat → Call := ofList [.sign 1 [0xAA], .sign 2 [0xBB], .getKey, .sign 1 [0xCC], .ping]
def scdDemoSched : List Nat := [1, 1, 1, 1, 4, 4, 0, 0, 0, 0, 2, 2, 2, 3, 3, 3, 3]
example : ((run .locked scdDemoCalls init scdDemoSched).map fun s => (s.res 0, s.res 1, s.res 3, s.holder)) =
    some (some (some ⟨1, [0xAA]⟩), some (some ⟨2, [0xBB]⟩), some (some ⟨1, [0xCC]⟩), none) := by decide
/-- a schedule that tries to enter while the mutex is held is not admitted (that is what "respects the lock" means) -/
example : run .locked scdDemoCalls init [0, 1] = none := by decide

/-- **scd_sign_pair_not_atomic_without_lock.**  A: SETDATA dA; B: SETDATA dB; A: PKSIGN → the signature over dB. -/
theorem scd_sign_pair_not_atomic_without_lock :
    ∃ (calls : Nat → Call) (sched : List Nat) (s' : State) (kA : KeyId) (dA dB : Digest),
      run .unlocked calls init sched = some s' ∧ calls 0 = .sign kA dA ∧ dA ≠ dB ∧
      done .unlocked calls s' 0 ∧ done .unlocked calls s' 1 ∧
      s'.res 0 = some (some ⟨kA, dB⟩) := by
  refine ⟨ofList [.sign 1 [0xAA], .sign 2 [0xBB]], [0, 0, 1, 1, 0, 1, 0, 1], ?_⟩
  cases h : run .unlocked (ofList [.sign 1 [0xAA], .sign 2 [0xBB]]) init [0, 0, 1, 1, 0, 1, 0, 1] with
  | none => exact absurd h (by decide)
  | some s' =>
    refine ⟨s', 1, [0xAA], [0xBB], rfl, rfl, by decide, ?_, ?_, ?_⟩
    · have : (run .unlocked (ofList [.sign 1 [0xAA], .sign 2 [0xBB]]) init [0, 0, 1, 1, 0, 1, 0, 1]).map (fun s => s.pc 0) = some 4 := by decide
      rw [h] at this; simpa [done, ofList, prog, body] using this
    · have : (run .unlocked (ofList [.sign 1 [0xAA], .sign 2 [0xBB]]) init [0, 0, 1, 1, 0, 1, 0, 1]).map (fun s => s.pc 1) = some 4 := by decide
      rw [h] at this; simpa [done, ofList, prog, body] using this
    · have : (run .unlocked (ofList [.sign 1 [0xAA], .sign 2 [0xBB]]) init [0, 0, 1, 1, 0, 1, 0, 1]).map (fun s => s.res 0) =
          some (some (some ⟨1, [0xBB]⟩)) := by decide
      rw [h] at this; simpa using this

/-- the same schedule is simply not admitted under the lock discipline -/
example : run .locked (ofList [.sign 1 [0xAA], .sign 2 [0xBB]]) init [0, 0, 1, 1, 0, 1, 0, 1] = none := by decide


/-! ### the daemon side of the small-step model is what the line-level honest daemon does -/
open Relic.Assuan in
/-- **scd_daemon_refines_protocol.**  On an idle connection of the honest daemon (Relic.Assuan.honest, the behaviour the fake
    scdaemon of the harness implements): the line `SETDATA <HEX d>` that `ScdKey.Sign` sends makes `d` the stored value
    (`daemonStep _ (.setdata d)`), and `PKSIGN --hash=<h> <keyid>` answers with the signature of the key named over the value
    stored AT THAT MOMENT, whoever stored it (`daemonStep data (.pksign k)`), leaving it stored. -/
theorem scd_daemon_refines_protocol (h : Honest) (hi : h.awaiting = none) :
    (∀ d, honest.recv h (setdataCmd d) = ({ h with data := some d }, okLine, false) ∧
          daemonStep h.data (.setdata d) = (some d, none)) ∧
    (h.inqSign = false → ∀ (hash kid : Bytes) (s : Slot) (d : Bytes), (∀ x ∈ hash, x ≠ 32) →
        findSlot h kid = some s → s.kind = 0 → h.data = some d → hashLen hash = some d.length →
        honest.recv h (pksignLine hash kid) = (h, blobLines (h.sigOf s.n hash d) ++ okLine, false) ∧
        daemonStep h.data (.pksign s.n) = (h.data, some (some ⟨s.n, d⟩))) := by
  refine ⟨fun d => ⟨honest_recv_setdata h d hi, rfl⟩, ?_⟩
  intro hq hash kid s d hh hs hk hd hl
  refine ⟨?_, by simp [daemonStep, hd]⟩
  rw [honest_recv_pksign h hash kid hi hq hh, honestSign_signs_stored h hash kid s d hs hk hd hl]

/-- line level, end to end against the honest daemon: Open (LEARN, CHECKPIN), GetKey (READKEY), two Signs with different digests
    and keys: each signature is over the call's own digest by the call's own key, and the daemon saw whole SETDATA/PKSIGN pairs -/
def scdDemoPub (n _kind : Nat) : Bytes := Relic.Assuan.ascii "(10:public-key(3:rsa(1:n1:" ++ [UInt8.ofNat n] ++ Relic.Assuan.ascii ")(1:e1:" ++ [3] ++ Relic.Assuan.ascii ")))"
def scdDemoSig (n : Nat) (hash d : Bytes) : Bytes := [UInt8.ofNat n] ++ hash ++ d
def scdDemoHonest : Relic.Assuan.Honest :=
  { serial := Relic.Assuan.ascii "D276", pin := Relic.Assuan.ascii "123456", inqSign := true, slots := [⟨1, 0⟩, ⟨2, 0⟩], data := none,
    awaiting := none, answer := [], pubBlob := scdDemoPub, sigOf := scdDemoSig }
def scdDemoConf : TokenConf :=
  { serial := [], pin := some (Relic.Assuan.ascii "123456"), getter := none,
    keys := [⟨"k1", Relic.Assuan.ascii "OPENPGP.1"⟩, ⟨"k2", Relic.Assuan.ascii "OPENPGP.2"⟩] }
example :
    (match openToken Relic.Assuan.honest scdDemoHonest scdDemoConf with
     | (_, .ok t) =>
       match getKey Relic.Assuan.honest t "k1" with
       | (t, .ok k1) =>
         match getKey Relic.Assuan.honest t "k2" with
         | (t, .ok k2) =>
           match keySign Relic.Assuan.honest t k1 (List.replicate 20 0xAA) (.named (Relic.Assuan.ascii "sha1")) with
           | (t, .ok s1) =>
             match keySign Relic.Assuan.honest t k2 (List.replicate 32 0xBB) (.named (Relic.Assuan.ascii "sha256")) with
             | (t, .ok s2) => (s1 == scdDemoSig 1 (Relic.Assuan.ascii "sha1") (List.replicate 20 0xAA) &&
                 s2 == scdDemoSig 2 (Relic.Assuan.ascii "sha256") (List.replicate 32 0xBB), (t.sock.conn.log.drop 6).map fun l => l.take 7)
             | _ => (false, [])
           | _ => (false, [])
         | _ => (false, [])
       | _ => (false, [])
     | _ => (false, [])) =
    (true, [Relic.Assuan.ascii "SETDATA", Relic.Assuan.ascii "PKSIGN ", Relic.Assuan.ascii "D 12345", Relic.Assuan.ascii "END",
            Relic.Assuan.ascii "SETDATA", Relic.Assuan.ascii "PKSIGN ", Relic.Assuan.ascii "D 12345", Relic.Assuan.ascii "END"]) := by
  decide +kernel

/-! ### generated obligations (tools/extractscd → Relic.Generated.ScdLocks) -/
open Relic.ScdToken.Extract Relic.Generated.ScdLocks

/-- scdKey.Sign: first statement takes `key.token.mu`, second defers its release, no other lock operation, no goroutine or
    closure, and the card operation `key.key.Sign` is called inside -/
theorem scd_sign_holds_token_lock_generated : signDiscipline scdKeySign = .locked := by decide

/-- SignContext only delegates to Sign (so it inherits the lock span) -/
theorem scd_sign_context_delegates_generated : scdKeySignContext.calls = ["key.Sign"] ∧ scdKeySignContext.spawns = 0 := by decide

/-- GetKey, ListKeys, Ping, Close hold the same token mutex throughout -/
theorem scd_methods_hold_token_lock_generated :
    atomicBody tokGetKey = true ∧ atomicBody tokListKeys = true ∧ atomicBody tokPing = true ∧ atomicBody tokClose = true ∧
    mutexOf tokGetKey = "tok.mu" ∧ mutexOf tokListKeys = "tok.mu" ∧ mutexOf tokPing = "tok.mu" ∧ mutexOf tokClose = "tok.mu" := by decide

/-- Conn.Transact and Conn.Close hold `c.mu` throughout: one transaction is one atomic step of the connection -/
theorem assuan_transact_atomic_generated : atomicBody connTransact = true ∧ atomicBody connClose = true ∧
    mutexOf connTransact = "c.mu" ∧ connTransact.calls = ["errors.New", "c.write", "c.read"] := by decide

/-- ScdKey.Sign is exactly the two transactions of the model's `body (.sign k d)`, on the key's connection, and takes no lock itself -/
theorem scd_sign_two_transactions_generated :
    scdSignTransacts = ["k.conn|SETDATA %X|hashValue", "k.conn|PKSIGN --hash=%s %s\n|hashName,k.KeyId"] ∧ scdSignLockCalls = [] := by decide

/-- the check discriminates: the body of the seeded change (lock, read the pin, unlock, then sign) is classified `unlocked` -/
example : signDiscipline { scdKeySign with span := { scdKeySign.span with
    top := [.lock "key.token.mu", .other, .other, .other],
    lockCalls := [("key.token.mu", "Lock"), ("key.token.mu", "Unlock")] } } = .unlocked := by decide
example : signDiscipline { scdKeySign with spawns := 1 } = .unlocked := by decide
example : signDiscipline { scdKeySign with calls := [] } = .unlocked := by decide


/-! ### token/p11token: the same two-phase shape (code reading + T-gen; the package needs cgo and a PKCS#11 module to run)

  `(*Key).Sign` holds `key.token.mutex` and calls `signRSA` / `signECDSA`, each of which is `C_SignInit(session, mechanism, key)`
  followed by `C_Sign(session, digest)` on the token's ONE session handle: a PKCS#11 session has one active signing operation, so
  the pair must not interleave with another caller's.  `Sched` applies with the roles of the two components exchanged (phase one
  stores the key, phase two supplies the digest): `scd_sign_pair_atomic` is symmetric in them.  What is CHECKED here is the source
  shape, re-extracted on every run; there is no dynamic tie for this package. -/

def ctxCalls (m : Method) : List String := m.calls.filter fun c => c.startsWith "key.token.ctx."

/-- Key.Sign holds the token mutex across signRSA / signECDSA; SignContext only delegates -/
theorem p11_sign_holds_token_lock_generated :
    atomicBody p11KeySign = true ∧ mutexOf p11KeySign = "key.token.mutex" ∧
    p11KeySign.calls.contains "key.signRSA" = true ∧ p11KeySign.calls.contains "key.signECDSA" = true ∧
    p11KeySignContext.calls = ["key.Sign"] ∧ p11KeySignContext.spawns = 0 := by decide

/-- signRSA and signECDSA are SignInit then Sign on the session, take no lock themselves, start no goroutine -/
theorem p11_sign_two_phase_generated :
    ctxCalls p11SignRSA = ["key.token.ctx.SignInit", "key.token.ctx.Sign"] ∧
    ctxCalls p11SignECDSA = ["key.token.ctx.SignInit", "key.token.ctx.Sign"] ∧
    p11SignRSA.span.lockCalls = [] ∧ p11SignECDSA.span.lockCalls = [] ∧ p11SignRSA.spawns = 0 ∧ p11SignECDSA.spawns = 0 := by decide +kernel

/-- **the theorem about the code as extracted**: with the discipline read off the current source -/
theorem scd_sign_pair_atomic_generated (calls : Nat → Call) (sched : List Nat) (s' : State)
    (h : run (signDiscipline scdKeySign) calls init sched = some s') (i : Nat) (k : KeyId) (d : Digest) (hc : calls i = .sign k d)
    (hd : done (signDiscipline scdKeySign) calls s' i) : s'.res i = some (some ⟨k, d⟩) := by
  rw [scd_sign_holds_token_lock_generated] at h hd
  exact (scd_sign_pair_atomic calls sched s' h i k d hc).2 hd

end Relic.Props.C14

/-
  Relic.Spec.OpenPgp — a small independent reading of RFC 4880 for the parts of OpenPGP that relic's own code
  (lib/pgptools) has to satisfy: §4.2 packet headers (§4.2.1 old format, §4.2.2 new-format body lengths incl. partial
  lengths), §5.4 one-pass signature packets, §5.9 literal data packets, §11.3 one-pass signed messages, §7 the cleartext
  signature framework (§7.1 dash-escaped text).  Transcribed by hand from the RFC; shares no code with the model.
-/
import Relic.Base.Bytes
namespace Relic.Spec.OpenPgp
open Relic

/-! ### §4.2.2 new-format body lengths -/

inductive LenForm where
  | one | two | five | partialLen
  deriving DecidableEq, Repr

/-- §4.2.2.1 one-octet (0..191), §4.2.2.2 two-octet (192..8383: `((o1 - 192) << 8) + o2 + 192`), §4.2.2.3 five-octet
    (`255` then a four-octet big-endian scalar), §4.2.2.4 partial body length (`1 << (o1 & 0x1F)`, o1 in 224..254). -/
def decodeLength : Bytes → Option (LenForm × Nat × Bytes)
  | [] => none
  | o1 :: rest =>
    if o1.toNat < 192 then some (.one, o1.toNat, rest)
    else if o1.toNat < 224 then
      match rest with
      | o2 :: rest' => some (.two, (o1.toNat - 192) * 256 + o2.toNat + 192, rest')
      | [] => none
    else if o1.toNat < 255 then some (.partialLen, 2 ^ (o1.toNat % 32), rest)
    else
      match rest with
      | a :: b :: c :: d :: rest' =>
        some (.five, a.toNat * 2 ^ 24 + b.toNat * 2 ^ 16 + c.toNat * 2 ^ 8 + d.toNat, rest')
      | _ => none

/-- the form the RFC's ranges prescribe for a definite length ("a one-octet Body Length header encodes a length of 0 to
    191 octets", "a two-octet Body Length header encodes a length of 192 to 8383 octets", five-octet "up to 4,294,967,295") -/
def prescribedForm (n : Nat) : LenForm :=
  if n ≤ 191 then .one else if n ≤ 8383 then .two else .five

/-! ### §4.2 packets -/

structure Packet where
  tag : Nat
  body : Bytes
  deriving DecidableEq, Repr

/-- body of a new-format packet: a sequence of partial-length chunks closed by a definite-length chunk -/
def readBody : Nat → Bytes → Option (Bytes × Bytes)
  | 0, _ => none
  | fuel + 1, bs =>
    match decodeLength bs with
    | none => none
    | some (.partialLen, n, rest) =>
      if rest.length < n then none else
      match readBody fuel (rest.drop n) with
      | some (more, rest') => some (rest.take n ++ more, rest')
      | none => none
    | some (_, n, rest) => if rest.length < n then none else some (rest.take n, rest.drop n)

/-- one packet from the front of `bs`.  Bit 7 of the tag octet is always one; bit 6 selects the new format (tag = bits
    5..0); old format (§4.2.1): tag = bits 5..2, length type = bits 1..0 (1, 2, 4 octets, or indeterminate = to the end). -/
def parsePacket (bs : Bytes) : Option (Packet × Bytes) :=
  match bs with
  | [] => none
  | t :: rest =>
    if t.toNat ≥ 192 then
      match readBody (rest.length + 1) rest with
      | some (body, rest') => some (⟨t.toNat % 64, body⟩, rest')
      | none => none
    else if t.toNat ≥ 128 then
      let tag := t.toNat / 4 % 16
      match t.toNat % 4 with
      | 3 => some (⟨tag, rest⟩, [])
      | lt =>
        let w := 2 ^ lt
        if rest.length < w then none else
        let n := beVal (rest.take w)
        let r := rest.drop w
        if r.length < n then none else some (⟨tag, r.take n⟩, r.drop n)
    else none

/-- a sequence of packets covering `bs` exactly -/
def parsePackets : Nat → Bytes → Option (List Packet)
  | 0, _ => none
  | _ + 1, [] => some []
  | fuel + 1, bs =>
    match parsePacket bs with
    | some (p, rest) => (parsePackets fuel rest).map (p :: ·)
    | none => none

/-! ### §5.9 literal data, §5.4 one-pass signature -/

structure Literal where
  format : UInt8
  filename : Bytes
  date : Nat
  data : Bytes
  deriving DecidableEq, Repr

/-- §5.9: one octet format, one octet file name length, the name, a four-octet date, the rest is literal data -/
def parseLiteral : Bytes → Option Literal
  | fmt :: n :: rest =>
    if rest.length < n.toNat + 4 then none
    else some ⟨fmt, rest.take n.toNat, beVal ((rest.drop n.toNat).take 4), rest.drop (n.toNat + 4)⟩
  | _ => none

structure OnePass where
  sigType : UInt8
  hashAlgo : UInt8
  pkAlgo : UInt8
  keyId : Bytes
  last : Bool
  deriving DecidableEq, Repr

/-- §5.4: version 3, signature type, hash algorithm, public-key algorithm, eight-octet key ID, and a flag that is zero
    when another one-pass signature packet follows -/
def parseOnePass : Bytes → Option OnePass
  | v :: st :: h :: pk :: rest =>
    if v = 3 ∧ rest.length = 9 then some ⟨st, h, pk, rest.take 8, (rest.drop 8).head? ≠ some 0⟩ else none
  | _ => none

structure SignedMessage where
  onePass : OnePass
  literal : Literal
  signature : Bytes          -- body of the signature packet
  deriving DecidableEq, Repr

/-- §11.3 "One-Pass Signed Message :- One-Pass Signature Packet, OpenPGP Message, Corresponding Signature Packet" with a
    literal message, nothing before, between or behind -/
def parseSignedMessage (bs : Bytes) : Option SignedMessage :=
  match parsePackets 4 bs with
  | some [p1, p2, p3] =>
    if p1.tag = 4 ∧ p2.tag = 11 ∧ p3.tag = 2 then
      match parseOnePass p1.body, parseLiteral p2.body with
      | some op, some lit => some ⟨op, lit, p3.body⟩
      | _, _ => none
    else none
  | _ => none

/-! ### §7 cleartext signature framework -/

def beginSigned : Bytes := ([45, 45, 45, 45, 45, 66, 69, 71, 73, 78, 32, 80, 71, 80, 32, 83, 73, 71, 78, 69, 68, 32, 77, 69, 83, 83, 65, 71, 69, 45, 45, 45, 45, 45] : Bytes)  /- -----BEGIN PGP SIGNED MESSAGE----- -/
def beginSignature : Bytes := ([45, 45, 45, 45, 45, 66, 69, 71, 73, 78, 32, 80, 71, 80, 32, 83, 73, 71, 78, 65, 84, 85, 82, 69, 45, 45, 45, 45, 45] : Bytes)  /- -----BEGIN PGP SIGNATURE----- -/
def crlf : Bytes := [13, 10]

/-- the pieces between line feeds (never the empty list) -/
def splitLF : Bytes → List Bytes
  | [] => [[]]
  | b :: bs =>
    if b = 10 then [] :: splitLF bs
    else match splitLF bs with
      | l :: ls => (b :: l) :: ls
      | [] => [[b]]

/-- drop one carriage return at the end of a line (the line ending is <CR><LF> or a bare <LF>) -/
def dropCR (l : Bytes) : Bytes :=
  match l.reverse with
  | 13 :: r => r.reverse
  | _ => l

/-- the lines of a text: pieces between line feeds, each without its carriage return; a final unterminated piece counts
    as a line when it is not empty -/
def lines (bs : Bytes) : List Bytes :=
  let ps := (splitLF bs).map dropCR
  if ps.getLast? = some [] then ps.dropLast else ps

/-- §7.1 reverse of dash-escaping: "- " in front of a line is removed -/
def dashUnescape : Bytes → Bytes
  | 45 :: 32 :: l => l
  | l => l

def isBlank (b : UInt8) : Bool := b = 32 || b = 9

/-- §7.1 "any trailing whitespace -- spaces (0x20) and tabs (0x09) -- at the end of any line is removed when the
    cleartext signature is generated" -/
def stripTrailing (l : Bytes) : Bytes := (l.reverse.dropWhile isBlank).reverse

/-- join with <CR><LF>; "the line ending before the '-----BEGIN PGP SIGNATURE-----' line that terminates the signed text
    is not considered part of the signed text" -/
def joinCRLF : List Bytes → Bytes
  | [] => []
  | [l] => l
  | l :: ls => l ++ crlf ++ joinCRLF ls

/-- the octets the signature is computed over, from the dash-escaped lines of the message -/
def signedText (escaped : List Bytes) : Bytes := joinCRLF (escaped.map fun l => stripTrailing (dashUnescape l))

structure Cleartext where
  hashes : List Bytes        -- values of the Hash armor headers
  text : List Bytes          -- dash-escaped text lines
  armor : List Bytes         -- lines of the armored signature, from the BEGIN PGP SIGNATURE line on
  deriving DecidableEq, Repr

def hashPrefix : Bytes := ([72, 97, 115, 104, 58, 32] : Bytes)  /- Hash:  -/

/-- header lines up to the empty line: only "Hash" armor headers are allowed (§7) -/
def headerLines : List Bytes → Option (List Bytes × List Bytes)
  | [] => none
  | l :: ls =>
    if l = [] then some ([], ls)
    else if hashPrefix.isPrefixOf l then (headerLines ls).map fun (hs, r) => (l.drop 6 :: hs, r)
    else none

def splitAtSignature : List Bytes → Option (List Bytes × List Bytes)
  | [] => none
  | l :: ls =>
    if l = beginSignature then some ([], l :: ls)
    else (splitAtSignature ls).map fun (t, a) => (l :: t, a)

/-- §7: the cleartext header line, Hash armor headers, one empty line, the dash-escaped cleartext, the armored signature -/
def parseCleartextLines : List Bytes → Option Cleartext
  | first :: rest =>
    if first = beginSigned then
      match headerLines rest with
      | some (hs, body) => (splitAtSignature body).map fun (t, a) => ⟨hs, t, a⟩
      | none => none
    else none
  | [] => none

def parseCleartext (bs : Bytes) : Option Cleartext := parseCleartextLines (lines bs)

end Relic.Spec.OpenPgp

/- the in-place strategy equals the reference; sort lemmas (C12) -/
import Relic.Proofs.Binpatch
namespace Relic.Binpatch
open Relic

theorem splice_comm (h : Bytes) (a o1 c o2 : Nat) (b1 b2 : Bytes)
    (h1 : a + o1 ≤ c) (hc : c ≤ h.length) :
    splice (splice h a o1 b1) c o2 b2 = splice (splice h c o2 b2) a o1 b1 ∨ b1.length ≠ o1 := by
  by_cases hb : b1.length = o1
  · left
    unfold splice
    have la : (List.take a h).length = a := by simp [List.length_take]; omega
    have lc : (List.take c h).length = c := by simp [List.length_take]; omega
    -- left side
    have L1 : List.take c (List.take a h ++ b1 ++ List.drop (a + o1) h)
        = List.take a h ++ b1 ++ List.take (c - (a + o1)) (List.drop (a + o1) h) := by
      rw [List.take_append, List.take_of_length_le (by simp [la, hb]; omega)]
      simp [la, hb]
    have L2 : List.drop (c + o2) (List.take a h ++ b1 ++ List.drop (a + o1) h) = List.drop (c + o2) h := by
      rw [List.drop_append, List.drop_of_length_le (by simp [la, hb]; omega)]
      simp [la, hb]
      congr 1; omega
    -- right side
    have R1 : List.take a (List.take c h ++ b2 ++ List.drop (c + o2) h) = List.take a h := by
      rw [List.append_assoc, List.take_append_of_le_length (by omega), List.take_take]
      congr 1; omega
    have R2 : List.drop (a + o1) (List.take c h ++ b2 ++ List.drop (c + o2) h)
        = List.drop (a + o1) (List.take c h) ++ b2 ++ List.drop (c + o2) h := by
      rw [List.append_assoc, List.drop_append_of_le_length (by omega), List.append_assoc]
    rw [L1, L2, R1, R2, List.drop_take]
    simp [List.append_assoc]
  · right; exact hb

theorem splice_comm' (h : Bytes) (a c o2 : Nat) (b1 b2 : Bytes)
    (h1 : a + b1.length ≤ c) (hc : c ≤ h.length) :
    splice (splice h a b1.length b1) c o2 b2 = splice (splice h c o2 b2) a b1.length b1 := by
  rcases splice_comm h a b1.length c o2 b1 b2 h1 hc with e | e
  · exact e
  · exact absurd rfl e

/-- a size-preserving patch in front commutes with everything behind it -/
theorem sem_splice_front (g : Bytes) (p : Patch) (ps : List Patch) (hs : p.blob.length = p.old)
    (hp : p.off + p.old ≤ g.length) (w : wfFrom g.length (p.off + p.old) ps = true) :
    sem (splice g p.off p.old p.blob) ps = splice (sem g ps) p.off p.old p.blob := by
  induction ps generalizing p with
  | nil => rfl
  | cons q qs ih =>
    simp [wfFrom] at w
    have wq : wfFrom g.length (p.off + p.old) qs = true := wfFrom_mono _ _ _ _ (by omega) w.2
    rw [sem_cons, ih p hs hp wq, sem_cons]
    have hl := le_length_sem g (q.off + q.old) qs w.1.2 w.2
    rw [← hs]
    rw [← hs] at w
    exact splice_comm' (sem g qs) p.off q.off q.old p.blob q.blob w.1.1 (by omega)

theorem writeAt_same (g : Bytes) (off : Nat) (b : Bytes) (h : off + b.length ≤ g.length) :
    writeAt g off b = splice g off b.length b := by
  unfold writeAt splice
  by_cases he : b.isEmpty
  · simp at he; subst he; simp
  · have : off - g.length = 0 := by omega
    simp [he, this]

theorem splice_same_length (g : Bytes) (off : Nat) (b : Bytes) (h : off + b.length ≤ g.length) :
    (splice g off b.length b).length = g.length := by
  rw [splice_length]; omega

theorem inplace_spec (ps : List Patch) : ∀ (g : Bytes) (pos size : Nat),
    wfFrom g.length pos ps = true → inPlaceSize g.length ps g.length = some size →
    applyInPlace g ps size = sem g ps := by
  induction ps with
  | nil =>
    intro g pos size _ hs
    simp [inPlaceSize] at hs
    simp [applyInPlace, truncate, sem, ← hs]
  | cons p ps ih =>
    intro g pos size w hs
    simp [wfFrom] at w
    simp only [inPlaceSize] at hs
    by_cases hsame : p.old = p.blob.length
    · rw [if_pos hsame] at hs
      have hr : p.off + p.blob.length ≤ g.length := by omega
      have e := writeAt_same g p.off p.blob hr
      have l := splice_same_length g p.off p.blob hr
      unfold applyInPlace
      simp only [List.foldl_cons]
      rw [e]
      have w' : wfFrom (splice g p.off p.blob.length p.blob).length (p.off + p.old) ps = true := by rw [l]; exact w.2
      have hs' : inPlaceSize (splice g p.off p.blob.length p.blob).length ps (splice g p.off p.blob.length p.blob).length = some size := by
        rw [l]; exact hs
      have := ih _ _ _ w' hs'
      unfold applyInPlace at this
      rw [this, ← hsame, sem_splice_front g p ps hsame.symm w.1.2 w.2]
      rfl
    · rw [if_neg hsame] at hs
      cases ps with
      | cons q qs => simp at hs
      | nil =>
        simp at hs
        by_cases he : p.off + p.old = g.length
        · simp [he, inPlaceSize] at hs
          subst hs
          unfold applyInPlace truncate writeAt sem splice
          simp only [List.foldl_cons, List.foldl_nil, List.foldr_cons, List.foldr_nil]
          have z : p.off - g.length = 0 := by omega
          by_cases hb : p.blob.isEmpty
          · simp at hb
            simp [hb, he]
            exact z
          · simp [hb, z, he]
            have m : min p.off g.length = p.off := by omega
            have l1 : (List.take p.off g).length = p.off := by simp [List.length_take]; omega
            have r0 : p.off + p.blob.length -
                (min p.off g.length + (p.blob.length + (g.length - (p.off + p.blob.length)))) = 0 := by omega
            rw [r0, ← List.append_assoc, List.take_append_of_le_length (by simp [l1])]
            rw [List.take_of_length_le (by simp [l1])]
            simp
        · simp [he] at hs

end Relic.Binpatch

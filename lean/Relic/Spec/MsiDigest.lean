/-
  Relic.Spec.MsiDigest — the MSI Authenticode digest input written from the public descriptions,
  independently of relic's code.  Microsoft does not publish the algorithm of msisip.dll; the
  reference everybody (wine's test-suite, relic, jsign) follows is **osslsigncode** (`msi.c`), whose
  signatures Windows accepts.  Source followed here: osslsigncode 2.x `msi.c`

    static int dirent_cmp_hash(const MSI_ENTRY *const *a, const MSI_ENTRY *const *b) {
        int diff = memcmp(dirent_a->name, dirent_b->name, MIN(dirent_a->nameLen, dirent_b->nameLen));
        /* apparently the longer wins */
        if (diff == 0) return dirent_a->nameLen > dirent_b->nameLen ? -1 : 1;
        return diff; }

  (`name` = the raw 64-byte UTF-16LE field, `nameLen` = its byte count *including* the terminator),
  `msi_hash_dir(msi, dirent, hash, is_root)` (children sorted with it; the entries named
  "\005DigitalSignature" and "\005MsiDigitalSignatureEx" are skipped `if (is_root && …)`, i.e. in the
  root storage only – transcribed from memory of the 2.x source, the sandbox is offline; a stream's
  whole content is hashed; a sub-storage is hashed recursively; after the children the storage's
  16-byte CLSID) and `msi_prehash_dir` (MsiDigitalSignatureEx: per entry, the
  name bytes without terminator (not for the root), the CLSID for storages / the 4-byte size for
  streams, the 4 state-bits bytes, creation and modification time (not for the root); the storage's own
  metadata first, then the children in the same sorted order).
  For well-formed names (terminated, no embedded NUL, pairwise distinct) `dirent_cmp_hash` is the
  order of osslsigncode 1.x `msi_cmp` / libgsf: compare the UTF-16LE *bytes* of the names without
  terminator up to the shorter length, a proper prefix first (`specBefore_eq_keyLt` in
  `Relic.Proofs.MsiDigest`): the memcmp reaches the shorter name's terminator before the tie-break.

  Shares with `Relic.Model.MsiDigest` only the data types `Meta` / `Node` and the two name constants.
-/
import Relic.Model.MsiDigest
namespace Relic.Spec.MsiDigest
open Relic Relic.MsiDigest

/-- the raw name field as bytes (UTF-16LE) -/
def nameField (m : Meta) : List Nat := m.slots.flatMap (fun u => [u % 256, u / 256])

/-- `memcmp(a, b, n)` -/
def memcmp : List Nat → List Nat → Nat → Ordering
  | _, _, 0 => .eq
  | x :: xs, y :: ys, n + 1 => if x < y then .lt else if y < x then .gt else memcmp xs ys n
  | _, _, _ + 1 => .eq

/-- `dirent_cmp_hash(a, b) < 0` -/
def specBefore (a b : Meta) : Bool :=
  match memcmp (nameField a) (nameField b) (min a.nameLen b.nameLen) with
  | .lt => true
  | .gt => false
  | .eq => decide (a.nameLen > b.nameLen)

/-- the name as the specification reads it: the code units before the terminator -/
def specName (m : Meta) : List Nat := m.slots.take (m.nameLen / 2 - 1)

def isSignatureStream (m : Meta) : Bool := specName m = sigName || specName m = sigExName

/-- sorted insertion / the digest order of a list of entries, each carrying its contribution -/
def insertSorted {β : Type} (x : Meta × β) : List (Meta × β) → List (Meta × β)
  | [] => [x]
  | y :: r => if specBefore x.1 y.1 then x :: y :: r else y :: insertSorted x r

def digestOrder {β : Type} (l : List (Meta × β)) : List (Meta × β) := l.foldr insertSorted []

/-- hash input of a storage, given the hash inputs of its children -/
def dirInput (isRoot : Bool) (clsid : Bytes) (kids : List (Meta × Bytes)) : Bytes :=
  ((digestOrder kids).filter (fun k => !(isRoot && isSignatureStream k.1))).flatMap (·.2) ++ clsid

mutual
def entryInput : Node → Meta × Bytes
  | .mk m content kids =>
    (m, if m.typ = 2 then content else if m.typ = 1 then dirInput false m.clsid (entriesInput kids) else [])
def entriesInput : List Node → List (Meta × Bytes)
  | [] => []
  | n :: r => entryInput n :: entriesInput r
end

/-- the byte stream whose hash is the MSI Authenticode imprint (without the extended pre-hash) -/
def hashInput (root : Node) : Bytes := dirInput true root.meta.clsid (entriesInput root.kids)

/-- metadata of one entry as hashed for MsiDigitalSignatureEx -/
def metaInput (m : Meta) (isRoot : Bool) : Bytes :=
  (if isRoot then [] else ((nameField m).take (m.nameLen - 2)).map UInt8.ofNat) ++
  (if m.typ = 2 then leBytes 4 m.size else m.clsid) ++
  leBytes 4 m.state ++
  (if isRoot then [] else leBytes 8 m.ctime ++ leBytes 8 m.mtime)

def dirMetaInput (m : Meta) (isRoot : Bool) (kids : List (Meta × Bytes)) : Bytes :=
  metaInput m isRoot ++ ((digestOrder kids).filter (fun k => !(isRoot && isSignatureStream k.1))).flatMap (·.2)

mutual
def entryMeta : Node → Meta × Bytes
  | .mk m _ kids =>
    (m, if m.typ = 2 then metaInput m false else if m.typ = 1 then dirMetaInput m false (entriesMeta kids) else [])
def entriesMeta : List Node → List (Meta × Bytes)
  | [] => []
  | n :: r => entryMeta n :: entriesMeta r
end

/-- the byte stream whose hash is the MsiDigitalSignatureEx blob -/
def prehashInput (root : Node) : Bytes := dirMetaInput root.meta true (entriesMeta root.kids)

/-- the complete hash input: for the extended form the pre-hash *digest* comes first -/
def digestInput (H : Bytes → Bytes) (root : Node) (extended : Bool) : Bytes :=
  (if extended then H (prehashInput root) else []) ++ hashInput root

end Relic.Spec.MsiDigest

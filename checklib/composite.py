"""Helper for properties whose correspondence run is made of several format models (PE, CAB, PS, …).
A property module does:   from composite import install;  install(globals(), "C08", ["pe", …])
and gets canon_model / equiv / predicate / nontrivial / branch / matches_known that dispatch on the first
token of each op line to checklib/models/<model>.py."""
import importlib, os, sys

sys.path.insert(0, os.path.join(os.path.dirname(os.path.abspath(__file__)), "models"))


def install(g, prop, model_names):
    mods = {}
    for n in model_names:
        m = importlib.import_module(n)
        for tok in getattr(m, "TOKENS", [n.upper()]):
            mods[tok] = m

    def pick(op):
        return mods.get(op.split(" ", 1)[0])

    def canon_model(op, mres):
        m = pick(op)
        return m.canon_model(op, mres) if m and hasattr(m, "canon_model") else mres

    def equiv(op, il, mres):
        m = pick(op)
        if m and hasattr(m, "equiv"):
            return m.equiv(op, il, mres)
        return il == mres

    def predicate(op, il, mres, tag):
        m = pick(op)
        return m.predicate(prop, op, il, mres, tag) if m else None

    def nontrivial(op, mres, tag):
        m = pick(op)
        return m.nontrivial(op, mres, tag) if m else False

    def branch(op, mres, tag):
        m = pick(op)
        return m.branch(op, mres, tag) if m else "?"

    def matches_known(k, op, il, mres, tag):
        m = pick(op)
        return m.matches_known(k, op, il, mres, tag) if m and hasattr(m, "matches_known") else False

    def weight(op):
        m = pick(op)
        return m.weight(op) if m and hasattr(m, "weight") else 1

    g.update(weight=weight, canon_model=canon_model, equiv=equiv, predicate=predicate, nontrivial=nontrivial, branch=branch,
             matches_known=matches_known)
    rules, trusted, assumptions = [], [], []
    for n in model_names:
        m = importlib.import_module(n)
        rules.append(m.RULE)
        trusted += getattr(m, "TRUSTED", [])
        assumptions += getattr(m, "ASSUMPTIONS", [])
    g.setdefault("RULE", " || ".join(rules))
    g["TRUSTED"] = list(g.get("TRUSTED", [])) + trusted
    g["ASSUMPTIONS"] = list(g.get("ASSUMPTIONS", [])) + assumptions

module verifharness

go 1.23

require (
	github.com/ProtonMail/go-crypto v1.0.0
	github.com/beevik/etree v1.4.1
	github.com/blakesmith/ar v0.0.0-20190502131153-809d4375e1fb
	github.com/rs/zerolog v1.33.0
	github.com/sassoftware/relic/v8 v8.0.0
	github.com/spf13/cobra v1.8.1
	software.sslmate.com/src/go-pkcs12 v0.5.0
)

require (
	cloud.google.com/go/auth v0.9.9 // indirect
	cloud.google.com/go/auth/oauth2adapt v0.2.4 // indirect
	cloud.google.com/go/compute/metadata v0.5.2 // indirect
	cloud.google.com/go/iam v1.2.1 // indirect
	cloud.google.com/go/kms v1.20.1 // indirect
	cloud.google.com/go/longrunning v0.6.1 // indirect
	github.com/Azure/azure-sdk-for-go/sdk/azcore v1.16.0 // indirect
	github.com/Azure/azure-sdk-for-go/sdk/azidentity v1.8.0 // indirect
	github.com/Azure/azure-sdk-for-go/sdk/internal v1.10.0 // indirect
	github.com/Azure/azure-sdk-for-go/sdk/security/keyvault/azcertificates v1.2.0 // indirect
	github.com/Azure/azure-sdk-for-go/sdk/security/keyvault/azkeys v1.2.0 // indirect
	github.com/Azure/azure-sdk-for-go/sdk/security/keyvault/internal v1.1.0 // indirect
	github.com/AzureAD/microsoft-authentication-library-for-go v1.3.2 // indirect
	github.com/DataDog/zstd v1.5.5 // indirect
	github.com/aws/aws-sdk-go-v2 v1.32.7 // indirect
	github.com/aws/aws-sdk-go-v2/config v1.28.7 // indirect
	github.com/aws/aws-sdk-go-v2/credentials v1.17.48 // indirect
	github.com/aws/aws-sdk-go-v2/feature/ec2/imds v1.16.22 // indirect
	github.com/aws/aws-sdk-go-v2/internal/configsources v1.3.26 // indirect
	github.com/aws/aws-sdk-go-v2/internal/endpoints/v2 v2.6.26 // indirect
	github.com/aws/aws-sdk-go-v2/internal/ini v1.8.1 // indirect
	github.com/aws/aws-sdk-go-v2/service/internal/accept-encoding v1.12.1 // indirect
	github.com/aws/aws-sdk-go-v2/service/internal/presigned-url v1.12.7 // indirect
	github.com/aws/aws-sdk-go-v2/service/kms v1.37.8 // indirect
	github.com/aws/aws-sdk-go-v2/service/sso v1.24.8 // indirect
	github.com/aws/aws-sdk-go-v2/service/ssooidc v1.28.7 // indirect
	github.com/aws/aws-sdk-go-v2/service/sts v1.33.3 // indirect
	github.com/aws/smithy-go v1.22.1 // indirect
	github.com/beorn7/perks v1.0.1 // indirect
	github.com/bradfitz/gomemcache v0.0.0-20230905024940-24af94b03874 // indirect
	github.com/cespare/xxhash/v2 v2.3.0 // indirect
	github.com/cli/browser v1.3.0 // indirect
	github.com/cloudflare/circl v1.3.8 // indirect
	github.com/felixge/httpsnoop v1.0.4 // indirect
	github.com/go-asn1-ber/asn1-ber v1.5.7 // indirect
	github.com/go-chi/chi/v5 v5.2.0 // indirect
	github.com/go-jose/go-jose/v4 v4.0.4 // indirect
	github.com/go-logr/logr v1.4.2 // indirect
	github.com/go-logr/stdr v1.2.2 // indirect
	github.com/godbus/dbus/v5 v5.1.0 // indirect
	github.com/golang-jwt/jwt/v5 v5.2.1 // indirect
	github.com/golang/groupcache v0.0.0-20210331224755-41bb18bfe9da // indirect
	github.com/golang/snappy v0.0.4 // indirect
	github.com/google/btree v1.0.0 // indirect
	github.com/google/s2a-go v0.1.8 // indirect
	github.com/google/uuid v1.6.0 // indirect
	github.com/googleapis/enterprise-certificate-proxy v0.3.4 // indirect
	github.com/googleapis/gax-go/v2 v2.13.0 // indirect
	github.com/gregjones/httpcache v0.0.0-20190611155906-901d90724c79 // indirect
	github.com/howeyc/gopass v0.0.0-20210920133722-c8aef6fb66ef // indirect
	github.com/klauspost/compress v1.17.9 // indirect
	github.com/kr/pretty v0.3.1 // indirect
	github.com/kr/text v0.2.0 // indirect
	github.com/kylelemons/godebug v1.1.0 // indirect
	github.com/mattn/go-colorable v0.1.13 // indirect
	github.com/mattn/go-isatty v0.0.19 // indirect
	github.com/miekg/pkcs11 v1.1.1 // indirect
	github.com/munnerz/goautoneg v0.0.0-20191010083416-a7dc8b61c822 // indirect
	github.com/opencontainers/go-digest v1.0.0 // indirect
	github.com/opencontainers/image-spec v1.1.0 // indirect
	github.com/peterbourgon/diskv v2.0.1+incompatible // indirect
	github.com/pkg/browser v0.0.0-20240102092130-5ac0b6a4141c // indirect
	github.com/prometheus/client_golang v1.20.5 // indirect
	github.com/prometheus/client_model v0.6.1 // indirect
	github.com/prometheus/common v0.55.0 // indirect
	github.com/prometheus/procfs v0.15.1 // indirect
	github.com/rogpeppe/go-internal v1.12.0 // indirect
	github.com/rs/xid v1.5.0 // indirect
	github.com/sassoftware/go-rpmutils v0.4.0
	github.com/spf13/pflag v1.0.5 // indirect
	github.com/streadway/amqp v1.1.0 // indirect
	github.com/ulikunitz/xz v0.5.12 // indirect
	github.com/xi2/xz v0.0.0-20171230120015-48954b6210f8 // indirect
	github.com/zalando/go-keyring v0.2.6 // indirect
	go.opencensus.io v0.24.0 // indirect
	go.opentelemetry.io/contrib/instrumentation/google.golang.org/grpc/otelgrpc v0.54.0 // indirect
	go.opentelemetry.io/contrib/instrumentation/net/http/otelhttp v0.54.0 // indirect
	go.opentelemetry.io/otel v1.29.0 // indirect
	go.opentelemetry.io/otel/metric v1.29.0 // indirect
	go.opentelemetry.io/otel/trace v1.29.0 // indirect
	golang.org/x/crypto v0.32.0 // indirect
	golang.org/x/net v0.34.0 // indirect
	golang.org/x/oauth2 v0.25.0 // indirect
	golang.org/x/sync v0.10.0 // indirect
	golang.org/x/sys v0.29.0 // indirect
	golang.org/x/term v0.28.0 // indirect
	golang.org/x/text v0.21.0 // indirect
	golang.org/x/time v0.9.0 // indirect
	google.golang.org/api v0.203.0 // indirect
	google.golang.org/genproto v0.0.0-20241021214115-324edc3d5d38 // indirect
	google.golang.org/genproto/googleapis/api v0.0.0-20241015192408-796eee8c2d53 // indirect
	google.golang.org/genproto/googleapis/rpc v0.0.0-20241015192408-796eee8c2d53 // indirect
	google.golang.org/grpc v1.67.1 // indirect
	google.golang.org/protobuf v1.35.1 // indirect
	gopkg.in/yaml.v3 v3.0.1 // indirect
	howett.net/plist v1.0.1 // indirect
)

replace github.com/sassoftware/relic/v8 => /repo

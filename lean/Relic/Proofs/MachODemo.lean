/- concrete thin Mach-O images used as witnesses / non-vacuity instances in Props/C01_MachOLocate.lean and C01_MachOFull.lean
   (kept out of the Props file: every `theorem` there is audited under its top-level name) -/
import Relic.Proofs.MachOSigned
import Relic.Proofs.MachOGuards
namespace Relic.Props.C01
open Relic Relic.MachO Relic.CodeDir Relic.Binpatch

namespace Demo

def le32 (v : Nat) : Bytes := leBytes 4 v
def le64 (v : Nat) : Bytes := leBytes 8 v
/-- "__LINKEDIT" -/
def leName : Bytes := [95, 95, 76, 73, 78, 75, 69, 68, 73, 84]

/-- LC_SEGMENT_64 `__LINKEDIT`, no sections, file range `[off, off+sz)` -/
def leSeg (off sz : Nat) : Bytes :=
  le32 0x19 ++ le32 72 ++ leName ++ zeros 6 ++ le64 0 ++ le64 0 ++ le64 off ++ le64 sz ++ le32 0 ++ le32 0 ++ le32 0 ++ le32 0

/-- a minimal regular 64-bit little-endian image: header, one __LINKEDIT segment command, 16 bytes of link-edit data -/
def fGood : Bytes :=
  le32 0xfeedfacf ++ le32 0 ++ le32 0 ++ le32 2 ++ le32 1 ++ le32 72 ++ le32 0 ++ le32 0 ++ leSeg 104 16 ++ zeros 16

/-- the same with an (empty) LC_SYMTAB command in front: accepted by `scanFile`, by the real `debug/macho`, but
    "unmodelled" for the model's `loadLoop` -/
def fSym : Bytes :=
  le32 0xfeedfacf ++ le32 0 ++ le32 0 ++ le32 2 ++ le32 2 ++ le32 96 ++ le32 0 ++ le32 0 ++
    (le32 2 ++ le32 24 ++ zeros 16) ++ leSeg 128 16 ++ zeros 16

/-- SHA-256, identifier "A", nothing else -/
def p0 : SignParams := ⟨5, 0, [65], [], 0, 0, 0, none, none, none, none, none, none⟩

def mGood : Markers := ⟨false, 0xfeedfacf, 0, 0, 0, 32, 104, 16, 104, 2 ^ 63 - 1, 120, 104⟩
def mSym : Markers := ⟨false, 0xfeedfacf, 0, 0, 0, 56, 128, 16, 128, 2 ^ 63 - 1, 144, 128⟩

/-- an empty embedded-signature superblob -/
def emptySuper : Bytes := [0xfa, 0xde, 0x0c, 0xc0, 0, 0, 0, 12, 0, 0, 0, 0]

/-- a signed image: __LINKEDIT, LC_CODE_SIGNATURE (offset 136, length `n`), 16 bytes of link-edit data and an old
    signature region of `n ≥ 12` bytes holding an empty superblob -/
def fSigned (n : Nat) : Bytes :=
  le32 0xfeedfacf ++ le32 0 ++ le32 0 ++ le32 2 ++ le32 2 ++ le32 88 ++ le32 0 ++ le32 0 ++ leSeg 120 (16 + n) ++
    (le32 0x1d ++ le32 16 ++ le32 136 ++ le32 n) ++ zeros 16 ++ emptySuper ++ zeros (n - 12)

def mSigned (n : Nat) : Markers := ⟨false, 0xfeedfacf, 136, n, 104, 32, 120, 16 + n, 120, 2 ^ 63 - 1, 136, 120⟩

theorem scan_fOld : scanOrig (fSigned 16) = .ok (mSigned 16) := by rw [scan_eq_L]; decide +kernel
theorem sign_fOld_ok : (signOrig (fSigned 16) p0).isOk = true :=
  (congrArg Res.isOk (sign_of_scan _ p0 _ scan_fOld)).trans (by decide +kernel)
theorem scan_fReuse : scanOrig (fSigned 16392) = .ok (mSigned 16392) := by rw [scan_eq_L]; decide +kernel
theorem sign_fReuse_ok : (signOrig (fSigned 16392) p0).isOk = true :=
  (congrArg Res.isOk (sign_of_scan _ p0 _ scan_fReuse)).trans (by decide +kernel)

/-- `fGood` with `sizeofcmds = 80`: 8 zero bytes of slack behind the only (72-byte) command -/
def fSlack : Bytes :=
  le32 0xfeedfacf ++ le32 0 ++ le32 0 ++ le32 2 ++ le32 1 ++ le32 80 ++ le32 0 ++ le32 0 ++ leSeg 112 16 ++ zeros 8 ++ zeros 16
def mSlack : Markers := ⟨false, 0xfeedfacf, 0, 0, 0, 32, 112, 16, 112, 2 ^ 63 - 1, 128, 112⟩
theorem scan_fSlack : scanOrig fSlack = .ok mSlack := by rw [scan_eq_L]; decide +kernel
theorem sign_fSlack_ok : (signOrig fSlack p0).isOk = true :=
  (congrArg Res.isOk (sign_of_scan fSlack p0 mSlack scan_fSlack)).trans (by decide +kernel)

theorem scan_fGood : scanOrig fGood = .ok mGood := by rw [scan_eq_L]; decide +kernel
theorem scan_fSym : scanOrig fSym = .ok mSym := by rw [scan_eq_L]; decide +kernel

theorem sign_fGood_ok : (signOrig fGood p0).isOk = true :=
  (congrArg Res.isOk (sign_of_scan fGood p0 mGood scan_fGood)).trans (by decide +kernel)
theorem sign_fSym_ok : (signOrig fSym p0).isOk = true :=
  (congrArg Res.isOk (sign_of_scan fSym p0 mSym scan_fSym)).trans (by decide +kernel)

/-! ### the same images under the current `scanFile` / `Sign` (guards of F-MACHO-4 and F-MACHO-3) -/

theorem scanNew_fGood : scan fGood = .ok mGood := (scan_ok_iff _ _).mpr ⟨scan_fGood, by decide +kernel⟩
theorem scanNew_fSym : scan fSym = .ok mSym := (scan_ok_iff _ _).mpr ⟨scan_fSym, by decide +kernel⟩
theorem scanNew_fOld : scan (fSigned 16) = .ok (mSigned 16) := (scan_ok_iff _ _).mpr ⟨scan_fOld, by decide +kernel⟩
theorem scanNew_fReuse : scan (fSigned 16392) = .ok (mSigned 16392) := (scan_ok_iff _ _).mpr ⟨scan_fReuse, by decide +kernel⟩
/-- the witness of F-MACHO-4 is refused by the current `scanFile` -/
theorem scanNew_fSlack : scan fSlack = .err "slack" :=
  scan_slack_refused fSlack mSlack scan_fSlack rfl (by decide +kernel)

/-- a success of the old `Sign` on an image whose (current) scan is known and on which the size guard does not fire is a
    success of the current `Sign` with the same result -/
theorem signNew_of (f : Bytes) (m : Markers) (so : SignOut) (hso : signOrig f p0 = .ok so) (ho : scanOrig f = .ok m)
    (hn : scan f = .ok m) (hr : ¬ estRange m (hashSizeOf p0.hash))
    (hg : ¬ sizeGuard m (estI m (hashSizeOf p0.hash) ((p0.entitlement.map (·.length)).getD 0)
      ((p0.requirements.map (·.length)).getD 0))) : sign f p0 = .ok so := by
  obtain ⟨_, _, _, hpl, _⟩ := sign_inv f p0 so hso
  have hm : so.plan.m = m := by
    have := (plan_inv f _ _ _ _ hpl).1
    rw [ho] at this; injection this with this; exact this.symm
  exact sign_of_orig f p0 so hso (by rw [hm]; exact hn) (by rw [hm]; exact hr) (by rw [hm]; exact hg)

end Demo

end Relic.Props.C01

/-
  Relic.Proofs.ReaderProgs — which primitives the digester programs use (`Prog.Free`): the side conditions of
  `run_flat` for `digestPE`, `digestCabOrig`, `digestPS`.
-/
import Relic.Proofs.ReaderCalc
import Relic.Model.ReaderProgs
namespace Relic.Rd
open Relic

/-- `Free r p b q`: no raw `Read` when `r`, no probe when `p`, no `bufio.Reader` when `b` -/
def Prog.Free {α} (r p b : Bool) : Prog α → Prop
  | .ret _ => True
  | .fail _ => True
  | .emit _ _ k => k.Free r p b
  | .readFull _ k => ∀ x, (k x).Free r p b
  | .copy _ _ k => ∀ x e, (k x e).Free r p b
  | .rawRead _ k => r = false ∧ ∀ x e, (k x e).Free r p b
  | .probe k => p = false ∧ ∀ e, (k e).Free r p b
  | .wrapBufio _ k => b = false ∧ k.Free r p b
  | .peek _ k => b = false ∧ ∀ x e, (k x e).Free r p b
  | .readByte k => b = false ∧ ∀ x, (k x).Free r p b
  | .readString _ k => b = false ∧ ∀ x e, (k x e).Free r p b
  | .bufDrain _ k => b = false ∧ ∀ x e, (k x e).Free r p b

theorem Prog.Free.rawFree {α} {p b : Bool} {pr : Prog α} (h : pr.Free true p b) : pr.rawFree := by
  induction pr with
  | ret _ => trivial
  | fail _ => trivial
  | emit _ _ k ih => exact ih h
  | readFull _ k ih => exact fun x => ih x (h x)
  | copy _ _ k ih => exact fun x e => ih x e (h x e)
  | rawRead _ k _ => exact absurd h.1 (by simp)
  | probe k ih => exact fun e => ih e (h.2 e)
  | wrapBufio _ k ih => exact ih h.2
  | peek _ k ih => exact fun x e => ih x e (h.2 x e)
  | readByte k ih => exact fun x => ih x (h.2 x)
  | readString _ k ih => exact fun x e => ih x e (h.2 x e)
  | bufDrain _ k ih => exact fun x e => ih x e (h.2 x e)

theorem Prog.Free.probeFree {α} {r b : Bool} {pr : Prog α} (h : pr.Free r true b) : pr.probeFree := by
  induction pr with
  | ret _ => trivial
  | fail _ => trivial
  | emit _ _ k ih => exact ih h
  | readFull _ k ih => exact fun x => ih x (h x)
  | copy _ _ k ih => exact fun x e => ih x e (h x e)
  | rawRead _ k ih => exact fun x e => ih x e (h.2 x e)
  | probe k _ => exact absurd h.1 (by simp)
  | wrapBufio _ k ih => exact ih h.2
  | peek _ k ih => exact fun x e => ih x e (h.2 x e)
  | readByte k ih => exact fun x => ih x (h.2 x)
  | readString _ k ih => exact fun x e => ih x e (h.2 x e)
  | bufDrain _ k ih => exact fun x e => ih x e (h.2 x e)

theorem Prog.Free.bufFree {α} {r p : Bool} {pr : Prog α} (h : pr.Free r p true) : pr.bufFree := by
  induction pr with
  | ret _ => trivial
  | fail _ => trivial
  | emit _ _ k ih => exact ih h
  | readFull _ k ih => exact fun x => ih x (h x)
  | copy _ _ k ih => exact fun x e => ih x e (h x e)
  | rawRead _ k ih => exact fun x e => ih x e (h.2 x e)
  | probe k ih => exact fun e => ih e (h.2 e)
  | wrapBufio _ k _ => exact absurd h.1 (by simp)
  | peek _ k _ => exact absurd h.1 (by simp)
  | readByte k _ => exact absurd h.1 (by simp)
  | readString _ k _ => exact absurd h.1 (by simp)
  | bufDrain _ k _ => exact absurd h.1 (by simp)

section combinators
variable {α : Type} {r p b : Bool}

theorem failE_free (e : String) : (failE e : Prog α).Free r p b := trivial

theorem readFullE_free {n : Nat} {k : Bytes → Prog α} (h : ∀ x, (k x).Free r p b) : (readFullE n k).Free r p b := by
  intro x
  cases x with
  | ok x => exact h x
  | short _ _ => trivial

theorem readAndHash_free {n : Nat} {k : Bytes → Prog α} (h : ∀ x, (k x).Free r p b) : (readAndHash n k).Free r p b := by
  unfold readAndHash
  split
  · exact h []
  · exact readFullE_free h

theorem copyN_free {n : Int} {sc : Sched} {k : Bytes → Prog α} (h : ∀ x, (k x).Free r p b) : (copyN n sc k).Free r p b := by
  unfold copyN
  split
  · exact h []
  · intro x e
    cases e with
    | limit => exact h x
    | src _ => trivial

theorem copyNToE_free {s : Nat} {n : Int} {sc : Sched} {f : Term → Fail} {k : Bytes → Prog α}
    (h : ∀ x, (k x).Free r p b) : (copyNToE s n sc f k).Free r p b := by
  unfold copyNToE
  split
  · exact h []
  · intro x e
    cases e with
    | limit => exact h x
    | src _ => trivial

theorem copyNTo_free {s : Nat} {n : Int} {sc : Sched} {k : Bytes → Prog α} (h : ∀ x, (k x).Free r p b) :
    (copyNTo s n sc k).Free r p b := copyNToE_free h

end combinators

/-! ### PE -/

theorem peHeaders_free {α} {r p b : Bool} {k : PEHdr → Prog α} (h : ∀ x, (k x).Free r p b) : (peHeaders k).Free r p b := by
  unfold peHeaders
  refine readAndHash_free fun dos => ?_
  split
  · trivial
  refine copyN_free fun pad => readAndHash_free fun magic => ?_
  split
  · trivial
  refine readAndHash_free fun fh => readFullE_free fun opt => ?_
  split
  · trivial
  simp only
  split
  · trivial
  · split
    · trivial
    split
    · trivial
    split
    · trivial
    refine readAndHash_free fun tbl => ?_
    split
    · trivial
    · trivial
    · trivial
    · exact copyN_free fun _ => h _

theorem pageLoop_free {α} {r p b : Bool} (ps fuel pos rem : Nat) (acc : List (Nat × Bytes)) (last : Nat)
    {k : List (Nat × Bytes) → Nat → Prog α} (h : ∀ x y, (k x y).Free r p b) :
    (pageLoop ps fuel pos rem acc last k).Free r p b := by
  induction fuel generalizing pos rem acc last with
  | zero => exact h _ _
  | succ fuel ih =>
    simp only [pageLoop]
    split
    · exact readFullE_free fun buf => ih _ _ _ _
    · exact h _ _

theorem peSections_free {α} {r p b : Bool} (pg : Bool) (ps : Nat) (ss : List PE.Section) (next : Nat)
    (acc : List (Nat × Bytes)) (last : Nat) {k : Nat → List (Nat × Bytes) → Nat → Prog α}
    (h : ∀ x y z, (k x y z).Free r p b) : (peSections pg ps ss next acc last k).Free r p b := by
  induction ss generalizing next acc last with
  | nil => exact h _ _ _
  | cons s rest ih =>
    simp only [peSections]
    split
    · exact ih _ _ _
    split
    · trivial
    split
    · exact pageLoop_free _ _ _ _ _ _ fun _ _ => ih _ _ _
    · exact copyNTo_free fun _ => ih _ _ _

theorem peTrailer_free {α} {r p b : Bool} (next cs cz : Nat) {k : Nat → Prog α} (h : ∀ x, (k x).Free r p b) :
    (peTrailer next cs cz k).Free r p b := by
  unfold peTrailer
  split
  · intro x e
    cases e with
    | limit => trivial
    | src t => cases t with
      | eof => exact h _
      | fail _ => trivial
  split
  · trivial
  · refine copyNTo_free fun _ => copyN_free fun _ => ?_
    intro x e
    show Prog.Free r p b (if 0 < x.length then failE "trailing" else k cs)
    split
    · trivial
    · exact h _

theorem peBody_free (pg : Bool) (h : PEHdr) : (peBody pg h).Free true true true := by
  unfold peBody
  split
  · trivial
  · exact copyNToE_free fun _ => peSections_free _ _ _ _ _ _ fun _ _ _ => peTrailer_free _ _ _ fun _ => trivial

/-- `DigestPE` uses `io.ReadFull`, `io.Copy`, `io.CopyN` only -/
theorem digestPE_free (pg : Bool) : (digestPE pg).Free true true true :=
  peHeaders_free (peBody_free pg)

/-! ### CAB -/

theorem cabReserve_free {α} {r p b : Bool} (total : Nat) {k : Cab.Reserve → Prog α} (h : ∀ x, (k x).Free r p b) :
    (cabReserve total k).Free r p b := by
  unfold cabReserve
  refine readFullE_free fun rh => ?_
  dsimp only
  split
  · trivial
  refine readFullE_free fun sh => ?_
  split
  · split
    · trivial
    · refine readFullE_free fun pbuf => ?_
      split
      · trivial
      · exact h _
  · split
    · trivial
    · exact h _

theorem cabFolders_free {α} {r p b : Bool} (delta n : Nat) (acc : Bytes) {k : Bytes → Prog α}
    (h : ∀ x, (k x).Free r p b) : (cabFolders delta n acc k).Free r p b := by
  induction n generalizing acc with
  | zero => exact h _
  | succ n ih => exact readFullE_free fun fh => ih _

theorem cabRest_free {α} {r p b : Bool} (hd : Bytes) (rv : Cab.Reserve) {k : Cab.Digest → Prog α}
    (h : ∀ x, (k x).Free r p b) : (cabRest hd rv k).Free r p b := by
  unfold cabRest
  dsimp only
  split
  · trivial
  split
  · trivial
  refine cabFolders_free _ _ _ fun folders => copyNTo_free fun data => ?_
  split
  · exact readFullE_free fun _ => h _
  · exact h _

theorem cabBody_free {α} {r p b : Bool} {k : Cab.Digest → Prog α} (h : ∀ x, (k x).Free r p b) :
    (cabBody k).Free r p b := by
  unfold cabBody
  refine readFullE_free fun hd => ?_
  split
  · trivial
  split
  · exact cabReserve_free _ fun rv => cabRest_free _ _ h
  · exact cabRest_free _ _ h

/-- `cabfile.Digest` uses `binary.Read`, `io.ReadFull`, `io.CopyN` and the one-byte probe -/
theorem digestCabOrig_free : digestCabOrig.Free true false true := by
  unfold digestCabOrig
  refine cabBody_free fun d => ?_
  refine ⟨rfl, fun e => ?_⟩
  cases e with
  | none => trivial
  | some t => cases t <;> trivial

/-- with the proposed fix there is no probe left -/
theorem digestCab_free : digestCab.Free true true true := by
  unfold digestCab
  refine cabBody_free fun d => ?_
  intro b e
  unfold cabTail.match_1
  cases e with
  | limit => show Prog.Free true true true (if 0 < b.length then _ else _); split <;> trivial
  | src t => cases t with
    | eof => show Prog.Free true true true (if 0 < b.length then _ else _); split <;> trivial
    | fail _ => trivial

/-! ### PowerShell -/

theorem readLine16_free {α} {r p : Bool} (fuel : Nat) (line : Bytes) {k : Bytes → Option BErr → Prog α}
    (h : ∀ x e, (k x e).Free r p false) : (readLine16 fuel line k).Free r p false := by
  induction fuel generalizing line with
  | zero => trivial
  | succ fuel ih =>
    simp only [readLine16]
    refine ⟨rfl, fun x => ?_⟩
    cases x with
    | error e => exact h _ _
    | ok lo =>
      refine ⟨rfl, fun y => ?_⟩
      cases y with
      | error e => exact h _ _
      | ok hi =>
        show Prog.Free r p false (if lo = 10 ∧ hi = 0 then _ else _)
        split
        · exact h _ _
        · exact ih _

theorem readLine_free {α} {r p : Bool} (u16 : Bool) (fuel : Nat) {k : Bytes → Option BErr → Prog α}
    (h : ∀ x e, (k x e).Free r p false) : (readLine u16 fuel k).Free r p false := by
  unfold readLine
  split
  · exact readLine16_free _ _ h
  · exact ⟨rfl, h⟩

theorem psMarker_free (u16 : Bool) (eol : Nat) (saved : Bytes) (ts : Nat) (line : Bytes) :
    (psMarker u16 eol saved ts line).Free true true false := by
  unfold psMarker
  split
  · trivial
  · split
    · trivial
    · refine ⟨rfl, fun b en => ?_⟩
      cases en with
      | limit => trivial
      | src t => cases t <;> trivial

theorem psStep_free (u16 : Bool) (first saved : Bytes) (ts : Nat) (line : Bytes) (e : Option BErr)
    {again : Bytes → Nat → Prog PSOut} (h : ∀ x y, (again x y).Free true true false) :
    (psStep u16 first saved ts line e again).Free true true false := by
  have rest : Prog.Free true true false
      (if line = first then psMarker u16 (if u16 then 4 else 2) saved ts line
       else Prog.emit hashSink (PS.conv u16 saved)
        (if e = some (.term .eof) then
          Prog.emit hashSink (PS.conv u16 line) (Prog.ret ⟨ts + saved.length + line.length, 0, u16⟩)
         else again line (ts + saved.length))) := by
    by_cases hl : line = first
    · rw [if_pos hl]; exact psMarker_free _ _ _ _ _
    · rw [if_neg hl]
      show Prog.Free true true false (if e = some (.term .eof) then _ else _)
      by_cases he : e = some (.term .eof)
      · rw [if_pos he]; trivial
      · rw [if_neg he]; exact h _ _
  unfold psStep
  cases e with
  | none => exact rest
  | some e =>
    cases e with
    | term t => cases t with
      | eof => exact rest
      | fail _ => trivial
    | noProgress => trivial
    | bufferFull => trivial

theorem psLoop_free (u16 : Bool) (first : Bytes) (lfuel fuel : Nat) (saved : Bytes) (ts : Nat) :
    (psLoop u16 first lfuel fuel saved ts).Free true true false := by
  induction fuel generalizing saved ts with
  | zero => trivial
  | succ fuel ih =>
    simp only [psLoop]
    exact readLine_free _ _ fun line e => psStep_free _ _ _ _ _ _ ih

/-- `DigestPowershell` reads through one `bufio.Reader` only -/
theorem digestPS_free (style fuel : Nat) : (digestPS style fuel).Free true true false := by
  unfold digestPS
  split
  · trivial
  · exact ⟨rfl, rfl, fun bom e => psLoop_free _ _ _ _ _ _⟩

/-! ### ZIP through a stream, tar, code pages, ar -/

theorem raProg_free {α} (c : RAClient α) (pos : Nat) : (raProg c pos).Free true true true := by
  induction c generalizing pos with
  | done a => trivial
  | fail e => trivial
  | readAt len off k ih =>
    simp only [raProg]
    split
    · exact ih _ _
    · intro skipped e
      cases e with
      | src t => exact ih _ _
      | limit =>
        intro r
        cases r with
        | ok b => exact ih _ _
        | short got t => exact ih _ _

theorem tarNextE_free {α} {r p b : Bool} (st : TarSt) {k : TarNextE → Prog α} (h : ∀ x, (k x).Free r p b) :
    (tarNextE st k).Free r p b := by
  unfold tarNextE
  intro _ e0
  cases e0 with
  | src t => exact h _
  | limit =>
    intro rp
    cases rp with
    | short g t => cases t <;> exact h _
    | ok _ =>
      intro rb
      cases rb with
      | short g t =>
        cases g with
        | nil => cases t <;> exact h _
        | cons _ _ => exact h _
      | ok blk =>
        show Prog.Free r p b (if blk.all (· = 0) then _ else _)
        split
        · intro rb2
          cases rb2 with
          | short g t =>
            cases g with
            | nil => cases t <;> exact h _
            | cons _ _ => exact h _
          | ok blk2 =>
            show Prog.Free r p b (if blk2.all (· = 0) then _ else _)
            split <;> exact h _
        · exact h _

theorem tarNext_free {α} {r p b : Bool} (st : TarSt) {k : TarNext → Prog α} (h : ∀ x, (k x).Free r p b) :
    (tarNext st k).Free r p b := by
  unfold tarNext
  refine tarNextE_free _ fun x => ?_
  cases x with
  | hdr _ _ => exact h _
  | eof => exact h _
  | err _ => trivial

theorem tarCopy_free {α} {r p b : Bool} (st : TarSt) (lim : Option Nat) (sc : Sched) {k : Bytes → Bool → TarSt → Prog α}
    (h : ∀ x y z, (k x y z).Free r p b) : (tarCopy st lim sc k).Free r p b := by
  unfold tarCopy
  intro x e
  cases e with
  | limit => exact h _ _ _
  | src t => cases t <;> trivial

theorem xapLoop_free (rs : Bytes → Bytes) (fuel : Nat) (st : TarSt) (cd : Bytes) : (xapLoop rs fuel st cd).Free true true true := by
  induction fuel generalizing st cd with
  | zero => trivial
  | succ fuel ih =>
    simp only [xapLoop]
    refine tarNext_free _ fun nx => ?_
    cases nx with
    | eof => trivial
    | hdr h st1 =>
      show Prog.Free true true true (if h.name = zipdirName then _ else _)
      split
      · exact tarCopy_free _ _ _ fun _ _ _ => ih _ _
      · split
        · refine tarCopy_free _ _ _ fun body short _ => ?_
          show Prog.Free true true true (if short = true then _ else _)
          split <;> trivial
        · exact ih _ _

theorem msiLoop_free (ext : Bool) (isSig : Bytes → Bool) (ex : Bytes) (fuel : Nat) (st : TarSt) :
    (msiLoop ext isSig ex fuel st).Free true true true := by
  induction fuel generalizing st with
  | zero => trivial
  | succ fuel ih =>
    simp only [msiLoop]
    refine tarNext_free _ fun nx => ?_
    cases nx with
    | eof => trivial
    | hdr h st1 =>
      show Prog.Free true true true (if h.name = ex then _ else _)
      split
      · split
        · exact ih _
        · exact tarCopy_free _ _ _ fun _ _ _ => ih _
      · split
        · exact ih _
        · exact tarCopy_free _ _ _ fun _ _ _ => ih _

theorem zEnd_free {α} {r p b : Bool} (st : ZSt) {k : String → Prog α} (h : ∀ x, (k x).Free r p b) :
    (zEnd st k).Free r p b := by
  unfold zEnd
  refine tarNextE_free _ fun x => ?_
  cases x <;> exact h _

theorem zSkip_free {α} {r p b : Bool} (n : Nat) (st : ZSt) {k : Option String → ZSt → Prog α}
    (h : ∀ x y, (k x y).Free r p b) : (zSkip n st k).Free r p b := by
  unfold zSkip
  split
  · exact h _ _
  split
  · exact h _ _
  split
  · exact zEnd_free _ fun _ => h _ _
  · intro x e
    cases e with
    | src t => exact h _ _
    | limit =>
      show Prog.Free r p b (if x.length < st.nb then _ else _)
      split
      · exact h _ _
      · refine zEnd_free _ fun e => ?_
        show Prog.Free r p b (if n ≤ st.nb then _ else _)
        split <;> exact h _ _

theorem zRead_free {α} {r p b : Bool} (len : Nat) (st : ZSt) {k : ZAns → ZSt → Prog α}
    (h : ∀ x y, (k x y).Free r p b) : (zRead len st k).Free r p b := by
  unfold zRead
  split
  · exact h _ _
  split
  · exact h _ _
  split
  · exact zEnd_free _ fun _ => h _ _
  · intro x
    cases x with
    | short got t => exact h _ _
    | ok bb =>
      show Prog.Free r p b (if bb.length < st.nb then _ else _)
      split
      · exact h _ _
      · refine zEnd_free _ fun e => ?_
        show Prog.Free r p b (if len ≤ st.nb then _ else _)
        split <;> exact h _ _

theorem zipTarClient_free {α} (c : ZClient α) (st : ZSt) : (zipTarClient c st).Free true true true := by
  induction c generalizing st with
  | done a => trivial
  | fail e => trivial
  | readAt len off k ih =>
    simp only [zipTarClient]
    split
    · exact ih _ _
    · refine zSkip_free _ _ fun se st1 => ?_
      cases se with
      | some e => exact ih _ _
      | none => exact zRead_free _ _ fun ans st2 => ih _ _

theorem readZipTar_free {α} (mk : Bytes → Nat → ZClient α) : (readZipTar mk).Free true true true := by
  unfold readZipTar
  refine tarNextE_free _ fun r1 => ?_
  cases r1 with
  | eof => trivial
  | err e => trivial
  | hdr h1 st1 =>
    show Prog.Free true true true (if h1.name ≠ zipdirName then _ else _)
    split
    · trivial
    · refine tarCopy_free _ _ _ fun cd _ st2 => tarNextE_free _ fun r2 => ?_
      cases r2 with
      | eof => trivial
      | err e => trivial
      | hdr h2 st3 =>
        show Prog.Free true true true (if h2.name ≠ contentsName then _ else _)
        split
        · trivial
        · exact zipTarClient_free _ _

theorem hashPagesLoop_free (ps fuel : Nat) (acc : List Bytes) (lim : Nat) :
    (hashPagesLoop ps fuel acc lim).Free true true true := by
  induction fuel generalizing acc lim with
  | zero => trivial
  | succ fuel ih =>
    simp only [hashPagesLoop]
    intro r
    cases r with
    | ok b => exact ih _ _
    | short g t =>
      cases g with
      | nil => cases t <;> trivial
      | cons _ _ => exact ih _ _

theorem debLoop_free (clean : Bytes → Bytes) (role : Bytes) (fuel : Nat) (st : ArSt) (out : DebOut) :
    (debLoop clean role fuel st out).Free true true true := by
  induction fuel generalizing st out with
  | zero => trivial
  | succ fuel ih =>
    simp only [debLoop]
    intro sk e
    cases e with
    | src t => cases t <;> trivial
    | limit =>
      intro rh
      cases rh with
      | short g t =>
        cases g with
        | nil => cases t <;> trivial
        | cons _ _ => cases t <;> trivial
      | ok hb =>
        show Prog.Free true true true (if _ then _ else _)
        split
        · exact ih _ _
        · intro b e2
          cases e2 with
          | limit => exact ih _ _
          | src t => cases t with
            | eof => exact ih _ _
            | fail _ => trivial

theorem digestDeb_free (clean : Bytes → Bytes) (role : Bytes) (fuel : Nat) : (digestDeb clean role fuel).Free true true true :=
  fun _ _ => debLoop_free _ _ _ _ _

end Relic.Rd

/-
  C01 — Every signature relic produces verifies.   Apple disk image (UDIF) part (model `Relic.Model.Dmg`).
  `dmg.Sign` hashes `image[0 : XMLOffset+XMLLength]` into the single code slot and the trailer (signature offset set,
  signature length and the blank ranges zero) into special slot −6; the patch replaces everything from that offset to
  the end of the file by `signature ++ rewritten trailer`.  The verifier reads the trailer from the end, takes the
  blob named by SignatureOffset/Length, re-serialises the trailer with a zero length and hashes the same prefix.
  The theorems below show these are the same bytes for every image, every blob and every hash function; the
  superblob / code-directory layer is `Relic.Model.CodeDir` (C05.codedir_serialisation_eq_spec).
  `plan` / `sign` are the current tree (with the layout guards of fix-sign), `planOrig` / `signOrig` the tree before it.
-/
import Relic.Proofs.Dmg
import Relic.Proofs.BinpatchSort
import Relic.Props.C12
namespace Relic.Props.C01
open Relic Relic.Dmg Relic.CodeDir Relic.Binpatch

/-- **dmg_written_is_reference.** Whenever the signature offset lies inside the input (`0 ≤ bundle ≤ len`), the
    production path (Add → Dump/Load → Apply, in place or by rewrite) yields `image[0:bundle] ++ blob ++ trailer'`. -/
theorem dmg_written_is_reference (f : Bytes) (pl : Plan) (blob : Bytes) (canOverwrite : Bool)
    (h0 : 0 ≤ pl.bundle) (h1 : pl.bundle.toNat ≤ f.length) :
    ∃ strategy, signedFile f pl blob canOverwrite = .ok (written f pl blob, strategy) := by
  have hc : C12.Constructible f.length [⟨pl.bundle.toNat, f.length - pl.bundle.toNat, blob ++ (pl.newKoly blob.length).enc⟩] := by
    simp [C12.Constructible, wfFrom]; omega
  obtain ⟨st, hst⟩ := C12.apply_exact uint32Max f _ hc canOverwrite
  refine ⟨st, ?_⟩
  have hn : ¬ pl.bundle < 0 := by omega
  simp only [signedFile, Plan.patchSet, hn, h1, ↓reduceIte]
  rw [sortByOff_id f.length 0 _ (wf_build uint32Max f.length _ hc), hst]
  have : pl.bundle.toNat + (f.length - pl.bundle.toNat) = f.length := by omega
  simp [sem, splice, written, this]

/-- **dmg_sign_then_verify** (container layer, every image, every blob).  Let the repaired `dmg.Sign` accept trailer `t`
    for image `f` and let the plist end in front of the last 512 bytes (`fits`, the test behind `csblob.Sign`).  For
    every non-empty blob of at most 10^7 bytes the written image is opened by `dmg.Open` with exactly that blob as
    signature, and `Verify` is `csblob.Verify` + `VerifyPages` run on: the blob, the signer's rep-specific bytes, the
    signer's page stream.  With the code slot `H(stream)` and special slot −6 `H(rep)` that `csblob.Sign` wrote
    (`dmg_signed_slots`), both comparisons succeed for every `H` (`dmg_verify_single_slot`, `dmg_verify_rep_slot`).
    (No hypothesis on the magic or the sign of the bundle size any more: the guards provide them.) -/
theorem dmg_sign_then_verify (t f : Bytes) (pl : Plan) (blob : Bytes) (skip : Bool) (h : plan t f = .ok pl)
    (hfit : pl.fits f.length = true) (hne : blob ≠ []) (hmax : blob.length ≤ maxSig) :
    openFile (written f pl blob) = .ok ⟨pl.newKoly blob.length, pl.bundle.toNat + blob.length, blob, blob.length⟩ ∧
    verify (written f pl blob) skip = verifyBlob blob pl.rep pl.stream skip ∧
    (pl.stream.length : Int) = pl.bundle := by
  obtain ⟨ho, _, _⟩ := plan_orig t f pl h
  obtain ⟨_, h0, hm⟩ := plan_safe t f pl h
  have h1 : pl.bundle.toNat ≤ f.length := by have := (fits_iff pl f.length h0).mp hfit; omega
  obtain ⟨a, b⟩ := verify_written t f pl blob skip ho hm h0 h1 hne hmax
  refine ⟨a, b, ?_⟩
  rw [(plan_ok t f pl ho).2.2.2.1, List.length_take]
  omega

/-- the same for the tree before fix-sign, where magic and range had to be assumed -/
theorem dmg_sign_then_verify_orig (t f : Bytes) (pl : Plan) (blob : Bytes) (skip : Bool) (h : planOrig t f = .ok pl)
    (hm : pl.koly.magic = kolyMagic) (h0 : 0 ≤ pl.bundle) (h1 : pl.bundle.toNat ≤ f.length)
    (hne : blob ≠ []) (hmax : blob.length ≤ maxSig) :
    openFile (written f pl blob) = .ok ⟨pl.newKoly blob.length, pl.bundle.toNat + blob.length, blob, blob.length⟩ ∧
    verify (written f pl blob) skip = verifyBlob blob pl.rep pl.stream skip :=
  verify_written t f pl blob skip h hm h0 h1 hne hmax

/-- **dmg_signed_slots.** What `csblob.Sign` puts into the code directory of a disk image: one code slot over the whole
    page stream, `codeLimit` = its length, page size 0, and the rep-specific bytes in special slot −6 (whether or not
    a DER entitlement slot −7 precedes it). -/
theorem dmg_signed_slots (p : SignParams) (rep stream : Bytes) (s : Signed) (hrep : p.repSpecific = some rep)
    (e : signBlob p stream = .ok s) :
    s.pages = ⟨[.hash stream], 1, stream.length⟩ ∧
    ∃ cdp : Params, newCodeDirectory cdp = .ok s.cd ∧ cdp.codeSlots = [.hash stream] ∧ cdp.codeSlotCount = 1 ∧
      cdp.codeLimit = stream.length ∧ cdp.single = true ∧ cdp.hash = p.hash ∧
      cdp.specials[cdp.specials.length - 6]? = some (some rep) := by
  unfold signBlob at e
  simp only [hrep, Option.isSome_some] at e
  split at e
  · cases e
  · cases e
  · cases e
  · rename_i req hreq
    split at e
    · rename_i cd hcd
      simp only [Res.ok.injEq] at e
      subst e
      refine ⟨rfl, _, hcd, rfl, rfl, rfl, rfl, rfl, ?_⟩
      cases hd : p.entitlementDER <;> simp [trimSpecials]
    · cases e
    · cases e
    · cases e

/-- **dmg_verify_single_slot.** `VerifyPages` on a single-slot directory: exactly one comparison, the whole section
    against the slot, provided the section has the signed length. -/
theorem dmg_verify_single_slot (d : Dir) (page c : Bytes) (hps : d.hdr.pageShift = 0) (hc : d.code = [c])
    (hl : codeSize d.hdr = page.length) : verifyPagesOn d page = ⟨[⟨page, c⟩], .ok ()⟩ := by
  simp [verifyPagesOn, hps, hc, hl]

/-- **dmg_verify_rep_slot.** A directory with a non-zero special slot −6 makes `csblob.Verify` compare the hash of the
    re-serialised trailer with that slot. -/
theorem dmg_verify_rep_slot (d : Dir) (entDER ent req : Option Bytes) (rep s6 : Bytes) (h : d.special[5]? = some s6)
    (hnz : s6.all (· = 0) = false) : ⟨d.hdr.hashType, rep, s6⟩ ∈ specialChecks d entDER ent req rep := by
  simp [specialChecks, h, hnz]

/-- a wrong section length is refused before any comparison -/
theorem dmg_verify_wrong_length (d : Dir) (page c : Bytes) (hps : d.hdr.pageShift = 0) (hc : d.code = [c])
    (hl : codeSize d.hdr ≠ page.length) : verifyPagesOn d page = ⟨[], .err "size"⟩ := by
  have : ¬ ((page.length : Int) = codeSize d.hdr) := fun h => hl h.symm
  simp [verifyPagesOn, hps, hc, this]

/-- the end-to-end statement through the superblob: for every hash function `H` with values of the advertised size and
    every CMS blob, the verifier's plan on the written image consists of comparisons that all succeed.
    PROVED: `dmg_sign_then_verify_end_to_end` in Props/C01_DmgFull.lean (superblob round trip `CodeDir.parseSuper_marshal`,
    code-directory round trip `CodeDir.parse_newCodeDirectory`, `CodeDir.parseSignature_own`, `Dmg.verifyBlob_own`); its
    container-layer link is `dmg_sign_then_verify` below; also executed on every `sign` / `realsign` op with real keys. -/
def dmg_sign_then_verify_full : Prop :=
  ∀ (H : Bytes → Bytes) (t f : Bytes) (p : SignParams) (so : SignOut) (cms : Bytes),
    (∀ x, (H x).length = hashSizeOf p.hash) → 8 < cms.length →
    Dmg.sign t f p = .ok so →
    let blob := render H (hashSizeOf p.hash) (superblob (hashSizeOf p.hash) so.signed cms)
    blob.length ≤ maxSig →
    ∃ vp, verify (written f so.plan blob) false = .ok vp ∧ vp.final = .ok () ∧ ∀ c ∈ vp.checks, H c.stream = c.expected

/-- **dmg_sign_ignores_magic** (part of finding F-DMG-1; about the tree BEFORE fix-sign).  `dmg.Sign` never tested the koly
    magic: any 512 bytes whose SignatureOffset field is zero were accepted as a trailer, and what was written cannot be
    opened by relic's own `dmg.Open` unless the magic happens to be there.  (Repaired: `dmg_sign_tests_magic`.) -/
theorem dmg_sign_ignores_magic (t f : Bytes) (h : 512 ≤ t.length) (hso : (decode t).sigOffset = 0) :
    ∃ pl, planOrig t f = .ok pl ∧ pl.koly = decode t ∧
      ((decode t).magic ≠ kolyMagic → 0 ≤ pl.bundle → pl.bundle.toNat ≤ f.length →
        ∀ blob, openFile (written f pl blob) = .err "magic") := by
  have hl : ¬ t.length < 512 := by omega
  refine ⟨_, by simp [planOrig, hl, hso]; rfl, rfl, ?_⟩
  intro hm _ _ blob
  have wf := decode_wf t h
  have : written f ⟨decode t, (decode t).bundle, f.take (decode t).bundle.toNat,
      ({ decode t with sigOffset := u64 (decode t).bundle }).forHashing, none⟩ blob =
      (f.take (decode t).bundle.toNat ++ blob) ++ (Plan.newKoly ⟨decode t, (decode t).bundle, f.take (decode t).bundle.toNat,
      ({ decode t with sigOffset := u64 (decode t).bundle }).forHashing, none⟩ blob.length).enc := rfl
  rw [this]
  exact openFile_magic _ _ wf.head wf.tail wf.magic hm

/-- **dmg_sign_tests_magic** (repaired code): a trailer without the koly magic is refused, whatever else it says. -/
theorem dmg_sign_tests_magic (t f : Bytes) (h : 512 ≤ t.length) (hm : (decode t).magic ≠ kolyMagic) : plan t f = .err "magic" := by
  have hl : ¬ t.length < 512 := by omega
  simp [plan, hl, guards, hm]

/-! ### non-vacuity -/

set_option maxRecDepth 100000 in
example : ∃ st, signedFile sampleImage samplePlan [9, 9] true = .ok (written sampleImage samplePlan [9, 9], st) :=
  dmg_written_is_reference _ _ _ _ (by decide) (by decide)

set_option maxRecDepth 100000 in
example : written sampleImage samplePlan [9, 9] = [1, 2, 3, 4, 5, 6, 7, 8, 9, 9] ++ (sampleKoly 3 5 8 2).enc := by decide

set_option maxRecDepth 100000 in
example : verify (written sampleImage samplePlan [9, 9]) false = verifyBlob [9, 9] samplePlan.rep samplePlan.stream false :=
  (dmg_sign_then_verify _ _ _ [9, 9] false samplePlan_ok_fixed (by decide) (by decide) (by decide)).2.1

-- SHA-512 has no code-directory hash type: refused
set_option maxRecDepth 100000 in
example : Dmg.sign (sampleKoly 3 5 0 0).enc sampleImage
    { hash := 7, flags := 0, ident := [97], team := [], execBase := 0, execLimit := 0, execFlags := 0, requirements := none,
      entitlement := none, entitlementDER := none, infoPlist := none, resources := none, repSpecific := none } = .err "hashtype" := by
  decide

end Relic.Props.C01

/-
  Relic.Model.AuthzPolicy — executable model of relic's server-side authentication and key
  authorisation in POLICY (Open Policy Agent / bearer token) mode, next to the certificate mode of
  `Relic.Model.Authz`:

    internal/authmodel/authmodel.go  New (which authenticator the configuration selects), Middleware
    internal/authmodel/opa.go        PolicyAuth.Authenticate, evaluate, PolicyInfo.Allowed, bearerToken,
                                     formatCerts, should401
    internal/realip                  PeerCertificates / trustedClient (Relic.Model.RealIP)
    internal/httperror               ErrTokenRequired, TokenAuthorizationError
    internal/zhttp/recovery.go       WriteUnhandledError (500; 504 when the request context ran out)
    server/view_sign.go, view_getkey.go, view_listkeys.go: the views, which consult `UserInfo.Allowed`
                                     only (`viewWith`; `Relic.Authz.view` is the instance for a client)

  The policy server is a PARAMETER: `Opa = PolicyPost → OpaReply`, a function from what relic POSTs to
  what comes back (transport failure, or a status and the result of `json.Unmarshal` on the body).
  `json.Unmarshal` itself, PEM/x509 decoding and the SHA-256 fingerprint are abstract: certificates
  are names, the fingerprint of a certificate is its name.  Strings that come from headers are byte
  strings (one `Char` per byte), so `auth[:7]` is `take 7`.  Core Lean only.
-/
import Relic.Model.Authz
namespace Relic.Policy
open Relic Relic.Authz Relic.RealIP

/-! ### bearerToken -/

def lowerAscii (c : Char) : Char :=
  if 'A' ≤ c ∧ c ≤ 'Z' then Char.ofNat (c.toNat + 32) else c

/-- `"bearer "` -/
def bearerPrefix : List Char := ['b', 'e', 'a', 'r', 'e', 'r', ' ']

/-- `bearerToken` on the bytes of the `Authorization` header (`""` when the header is absent):
    `len(auth) < 7 || !EqualFold(auth[:7], "Bearer ")` → `""`, else `auth[7:]`.  `EqualFold` against an
    all-ASCII string without `k`/`s` is ASCII case-insensitive equality. -/
def bearerTokenL (a : List Char) : List Char :=
  if a.length < 7 then []
  else if (a.take 7).map lowerAscii = bearerPrefix then a.drop 7
  else []

def bearerToken (auth : String) : String := String.ofList (bearerTokenL auth.toList)

/-- `should401` -/
def should401 : List String :=
  ["token is missing or not well-formed", "token issuer is not in known_issuers", "token is expired",
   "token is not yet valid"]

/-! ### requests -/

/-- a list of certificates as a peer presents them (leaf first), by name; `anchors` as in `Authz.Chain`
    (only certificate mode looks at it) -/
structure Certs where
  names : List String
  anchors : List Nat := []
  deriving Repr, DecidableEq

def Certs.chain (c : Certs) : Option Chain :=
  match c.names with
  | [] => none
  | l :: _ => some { fp := l, anchors := c.anchors }

/-- decoded `Ssl-Client-Cert` header -/
inductive PHdr where
  | absent
  | bad
  | certs (c : Certs)            -- `names = []`: no CERTIFICATE block
  deriving Repr, DecidableEq

def PHdr.toHdr : PHdr → HdrCert
  | .absent => .absent
  | .bad => .bad
  | .certs c => .certs c.chain

structure PReq where
  remoteAddr : String
  tls : Certs                    -- req.TLS.PeerCertificates (`names = []`: no TLS, or none sent)
  xff : List String
  sslCert : PHdr
  authz : String                 -- first `Authorization` header value, "" if absent
  ep : Endpoint
  deriving Repr, DecidableEq

/-- what certificate mode sees of the request -/
def PReq.toReq (r : PReq) : Req :=
  { remoteAddr := r.remoteAddr, tls := r.tls.chain, xff := r.xff, sslCert := r.sslCert.toHdr, ep := r.ep }

/-- `req.URL.Path` of the request the harness sends for an endpoint -/
def pathOf : Endpoint → String
  | .health => "/health"
  | .directory => "/directory"
  | .home => "/"
  | .listKeys => "/list_keys"
  | .getKey n => "/keys/" ++ n
  | .sign _ _ _ => "/sign"

/-- `req.URL.Query()` of that request, sorted by parameter name (as `json.Marshal` writes a map) -/
def queryOf : Endpoint → List (String × String)
  | .sign n hasFile sigOK =>
    (if hasFile then [("filename", "a.ps1")] else []) ++ (if n = "" then [] else [("key", n)]) ++
    (if sigOK then [("ps-style", ".ps1"), ("sigtype", "ps")] else [("sigtype", "no-such-type")])
  | _ => []

/-! ### the policy server as a parameter -/

/-- `policyInput` -/
structure PolicyInput where
  path : String
  query : List (String × String)
  token : String
  fingerprint : String           -- "" when no certificate
  clientCert : List String       -- the PEM chain, by name, in the order written (leaf LAST)
  deriving Repr, DecidableEq

/-- one decision request: POST to `dest`; `wrapped`: body is `{"input": …}` instead of the bare input -/
structure PolicyPost where
  dest : String
  wrapped : Bool
  input : PolicyInput
  deriving Repr, DecidableEq

/-- `policyResponse` after a successful `json.Unmarshal` (missing fields are zero values) -/
structure Decision where
  allow : Bool := false
  sub : String := ""
  errors : List String := []
  roles : List String := []
  allowedKeys : List String := []
  id : String := ""
  deriving Repr, DecidableEq

inductive Parsed where
  | bad                          -- json.Unmarshal (or reading the body) fails
  | dec (d : Decision)
  deriving Repr, DecidableEq

inductive OpaReply where
  | transport (deadline : Bool)  -- `cli.Do` fails; `deadline`: because the request context's deadline passed
  | http (status : Nat) (body : Parsed)
  deriving Repr, DecidableEq

abbrev Opa := PolicyPost → OpaReply

/-! ### PolicyAuth -/

def isInfix (pat : List Char) : List Char → Bool
  | [] => pat.isEmpty
  | c :: cs => pat.isPrefixOf (c :: cs) || isInfix pat cs

/-- `"/v1/data"` -/
def v1data : List Char := ['/', 'v', '1', '/', 'd', 'a', 't', 'a']

/-- `newPolicyAuthenticator`: `usesDefault := !strings.Contains(PolicyURL, "/v1/data")` -/
def usesDefault (url : String) : Bool := !isInfix v1data url.toList

/-- `realip.PeerCertificates`, by names -/
def ppeerCerts (proxied : Bool) (req : PReq) : Res (List String) :=
  if !proxied then .ok req.tls.names
  else match req.sslCert with
    | .absent => .ok []
    | .bad => .err "ssl-client-cert"
    | .certs c => .ok c.names

/-- `PolicyInfo` -/
structure PUser where
  sub : String
  roles : List String
  allowedKeys : List String
  deriving Repr, DecidableEq

def Decision.user (d : Decision) : PUser := { sub := d.sub, roles := d.roles, allowedKeys := d.allowedKeys }

/-- `PolicyInfo.Allowed`: the (resolved) entry's name is in `allowed_keys`, or a role of the entry is among the
    user's roles -/
def pallowed (u : PUser) (k : Key) : Bool :=
  u.allowedKeys.contains k.name || k.roles.any (fun r => u.roles.contains r)

/-! ### views, generic in `UserInfo.Allowed` -/

def listedWith (al : Key → Bool) (cfg : Config) (k : Key) : Bool :=
  if k.hide then false
  else if k.alias ≠ "" then
    match lookupKey cfg k.alias with
    | none => false
    | some t => !t.hide && al t
  else !k.hide && al k

def listKeysWith (al : Key → Bool) (cfg : Config) : List String :=
  sortStrings ((cfg.keys.filter (listedWith al cfg)).map (·.name))

/-- `serveHome` / `serveListKeys` / `serveGetKey` / `serveSign` behind the authentication middleware, for a user
    whose `Allowed` is `al` (the tree with fix-F2: `GetKey` returns an error for a dangling alias) -/
def viewWith (al : Key → Bool) (cfg : Config) (user ip : String) : Endpoint → Outcome
  | .health | .directory | .home => .resp { status := 200, ip, user }
  | .listKeys => .resp { status := 200, ip, user, keys := listKeysWith al cfg }
  | .getKey n =>
    match getKey cfg n with
    | .ok kc =>
      if al kc then
        if tokenOpen cfg kc.token then
          .resp { status := 200, ip, user, events := [⟨"getkey", kc.token, kc.name⟩] }
        else .resp { status := 500, problem := "missing-token", ip, user }
      else forbidden ip user
    | .panic s => .panic s ip
    | _ => forbidden ip user
  | .sign n hasFile sigOK =>
    if n = "" then .resp { status := 400, problem := "missing-parameter", ip, user }
    else if !hasFile then .resp { status := 400, problem := "missing-parameter", ip, user }
    else match getKey cfg n with
      | .ok kc =>
        if al kc then
          if !sigOK then .resp { status := 400, problem := "unknown-signature-type", ip, user }
          else if tokenOpen cfg kc.token then
            .resp { status := 200, ip, user,
                    events := [⟨"getkey", kc.token, kc.name⟩, ⟨"sign", kc.token, kc.name⟩] }
          else .resp { status := 500, problem := "missing-token", ip, user }
        else forbidden ip user
      | .panic s => .panic s ip
      | _ => forbidden ip user

/-! ### the server in policy mode -/

structure PResult where
  out : Outcome
  post : Option PolicyPost := none     -- the decision request that was sent, if any
  errors : List String := []           -- `errors` of the problem document
  deriving Repr, DecidableEq

/-- address the server records, and whether the request counts as proxied -/
def ptransport (cfg : Config) (req : PReq) : String × Bool :=
  let (addr, proxied) := trustedClient cfg.inNets req.remoteAddr req.xff
  (stripPort addr, proxied)

/-- the certificates `Authenticate` sees -/
def presentedCerts (cfg : Config) (req : PReq) : Res (List String) :=
  ppeerCerts (ptransport cfg req).2 req

/-- the decision request `Authenticate` builds (given the certificates) -/
def mkPost (url : String) (req : PReq) (certs : List String) : PolicyPost :=
  { dest := url, wrapped := !usesDefault url,
    input := { path := pathOf req.ep, query := queryOf req.ep, token := bearerToken req.authz,
               fingerprint := certs.head?.getD "", clientCert := certs.reverse } }

def unhandled (status : Nat) (ip : String) : Outcome := .resp { status, problem := "unhandled", ip }

/-- status of a denial: 401 when one of the errors is in `should401`, else 403 -/
def denyStatus (errors : List String) : Nat := if errors.any (fun e => should401.contains e) then 401 else 403

/-- `PolicyAuth.Authenticate` + `evaluate` + `Middleware` + view, after start-up and routing -/
def authenticated (cfg : Config) (url : String) (opa : Opa) (req : PReq) (ip : String) : PResult :=
  match presentedCerts cfg req with
  | .ok certs =>
    if bearerToken req.authz = "" ∧ certs = [] then
      { out := .resp { status := 401, problem := "token-required", ip } }
    else
      let post := mkPost url req certs
      match opa post with
      | .transport deadline => { out := unhandled (if deadline then 504 else 500) ip, post := some post }
      | .http status body =>
        if status ≥ 300 then { out := unhandled 500 ip, post := some post }
        else match body with
          | .bad => { out := unhandled 500 ip, post := some post }
          | .dec d =>
            if !d.allow then
              { out := .resp { status := denyStatus d.errors, problem := "token-authorization-failed", ip, user := d.sub },
                post := some post, errors := d.errors }
            else { out := viewWith (pallowed d.user) cfg d.sub ip req.ep, post := some post }
  | _ => { out := unhandled 500 ip }

def handlePolicy (cfg : Config) (url : String) (opa : Opa) (req : PReq) : PResult :=
  match startCheck cfg with
  | some e => { out := .startErr e }
  | none =>
    let ip := (ptransport cfg req).1
    if req.ep.isPublic then { out := .resp { status := 200, ip := if req.ep = .health then "" else ip } }
    else authenticated cfg url opa req ip

/-- `authmodel.New`: a non-empty `server.policyurl` selects the policy authenticator, otherwise certificates.
    One result per outcome the map iteration in certificate mode could produce. -/
def serve (cfg : Config) (url : String) (opa : Opa) (req : PReq) : List PResult :=
  if url ≠ "" then [handlePolicy cfg url opa req]
  else (Authz.handle cfg req.toReq).map fun o => { out := o }

/-! ### specification-side notions -/

/-- the caller presents some credential: a bearer token or a certificate -/
def hasCredentials (cfg : Config) (req : PReq) : Bool :=
  bearerToken req.authz ≠ "" || (match presentedCerts cfg req with | .ok (_ :: _) => true | _ => false)

/-- the decision for `post` was fetched successfully (2xx) and parsed -/
def fetched (opa : Opa) (post : PolicyPost) : Option Decision :=
  match opa post with
  | .http status (.dec d) => if status < 300 then some d else none
  | _ => none

/-- ground truth of the property in policy mode: the decision allows the caller, and names the key the requested
    name resolves to (one alias hop) or grants one of its roles -/
def pentitled (cfg : Config) (d : Decision) (n : String) : Bool :=
  d.allow && (match resolve cfg n with
    | some t => d.allowedKeys.contains t.name || t.roles.any (fun r => d.roles.contains r)
    | none => false)

def psignAuthorised (al : Key → Bool) (cfg : Config) (n : String) : Bool :=
  match getKey cfg n with
  | .ok kc => al kc
  | _ => false

/-- specification of the listing: sorted non-hidden names for which /sign would pass authorisation -/
def specListWith (al : Key → Bool) (cfg : Config) : List String :=
  sortStrings ((cfg.keys.filter fun k => !hidden cfg k && psignAuthorised al cfg k.name).map (·.name))

/-- hypothesis of `policy_list_exact`: every entry that `allowed_keys` names has a `token:`
    (an entry without token that `allowed_keys` names is listed but cannot be signed with) -/
def namedHaveTokens (cfg : Config) (u : PUser) : Bool :=
  cfg.keys.all fun t => !u.allowedKeys.contains t.name || t.token != ""

/-- **the property in policy mode**: the decision request for exactly this request was sent, answered 2xx, parsed,
    says allow, and entitles the caller to the key the name resolves to; every token call went to that key's token -/
def PolicyEntitledFor (cfg : Config) (url : String) (opa : Opa) (req : PReq) (n : String) (r : PResult) : Prop :=
  ∃ certs d t, presentedCerts cfg req = .ok certs ∧ r.post = some (mkPost url req certs) ∧
    fetched opa (mkPost url req certs) = some d ∧ d.allow = true ∧ resolve cfg n = some t ∧
    (t.name ∈ d.allowedKeys ∨ ∃ ro, ro ∈ t.roles ∧ ro ∈ d.roles) ∧ ∀ e ∈ r.out.events, e.token = t.token ∧ e.key = t.name

/-- refusal in policy mode: no token event, nothing listed, and the status is a refusal or an error -/
def PRefused : Outcome → Prop
  | .startErr _ => True
  | .panic _ _ => False
  | .resp r => r.events = [] ∧ r.keys = [] ∧
      (r.status = 401 ∨ r.status = 403 ∨ (r.status = 400 ∧ r.problem = "missing-parameter") ∨
       ((r.status = 500 ∨ r.status = 504) ∧ r.problem = "unhandled"))

end Relic.Policy

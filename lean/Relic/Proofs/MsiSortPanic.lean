/-
  `sortMsiFiles` panics on EVERY list that contains a trigger pair (C11 / C18 `sort_panics_iff`).

  The comparator is, outside its panic trigger, the strict lexicographic order of a key (`sortKey`: the code
  units compared, low byte before high byte, with an end marker greater than every byte for names of at most 32
  "bytes"); two entries of a trigger pair have the same key.  An insertion sort keeps its prefix sorted by that
  key, so the later entry of a trigger pair, moving leftwards, cannot stop before it meets an entry of the same
  key with `NameLength > 32` – and that comparison panics.
-/
import Relic.Proofs.MsiDigest
namespace Relic.MsiDigest
open Relic Relic.RedBlack

/-! ### the comparator as a key order -/

def digits (u : Nat) : List Nat := [u % 256, u / 256]

/-- key of what remains to be compared: `k` = remaining `NameLength`, `xs` = remaining slots; the marker 256
    (greater than every low byte) stands for "name ends here" -/
def keyR (xs : List Nat) (k : Nat) : List Nat :=
  (xs.take k).flatMap digits ++ (if k ≤ xs.length then [256] else [])

def sortKey (m : Meta) : List Nat := keyR m.slots m.nameLen

theorem keyR_zero (xs : List Nat) : keyR xs 0 = [256] := by simp [keyR]

theorem keyR_succ (x : Nat) (xs : List Nat) (k : Nat) : keyR (x :: xs) (k + 1) = x % 256 :: x / 256 :: keyR xs k := by
  simp [keyR, digits]

theorem keyR_nil_succ (k : Nat) : keyR [] (k + 1) = [] := by simp [keyR]

theorem lexLt_marker_left (y : Nat) (r : List Nat) : lexLt [256] (y % 256 :: r) = false := by
  have : y % 256 < 256 := Nat.mod_lt _ (by decide)
  unfold lexLt
  have h1 : ¬ 256 < y % 256 := by omega
  simp [h1, this]

theorem lexLt_marker_right (x : Nat) (r : List Nat) : lexLt (x % 256 :: r) [256] = true := by
  have : x % 256 < 256 := Nat.mod_lt _ (by decide)
  unfold lexLt
  simp [this]

/-- **the comparison loop is the key order, except where it panics** -/
theorem lessGo_keyR : ∀ (xs ys : List Nat) (ka kb : Nat), xs.length = ys.length →
    lessGo xs ys (min ka kb) (decide (ka > kb)) =
      if xs.length < ka ∧ xs.length < kb ∧ xs = ys then .panic "sortMsiFiles"
      else .ok (lexLt (keyR xs ka) (keyR ys kb))
  | [], [], 0, kb, _ => by
    rw [Nat.zero_min, lessGo_zero]
    cases kb <;> simp [keyR, lexLt]
  | [], [], ka + 1, 0, _ => by
    rw [Nat.min_zero, lessGo_zero]
    simp [keyR, lexLt]
  | [], [], ka + 1, kb + 1, _ => by
    rw [Nat.succ_min_succ]
    simp [lessGo]
  | [], _ :: _, _, _, h => by simp at h
  | _ :: _, [], _, _, h => by simp at h
  | x :: xs, y :: ys, 0, kb, _ => by
    rw [Nat.zero_min, lessGo_zero]
    cases kb with
    | zero => simp [keyR_zero, lexLt]
    | succ kb => simp [keyR_zero, keyR_succ, lexLt_marker_left]
  | x :: xs, y :: ys, ka + 1, 0, _ => by
    rw [Nat.min_zero, lessGo_zero]
    simp [keyR_zero, keyR_succ, lexLt_marker_right]
  | x :: xs, y :: ys, ka + 1, kb + 1, h => by
    have hl : xs.length = ys.length := by simpa using h
    have ih := lessGo_keyR xs ys ka kb hl
    rw [Nat.succ_min_succ, keyR_succ, keyR_succ]
    unfold lessGo
    by_cases h1 : x % 256 = y % 256
    · by_cases h2 : x / 256 = y / 256
      · have hxy := units_eq_of_bytes h1 h2
        subst hxy
        simp only [ne_eq, not_true_eq_false, if_false, ih, List.length_cons, Nat.add_lt_add_iff_right,
          List.cons.injEq, true_and]
        split
        · rfl
        · simp [lexLt]
      · have hne : ¬ (x :: xs = y :: ys) := by
          intro e; exact h2 (by rw [(List.cons.inj e).1])
        simp only [ne_eq, h1, not_true_eq_false, if_false, h2, not_false_eq_true, if_true, hne, and_false]
        simp only [lexLt, Nat.lt_irrefl, if_false]
        by_cases h3 : x / 256 < y / 256
        · simp [h3]
        · have : y / 256 < x / 256 := by omega
          simp [h3, this]
    · have hne : ¬ (x :: xs = y :: ys) := by
        intro e; exact h1 (by rw [(List.cons.inj e).1])
      simp only [ne_eq, h1, not_false_eq_true, if_true, hne, and_false, if_false]
      simp only [lexLt]
      by_cases h3 : x % 256 < y % 256
      · simp [h3]
      · have : y % 256 < x % 256 := by omega
        simp [h3, this]

theorem flatMap_digits_inj : ∀ (a b : List Nat), a.flatMap digits = b.flatMap digits → a = b
  | [], [], _ => rfl
  | [], y :: b, h => by simp [digits] at h
  | x :: a, [], h => by simp [digits] at h
  | x :: a, y :: b, h => by
    simp only [List.flatMap_cons, digits, List.cons_append, List.nil_append, List.cons.injEq] at h
    obtain ⟨h1, h2, h3⟩ := h
    rw [units_eq_of_bytes h1 h2, flatMap_digits_inj a b h3]

theorem keyR_length (xs : List Nat) (k : Nat) :
    (keyR xs k).length = 2 * min k xs.length + (if k ≤ xs.length then 1 else 0) := by
  unfold keyR
  have : ∀ l : List Nat, (l.flatMap digits).length = 2 * l.length := by
    intro l
    induction l with
    | nil => rfl
    | cons a l ih => simp [List.flatMap_cons, digits, ih]; omega
  rw [List.length_append, this, List.length_take]
  split <;> simp

/-- the trigger in terms of the key -/
theorem trigger_iff_key (a b : Meta) (ha : a.slots.length = 32) (hb : b.slots.length = 32) :
    Trigger a b ↔ sortKey a = sortKey b ∧ 32 < a.nameLen ∧ 32 < b.nameLen := by
  unfold Trigger sortKey keyR
  constructor
  · rintro ⟨h1, h2, h3⟩
    refine ⟨?_, h1, h2⟩
    rw [List.take_of_length_le (by omega), List.take_of_length_le (by omega), ha, hb, h3]
    simp [show ¬ a.nameLen ≤ 32 by omega, show ¬ b.nameLen ≤ 32 by omega]
  · rintro ⟨h1, h2, h3⟩
    refine ⟨h2, h3, ?_⟩
    rw [List.take_of_length_le (by omega), List.take_of_length_le (by omega), ha, hb] at h1
    simp only [show ¬ a.nameLen ≤ 32 by omega, show ¬ b.nameLen ≤ 32 by omega, if_false, List.append_nil] at h1
    exact flatMap_digits_inj _ _ h1

/-- entries with the same key are on the same side of the 32-byte limit -/
theorem key_same_side (a b : Meta) (ha : a.slots.length = 32) (hb : b.slots.length = 32)
    (h : sortKey a = sortKey b) : (32 < a.nameLen ↔ 32 < b.nameLen) := by
  have := congrArg List.length h
  unfold sortKey at this
  rw [keyR_length, keyR_length, ha, hb] at this
  constructor <;> intro h' <;> (split at this <;> split at this <;> omega)

instance (a b : Meta) : Decidable (Trigger a b) := by unfold Trigger; infer_instance

theorem less_eq_sortKey (a b : Meta) (ha : a.slots.length = 32) (hb : b.slots.length = 32) :
    less a b = if Trigger a b then .panic "sortMsiFiles" else .ok (lexLt (sortKey a) (sortKey b)) := by
  unfold less
  rw [lessGo_keyR a.slots b.slots a.nameLen b.nameLen (by omega), ha]
  rfl

/-! ### insertion sort under a key order with a panicking tie -/

section abstract
variable {α : Type} (c : α → α → Res Bool) (key : α → List Nat) (bad : α → Bool) (P : α → Prop) (s : String)

/-- the panicking pairs: same key, both beyond the limit -/
def Tie (a b : α) : Prop := key a = key b ∧ bad a = true ∧ bad b = true

instance (a b : α) : Decidable (Tie key bad a b) := by unfold Tie; infer_instance

/-- what is assumed of the comparator on the entries concerned -/
structure KeyCmp : Prop where
  cmp : ∀ a b, P a → P b → c a b = if Tie key bad a b then .panic s else .ok (lexLt (key a) (key b))
  side : ∀ a b, P a → P b → key a = key b → bad a = bad b

/-- the prefix, held right to left: keys never increase from the head on -/
def SortedR (acc : List α) : Prop := acc.Pairwise (fun r l => lexLt (key r) (key l) = false)

theorem lexLt_negtrans (a b c' : List Nat) (h1 : lexLt a b = false) (h2 : lexLt b c' = false) : lexLt a c' = false := by
  cases h : lexLt a c' with
  | false => rfl
  | true =>
    exfalso
    by_cases e : a = b
    · subst e; rw [h] at h2; cases h2
    · rcases lexLt_total a b e with h' | h'
      · rw [h'] at h1; cases h1
      · have := lexLt_trans b a c' h' h
        rw [this] at h2; cases h2

theorem insP_sortedR (x : α) : ∀ acc, SortedR key acc → SortedR key (insP (fun a b => lexLt (key a) (key b)) x acc)
  | [], _ => by simp [insP, SortedR]
  | y :: rest, h => by
    obtain ⟨hy, hr⟩ := List.pairwise_cons.mp h
    unfold insP
    split
    · rename_i hlt
      refine List.pairwise_cons.mpr ⟨?_, insP_sortedR x rest hr⟩
      intro w hw
      rcases List.mem_cons.mp ((insP_perm _ x rest).subset hw) with rfl | hw
      · exact lexLt_asymm _ _ hlt
      · exact hy w hw
    · rename_i hnlt
      have hf : lexLt (key x) (key y) = false := by simpa using hnlt
      refine List.pairwise_cons.mpr ⟨?_, h⟩
      intro w hw
      rcases List.mem_cons.mp hw with rfl | hw
      · exact hf
      · exact lexLt_negtrans _ _ _ hf (hy w hw)

variable {c key bad P s}

/-- the later entry of a tie pair cannot be inserted: it meets an entry of its key beyond the limit -/
theorem insR_panic (K : KeyCmp c key bad P s) (x : α) (hx : P x) : ∀ acc, (∀ y ∈ acc, P y) → SortedR key acc →
    (∃ z ∈ acc, Tie key bad x z) → insR c x acc = .panic s
  | [], _, _, h => by obtain ⟨z, hz, _⟩ := h; cases hz
  | y :: rest, hP, hs, h => by
    obtain ⟨z, hz, ht⟩ := h
    obtain ⟨hy, hr⟩ := List.pairwise_cons.mp hs
    unfold insR
    rw [K.cmp x y hx (hP y (by simp))]
    by_cases hxy : Tie key bad x y
    · simp [hxy]
    · simp only [hxy, if_false, Res.bind_ok']
      have hzr : z ∈ rest := by
        rcases List.mem_cons.mp hz with rfl | hz'
        · exact absurd ht hxy
        · exact hz'
      cases hlt : lexLt (key x) (key y) with
      | true =>
        simp only [if_true]
        rw [insR_panic K x hx rest (fun w hw => hP w (by simp [hw])) hr ⟨z, hzr, ht⟩]
        rfl
      | false =>
        exfalso
        have h1 : lexLt (key y) (key x) = false := by rw [ht.1]; exact hy z hzr
        have e : key x = key y := by
          cases hd : decide (key x = key y) with
          | true => simpa using hd
          | false =>
            have hne : key x ≠ key y := by simpa using hd
            rcases lexLt_total _ _ hne with h' | h'
            · rw [h'] at hlt; cases hlt
            · rw [h'] at h1; cases h1
        have := K.side x y hx (hP y (by simp)) e
        exact hxy ⟨e, ht.2.1, by rw [← this]; exact ht.2.1⟩

theorem tie_symm {a b : α} (h : Tie key bad a b) : Tie key bad b a := ⟨h.1.symm, h.2.2, h.2.1⟩

theorem pairwise_noTie_perm {l l' : List α} (hp : l.Perm l') :
    l.Pairwise (fun a b => ¬ Tie key bad a b) ↔ l'.Pairwise (fun a b => ¬ Tie key bad a b) :=
  hp.pairwise_iff (fun {_ _} h t => h (tie_symm t))

/-- **every list holding a tie pair makes the sort panic** -/
theorem sortFold_panic (K : KeyCmp c key bad P s) : ∀ (l acc : List α), (∀ y ∈ acc, P y) → (∀ y ∈ l, P y) →
    SortedR key acc → acc.Pairwise (fun a b => ¬ Tie key bad a b) →
    ¬ (acc ++ l).Pairwise (fun a b => ¬ Tie key bad a b) → sortFold c acc l = .panic s
  | [], acc, _, _, _, hn, h => by rw [List.append_nil] at h; exact absurd hn h
  | x :: rest, acc, hPa, hPl, hs, hn, h => by
    have hx : P x := hPl x (by simp)
    unfold sortFold
    by_cases hz : ∃ z ∈ acc, Tie key bad x z
    · rw [insR_panic K x hx acc hPa hs hz]; rfl
    · have hno : ∀ y ∈ acc, ¬ Tie key bad x y := fun y hy t => hz ⟨y, hy, t⟩
      have hok : insR c x acc = .ok (insP (fun a b => lexLt (key a) (key b)) x acc) := by
        apply insR_ok
        intro y hy
        rw [K.cmp x y hx (hPa y hy)]
        simp [hno y hy]
      rw [hok]
      simp only [Res.bind_ok']
      have hperm := insP_perm (fun a b => lexLt (key a) (key b)) x acc
      apply sortFold_panic K rest
      · intro y hy
        rcases List.mem_cons.mp (hperm.subset hy) with rfl | hy
        · exact hx
        · exact hPa y hy
      · exact fun y hy => hPl y (by simp [hy])
      · exact insP_sortedR key x acc hs
      · rw [pairwise_noTie_perm hperm]
        exact List.pairwise_cons.mpr ⟨hno, hn⟩
      · intro hp
        apply h
        have : (insP (fun a b => lexLt (key a) (key b)) x acc ++ rest).Perm (acc ++ x :: rest) :=
          (hperm.append_right rest).trans List.perm_middle.symm
        exact (pairwise_noTie_perm this).mp hp

end abstract

/-! ### `sortMsiFiles` -/

theorem sortItems_panics {β : Type} (l : List (Item β)) (hlen : ∀ a ∈ l, a.1.slots.length = 32)
    (h : ¬ l.Pairwise (fun a b => ¬ Trigger a.1 b.1)) : sortItems l = .panic "sortMsiFiles" := by
  let key : Item β → List Nat := fun a => sortKey a.1
  let bad : Item β → Bool := fun a => decide (32 < a.1.nameLen)
  let P : Item β → Prop := fun a => a.1.slots.length = 32
  have tie_iff : ∀ a b : Item β, P a → P b → (Tie key bad a b ↔ Trigger a.1 b.1) := by
    intro a b ha hb
    rw [trigger_iff_key a.1 b.1 ha hb]
    simp [Tie, key, bad]
  have K : KeyCmp (fun a b : Item β => less a.1 b.1) key bad P "sortMsiFiles" := by
    constructor
    · intro a b ha hb
      rw [less_eq_sortKey a.1 b.1 ha hb]
      by_cases t : Trigger a.1 b.1
      · simp [t, (tie_iff a b ha hb).mpr t]
      · have : ¬ Tie key bad a b := fun t' => t ((tie_iff a b ha hb).mp t')
        simp [t, this, key]
    · intro a b ha hb e
      have := key_same_side a.1 b.1 ha hb e
      simp only [bad]
      by_cases h1 : 32 < a.1.nameLen
      · simp [h1, this.mp h1]
      · have : ¬ 32 < b.1.nameLen := fun h2 => h1 (this.mpr h2)
        simp [h1, this]
  have h' : ¬ ([] ++ l).Pairwise (fun a b => ¬ Tie key bad a b) := by
    intro hp
    apply h
    rw [List.nil_append] at hp
    refine hp.imp_of_mem ?_
    intro a b ha hb hab t
    exact hab ((tie_iff a b (hlen a ha) (hlen b hb)).mpr t)
  have := sortFold_panic K l [] (by simp) hlen (by simp [SortedR]) (by simp) h'
  unfold sortItems sortRes
  rw [this]
  rfl

end Relic.MsiDigest

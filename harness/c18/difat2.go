package c18

// Two and three DIFAT sectors reached cheaply: compound files with 128-byte sectors (sector shift 7; lib/comdoc accepts shifts
// 5..28 and its writer is generic in the sector size).  32 FAT entries and 31 DIFAT entries per sector: the header's 109
// slots plus one DIFAT sector are used up at 140 FAT sectors (560 KiB of file), two at 171 (684 KiB).  With 512-byte
// sectors the same takes 15.5 MiB / 23.8 MiB, beyond what the model driver can hold.

import (
	"bufio"
	"encoding/binary"
	"fmt"

	"verifharness/hx"
)

// zeroFile: a compound file whose FAT has exactly nFat sectors (so the DIFAT has ceil((nFat-109)/(ss/4-1)) sectors): root
// storage with one long all-zero stream, no mini stream.  Own minimal writer: header in the first 512 bytes, sector 0 at
// offset max(512, ss) as lib/comdoc (and [MS-CFB] for ss >= 512) have it; harness `build` assumes ss >= 512.
// Layout: [stream 0..N-1][directory][FAT][DIFAT].
func zeroFile(r *hx.Rng, shift, nFat int) []byte {
	ss := 1 << shift
	spb := ss / 4
	perDir := ss / 128
	nDirSec := (2 + perDir - 1) / perDir
	need := func(n int) (int, int) { // FAT and DIFAT sectors for n other sectors
		f, d := 0, 0
		for {
			f2 := (n + f + d + spb - 1) / spb
			d2 := 0
			if f2 > 109 {
				d2 = (f2 - 109 + spb - 2) / (spb - 1)
			}
			if f2 == f && d2 == d {
				return f, d
			}
			f, d = f2, d2
		}
	}
	n := (nFat-1)*spb - nFat - 8
	if n < 33 {
		n = 33
	}
	for {
		f, _ := need(n + nDirSec)
		if f >= nFat {
			break
		}
		n++
	}
	f, d := need(n + nDirSec)
	total := n + nDirSec + f + d
	first := ss
	if first < 512 {
		first = 512
	}
	out := make([]byte, first+total*ss)
	le := binary.LittleEndian
	sec := func(s int) []byte { return out[first+s*ss : first+(s+1)*ss] }
	fat := make([]uint32, f*spb)
	for i := range fat {
		fat[i] = freeSect
	}
	for i := 0; i < n; i++ {
		fat[i] = uint32(i + 1)
	}
	fat[n-1] = endOfChain
	for i := 0; i < nDirSec; i++ {
		fat[n+i] = uint32(n + i + 1)
	}
	fat[n+nDirSec-1] = endOfChain
	fat0 := n + nDirSec
	dif0 := fat0 + f
	for i := 0; i < f; i++ {
		fat[fat0+i] = fatSect
	}
	for i := 0; i < d; i++ {
		fat[dif0+i] = difSect
	}
	h := out[:512]
	copy(h, []byte{0xd0, 0xcf, 0x11, 0xe0, 0xa1, 0xb1, 0x1a, 0xe1})
	copy(h[8:24], r.Bytes(16))
	le.PutUint16(h[24:], 0x3e)
	le.PutUint16(h[26:], 3)
	le.PutUint16(h[28:], 0xfffe)
	le.PutUint16(h[30:], uint16(shift))
	le.PutUint16(h[32:], 6)
	le.PutUint32(h[44:], uint32(f))
	le.PutUint32(h[48:], uint32(n))
	le.PutUint32(h[56:], 4096)
	le.PutUint32(h[60:], endOfChain)
	le.PutUint32(h[64:], 0)
	if d > 0 {
		le.PutUint32(h[68:], uint32(dif0))
	} else {
		le.PutUint32(h[68:], endOfChain)
	}
	le.PutUint32(h[72:], uint32(d))
	for i := 0; i < 109; i++ {
		v := uint32(freeSect)
		if i < f {
			v = uint32(fat0 + i)
		}
		le.PutUint32(h[76+4*i:], v)
	}
	for i := 0; i < d; i++ {
		b := sec(dif0 + i)
		for k := 0; k < spb-1; k++ {
			j := 109 + i*(spb-1) + k
			v := uint32(freeSect)
			if j < f {
				v = uint32(fat0 + j)
			}
			le.PutUint32(b[4*k:], v)
		}
		nx := uint32(endOfChain)
		if i+1 < d {
			nx = uint32(dif0 + i + 1)
		}
		le.PutUint32(b[4*(spb-1):], nx)
	}
	for i := 0; i < f; i++ {
		b := sec(fat0 + i)
		for k := 0; k < spb; k++ {
			le.PutUint32(b[4*k:], fat[i*spb+k])
		}
	}
	dir := make([]byte, nDirSec*ss)
	put := func(idx int, name string, typ byte, child, start uint32, size uint64) {
		e := dir[128*idx : 128*idx+128]
		u := units(name)
		for x, c := range u {
			le.PutUint16(e[2*x:], c)
		}
		le.PutUint16(e[64:], uint16(2*len(u)+2))
		e[66], e[67] = typ, 1
		le.PutUint32(e[68:], noStream)
		le.PutUint32(e[72:], noStream)
		le.PutUint32(e[76:], child)
		le.PutUint32(e[116:], start)
		le.PutUint64(e[120:], size)
	}
	put(0, "Root Entry", 5, 1, endOfChain, 0)
	put(1, "Big", 2, noStream, 0, uint64(n*ss))
	for idx := 2; idx < nDirSec*perDir; idx++ {
		e := dir[128*idx : 128*idx+128]
		le.PutUint32(e[68:], noStream)
		le.PutUint32(e[72:], noStream)
		le.PutUint32(e[76:], noStream)
	}
	for i := 0; i < nDirSec; i++ {
		copy(sec(n+i), dir[i*ss:(i+1)*ss])
	}
	return out
}

func genDifat2(w *bufio.Writer, r *hx.Rng, tier string) {
	sig := func(pk, ex int, salt uint64) []bstep {
		if ex > 0 {
			return []bstep{addB(sigExName, ex, salt+1), addB(sigName, pk, salt)}
		}
		return []bstep{delB(sigExName), addB(sigName, pk, salt)}
	}
	type tc struct{ shift, nFat int }
	cases := []tc{{7, 139}, {7, 140}, {7, 141}, {7, 145}, {7, 171}, {7, 172}, {7, 203}}
	if tier == "thorough" {
		// (512-byte sectors would need files of 15.5 / 23.8 MiB: the native model driver, which holds the file as a list, runs
		// out of stack on them - 7 MiB is what it manages; more FAT-sector counts at shift 7 instead)
		cases = append(cases, tc{7, 142}, tc{7, 170}, tc{7, 173}, tc{7, 202}, tc{7, 204}, tc{7, 234}, tc{7, 265})
	}
	for i, c := range cases {
		f := zeroFile(r, c.shift, c.nFat)
		tag := fmt.Sprintf("difat2/%d/%d", c.shift, c.nFat)
		// a short signature (mini stream), then a long one that needs further FAT sectors, then removal
		emitWb(w, tag, f, [][]bstep{sig(700, 32, uint64(70+i))})
		if c.shift == 7 {
			emitWb(w, tag, f, [][]bstep{sig(9000, 0, uint64(80+i)), {delB(sigName), delB(sigExName)}})
		}
	}
}

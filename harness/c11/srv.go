package c11

// The server's signing endpoint: the real handler (server.VerifNew + Handler()) with a fake token, one client
// certificate, request bodies chosen by the generator.  A panic in the request goroutine is caught by relic's
// RecoveryMiddleware (500 + logged stack: reported as "panic <site>"); a panic in any other goroutine ends the
// worker process, which the supervisor reports as "abort <site>".

import (
	"bytes"
	"context"
	"crypto"
	"crypto/ecdsa"
	"crypto/elliptic"
	"crypto/rand"
	"crypto/sha256"
	"crypto/tls"
	"crypto/x509"
	"crypto/x509/pkix"
	"encoding/hex"
	"encoding/json"
	"errors"
	"io"
	"math/big"
	"net/http"
	"net/http/httptest"
	"net/url"
	"os"
	"path/filepath"
	"strings"
	"sync"
	"time"

	"github.com/rs/zerolog"
	zlog "github.com/rs/zerolog/log"

	"github.com/sassoftware/relic/v8/cmdline/shared"
	"github.com/sassoftware/relic/v8/config"
	"github.com/sassoftware/relic/v8/lib/passprompt"
	"github.com/sassoftware/relic/v8/server"
	"github.com/sassoftware/relic/v8/token"

	"verifharness/sg"
)

type switchWriter struct {
	mu  sync.Mutex
	buf *bytes.Buffer
}

func (s *switchWriter) Write(p []byte) (int, error) {
	s.mu.Lock()
	defer s.mu.Unlock()
	if s.buf != nil && s.buf.Len() < 1<<20 {
		s.buf.Write(p)
	}
	return len(p), nil
}

func (s *switchWriter) capture() *bytes.Buffer {
	s.mu.Lock()
	defer s.mu.Unlock()
	s.buf = &bytes.Buffer{}
	return s.buf
}

func (s *switchWriter) stop() {
	s.mu.Lock()
	defer s.mu.Unlock()
	s.buf = nil
}

var logSink = &switchWriter{}

func quietLogs() {
	zlog.Logger = zerolog.New(logSink)
}

type fakeToken struct {
	cfg  *config.Config
	name string
}

func (t *fakeToken) Close() error                   { return nil }
func (t *fakeToken) Ping(ctx context.Context) error { return nil }
func (t *fakeToken) Config() *config.TokenConfig    { c, _ := t.cfg.GetToken(t.name); return c }
func (t *fakeToken) GetKey(ctx context.Context, keyName string) (token.Key, error) {
	kc, err := t.cfg.GetKey(keyName)
	if err != nil {
		return nil, err
	}
	switch kc.Name() {
	case "kec":
		c := sg.Cert("p256")
		return &fakeKey{kc: kc, signer: c.PrivateKey.(crypto.Signer), cert: c.Leaf.Raw}, nil
	case "krsa":
		c := sg.Cert("rsa")
		return &fakeKey{kc: kc, signer: c.PrivateKey.(crypto.Signer), cert: c.Leaf.Raw}, nil
	}
	return nil, errors.New("fake token: no such key")
}
func (t *fakeToken) Import(string, crypto.PrivateKey) (token.Key, error) {
	return nil, errors.New("not implemented")
}
func (t *fakeToken) ImportCertificate(*x509.Certificate, string) error {
	return errors.New("not implemented")
}
func (t *fakeToken) Generate(string, token.KeyType, uint) (token.Key, error) {
	return nil, errors.New("not implemented")
}
func (t *fakeToken) ListKeys(token.ListOptions) error { return errors.New("not implemented") }

type fakeKey struct {
	kc     *config.KeyConfig
	signer crypto.Signer
	cert   []byte
}

func (k *fakeKey) Public() crypto.PublicKey { return k.signer.Public() }
func (k *fakeKey) Sign(r io.Reader, digest []byte, opts crypto.SignerOpts) ([]byte, error) {
	return k.signer.Sign(rand.Reader, digest, opts)
}
func (k *fakeKey) SignContext(ctx context.Context, digest []byte, opts crypto.SignerOpts) ([]byte, error) {
	return k.signer.Sign(rand.Reader, digest, opts)
}
func (k *fakeKey) Config() *config.KeyConfig                 { return k.kc }
func (k *fakeKey) Certificate() []byte                       { return k.cert }
func (k *fakeKey) GetID() []byte                             { return []byte(k.kc.Name()) }
func (k *fakeKey) ImportCertificate(*x509.Certificate) error { return errors.New("not implemented") }

func init() {
	token.Openers["veriffake-c11"] = func(cfg *config.Config, tokenName string, _ passprompt.PasswordGetter) (token.Token, error) {
		return &fakeToken{cfg: cfg, name: tokenName}, nil
	}
}

var (
	srvOnce    sync.Once
	srvHandler http.Handler
	srvClient  *x509.Certificate
	srvErr     error
)

func setupServer() {
	dir := filepath.Join(scratchDir, "srv")
	if srvErr = os.MkdirAll(dir, 0o755); srvErr != nil {
		return
	}
	ck, _ := ecdsa.GenerateKey(elliptic.P256(), rand.Reader)
	tmpl := &x509.Certificate{SerialNumber: big.NewInt(99), Subject: pkix.Name{CommonName: "c11 client"},
		NotBefore: time.Now().Add(-time.Hour), NotAfter: time.Now().Add(24 * time.Hour),
		KeyUsage: x509.KeyUsageDigitalSignature, ExtKeyUsage: []x509.ExtKeyUsage{x509.ExtKeyUsageClientAuth}}
	der, err := x509.CreateCertificate(rand.Reader, tmpl, tmpl, &ck.PublicKey, ck)
	if err != nil {
		srvErr = err
		return
	}
	srvClient, _ = x509.ParseCertificate(der)
	fpd := sha256.Sum256(srvClient.RawSubjectPublicKeyInfo)
	fp := hex.EncodeToString(fpd[:])
	pgpPath := filepath.Join(dir, "krsa.pgp")
	var pb bytes.Buffer
	if ent := sg.Cert("rsa").PgpKey; ent != nil {
		if err := ent.Serialize(&pb); err != nil {
			srvErr = err
			return
		}
	}
	if srvErr = os.WriteFile(pgpPath, pb.Bytes(), 0o600); srvErr != nil {
		return
	}
	cfg := &config.Config{
		Tokens: map[string]*config.TokenConfig{"tok": {Type: "veriffake-c11"}},
		Keys: map[string]*config.KeyConfig{
			"kec":  {Token: "tok", Roles: []string{"rel"}},
			"krsa": {Token: "tok", Roles: []string{"rel"}, PgpCertificate: pgpPath},
		},
		Clients: map[string]*config.ClientConfig{fp: {Nickname: "c11", Roles: []string{"rel"}}},
		Server:  &config.ServerConfig{TokenCacheSeconds: -1},
	}
	if srvErr = cfg.Normalize(filepath.Join(dir, "relic.yml")); srvErr != nil {
		return
	}
	shared.CurrentConfig = cfg
	s, err := server.VerifNew(cfg)
	if err != nil {
		srvErr = err
		return
	}
	srvHandler = s.Handler()
}

// runServer: POST /sign?sigtype=<typ> with `body`.
func runServer(typ string, body []byte) string {
	srvOnce.Do(setupServer)
	if srvErr != nil {
		return "harness-error server:" + strings.ReplaceAll(srvErr.Error(), " ", "_")
	}
	v := url.Values{}
	key := "kec"
	if typ == "deb" || typ == "rpm" || typ == "pgp" {
		key = "krsa"
	}
	v.Set("key", key)
	v.Set("filename", typeExt[typ])
	v.Set("sigtype", typ)
	v.Set("digest", "sha256")
	if typ == "ps" {
		v.Set("ps-style", ".ps1")
	}
	req := httptest.NewRequest("POST", "https://relic.test/sign?"+v.Encode(), bytes.NewReader(body))
	req.TLS = &tls.ConnectionState{PeerCertificates: []*x509.Certificate{srvClient}, HandshakeComplete: true}
	req.RemoteAddr = "127.0.0.1:4444"
	rec := httptest.NewRecorder()
	logs := logSink.capture()
	defer logSink.stop()
	srvHandler.ServeHTTP(rec, req)
	st := rec.Code
	switch {
	case st >= 200 && st < 300:
		return "ok"
	case st == 500 && strings.Contains(logs.String(), `"stack":`):
		if os.Getenv("C11_DEBUG") != "" {
			os.Stderr.WriteString(logs.String())
		}
		return "panic " + recoveredSite(logs.String())
	}
	return "err"
}

// recoveredSite: the access log line of a recovered panic carries the stack; name the top relic frame after the panic.
func recoveredSite(logs string) string {
	for _, line := range strings.Split(logs, "\n") {
		var m map[string]interface{}
		if json.Unmarshal([]byte(line), &m) != nil {
			continue
		}
		stack, _ := m["stack"].(string)
		if stack == "" {
			continue
		}
		msg, _ := m["error"].(string)
		// frames after the runtime's panic frames
		i := strings.Index(stack, "panic(")
		if i >= 0 {
			stack = stack[i:]
		}
		for _, l := range strings.Split(stack, "\n") {
			l = strings.TrimSpace(l)
			if strings.HasPrefix(l, relicPrefix) && !strings.Contains(l, "zhttp.RecoveryMiddleware") {
				fn := l
				if k := strings.LastIndex(fn, "("); k > 0 {
					fn = fn[:k]
				}
				return shortFunc(fn) + ":" + panicKind(msg)
			}
		}
		return "?:" + panicKind(msg)
	}
	return "?:recovered"
}

/-
  C01 — Every signature relic produces verifies.   XAP (Silverlight) part, over `Relic.Model.Xap`
  (lib/signxap/{sign,verify,structs}.go, zipslicer.ZipToTar, signers/xap): the chain
  tar framing → DigestXapTar → XapDigest.Sign → binpatch → Verify's locator and digest range.
  The PKCS#7 step is a parameter (`parse`), the hash is a parameter (`H`).
-/
import Relic.Proofs.XapSign
namespace Relic.Props.C01
open Relic Relic.Xap

/-- **xap_sign_then_verify.** For every file `z`, every split point `loc ≤ |z|` (the directory offset `FindDirectory`
    answered), every PKCS#7 blob `s` with `|s| + 8 < 2^32` (output below 2^63 bytes):
    * `DigestXapTar` on the two-member framing succeeds and hashes `base z loc` = the bytes up to the directory followed
      by the directory blob as `removeSignature` leaves it;
    * the file written through the real patch path (`Add`, rewrite loop) is `base z loc ++ header ++ s ++ trailer`;
    * on it, `Verify`'s locator finds exactly `s`, and the range it hashes, the first `|base z loc|` bytes, is exactly
      the stream that was signed – so for every hash `H` and every PKCS#7 layer `parse` that accepts `s` as a signature
      over `H (hashed stream)`, `Verify` (digests on) accepts the file. -/
theorem xap_sign_then_verify (parse : Bytes → Option Bytes) (H : Bytes → Bytes) (z : Bytes) (loc : Nat) (s : Bytes)
    (hloc : loc ≤ z.length) (hs : s.length + 8 < 4294967296) (hl : z.length + s.length + 18 < 9223372036854775808) :
    ∃ d, digestTar (zipToTar z loc) true = .ok d ∧ d.hashed = base z loc ∧
      signRound z loc s = .ok (base z loc ++ sigBlock s) ∧
      locate (base z loc ++ sigBlock s) ((base z loc ++ sigBlock s).length : Int) = .ok ⟨s, (base z loc).length, 1, 1, 1⟩ ∧
      (base z loc ++ sigBlock s).take (base z loc).length = d.hashed ∧
      (parse s = some (H d.hashed) →
        verifyFile parse H (base z loc ++ sigBlock s) false = .ok ⟨s, (base z loc).length, 1, 1, 1⟩) := by
  have hle := base_length_le z loc hloc
  have hlen : (framed (base z loc) 1 1 1 s).length < 9223372036854775808 := by
    rw [framed_length]; omega
  have hloc' : locate (base z loc ++ sigBlock s) ((base z loc ++ sigBlock s).length : Int) =
      .ok ⟨s, (base z loc).length, 1, 1, 1⟩ := by
    rw [append_sigBlock]
    exact locate_framed (base z loc) s 1 1 1 hs hlen
  have htake : (base z loc ++ sigBlock s).take (base z loc).length = base z loc := take_append_len _ _ _ rfl
  refine ⟨_, digestTar_zipToTar z loc hloc, rfl, signRound_eq z loc s hloc, hloc', htake, ?_⟩
  intro hp
  unfold verifyFile verify
  rw [hloc', bind_ok]
  simp only []
  rw [hp]
  simp only [Bool.false_eq_true, if_false]
  rw [htake, if_pos rfl]

/-- **xap_base_cases.** What `base` is, exactly (repaired `removeSignature`): either the whole file – when the directory blob does
    not end in a complete, consistent frame – or the file is `base z loc` followed by exactly one header ++ blob ++ trailer
    whose two size fields agree with the blob.  A trailer look-alike without a matching header is left alone (before the
    repair of FX1 it was cut off: `C03.xap_lookalike_not_preserved`). -/
theorem xap_base_cases (z : Bytes) (loc : Nat) (hloc : loc ≤ z.length) :
    (base z loc = z ∧ frameSize (z.drop loc) = 0) ∨
    (∃ u1 u2 u3 : Nat, ∃ blob : Bytes, z = framed (base z loc) u1 u2 u3 blob ∧ blob.length + 8 < 4294967296 ∧
      frameSize (z.drop loc) = blob.length + 18) := by
  by_cases h : frameSize (z.drop loc) = 0
  · left
    refine ⟨?_, h⟩
    show z.take loc ++ removeSignature (z.drop loc) = z
    unfold removeSignature
    rw [h, Nat.sub_zero, List.take_length, List.take_append_drop]
  · right
    obtain ⟨u1, u2, u3, blob, e, hk, hb⟩ := frameSize_pos_framed (z.drop loc) h
    refine ⟨u1, u2, u3, blob, ?_, hb, hk⟩
    have : z = z.take loc ++ z.drop loc := (List.take_append_drop loc z).symm
    conv => lhs; rw [this, e]
    rw [framed_append]
    rfl

/-- an input whose directory blob does not end in a signature frame is signed into `z ++ header ++ s ++ trailer` -/
theorem xap_sign_unsigned (z : Bytes) (loc : Nat) (s : Bytes) (hloc : loc ≤ z.length) (hn : frameSize (z.drop loc) = 0) :
    signRound z loc s = .ok (z ++ sigBlock s) := by
  rcases xap_base_cases z loc hloc with ⟨h, _⟩ | ⟨_, _, _, _, _, _, h⟩
  · rw [signRound_eq z loc s hloc, h]
  · omega

/-- **xap_sign_then_verify_module.** The same through the signer module (repaired transform): for an input without a trailing
    frame whose directory `FindDirectory` locates inside the file, `signFile` writes `z ++ header ++ s ++ trailer`, on which
    `Verify` finds `s` and hashes exactly `z`. -/
theorem xap_sign_then_verify_module (z s : Bytes) (loc : Nat) (hu : frameSize z = 0)
    (hfd : Zip.findDirectory ⟨z, false, 0⟩ = .ok loc) (hloc : loc ≤ z.length)
    (hs : s.length + 8 < 4294967296) (hl : z.length + s.length + 18 < 9223372036854775808) :
    signFile z s = .ok (z ++ sigBlock s) ∧
    locate (z ++ sigBlock s) ((z ++ sigBlock s).length : Int) = .ok ⟨s, z.length, 1, 1, 1⟩ := by
  constructor
  · rw [signFile_eq z s loc (by rw [hu, Nat.sub_zero, List.take_length]; exact hfd) hloc, base_of_unsigned z loc hu]
  · rw [append_sigBlock]
    exact locate_framed z s 1 1 1 hs (by rw [framed_length]; omega)

/-- **xap_sign_wraps_at_2_32.** At the `uint32` boundary: `Sign` writes `uint32(len(s))` and `uint32(len(s)+8)`.  When
    `|s| + 8 ≥ 2^32` the trailer records `(|s| + 8) mod 2^32`, and whatever `Verify`'s locator then returns on the signed
    file, the range it would hash starts the digest range at least 2^32 bytes too late: it is never the signed stream. -/
theorem xap_sign_wraps_at_2_32 (b s : Bytes) (hs : 4294967296 ≤ s.length + 8)
    (hl : (b ++ sigBlock s).length < 9223372036854775808) (l : Located)
    (h : locate (b ++ sigBlock s) ((b ++ sigBlock s).length : Int) = .ok l) :
    b.length + 4294967296 ≤ l.n := by
  obtain ⟨N, ts, hN, _, hfit, _, _, hts, hn, _⟩ := locate_ok _ _ l hl (by omega) (by omega) h
  have hN' : N = (b ++ sigBlock s).length := by omega
  have hlen : (b ++ sigBlock s).length = b.length + s.length + 18 := by simp; omega
  have e : b ++ sigBlock s = (b ++ (header 1 1 s.length ++ s)) ++ trailer 1 (s.length + 8) := by simp [sigBlock]
  have hsz : leVal (((b ++ sigBlock s).drop (N - 4)).take 4) = (s.length + 8) % 4294967296 := by
    have := trSize_append_trailer (b ++ (header 1 1 s.length ++ s)) 1 (s.length + 8)
    unfold trSize at this
    rw [List.drop_drop, ← e] at this
    have e2 : (b ++ sigBlock s).length - 10 + 6 = N - 4 := by omega
    rw [e2] at this
    exact this
  rw [hsz] at hts
  omega

/-! ### non-vacuity -/

/-- the smallest archive: an end-of-central-directory record alone -/
def emptyZip : Bytes := [0x50, 0x4b, 5, 6] ++ List.replicate 18 0

/-- one stored member "a" holding "hi", directory at offset 33 -/
def oneMemberZip : Bytes :=
  [0x50, 0x4b, 3, 4, 20, 0, 0, 0, 0, 0, 0, 0, 0, 0, 0xd8, 0x2c, 0x75, 0xac, 2, 0, 0, 0, 2, 0, 0, 0, 1, 0, 0, 0, 0x61, 0x68, 0x69] ++
  [0x50, 0x4b, 1, 2, 20, 0, 20, 0, 0, 0, 0, 0, 0, 0, 0, 0, 0xd8, 0x2c, 0x75, 0xac, 2, 0, 0, 0, 2, 0, 0, 0, 1, 0, 0, 0, 0, 0, 0, 0, 0, 0,
   0, 0, 0, 0, 0, 0, 0, 0, 0x61] ++
  [0x50, 0x4b, 5, 6, 0, 0, 0, 0, 1, 0, 1, 0, 47, 0, 0, 0, 33, 0, 0, 0, 0, 0]

set_option maxRecDepth 100000 in
example : (33 : Nat) ≤ oneMemberZip.length ∧ ([9, 9, 9] : Bytes).length + 8 < 4294967296 ∧
    base oneMemberZip 33 = oneMemberZip ∧
    locate (oneMemberZip ++ sigBlock [9, 9, 9]) (oneMemberZip ++ sigBlock [9, 9, 9] : Bytes).length = .ok ⟨[9, 9, 9], 102, 1, 1, 1⟩ ∧
    Zip.findDirectory ⟨oneMemberZip, false, 0⟩ = .ok 33 := by decide

set_option maxRecDepth 100000 in
example : signRound oneMemberZip 33 [9, 9, 9] = .ok (oneMemberZip ++ sigBlock [9, 9, 9]) ∧
    signFile oneMemberZip [9, 9, 9] = .ok (oneMemberZip ++ sigBlock [9, 9, 9]) :=
  ⟨xap_sign_unsigned _ _ _ (by decide) (by decide),
   (xap_sign_then_verify_module oneMemberZip [9, 9, 9] 33 (by decide) (by decide) (by decide) (by decide) (by decide)).1⟩

end Relic.Props.C01

/-
  Relic.Proofs.ZipForward — forward order of the members follows from `Spec.Zip` validity on the readable class:
  a 4-byte window that straddles two words (`fld_shift`), no local header can start inside the descriptor that ends a
  member (`no_header_inside_desc`: 28 byte-overlap cases), hence `ordered` (narrowest encoding) implies `forwardSpec`
  (true width) (`forward_of_ordered`).
-/
import Relic.Proofs.ZipStreamSpec
namespace Relic.Zip
open Relic Relic.SpecZip

theorem leVal_cons4 (x0 x1 x2 x3 : UInt8) : leVal [x0, x1, x2, x3] = x0.toNat + 256 * x1.toNat + 65536 * x2.toNat + 16777216 * x3.toNat := by
  simp only [leVal]; omega

/-- a 4-byte window that straddles two aligned words, in terms of the two words -/
theorem fld_shift (b : Bytes) (o : Nat) (h : o + 8 ≤ b.length) :
    fld b (o + 1) 4 = fld b o 4 / 256 + (fld b (o + 4) 4 % 256) * 16777216 ∧
    fld b (o + 2) 4 = fld b o 4 / 65536 + (fld b (o + 4) 4 % 65536) * 65536 ∧
    fld b (o + 3) 4 = fld b o 4 / 16777216 + (fld b (o + 4) 4 % 16777216) * 256 := by
  have hl : ((b.drop o).take 8).length = 8 := by rw [List.length_take, List.length_drop]; omega
  have hsplit : b.drop o = (b.drop o).take 8 ++ (b.drop o).drop 8 := (List.take_append_drop 8 _).symm
  match hm : (b.drop o).take 8, hl with
  | [x0, x1, x2, x3, x4, x5, x6, x7], _ =>
    rw [hm] at hsplit
    generalize (b.drop o).drop 8 = tl at hsplit
    have e : ∀ k, b.drop (o + k) = ([x0, x1, x2, x3, x4, x5, x6, x7] ++ tl).drop k := by
      intro k; rw [← List.drop_drop, hsplit]
    have f0 : fld b o 4 = leVal [x0, x1, x2, x3] := by
      unfold fld; have := e 0; simp only [Nat.add_zero, List.drop_zero] at this; rw [this]; rfl
    have f1 : fld b (o + 1) 4 = leVal [x1, x2, x3, x4] := by unfold fld; rw [e 1]; rfl
    have f2 : fld b (o + 2) 4 = leVal [x2, x3, x4, x5] := by unfold fld; rw [e 2]; rfl
    have f3 : fld b (o + 3) 4 = leVal [x3, x4, x5, x6] := by unfold fld; rw [e 3]; rfl
    have f4 : fld b (o + 4) 4 = leVal [x4, x5, x6, x7] := by unfold fld; rw [e 4]; rfl
    rw [f0, f1, f2, f3, f4]
    simp only [leVal_cons4]
    have h0 := x0.toNat_lt; have h1 := x1.toNat_lt; have h2 := x2.toNat_lt; have h3 := x3.toNat_lt
    have h4 := x4.toNat_lt; have h5 := x5.toNat_lt; have h6 := x6.toNat_lt; have h7 := x7.toNat_lt
    refine ⟨by omega, by omega, by omega⟩

theorem fld_drop0 (z : Bytes) (p k w : Nat) : fld (z.drop (p + k)) 0 w = fld (z.drop p) k w := by
  rw [fld_drop, fld_drop, Nat.add_zero]

/-- **no local header can start inside the descriptor that ends a member.**  If the signed encoding of width `w`
    (16 or 24) is present at `stop` and is followed at `stop + w` by a local or central signature, and some
    encoding of width `w0` is present too, then no position `stop + k` with `w0 ≤ k < w` carries a local header
    signature (the bytes there belong to the descriptor and to the following signature). -/
theorem no_header_inside_desc {z : Bytes} {stop lim w w0 k : Nat} {e : Entry}
    (hw : w ∈ descWidthsAt z stop lim e) (hw2 : w = 16 ∨ w = 24) (hw0 : w0 ∈ descWidthsAt z stop lim e)
    (hk0 : w0 ≤ k) (hk : k < w) (hlen : stop + w + 4 ≤ z.length)
    (hnext : fld (z.drop (stop + w)) 0 4 = sigFile ∨ fld (z.drop (stop + w)) 0 4 = sigDir)
    (hsig : fld (z.drop (stop + k)) 0 4 = sigFile) : False := by
  rw [fld_drop0] at hnext hsig
  generalize hB : z.drop stop = B at *
  have hBl : w + 4 ≤ B.length := by rw [← hB, List.length_drop]; omega
  obtain ⟨s, wd, hl, hr, _, hb⟩ := mem_descWidthsAt hw
  obtain ⟨s0, wd0, hl0, hr0, _, hb0⟩ := mem_descWidthsAt hw0
  have hl' := hl; have hl0' := hl0
  rw [descEnc_length] at hl' hl0'
  have U := enc_fields hl hb
  have V := enc_fields hl0 hb0
  rw [hB] at U V
  simp only [sigFile, sigDir] at hnext hsig
  rcases hw2 with rfl | rfl
  · -- true width 16
    have hs : s = true ∧ wd = false := by cases s <;> cases wd <;> simp at hl' ⊢
    obtain ⟨rfl, rfl⟩ := hs
    have U0 := U 0 (by simp); have U1 := U 1 (by simp); have U2 := U 2 (by simp); have U3 := U 3 (by simp)
    simp only [if_true, Bool.false_eq_true, if_false, List.cons_append, List.nil_append,
      List.getElem!_cons_zero, List.getElem!_cons_succ, Nat.reduceMul, sigDesc] at U0 U1 U2 U3
    have hr : e.csize < 2 ^ 32 ∧ e.usize < 2 ^ 32 := by simpa using hr
    -- the other encoding must be the 12-byte one
    have h12 : w0 = 12 := by cases s0 <;> cases wd0 <;> simp at hl0' <;> omega
    subst h12
    have hs0 : s0 = false ∧ wd0 = false := by cases s0 <;> cases wd0 <;> simp at hl0' ⊢
    obtain ⟨rfl, rfl⟩ := hs0
    have V0 := V 0 (by simp); have V1 := V 1 (by simp); have V2 := V 2 (by simp)
    simp only [Bool.false_eq_true, if_false, List.cons_append, List.nil_append,
      List.getElem!_cons_zero, List.getElem!_cons_succ, Nat.reduceMul] at V0 V1 V2
    obtain ⟨S1, S2, S3⟩ := fld_shift B 12 (by omega)
    clear hl hl0 hb hb0 U V hw hw0
    rcases (by omega : k = 12 ∨ k = 13 ∨ k = 14 ∨ k = 15) with rfl | rfl | rfl | rfl
    · omega
    · rw [S1] at hsig; omega
    · rw [S2] at hsig; omega
    · rw [S3] at hsig; omega
  · -- true width 24
    have hs : s = true ∧ wd = true := by cases s <;> cases wd <;> simp at hl' ⊢
    obtain ⟨rfl, rfl⟩ := hs
    have U0 := U 0 (by simp); have U1 := U 1 (by simp); have U2 := U 2 (by simp); have U3 := U 3 (by simp)
    have U4 := U 4 (by simp); have U5 := U 5 (by simp)
    simp only [if_true, List.cons_append, List.nil_append,
      List.getElem!_cons_zero, List.getElem!_cons_succ, Nat.reduceMul, sigDesc] at U0 U1 U2 U3 U4 U5
    obtain ⟨S13, S14, S15⟩ := fld_shift B 12 (by omega)
    obtain ⟨S17, S18, S19⟩ := fld_shift B 16 (by omega)
    obtain ⟨S21, S22, S23⟩ := fld_shift B 20 (by omega)
    cases s0 <;> cases wd0
    · -- 12 bytes: crc, cs, us
      have hr0 : e.csize < 2 ^ 32 ∧ e.usize < 2 ^ 32 := by simpa using hr0
      have V0 := V 0 (by simp); have V1 := V 1 (by simp); have V2 := V 2 (by simp)
      simp only [Bool.false_eq_true, if_false, List.cons_append, List.nil_append,
        List.getElem!_cons_zero, List.getElem!_cons_succ, Nat.reduceMul] at V0 V1 V2
      have : w0 = 12 := by simp at hl0'; omega
      subst this
      clear hl hl0 hb hb0 U V hw hw0
      rcases (by omega : k = 12 ∨ k = 13 ∨ k = 14 ∨ k = 15 ∨ k = 16 ∨ k = 17 ∨ k = 18 ∨ k = 19 ∨ k = 20 ∨ k = 21 ∨ k = 22 ∨ k = 23)
        with rfl | rfl | rfl | rfl | rfl | rfl | rfl | rfl | rfl | rfl | rfl | rfl
      · omega
      · rw [S13] at hsig; omega
      · rw [S14] at hsig; omega
      · rw [S15] at hsig; omega
      · omega
      · rw [S17] at hsig; omega
      · rw [S18] at hsig; omega
      · rw [S19] at hsig; omega
      · omega
      · rw [S21] at hsig; omega
      · rw [S22] at hsig; omega
      · rw [S23] at hsig; omega
    · -- 20 bytes: crc, cs (64 bit), us (64 bit)
      have V0 := V 0 (by simp); have V1 := V 1 (by simp); have V2 := V 2 (by simp); have V3 := V 3 (by simp); have V4 := V 4 (by simp)
      simp only [Bool.false_eq_true, if_false, if_true, List.cons_append, List.nil_append,
        List.getElem!_cons_zero, List.getElem!_cons_succ, Nat.reduceMul] at V0 V1 V2 V3 V4
      have : w0 = 20 := by simp at hl0'; omega
      subst this
      clear hl hl0 hb hb0 U V hw hw0
      rcases (by omega : k = 20 ∨ k = 21 ∨ k = 22 ∨ k = 23) with rfl | rfl | rfl | rfl
      · omega
      · rw [S21] at hsig; omega
      · rw [S22] at hsig; omega
      · rw [S23] at hsig; omega
    · -- 16 bytes: signature, crc, cs, us
      have hr0 : e.csize < 2 ^ 32 ∧ e.usize < 2 ^ 32 := by simpa using hr0
      have V0 := V 0 (by simp); have V1 := V 1 (by simp); have V2 := V 2 (by simp); have V3 := V 3 (by simp)
      simp only [Bool.false_eq_true, if_false, if_true, List.cons_append, List.nil_append,
        List.getElem!_cons_zero, List.getElem!_cons_succ, Nat.reduceMul, sigDesc] at V0 V1 V2 V3
      have : w0 = 16 := by simp at hl0'; omega
      subst this
      clear hl hl0 hb hb0 U V hw hw0
      rcases (by omega : k = 16 ∨ k = 17 ∨ k = 18 ∨ k = 19 ∨ k = 20 ∨ k = 21 ∨ k = 22 ∨ k = 23)
        with rfl | rfl | rfl | rfl | rfl | rfl | rfl | rfl
      · omega
      · rw [S17] at hsig; omega
      · rw [S18] at hsig; omega
      · rw [S19] at hsig; omega
      · omega
      · rw [S21] at hsig; omega
      · rw [S22] at hsig; omega
      · rw [S23] at hsig; omega
    · -- 24 bytes: nothing between
      have : w0 = 24 := by simp at hl0'; omega
      omega

theorem foldl_min_mem : ∀ (l : List Nat) (a : Nat), l.foldl min a = a ∨ l.foldl min a ∈ l := by
  intro l
  induction l with
  | nil => intro a; left; rfl
  | cons b l ih =>
    intro a
    simp only [List.foldl_cons]
    rcases ih (min a b) with h | h
    · rw [h]
      by_cases c : a ≤ b
      · left; omega
      · right; simp; left; omega
    · right; exact List.mem_cons_of_mem _ h

theorem minW_mem {l : List Nat} (h : l ≠ []) : l.foldl min (l.headD 0) ∈ l := by
  cases l with
  | nil => exact absurd rfl h
  | cons a t =>
    rcases foldl_min_mem (a :: t) ((a :: t).headD 0) with h1 | h1
    · rw [h1]; simp
    · exact h1

theorem forwardSpec_mono (a : Archive) : ∀ (ms : List SpecZip.Member) (p q : Nat), (∀ m, ms.head? = some m → q ≤ m.entry.hoff) →
    forwardSpec a p ms = true → forwardSpec a q ms = true := by
  intro ms
  cases ms with
  | nil => intro _ _ _ _; rfl
  | cons m ms =>
    intro p q hq h
    simp only [forwardSpec, Bool.and_eq_true, decide_eq_true_eq] at h ⊢
    exact ⟨hq m rfl, h.2⟩

/-- **forward order follows from validity on the readable class**: `Spec.Zip.ordered` bounds the next member by the
    narrowest descriptor encoding found; no local header can start inside the descriptor that really ends the
    member, so the next member starts after it. -/
theorem forward_of_ordered {z : Bytes} {a : Archive} (hp : parse z = some a) (hsigned : descSigned a = true)
    (hw : (a.members.all (widthOK a)) = true) :
    ∀ (ms : List SpecZip.Member) (pos : Nat), (∀ m ∈ ms, m ∈ a.members) → ordered pos ms = true →
      forwardSpec a pos ms = true := by
  obtain ⟨hen, hsum, hes, hms, _⟩ := parse_some hp
  obtain ⟨p, hp22, _, _, _, _, hrest⟩ := ends_some hen
  have hcd : a.ends.cdOff + 22 ≤ z.length := by
    split at hrest
    · obtain ⟨_, _, hq, _, hf, _⟩ := hrest
      omega
    · have := hrest.1; omega
  simp only [descSigned, List.all_eq_true] at hsigned hw
  intro ms
  induction ms with
  | nil => intro _ _ _; rfl
  | cons m ms ih =>
    intro pos hmem hord
    have hm := hmem m (List.mem_cons_self ..)
    have hmem' : ∀ x ∈ ms, x ∈ a.members := fun x hx => hmem x (List.mem_cons_of_mem _ hx)
    simp only [ordered, Bool.and_eq_true, decide_eq_true_eq] at hord
    obtain ⟨hpos, hord'⟩ := hord
    have hmo := mapM_memberOf_mem _ _ hms m hm
    obtain ⟨_, _, _, _, _, hme, _, hdo, hdata, hdesc⟩ := memberOf_some hmo
    simp only [forwardSpec, Bool.and_eq_true, decide_eq_true_eq]
    refine ⟨hpos, ?_⟩
    cases hh : m.descWidths with
    | nil =>
      rw [hh] at hord'
      simp only [List.foldl_nil, List.headD_nil, Nat.add_zero] at hord'
      exact ih _ hmem' hord'
    | cons w1 ws =>
      simp only
      have hne : m.descWidths ≠ [] := by rw [hh]; simp
      have hfl : m.entry.flags % 16 / 8 = 1 := by
        by_cases c : m.entry.flags % 16 / 8 = 1
        · exact c
        · rw [if_neg c] at hdesc; exact absurd hdesc hne
      rw [if_pos hfl] at hdesc
      -- the true width
      have hwok := hw m hm
      unfold widthOK at hwok
      have hemp : m.descWidths.isEmpty = false := by rw [hh]; rfl
      rw [hemp, Bool.false_or] at hwok
      cases htw : trueWidth a m with
      | none => rw [htw] at hwok; cases hwok
      | some w =>
        simp only
        have htw' := htw
        unfold trueWidth at htw'
        have hwmem := List.mem_of_find?_eq_some htw'
        have hcont := List.find?_some htw'
        have hnx := nexts_sig hp (List.ne_nil_of_mem hm) _ (by simpa using hcont)
        rw [hdesc.1] at hwmem
        have hsg : 16 ∈ descWidthsAt z (m.dataOff + m.entry.csize) a.ends.cdOff m.entry ∨
            24 ∈ descWidthsAt z (m.dataOff + m.entry.csize) a.ends.cdOff m.entry := by
          have := hsigned m hm
          rw [hemp, Bool.false_or, hdesc.1] at this
          simpa using this
        have hw1624 := true_width_signed hsg hwmem hnx
        -- the end of the true descriptor is the start of a structure that lies inside the file
        have hlen : m.dataOff + m.entry.csize + w + 4 ≤ z.length := by
          have hc : (a.members.map (·.entry.hoff) ++ [a.ends.cdOff]).contains (m.dataOff + m.entry.csize + w) = true := hcont
          rw [List.contains_iff_mem, List.mem_append] at hc
          rcases hc with hc | hc
          · obtain ⟨m2, hm2, he2⟩ := List.mem_map.mp hc
            have := (memberOf_some (mapM_memberOf_mem _ _ hms m2 hm2)).1
            omega
          · have : m.dataOff + m.entry.csize + w = a.ends.cdOff := by simpa using hc
            omega
        have hminmem : m.descWidths.foldl min (m.descWidths.headD 0) ∈ descWidthsAt z (m.dataOff + m.entry.csize) a.ends.cdOff m.entry := by
          rw [← hdesc.1]; exact minW_mem hne
        rw [hh] at hord' hminmem
        have hi := ih _ hmem' hord'
        apply forwardSpec_mono a ms _ _ _ hi
        intro m' hm'
        cases ms with
        | nil => cases hm'
        | cons m2 ms2 =>
          simp only [List.head?_cons, Option.some.injEq] at hm'
          subst hm'
          simp only [ordered, Bool.and_eq_true, decide_eq_true_eq] at hord'
          have hm2 := hmem' m2 (List.mem_cons_self ..)
          have hsig2 := (memberOf_some (mapM_memberOf_mem _ _ hms m2 hm2)).2.1
          by_cases c : m.dataOff + m.entry.csize + w ≤ m2.entry.hoff
          · exact c
          · exfalso
            have hk : m2.entry.hoff = m.dataOff + m.entry.csize + (m2.entry.hoff - (m.dataOff + m.entry.csize)) := by omega
            apply no_header_inside_desc (k := m2.entry.hoff - (m.dataOff + m.entry.csize)) hwmem hw1624 hminmem (by omega) (by omega) hlen hnx
            rw [← hk]
            exact hasSig_fld hsig2
end Relic.Zip

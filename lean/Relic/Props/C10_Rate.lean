/-
  Property C10, fragment "rate limiter": lib/pkcs9/ratelimit only delays.

  Theorems about `Relic.Model.TsaPool` section 2 (ratelimit.New, limiter.Timestamp over rate.Limiter.WaitN for one
  event).  Tied to the real code by the TSX `rate`, `wire` and `conc` ops: real ratelimit.New around a scripted inner
  time-stamper under background, pre-cancelled, deadline and cancelled-while-waiting contexts; return times are
  compared with the model's.
-/
import Relic.Model.TsaPool
namespace Relic.Props.C10
open Relic Relic.Tsa Relic.TsaX

/-- the errors the limiter itself can produce: all of them come from the caller's context -/
def CtxErrClass (e : String) : Prop := e = "canceled" ∨ e = "deadline" ∨ e = "rate-deadline"

theorem errAt_class {c : Ctx} {t : Nat} {e : String} (h : c.errAt t = some e) :
    (e = "canceled" ∨ e = "deadline") ∧ (c.cancelAt ≠ none ∨ c.deadline ≠ none) := by
  unfold Ctx.errAt at h
  cases hc : c.cancelAt with
  | none =>
    cases hd : c.deadline with
    | none => simp [hc, hd] at h
    | some d =>
      simp only [hc, hd] at h
      split at h <;> simp at h
      exact ⟨Or.inr h.symm, Or.inr (by simp)⟩
  | some k =>
    simp only [hc] at h
    split at h
    · exact ⟨Or.inl (by simpa using h.symm), Or.inl (by simp)⟩
    · cases hd : c.deadline with
      | none => simp [hd] at h
      | some d =>
        simp only [hd] at h
        split at h <;> simp at h
        exact ⟨Or.inr h.symm, Or.inr (by simp)⟩

/-- what `Wait` can do: let the call through at some time not before it was made; refuse with a context error (only
under a context that can be cancelled or has a deadline); or, for a non-positive rate only, never return -/
theorem wait_cases (l : Lim) (now : Nat) (ctx : Ctx) :
    (∃ t, (l.wait now ctx).1 = .proceed t ∧ now ≤ t) ∨
    (∃ e t, (l.wait now ctx).1 = .refused e t ∧ CtxErrClass e ∧ (ctx.cancelAt ≠ none ∨ ctx.deadline ≠ none)) ∨
    ((l.wait now ctx).1 = .forever ∧ l.period = none ∧ ctx.cancelAt = none) := by
  unfold Lim.wait
  cases he : ctx.errAt now with
  | some e =>
    obtain ⟨h1, h2⟩ := errAt_class he
    refine Or.inr (Or.inl ⟨e, now, rfl, ?_, h2⟩)
    rcases h1 with h | h
    · exact Or.inl h
    · exact Or.inr (Or.inl h)
  | none =>
    simp only
    by_cases hw : withinDeadline ctx.deadline now (l.waitDur now) = false
    · rw [if_pos hw]
      refine Or.inr (Or.inl ⟨_, now, rfl, Or.inr (Or.inr rfl), ?_⟩)
      cases hd : ctx.deadline with
      | none => simp [withinDeadline, hd] at hw
      | some d => exact Or.inr (by simp)
    · rw [if_neg hw]
      cases hk : l.waitDur now with
      | none =>
        simp only
        cases hc : ctx.cancelAt with
        | some c => exact Or.inr (Or.inl ⟨_, _, rfl, Or.inl rfl, Or.inl (by simp)⟩)
        | none =>
          refine Or.inr (Or.inr ⟨rfl, ?_, rfl⟩)
          cases hp : l.period with
          | none => rfl
          | some p =>
            exfalso
            unfold Lim.waitDur at hk
            simp only [hp, Option.isSome_some, if_true] at hk
            split at hk <;> simp at hk
      | some k =>
        cases k with
        | zero => exact Or.inl ⟨now, rfl, Nat.le_refl _⟩
        | succ k =>
          simp only
          cases hc : ctx.cancelAt with
          | none => exact Or.inl ⟨_, rfl, by omega⟩
          | some c =>
            simp only
            split
            · exact Or.inr (Or.inl ⟨_, _, rfl, Or.inl rfl, Or.inl (by simp)⟩)
            · exact Or.inl ⟨_, rfl, by omega⟩

/-- **rate_limit_preserves_outcome** — `limiter.Timestamp` returns either exactly what the wrapped time-stamper
returns (entered at some time not before the call: the limiter only delays), or a context error of the caller
without the wrapped time-stamper being entered, or (non-positive rate) it never returns.  It never answers on the
wrapped time-stamper's behalf. -/
theorem rate_limit_preserves_outcome (l : Lim) (now : Nat) (ctx : Ctx) (inner : Nat → Outcome) :
    (∃ t, now ≤ t ∧ (limited l now ctx inner).1 = ⟨inner t, t⟩) ∨
    (∃ e t, CtxErrClass e ∧ (ctx.cancelAt ≠ none ∨ ctx.deadline ≠ none) ∧ (limited l now ctx inner).1 = ⟨⟨.err e, [], []⟩, t⟩) ∨
    ((limited l now ctx inner).1.outcome = ⟨.diverge, [], []⟩ ∧ l.period = none ∧ ctx.cancelAt = none) := by
  unfold limited
  rcases wait_cases l now ctx with ⟨t, h, hle⟩ | ⟨e, t, h, hc, hx⟩ | ⟨h, hp, hc⟩
  · refine Or.inl ⟨t, hle, ?_⟩
    cases hw : l.wait now ctx with
    | mk w l' => simp [hw] at h; subst h; rfl
  · refine Or.inr (Or.inl ⟨e, t, hc, hx, ?_⟩)
    cases hw : l.wait now ctx with
    | mk w l' => simp [hw] at h; subst h; rfl
  · refine Or.inr (Or.inr ⟨?_, hp, hc⟩)
    cases hw : l.wait now ctx with
    | mk w l' => simp [hw] at h; subst h; rfl

/-- **rate_limit_never_skips** — a success that comes out of the limiter is a success of the wrapped time-stamper
(with its token, its source and the authorities it contacted): the limiter cannot skip the authority or the checks -/
theorem rate_limit_never_skips (l : Lim) (now : Nat) (ctx : Ctx) (inner : Nat → Outcome) (p : Src × Token)
    (h : (limited l now ctx inner).1.outcome.res = .ok p) :
    ∃ t, now ≤ t ∧ (limited l now ctx inner).1.outcome = inner t := by
  rcases rate_limit_preserves_outcome l now ctx inner with ⟨t, hle, he⟩ | ⟨e, t, _, _, he⟩ | ⟨he, _, _⟩
  · exact ⟨t, hle, by rw [he]⟩
  · rw [he] at h; simp at h
  · rw [he] at h; simp at h

/-- a refusal reaches no authority -/
theorem rate_limit_refusal_contacts_nobody (l : Lim) (now : Nat) (ctx : Ctx) (inner : Nat → Outcome)
    (h : ∀ t, (limited l now ctx inner).1.outcome ≠ inner t) : (limited l now ctx inner).1.outcome.contacted = [] := by
  rcases rate_limit_preserves_outcome l now ctx inner with ⟨t, _, he⟩ | ⟨e, t, _, _, he⟩ | ⟨he, _, _⟩
  · exact absurd (by rw [he]) (h t)
  · rw [he]
  · rw [he]

/-- under a context that is never cancelled and has no deadline (and a positive rate) the call always goes through -/
theorem rate_limit_background_serves (l : Lim) (now : Nat) (inner : Nat → Outcome) (p : Nat) (hp : l.period = some p) :
    ∃ t, now ≤ t ∧ (limited l now Ctx.background inner).1 = ⟨inner t, t⟩ := by
  rcases rate_limit_preserves_outcome l now Ctx.background inner with h | ⟨e, t, _, hx, _⟩ | ⟨_, hn, _⟩
  · exact h
  · simp [Ctx.background] at hx
  · rw [hp] at hn; simp at hn

/-- **no_limiter_when_rate_zero** — `ratelimit.New` with rate 0 returns the wrapped time-stamper itself -/
theorem no_limiter_when_rate_zero (period : Option Nat) (burst : Int) (t0 now : Nat) (ctx : Ctx) (inner : Nat → Outcome) :
    limitedOpt (mkLim true period burst t0) now ctx inner = (⟨inner now, now⟩, none) := by
  simp [mkLim, limitedOpt]

/-! ### how long -/

/-- the bucket never holds more than the burst -/
def Capped (l : Lim) : Prop := l.level ≤ ((l.burst * l.unit : Nat) : Int)

theorem ite_le_cap (x cap : Int) : (if x > cap then cap else x) ≤ cap := by
  split <;> omega

theorem advance_le_cap (l : Lim) (now : Nat) : l.advance now ≤ ((l.burst * l.unit : Nat) : Int) := by
  unfold Lim.advance
  simp only
  split <;> omega

theorem advance_ge_level (l : Lim) (now : Nat) (hc : Capped l) : l.level ≤ l.advance now := by
  unfold Lim.advance
  unfold Capped at hc
  simp only
  have hg : (0 : Int) ≤ (if l.period.isSome = true then ((now - l.last : Nat) : Int) else 0) := by
    split <;> omega
  split <;> omega

theorem mkLim_capped (period : Option Nat) (burst : Int) (now : Nat) (l : Lim) (h : mkLim false period burst now = some l) :
    Capped l ∧ l.level = ((l.burst * l.unit : Nat) : Int) ∧ 1 ≤ l.burst := by
  simp only [mkLim, Bool.false_eq_true, if_false] at h
  have := (Option.some.inj h).symm
  subst this
  refine ⟨by simp [Capped, Lim.unit], by simp [Lim.unit], ?_⟩
  simp only
  split <;> omega

/-- the reservation keeps the bucket capped, whatever `Wait` answers -/
theorem wait_capped (l : Lim) (now : Nat) (ctx : Ctx) (hc : Capped l) : Capped (l.wait now ctx).2 := by
  have hres : Capped (l.reserved now) := by
    have := advance_le_cap l now
    simp only [Capped, Lim.reserved, Lim.after, Lim.unit] at *
    omega
  have hcan : ∀ c, Capped (l.cancelled now c) := by
    intro c
    simp only [Capped, Lim.cancelled, Lim.reserved, Lim.unit]
    exact ite_le_cap _ _
  unfold Lim.wait
  cases ctx.errAt now with
  | some e => exact hc
  | none =>
    simp only
    split
    · exact hc
    · cases l.waitDur now with
      | none => cases ctx.cancelAt <;> simp only <;> first | exact hres | exact hcan _
      | some k =>
        cases k with
        | zero => exact hres
        | succ k =>
          cases ctx.cancelAt with
          | none => exact hres
          | some c => simp only; split <;> first | exact hres | exact hcan _

/-- **rate_limit_wait_bounded** — with a positive rate a call let through waits at most what the bucket owes plus
one token: `unit - level` ticks (so at most one period when the bucket is not in debt, nothing while it holds a token) -/
theorem rate_limit_wait_bounded (l : Lim) (now : Nat) (ctx : Ctx) (t : Nat) (hc : Capped l)
    (h : (l.wait now ctx).1 = .proceed t) : ((t - now : Nat) : Int) ≤ max 0 ((l.unit : Int) - l.level) := by
  have hadv := advance_ge_level l now hc
  unfold Lim.wait at h
  cases he : ctx.errAt now with
  | some e => simp [he] at h
  | none =>
    simp only [he] at h
    split at h
    · simp at h
    · have hk : ∀ k, l.waitDur now = some k → (k : Int) ≤ max 0 ((l.unit : Int) - l.level) := by
        intro k hk
        unfold Lim.waitDur Lim.after at hk
        split at hk
        · split at hk
          · have : k = (-(l.advance now - (l.unit : Int))).toNat := by simpa using hk.symm
            omega
          · simp at hk
        · have : k = 0 := by simpa using hk.symm
          omega
      cases hw : l.waitDur now with
      | none =>
        simp only [hw] at h
        cases hca : ctx.cancelAt <;> simp [hca] at h
      | some k =>
        have hkb := hk k hw
        cases k with
        | zero =>
          simp only [hw] at h
          have : t = now := by simpa using h.symm
          omega
        | succ k =>
          simp only [hw] at h
          cases hca : ctx.cancelAt with
          | none =>
            simp only [hca] at h
            have : t = now + (k + 1) := by simpa using h.symm
            omega
          | some c =>
            simp only [hca] at h
            split at h
            · simp at h
            · have : t = now + (k + 1) := by simpa using h.symm
              omega

/-- **burst_free** — while the bucket holds a whole token the call goes through at once -/
theorem burst_free (l : Lim) (now : Nat) (hl : (l.unit : Int) ≤ l.advance now) :
    l.wait now Ctx.background = (.proceed now, l.reserved now) := by
  have hw : l.waitDur now = some 0 := by
    unfold Lim.waitDur Lim.after
    have : ¬ (l.advance now - (l.unit : Int) < 0) := by omega
    simp [this]
  simp [Lim.wait, Ctx.background, Ctx.errAt, hw, withinDeadline]

/-- **rate_limit_waits** — a bucket without a whole token makes the call wait for the missing part (positive rate) -/
theorem rate_limit_waits (l : Lim) (now p : Nat) (hp : l.period = some p) (hl : l.advance now < (l.unit : Int)) :
    (l.wait now Ctx.background).1 = .proceed (now + ((l.unit : Int) - l.advance now).toNat) := by
  have hpos : 0 < ((l.unit : Int) - l.advance now).toNat := by omega
  have hw : l.waitDur now = some ((l.unit : Int) - l.advance now).toNat := by
    unfold Lim.waitDur Lim.after
    have h1 : l.advance now - (l.unit : Int) < 0 := by omega
    have h2 : -(l.advance now - (l.unit : Int)) = (l.unit : Int) - l.advance now := by omega
    simp [h1, hp, h2]
  obtain ⟨k, hk⟩ : ∃ k, ((l.unit : Int) - l.advance now).toNat = k + 1 := ⟨_, (Nat.succ_pred_eq_of_pos hpos).symm⟩
  rw [hk] at hw
  simp [Lim.wait, Ctx.background, Ctx.errAt, hw, withinDeadline, hk]

/-- **nonpositive_rate_starves** — a `ratelimit` ≤ 0 in the configuration (other than exactly 0) builds a limiter whose
bucket never refills: once the burst is used up a call under a plain context never returns (under a deadline it is
refused at once, see `wait_cases`); nothing is ever signed without its timestamp because of it -/
theorem nonpositive_rate_starves (l : Lim) (now : Nat) (inner : Nat → Outcome) (hp : l.period = none)
    (hl : l.level < (l.unit : Int)) (hc : Capped l) :
    (limited l now Ctx.background inner).1.outcome = ⟨.diverge, [], []⟩ := by
  have hadv : l.advance now = l.level := by
    unfold Lim.advance
    unfold Capped at hc
    simp only [hp, Option.isSome_none, Bool.false_eq_true, if_false]
    split <;> omega
  have hw : l.waitDur now = none := by
    unfold Lim.waitDur Lim.after
    have : l.advance now - (l.unit : Int) < 0 := by omega
    simp [this, hp]
  simp [limited, Lim.wait, Ctx.background, Ctx.errAt, hw, withinDeadline]

/-- non-vacuity: 10 per second in milliseconds (period 100), burst 2: the first two calls at once, the third after 100 -/
example :
    let l0 : Lim := ⟨some 100, 2, 200, 0⟩
    let w1 := l0.wait 0 Ctx.background
    let w2 := w1.2.wait 0 Ctx.background
    let w3 := w2.2.wait 0 Ctx.background
    (w1.1, w2.1, w3.1) = (.proceed 0, .proceed 0, .proceed 100) := by decide

/-- non-vacuity: a deadline shorter than the wait refuses at once and leaves the bucket alone; a cancellation during
the wait gives the token back -/
example :
    let l0 : Lim := ⟨some 100, 1, 0, 0⟩
    (l0.wait 0 ⟨none, some 20⟩ = (.refused "rate-deadline" 0, l0)) ∧
    (l0.wait 0 ⟨some 20, none⟩).1 = .refused "canceled" 20 ∧ (l0.wait 0 ⟨some 20, none⟩).2.level = 20 := by decide

end Relic.Props.C10

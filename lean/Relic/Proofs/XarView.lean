/- Relic.Model.Xar: the two readers of the table of contents (etree in `Sign`, `encoding/xml` in `Open`/`Verify`) see the
   same members on regular documents, before and after `adjustOffsets` -/
import Relic.Proofs.Xar
namespace Relic.Xar
open Relic

theorem Num.Laws.rtT {N : Num} (hN : N.Laws) (n : Int) (h : inI64 n) : N.atoiT (N.fmt n) = (n, true) := by
  rw [hN.trim _ (by rw [hN.rt n h]), hN.rt n h]

/-! ### regular `<file>` elements

A document is *regular* below `<toc>` when every `<file>` has at most one `<data>` child, every `<data>` has exactly one
`<offset>` and at most one `<length>` / `<archived-checksum>` child, these number elements contain nothing but text that
`ParseInt` accepts, and `<archived-checksum>` contains nothing but text and carries at most one `style` attribute.
Everything else (names, types, modes, extended attributes, encodings, unknown elements, white space) is unconstrained. -/

/-! ### text is what it was -/

theorem allText_adjustKids (N : Num) (ea : Bool) (d : Int) (b : Bool) : ∀ ks, allText (adjustKids N ea d b ks) = allText ks
  | [] => by simp [adjustKids]
  | .tx s :: ks => by simp [adjustKids, adjust, allText, allText_adjustKids N ea d b ks]
  | .el n as k :: ks => by
    simp only [adjustKids, adjust]
    split
    · split <;> simp [allText, allText_adjustKids N ea d b ks]
    · simp [allText, allText_adjustKids N ea d b ks]

theorem etext_allTx : ∀ ks, allTx ks = true → allText ks = etext ks
  | [], _ => by simp [allText, etext]
  | .tx s :: ks, h => by
    have : allTx ks = true := by simpa [allTx] using h
    simp [allText, etext, etext_allTx ks this]
  | .el n as k :: ks, h => by simp [allTx] at h

theorem adjustKids_allTx (N : Num) (ea : Bool) (d : Int) (b : Bool) : ∀ ks, allTx ks = true → adjustKids N ea d b ks = ks
  | [], _ => by simp [adjustKids]
  | .tx s :: ks, h => by
    have : allTx ks = true := by simpa [allTx] using h
    simp [adjustKids, adjust, adjustKids_allTx N ea d b ks this]
  | .el n as k :: ks, h => by simp [allTx] at h

theorem dropWhile_allTx : ∀ ks : List Xml, allTx ks = true → ks.dropWhile (·.isTx) = []
  | [], _ => rfl
  | .tx s :: ks, h => by
    have : allTx ks = true := by simpa [allTx] using h
    simp [List.dropWhile, dropWhile_allTx ks this]
  | .el n as k :: ks, h => by simp [allTx] at h

/-- reading a regular number element: both readers get the `ParseInt` value -/
theorem intOf_numOk (N : Num) (hN : N.Laws) (ks : List Xml) (h : numOk N ks = true) :
    intOf N ks = some (N.atoi (etext ks)).1 := by
  simp only [numOk, Bool.and_eq_true] at h
  have ht := etext_allTx ks h.1
  have hne : etext ks ≠ "" := by
    intro e
    have := hN.empty
    rw [e] at h
    simp [this] at h
  simp [intOf, ht, hne, hN.trim _ h.2, h.2]

/-- a regular `<offset>` element after the shift: still regular, and it reads as the shifted value -/
theorem offset_shifted (N : Num) (ea : Bool) (hN : N.Laws) (d : Int) (as : List (String × String)) (ks : List Xml) (h : numOk N ks = true) :
    adjust N ea d true (.el "offset" as ks) = .el "offset" as [.tx (N.fmt (w64 ((N.atoi (etext ks)).1 + d)))] ∧
    numOk N [.tx (N.fmt (w64 ((N.atoi (etext ks)).1 + d)))] = true ∧
    (N.atoi (etext [Xml.tx (N.fmt (w64 ((N.atoi (etext ks)).1 + d)))])).1 = w64 ((N.atoi (etext ks)).1 + d) := by
  have h' := h
  simp only [numOk, Bool.and_eq_true] at h
  have e1 : isRef ea "offset" = false := isRef_false ea _ (by decide) (by decide)
  have e2 : (true && "offset" == "offset") = true := by decide
  refine ⟨?_, ?_, ?_⟩
  · simp only [adjust, e1, e2, ↓reduceIte, adjustKids_allTx N ea d false ks h.1, h.2, setText, dropWhile_allTx ks h.1]
  · simp [numOk, allTx, etext, hN.rt _ (w64_inI64 _)]
  · simp [etext, hN.rt _ (w64_inI64 _)]

/-! ### `encoding/xml` on the shifted document -/

def FileAcc.shift (d : Int) (a : FileAcc) : FileAcc := { a with offset := w64 (a.offset + d) }

theorem count_cons_el (n m : String) (as : List (String × String)) (k ks : List Xml) :
    count n (.el m as k :: ks) = (if m = n then 1 else 0) + count n ks := by
  by_cases h : m = n <;> simp [count, named, List.filter_cons, h] <;> omega

theorem count_cons_tx (n s : String) (ks : List Xml) : count n (.tx s :: ks) = count n ks := by
  simp [count, named, List.filter_cons]

/-- without an `<offset>` child the offset field passes through `<data>` untouched -/
theorem umData_offset_frame (N : Num) (o : Int) : ∀ (ks : List Xml) (a : FileAcc), count "offset" ks = 0 →
    umData N ks { a with offset := o } = (umData N ks a).map fun a' => { a' with offset := o }
  | [], a, _ => by simp [umData]
  | .tx s :: ks, a, h => by
    rw [count_cons_tx] at h
    simpa [umData] using umData_offset_frame N o ks a h
  | .el n as k :: ks, a, h => by
    rw [count_cons_el] at h
    have hn : n ≠ "offset" := by intro e; simp [e] at h
    have hc : count "offset" ks = 0 := by simp [hn] at h; exact h
    simp only [umData, hn, ↓reduceIte]
    split
    · cases intOf N k with
      | none => simp
      | some v => simpa using umData_offset_frame N o ks { a with length := v } hc
    · split
      · cases intOf N k with
        | none => simp
        | some v => simpa using umData_offset_frame N o ks a hc
      · split
        · simpa using umData_offset_frame N o ks { a with astyle := styleOf a.astyle as, adigest := allText k } hc
        · exact umData_offset_frame N o ks a hc

/-- `<data>` with regular children and at most one `<offset>`: the shifted document reads as the shifted field -/
theorem umData_adjust (N : Num) (ea : Bool) (hN : N.Laws) (d : Int) : ∀ (ks : List Xml) (a : FileAcc), ks.all (regDataKid N) = true →
    count "offset" ks ≤ 1 →
    umData N (adjustKids N ea d true ks) a =
      (umData N ks a).map fun a' => if count "offset" ks = 1 then a'.shift d else a'
  | [], a, _, _ => by simp [umData, adjustKids, count, named]
  | .tx s :: ks, a, hr, hc => by
    rw [count_cons_tx] at hc ⊢
    have hr' : ks.all (regDataKid N) = true := by simpa [regDataKid] using hr
    simpa [umData, adjustKids, adjust] using umData_adjust N ea hN d ks a hr' hc
  | .el n as k :: ks, a, hr, hc => by
    rw [count_cons_el] at hc ⊢
    simp only [List.all_cons, Bool.and_eq_true] at hr
    obtain ⟨hk, hr'⟩ := hr
    by_cases hoff : n = "offset"
    · subst hoff
      have hnum : numOk N k = true := by simpa [regDataKid] using hk
      have hc0 : count "offset" ks = 0 := by simp at hc; omega
      obtain ⟨e1, e2, e3⟩ := offset_shifted N ea hN d as k hnum
      simp only [adjustKids, e1, umData, ↓reduceIte, intOf_numOk N hN _ e2, e3, intOf_numOk N hN _ hnum, Option.bind_some]
      rw [umData_adjust N ea hN d ks _ hr' (by omega), hc0]
      simp only [Nat.add_zero, ↓reduceIte, Nat.zero_ne_one]
      rw [umData_offset_frame N _ ks a hc0, umData_offset_frame N (N.atoi (etext k)).1 ks a hc0]
      cases umData N ks a <;> simp [FileAcc.shift]
    · have hcount : count "offset" ks ≤ 1 := by simp [hoff] at hc; exact hc
      have ih := fun a => umData_adjust N ea hN d ks a hr' hcount
      have hd : (isRef ea n) = false ∨ True := Or.inr trivial
      have hadj : ∃ k', adjust N ea d true (.el n as k) = .el n as k' ∧ allText k' = allText k ∧ intOf N k' = intOf N k := by
        refine ⟨adjustKids N ea d (isRef ea n) k, ?_, allText_adjustKids N ea d _ k, ?_⟩
        · simp [adjust, hoff]
        · simp [intOf, allText_adjustKids]
      obtain ⟨k', ek, et, ei⟩ := hadj
      simp only [adjustKids, ek, umData, hoff, ↓reduceIte, Nat.zero_add, ei, et]
      split
      · cases intOf N k with
        | none => simp
        | some v => simpa using ih { a with length := v }
      · split
        · cases intOf N k with
          | none => simp
          | some v => simpa using ih a
        · split
          · exact ih _
          · exact ih a

mutual
/-- what `encoding/xml` reads from the shifted document: files that have a `<data>` element move, the others do not -/
def shiftX (d : Int) : XFile → XFile
  | .mk a ks => .mk (if a.hasData then a.shift d else a) (shiftXs d ks)
def shiftXs (d : Int) : List XFile → List XFile
  | [] => []
  | x :: xs => shiftX d x :: shiftXs d xs
end

theorem umData_hasData (N : Num) : ∀ (ks : List Xml) (a a' : FileAcc), umData N ks a = some a' → a'.hasData = a.hasData
  | [], a, a', h => by simp [umData] at h; rw [← h]
  | .tx s :: ks, a, a', h => by simp only [umData] at h; exact umData_hasData N ks a a' h
  | .el n as k :: ks, a, a', h => by
    simp only [umData] at h
    split at h
    · cases hi : intOf N k with
      | none => simp [hi] at h
      | some v => simp only [hi, Option.bind_some] at h; simpa using umData_hasData N ks _ a' h
    · split at h
      · cases hi : intOf N k with
        | none => simp [hi] at h
        | some v => simp only [hi, Option.bind_some] at h; simpa using umData_hasData N ks _ a' h
      · split at h
        · cases hi : intOf N k with
          | none => simp [hi] at h
          | some v => simp only [hi, Option.bind_some] at h; simpa using umData_hasData N ks _ a' h
        · split at h
          · simpa using umData_hasData N ks _ a' h
          · exact umData_hasData N ks _ a' h

theorem umFileKids_hasData (N : Num) : ∀ (ks : List Xml) (a : FileAcc) (r : FileAcc × List XFile),
    umFileKids N ks a = some r → r.1.hasData = (a.hasData || decide (0 < count "data" ks))
  | [], a, r, h => by simp [umFileKids] at h; simp [← h, count, named]
  | .tx s :: ks, a, r, h => by
    simp only [umFileKids] at h
    rw [count_cons_tx]; exact umFileKids_hasData N ks a r h
  | .el n as k :: ks, a, r, h => by
    rw [count_cons_el]
    simp only [umFileKids] at h
    split at h
    · rename_i hn
      have : ¬ n = "data" := by rw [hn]; decide
      simpa [this] using umFileKids_hasData N ks _ r h
    · split at h
      · rename_i hn hd
        split at h
        · cases h
        · rename_i a' ha'
          have h1 := umData_hasData N k _ a' ha'
          have h2 := umFileKids_hasData N ks a' r h
          simp [hd, h2, h1]
          exact Or.inr (by omega)
      · split at h
        · rename_i hn hd hf
          split at h
          · cases h
          · split at h
            · cases h
            · rename_i a' sub hs
              simp only [Option.some.injEq] at h
              have h2 := umFileKids_hasData N ks a (a', sub) hs
              rw [← h]
              simpa [hd] using h2
        · rename_i hn hd hf
          simpa [hd] using umFileKids_hasData N ks a r h

theorem umFileKids_offset_frame (N : Num) (d : Int) : ∀ (ks : List Xml) (a : FileAcc), count "data" ks = 0 →
    umFileKids N ks (a.shift d) = (umFileKids N ks a).map fun r => (r.1.shift d, r.2)
  | [], a, _ => by simp [umFileKids]
  | .tx s :: ks, a, h => by
    rw [count_cons_tx] at h
    simpa [umFileKids] using umFileKids_offset_frame N d ks a h
  | .el n as k :: ks, a, h => by
    rw [count_cons_el] at h
    have hn : n ≠ "data" := by intro e; simp [e] at h
    have hc : count "data" ks = 0 := by simp [hn] at h; exact h
    simp only [umFileKids, hn, ↓reduceIte]
    split
    · exact umFileKids_offset_frame N d ks { a with name := allText k } hc
    · split
      · rw [umFileKids_offset_frame N d ks a hc]
        cases umFileKids N k {} with
        | none => simp
        | some r =>
          cases umFileKids N ks a with
          | none => simp
          | some r2 => simp
      · exact umFileKids_offset_frame N d ks a hc

theorem regFileKids_cons (N : Num) (k : Xml) (ks : List Xml) : regFileKids N (k :: ks) = (regFile N k && regFileKids N ks) := by
  simp [regFileKids]

theorem adjust_el_plain (N : Num) (ea : Bool) (d : Int) (n : String) (as : List (String × String)) (k : List Xml) :
    adjust N ea d false (.el n as k) = .el n as (adjustKids N ea d (isRef ea n) k) := by
  simp [adjust]

/-- the children of a regular `<file>` with at most one `<data>`: `encoding/xml` reads the shifted document as the shift of
    what it read before (fields and nested files) -/
theorem umFileKids_adjust (N : Num) (ea : Bool) (hN : N.Laws) (d : Int) : ∀ (ks : List Xml) (a : FileAcc), regFileKids N ks = true →
    count "data" ks ≤ 1 →
    umFileKids N (adjustKids N ea d false ks) a =
      (umFileKids N ks a).map fun r => (if count "data" ks = 1 then r.1.shift d else r.1, shiftXs d r.2)
  | [], a, _, _ => by simp [umFileKids, adjustKids, count, named, shiftXs]
  | .tx s :: ks, a, hr, hc => by
    rw [count_cons_tx] at hc ⊢
    rw [regFileKids_cons] at hr
    simpa [umFileKids, adjustKids, adjust] using umFileKids_adjust N ea hN d ks a (by simpa [regFile] using hr) hc
  | .el n as k :: ks, a, hr, hc => by
    rw [count_cons_el] at hc ⊢
    rw [regFileKids_cons, Bool.and_eq_true] at hr
    obtain ⟨hk, hr'⟩ := hr
    simp only [adjustKids, adjust_el_plain]
    by_cases hname : n = "name"
    · subst hname
      have hcount : count "data" ks ≤ 1 := by simpa using hc
      have e : ¬ "name" = "data" := by decide
      simpa [umFileKids, allText_adjustKids, e] using umFileKids_adjust N ea hN d ks _ hr' hcount
    · by_cases hdata : n = "data"
      · subst hdata
        have hc0 : count "data" ks = 0 := by simp at hc; omega
        have hreg : regData N k = true := by simpa [regFile] using hk
        simp only [regData, Bool.and_eq_true, beq_iff_eq, decide_eq_true_eq] at hreg
        obtain ⟨⟨⟨h1, h2⟩, _⟩, _⟩ := hreg
        have e1 : isRef ea "data" = true := by simp [isRef]
        simp only [umFileKids, hname, ↓reduceIte, e1, umData_adjust N ea hN d k _ h1 (by omega), h2]
        cases hu : umData N k { a with hasData := true } with
        | none => simp
        | some a' =>
          simp only [Option.map_some]
          rw [umFileKids_adjust N ea hN d ks (a'.shift d) hr' (by omega), umFileKids_offset_frame N d ks a' hc0, hc0]
          cases umFileKids N ks a' with
          | none => simp
          | some r => simp
      · have hcount : count "data" ks ≤ 1 := by simpa [hdata] using hc
        by_cases hfile : n = "file"
        · subst hfile
          have hreg : regFileKids N k = true ∧ count "data" k ≤ 1 := by simpa [regFile] using hk
          have e1 : isRef ea "file" = false := isRef_false ea _ (by decide) (by decide)
          simp only [umFileKids, hname, hdata, ↓reduceIte, e1, umFileKids_adjust N ea hN d k {} hreg.1 hreg.2,
            umFileKids_adjust N ea hN d ks a hr' hcount, Nat.zero_add]
          cases hk1 : umFileKids N k {} with
          | none => simp
          | some r1 =>
            cases hk2 : umFileKids N ks a with
            | none => simp
            | some r2 =>
              have hd := umFileKids_hasData N k {} r1 hk1
              simp only [Bool.false_or] at hd
              have : (if count "data" k = 1 then r1.1.shift d else r1.1) = (if r1.1.hasData = true then r1.1.shift d else r1.1) := by
                by_cases hcd : count "data" k = 1
                · simp [hcd, hd]
                · have : count "data" k = 0 := by omega
                  simp [this, hd]
              simp [shiftXs, shiftX, this]
        · simp only [umFileKids, hname, hdata, hfile, ↓reduceIte, Nat.zero_add]
          exact umFileKids_adjust N ea hN d ks a hr' hcount

/-! ### the `<toc>` level -/

/-- the `<file>` children of `<toc>` as `encoding/xml` reads them, in order -/
def umFiles (N : Num) : List Xml → Option (List XFile)
  | [] => some []
  | .tx _ :: rest => umFiles N rest
  | .el n _ ks :: rest =>
    if n = "file" then (umFile N ks).bind fun x => (umFiles N rest).map (x :: ·) else umFiles N rest

theorem umTocKids_nosig (N : Num) : ∀ (ks : List Xml) (t : XToc), (∀ k ∈ ks, k.isSig = false) →
    umTocKids N ks t = (umFiles N ks).map fun fs => { t with files := t.files ++ fs }
  | [], t, _ => by simp [umTocKids, umFiles]
  | .tx s :: ks, t, h => by
    simpa [umTocKids, umFiles] using umTocKids_nosig N ks t fun k hk => h k (List.mem_cons_of_mem _ hk)
  | .el n as k :: ks, t, h => by
    have hn : isSigName n = false := by simpa [Xml.isSig] using h _ List.mem_cons_self
    simp only [isSigName, Bool.or_eq_false_iff, decide_eq_false_iff_not] at hn
    obtain ⟨⟨h1, h2⟩, h3⟩ := hn
    have ih := fun t => umTocKids_nosig N ks t fun k hk => h k (List.mem_cons_of_mem _ hk)
    simp only [umTocKids, umFiles, h1, h2, h3, ↓reduceIte]
    split
    · cases umFile N k with
      | none => simp
      | some x =>
        simp only [Option.bind_some, ih]
        cases umFiles N ks <;> simp
    · exact ih t

/-- whatever the signature elements are, the files `encoding/xml` collects are those of the other children -/
theorem umTocKids_files (N : Num) : ∀ (ks : List Xml) (t r : XToc), umTocKids N ks t = some r →
    ∃ fs, umFiles N (removeSigs N ks).2 = some fs ∧ r.files = t.files ++ fs
  | [], t, r, h => by simp [umTocKids] at h; simp [removeSigs, umFiles, ← h]
  | .tx s :: ks, t, r, h => by
    simp only [umTocKids] at h
    simpa [removeSigs, umFiles] using umTocKids_files N ks t r h
  | .el n as k :: ks, t, r, h => by
    simp only [umTocKids] at h
    by_cases h1 : n = "checksum"
    · subst h1
      simp only [↓reduceIte] at h
      cases hs : umSig N (.el "checksum" as k) t.ck with
      | none => simp [hs] at h
      | some sg =>
        simp only [hs, Option.bind_some] at h
        simpa [removeSigs, isSigName] using umTocKids_files N ks _ r h
    · by_cases h2 : n = "signature"
      · subst h2
        simp only [h1, ↓reduceIte] at h
        cases hs : umSig N (.el "signature" as k) (t.sig.getD emptySig) with
        | none => simp [hs] at h
        | some sg =>
          simp only [hs, Option.bind_some] at h
          simpa [removeSigs, isSigName] using umTocKids_files N ks _ r h
      · by_cases h3 : n = "x-signature"
        · subst h3
          simp only [h1, h2, ↓reduceIte] at h
          cases hs : umSig N (.el "x-signature" as k) (t.xsig.getD emptySig) with
          | none => simp [hs] at h
          | some sg =>
            simp only [hs, Option.bind_some] at h
            simpa [removeSigs, isSigName] using umTocKids_files N ks _ r h
        · have hsn : isSigName n = false := by simp [isSigName, h1, h2, h3]
          simp only [h1, h2, h3, ↓reduceIte] at h
          simp only [removeSigs, hsn, Bool.false_eq_true, ↓reduceIte, umFiles]
          split at h
          · rename_i hf
            cases hx : umFile N k with
            | none => simp [hx] at h
            | some x =>
              simp only [hx, Option.bind_some] at h
              obtain ⟨fs, e1, e2⟩ := umTocKids_files N ks _ r h
              refine ⟨x :: fs, by simp [hf, e1], ?_⟩
              simp [e2]
          · rename_i hf
            simpa [hf] using umTocKids_files N ks t r h

theorem umTocKids_append (N : Num) : ∀ (xs ys : List Xml) (t : XToc),
    umTocKids N (xs ++ ys) t = (umTocKids N xs t).bind (umTocKids N ys)
  | [], ys, t => by simp [umTocKids]
  | .tx s :: xs, ys, t => by simpa [umTocKids] using umTocKids_append N xs ys t
  | .el n as k :: xs, ys, t => by
    simp only [List.cons_append, umTocKids]
    split
    · cases umSig N (.el n as k) t.ck <;> simp [umTocKids_append N xs ys]
    · split
      · cases umSig N (.el n as k) (t.sig.getD emptySig) <;> simp [umTocKids_append N xs ys]
      · split
        · cases umSig N (.el n as k) (t.xsig.getD emptySig) <;> simp [umTocKids_append N xs ys]
        · split
          · cases umFile N k <;> simp [umTocKids_append N xs ys]
          · exact umTocKids_append N xs ys t

theorem umRootKids_notoc (N : Num) : ∀ (ks : List Xml) (t : XToc), (∀ k ∈ ks, k.isEl "toc" = false) → umRootKids N ks t = some t
  | [], t, _ => by simp [umRootKids]
  | .tx s :: ks, t, h => by simpa [umRootKids] using umRootKids_notoc N ks t fun k hk => h k (List.mem_cons_of_mem _ hk)
  | .el n as k :: ks, t, h => by
    have hn : ¬ n = "toc" := by simpa using h _ List.mem_cons_self
    simpa [umRootKids, hn] using umRootKids_notoc N ks t fun k hk => h k (List.mem_cons_of_mem _ hk)

theorem umRootKids_append (N : Num) : ∀ (xs ys : List Xml) (t : XToc),
    umRootKids N (xs ++ ys) t = (umRootKids N xs t).bind (umRootKids N ys)
  | [], ys, t => by simp [umRootKids]
  | .tx s :: xs, ys, t => by simpa [umRootKids] using umRootKids_append N xs ys t
  | .el n as k :: xs, ys, t => by
    simp only [List.cons_append, umRootKids]
    split
    · cases umTocKids N k t <;> simp [umRootKids_append N xs ys]
    · exact umRootKids_append N xs ys t

/-- a document with exactly one `<toc>` below its root -/
theorem unmarshal_one_toc (N : Num) (rn : String) (ras : List (String × String)) (pre : List Xml) (tas : List (String × String))
    (tks post : List Xml) (hpre : ∀ k ∈ pre, k.isEl "toc" = false) (hpost : ∀ k ∈ post, k.isEl "toc" = false) :
    unmarshal N (.el rn ras (pre ++ .el "toc" tas tks :: post)) = umTocKids N tks emptyToc := by
  simp only [unmarshal, umRootKids_append, umRootKids_notoc N pre _ hpre, Option.bind_some, umRootKids, ↓reduceIte]
  cases umTocKids N tks emptyToc with
  | none => simp
  | some t => simp [umRootKids_notoc N post _ hpost]

theorem umFiles_adjust (N : Num) (ea : Bool) (hN : N.Laws) (d : Int) : ∀ (ks : List Xml), regFileKids N ks = true →
    umFiles N (adjustKids N ea d false ks) = (umFiles N ks).map (shiftXs d)
  | [], _ => by simp [umFiles, adjustKids, shiftXs]
  | .tx s :: ks, h => by
    rw [regFileKids_cons] at h
    simpa [umFiles, adjustKids, adjust] using umFiles_adjust N ea hN d ks (by simpa [regFile] using h)
  | .el n as k :: ks, h => by
    rw [regFileKids_cons, Bool.and_eq_true] at h
    obtain ⟨hk, hr⟩ := h
    simp only [adjustKids, adjust_el_plain, umFiles, umFiles_adjust N ea hN d ks hr]
    split
    · rename_i hf
      subst hf
      have hreg : regFileKids N k = true ∧ count "data" k ≤ 1 := by simpa [regFile] using hk
      have e1 : isRef ea "file" = false := isRef_false ea _ (by decide) (by decide)
      simp only [umFile, e1, umFileKids_adjust N ea hN d k {} hreg.1 hreg.2]
      cases hk1 : umFileKids N k {} with
      | none => simp
      | some r1 =>
        have hd := umFileKids_hasData N k {} r1 hk1
        simp only [Bool.false_or] at hd
        have : (if count "data" k = 1 then r1.1.shift d else r1.1) = (if r1.1.hasData = true then r1.1.shift d else r1.1) := by
          by_cases hcd : count "data" k = 1
          · simp [hcd, hd]
          · have : count "data" k = 0 := by omega
            simp [this, hd]
        cases umFiles N ks with
        | none => simp
        | some fs => simp [shiftXs, shiftX, this]
    · rfl

/-! ### what `encoding/xml` makes of the new signature elements -/

/-- the struct values `Open` gets for the elements `reserveSignatures` wrote -/
def tocOfKey (hk : HK) (ki : KeyInfo) : XToc :=
  match ki.rsaSize with
  | some n => ⟨⟨hk.name, 0, hk.size, []⟩, some ⟨"RSA", hk.size, n, ki.certTexts⟩,
               some ⟨"CMS", hk.size + n, 6144 + ki.derTotal, ki.certTexts⟩, []⟩
  | none => ⟨⟨hk.name, 0, hk.size, []⟩, none, some ⟨"CMS", hk.size, 6144 + ki.derTotal, ki.certTexts⟩, []⟩

theorem intOf_fmt (N : Num) (hN : N.Laws) (n : Int) (h : inI64 n) : intOf N [.tx (N.fmt n)] = some n := by
  simp [intOf, allText, hN.fmt_ne, hN.rtT n h]

theorem certs_roundtrip (cs : List String) :
    (named "X509Certificate" (cs.map fun c => Xml.el "X509Certificate" [] [.tx c])).map (fun c => allText c.kids) = cs := by
  induction cs with
  | nil => rfl
  | cons c cs ih =>
    simp only [List.map_cons, named, List.filter_cons, isEl_el, beq_self_eq_true, ↓reduceIte, kids_el, allText,
      String.append_empty, List.cons.injEq, true_and]
    simpa [named] using ih

theorem umSig_new (N : Num) (hN : N.Laws) (key style : String) (o sz : Int) (cs : Option (List String)) (ho : inI64 o)
    (hs : inI64 sz) (old : XSig) (hold : old.certs = []) :
    umSig N (newSigElement N key style o sz cs) old = some ⟨style, o, sz, cs.getD []⟩ := by
  have e1 : ¬ "size" = "offset" := by decide
  have e2 : ¬ "offset" = "size" := by decide
  have e3 : ¬ "KeyInfo" = "offset" := by decide
  have e4 : ¬ "KeyInfo" = "size" := by decide
  cases cs with
  | none =>
    simp [newSigElement, umSig, umSigKids, styleOf, attrLast, attrFirst, e1, intOf_fmt N hN _ ho,
      intOf_fmt N hN _ hs, hold]
  | some cs =>
    have := certs_roundtrip cs
    simp only [named] at this
    simp [newSigElement, umSig, umSigKids, styleOf, attrLast, attrFirst, e1, e3, e4, intOf_fmt N hN _ ho,
      intOf_fmt N hN _ hs, hold, named, this]

theorem umTocKids_reserve (N : Num) (hN : N.Laws) (hk : HK) (ki : KeyInfo) (hki : ki.small) :
    umTocKids N (reserve N hk ki).1 emptyToc = some (tocOfKey hk ki) := by
  have hs := hk.size_le
  obtain ⟨hd, hr⟩ := hki
  have i0 : inI64 (0 : Int) := by unfold inI64; omega
  have i1 : inI64 (hk.size : Int) := by unfold inI64; omega
  have i3 : inI64 (6144 + ki.derTotal : Int) := by unfold inI64; omega
  unfold reserve tocOfKey
  cases hrs : ki.rsaSize with
  | none =>
    simp only []
    obtain ⟨_, b1⟩ := sizeOf_newSigElement N hN "checksum" hk.name 0 hk.size none i1
    obtain ⟨_, b3⟩ := sizeOf_newSigElement N hN "x-signature" "CMS" hk.size (6144 + ki.derTotal) (some ki.certTexts) i3
    have u1 := umSig_new N hN "checksum" hk.name 0 hk.size none i0 i1 emptySig rfl
    have u3 := umSig_new N hN "x-signature" "CMS" hk.size (6144 + ki.derTotal) (some ki.certTexts) i1 i3 emptySig rfl
    rw [b1] at u1 ⊢
    rw [b3] at u3 ⊢
    have e1 : ¬ "x-signature" = "checksum" := by decide
    have e2 : ¬ "x-signature" = "signature" := by decide
    simp [umTocKids, emptyToc, u1, u3, e1, e2]
  | some n =>
    have hn := hr n hrs
    have i2 : inI64 (n : Int) := by unfold inI64; omega
    have i4 : inI64 (hk.size + n : Int) := by unfold inI64; omega
    simp only []
    obtain ⟨_, b1⟩ := sizeOf_newSigElement N hN "checksum" hk.name 0 hk.size none i1
    obtain ⟨_, b2⟩ := sizeOf_newSigElement N hN "signature" "RSA" hk.size n (some ki.certTexts) i2
    obtain ⟨_, b3⟩ := sizeOf_newSigElement N hN "x-signature" "CMS" (hk.size + n) (6144 + ki.derTotal) (some ki.certTexts) i3
    have u1 := umSig_new N hN "checksum" hk.name 0 hk.size none i0 i1 emptySig rfl
    have u2 := umSig_new N hN "signature" "RSA" hk.size n (some ki.certTexts) i1 i2 emptySig rfl
    have u3 := umSig_new N hN "x-signature" "CMS" (hk.size + n) (6144 + ki.derTotal) (some ki.certTexts) i4 i3 emptySig rfl
    rw [b1] at u1 ⊢
    rw [b2] at u2 ⊢
    rw [b3] at u3 ⊢
    have e1 : ¬ "x-signature" = "checksum" := by decide
    have e2 : ¬ "x-signature" = "signature" := by decide
    have e3 : ¬ "signature" = "checksum" := by decide
    simp [umTocKids, emptyToc, u1, u2, u3, e1, e2, e3]

theorem regFileKids_removeSigs (N : Num) : ∀ ks, regFileKids N ks = true → regFileKids N (removeSigs N ks).2 = true
  | [], _ => by simp [removeSigs, regFileKids]
  | .tx s :: ks, h => by
    rw [regFileKids_cons, Bool.and_eq_true] at h
    simp only [removeSigs, regFileKids_cons, Bool.and_eq_true]
    exact ⟨h.1, regFileKids_removeSigs N ks h.2⟩
  | .el n as c :: ks, h => by
    rw [regFileKids_cons, Bool.and_eq_true] at h
    simp only [removeSigs]
    split
    · exact regFileKids_removeSigs N ks h.2
    · simp only [regFileKids_cons, Bool.and_eq_true]
      exact ⟨h.1, regFileKids_removeSigs N ks h.2⟩

/-- **What `Open` reads from a document `Sign` wrote.**  Let `Sign` (any hash, any key) prepare document `t`, whose files
    are regular, which has no second `<toc>`, and which `encoding/xml` accepts.  Then `encoding/xml` reads the serialised
    document as: the new checksum / signature / x-signature elements with the sizes and certificates of the key, and the
    files it read from `t`, those with a `<data>` element shifted by `newSigSize − origSigSize`. -/
theorem unmarshal_shifted (N : Num) (ea : Bool) (hN : N.Laws) (hk : HK) (ki : KeyInfo) (hki : ki.small) (t : Xml) (p : Prep) (x0 : XToc) (d : Int)
    (e : prep N hk ki t = some p) (hu : unmarshal N t = some x0)
    (hreg : ∀ ras pre tas tks post, t = .el "xar" ras (pre ++ .el "toc" tas tks :: post) → (∀ k ∈ pre, k.isEl "toc" = false) →
      (∀ k ∈ post, k.isEl "toc" = false) ∧ regFileKids N tks = true) :
    unmarshal N (adjust N ea d false p.doc1) = some { tocOfKey hk ki with files := shiftXs d x0.files } := by
  obtain ⟨ras, pre, tas, tks, post, rfl, hp, rfl⟩ := prep_some N hk ki t p e
  obtain ⟨hpost, hr⟩ := hreg ras pre tas tks post rfl hp
  rw [unmarshal_one_toc N "xar" ras pre tas tks post hp hpost] at hu
  obtain ⟨fs, hfs, hx0⟩ := umTocKids_files N tks emptyToc x0 hu
  simp only [adjust_doc, adjustKids_append, adjustKids_noRef N ea _ _ (noRefL_reserve N ea hk ki)]
  rw [unmarshal_one_toc N "xar" ras _ tas _ _ (isEl_adjustKids_false N ea _ false "toc" pre hp)
    (isEl_adjustKids_false N ea _ false "toc" post hpost), umTocKids_append, umTocKids_reserve N hN hk ki hki]
  have hns : ∀ k ∈ adjustKids N ea d false (removeSigs N tks).2, k.isSig = false := by
    intro k hmem
    have := removeSigs_adjustKids N ea d (removeSigs N tks).2
    rw [removeSigs_nosig N _ (removeSigs_snd_nosig N tks)] at this
    have h2 := removeSigs_snd_nosig N (adjustKids N ea d false (removeSigs N tks).2)
    rw [this] at h2
    exact h2 k hmem
  have hreg2 : regFileKids N (removeSigs N tks).2 = true := regFileKids_removeSigs N tks hr
  simp only [Option.bind_some]
  rw [umTocKids_nosig N _ _ hns, umFiles_adjust N ea hN _ _ hreg2, hfs]
  simp [tocOfKey, hx0, emptyToc]
  cases ki.rsaSize <;> simp

/-- the same for the shift `Sign` applies -/
theorem unmarshal_signed (N : Num) (ea : Bool) (hN : N.Laws) (hk : HK) (ki : KeyInfo) (hki : ki.small) (t : Xml) (p : Prep) (x0 : XToc)
    (e : prep N hk ki t = some p) (hu : unmarshal N t = some x0)
    (hreg : ∀ ras pre tas tks post, t = .el "xar" ras (pre ++ .el "toc" tas tks :: post) → (∀ k ∈ pre, k.isEl "toc" = false) →
      (∀ k ∈ post, k.isEl "toc" = false) ∧ regFileKids N tks = true) :
    unmarshal N (p.tree N ea) = some { tocOfKey hk ki with files := shiftXs (w64 (p.newSig - p.origSig)) x0.files } :=
  unmarshal_shifted N ea hN hk ki hki t p x0 _ e hu hreg

/-! ### the etree reader sees every member the `encoding/xml` reader sees -/

/-- the last child element of that name (`encoding/xml`: the last one wins) -/
def lastEl (n : String) : List Xml → Option Xml
  | [] => none
  | k :: ks => match lastEl n ks with
    | some e => some e
    | none => if k.isEl n then some k else none

@[simp] theorem lastEl_cons_tx (n s : String) (ks : List Xml) : lastEl n (.tx s :: ks) = lastEl n ks := by
  simp only [lastEl, isEl_tx, Bool.false_eq_true, ↓reduceIte]
  cases lastEl n ks <;> rfl

theorem lastEl_none_of_count (n : String) : ∀ ks, count n ks = 0 → lastEl n ks = none
  | [], _ => rfl
  | .tx s :: ks, h => by rw [count_cons_tx] at h; simp [lastEl_none_of_count n ks h]
  | .el m as k :: ks, h => by
    rw [count_cons_el] at h
    have hm : ¬ m = n := by intro e; simp [e] at h
    have hc : count n ks = 0 := by simp [hm] at h; exact h
    simp [lastEl, lastEl_none_of_count n ks hc, hm]

theorem lastEl_eq_first (n : String) : ∀ ks, count n ks ≤ 1 → lastEl n ks = first n ks
  | [], _ => rfl
  | .tx s :: ks, h => by rw [count_cons_tx] at h; simp [first, lastEl_eq_first n ks h]
  | .el m as k :: ks, h => by
    rw [count_cons_el] at h
    by_cases hm : m = n
    · have hc : count n ks = 0 := by simp [hm] at h; omega
      simp [lastEl, first, lastEl_none_of_count n ks hc, hm]
    · have hc : count n ks ≤ 1 := by simpa [hm] using h
      simp only [lastEl, first, isEl_el, beq_iff_eq, hm, ↓reduceIte, lastEl_eq_first n ks hc]
      cases first n ks <;> rfl

def numVal (N : Num) (e : Xml) : Int := (N.atoi (etext e.kids)).1

/-- what `<data>` leaves in the struct, in terms of its last `<offset>`, `<length>` and (single) `<archived-checksum>` child -/
theorem umData_fields (N : Num) (hN : N.Laws) : ∀ (ks : List Xml) (a a' : FileAcc), ks.all (regDataKid N) = true →
    count "archived-checksum" ks ≤ 1 → umData N ks a = some a' →
    a'.offset = ((lastEl "offset" ks).map (numVal N)).getD a.offset ∧
    a'.length = ((lastEl "length" ks).map (numVal N)).getD a.length ∧
    a'.astyle = ((lastEl "archived-checksum" ks).map fun e => styleOf a.astyle e.attrs).getD a.astyle ∧
    a'.adigest = ((lastEl "archived-checksum" ks).map fun e => allText e.kids).getD a.adigest
  | [], a, a', _, _, h => by simp [umData] at h; simp [lastEl, ← h]
  | .tx s :: ks, a, a', hr, hc, h => by
    rw [count_cons_tx] at hc
    simp only [umData] at h
    simp only [List.all_cons, Bool.and_eq_true] at hr
    simpa using umData_fields N hN ks a a' hr.2 hc h
  | .el n as k :: ks, a, a', hr, hc, h => by
    rw [count_cons_el] at hc
    simp only [List.all_cons, Bool.and_eq_true] at hr
    obtain ⟨hk, hr'⟩ := hr
    simp only [umData] at h
    by_cases h1 : n = "offset"
    · subst h1
      have hnum : numOk N k = true := by simpa [regDataKid] using hk
      simp only [↓reduceIte, intOf_numOk N hN k hnum, Option.bind_some] at h
      obtain ⟨f1, f2, f3, f4⟩ := umData_fields N hN ks _ a' hr' (by simpa using hc) h
      have e2 : ¬ "offset" = "length" := by decide
      have e3 : ¬ "offset" = "archived-checksum" := by decide
      refine ⟨?_, ?_, ?_, ?_⟩
      · rw [f1]; simp only [lastEl]; cases lastEl "offset" ks <;> simp [numVal]
      · rw [f2]; simp only [lastEl, isEl_el, beq_iff_eq, e2, ↓reduceIte]; cases lastEl "length" ks <;> rfl
      · rw [f3]; simp only [lastEl, isEl_el, beq_iff_eq, e3, ↓reduceIte]; cases lastEl "archived-checksum" ks <;> rfl
      · rw [f4]; simp only [lastEl, isEl_el, beq_iff_eq, e3, ↓reduceIte]; cases lastEl "archived-checksum" ks <;> rfl
    · by_cases h2 : n = "length"
      · subst h2
        have hnum : numOk N k = true := by simpa [regDataKid] using hk
        simp only [h1, ↓reduceIte, intOf_numOk N hN k hnum, Option.bind_some] at h
        obtain ⟨f1, f2, f3, f4⟩ := umData_fields N hN ks _ a' hr' (by simpa using hc) h
        have e3 : ¬ "length" = "archived-checksum" := by decide
        refine ⟨?_, ?_, ?_, ?_⟩
        · rw [f1]; simp only [lastEl, isEl_el, beq_iff_eq, h1, ↓reduceIte]; cases lastEl "offset" ks <;> rfl
        · rw [f2]; simp only [lastEl]; cases lastEl "length" ks <;> simp [numVal]
        · rw [f3]; simp only [lastEl, isEl_el, beq_iff_eq, e3, ↓reduceIte]; cases lastEl "archived-checksum" ks <;> rfl
        · rw [f4]; simp only [lastEl, isEl_el, beq_iff_eq, e3, ↓reduceIte]; cases lastEl "archived-checksum" ks <;> rfl
      · by_cases h3 : n = "size"
        · subst h3
          simp only [h1, h2, ↓reduceIte] at h
          cases hi : intOf N k with
          | none => simp [hi] at h
          | some v =>
            simp only [hi, Option.bind_some] at h
            have e3 : ¬ "size" = "archived-checksum" := by decide
            obtain ⟨f1, f2, f3, f4⟩ := umData_fields N hN ks a a' hr' (by simpa using hc) h
            refine ⟨?_, ?_, ?_, ?_⟩
            · rw [f1]; simp only [lastEl, isEl_el, beq_iff_eq, h1, ↓reduceIte]; cases lastEl "offset" ks <;> rfl
            · rw [f2]; simp only [lastEl, isEl_el, beq_iff_eq, h2, ↓reduceIte]; cases lastEl "length" ks <;> rfl
            · rw [f3]; simp only [lastEl, isEl_el, beq_iff_eq, e3, ↓reduceIte]; cases lastEl "archived-checksum" ks <;> rfl
            · rw [f4]; simp only [lastEl, isEl_el, beq_iff_eq, e3, ↓reduceIte]; cases lastEl "archived-checksum" ks <;> rfl
        · by_cases h4 : n = "archived-checksum"
          · subst h4
            simp only [h1, h2, h3, ↓reduceIte] at h
            have hc0 : count "archived-checksum" ks = 0 := by simp at hc; omega
            obtain ⟨f1, f2, f3, f4⟩ := umData_fields N hN ks _ a' hr' (by omega) h
            have hl := lastEl_none_of_count "archived-checksum" ks hc0
            refine ⟨?_, ?_, ?_, ?_⟩
            · rw [f1]; simp only [lastEl, isEl_el, beq_iff_eq, h1, ↓reduceIte]; cases lastEl "offset" ks <;> rfl
            · rw [f2]; simp only [lastEl, isEl_el, beq_iff_eq, h2, ↓reduceIte]; cases lastEl "length" ks <;> rfl
            · rw [f3]; simp [lastEl, hl]
            · rw [f4]; simp [lastEl, hl]
          · simp only [h1, h2, h3, h4, ↓reduceIte] at h
            obtain ⟨f1, f2, f3, f4⟩ := umData_fields N hN ks a a' hr' (by simpa [h4] using hc) h
            refine ⟨?_, ?_, ?_, ?_⟩
            · rw [f1]; simp only [lastEl, isEl_el, beq_iff_eq, h1, ↓reduceIte]; cases lastEl "offset" ks <;> rfl
            · rw [f2]; simp only [lastEl, isEl_el, beq_iff_eq, h2, ↓reduceIte]; cases lastEl "length" ks <;> rfl
            · rw [f3]; simp only [lastEl, isEl_el, beq_iff_eq, h4, ↓reduceIte]; cases lastEl "archived-checksum" ks <;> rfl
            · rw [f4]; simp only [lastEl, isEl_el, beq_iff_eq, h4, ↓reduceIte]; cases lastEl "archived-checksum" ks <;> rfl

mutual
/-- every struct of a file tree, the file itself before its children -/
def flatX : XFile → List FileAcc
  | .mk a ks => a :: flatXs ks
def flatXs : List XFile → List FileAcc
  | [] => []
  | x :: xs => flatX x ++ flatXs xs
end

/-- an etree reference and an `encoding/xml` struct describe the same heap range and checksum -/
def Agrees (b : FileAcc) (d : DRef) : Prop :=
  d.offset = b.offset ∧ d.length = b.length ∧
    (d.sum = some (b.astyle, b.adigest) ∨ (d.sum = none ∧ b.astyle = "" ∧ b.adigest = ""))

theorem first_mem (n : String) : ∀ ks e, first n ks = some e → e ∈ ks
  | [], e, h => by simp [first] at h
  | k :: ks, e, h => by
    simp only [first] at h
    split at h
    · simp only [Option.some.injEq] at h; simp [h]
    · exact List.mem_cons_of_mem _ (first_mem n ks e h)

theorem first_isEl (n : String) : ∀ ks e, first n ks = some e → e.isEl n = true
  | [], e, h => by simp [first] at h
  | k :: ks, e, h => by
    simp only [first] at h
    split at h
    · rename_i hk; simp only [Option.some.injEq] at h; rw [← h]; exact hk
    · exact first_isEl n ks e h

theorem attrFirst_eq_head (k : String) : ∀ as : List (String × String),
    attrFirst k as = ((as.filter fun p => p.1 = k).head?).map (·.2)
  | [] => rfl
  | (a, v) :: as => by
    by_cases h : a = k
    · simp [attrFirst, h, List.filter_cons]
    · simp [attrFirst, h, List.filter_cons, attrFirst_eq_head k as]

theorem attrLast_eq_first (k : String) (as : List (String × String)) (h : (as.filter fun p => p.1 = k).length ≤ 1) :
    attrLast k as = attrFirst k as := by
  unfold attrLast
  rw [attrFirst_eq_head, attrFirst_eq_head, List.filter_reverse]
  generalize (as.filter fun p => decide (p.1 = k)) = l at h
  match l, h with
  | [], _ => rfl
  | [x], _ => rfl
  | _ :: _ :: _, h => simp at h

/-- the fields `<data>` leaves behind are what etree reads from its first `<offset>` / `<length>` / `<archived-checksum>` -/
theorem data_agrees (N : Num) (hN : N.Laws) (fk dk : List Xml) (a a' : FileAcc) (hreg : regData N dk = true)
    (h0 : a.offset = 0) (h1 : a.length = 0) (h2 : a.astyle = "") (h3 : a.adigest = "") (hu : umData N dk a = some a') :
    Agrees a' (dRefOfData N fk dk) := by
  simp only [regData, Bool.and_eq_true, beq_iff_eq, decide_eq_true_eq] at hreg
  obtain ⟨⟨⟨hall, c1⟩, c2⟩, c3⟩ := hreg
  obtain ⟨f1, f2, f3, f4⟩ := umData_fields N hN dk a a' hall c3 hu
  rw [lastEl_eq_first _ _ (by omega)] at f1
  rw [lastEl_eq_first _ _ c2] at f2
  rw [lastEl_eq_first _ _ c3] at f3 f4
  refine ⟨?_, ?_, ?_⟩
  · rw [f1, h0]; simp only [dRefOfData]; cases first "offset" dk <;> simp [numVal]
  · rw [f2, h1]; simp only [dRefOfData]; cases first "length" dk <;> simp [numVal]
  · rw [f3, f4, h2, h3]
    simp only [dRefOfData]
    cases hf : first "archived-checksum" dk with
    | none => simp
    | some ek =>
      left
      have hm := first_mem _ _ _ hf
      have hk : regDataKid N ek = true := (List.all_eq_true.mp hall) ek hm
      obtain ⟨as, c, rfl⟩ := (isEl_true_iff _ _).mp (first_isEl _ _ _ hf)
      have e1 : ¬ ("archived-checksum" = "offset" ∨ "archived-checksum" = "length") := by decide
      simp only [regDataKid, e1, ↓reduceIte, Bool.and_eq_true, decide_eq_true_eq] at hk
      simp [styleOf, attrLast_eq_first "style" as hk.2, etext_allTx c hk.1]

theorem dRefsKids_append (N : Num) (fk : Option (List Xml)) : ∀ xs ys,
    dRefsKids N fk (xs ++ ys) = dRefsKids N fk xs ++ dRefsKids N fk ys
  | [], ys => by simp [dRefsKids]
  | x :: xs, ys => by simp [dRefsKids, dRefsKids_append N fk xs ys]

theorem dRefsKids_cons (N : Num) (fk : Option (List Xml)) (x : Xml) (xs : List Xml) :
    dRefsKids N fk (x :: xs) = dRefs N fk x ++ dRefsKids N fk xs := by simp [dRefsKids]

/-- the data fields of the struct are not touched by children other than `<data>` -/
theorem umFileKids_data_frame (N : Num) : ∀ (ks : List Xml) (a : FileAcc) (r : FileAcc × List XFile), count "data" ks = 0 →
    umFileKids N ks a = some r →
    r.1.offset = a.offset ∧ r.1.length = a.length ∧ r.1.astyle = a.astyle ∧ r.1.adigest = a.adigest ∧ r.1.hasData = a.hasData
  | [], a, r, _, h => by simp [umFileKids] at h; simp [← h]
  | .tx s :: ks, a, r, hc, h => by
    rw [count_cons_tx] at hc
    simp only [umFileKids] at h
    exact umFileKids_data_frame N ks a r hc h
  | .el n as k :: ks, a, r, hc, h => by
    rw [count_cons_el] at hc
    have hn : n ≠ "data" := by intro e; simp [e] at hc
    have hc' : count "data" ks = 0 := by simp [hn] at hc; exact hc
    simp only [umFileKids, hn, ↓reduceIte] at h
    split at h
    · simpa using umFileKids_data_frame N ks _ r hc' h
    · split at h
      · split at h
        · cases h
        · split at h
          · cases h
          · rename_i a' sub hs
            simp only [Option.some.injEq] at h
            rw [← h]
            exact umFileKids_data_frame N ks a (a', sub) hc' hs
      · exact umFileKids_data_frame N ks a r hc' h

theorem agrees_of_frame (b b' : FileAcc) (d : DRef) (h : Agrees b d) (h1 : b'.offset = b.offset) (h2 : b'.length = b.length)
    (h3 : b'.astyle = b.astyle) (h4 : b'.adigest = b.adigest) : Agrees b' d := by
  unfold Agrees at h ⊢
  rw [h1, h2, h3, h4]; exact h

/-- **The etree reader sees what the `encoding/xml` reader sees.**  For the children `ks` of a regular `<file>` (at most one
    `<data>`) read into a struct whose data fields are still empty: the file's own struct — if a `<data>` child was read —
    and every struct of a nested file with a `<data>` child agrees with one of the `//file/data` references of `ks`. -/
theorem flat_agrees (N : Num) (hN : N.Laws) : ∀ (ks fk : List Xml) (a : FileAcc) (r : FileAcc × List XFile),
    regFileKids N ks = true → count "data" ks ≤ 1 → umFileKids N ks a = some r →
    (a.hasData = false → a.offset = 0 → a.length = 0 → a.astyle = "" → a.adigest = "" → r.1.hasData = true →
      ∃ d ∈ dRefsKids N (some fk) ks, Agrees r.1 d) ∧
    (∀ b ∈ flatXs r.2, b.hasData = true → ∃ d ∈ dRefsKids N (some fk) ks, Agrees b d)
  | [], fk, a, r, _, _, h => by
    simp [umFileKids] at h
    subst h
    exact ⟨fun h1 _ _ _ _ h2 => by simp [h1] at h2, by simp [flatXs]⟩
  | .tx s :: ks, fk, a, r, hr, hc, h => by
    rw [count_cons_tx] at hc
    rw [regFileKids_cons, Bool.and_eq_true] at hr
    simp only [umFileKids] at h
    obtain ⟨p1, p2⟩ := flat_agrees N hN ks fk a r hr.2 hc h
    simp only [dRefsKids_cons, dRefs, List.nil_append]
    exact ⟨p1, p2⟩
  | .el n as k :: ks, fk, a, r, hr, hc, h => by
    rw [count_cons_el] at hc
    rw [regFileKids_cons, Bool.and_eq_true] at hr
    obtain ⟨hk, hr'⟩ := hr
    simp only [umFileKids] at h
    have lift : ∀ (P : DRef → Prop), (∃ d ∈ dRefsKids N (some fk) ks, P d) → ∃ d ∈ dRefsKids N (some fk) (.el n as k :: ks), P d := by
      rintro P ⟨d, hd, hp⟩
      exact ⟨d, by rw [dRefsKids_cons]; exact List.mem_append_right _ hd, hp⟩
    by_cases hname : n = "name"
    · subst hname
      have e : ¬ "name" = "data" := by decide
      simp only [↓reduceIte] at h
      obtain ⟨p1, p2⟩ := flat_agrees N hN ks fk _ r hr' (by simpa [e] using hc) h
      exact ⟨fun a1 a2 a3 a4 a5 a6 => lift _ (p1 a1 a2 a3 a4 a5 a6), fun b hb hd => lift _ (p2 b hb hd)⟩
    · by_cases hdata : n = "data"
      · subst hdata
        have hc0 : count "data" ks = 0 := by simp at hc; omega
        have hreg : regData N k = true := by simpa [regFile] using hk
        simp only [hname, ↓reduceIte] at h
        cases hu : umData N k { a with hasData := true } with
        | none => simp [hu] at h
        | some a' =>
          simp only [hu] at h
          obtain ⟨g1, g2, g3, g4, g5⟩ := umFileKids_data_frame N ks a' r hc0 h
          obtain ⟨_, p2⟩ := flat_agrees N hN ks fk a' r hr' (by omega) h
          refine ⟨fun a1 a2 a3 a4 a5 _ => ?_, fun b hb hd => lift _ (p2 b hb hd)⟩
          have hag := data_agrees N hN fk k { a with hasData := true } a' hreg a2 a3 a4 a5 hu
          refine ⟨dRefOfData N fk k, ?_, agrees_of_frame a' r.1 _ hag g1 g2 g3 g4⟩
          simp [dRefsKids_cons, dRefs]
      · have hcount : count "data" ks ≤ 1 := by simpa [hdata] using hc
        by_cases hfile : n = "file"
        · subst hfile
          have hreg : regFileKids N k = true ∧ count "data" k ≤ 1 := by simpa [regFile] using hk
          simp only [hname, hdata, ↓reduceIte] at h
          cases hk1 : umFileKids N k {} with
          | none => simp [hk1] at h
          | some r1 =>
            cases hk2 : umFileKids N ks a with
            | none => simp [hk1, hk2] at h
            | some r2 =>
              simp only [hk1, hk2, Option.some.injEq] at h
              subst h
              obtain ⟨q1, q2⟩ := flat_agrees N hN k k {} r1 hreg.1 hreg.2 hk1
              obtain ⟨p1, p2⟩ := flat_agrees N hN ks fk a r2 hr' hcount hk2
              have inner : ∀ (P : DRef → Prop), (∃ d ∈ dRefsKids N (some k) k, P d) →
                  ∃ d ∈ dRefsKids N (some fk) (.el "file" as k :: ks), P d := by
                rintro P ⟨d, hd, hp⟩
                refine ⟨d, ?_, hp⟩
                rw [dRefsKids_cons]
                apply List.mem_append_left
                simp only [dRefs, beq_self_eq_true, ↓reduceIte]
                have e : ("file" == "data") = false := by decide
                simp [e, hd]
              refine ⟨fun a1 a2 a3 a4 a5 a6 => lift _ (p1 a1 a2 a3 a4 a5 a6), ?_⟩
              intro b hb hd
              simp only [flatXs, flatX, List.cons_append, List.mem_cons, List.mem_append] at hb
              rcases hb with rfl | hb | hb
              · exact inner _ (q1 rfl rfl rfl rfl rfl hd)
              · exact inner _ (q2 b hb hd)
              · exact lift _ (p2 b hb hd)
        · simp only [hname, hdata, hfile, ↓reduceIte] at h
          obtain ⟨p1, p2⟩ := flat_agrees N hN ks fk a r hr' hcount h
          exact ⟨fun a1 a2 a3 a4 a5 a6 => lift _ (p1 a1 a2 a3 a4 a5 a6), fun b hb hd => lift _ (p2 b hb hd)⟩

/-- the same at the `<toc>` level -/
theorem flat_agrees_toc (N : Num) (hN : N.Laws) : ∀ (ks : List Xml) (fs : List XFile), regFileKids N ks = true →
    umFiles N ks = some fs → ∀ b ∈ flatXs fs, b.hasData = true → ∃ d ∈ dRefsKids N none ks, Agrees b d
  | [], fs, _, h => by simp [umFiles] at h; subst h; simp [flatXs]
  | .tx s :: ks, fs, hr, h => by
    rw [regFileKids_cons, Bool.and_eq_true] at hr
    simp only [umFiles] at h
    intro b hb hd
    obtain ⟨d, hm, ha⟩ := flat_agrees_toc N hN ks fs hr.2 h b hb hd
    exact ⟨d, by rw [dRefsKids_cons]; exact List.mem_append_right _ hm, ha⟩
  | .el n as k :: ks, fs, hr, h => by
    rw [regFileKids_cons, Bool.and_eq_true] at hr
    simp only [umFiles] at h
    intro b hb hd
    split at h
    · rename_i hf
      subst hf
      have hreg : regFileKids N k = true ∧ count "data" k ≤ 1 := by simpa [regFile] using hr.1
      cases hk1 : umFileKids N k {} with
      | none => simp [umFile, hk1] at h
      | some r1 =>
        cases hk2 : umFiles N ks with
        | none => simp [umFile, hk1, hk2] at h
        | some fs2 =>
          simp only [umFile, hk1, hk2, Option.map_some, Option.bind_some, Option.some.injEq] at h
          subst h
          obtain ⟨q1, q2⟩ := flat_agrees N hN k k {} r1 hreg.1 hreg.2 hk1
          simp only [flatXs, flatX, List.cons_append, List.mem_cons, List.mem_append] at hb
          have inner : ∀ (P : DRef → Prop), (∃ d ∈ dRefsKids N (some k) k, P d) →
              ∃ d ∈ dRefsKids N none (.el "file" as k :: ks), P d := by
            rintro P ⟨d, hd, hp⟩
            refine ⟨d, ?_, hp⟩
            rw [dRefsKids_cons]
            apply List.mem_append_left
            simp [dRefs, hd]
          rcases hb with rfl | hb | hb
          · exact inner _ (q1 rfl rfl rfl rfl rfl hd)
          · exact inner _ (q2 b hb hd)
          · obtain ⟨d, hm, ha⟩ := flat_agrees_toc N hN ks fs2 hr.2 hk2 b hb hd
            exact ⟨d, by rw [dRefsKids_cons]; exact List.mem_append_right _ hm, ha⟩
    · obtain ⟨d, hm, ha⟩ := flat_agrees_toc N hN ks fs hr.2 h b hb hd
      exact ⟨d, by rw [dRefsKids_cons]; exact List.mem_append_right _ hm, ha⟩

end Relic.Xar

/-
  Relic.Model.FileToken — token/filetoken/filetoken.go `GetKey` and the key-file parsing it calls:
  lib/certloader/anyprivkey.go `ParseAnyPrivateKey` / `parsePemPrivateKey` / `parsePgpPrivateKey` and lib/certloader/pkcs12.go
  `ParsePKCS12`.  The library parsers underneath (encoding/pem, crypto/x509, openpgp, go-pkcs12) are NOT modelled: a key file
  is described by what those parsers say about it (`Content`), and the model is the code around them: format dispatch on the
  first bytes, the passphrase loops, the nil-prompt cases, the final `privateKey.(crypto.Signer)`.  Core Lean only.
-/
import Relic.Model.Assuan
namespace Relic.FileToken
open Relic Relic.Assuan

/-- what the library parsers say about the bytes of the key file -/
inductive Content where
  | empty                                   -- zero bytes
  | junk                                    -- does not start with "-----BEGIN", first byte neither 0x30 nor ≥ 0x80
  | der (parses : Bool)                     -- first byte 0x30; `parsePrivateKey` accepts it (RSA / ECDSA) or not
  | pem (keyBlock encrypted : Bool) (password : Bytes) (parses : Bool)
      -- starts with "-----BEGIN" (not PGP); has a "… PRIVATE KEY" block; that block is encrypted with `password`; its DER parses
  | pgp (readable hasPriv encrypted : Bool) (password : Bytes) (signer : Bool)
      -- "-----BEGIN PGP…" or first byte ≥ 0x80; ReadEntity succeeds; has a private key; it is encrypted; the decrypted
      -- `entity.PrivateKey.PrivateKey` implements crypto.Signer (RSA, ECDSA: yes; ProtonMail's *eddsa.PrivateKey, DSA, ElGamal: no)
  | p12 (valid : Bool) (password : Bytes)   -- a PKCS#12 file (keys.<name>.ispkcs12), decodable with `password`
  deriving Repr, DecidableEq

structure KeyConf where
  keyFile : Bool            -- keyConf.KeyFile != ""
  exists_ : Bool            -- the file can be read
  isPkcs12 : Bool
  content : Content
  deriving Repr, DecidableEq

/-- a PasswordGetter: `none` = nil interface; the list = its successive answers, then "" for ever -/
abbrev Getter := Option (List Bytes)

/-- the loop of `parsePemPrivateKey` / `parsePgpPrivateKey`: ask, "" aborts, a wrong passphrase asks again.
    Returns (number of GetPasswd calls, decrypted?) -/
def askLoop (password : Bytes) : List Bytes → Nat × Bool
  | [] => (1, false)
  | a :: rest =>
    if a.isEmpty then (1, false)
    else if a = password then (1, true)
    else let (n, r) := askLoop password rest; (n + 1, r)

/-- the loop of `ParsePKCS12`: the empty password is TRIED once (`triedEmpty`), a second "" aborts -/
def p12Loop (password : Bytes) : Bool → List Bytes → Nat × Bool
  | triedEmpty, [] => if triedEmpty then (1, false) else
      if password.isEmpty then (1, true) else (2, false)       -- "" tried (wrong), then "" again: aborted
  | triedEmpty, a :: rest =>
    if a.isEmpty then
      if triedEmpty then (1, false)
      else if password.isEmpty then (1, true)
      else let (n, r) := p12Loop password true rest; (n + 1, r)
    else if a = password then (1, true)
    else let (n, r) := p12Loop password triedEmpty rest; (n + 1, r)

/-- `certloader.ParseAnyPrivateKey`: (GetPasswd calls, outcome); `ok signer` = a key, and whether it implements crypto.Signer.
    `fx = true`: the code as it is (commit 3202f4d); `fx = false`: the code before it (findings F-FILE-1, F-FILE-2). -/
def parseAnyWith (fx : Bool) (c : Content) (g : Getter) : Nat × Out Bool :=
  match c with
  | .empty =>
    if fx then (0, .fail (.msg "format"))                                     -- `len(blob) == 0` → "unrecognized private key format"
    else (0, .panic "certloader.ParseAnyPrivateKey:blob[0]")                  -- `blob[0] == asn1Magic` on an empty slice
  | .junk => (0, .fail (.msg "format"))
  | .der parses => (0, if parses then .ok true else .fail (.msg "parse"))
  | .p12 _ _ => (0, .fail (.msg "parse"))                                     -- a PKCS#12 blob without ispkcs12: DER that is no key
  | .pem keyBlock encrypted password parses =>
    if !keyBlock then (0, .fail (.msg "nopem"))
    else if !encrypted then (0, if parses then .ok true else .fail (.msg "parse"))
    else match g with
      | none => (0, .fail (.msg "noprompt"))                                  -- parsePemPrivateKey checks `prompt == nil`
      | some answers =>
        match askLoop password answers with
        | (n, true) => (n, if parses then .ok true else .fail (.msg "parse"))
        | (n, false) => (n, .fail (.msg "aborted"))
  | .pgp readable hasPriv encrypted password signer =>
    if !readable then (0, .fail (.msg "parse"))
    else if !hasPriv then (0, .fail (.msg "nopriv"))
    else if !encrypted then (0, .ok signer)
    else match g with
      | none =>
        if fx then (0, .fail (.msg "noprompt"))                               -- the same check as in the PEM branch
        else (0, .panic "certloader.parsePgpPrivateKey:prompt.GetPasswd (nil prompt)")
      | some answers =>
        match askLoop password answers with
        | (n, true) => (n, .ok signer)
        | (n, false) => (n, .fail (.msg "aborted"))

/-- `filetoken.GetKey` (with `certloader.ParsePKCS12` for `ispkcs12` keys) -/
def getKeyWith (fx : Bool) (k : KeyConf) (g : Getter) : Nat × Out Unit :=
  if !k.keyFile then (0, .fail (.msg "nokeyfile"))
  else if !k.exists_ then (0, .fail (.msg "read"))
  else if k.isPkcs12 then
    match g with
    | none =>
      if fx then (0, .fail (.msg "p12noprompt"))                              -- checked BEFORE the first attempt
      else (0, .panic "certloader.ParsePKCS12:prompt.GetPasswd (nil prompt)") -- the loop starts with prompt.GetPasswd
    | some answers =>
      match k.content with
      | .p12 valid password =>
        if !valid then (1, .fail (.msg "parse"))
        else match p12Loop password false answers with
          | (n, true) => (n, .ok ())
          | (n, false) => (n, .fail (.msg "aborted"))
      | _ => (1, .fail (.msg "parse"))                                        -- DecodeChain rejects anything else at the first try
  else
    match parseAnyWith fx k.content g with
    | (n, .ok signer) =>
      (n, if signer then .ok ()
          else if fx then .fail (.msg "notsigner")                            -- `signer, ok := privateKey.(crypto.Signer)`
          else .panic "filetoken.GetKey:privateKey.(crypto.Signer)")
    | (n, .fail e) => (n, .fail e)
    | (n, .panic s) => (n, .panic s)
    | (n, .block) => (n, .block)

/-- the code as it is -/
def parseAny (c : Content) (g : Getter) : Nat × Out Bool := parseAnyWith true c g
def getKey (k : KeyConf) (g : Getter) : Nat × Out Unit := getKeyWith true k g
/-- the code before commit 3202f4d -/
def parseAnyOrig (c : Content) (g : Getter) : Nat × Out Bool := parseAnyWith false c g
def getKeyOrig (k : KeyConf) (g : Getter) : Nat × Out Unit := getKeyWith false k g

end Relic.FileToken

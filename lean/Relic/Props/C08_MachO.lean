/-
  C08 — Re-signing replaces the signature; digests ignore existing signatures.   Mach-O part.
-/
import Relic.Proofs.MachOPatch
import Relic.Proofs.CodeDirVerify
namespace Relic.Props.C08
open Relic Relic.MachO Relic.CodeDir Relic.Binpatch

/-- **macho_digest_ignores_signature.** The image that is hashed depends on the input only through its first `cs`
    bytes (`cs` = start of the existing signature = code limit): two inputs that differ only in the old signature
    region (or behind it) are hashed identically. -/
theorem macho_digest_ignores_signature (f f' h3 : Bytes) (cs : Nat)
    (h : f.take cs = f'.take cs) : hashedImage f h3 cs 0 = hashedImage f' h3 cs 0 := by
  unfold hashedImage
  simp only [zeros, List.replicate_zero, List.append_nil, Nat.add_zero]
  rw [List.take_append, List.take_append]
  congr 1
  -- (f.drop |h3|).take (cs − |h3|) is a slice of f.take cs
  have e : ∀ x : Bytes, (x.drop h3.length).take (cs - h3.length) = (x.take cs).drop h3.length := by
    intro x
    rw [List.drop_take]
  rw [e f, e f', h]

/-- **macho_resign_replaces.** Re-signing a signed image (old region `[cs, cs+sigLen)`, no padding): the code limit
    stays `cs`, the old region is replaced by the new buffer (nothing of it survives), what follows it is kept, and
    every code page that contains no byte of a patched load-command field has the same byte stream as before — so
    its digest is unchanged for every hash function. -/
theorem macho_resign_replaces (ps : Nat) (hps : 0 < ps) (f h3 : Bytes) (rs : List (Nat × Nat)) (cs sigLen : Nat) (sigBuf : Bytes)
    (L : Layout f h3 rs cs sigLen) :
    (∀ j, j < sigBuf.length → (written f h3 rs cs sigLen 0 sigBuf)[cs + j]? = sigBuf[j]?) ∧
    (∀ j, (written f h3 rs cs sigLen 0 sigBuf)[cs + sigBuf.length + j]? = f[cs + sigLen + j]?) ∧
    (∀ q, (∀ i, q * ps ≤ i → i < q * ps + ps → inRanges rs i = false) →
        (pages ps ((written f h3 rs cs sigLen 0 sigBuf).take cs))[q]? = (pages ps (f.take cs))[q]?) := by
  have W : ∀ i, (written f h3 rs cs sigLen 0 sigBuf)[i]? =
      if inRanges rs i then h3[i]? else if i < cs then f[i]? else if i < cs + sigBuf.length then sigBuf[i - cs]?
      else f[i - sigBuf.length + sigLen]? := by
    intro i
    rw [written_getElem? f h3 rs cs sigLen 0 sigBuf L i]
    simp only [Nat.add_zero]
    by_cases c : i < cs <;> simp [c]
  have out : ∀ i, cs ≤ i → inRanges rs i = false := by
    intro i hi
    cases h : inRanges rs i with
    | false => rfl
    | true =>
      simp only [inRanges, List.any_eq_true, decide_eq_true_eq] at h
      obtain ⟨r, hr, h1, h2⟩ := h
      have := L.ranges r hr
      have := L.hdrBelow
      omega
  have hcs : cs ≤ f.length := by have := L.oldInside; omega
  have hgl : cs ≤ (written f h3 rs cs sigLen 0 sigBuf).length := by
    unfold written
    rw [sem_append]
    have h1 : (sem f [⟨cs, sigLen, zeros 0 ++ sigBuf⟩]).length = f.length + sigBuf.length - sigLen := by
      show (splice f cs sigLen (zeros 0 ++ sigBuf)).length = _
      rw [splice_length]; have := L.oldInside; simp [zeros]; omega
    rw [sem_hdrPatches_length h3 _ rs L.ranges (by rw [h1]; have := L.hdrBelow; have := L.oldInside; omega), h1]
    have := L.oldInside; omega
  refine ⟨?_, ?_, ?_⟩
  · intro j hj
    rw [W (cs + j), out _ (by omega)]
    have a : ¬ cs + j < cs := by omega
    have c : cs + j < cs + sigBuf.length := by omega
    simp only [Bool.false_eq_true, ↓reduceIte, a, c]
    congr 1; omega
  · intro j
    rw [W (cs + sigBuf.length + j), out _ (by omega)]
    have a : ¬ cs + sigBuf.length + j < cs := by omega
    have c : ¬ cs + sigBuf.length + j < cs + sigBuf.length := by omega
    simp only [Bool.false_eq_true, ↓reduceIte, a, c]
    congr 1; omega
  · intro q hq
    apply pages_same_elsewhere ps hps
    · simp only [List.length_take]; omega
    · intro i h1 h2
      by_cases c : i < cs
      · rw [List.getElem?_take_of_lt c, List.getElem?_take_of_lt c]
        rw [W i, hq i h1 h2]
        simp [c]
      · rw [List.getElem?_eq_none_iff.mpr (by simp only [List.length_take]; omega),
            List.getElem?_eq_none_iff.mpr (by simp only [List.length_take]; omega)]

/-! ### non-vacuity -/

example : hashedImage [1, 2, 3, 4, 70, 71] [1, 9] 4 0 = hashedImage [1, 2, 3, 4, 80] [1, 9] 4 0 := by decide

end Relic.Props.C08

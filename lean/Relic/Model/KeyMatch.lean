/-
  Relic.Model.KeyMatch — executable model of relic's "certificate matches key" decision logic (property C07).

  Go sources modelled (relic v8):
    lib/x509tools/util.go        SameKey
    lib/certloader/certloader.go parseCertificates, LoadX509KeyPair, LoadTokenCertificates, Certificate.Chain
    lib/certloader/pkcs12.go     ParsePKCS12 (result shape only; the PKCS#12 codec itself is trusted)
    token/filetoken/filetoken.go GetKey (PKCS#12 → token-stored certificate blob = DER of Chain())
    config/config.go             GetKey (one alias hop)
    internal/signinit/signinit.go InitKey / Init (certificate-type requirement, KeyName)
    lib/pkcs7/builder.go         SignatureBuilder.Sign (guard)
    lib/xmldsig/sign.go          Sign / SignEnveloping (guard)
    signers/{cat,cosign,pgp}     which certificates are embedded / which key signs

  Public keys are abstract values; ASN.1/PEM/PKCS#12/OpenPGP *parsing* is not modelled: a certificate
  source is given by what the parser yields (`CertSrc`).  Core Lean only.
-/
import Relic.Base.Bytes
namespace Relic.KeyMatch
open Relic

/-! ### keys and `x509tools.SameKey` -/

/-- what `SameKey`'s type switch can see after `Public()`:
    `*rsa.PublicKey`, `*ecdsa.PublicKey`, anything else (ed25519, value types, go-crypto's own ecdsa type, nil) -/
inductive PubKey where
  | rsa (n e : Nat)
  | ecdsa (curve x y : Nat)
  | other (tag : Nat)
  deriving DecidableEq, Repr

/-- an argument of `SameKey`: a public key, or a `crypto.Signer` whose `Public()` is `k` -/
inductive KeyArg where
  | pub (k : PubKey)
  | signer (k : PubKey)
  deriving DecidableEq, Repr

def KeyArg.public : KeyArg → PubKey
  | .pub k => k
  | .signer k => k

/-- the type switch of `SameKey`: RSA compares `E` and `N`; ECDSA compares `X` and `Y` and *not* the curve;
    every other dynamic type is `false` (even against itself) -/
def sameKeyPub : PubKey → PubKey → Bool
  | .rsa n1 e1, .rsa n2 e2 => e1 == e2 && n1 == n2
  | .ecdsa _ x1 y1, .ecdsa _ x2 y2 => x1 == x2 && y1 == y2
  | _, _ => false

def sameKey (a b : KeyArg) : Bool := sameKeyPub a.public b.public

/-! ### certificates -/

structure Cert where
  id : Nat        -- identity of the DER encoding
  subject : Nat   -- RawSubject
  issuer : Nat    -- RawIssuer
  pub : PubKey
  deriving DecidableEq, Repr

def Cert.selfSigned (c : Cert) : Bool := c.subject == c.issuer

/-- a parsed `*x509.Certificate`: Go compares these by pointer in `Chain()`; `ptr` is the pointer identity -/
structure PCert where
  ptr : Nat
  cert : Cert
  deriving DecidableEq, Repr

structure PgpEntity where
  id : Nat
  pub : PubKey    -- `entity.PrimaryKey.PublicKey` (go-crypto's ECDSA keys are not `*crypto/ecdsa.PublicKey`: `other`)
  deriving DecidableEq, Repr

/-- `certloader.Certificate` -/
structure Bundle where
  leaf : Option PCert
  certs : List PCert
  pgp : Option PgpEntity
  priv : Option PubKey      -- the PrivateKey field, identified by its public half; `none` = nil
  keyName : String
  deriving Repr

def enumFrom : Nat → List Cert → List PCert
  | _, [] => []
  | n, c :: cs => ⟨n, c⟩ :: enumFrom (n + 1) cs

/-- what a certificate file / blob turns out to be once read and parsed -/
inductive CertSrc where
  | missing                    -- ReadFile fails
  | garbage                    -- a CERTIFICATE/PKCS7 block or DER blob that does not parse
  | parsed (cs : List Cert)    -- parses; `[]` = no CERTIFICATE block at all (text, empty file, only a key block)
  deriving Repr

/-- `parseCertificates` (after the file was read): leaf := first certificate -/
def parseCertificates : CertSrc → Res Bundle
  | .missing => .err "io"
  | .garbage => .err "parse"
  | .parsed [] => .err "nocerts"
  | .parsed (c :: cs) =>
    .ok { leaf := some ⟨0, c⟩, certs := enumFrom 0 (c :: cs), pgp := none, priv := none, keyName := "" }

inductive KeySrc where
  | missing
  | garbage
  | key (k : PubKey)
  deriving Repr

/-- `LoadX509KeyPair(certFile, keyFile)`: read key, read cert, parse key, parse cert, compare -/
def loadX509KeyPair (key : KeySrc) (cert : CertSrc) : Res Bundle :=
  match key, cert with
  | .missing, _ => .err "io"
  | _, .missing => .err "io"
  | .garbage, _ => .err "parse"
  | .key k, c =>
    match parseCertificates c with
    | .ok b =>
      match b.leaf with
      | some l =>
        if sameKey (.pub l.cert.pub) (.signer k) then .ok { b with priv := some k }
        else .err "mismatch"
      | none => .panic "LoadX509KeyPair:nil-leaf"
    | .err e => .err e
    | .panic s => .panic s
    | .diverge => .diverge

inductive PgpSrc where
  | missing
  | empty                          -- zero-length file: `blob[0]` in parsePGP
  | garbage
  | parsed (es : List PgpEntity)
  deriving Repr

/-- `parsePGP` followed by the "exactly one entity" test -/
def parsePGP : PgpSrc → Res (List PgpEntity)
  | .missing => .err "io"
  | .empty => .panic "parsePGP:blob[0]"
  | .garbage => .err "parse"
  | .parsed es => .ok es

/-- the source `LoadTokenCertificates` parses: `file = none` ⇔ `x509cert == ""`; `blob = none` ⇔
    `len(x509contents) == 0`.  A configured file overrides the token-stored blob, even when the file is empty. -/
def effective (file blob : Option CertSrc) : Option CertSrc :=
  match file with | some f => some f | none => blob

/-- the X.509 half of `LoadTokenCertificates` -/
def tokenX509 (key : PubKey) (src : Option CertSrc) : Res Bundle :=
  match src with
  | some src =>
    match parseCertificates src with
    | .ok b =>
      match b.leaf with
      | some l =>
        if sameKey (.signer key) (.pub l.cert.pub) then .ok { b with priv := some key }
        else .err "mismatch"
      | none => .panic "LoadTokenCertificates:nil-leaf"
    | .err e => .err e
    | .panic s => .panic s
    | .diverge => .diverge
  | none => .ok { leaf := none, certs := [], pgp := none, priv := some key, keyName := "" }

/-- the PGP half (`pgp = none` ⇔ `pgpcert == ""`): exactly one entity, whose primary key must match -/
def tokenPgp (key : PubKey) (b : Bundle) (pgp : Option PgpSrc) : Res Bundle :=
  match pgp with
  | none => .ok b
  | some p =>
    match parsePGP p with
    | .ok [e] =>
      if sameKey (.signer key) (.pub e.pub) then .ok { b with pgp := some e }
      else .err "mismatch"
    | .ok _ => .err "pgpcount"
    | .err e => .err e
    | .panic s => .panic s
    | .diverge => .diverge

/-- `LoadTokenCertificates(key, x509cert, pgpcert, x509contents)`: X.509 first, then PGP -/
def loadTokenCertificates (key : PubKey) (file blob : Option CertSrc) (pgp : Option PgpSrc) : Res Bundle :=
  match tokenX509 key (effective file blob) with
  | .ok b => tokenPgp key b pgp
  | .err e => .err e
  | .panic s => .panic s
  | .diverge => .diverge

/-- `Certificate.Chain()`: leaf first; then every certificate except (a) self-signed ones at index > 0 and
    (b) the leaf *pointer* itself -/
def chainRest (leaf : Option PCert) : Nat → List PCert → List PCert
  | _, [] => []
  | i, c :: cs =>
    if i > 0 && c.cert.selfSigned then chainRest leaf (i + 1) cs
    else if leaf.map (·.ptr) == some c.ptr then chainRest leaf (i + 1) cs
    else c :: chainRest leaf (i + 1) cs

def chain (b : Bundle) : List PCert :=
  (match b.leaf with | some l => [l] | none => []) ++ chainRest b.leaf 0 b.certs

/-- `ParsePKCS12`: `DecodeChain` returns key, first certificate, remaining certificates; relic does not compare them -/
def parsePKCS12 (key : PubKey) (leaf : Cert) (rest : List Cert) : Bundle :=
  { leaf := some ⟨0, leaf⟩, certs := enumFrom 0 (leaf :: rest), pgp := none, priv := some key, keyName := "" }

/-! ### configuration lookup, file token, signinit -/

structure KeyConf where
  name : String
  alias : String := ""
  token : String := "file"
  key : KeySrc                       -- what KeyFile holds (plain key file)
  p12 : Option (Cert × List Cert)    -- IsPkcs12: the bundle's certificates (key = `key`)
  x509file : Option CertSrc
  pgpfile : Option PgpSrc

def Config := List KeyConf

def Config.find (c : Config) (n : String) : Option KeyConf := List.find? (fun k => k.name == n) c

/-- `config.GetKey`: one alias hop; the unchanged code dereferences nil when the alias target is missing -/
def Config.getKey (c : Config) (n : String) : Res KeyConf :=
  match c.find n with
  | none => .err "config"
  | some k =>
    if k.alias != "" then
      match c.find k.alias with
      | none => .panic "config.GetKey:nil-alias"
      | some k2 => if k2.token == "" then .err "config" else .ok k2
    else if k.token == "" then .err "config" else .ok k

/-- `fileToken.GetKey`: the signer and the token-stored certificate blob -/
def fileGetKey (c : Config) (n : String) : Res (PubKey × Option CertSrc) :=
  match c.getKey n with
  | .ok kc =>
    match kc.key with
    | .missing => .err "io"
    | .garbage => .err "parse"
    | .key k =>
      match kc.p12 with
      | some (l, rest) => .ok (k, some (.parsed ((chain (parsePKCS12 k l rest)).map (·.cert))))
      | none => .ok (k, none)
  | .err e => .err e
  | .panic s => .panic s
  | .diverge => .diverge

/-- `signinit.InitKey` on a file token -/
def initKey (c : Config) (n : String) : Res Bundle :=
  match fileGetKey c n with
  | .ok (k, blob) =>
    match c.getKey n with
    | .ok kc =>
      match loadTokenCertificates k kc.x509file blob kc.pgpfile with
      | .ok b => .ok { b with keyName := n }
      | .err e => .err e
      | .panic s => .panic s
      | .diverge => .diverge
    | .err e => .err e
    | .panic s => .panic s
    | .diverge => .diverge
  | .err e => .err e
  | .panic s => .panic s
  | .diverge => .diverge

inductive CertType where | x509 | pgp
  deriving DecidableEq, Repr

/-- `signinit.Init`: the signer module's certificate-type requirement -/
def init (c : Config) (n : String) (need : CertType) : Res Bundle :=
  match initKey c n with
  | .ok b =>
    if need == .x509 && b.leaf.isNone then .err "nocert"
    else if need == .pgp && b.pgp.isNone then .err "nocert"
    else .ok b
  | .err e => .err e
  | .panic s => .panic s
  | .diverge => .diverge

/-! ### the redundant guards -/

/-- what a signature artefact exposes about keys -/
structure Artefact where
  signedBy : PubKey        -- public half of the private key that produced the signature value
  leaf : Cert              -- certificate the SignerInfo / KeyInfo / annotation designates
  embedded : List Cert     -- certificates embedded, in order
  deriving Repr

def supportedKey : PubKey → Bool
  | .rsa _ _ => true
  | .ecdsa _ _ _ => true
  | .other _ => false

/-- `pkcs7.SignatureBuilder.Sign`: digest present, `PkixAlgorithms`, then `len(certs) ≥ 1 ∧ SameKey(pub, certs[0])` -/
def builderSign (key : PubKey) (certs : List Cert) (hasContent hashOk : Bool) : Res Artefact :=
  if !hasContent then .err "nocontent"
  else if !hashOk || !supportedKey key then .err "alg"
  else
    match certs with
    | [] => .err "mismatch"
    | c :: _ =>
      if sameKey (.pub key) (.pub c.pub) then .ok { signedBy := key, leaf := c, embedded := certs }
      else .err "mismatch"

/-- `xmldsig.Sign` / `SignEnveloping`: the guard is the first statement -/
def xmldsigSign (key : PubKey) (certs : List Cert) : Res Artefact :=
  match certs with
  | [] => .err "mismatch"
  | c :: _ =>
    if sameKey (.pub key) (.pub c.pub) then
      if supportedKey key then .ok { signedBy := key, leaf := c, embedded := certs } else .err "alg"
    else .err "mismatch"

/-! ### signers -/

inductive SignerKind where
  | builderChain    -- authenticode, cat, jar: `pkcs7.NewBuilder(cert.Signer(), cert.Chain(), …)`
  | builderCerts    -- xar, csblob: `pkcs7.NewBuilder(cert.Signer(), cert.Certificates, …)`
  | xmlChain        -- appmanifest, vsix: `xmldsig.Sign…(…, cert.Signer(), cert.Chain(), …)`
  | rawChain        -- apk v2, cosign: `cert.Signer().Sign` + `cert.Chain()` embedded, no local guard
  deriving DecidableEq, Repr

/-- the X.509 signers, from a `certloader.Certificate` -/
def signX509 (b : Bundle) (kind : SignerKind) : Res Artefact :=
  match b.priv with
  | none => .panic "Signer:nil-key"
  | some k =>
    match kind with
    | .builderChain => builderSign k ((chain b).map (·.cert)) true true
    | .builderCerts => builderSign k (b.certs.map (·.cert)) true true
    | .xmlChain => xmldsigSign k ((chain b).map (·.cert))
    | .rawChain =>
      match b.leaf with
      | none => .panic "rawChain:nil-leaf"   -- apk dereferences Leaf; cosign would emit without a certificate; excluded by `init`
      | some l => .ok { signedBy := k, leaf := l.cert, embedded := (chain b).map (·.cert) }

/-- the PGP signers: `entity.PrivateKey.PrivateKey` is the token key, issuer is the entity's primary key -/
def signPgp (b : Bundle) : Res (PubKey × PgpEntity) :=
  match b.priv, b.pgp with
  | some k, some e => .ok (k, e)
  | _, _ => .panic "pgp:nil"

/-- end to end on a file token: lookup, load, sign -/
def signCfg (c : Config) (n : String) (kind : SignerKind) : Res (Bundle × Artefact) :=
  match init c n .x509 with
  | .ok b =>
    match signX509 b kind with
    | .ok a => .ok (b, a)
    | .err e => .err e
    | .panic s => .panic s
    | .diverge => .diverge
  | .err e => .err e
  | .panic s => .panic s
  | .diverge => .diverge

def signCfgPgp (c : Config) (n : String) : Res (Bundle × PubKey × PgpEntity) :=
  match init c n .pgp with
  | .ok b =>
    match signPgp b with
    | .ok r => .ok (b, r)
    | .err e => .err e
    | .panic s => .panic s
    | .diverge => .diverge
  | .err e => .err e
  | .panic s => .panic s
  | .diverge => .diverge

/-! ### signature schemes are parameters (DESIGN section 2) -/

structure SigScheme where
  Priv : Type
  Pub : Type
  Sig : Type
  pub : Priv → Pub
  sign : Priv → Bytes → Sig
  verify : Pub → Bytes → Sig → Bool
  sound : ∀ k m, verify (pub k) m (sign k m) = true

end Relic.KeyMatch

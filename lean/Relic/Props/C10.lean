/-
  Property C10 — only genuine, matching timestamps are attached and they govern validity time.

  Theorems about `Relic.Model.Tsa` (tied to lib/pkcs9, tsclient, timestampcache, appmanifest by
  differential execution, see checklib/props/c10.py).  Digests (`H`), signature values, certificates and
  X.509 path validation (`chainOK`) are parameters: every statement holds for all of them.
-/
import Relic.Proofs.Tsa
namespace Relic.Props.C10
open Relic Relic.Tsa

/-! ## 1. What the client accepts -/

/-- The conjunction `tsClient.do` + `ParseResponse` + `SanityCheckToken` check on an RFC 3161 reply:
HTTP 200, well-formed without trailing bytes, status granted / grantedWithMods, token signed
(self-consistently: its messageDigest attribute matches its own content, `mdOK`, and the signature over the
attributes verifies, `sigOK`), nonce echoed, imprint equal to the request's (and, once `algChecked`, same algorithm). -/
def Genuine (c : Cfg) (r : Req) (w : Wire) (t : Token) : Prop :=
  ∃ st i, w = .http 200 (.der st t false) ∧ st ≤ 1 ∧ t.content = .tst i ∧ t.nSigners ≠ 0 ∧ t.mdOK = true ∧ t.sigOK = true ∧
    i.nonce = some r.nonce ∧ i.imprint = r.imprint ∧ (c.algChecked = true → i.algOK = true)

theorem accept_iff (c : Cfg) (r : Req) (w : Wire) (t : Token) (hr : r.legacy = false) :
    doOne c r w = .ok t ↔ Genuine c r w t := by
  unfold Genuine
  constructor
  · intro h
    cases w with
    | reset => simp [doOne] at h
    | hang => simp only [doOne] at h; split at h <;> simp at h
    | cancel => simp [doOne] at h
    | http code b =>
      simp only [doOne] at h
      split at h
      · simp at h
      · rename_i hc
        have hc : code = 200 := by simpa using hc
        subst hc
        cases b with
        | garbage => simp [parseBody] at h
        | b64 o => cases o <;> simp [parseBody, hr] at h
        | der st t' tr =>
          simp only [parseBody, hr] at h
          split at h
          · simp at h
          · rename_i h1
            split at h
            · simp at h
            · rename_i htr
              split at h
              · simp at h
              · rename_i hst
                simp only [sanityCheck, p7Verify] at h
                split at h <;> try (simp at h; done)
                rename_i hv
                split at hv <;> try (simp at hv; done)
                split at hv <;> try (simp at hv; done)
                split at hv <;> try (simp at hv; done)
                split at hv <;> try (simp at hv; done)
                rename_i hab hns hmd hso
                split at h <;> try (simp at h; done)
                rename_i i hu
                split at h
                · split at h <;> simp at h
                · rename_i n hn
                  split at h <;> try (simp at h; done)
                  split at h <;> try (simp at h; done)
                  split at h <;> try (simp at h; done)
                  rename_i hne hie hal
                  have ht : t' = t := by simpa using h
                  subst ht
                  have hcont : t'.content = .tst i := by
                    unfold unpack at hu
                    split at hu <;> (try split at hu) <;> simp_all
                  refine ⟨st, i, ?_, by omega, hcont, hns, by simpa using hmd, by simpa using hso, ?_, by simpa using hie, ?_⟩
                  · simp_all
                  · have : n = r.nonce := by simpa using hne
                    simp [hn, this]
                  · intro hac
                    simp [hac] at hal
                    exact hal
  · rintro ⟨st, i, hw, hst, hcont, hns, hmd, hsig, hn, himp, halg⟩
    subst hw
    have h1 : ¬ st > 1 := by omega
    simp only [doOne, parseBody, hr, sanityCheck, p7Verify, unpack, hcont, hns, hmd, hsig, hn, himp, h1]
    cases hac : c.algChecked
    · simp
    · simp [halg hac]

/-- the legacy (Microsoft) style once the client verifies the reply (`legacyChecked`) -/
def GenuineLegacy (r : Req) (w : Wire) (t : Token) : Prop :=
  w = .http 200 (.b64 (some t)) ∧ t.content = .data r.imprint ∧ t.nSigners ≠ 0 ∧ t.mdOK = true ∧
    t.sigOK = true ∧ t.sigTime ≠ none

theorem accept_legacy_iff (c : Cfg) (r : Req) (w : Wire) (t : Token) (hr : r.legacy = true)
    (hc : c.legacyChecked = true) : doOne c r w = .ok t ↔ GenuineLegacy r w t := by
  unfold GenuineLegacy
  constructor
  · intro h
    cases w with
    | reset => simp [doOne] at h
    | hang => simp only [doOne] at h; split at h <;> simp at h
    | cancel => simp [doOne] at h
    | http code b =>
      simp only [doOne] at h
      split at h
      · simp at h
      · rename_i hcode
        have hcode : code = 200 := by simpa using hcode
        subst hcode
        cases b with
        | garbage => simp [parseBody] at h
        | der st t' tr => simp [parseBody, hr] at h
        | b64 o =>
          cases o with
          | none => simp [parseBody] at h
          | some t' =>
            simp only [parseBody, hr, hc, if_true] at h
            split at h <;> try (simp at h; done)
            rename_i cs hv
            have ht : t' = t := by simpa using h
            subst ht
            simp only [verifyMsToken, p7Verify] at hv
            split at hv <;> try (simp at hv; done)
            rename_i hp
            split at hp <;> try (simp at hp; done)
            split at hp <;> try (simp at hp; done)
            split at hp <;> try (simp at hp; done)
            split at hp <;> try (simp at hp; done)
            rename_i hab hns hmd hso
            split at hv <;> try (simp at hv; done)
            rename_i hd
            split at hv <;> try (simp at hv; done)
            rename_i tm hst
            refine ⟨rfl, by simpa using hd, hns, by simpa using hmd, by simpa using hso, by simp [hst]⟩
  · rintro ⟨hw, hcont, hns, hmd, hsig, htime⟩
    subst hw
    cases hst : t.sigTime with
    | none => exact absurd hst htime
    | some tm => simp [doOne, parseBody, hr, hc, verifyMsToken, p7Verify, hcont, hns, hmd, hsig, hst]

example : Genuine Cfg.fixed ⟨false, 7, 1100⟩ (.http 200 (.der 0 ⟨1, true, 1, true, .tst ⟨some 7, 1100, true, some 0⟩, none, 1, true⟩ false))
    ⟨1, true, 1, true, .tst ⟨some 7, 1100, true, some 0⟩, none, 1, true⟩ :=
  ⟨0, ⟨some 7, 1100, true, some 0⟩, rfl, by decide, rfl, by decide, rfl, rfl, rfl, rfl, fun _ => rfl⟩

/-! ## 2. Ordered failover -/

theorem attempts_le (c : Cfg) (r : Req) (ws : List Wire) : attempts c r ws ≤ ws.length := by
  induction ws with
  | nil => simp [attempts]
  | cons w ws ih => simp only [attempts, List.length_cons]; split <;> omega

/-- nobody is contacted after the first attempt that stops the loop -/
theorem attempts_stop (c : Cfg) (r : Req) (ws : List Wire) :
    ∀ k w, ws[k]? = some w → stops c r w = true → attempts c r ws ≤ k + 1 := by
  induction ws with
  | nil => intro k w h; simp at h
  | cons w0 ws ih =>
    intro k w h hs
    simp only [attempts]
    cases k with
    | zero =>
      have : w0 = w := by simpa using h
      subst this
      simp [hs]
    | succ k =>
      have h' : ws[k]? = some w := by simpa using h
      have := ih k w h' hs
      split <;> omega

/-- "otherwise the next configured authority is tried": URL `k` is contacted when no earlier attempt stopped -/
theorem attempts_ge (c : Cfg) (r : Req) (ws : List Wire) :
    ∀ k, k < ws.length → (∀ j w, j < k → ws[j]? = some w → stops c r w = false) → k + 1 ≤ attempts c r ws := by
  induction ws with
  | nil => intro k h; simp at h
  | cons w0 ws ih =>
    intro k hk hall
    simp only [attempts]
    cases k with
    | zero => split <;> omega
    | succ k =>
      have h0 : stops c r w0 = false := hall 0 w0 (by omega) (by simp)
      simp only [h0]
      have := ih k (by simpa using hk) (fun j w hj hw => hall (j + 1) w (by omega) (by simpa using hw))
      simp
      omega

/-- **failover_order** — the authorities that receive a request are exactly the first `attempts` configured
URLs, in configured order, each once; none at all when the caller had already cancelled. -/
theorem failover_order (c : Cfg) (r : Req) (pre : Bool) (ws : List Wire) :
    (timestamp c r pre ws).contacted = if pre then [] else List.range (attempts c r ws) := by
  cases ws with
  | nil => simp [timestamp, attempts]
  | cons w ws =>
    simp only [timestamp]
    cases pre with
    | true => simp
    | false => simp [tryFrom_contacted, List.range_eq_range']

example : (timestamp Cfg.fixed ⟨false, 7, 1100⟩ false
    [.http 500 .garbage, .reset, .http 200 (.der 0 ⟨1, true, 1, true, .tst ⟨some 7, 1100, true, some 0⟩, none, 1, true⟩ false), .reset]).contacted
    = [0, 1, 2] := by decide

/-! ## 3. Attaching -/

/-- **countersig_binds** — a countersignature is reported only when the attached token covers the
`EncryptedDigest` of the enclosing signer info, for every one of the attribute kinds. -/
theorem countersig_binds (H : Nat → Nat) (g : Bool) (a : Artefact) (cs : CounterSig)
    (h : verifyAttach H g a = .ok (some cs)) :
    ∃ t, a.attach.token? = some t ∧ Covers H t a.encDigest ∧ cs.cert = t.tsa := by
  unfold verifyAttach at h
  cases hat : a.attach with
  | none => simp [hat] at h
  | tsToken t =>
    simp only [hat] at h
    cases hv : verifyRfcToken H g t a.encDigest with
    | ok cs' =>
      simp only [hv] at h
      have : cs' = cs := by simpa using h
      subst this
      exact ⟨t, rfl, (verifyRfc_covers hv).1, (verifyRfc_covers hv).2.1⟩
    | err e => simp [hv] at h
    | panic s => simp [hv] at h
    | diverge => simp [hv] at h
  | spcToken t =>
    simp only [hat] at h
    cases hv : verifyRfcToken H g t a.encDigest with
    | ok cs' =>
      simp only [hv] at h
      have : cs' = cs := by simpa using h
      subst this
      exact ⟨t, rfl, (verifyRfc_covers hv).1, (verifyRfc_covers hv).2.1⟩
    | err e => simp [hv] at h
    | panic s => simp [hv] at h
    | diverge => simp [hv] at h
  | counterSign t =>
    simp only [hat] at h
    cases hv : verifyCounterSign t a.encDigest with
    | ok cs' =>
      simp only [hv] at h
      have : cs' = cs := by simpa using h
      subst this
      exact ⟨t, rfl, (verifyCs_covers (H := H) hv).1, (verifyCs_covers (H := H) hv).2⟩
    | err e => simp [hv] at h
    | panic s => simp [hv] at h
    | diverge => simp [hv] at h
  | manifestTs t =>
    simp only [hat, verifyManifestTs] at h
    cases hct : t.ctypeTst with
    | true =>
      simp only [hct, if_true] at h
      cases hv : verifyRfcToken H g t a.encDigest with
      | ok cs' =>
        simp only [hv] at h
        have : cs' = cs := by simpa using h
        subst this
        exact ⟨t, rfl, (verifyRfc_covers hv).1, (verifyRfc_covers hv).2.1⟩
      | err e => simp [hv] at h
      | panic s => simp [hv] at h
      | diverge => simp [hv] at h
    | false =>
      simp only [hct] at h
      cases hv : verifyMsToken t a.encDigest with
      | ok cs' =>
        simp only [hv] at h
        have : cs' = cs := by simpa using h
        subst this
        exact ⟨t, rfl, (verifyMs_covers (H := H) hv).1, (verifyMs_covers (H := H) hv).2⟩
      | err e => simp [hv] at h
      | panic s => simp [hv] at h
      | diverge => simp [hv] at h

/-- corollary: a token issued for another signature value is rejected (for a digest that separates the two) -/
theorem moved_countersig_rejected (H : Nat → Nat) (g : Bool) (a : Artefact) (t : Token) (other : Nat)
    (hat : a.attach.token? = some t)
    (hsep : H other ≠ H a.encDigest) (hne : other ≠ a.encDigest)
    (hbound : (∃ i, t.content = .tst i ∧ i.imprint = H other) ∨ t.content = .data other) :
    ∀ cs, verifyAttach H g a ≠ .ok (some cs) := by
  intro cs h
  obtain ⟨t', ht', hcov, _⟩ := countersig_binds H g a cs h
  rw [hat] at ht'
  have : t = t' := by simpa using ht'
  subst this
  rcases hcov.2.2 with ⟨i, hc, hi, _⟩ | hd
  · rcases hbound with ⟨i', hc', hi'⟩ | hd'
    · rw [hc] at hc'
      have : i = i' := by simpa using hc'
      subst this
      exact hsep (hi'.symm.trans hi)
    · rw [hc] at hd'; simp at hd'
  · rcases hbound with ⟨i', hc', _⟩ | hd'
    · rw [hd] at hc'; simp at hc'
    · rw [hd] at hd'
      have : a.encDigest = other := by simpa using hd'
      exact hne this.symm

example : verifyAttach (· + 1000) true ⟨100, 10, .tsToken ⟨1, true, 1, true, .tst ⟨some 7, 1100, true, some 0⟩, none, 1, true⟩⟩
    = .ok (some ⟨some 0, 1, 1⟩) := by decide
example : verifyAttach (· + 1000) true ⟨100, 10, .tsToken ⟨1, true, 1, true, .tst ⟨some 7, 1200, true, some 0⟩, none, 1, true⟩⟩
    = .err "imprint" := by decide

/-- **transplant_rejected** — a token whose messageDigest attribute does not match its embedded content (a
genuine legacy token issued for another value whose content was swapped) fails its own verification,
whatever signature value it is compared with: `SignedData.Verify` reports the digest mismatch before the
signature, the content comparison and the signing time are looked at. -/
theorem transplant_rejected (t : Token) (hm : t.mdOK = false) (hc : t.content ≠ .absent) (hns : t.nSigners ≠ 0) :
    ∀ ed, verifyMsToken t ed = .err "digest" := by
  intro ed
  simp [verifyMsToken, p7Verify, hm, hc, hns]

/-- hence no attribute kind yields a countersignature from such a token (by `countersig_binds`) -/
theorem transplant_never_countersig (H : Nat → Nat) (g : Bool) (a : Artefact) (t : Token)
    (hat : a.attach.token? = some t) (hm : t.mdOK = false) : ∀ cs, verifyAttach H g a ≠ .ok (some cs) := by
  intro cs h
  obtain ⟨t', ht', hcov, _⟩ := countersig_binds H g a cs h
  rw [hat] at ht'
  have : t = t' := by simpa using ht'
  subst this
  rw [hcov.2.1] at hm
  exact absurd hm (by decide)

/-- and a client that verifies the legacy reply (`legacyChecked`) answers the transplanted token with an
ordinary error that does not stop the loop: the next configured authority is tried -/
theorem transplant_fails_over (c : Cfg) (r : Req) (t : Token) (hr : r.legacy = true) (hl : c.legacyChecked = true)
    (hm : t.mdOK = false) (hc : t.content ≠ .absent) (hns : t.nSigners ≠ 0) :
    doOne c r (.http 200 (.b64 (some t))) = .err "digest" ∧ stops c r (.http 200 (.b64 (some t))) = false := by
  have h : doOne c r (.http 200 (.b64 (some t))) = .err "digest" := by
    simp [doOne, parseBody, hr, hl, transplant_rejected t hm hc hns r.imprint]
  exact ⟨h, by simp [stops, h]⟩

/-- non-vacuity: the transplanted token names the right value and is correctly signed, and is still rejected;
with a second authority the signature carries the second one's token -/
example : verifyMsToken { (⟨1, false, 1, true, .data 100, some (some 0), 1, true⟩ : Token) with mdOK := false } 100
    = .err "digest" := by decide
example :
    let good : Token := ⟨2, false, 1, true, .data 100, some (some 0), 1, true⟩
    let so := sign (· + 1000) Cfg.fixed ⟨true, false, false, true⟩ .manifest true false 7 100 10
      [.http 200 (.b64 (some { good with serial := 1, mdOK := false })), .http 200 (.b64 (some good))]
    so.res = .ok ⟨100, 10, .manifestTs good⟩ ∧ so.outcome.contacted = [0, 1] ∧ so.outcome.errs = ["digest"] := by
  decide

/-- **attach_only_if_genuine** — a signing operation that succeeds with time-stamping wanted carries the
token of the *first* authority whose reply the client accepted; every authority before it was tried and
failed; for an RFC 3161 request "accepted" is exactly the conjunction `Genuine`; and (all styles, including
the legacy style whose reply the unchanged client does not inspect) the attached token covers this
signature value and is correctly signed, by the self-check that follows attachment. -/
theorem attach_only_if_genuine (H : Nat → Nat) (c : Cfg) (s : SignCfg) (flow : Flow) (legacy pre : Bool)
    (nonce ed leaf : Nat) (ws : List Wire) (a : Artefact) (hw : s.wanted = true)
    (h : (sign H c s flow legacy pre nonce ed leaf ws).res = .ok a) :
    ∃ k w t, ws[k]? = some w ∧ doOne c (reqOf H legacy nonce ed) w = .ok t ∧
      a = ⟨ed, leaf, mkAttach flow t⟩ ∧
      (∀ (j : Nat) (w' : Wire), j < k → ws[j]? = some w' → ∃ e, doOne c (reqOf H legacy nonce ed) w' = .err e) ∧
      (legacy = false → Genuine c (reqOf H legacy nonce ed) w t) ∧
      Covers H t ed := by
  unfold sign at h
  simp only [hw, if_true] at h
  split at h
  · simp at h
  · obtain ⟨src, t, cs, hres, ha, hv⟩ := signWith_ok h
    have hts : (timestamp c (reqOf H legacy nonce ed) pre ws).res = .ok (src, t) := hres
    cases ws with
    | nil => simp [timestamp] at hts
    | cons w0 ws0 =>
      simp only [timestamp] at hts
      cases pre with
      | true => simp at hts
      | false =>
        simp only [Bool.false_eq_true, if_false] at hts
        obtain ⟨k, w, _, hk, hok, hbefore⟩ := tryFrom_ok c _ (w0 :: ws0) 0 "" src t hts
        refine ⟨k, w, t, hk, hok, ha, hbefore, ?_, ?_⟩
        · intro hl
          exact (accept_iff c _ w t (by simp [reqOf, hl])).1 hok
        · rw [ha] at hv
          obtain ⟨cc, hcc⟩ := verifyAttach_some hv
          rw [hcc] at hv
          obtain ⟨t', ht', hcov, _⟩ := countersig_binds H c.guards _ cc hv
          simp only [mkAttach_token] at ht'
          have : t = t' := by simpa using ht'
          subst this
          exact hcov

/-- **never_silently_omitted** — time-stamping configured for the key and not disabled by the request:
a successful signature carries a timestamp, and if no authority gives an acceptable reply signing does not
succeed (it is an error; in the unguarded tree possibly a panic, see `absent_nonce_panics`). -/
theorem never_silently_omitted (H : Nat → Nat) (c : Cfg) (s : SignCfg) (flow : Flow) (legacy pre : Bool)
    (nonce ed leaf : Nat) (ws : List Wire) (hw : s.wanted = true) :
    (∀ a, (sign H c s flow legacy pre nonce ed leaf ws).res = .ok a → a.attach ≠ .none) ∧
    ((∀ w, w ∈ ws → ∀ t, doOne c (reqOf H legacy nonce ed) w ≠ .ok t) →
      ∀ a, (sign H c s flow legacy pre nonce ed leaf ws).res ≠ .ok a) := by
  constructor
  · intro a h
    obtain ⟨k, w, t, _, _, ha, _⟩ := attach_only_if_genuine H c s flow legacy pre nonce ed leaf ws a hw h
    rw [ha]
    cases flow <;> simp [mkAttach]
  · intro hall a h
    obtain ⟨k, w, t, hk, hok, _⟩ := attach_only_if_genuine H c s flow legacy pre nonce ed leaf ws a hw h
    exact hall w (List.mem_of_getElem? hk) t hok

/-- non-vacuity: one failed authority, then a genuine one: the signature carries the second one's token -/
example :
    let good : Token := ⟨2, true, 1, true, .tst ⟨some 7, 1100, true, some 0⟩, none, 1, true⟩
    (sign (· + 1000) Cfg.fixed ⟨true, false, false, true⟩ .p7 false false 7 100 10
      [.http 200 (.der 0 { good with content := .tst ⟨some 8, 1100, true, some 0⟩ } false), .http 200 (.der 0 good false)]).res
      = .ok ⟨100, 10, .tsToken good⟩ := by decide

/-- non-vacuity: every authority failing is an error, for the unchanged tree as well -/
example : (sign (· + 1000) Cfg.asIs ⟨true, false, false, true⟩ .p7ac false false 7 100 10
    [.http 500 .garbage, .reset, .http 200 .garbage]).res = .err "failed:unmarshal" := by decide

/-- non-vacuity: `no-timestamp` given -/
example : (⟨true, true, true, true⟩ : SignCfg).wanted = false := by decide

/-- with the guards in place and a client timeout configured the failure is an ordinary error -/
theorem all_fail_is_error (H : Nat → Nat) (c : Cfg) (s : SignCfg) (flow : Flow) (legacy pre : Bool)
    (nonce ed leaf : Nat) (ws : List Wire) (hw : s.wanted = true)
    (hall : ∀ w, w ∈ ws → ∃ e, doOne c (reqOf H legacy nonce ed) w = .err e) :
    ∃ e, (sign H c s flow legacy pre nonce ed leaf ws).res = .err e := by
  unfold sign
  simp only [hw, if_true]
  split
  · exact ⟨_, rfl⟩
  · have : ∃ e, (timestamp c (reqOf H legacy nonce ed) pre ws).res = .err e := by
      cases ws with
      | nil => exact ⟨_, rfl⟩
      | cons w0 ws0 =>
        simp only [timestamp]
        cases pre with
        | true => exact ⟨_, rfl⟩
        | false => simpa using tryFrom_all_fail c _ (w0 :: ws0) 0 "" hall
    obtain ⟨e, he⟩ := this
    refine ⟨e, ?_⟩
    show (signWith H c.guards flow ed leaf (timestamp c (reqOf H legacy nonce ed) pre ws)).res = .err e
    simp [signWith, he]

/-- without the key option, or with `no-timestamp`, nothing is contacted and nothing attached -/
theorem not_wanted_plain (H : Nat → Nat) (c : Cfg) (s : SignCfg) (flow : Flow) (legacy pre : Bool)
    (nonce ed leaf : Nat) (ws : List Wire) (hw : s.wanted = false) :
    sign H c s flow legacy pre nonce ed leaf ws = ⟨.ok ⟨ed, leaf, .none⟩, noOutcome⟩ := by
  simp [sign, hw]

/-! ## 4. Validity time -/

/-- **validity_time** — chains are judged at the attested time: the authority's chain (time-stamping usage)
and the signer's chain at the countersignature's time; at the current time when there is none. -/
theorem validity_time (chainOK : Nat → Usage → Int → Bool) (now : Int) (leaf : Nat) (cs : Option CounterSig) :
    verifyChain chainOK now leaf cs = .ok () ↔
      match cs with
      | some c => chainOK c.cert .timestamping (c.time.getD now) = true ∧ chainOK leaf .requested (c.time.getD now) = true
      | none => chainOK leaf .requested now = true := by
  cases cs with
  | none => simp only [verifyChain]; split <;> simp_all
  | some c =>
    simp only [verifyChain]
    split
    · simp_all
    · split <;> simp_all

/-- corollary: a signer certificate that is no longer acceptable now is accepted iff a countersignature with
a valid authority chain attests a time at which the signer's chain was acceptable. -/
theorem expired_leaf (chainOK : Nat → Usage → Int → Bool) (now : Int) (leaf : Nat) (cs : Option CounterSig)
    (hexp : chainOK leaf .requested now = false) :
    verifyChain chainOK now leaf cs = .ok () ↔
      ∃ c t, cs = some c ∧ c.time = some t ∧ chainOK c.cert .timestamping t = true ∧ chainOK leaf .requested t = true := by
  rw [validity_time]
  cases cs with
  | none => simp [hexp]
  | some c =>
    cases ht : c.time with
    | none => simp [ht, hexp]
    | some t => simp [ht]

example : verifyChain (fun cert u t => match u with | .timestamping => cert = 1 | .requested => decide (-30 ≤ t ∧ t ≤ -10))
    0 10 (some ⟨some (-20), 1, 9⟩) = .ok () := by decide
example : verifyChain (fun cert u t => match u with | .timestamping => cert = 1 | .requested => decide (-30 ≤ t ∧ t ≤ -10))
    0 10 none = .err "chain" := by decide

/-! ## 5. Cache -/

/-- a cache hit is returned as found: no authority is contacted and the token is *not* checked by the cache
(the self-check of `attach_only_if_genuine` still applies to it, see `signWith_ok`) -/
theorem cache_hit (st : Store) (k : Key) (t : Token) (inner : Outcome) (h : lookup st k = some (.tok t)) :
    cachedTimestamp true st k inner = (⟨.ok (.cache, t), [], []⟩, st) := by
  simp [cachedTimestamp, h]

theorem cache_miss_stores (st : Store) (k : Key) (s : Src) (t : Token) (inner : Outcome)
    (hm : lookup st k = none) (hi : inner.res = .ok (s, t)) :
    (cachedTimestamp true st k inner).1 = inner ∧ lookup (cachedTimestamp true st k inner).2 k = some (.tok t) := by
  simp [cachedTimestamp, hm, hi, lookup]

theorem cache_failure_not_stored (up : Bool) (st : Store) (k : Key) (inner : Outcome)
    (hm : lookup st k = none) (hi : ∀ p, inner.res ≠ .ok p) :
    cachedTimestamp up st k inner = (inner, st) := by
  unfold cachedTimestamp
  cases up <;> simp only [hm, if_true, Bool.false_eq_true, if_false]
  all_goals (split <;> first | rfl | (rename_i p h; exact absurd h (hi _)))

/-- non-vacuity: second request for the same key is served from the cache -/
example :
    let t : Token := ⟨2, true, 1, true, .tst ⟨some 7, 1100, true, some 0⟩, none, 1, true⟩
    let k : Key := ⟨false, 0, 5, 100⟩
    let inner : Outcome := ⟨.ok (.url 0, t), [0], []⟩
    (cachedTimestamp true (cachedTimestamp true [] k inner).2 k inner).1 = ⟨.ok (.cache, t), [], []⟩ := by decide

/-- a poisoned cache entry (a token for another signature) cannot end up in a signature -/
theorem cached_token_still_checked (H : Nat → Nat) (g : Bool) (flow : Flow) (ed leaf : Nat) (t : Token) (a : Artefact)
    (h : (signWith H g flow ed leaf ⟨.ok (.cache, t), [], []⟩).res = .ok a) : Covers H t ed := by
  obtain ⟨s, t', cs, hres, ha, hv⟩ := signWith_ok h
  have : t' = t := by
    have : (Src.cache, t) = (s, t') := by simpa using hres
    simpa using (Prod.mk.inj this).2.symm
  subst this
  rw [ha] at hv
  obtain ⟨cc, hcc⟩ := verifyAttach_some hv
  rw [hcc] at hv
  obtain ⟨t'', ht'', hcov, _⟩ := countersig_binds H g _ cc hv
  simp only [mkAttach_token] at ht''
  have : t' = t'' := by simpa using ht''
  subst this
  exact hcov

/-! ## 6. The unchanged tree: proved deviations (each replayed on the real code by the harness) -/

def validTok (n imp : Nat) : Token := ⟨1, true, 1, true, .tst ⟨some n, imp, true, some 0⟩, none, 1, true⟩

/-- **absent_nonce_panics** (F11) — a granted, correctly signed reply whose TSTInfo omits the optional nonce
reaches `req.Nonce.Cmp(nil)`: nil dereference instead of an error; the next authority is never tried. -/
theorem absent_nonce_panics (r : Req) (hr : r.legacy = false) (t : Token) (i : TstInfo)
    (hc : t.content = .tst i) (hn : i.nonce = none) (hm : t.mdOK = true) (hs : t.sigOK = true) (hns : t.nSigners ≠ 0)
    (ws : List Wire) :
    (timestamp Cfg.asIs r false (.http 200 (.der 0 t false) :: ws)).res = .panic "nil-deref" := by
  simp [timestamp, tryFrom, doOne, parseBody, hr, sanityCheck, p7Verify, unpack, hc, hn, hm, hs, hns, Cfg.asIs]

/-- (F11, second site) zero-length eContent: `unpackTokenInfo` indexes byte 0 -/
theorem empty_content_panics (r : Req) (hr : r.legacy = false) (t : Token)
    (hc : t.content = .empty) (hm : t.mdOK = true) (hs : t.sigOK = true) (hns : t.nSigners ≠ 0) (ws : List Wire) :
    (timestamp Cfg.asIs r false (.http 200 (.der 0 t false) :: ws)).res = .panic "index" := by
  simp [timestamp, tryFrom, doOne, parseBody, hr, sanityCheck, p7Verify, unpack, hc, hm, hs, hns, Cfg.asIs]

/-- the same zero-length content in an *attached* token crashes the verifier (`pkcs9.Verify`) -/
theorem empty_content_panics_verifier (H : Nat → Nat) (t : Token) (ed leaf : Nat)
    (hc : t.content = .empty) (hns : t.nSigners = 1) :
    verifyAttach H false ⟨ed, leaf, .tsToken t⟩ = .panic "index" := by
  simp [verifyAttach, verifyRfcToken, unpack, hc, hns]

/-- with the guards of fix-F11 no reply makes the client panic -/
theorem no_panic_with_guards (c : Cfg) (r : Req) (w : Wire) (hg : c.guards = true) (s : String) :
    doOne c r w ≠ .panic s := by
  intro h
  cases w with
  | reset => simp [doOne] at h
  | hang => simp only [doOne] at h; split at h <;> simp at h
  | cancel => simp [doOne] at h
  | http code b =>
    have h2 : doOne { c with timeout := true } r (.http code b) = .panic s := h
    rcases doOne_ooe { c with timeout := true } r (.http code b) hg rfl with ⟨a, h'⟩ | ⟨e, h'⟩ <;>
      (rw [h2] at h'; simp at h')

/-- the property's notion of an acceptable reply, independent of what a given tree checks -/
def Acceptable (r : Req) (w : Wire) : Prop :=
  ∃ t, if r.legacy = true then GenuineLegacy r w t else Genuine Cfg.fixed r w t

/-- the full-strength failover statement: as long as no acceptable reply has arrived (and the caller has
not cancelled) the next configured authority is tried -/
def failover_total_full (c : Cfg) : Prop :=
  ∀ (r : Req) (ws : List Wire) (k : Nat), k < ws.length →
    (∀ j w, j < k → ws[j]? = some w → ¬ Acceptable r w ∧ w ≠ .cancel) →
    k ∈ (timestamp c r false ws).contacted

/-- it holds for a tree whose client performs every check before the failover decision -/
theorem failover_total (c : Cfg) (hg : c.guards = true) (hl : c.legacyChecked = true) (ha : c.algChecked = true)
    (ht : c.timeout = true) : failover_total_full c := by
  intro r ws k hk hbefore
  rw [failover_order]
  simp only [Bool.false_eq_true, if_false, List.mem_range]
  have := attempts_ge c r ws k hk (by
    intro j w hj hw
    obtain ⟨hna, hnc⟩ := hbefore j w hj hw
    cases hs : stops c r w with
    | false => rfl
    | true =>
      exfalso
      rcases (stops_iff c r w hg ht).1 hs with ⟨t, hok⟩ | hc
      · apply hna
        refine ⟨t, ?_⟩
        cases hleg : r.legacy with
        | true => simpa using (accept_legacy_iff c r w t hleg hl).1 hok
        | false =>
          obtain ⟨st, i, h1, h2, h3, h4, h4', h5, h6, h7, h8⟩ := (accept_iff c r w t hleg).1 hok
          simp only [Bool.false_eq_true, if_false]
          exact ⟨st, i, h1, h2, h3, h4, h4', h5, h6, h7, fun _ => h8 ha⟩
      · exact hnc hc)
  omega

/-- the unchanged tree violates it in the legacy (Microsoft) style: the reply is not inspected by the client,
the mismatch is only found by the self-check after attachment, and signing fails although the second
authority would have served (URL 1 is never contacted). -/
theorem legacy_unverified_no_failover :
    let bad : Token := ⟨1, false, 1, true, .data 101, some (some 0), 1, true⟩
    let good : Token := ⟨2, false, 1, true, .data 100, some (some 0), 1, true⟩
    let so := sign (· + 1000) Cfg.asIs ⟨true, false, false, true⟩ .manifest true false 7 100 10
      [.http 200 (.b64 (some bad)), .http 200 (.b64 (some good))]
    so.res = .err "selfcheck:imprint" ∧ so.outcome.contacted = [0] := by
  decide

theorem failover_total_fails_asIs : ¬ failover_total_full Cfg.asIs := by
  intro h
  have h1 := h ⟨true, 7, 100⟩
    [.http 200 (.b64 (some ⟨1, false, 1, true, .data 101, some (some 0), 1, true⟩)),
     .http 200 (.b64 (some ⟨2, false, 1, true, .data 100, some (some 0), 1, true⟩))] 1 (by decide)
    (by
      intro j w hj hw
      have hj0 : j = 0 := by omega
      subst hj0
      have hw' : w = .http 200 (.b64 (some ⟨1, false, 1, true, .data 101, some (some 0), 1, true⟩)) := by
        simpa using hw.symm
      subst hw'
      refine ⟨?_, by decide⟩
      rintro ⟨t, ht⟩
      simp only [if_true, GenuineLegacy] at ht
      obtain ⟨hw1, hc, _⟩ := ht
      have : t = ⟨1, false, 1, true, .data 101, some (some 0), 1, true⟩ := by simpa using hw1.symm
      subst this
      simp at hc)
  revert h1
  decide

/-- same for an RFC 3161 reply whose imprint names another hash algorithm (bytes equal): `SanityCheckToken`
compares only the bytes; `MessageImprint.Verify` in the self-check then fails and no other authority is tried -/
theorem alg_unchecked_no_failover :
    let so := sign (· + 1000) Cfg.asIs ⟨true, false, false, true⟩ .p7 false false 7 100 10
      [.http 200 (.der 0 ⟨1, true, 1, true, .tst ⟨some 7, 1100, false, some 0⟩, none, 1, true⟩ false),
       .http 200 (.der 0 (validTok 7 1100) false)]
    so.res = .err "selfcheck:imprint" ∧ so.outcome.contacted = [0] := by
  decide

end Relic.Props.C10

/-
  Relic.Proofs.ReaderBufio — `bufio.Reader` (fill / Peek / ReadByte / ReadString / WriteTo) observes only the logical
  content `buffer ++ stream`, provided the stream never stalls for 100 consecutive reads (`Stream.NoStall`).
-/
import Relic.Proofs.Reader
namespace Relic.Rd
open Relic
open Relic.Rd.Stream

/-- invariant between a `bufio.Reader`'s state and the reader under it -/
structure BufOk (b : Buf) (s : Stream) : Prop where
  len : b.data.length ≤ b.size
  err : b.err = none ∨ (b.err = some (.term s.term) ∧ s.data = [])

theorem data_nil_of_chunks_nil {s : Stream} (h : s.chunks = []) : s.data = [] := by simp [data, h]

/-! ### `fill` -/

structure FillOk (b : Buf) (s : Stream) (b' : Buf) (s' : Stream) : Prop where
  size : b'.size = b.size
  data : b'.data ++ s'.data = b.data ++ s.data
  after : After s' s s'.data
  len : b'.data.length ≤ b.size
  wt : wt s'.chunks + b'.data.length ≤ wt s.chunks + b.data.length
  mono : b.data.length ≤ b'.data.length
  prog : (b'.err = b.err ∧ b.data.length < b'.data.length) ∨ (b'.err = some (.term s.term) ∧ s'.data = [])

theorem fillLoop_spec (i : Nat) (b : Buf) (s : Stream) (hlen : b.data.length < b.size) (hlead : lead s.chunks < i) :
    FillOk b s (fillLoop i b s).1 (fillLoop i b s).2 := by
  induction i generalizing b s with
  | zero => omega
  | succ i ih =>
    simp only [fillLoop]
    have hk : 0 < b.size - b.data.length := by omega
    have hr := read_spec s (b.size - b.data.length)
    generalize hrd : s.read (b.size - b.data.length) = r at hr
    obtain ⟨out, e, s'⟩ := r
    simp only at hr ⊢
    have hdata := hr.data
    have hol := hr.len
    cases e with
    | some t =>
      obtain ⟨ht, hnil⟩ := hr.err t rfl
      simp only
      have hs' := data_nil_of_chunks_nil hnil
      exact ⟨rfl, by simp only [List.append_assoc, hdata], hr.after, by simp; omega,
        by have := hr.wtout; simp; omega, by simp, Or.inr ⟨by rw [ht], hs'⟩⟩
    | none =>
      simp only
      by_cases hpos : 0 < out.length
      · simp only [hpos, if_true]
        exact ⟨rfl, by simp only [List.append_assoc, hdata], hr.after, by simp; omega,
          by have := hr.wtout; simp; omega, by simp, Or.inl ⟨rfl, by simp; omega⟩⟩
      · simp only [hpos, if_false]
        have hout : out = [] := by
          cases out with
          | nil => rfl
          | cons _ _ => simp at hpos
        subst hout
        have hst := hr.stall rfl rfl hk
        have hb : ({ b with data := b.data ++ [] } : Buf) = b := by simp
        rw [hb]
        have ih' := ih b s' hlen (by omega)
        simp only [List.nil_append] at hdata
        exact ⟨ih'.size, by rw [ih'.data, hdata], ih'.after.trans hr.after, ih'.len,
          by have := ih'.wt; have := hr.after.wt; omega, ih'.mono,
          by rcases ih'.prog with h | h
             · exact Or.inl h
             · exact Or.inr ⟨by rw [h.1, hr.after.term], h.2⟩⟩

theorem fill_spec (b : Buf) (s : Stream) (hlen : b.data.length < b.size) (hs : s.NoStall) :
    FillOk b s (fill b s).1 (fill b s).2 :=
  fillLoop_spec 100 b s hlen (Nat.lt_of_le_of_lt (lead_le_maxRun _) hs)

theorem NoStall.after {s' s : Stream} {d : Bytes} (h : After s' s d) (hs : s.NoStall) : s'.NoStall :=
  Nat.lt_of_le_of_lt h.run hs

theorem FillOk.bufOk {b : Buf} {s : Stream} {b' : Buf} {s' : Stream} (h : FillOk b s b' s') (hb : b.err = none) :
    BufOk b' s' := by
  refine ⟨by rw [h.size]; exact h.len, ?_⟩
  rcases h.prog with p | p
  · exact Or.inl (by rw [p.1, hb])
  · exact Or.inr ⟨by rw [p.1, h.after.term], p.2⟩

/-! ### `Peek` -/

structure PeekLoopOk (n : Nat) (b : Buf) (s : Stream) (b' : Buf) (s' : Stream) : Prop where
  size : b'.size = b.size
  data : b'.data ++ s'.data = b.data ++ s.data
  after : After s' s s'.data
  ok : BufOk b' s'
  exit : ¬ (b'.data.length < n ∧ b'.data.length < b'.size ∧ b'.err = none)

theorem peekLoop_spec (fuel n : Nat) (b : Buf) (s : Stream) (hb : BufOk b s) (hs : s.NoStall)
    (hf : b.err = none → b.size - b.data.length < fuel) :
    PeekLoopOk n b s (peekLoop fuel n b s).1 (peekLoop fuel n b s).2 := by
  induction fuel generalizing b s with
  | zero =>
    simp only [peekLoop]
    refine ⟨rfl, rfl, After.refl s, hb, ?_⟩
    intro ⟨_, h2, h3⟩
    have := hf h3
    omega
  | succ fuel ih =>
    simp only [peekLoop]
    by_cases hc : b.data.length < n ∧ b.data.length < b.size ∧ b.err = none
    · simp only [hc, and_self, if_true]
      have hfl := fill_spec b s hc.2.1 hs
      generalize hfd : fill b s = r at hfl
      obtain ⟨b', s'⟩ := r
      simp only at hfl ⊢
      have hb' := hfl.bufOk hc.2.2
      have ih' := ih b' s' hb' (NoStall.after hfl.after hs) (by
        intro he
        rcases hfl.prog with p | p
        · have := hf hc.2.2; have := p.2; rw [hfl.size]; omega
        · rw [p.1] at he; cases he)
      exact ⟨by rw [ih'.size, hfl.size], by rw [ih'.data, hfl.data], ih'.after.trans hfl.after, ih'.ok, ih'.exit⟩
    · simp only [hc, if_false]
      exact ⟨rfl, rfl, After.refl s, hb, hc⟩

theorem take_prefix {l a b : Bytes} {n : Nat} (h : a ++ b = l) (hn : n ≤ a.length) : a.take n = l.take n := by
  rw [← h, List.take_append_of_le_length hn]

/-- `Peek(n)` returns the first `n` bytes of the logical content (or all of it and the terminal error), and leaves
    the logical content as it was -/
theorem peek_spec (n : Nat) (b : Buf) (s : Stream) (hb : BufOk b s) (hs : s.NoStall) :
    (peek n b s).1 = flatPeek n b.size ⟨b.data ++ s.data, s.term, some b.size⟩ ∧
    (peek n b s).2.1.size = b.size ∧
    (peek n b s).2.1.data ++ (peek n b s).2.2.data = b.data ++ s.data ∧
    BufOk (peek n b s).2.1 (peek n b s).2.2 ∧
    After (peek n b s).2.2 s (peek n b s).2.2.data := by
  have hp := peekLoop_spec (b.size + 1) n b s hb hs (by intro _; omega)
  simp only [peek]
  generalize hpd : peekLoop (b.size + 1) n b s = r at hp
  obtain ⟨b1, s1⟩ := r
  simp only at hp ⊢
  have hsz := hp.size
  have hdat := hp.data
  have hok := hp.ok
  have hex := hp.exit
  have herr : b1.err ≠ none → s1.data = [] ∧ b1.err = some (.term s.term) := by
    intro hne
    rcases hok.err with h | h
    · exact absurd h hne
    · exact ⟨h.2, by rw [h.1, hp.after.term]⟩
  have hfull : b1.data.length = b1.size → b1.data = (b.data ++ s.data).take b.size := by
    intro h
    rw [← take_prefix hdat (by omega), ← hsz, ← h, List.take_length]
  have hall : s1.data = [] → b1.data = b.data ++ s.data := by
    intro h; rw [← hdat, h, List.append_nil]
  by_cases h1 : b1.size < n
  · have hbn : b.size < n := by omega
    simp only [h1, if_true, flatPeek]
    rw [if_pos hbn]
    refine ⟨?_, hsz, hdat, hok, hp.after⟩
    have hlen := hok.len
    by_cases he : b1.err = none
    · have : b1.data.length = b1.size := by
        have : ¬ (b1.data.length < b1.size) := fun h => hex ⟨by omega, h, he⟩
        omega
      rw [hfull this]
    · have ha := hall (herr he).1
      rw [ha, List.take_of_length_le (by rw [← ha, ← hsz]; exact hlen)]
  · simp only [h1, if_false]
    by_cases h2 : b1.data.length < n
    · simp only [h2, if_true]
      have he : b1.err ≠ none := fun h => hex ⟨h2, by omega, h⟩
      obtain ⟨hnil, hterm⟩ := herr he
      have ha := hall hnil
      have hbn : ¬ b.size < n := by omega
      have : (b.data ++ s.data).length < n := by rw [← ha]; exact h2
      simp only [hterm, flatPeek]
      rw [if_neg hbn, if_pos this]
      refine ⟨by rw [ha], hsz, hdat, ⟨hok.len, Or.inl rfl⟩, hp.after⟩
    · have hbn : ¬ b.size < n := by omega
      have hl : ¬ (b.data ++ s.data).length < n := by
        have := congrArg List.length hdat
        simp only [List.length_append] at this ⊢
        omega
      simp only [h2, if_false, flatPeek]
      rw [if_neg hbn, if_neg hl]
      exact ⟨by rw [take_prefix hdat (by omega)], hsz, hdat, hok, hp.after⟩

/-! ### `ReadByte` -/

/-- the logical effect of `ReadByte` -/
def rbFlat (l : Bytes) (t : Term) : Except BErr UInt8 × Bytes :=
  match l with
  | x :: r => (.ok x, r)
  | [] => (.error (.term t), [])

theorem readByte_spec (b : Buf) (s : Stream) (hb : BufOk b s) (hs : s.NoStall) (hsz : 0 < b.size) :
    (readByte b s).1 = (rbFlat (b.data ++ s.data) s.term).1 ∧
    (readByte b s).2.1.data ++ (readByte b s).2.2.data = (rbFlat (b.data ++ s.data) s.term).2 ∧
    (readByte b s).2.1.size = b.size ∧
    BufOk (readByte b s).2.1 (readByte b s).2.2 ∧
    After (readByte b s).2.2 s (readByte b s).2.2.data := by
  obtain ⟨size, data, err⟩ := b
  cases data with
  | cons x r =>
    simp only [readByte, List.cons_append, rbFlat]
    refine ⟨trivial, trivial, trivial, ⟨?_, hb.err⟩, After.refl s⟩
    have := hb.len; simp at this ⊢; omega
  | nil =>
    cases err with
    | some e =>
      simp only [readByte, List.nil_append]
      rcases hb.err with h | h
      · cases h
      · simp only [Option.some.injEq] at h
        have hd : s.data = [] := h.2
        have haf := After.refl s
        rw [hd] at haf ⊢
        simp only [rbFlat]
        exact ⟨by rw [h.1], trivial, trivial, ⟨by simp, Or.inl rfl⟩, haf⟩
    | none =>
      simp only [readByte, List.nil_append]
      have hfl := fill_spec ⟨size, [], none⟩ s (by simpa using hsz) hs
      generalize hfd : fill ⟨size, [], none⟩ s = r at hfl
      obtain ⟨b1, s1⟩ := r
      simp only at hfl ⊢
      have hok := hfl.bufOk rfl
      have hdat := hfl.data
      simp only [List.nil_append] at hdat
      obtain ⟨size1, data1, err1⟩ := b1
      have hsz1 : size1 = size := hfl.size
      cases data1 with
      | cons x r =>
        simp only
        rw [← hdat]
        simp only [List.cons_append, rbFlat]
        refine ⟨trivial, trivial, hsz1, ⟨?_, hok.err⟩, hfl.after⟩
        have := hok.len; simp at this ⊢; omega
      | nil =>
        simp only [List.nil_append] at hdat
        rcases hfl.prog with p | p
        · simp at p
        · simp only at p
          cases err1 with
          | none => cases p.1
          | some e =>
            simp only [Option.some.injEq] at p
            simp only
            have haf := hfl.after
            have hsd : s.data = [] := by rw [← hdat]; exact p.2
            rw [hsd]
            simp only [rbFlat]
            exact ⟨by rw [p.1], by simp [p.2], hsz1, ⟨by simp, Or.inl rfl⟩, haf⟩

/-! ### `ReadString` -/

theorem cutAt_append_some {d : UInt8} {a line rest : Bytes} (b : Bytes) (h : cutAt d a = some (line, rest)) :
    cutAt d (a ++ b) = some (line, rest ++ b) := by
  induction a generalizing line rest with
  | nil => simp [cutAt] at h
  | cons x r ih =>
    simp only [cutAt, List.cons_append] at h ⊢
    by_cases hx : x = d
    · simp only [hx, if_true, Option.some.injEq, Prod.mk.injEq] at h ⊢
      exact ⟨h.1, by rw [h.2]⟩
    · simp only [hx, if_false] at h ⊢
      cases hc : cutAt d r with
      | none => simp [hc] at h
      | some p =>
        obtain ⟨p1, p2⟩ := p
        simp only [hc, Option.map_some, Option.some.injEq, Prod.mk.injEq] at h
        rw [ih hc]
        simp only [Option.map_some, Option.some.injEq, Prod.mk.injEq]
        exact ⟨h.1, by rw [h.2]⟩

theorem cutAt_append_none {d : UInt8} {a : Bytes} (b : Bytes) (h : cutAt d a = none) :
    cutAt d (a ++ b) = (cutAt d b).map fun p => (a ++ p.1, p.2) := by
  induction a with
  | nil => simp
  | cons x r ih =>
    simp only [cutAt, List.cons_append] at h ⊢
    by_cases hx : x = d
    · simp [hx] at h
    · simp only [hx, if_false] at h ⊢
      cases hc : cutAt d r with
      | some p => simp [hc] at h
      | none =>
        rw [ih hc]
        cases cutAt d b <;> simp

theorem cutAt_length {d : UInt8} {a line rest : Bytes} (h : cutAt d a = some (line, rest)) :
    rest.length ≤ a.length ∧ line ++ rest = a := by
  induction a generalizing line rest with
  | nil => simp [cutAt] at h
  | cons x r ih =>
    simp only [cutAt] at h
    by_cases hx : x = d
    · simp only [hx, if_true, Option.some.injEq, Prod.mk.injEq] at h
      rw [← h.2, ← h.1, hx]; simp
    · simp only [hx, if_false] at h
      cases hc : cutAt d r with
      | none => simp [hc] at h
      | some q =>
        obtain ⟨q1, q2⟩ := q
        simp only [hc, Option.map_some, Option.some.injEq, Prod.mk.injEq] at h
        have := ih hc
        rw [← h.2, ← h.1]
        refine ⟨by simp; omega, by simp [this.2]⟩

/-- the logical effect of `ReadString(d)` -/
def rsFlat (d : UInt8) (l : Bytes) (t : Term) : (Bytes × Option BErr) × Bytes :=
  match cutAt d l with
  | some (line, rest) => ((line, none), rest)
  | none => ((l, some (.term t)), [])

structure RsOk (d : UInt8) (acc l : Bytes) (t : Term) (size : Nat) (s : Stream)
    (r : (Bytes × Option BErr) × Buf × Stream) : Prop where
  res : r.1 = ((acc ++ (rsFlat d l t).1.1), (rsFlat d l t).1.2)
  data : r.2.1.data ++ r.2.2.data = (rsFlat d l t).2
  size : r.2.1.size = size
  ok : BufOk r.2.1 r.2.2
  after : After r.2.2 s r.2.2.data

theorem readStringLoop_spec (d : UInt8) (fuel : Nat) (acc : Bytes) (b : Buf) (s : Stream) (hb : BufOk b s)
    (hs : s.NoStall) (hsz : 0 < b.size)
    (hf : 2 * wt s.chunks + b.data.length + (if b.err = none then 1 else 0) < fuel) :
    RsOk d acc (b.data ++ s.data) s.term b.size s (readStringLoop d fuel acc b s) := by
  induction fuel generalizing acc b s with
  | zero => omega
  | succ fuel ih =>
    simp only [readStringLoop]
    cases hc : cutAt d b.data with
    | some p =>
      obtain ⟨line, rest⟩ := p
      simp only
      have hcut := cutAt_append_some s.data hc
      have hl := (cutAt_length hc).1
      refine ⟨by simp [rsFlat, hcut], by simp [rsFlat, hcut], rfl, ⟨?_, hb.err⟩, After.refl s⟩
      have := hb.len; simp only; omega
    | none =>
      simp only
      cases he : b.err with
      | some e =>
        simp only
        rcases hb.err with h | h
        · rw [h] at he; cases he
        · rw [h.1] at he
          simp only [Option.some.injEq] at he
          have hd : s.data = [] := h.2
          have hcut : cutAt d (b.data ++ s.data) = none := by rw [hd, List.append_nil]; exact hc
          refine ⟨?_, ?_, rfl, ⟨by simp, Or.inl rfl⟩, After.refl s⟩
          · simp only [rsFlat, hc, hd, List.append_nil, ← he]
          · simp only [rsFlat, hc, hd, List.append_nil]
      | none =>
        simp only
        by_cases hfull : b.size ≤ b.data.length
        · simp only [hfull, if_true]
          have ih' := ih (acc ++ b.data) ⟨b.size, [], none⟩ s ⟨by simp, Or.inl rfl⟩ hs hsz (by
            simp only [he, if_true, List.length_nil] at hf ⊢; omega)
          have hcut := cutAt_append_none s.data hc
          simp only [List.nil_append] at ih'
          refine ⟨?_, ?_, ih'.size, ih'.ok, ih'.after⟩
          · rw [ih'.res]
            simp only [rsFlat, hcut]
            cases cutAt d s.data with
            | none => simp
            | some q => simp
          · rw [ih'.data]
            simp only [rsFlat, hcut]
            cases cutAt d s.data with
            | none => simp
            | some q => simp
        · simp only [hfull, if_false]
          have hfl := fill_spec b s (by omega) hs
          generalize hfd : fill b s = r at hfl
          obtain ⟨b', s'⟩ := r
          simp only at hfl ⊢
          have hb' := hfl.bufOk he
          have ih' := ih acc b' s' hb' (NoStall.after hfl.after hs) (by rw [hfl.size]; exact hsz) (by
            simp only [he, if_true] at hf
            have hw := hfl.wt
            have hm := hfl.mono
            rcases hfl.prog with p | p
            · have hlt := p.2
              rw [he] at p
              simp only [p.1, if_true]; omega
            · simp only [p.1]
              have : (if (some (BErr.term s.term) : Option BErr) = none then 1 else 0) = 0 := by simp
              rw [this]; omega)
          have e1 := hfl.data
          have e2 := hfl.after.term
          have e3 := hfl.size
          rw [e1, e2, e3] at ih'
          exact ⟨ih'.res, ih'.data, ih'.size, ih'.ok, ih'.after.trans hfl.after⟩

theorem readString_spec (d : UInt8) (b : Buf) (s : Stream) (hb : BufOk b s) (hs : s.NoStall) (hsz : 0 < b.size) :
    RsOk d [] (b.data ++ s.data) s.term b.size s (readString d b s) := by
  apply readStringLoop_spec d _ [] b s hb hs hsz
  simp only [rsFuel]
  split <;> omega

/-! ### `WriteTo` -/

theorem bufDrain_spec (sched : Sched) (b : Buf) (s : Stream) (hb : BufOk b s) :
    (bufDrain sched b s).1 = (b.data ++ s.data, .src s.term) ∧
    (bufDrain sched b s).2.1.size = b.size ∧
    (bufDrain sched b s).2.1.data ++ (bufDrain sched b s).2.2.data = [] ∧
    BufOk (bufDrain sched b s).2.1 (bufDrain sched b s).2.2 ∧
    After (bufDrain sched b s).2.2 s (bufDrain sched b s).2.2.data := by
  have hc := copy_spec none sched s
  simp only [bufDrain]
  generalize copy none sched s = r at hc
  obtain ⟨out, e, s'⟩ := r
  simp only [cf] at hc ⊢
  obtain ⟨h1, h2, h3⟩ := hc
  have hd : s'.data = [] := h3.data
  refine ⟨by rw [h1, h2], trivial, by simp [hd], ⟨by simp, ?_⟩, by rw [hd]; exact h3⟩
  rcases hb.err with h | h
  · exact Or.inl h
  · exact Or.inr ⟨by rw [h.1, h3.term], hd⟩

end Relic.Rd

/-
  C17 — relic reads and rewrites ZIP structures exactly as standard readers see them.
  Property theorems about `Relic.Model.Zip` (model of /repo/lib/zipslicer) against `Relic.Spec.Zip`
  (APPNOTE as implemented by archive/zip).  Helper lemmas: Relic/Proofs/ZipCodec.lean.

  The property is FALSE on the unchanged tree in five precisely delimited ways (F7a, F7b, F7c, F7d,
  F7e); each is proved here as a negation with a concrete archive that is replayed on the real code by
  the harness (corpus/C17/witnesses.ops).
-/
import Relic.Proofs.ZipCodec
import Relic.Proofs.ZipAgree
import Relic.Spec.Zip
namespace Relic.Props.C17
open Relic Relic.Zip

/-! ### ZIP64 threshold characterisation (`WriteDirectory`) -/

/-- **zip64_thresholds.** The decision taken by `WriteDirectory`: ZIP64 end records are written iff
    the count, the directory size or the directory offset reach the 16/32-bit sentinels, or the caller
    forces it, or the largest "version needed" among the members (floored at 2.0) is exactly 4.5. -/
theorem zip64_thresholds (count size cdoff minV : Nat) (force : Bool) :
    needZip64 count size cdoff force minV = true ↔
      (count ≥ 0xffff ∨ size ≥ 0xffffffff ∨ cdoff ≥ 0xffffffff ∨ force = true ∨ minV = 45) := by
  simp [needZip64, u16Max, u32Max, or_assoc]

/-- **zip64_records_emitted.** …and that decision is visible in the bytes: the end-of-directory
    output is the 56+20+22-byte ZIP64 form exactly in that case, the bare 22-byte record otherwise. -/
theorem zip64_records_emitted (count size cdoff minV : Nat) (force : Bool) :
    ((endRecords count size cdoff force minV).length = 98 ↔
      (count ≥ 0xffff ∨ size ≥ 0xffffffff ∨ cdoff ≥ 0xffffffff ∨ force = true ∨ minV = 45)) ∧
    ((endRecords count size cdoff force minV).length = 22 ↔
      ¬ (count ≥ 0xffff ∨ size ≥ 0xffffffff ∨ cdoff ≥ 0xffffffff ∨ force = true ∨ minV = 45)) := by
  rw [← zip64_thresholds]
  unfold endRecords
  cases h : needZip64 count size cdoff force minV <;>
    simp [encEnd, encEnd64, encLoc64]

/-- the 4.5 clause is an equality, not a threshold: a member asking for version 6.3 does not switch
    ZIP64 records on, a member asking for exactly 4.5 does (even in a tiny archive). -/
theorem zip64_version_is_equality :
    needZip64 1 50 60 false 63 = false ∧ needZip64 1 50 60 false 45 = true := by decide

/-! ### descriptor width inference (`readDataDesc`) — F7a -/

/-- a data descriptor with signature, sizes on 32 (`wide = false`) or 64 bits -/
def descBytes (wide : Bool) (crc cs us : Nat) : Bytes :=
  leBytes 4 sigDesc ++ (leBytes 4 crc ++
    (if wide then leBytes 8 cs ++ leBytes 8 us else leBytes 4 cs ++ leBytes 4 us))

/-- **desc_width_inference.** `readDataDesc` looks at the first 16 bytes of the descriptor and
    decides "64-bit" iff the directory's uncompressed size is ≥ 0xffffffff or one of the two 32-bit
    words differs from the directory sizes.  For every CRC and all sizes below the 32-bit sentinel the
    decision is the true width **iff** `usize ≠ 0` or the descriptor really is the 16-byte form:
    the 24-byte descriptor of every empty member is misread (whatever its compressed size). -/
theorem desc_width_inference (wide : Bool) (crc cs us : Nat) (hcs : cs < 2 ^ 32) (hus : us < 2 ^ 32 - 1) :
    inferWide cs us ((descBytes wide crc cs us).take 16) = wide ↔ (us ≠ 0 ∨ wide = false) := by
  have l4 : ∀ n, (leBytes 4 n).length = 4 := fun n => leBytes_length 4 n
  have vcs : leVal (leBytes 4 cs) = cs := leVal_leBytes_of_lt 4 cs (by omega)
  have vus : leVal (leBytes 4 us) = us := leVal_leBytes_of_lt 4 us (by omega)
  have mcs : cs % 2 ^ 32 = cs := Nat.mod_eq_of_lt hcs
  have mus : us % 2 ^ 32 = us := Nat.mod_eq_of_lt (by omega)
  cases wide with
  | false =>
    have t : (descBytes false crc cs us).take 16 =
        leBytes 4 sigDesc ++ (leBytes 4 crc ++ (leBytes 4 cs ++ leBytes 4 us)) := by
      apply List.take_of_length_le
      simp [descBytes]
    have f8 : fld (leBytes 4 sigDesc ++ (leBytes 4 crc ++ (leBytes 4 cs ++ leBytes 4 us))) 8 4 = cs := by
      rw [show (8 : Nat) = 4 + 4 from rfl, fld_skip _ _ 4 4 4 (l4 _), show (4 : Nat) = 4 + 0 from rfl,
        fld_skip _ _ 4 0 (4 + 0) (l4 _), fld_head _ _ _ (l4 _), vcs]
    have f12 : fld (leBytes 4 sigDesc ++ (leBytes 4 crc ++ (leBytes 4 cs ++ leBytes 4 us))) 12 4 = us := by
      rw [show (12 : Nat) = 4 + 8 from rfl, fld_skip _ _ 4 8 4 (l4 _), show (8 : Nat) = 4 + 4 from rfl,
        fld_skip _ _ 4 4 4 (l4 _), show (4 : Nat) = 4 + 0 from rfl, fld_skip _ _ 4 0 (4 + 0) (l4 _),
        fld_all _ _ (l4 _), vus]
    rw [t]
    unfold inferWide
    rw [f8, f12, mcs, mus]
    simp [u32Max]
    omega
  | true =>
    have e8 : leBytes 8 cs = leBytes 4 cs ++ leBytes 4 (cs / 256 ^ 4) := leBytes_add 4 4 cs
    have z : cs / 256 ^ 4 = 0 := Nat.div_eq_of_lt (by omega)
    have t : (descBytes true crc cs us).take 16 =
        leBytes 4 sigDesc ++ (leBytes 4 crc ++ (leBytes 4 cs ++ leBytes 4 0)) := by
      have : descBytes true crc cs us =
          (leBytes 4 sigDesc ++ (leBytes 4 crc ++ (leBytes 4 cs ++ leBytes 4 0))) ++ leBytes 8 us := by
        simp [descBytes, e8, z]
      rw [this]
      exact List.take_left' (by simp)
    have f8 : fld (leBytes 4 sigDesc ++ (leBytes 4 crc ++ (leBytes 4 cs ++ leBytes 4 0))) 8 4 = cs := by
      rw [show (8 : Nat) = 4 + 4 from rfl, fld_skip _ _ 4 4 4 (l4 _), show (4 : Nat) = 4 + 0 from rfl,
        fld_skip _ _ 4 0 (4 + 0) (l4 _), fld_head _ _ _ (l4 _), vcs]
    have f12 : fld (leBytes 4 sigDesc ++ (leBytes 4 crc ++ (leBytes 4 cs ++ leBytes 4 0))) 12 4 = 0 := by
      rw [show (12 : Nat) = 4 + 8 from rfl, fld_skip _ _ 4 8 4 (l4 _), show (8 : Nat) = 4 + 4 from rfl,
        fld_skip _ _ 4 4 4 (l4 _), show (4 : Nat) = 4 + 0 from rfl, fld_skip _ _ 4 0 (4 + 0) (l4 _),
        fld_all _ _ (l4 _)]
      exact leVal_leBytes_of_lt 4 0 (by omega)
    rw [t]
    unfold inferWide
    rw [f8, f12, mcs, mus]
    simp [u32Max]
    omega

example : inferWide 7 0 ((descBytes true 0xdeadbeef 7 0).take 16) = false := by decide
example : inferWide 7 3 ((descBytes true 0xdeadbeef 7 3).take 16) = true := by decide

set_option maxRecDepth 1000000

/-! ### witnesses (each is also an op in corpus/C17/witnesses.ops, replayed on the real code) -/

/-- one stored member `a` = "x" -/
def zPlain : Bytes := [80, 75, 3, 4, 20, 0, 0, 0, 0, 0, 0, 0, 0, 0, 131, 22, 220, 140, 1, 0, 0, 0, 1, 0, 0, 0, 1, 0, 0, 0, 97, 120, 80, 75, 1, 2, 20, 0, 20, 0, 0, 0, 0, 0, 0, 0, 0, 0, 131, 22, 220, 140, 1, 0, 0, 0, 1, 0, 0, 0, 1, 0, 0, 0, 0, 0, 0, 0, 0, 0, 0, 0, 0, 0, 0, 0, 0, 0, 97, 80, 75, 5, 6, 0, 0, 0, 0, 1, 0, 1, 0, 47, 0, 0, 0, 32, 0, 0, 0, 0, 0]
/-- the same with the archive comment "hi" -/
def zComment : Bytes := [80, 75, 3, 4, 20, 0, 0, 0, 0, 0, 0, 0, 0, 0, 131, 22, 220, 140, 1, 0, 0, 0, 1, 0, 0, 0, 1, 0, 0, 0, 97, 120, 80, 75, 1, 2, 20, 0, 20, 0, 0, 0, 0, 0, 0, 0, 0, 0, 131, 22, 220, 140, 1, 0, 0, 0, 1, 0, 0, 0, 1, 0, 0, 0, 0, 0, 0, 0, 0, 0, 0, 0, 0, 0, 0, 0, 0, 0, 97, 80, 75, 5, 6, 0, 0, 0, 0, 1, 0, 1, 0, 47, 0, 0, 0, 32, 0, 0, 0, 2, 0, 104, 105]
/-- the empty archive -/
def zEmptyArchive : Bytes := [80, 75, 5, 6, 0, 0, 0, 0, 0, 0, 0, 0, 0, 0, 0, 0, 0, 0, 0, 0, 0, 0]
/-- member `a` = "x" with a 12-byte descriptor (no signature) -/
def zNoSig : Bytes := [80, 75, 3, 4, 20, 0, 8, 0, 0, 0, 0, 0, 0, 0, 0, 0, 0, 0, 0, 0, 0, 0, 0, 0, 0, 0, 1, 0, 0, 0, 97, 120, 131, 22, 220, 140, 1, 0, 0, 0, 1, 0, 0, 0, 80, 75, 1, 2, 20, 0, 20, 0, 8, 0, 0, 0, 0, 0, 0, 0, 131, 22, 220, 140, 1, 0, 0, 0, 1, 0, 0, 0, 1, 0, 0, 0, 0, 0, 0, 0, 0, 0, 0, 0, 0, 0, 0, 0, 0, 0, 97, 80, 75, 5, 6, 0, 0, 0, 0, 1, 0, 1, 0, 47, 0, 0, 0, 44, 0, 0, 0, 0, 0]
/-- empty member `a` with a 24-byte descriptor (what `Mangler.NewFile("a", nil)` writes), then `b` = "x" -/
def zEmpty24 : Bytes := [80, 75, 3, 4, 45, 0, 8, 0, 0, 0, 0, 0, 0, 0, 0, 0, 0, 0, 0, 0, 0, 0, 0, 0, 0, 0, 1, 0, 0, 0, 97, 80, 75, 7, 8, 0, 0, 0, 0, 0, 0, 0, 0, 0, 0, 0, 0, 0, 0, 0, 0, 0, 0, 0, 0, 80, 75, 3, 4, 20, 0, 0, 0, 0, 0, 0, 0, 0, 0, 131, 22, 220, 140, 1, 0, 0, 0, 1, 0, 0, 0, 1, 0, 0, 0, 98, 120, 80, 75, 1, 2, 20, 0, 45, 0, 8, 0, 0, 0, 0, 0, 0, 0, 0, 0, 0, 0, 0, 0, 0, 0, 0, 0, 0, 0, 1, 0, 0, 0, 0, 0, 0, 0, 0, 0, 0, 0, 0, 0, 0, 0, 0, 0, 97, 80, 75, 1, 2, 20, 0, 20, 0, 0, 0, 0, 0, 0, 0, 0, 0, 131, 22, 220, 140, 1, 0, 0, 0, 1, 0, 0, 0, 1, 0, 0, 0, 0, 0, 0, 0, 0, 0, 0, 0, 0, 0, 55, 0, 0, 0, 98, 80, 75, 5, 6, 0, 0, 0, 0, 2, 0, 2, 0, 94, 0, 0, 0, 87, 0, 0, 0, 0, 0]
/-- member `a` = "x" with a 24-byte descriptor, then `b` = "x" -/
def zOne24 : Bytes := [80, 75, 3, 4, 45, 0, 8, 0, 0, 0, 0, 0, 0, 0, 0, 0, 0, 0, 0, 0, 0, 0, 0, 0, 0, 0, 1, 0, 0, 0, 97, 120, 80, 75, 7, 8, 131, 22, 220, 140, 1, 0, 0, 0, 0, 0, 0, 0, 1, 0, 0, 0, 0, 0, 0, 0, 80, 75, 3, 4, 20, 0, 0, 0, 0, 0, 0, 0, 0, 0, 131, 22, 220, 140, 1, 0, 0, 0, 1, 0, 0, 0, 1, 0, 0, 0, 98, 120, 80, 75, 1, 2, 20, 0, 45, 0, 8, 0, 0, 0, 0, 0, 0, 0, 131, 22, 220, 140, 1, 0, 0, 0, 1, 0, 0, 0, 1, 0, 0, 0, 0, 0, 0, 0, 0, 0, 0, 0, 0, 0, 0, 0, 0, 0, 97, 80, 75, 1, 2, 20, 0, 20, 0, 0, 0, 0, 0, 0, 0, 0, 0, 131, 22, 220, 140, 1, 0, 0, 0, 1, 0, 0, 0, 1, 0, 0, 0, 0, 0, 0, 0, 0, 0, 0, 0, 0, 0, 56, 0, 0, 0, 98, 80, 75, 5, 6, 0, 0, 0, 0, 2, 0, 2, 0, 94, 0, 0, 0, 88, 0, 0, 0, 0, 0]
/-- member `a` = "x" whose central header offset is 0xffffffff with an 8-byte ZIP64 extra holding only the offset -/
def zPartial : Bytes := [80, 75, 3, 4, 20, 0, 0, 0, 0, 0, 0, 0, 0, 0, 131, 22, 220, 140, 1, 0, 0, 0, 1, 0, 0, 0, 1, 0, 0, 0, 97, 120, 80, 75, 1, 2, 20, 0, 45, 0, 0, 0, 0, 0, 0, 0, 0, 0, 131, 22, 220, 140, 1, 0, 0, 0, 1, 0, 0, 0, 1, 0, 12, 0, 0, 0, 0, 0, 0, 0, 0, 0, 0, 0, 255, 255, 255, 255, 97, 1, 0, 8, 0, 0, 0, 0, 0, 0, 0, 0, 0, 80, 75, 5, 6, 0, 0, 0, 0, 1, 0, 1, 0, 59, 0, 0, 0, 32, 0, 0, 0, 0, 0]

/-- member `a` = "x" with a 16-byte descriptor followed by one stray byte before the directory -/
def zGap : Bytes := [80, 75, 3, 4, 20, 0, 8, 0, 0, 0, 0, 0, 0, 0, 0, 0, 0, 0, 0, 0, 0, 0, 0, 0, 0, 0, 1, 0, 0, 0, 97, 120, 80, 75, 7, 8, 131, 22, 220, 140, 1, 0, 0, 0, 1, 0, 0, 0, 0, 80, 75, 1, 2, 20, 0, 20, 0, 8, 0, 0, 0, 0, 0, 0, 0, 131, 22, 220, 140, 1, 0, 0, 0, 1, 0, 0, 0, 1, 0, 0, 0, 0, 0, 0, 0, 0, 0, 0, 0, 0, 0, 0, 0, 0, 0, 97, 80, 75, 5, 6, 0, 0, 0, 0, 1, 0, 1, 0, 47, 0, 0, 0, 49, 0, 0, 0, 0, 0]
/-- deflated member `a` whose uncompressed size is exactly 0xffffffff (ZIP64 extra), 16-byte descriptor -/
def zMax16 : Bytes := [80, 75, 3, 4, 20, 0, 8, 0, 8, 0, 0, 0, 0, 0, 0, 0, 0, 0, 0, 0, 0, 0, 0, 0, 0, 0, 1, 0, 0, 0, 97, 120, 80, 75, 7, 8, 131, 22, 220, 140, 1, 0, 0, 0, 255, 255, 255, 255, 80, 75, 1, 2, 20, 0, 45, 0, 8, 0, 8, 0, 0, 0, 0, 0, 131, 22, 220, 140, 1, 0, 0, 0, 255, 255, 255, 255, 1, 0, 12, 0, 0, 0, 0, 0, 0, 0, 0, 0, 0, 0, 0, 0, 0, 0, 97, 1, 0, 8, 0, 255, 255, 255, 255, 0, 0, 0, 0, 80, 75, 5, 6, 0, 0, 0, 0, 1, 0, 1, 0, 59, 0, 0, 0, 48, 0, 0, 0, 0, 0]

def rd (z : Bytes) : Rd := ⟨z, false, 0⟩

/-- "the result is `ok a` and `p a`" as a Boolean, so that closed instances are decided by evaluation -/
def okAnd {α} (r : Res α) (p : α → Bool) : Bool := match r with | .ok a => p a | _ => false
def someAnd {α} (o : Option α) (p : α → Bool) : Bool := match o with | some a => p a | none => false

theorem okAnd_elim {α} {r : Res α} {p : α → Bool} (h : okAnd r p = true) : ∃ a, r = .ok a ∧ p a = true := by
  cases r <;> simp_all [okAnd]
theorem someAnd_elim {α} {o : Option α} {p : α → Bool} (h : someAnd o p = true) : ∃ a, o = some a ∧ p a = true := by
  cases o <;> simp_all [someAnd]

/-- one row of the member table both sides are compared on -/
structure Row where
  name : Bytes
  method : Nat
  flags : Nat
  crc : Nat
  csize : Nat
  usize : Nat
  hoff : Nat
  extra : Bytes
  comment : Bytes
  deriving DecidableEq, Repr

def modelTable (d : Directory) : List Row :=
  d.files.map fun f => ⟨f.name, f.method, f.flags, f.crc, f.csize, f.usize, f.offset, f.extra, f.comment⟩

def specTable (a : SpecZip.Archive) : List Row :=
  a.members.map fun m => ⟨m.entry.name, m.entry.method, m.entry.flags, m.entry.crc, m.entry.csize, m.entry.usize,
    m.entry.hoff, m.entry.extra, m.entry.comment⟩

/-- per member: data offset and the extent relic assigns (`GetTotalSize`) -/
def modelExtents (z : Bytes) (d : Directory) : List (Option (Nat × Nat)) :=
  d.files.map fun f => match getTotalSize (rd z) f with
    | .ok (m, _) => some (m.dataOff, m.total)
    | _ => none

/-- per member: data offset and the extent under the contiguous reading of the specification -/
def specExtents (a : SpecZip.Archive) : List (Option (Nat × Nat)) :=
  a.members.map fun m =>
    match m.descWidths, SpecZip.trueWidth a m with
    | [], _ => some (m.dataOff, m.dataOff + m.entry.csize - m.entry.hoff)
    | _, some w => some (m.dataOff, m.dataOff + m.entry.csize + w - m.entry.hoff)
    | _, none => none

/-- the property for one archive: relic reads it, and sees the members the specification sees, at the
    same places -/
def ReadsAsSpec (z : Bytes) : Prop :=
  ∃ a d, SpecZip.parse z = some a ∧ read (rd z) = .ok d ∧ modelTable d = specTable a ∧
    modelExtents z d = specExtents a

/-- the full statement of the read half of C17 (FALSE on the unchanged tree) -/
def read_agrees_spec_full : Prop := ∀ z, SpecZip.valid z → ReadsAsSpec z

/-- the clauses under which the read half was first claimed (F7c, F7d, F7e, F7a).  They are NOT
    sufficient: `readable_v1_insufficient` below. -/
def relicReadableV1 (z : Bytes) : Prop :=
  ∃ a, SpecZip.parse z = some a ∧ SpecZip.noComment a z = true ∧ SpecZip.descSigned a = true ∧
    SpecZip.zip64Fixed a = true ∧
    (a.members.all fun m => !(m.entry.usize == 0 && SpecZip.trueWidth a m == some 24)) = true

/-- the clauses under which it is claimed and proved: no comment and ≥ 42 bytes (F7c), signed descriptors
    (F7d), fixed-layout ZIP64 markers (F7e), for every member with a descriptor the width inference of
    `readDataDesc` is right (`widthOK`: the descriptor ends where the next structure starts; a 16-byte
    descriptor does not meet the size 0xffffffff; a 24-byte one has `usize ≥ 0xffffffff` or the high word
    of `csize` different from `usize` — F7a is the instance `csize < 2^32`, `usize = 0`), and the file
    size is an `int64` (the model's domain).  All decidable. -/
def relicReadable (z : Bytes) : Prop :=
  ∃ a, SpecZip.parse z = some a ∧ SpecZip.noComment a z = true ∧ SpecZip.descSigned a = true ∧
    SpecZip.zip64Fixed a = true ∧ (a.members.all (widthOK a)) = true ∧ z.length < 2 ^ 63

/-! ### agreement of the two central-directory parsers (Relic/Proofs/ZipAgree.lean) -/

/-- **central_entry_agreement.** Where the specification reads a central record at `at_` whose ZIP64
    markers obey the fixed-layout clause (F7e), zipslicer's per-entry step on the same bytes yields the same
    fields (creator, reader, flags, method, time, date, CRC, both sizes and the header offset with the ZIP64
    values resolved, name, extra, comment, attributes, the raw record) and the same next position. -/
theorem central_entry_agreement (z : Bytes) (at_ lim : Nat) (en : SpecZip.Entry)
    (h : SpecZip.entryAt z at_ lim = some en) (hf : fixedNeed en.need = true) :
    readEntry (z.drop at_) = .ok (fileOf z at_ en, z.drop (at_ + en.len)) :=
  readEntry_of_entryAt h hf

/-- **central_entry_spec_then_model.** Without the layout clause: a record the specification reads is
    never a panic for zipslicer; it is read up to the same position, or refused as "missingzip64". -/
theorem central_entry_spec_then_model (z : Bytes) (at_ lim : Nat) (en : SpecZip.Entry)
    (h : SpecZip.entryAt z at_ lim = some en) :
    (∃ f, readEntry (z.drop at_) = .ok (f, z.drop (at_ + en.len))) ∨
    readEntry (z.drop at_) = .err "missingzip64" := by
  obtain ⟨h1, h2, _, h4, r, _, rfl⟩ := entryAt_some h
  have e : at_ + (specEntry z at_ r).len =
      at_ + 46 + fld (z.drop at_) 28 2 + fld (z.drop at_) 30 2 + fld (z.drop at_) 32 2 := by
    simp only [specEntry]; omega
  rw [readEntry_eq z at_ (by omega), e]
  simp only
  split
  · exact Or.inr rfl
  · exact Or.inl ⟨_, rfl⟩

/-- **central_entry_model_then_spec.** The converse: a record zipslicer reads (central signature present,
    record inside `[at_, lim)`) is read by the specification as well, with the same fields under the layout
    clause — except when only the uncompressed size carries the 0xffffffff marker and there is no ZIP64
    field with an 8-byte payload: zipslicer then keeps 0xffffffff as the size, the specification refuses. -/
theorem central_entry_model_then_spec (z : Bytes) (at_ lim : Nat) (f : File) (rest : Bytes)
    (hr : readEntry (z.drop at_) = .ok (f, rest)) (hs : SpecZip.hasSig z at_ 0x50 0x4b 0x01 0x02 = true)
    (hb : at_ + 46 + fld (z.drop at_) 28 2 + fld (z.drop at_) 30 2 + fld (z.drop at_) 32 2 ≤ lim)
    (hz : lim ≤ z.length) :
    (∃ en, SpecZip.entryAt z at_ lim = some en ∧ rest = z.drop (at_ + en.len) ∧
      (fixedNeed en.need = true → f = fileOf z at_ en)) ∨
    (SpecZip.entryAt z at_ lim = none ∧ fld (z.drop at_) 24 4 = 0xffffffff ∧ fld (z.drop at_) 20 4 ≠ 0xffffffff ∧
      fld (z.drop at_) 42 4 ≠ 0xffffffff ∧ f.usize = 0xffffffff ∧
      ∀ p, SpecZip.zip64Field (fld (z.drop at_) 30 2)
          ((z.drop (at_ + 46 + fld (z.drop at_) 28 2)).take (fld (z.drop at_) 30 2)) = some p → p.length < 8) :=
  entryAt_of_readEntry hr hs hb hz

/-- a central record whose compressed size alone is marked, with a 16-byte ZIP64 payload (7, 9) -/
def cdSwap : Bytes := [80, 75, 1, 2, 20, 0, 45, 0, 0, 0, 0, 0, 0, 0, 0, 0, 0, 0, 0, 0, 255, 255, 255, 255, 5, 0, 0, 0, 1, 0, 20, 0, 0, 0, 0, 0, 0, 0, 0, 0, 0, 0, 0, 0, 0, 0, 97, 1, 0, 16, 0, 7, 0, 0, 0, 0, 0, 0, 0, 9, 0, 0, 0, 0, 0, 0, 0]

/-- **f7e_fixed_positions_misread.** The layout clause is necessary for *agreement*, not only for
    acceptance: on `cdSwap` both parsers succeed and differ (the specification reads the compressed size 7
    in order, zipslicer reads 9 at the fixed position 8); on `zPartial` (`f7e_partial_zip64_refused`)
    zipslicer refuses. -/
theorem f7e_fixed_positions_misread :
    someAnd (SpecZip.entryAt cdSwap 0 67) (fun en => decide (en.csize = 7) && !fixedNeed en.need) = true ∧
    okAnd (readEntry cdSwap) (fun p => decide (p.1.csize = 9) && decide (p.2 = [])) = true := by decide

/-- **central_directory_agreement.** Lifted to the directory: where the specification reads `count`
    records filling `[at_, lim)`, all obeying the layout clause, and `lim` does not start another central
    record, zipslicer's loop (any fuel above `count`) returns the same records in order and stops at `lim`. -/
theorem central_directory_agreement (z : Bytes) (count at_ lim fuel : Nat) (es : List SpecZip.Entry)
    (hl : lim + 4 ≤ z.length) (hs : fld (z.drop lim) 0 4 ≠ sigDir)
    (h : SpecZip.entries z count at_ lim = some es) (hf : (es.all fun e => fixedNeed e.need) = true)
    (hfuel : count < fuel) :
    readEntries fuel (z.drop at_) = .ok (filesOf z at_ es, z.drop lim) :=
  readEntries_of_entries hl hs count at_ es fuel h hf hfuel

/-- **find_directory_agrees.** On an archive without comment, at least 42 bytes long (and addressable by
    an `int64`), the fixed 42-byte tail window of `FindDirectory` finds the directory offset the
    specification's end-record search (including the ZIP64 locator rule) finds. -/
theorem find_directory_agrees (z : Bytes) (en : SpecZip.Ends) (h : SpecZip.ends z = some en)
    (hc : en.comment = []) (h42 : 42 ≤ z.length) (h63 : z.length < 2 ^ 63) :
    findDirectory (rd z) = .ok en.cdOff :=
  findDirectory_of_ends h hc h42 h63

/-- the `int64` clause is necessary in the model: beyond it `ReadAt` gets a negative offset -/
theorem read_beyond_int64_refused (z : Bytes) (h : 2 ^ 63 + 42 ≤ z.length) : read (rd z) = .err "io" := by
  have hf : findDirectory (rd z) = .err "io" := by
    unfold findDirectory rd
    simp only
    rw [if_neg (by omega)]
    unfold Rd.readAt
    rw [if_pos (by omega)]
  unfold Zip.read
  rw [hf]

theorem filesOf_rows (z : Bytes) : ∀ (es : List SpecZip.Entry) (at_ : Nat),
    (filesOf z at_ es).map (fun f => (⟨f.name, f.method, f.flags, f.crc, f.csize, f.usize, f.offset, f.extra, f.comment⟩ : Row)) =
    es.map (fun e => (⟨e.name, e.method, e.flags, e.crc, e.csize, e.usize, e.hoff, e.extra, e.comment⟩ : Row)) := by
  intro es
  induction es with
  | nil => intro _; rfl
  | cons e es ih => intro at_; simp [filesOf, fileOf, ih]

/-- **read_agrees_spec_partial** (the central-directory view of `read_agrees_spec_readable`).  For every
    valid archive under `relicReadable`: `Read` succeeds, finds the directory where the specification
    finds it, and its member table (name, method, flags, CRC, sizes and header offset with ZIP64 values
    resolved, extra, comment — directory order) is the specification's.  (The extents are added by
    `read_agrees_spec_readable`; this view does not use the descriptor clauses.) -/
theorem read_agrees_spec_partial (z : Bytes) (_hv : SpecZip.valid z) (hr : relicReadable z) :
    ∃ a d, SpecZip.parse z = some a ∧ read (rd z) = .ok d ∧ modelTable d = specTable a ∧
      d.dirLoc = a.ends.cdOff ∧ d.size = z.length := by
  obtain ⟨a, ha, hnc, _, hfix, _, h63⟩ := hr
  simp only [SpecZip.noComment, Bool.and_eq_true, List.isEmpty_iff, decide_eq_true_eq] at hnc
  have hfix' : (a.members.all fun m => fixedNeed m.entry.need) = true := by
    simpa [SpecZip.zip64Fixed, fixedNeed] using hfix
  obtain ⟨d, hd, hfiles, hloc, hsize⟩ := read_of_parse ha hnc.1 hnc.2 h63 hfix'
  refine ⟨a, d, ha, hd, ?_, hloc, hsize⟩
  unfold modelTable specTable
  rw [hfiles, filesOf_rows, List.map_map]
  rfl

theorem modelExtents_eq (z : Bytes) (d : Directory) : modelExtents z d = d.files.map (modelExtent z) := rfl
theorem specExtents_eq (a : SpecZip.Archive) : specExtents a = a.members.map (specExtent a) := rfl

/-- **member_extents_agree.** The local-header/descriptor half: for an archive the specification parses
    (size an `int64`, descriptors signed, widths inferable), the data offset and total extent
    `GetTotalSize` assigns to each member of the directory are the specification's (contiguous reading). -/
theorem member_extents_agree (z : Bytes) (a : SpecZip.Archive) (at_ : Nat) (h : SpecZip.parse z = some a)
    (h63 : z.length < 2 ^ 63) (hs : SpecZip.descSigned a = true) (hw : (a.members.all (widthOK a)) = true) :
    (filesOf z at_ (a.members.map (·.entry))).map (modelExtent z) = a.members.map (specExtent a) :=
  extents_of_parse h h63 hs hw at_

/-- **read_agrees_spec_readable.** The read half of C17 under `relicReadable`: every valid archive that
    satisfies the clauses is read by relic, with the member table and the member extents the
    specification assigns. -/
theorem read_agrees_spec_readable : ∀ z, SpecZip.valid z → relicReadable z → ReadsAsSpec z := by
  intro z _ hr
  obtain ⟨a, ha, hnc, hsg, hfix, hw, h63⟩ := hr
  simp only [SpecZip.noComment, Bool.and_eq_true, List.isEmpty_iff, decide_eq_true_eq] at hnc
  have hfix' : (a.members.all fun m => fixedNeed m.entry.need) = true := by
    simpa [SpecZip.zip64Fixed, fixedNeed] using hfix
  obtain ⟨d, hd, hfiles, _, _⟩ := read_of_parse ha hnc.1 hnc.2 h63 hfix'
  refine ⟨a, d, ha, hd, ?_, ?_⟩
  · unfold modelTable specTable
    rw [hfiles, filesOf_rows, List.map_map]
    rfl
  · rw [modelExtents_eq, specExtents_eq, hfiles]
    exact extents_of_parse ha h63 hsg hw _

/-- **readable_v1_insufficient.** The clauses first written down do not suffice (so `widthOK` is needed):
    `zGap` (a stray byte after a 16-byte descriptor: the specification cannot tell where the member ends,
    relic says 48 bytes) and `zMax16` (uncompressed size exactly 0xffffffff with a 16-byte descriptor:
    `readDataDesc` takes it for a 24-byte one and fails with "baddesc") are valid, satisfy them, and are
    not read as the specification reads them. -/
theorem readable_v1_insufficient :
    (SpecZip.valid zGap ∧ relicReadableV1 zGap ∧ ¬ ReadsAsSpec zGap) ∧
    (SpecZip.valid zMax16 ∧ relicReadableV1 zMax16 ∧ ¬ ReadsAsSpec zMax16) := by
  have v1 : ∀ z, someAnd (SpecZip.parse z) (fun a => SpecZip.noComment a z && SpecZip.descSigned a &&
      SpecZip.zip64Fixed a && (a.members.all fun m => !(m.entry.usize == 0 && SpecZip.trueWidth a m == some 24))) = true →
      relicReadableV1 z := by
    intro z h
    obtain ⟨a, ha, hr⟩ := someAnd_elim h
    simp only [Bool.and_eq_true] at hr
    exact ⟨a, ha, hr.1.1.1, hr.1.1.2, hr.1.2, hr.2⟩
  have no : ∀ z, okAnd (read (rd z)) (fun d => someAnd (SpecZip.parse z) fun a =>
      !decide (modelExtents z d = specExtents a)) = true → ¬ ReadsAsSpec z := by
    intro z h ⟨a, d, ha, hd, _, he⟩
    obtain ⟨d', hd', hq⟩ := okAnd_elim h
    obtain ⟨a', ha', hn⟩ := someAnd_elim hq
    rw [hd] at hd'; cases hd'
    rw [ha] at ha'; cases ha'
    simp [he] at hn
  exact ⟨⟨by decide, v1 _ (by decide), no _ (by decide)⟩, ⟨by decide, v1 _ (by decide), no _ (by decide)⟩⟩

/-- **f7f_max16_refused.** The member of `zMax16` cannot be located: "baddesc". -/
theorem f7f_max16_refused :
    SpecZip.valid zMax16 ∧
    okAnd (read (rd zMax16)) (fun d => decide (d.files.map (fun f =>
      match getTotalSize (rd zMax16) f with | .err e => e | _ => "-") = ["baddesc"])) = true ∧
    someAnd (SpecZip.parse zMax16) (fun a => decide (specExtents a = [some (31, 48)])) = true := by decide

/-- **width_ok_necessary.** Each conjunct of `widthOK` fails on a witness that relic misreads:
    `zGap` (no located end), `zMax16` (16 bytes with 0xffffffff), `zEmpty24` (24 bytes not recognised, F7a);
    it holds on `zOne24`. -/
theorem width_ok_necessary :
    someAnd (SpecZip.parse zGap) (fun a => !a.members.all (widthOK a)) = true ∧
    someAnd (SpecZip.parse zMax16) (fun a => !a.members.all (widthOK a)) = true ∧
    someAnd (SpecZip.parse zEmpty24) (fun a => !a.members.all (widthOK a)) = true ∧
    someAnd (SpecZip.parse zOne24) (fun a => a.members.all (widthOK a)) = true := by decide

/-- **desc_width_inference_wide.** The 24-byte clause of `widthOK` is exactly the inference: on the first
    16 bytes of a true 24-byte descriptor `readDataDesc` says "64-bit" iff `usize ≥ 0xffffffff` or the high
    word of `csize` differs from `usize` (mod 2^32) — for every CRC and all sizes. -/
theorem desc_width_inference_wide (crc cs us : Nat) :
    inferWide cs us ((descBytes true crc cs us).take 16) = true ↔
      (us ≥ 0xffffffff ∨ cs / 2 ^ 32 % 2 ^ 32 ≠ us % 2 ^ 32) := by
  have l4 : ∀ n, (leBytes 4 n).length = 4 := fun n => leBytes_length 4 n
  have e8 : leBytes 8 cs = leBytes 4 cs ++ leBytes 4 (cs / 256 ^ 4) := leBytes_add 4 4 cs
  have t : (descBytes true crc cs us).take 16 =
      leBytes 4 sigDesc ++ (leBytes 4 crc ++ (leBytes 4 cs ++ leBytes 4 (cs / 256 ^ 4))) := by
    have : descBytes true crc cs us =
        (leBytes 4 sigDesc ++ (leBytes 4 crc ++ (leBytes 4 cs ++ leBytes 4 (cs / 256 ^ 4)))) ++ leBytes 8 us := by
      simp [descBytes, e8]
    rw [this]
    exact List.take_left' (by simp)
  have f8 : fld (leBytes 4 sigDesc ++ (leBytes 4 crc ++ (leBytes 4 cs ++ leBytes 4 (cs / 256 ^ 4)))) 8 4 =
      cs % 256 ^ 4 := by
    rw [show (8 : Nat) = 4 + 4 from rfl, fld_skip _ _ 4 4 4 (l4 _), show (4 : Nat) = 4 + 0 from rfl,
      fld_skip _ _ 4 0 (4 + 0) (l4 _), fld_head _ _ _ (l4 _), leVal_leBytes]
  have f12 : fld (leBytes 4 sigDesc ++ (leBytes 4 crc ++ (leBytes 4 cs ++ leBytes 4 (cs / 256 ^ 4)))) 12 4 =
      cs / 256 ^ 4 % 256 ^ 4 := by
    rw [show (12 : Nat) = 4 + 8 from rfl, fld_skip _ _ 4 8 4 (l4 _), show (8 : Nat) = 4 + 4 from rfl,
      fld_skip _ _ 4 4 4 (l4 _), show (4 : Nat) = 4 + 0 from rfl, fld_skip _ _ 4 0 (4 + 0) (l4 _),
      fld_all _ _ (l4 _), leVal_leBytes]
  rw [t]
  unfold inferWide
  rw [f8, f12]
  simp [u32Max]

/-- **f7c_comment_refused.** A valid archive with a comment is not found. -/
theorem f7c_comment_refused :
    SpecZip.valid zComment ∧ read (rd zComment) = .err "notfound" ∧ ¬ relicReadable zComment := by
  refine ⟨by decide, by decide, ?_⟩
  rintro ⟨a, h, hc, -⟩
  have hh : someAnd (SpecZip.parse zComment) (fun a => !SpecZip.noComment a zComment) = true := by decide
  obtain ⟨a', ha', hn⟩ := someAnd_elim hh
  rw [h] at ha'
  cases ha'
  simp [hc] at hn

/-- **f7c_empty_archive_refused.** The valid empty archive (22 bytes) is an I/O error. -/
theorem f7c_empty_archive_refused :
    SpecZip.valid zEmptyArchive ∧ read (rd zEmptyArchive) = .err "io" := by decide

/-- **f7d_nosig_refused.** A descriptor without the optional signature: the directory is read, the
    member cannot be located (`GetTotalSize`, hence `Open`, `Dump`, `Mangle` fail with "nosig"). -/
theorem f7d_nosig_refused :
    SpecZip.valid zNoSig ∧
    okAnd (read (rd zNoSig)) (fun d => decide (modelExtents zNoSig d = [none]) &&
      decide (d.files.map (fun f => (getTotalSize (rd zNoSig) f).isOk) = [false])) = true ∧
    rewriteKeep zNoSig [] false = .err "nosig" := by decide

/-- **f7e_partial_zip64_refused.** A ZIP64 extra holding only the needed field (APPNOTE 4.5.3). -/
theorem f7e_partial_zip64_refused :
    SpecZip.valid zPartial ∧ read (rd zPartial) = .err "missingzip64" := by decide

/-- **f7a_empty24_misread.** The empty member with a 24-byte descriptor: the member table agrees
    with the specification, but relic's extent is 47 bytes where the member occupies 55 (the next local
    header is at 55); the non-empty twin is measured correctly. -/
theorem f7a_empty24_misread :
    SpecZip.valid zEmpty24 ∧
    okAnd (read (rd zEmpty24)) (fun d => someAnd (SpecZip.parse zEmpty24) fun a =>
      decide (modelTable d = specTable a) && decide (modelExtents zEmpty24 d = [some (31, 47), some (86, 32)]) &&
      decide (specExtents a = [some (31, 55), some (86, 32)])) = true ∧
    okAnd (read (rd zOne24)) (fun d => someAnd (SpecZip.parse zOne24) fun a =>
      decide (modelExtents zOne24 d = specExtents a) &&
      decide (modelExtents zOne24 d = [some (31, 56), some (87, 32)])) = true := by decide

/-- **not_read_agrees_spec_full.** -/
theorem not_read_agrees_spec_full : ¬ read_agrees_spec_full := by
  intro h
  obtain ⟨a, d, -, hr, -⟩ := h zComment (by decide)
  have : read (rd zComment) = .err "notfound" := by decide
  rw [this] at hr
  cases hr

/-! ### rewriting — the write half -/

/-- members laid out back to back from offset 0 up to the central directory, in directory order
    (descriptor widths under the contiguous reading) — the layout `AddFile` assumes -/
def contigFrom (a : SpecZip.Archive) : Nat → List SpecZip.Member → Bool
  | pos, [] => pos == a.ends.cdOff
  | pos, m :: ms =>
    m.entry.hoff == pos &&
    match m.descWidths with
    | [] => contigFrom a (m.dataOff + m.entry.csize) ms
    | _ => match SpecZip.trueWidth a m with
      | some w => contigFrom a (m.dataOff + m.entry.csize + w) ms
      | none => false

/-- the full statement for `Mangle`+`MakePatch` without additions (FALSE on the unchanged tree) -/
def write_read_roundtrip_full : Prop :=
  ∀ z a mask force out, SpecZip.parse z = some a → contigFrom a 0 a.members = true →
    rewriteKeep z mask force = .ok out → SpecZip.valid out

/-! the same under `relicReadable` (which excludes the empty member with a 24-byte descriptor) is the theorem
    `write_read_roundtrip_readable` of Props/C17_Write.lean (full strength for the code with fix-F7g; for the code before
    that fix it needed one more clause: `extraRoom_necessary_orig`). -/

/-- **rewrite_after_empty24_breaks (F7a, the consequence).** `zEmpty24` is valid, contiguous, and
    its member table is read correctly; rewriting it with nothing deleted puts the directory 8 bytes
    before where the end records say (and, the member asking for version 4.5, ZIP64 records are written
    whose locator is 8 short as well): the result is not a valid ZIP and relic itself no longer finds
    the directory.  This is the second VSIX/AppX signing. -/
theorem rewrite_after_empty24_breaks :
    someAnd (SpecZip.parse zEmpty24) (fun a => contigFrom a 0 a.members) = true ∧
    okAnd (rewriteKeep zEmpty24 [] false) (fun out => !decide (SpecZip.valid out) &&
      decide (read (rd out) = .err "notfound")) = true := by decide

/-- **not_write_read_roundtrip_full.** -/
theorem not_write_read_roundtrip_full : ¬ write_read_roundtrip_full := by
  intro h
  obtain ⟨out, ho, hp⟩ := okAnd_elim rewrite_after_empty24_breaks.2
  obtain ⟨a, ha, hc⟩ := someAnd_elim rewrite_after_empty24_breaks.1
  have hv := h zEmpty24 a [] false out ha hc ho
  simp [hv] at hp

/-- **rewrite_plain_roundtrip.** Non-vacuity of the write half: the plain archive and the non-empty
    24-byte-descriptor archive are rewritten (raw re-emission, re-synthesis after a deletion, forced
    ZIP64 records) to valid archives with the expected member tables. -/
theorem rewrite_plain_roundtrip :
    okAnd (rewriteKeep zPlain [] false) (fun out => decide (SpecZip.valid out) &&
      decide ((SpecZip.parse out).map specTable = (SpecZip.parse zPlain).map specTable)) = true ∧
    okAnd (rewriteKeep zOne24 [] true) (fun out => decide (SpecZip.valid out) &&
      decide ((SpecZip.parse out).map specTable = (SpecZip.parse zOne24).map specTable)) = true ∧
    okAnd (rewriteKeep zOne24 [true] false) (fun out => decide (SpecZip.valid out) &&
      decide ((SpecZip.parse out).map (fun a => (specTable a).map (·.name)) = some [[98]])) = true := by decide

/-! ### `GetOriginalDirectory` — F7b -/

/-- the full statement: an unmodified directory is re-emitted byte for byte (FALSE) -/
def reemit_unmodified_full : Prop :=
  ∀ z d, SpecZip.valid z → read (rd z) = .ok d →
    ∃ cd eod, getOriginalDirectory d = .ok (cd, eod) ∧ cd ++ eod = z.drop d.dirLoc

/-- **getOriginalDirectory_always_panics.** Whatever was read. -/
theorem getOriginalDirectory_always_panics (d : Directory) :
    getOriginalDirectory d = .err "newzip" ∨ getOriginalDirectory d = .panic "nil-writer" := by
  unfold getOriginalDirectory; split <;> simp

/-- **not_reemit_unmodified_full.** -/
theorem not_reemit_unmodified_full : ¬ reemit_unmodified_full := by
  intro h
  have hr : okAnd (read (rd zPlain)) (fun _ => true) = true := by decide
  obtain ⟨d, hd, -⟩ := okAnd_elim hr
  obtain ⟨cd, eod, hg, -⟩ := h zPlain d (by decide) hd
  rcases getOriginalDirectory_always_panics d with e | e <;> rw [e] at hg <;> cases hg

/-- **reemit_spec_reproduces.** What the function is documented to do (`originalDirectorySpec`,
    the behaviour of fix-F7b.patch) does reproduce the original tail, ZIP64 or not. -/
theorem reemit_spec_reproduces :
    okAnd (read (rd zPlain)) (fun d => okAnd (originalDirectorySpec d) fun p =>
      decide (p.1 ++ p.2 = zPlain.drop d.dirLoc)) = true ∧
    okAnd (rewriteKeep zOne24 [] true) (fun z => okAnd (read (rd z)) fun d =>
      okAnd (originalDirectorySpec d) fun p => decide (p.1 ++ p.2 = z.drop d.dirLoc) && decide (p.2.length = 98)) = true := by
  decide

/-! ### non-vacuity -/

example : ReadsAsSpec zPlain := by
  have h : okAnd (read (rd zPlain)) (fun d => someAnd (SpecZip.parse zPlain) fun a =>
      decide (modelTable d = specTable a) && decide (modelExtents zPlain d = specExtents a)) = true := by decide
  obtain ⟨d, hd, hq⟩ := okAnd_elim h
  obtain ⟨a, ha, hr⟩ := someAnd_elim hq
  simp only [Bool.and_eq_true, decide_eq_true_eq] at hr
  exact ⟨a, d, ha, hd, hr.1, hr.2⟩
example : relicReadable zOne24 := by
  have h : someAnd (SpecZip.parse zOne24) (fun a => SpecZip.noComment a zOne24 && SpecZip.descSigned a &&
      SpecZip.zip64Fixed a && a.members.all (widthOK a)) = true := by
    decide
  obtain ⟨a, ha, hr⟩ := someAnd_elim h
  simp only [Bool.and_eq_true] at hr
  exact ⟨a, ha, hr.1.1.1, hr.1.1.2, hr.1.2, hr.2, by decide⟩
example : needZip64 0xffff 0 0 false 20 = true ∧ needZip64 0xfffe 0xfffffffe 0xfffffffe false 20 = false := by decide

end Relic.Props.C17

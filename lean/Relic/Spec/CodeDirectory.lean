/-
  Relic.Spec.CodeDirectory — Apple's CodeDirectory as a READER following the published layout sees it
  (xnu `osfmk/kern/cs_blobs.h`, `CS_CodeDirectory`; Security `codedirectory.h`).  Written independently of the model:
  the model is a writer (`newCodeDirectory`), the specification is the reader's view plus the page rule.

      0 magic = 0xfade0c02      4 length (of the whole blob)     8 version        12 flags
     16 hashOffset (of slot 0)  20 identOffset                   24 nSpecialSlots 28 nCodeSlots     32 codeLimit
     36 hashSize  37 hashType  38 platform  39 pageSize (log2)   40 spare2
     44 scatterOffset (≥ 0x20100)   48 teamOffset (≥ 0x20200)    52 spare3   56 codeLimit64 (≥ 0x20300)
     64 execSegBase  72 execSegLimit  80 execSegFlags (≥ 0x20400)
  all big-endian.  Slot `i` (−nSpecialSlots ≤ i < nCodeSlots) is the `hashSize` bytes at `hashOffset + i·hashSize`.
  Code slot `i` is the hash of the bytes `[i·2^pageSize, min((i+1)·2^pageSize, codeLimit))` of the image; there are
  `⌈codeLimit / 2^pageSize⌉` of them.  Special slot `−k` is the hash of the k-th special component or all zero.
-/
import Relic.Base.Bytes
namespace Relic.Spec.CodeDirectory
open Relic

def u8 (raw : Bytes) (off : Nat) : Nat := beVal ((raw.drop off).take 1)
def u32 (raw : Bytes) (off : Nat) : Nat := beVal ((raw.drop off).take 4)
def u64 (raw : Bytes) (off : Nat) : Nat := beVal ((raw.drop off).take 8)

/-- the NUL-terminated string at `off` -/
def cstr (raw : Bytes) (off : Nat) : Option Bytes :=
  if (raw.drop off).contains 0 then some ((raw.drop off).takeWhile (· ≠ 0)) else none

def slot (raw : Bytes) (pos hashSize : Nat) : Bytes := (raw.drop pos).take hashSize

/-- page `i` of the first `limit` bytes of `img` for pages of `2^shift` bytes -/
def page (img : Bytes) (limit shift i : Nat) : Bytes :=
  ((img.take limit).drop (i * 2 ^ shift)).take (2 ^ shift)

def nCodeSlots (limit shift : Nat) : Nat := (limit + 2 ^ shift - 1) / 2 ^ shift

/-- the code slots the specification prescribes -/
def codeSlots (H : Bytes → Bytes) (img : Bytes) (limit shift : Nat) : List Bytes :=
  (List.range (nCodeSlots limit shift)).map (fun i => H (page img limit shift i))

/-- what a code directory says, independent of where the writer put the variable parts -/
structure Content where
  version : Nat
  flags : Nat
  nSpecial : Nat
  nCode : Nat
  codeLimit : Nat          -- the 32-bit field
  codeLimit64 : Nat
  hashSize : Nat
  hashType : Nat
  pageShift : Nat
  ident : Bytes
  team : Bytes             -- empty: no team identifier (teamOffset = 0)
  execBase : Nat
  execLimit : Nat
  execFlags : Nat
  code : Nat → Bytes       -- slot i, 0 ≤ i < nCode
  special : Nat → Bytes    -- slot −k, 1 ≤ k ≤ nSpecial

/-- `raw` is a well-formed CodeDirectory blob saying `c` -/
structure Describes (raw : Bytes) (c : Content) : Prop where
  magic : u32 raw 0 = 0xfade0c02
  length : u32 raw 4 = raw.length
  version : u32 raw 8 = c.version
  flags : u32 raw 12 = c.flags
  nSpecial : u32 raw 24 = c.nSpecial
  nCode : u32 raw 28 = c.nCode
  codeLimit : u32 raw 32 = c.codeLimit
  hashSize : u8 raw 36 = c.hashSize
  hashType : u8 raw 37 = c.hashType
  platform : u8 raw 38 = 0
  pageSize : u8 raw 39 = c.pageShift
  spare2 : u32 raw 40 = 0
  scatter : u32 raw 44 = 0
  spare3 : u32 raw 52 = 0
  codeLimit64 : u64 raw 56 = c.codeLimit64
  execBase : u64 raw 64 = c.execBase
  execLimit : u64 raw 72 = c.execLimit
  execFlags : u64 raw 80 = c.execFlags
  ident : cstr raw (u32 raw 20) = some c.ident
  team : if c.team = [] then u32 raw 48 = 0 else cstr raw (u32 raw 48) = some c.team
  slotsInside : c.nSpecial * c.hashSize ≤ u32 raw 16 ∧ u32 raw 16 + c.nCode * c.hashSize ≤ raw.length
  codeSlot : ∀ i, i < c.nCode → slot raw (u32 raw 16 + i * c.hashSize) c.hashSize = c.code i
  specialSlot : ∀ k, 1 ≤ k → k ≤ c.nSpecial → slot raw (u32 raw 16 - k * c.hashSize) c.hashSize = c.special k

end Relic.Spec.CodeDirectory

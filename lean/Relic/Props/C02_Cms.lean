/-
  C02, container layer — what acceptance by relic's PKCS#7 verifier (`Relic.Cms.verifySignedData`, the model of
  `pkcs7.SignedData.Verify`) implies, and the tamper corollaries.  Hashes and signature primitives are parameters;
  collision-freeness appears only as an explicit hypothesis on the two streams in question, and the signature
  clauses are stated without any unforgeability assumption: "acceptance of the modified structure implies that the
  signature value verifies over the *modified* bytes / under the *new* key".
-/
import Relic.Model.Cms
import Relic.Proofs.Der
namespace Relic.Props.C02
open Relic Relic.Der Relic.Cms

/-- the signature value is accepted for this key, digest algorithm, signature algorithm and digest
    (`PkixVerify`, or the hash-0 retry for RSA keys) -/
def SigAccepts (C : Crypto) (pub : C.Pub) (alg : Alg) (sa : SigAlg) (d : Bytes) (sig : C.Sig) : Prop :=
  verifySig C pub alg sa d sig = .ok ()

/-- `SigAccepts` spelled out: which primitive said yes -/
theorem sigAccepts_cases (C : Crypto) (pub : C.Pub) (alg : Alg) (sa : SigAlg) (d : Bytes) (sig : C.Sig)
    (h : SigAccepts C pub alg sa d sig) :
    (sa.hash = none ∨ sa.hash = some alg) ∧
    ((∃ x, sa = .rsa x) ∧ C.kind pub = .rsa ∧ (C.pkcs1 pub (some alg) d sig = true ∨ C.pkcs1 pub none d sig = true) ∨
     sa = .pss (some alg) ∧ C.kind pub = .rsa ∧ (C.pss pub alg d sig = true ∨ C.pkcs1 pub none d sig = true) ∨
     (∃ x, sa = .ecdsa x) ∧ C.kind pub = .ecdsa ∧ C.ecdsa pub d sig = true) := by
  unfold SigAccepts verifySig at h
  split at h
  · cases h
  · rename_i hm
    refine ⟨by
      by_cases h0 : sa.hash = none
      · exact Or.inl h0
      · by_cases h1 : sa.hash = some alg
        · exact Or.inr h1
        · exact absurd ⟨h0, h1⟩ hm, ?_⟩
    cases sa with
    | rsa x =>
      left
      simp only at h
      by_cases hk : C.kind pub = .rsa
      · refine ⟨⟨x, rfl⟩, hk, ?_⟩
        simp only [hk, ne_eq, not_true_eq_false, if_false] at h
        by_cases h1 : C.pkcs1 pub (some alg) d sig = true
        · exact Or.inl h1
        · by_cases h2 : C.pkcs1 pub none d sig = true
          · exact Or.inr h2
          · simp [h1, h2] at h
      · simp [hk] at h
    | pss ph =>
      right; left
      simp only at h
      by_cases hk : C.kind pub = .rsa
      · simp only [hk, ne_eq, not_true_eq_false, if_false] at h
        by_cases hp : ph = some alg
        · subst hp
          refine ⟨rfl, hk, ?_⟩
          simp only [not_true_eq_false, if_false] at h
          by_cases h1 : C.pss pub alg d sig = true
          · exact Or.inl h1
          · by_cases h2 : C.pkcs1 pub none d sig = true
            · exact Or.inr h2
            · simp [h1, h2] at h
        · simp [hp] at h
      · simp [hk] at h
    | ecdsa x =>
      right; right
      simp only at h
      by_cases hk : C.kind pub = .ecdsa
      · refine ⟨⟨x, rfl⟩, hk, ?_⟩
        simp only [hk, ne_eq, not_true_eq_false, if_false] at h
        by_cases h1 : C.ecdsa pub d sig = true
        · exact h1
        · simp [h1] at h
      · simp [hk] at h
    | dsa x => simp at h
    | unknown => simp at h

/-- with a `SigScheme` as the primitive, acceptance is `S.verify pub digest sig` -/
theorem sigAccepts_scheme (S : KeyMatch.SigScheme) (kind : S.Pub → KeyKind) (pub : S.Pub) (alg : Alg) (sa : SigAlg)
    (d : Bytes) (sig : S.Sig) (h : SigAccepts (Crypto.ofScheme S kind) pub alg sa d sig) :
    S.verify pub d sig = true := by
  obtain ⟨_, h | h | h⟩ := sigAccepts_cases _ _ _ _ _ _ h
  · obtain ⟨_, _, h | h⟩ := h <;> exact h
  · obtain ⟨_, _, h | h⟩ := h <;> exact h
  · exact h.2.2

/-- which content was digested: the embedded one if present (then equal to the external one if that is given
    too), else the external one -/
def Effective (emb ext : Option Bytes) (c : Bytes) : Prop :=
  (emb = some c ∧ ∀ e, ext = some e → e = c) ∨ (emb = none ∧ ext = some c)

/-- one signer info passed `SignerInfo.Verify` against `content` (`none`: skipDigests) with the bundled `certs` -/
def SignerVerifyOK {C : Crypto} (H : Alg → Bytes → Bytes) (content : Option Bytes) (certs : List (Cert C))
    (si : SignerInfo C) (cert : Cert C) : Prop :=
  ∃ alg, si.digestAlg = some alg ∧
    findCert certs si.issuer si.serial = some cert ∧
    (∀ a l, si.attrs = some (a :: l) →
      ∃ md, getMessageDigest (a :: l) = .ok md ∧ (∀ c, content = some c → md = H alg c) ∧
        SigAccepts C cert.pub alg si.sigAlg (H alg si.attrsBytes) si.sig) ∧
    (si.attrs.getD [] = [] → ∀ c, content = some c → SigAccepts C cert.pub alg si.sigAlg (H alg c) si.sig)

/-- fix F31: with authenticated attributes present, the (signed) contentType attribute exists, is single-valued and
    names `ct` -/
def CtBound {C : Crypto} (ct : Bytes) (si : SignerInfo C) : Prop :=
  ∀ a l, si.attrs = some (a :: l) → getContentType (a :: l) = .ok ct

/-- one signer info passed one iteration of the loop of `SignedData.Verify`: `SignerInfo.Verify`, then the
    contentType comparison with the eContentType `ct` -/
def SignerOK {C : Crypto} (H : Alg → Bytes → Bytes) (ct : Bytes) (content : Option Bytes) (certs : List (Cert C))
    (si : SignerInfo C) (cert : Cert C) : Prop :=
  SignerVerifyOK H content certs si cert ∧ CtBound ct si

theorem findCert_some {C : Crypto} (certs : List (Cert C)) (issuer serial : Bytes) (cert : Cert C)
    (h : findCert certs issuer serial = some cert) :
    cert ∈ certs ∧ cert.issuer = issuer ∧ cert.serial = serial := by
  unfold findCert at h
  have hm := List.mem_of_find?_eq_some h
  have hp := List.find?_some h
  simp only [Bool.and_eq_true, beq_iff_eq] at hp
  exact ⟨hm, hp.1, hp.2⟩

theorem signer_ok {C : Crypto} (H : Alg → Bytes → Bytes) (content : Bytes) (skip : Bool) (certs : List (Cert C))
    (si : SignerInfo C) (cert : Cert C) (h : verifySignerInfo H content skip certs si = .ok cert) :
    SignerVerifyOK H (if skip then none else some content) certs si cert := by
  unfold verifySignerInfo at h
  split at h
  · cases h
  · rename_i alg halg
    refine ⟨alg, halg, ?_⟩
    split at h
    · rename_i dg hmd
      split at h
      · cases h
      · rename_i c hf
        have hc : c = cert ∧ (∀ d, dg = some d → SigAccepts C c.pub alg si.sigAlg d si.sig) := by
          split at h
          · exact ⟨by injection h, by intro d hd; cases hd⟩
          · rename_i d
            split at h
            · rename_i hv
              refine ⟨by injection h, ?_⟩
              intro d' hd'; injection hd' with hd'; subst hd'
              unfold SigAccepts
              rw [hv]
            all_goals cases h
        obtain ⟨rfl, hs⟩ := hc
        refine ⟨hf, ?_, ?_⟩
        · intro a l hal
          unfold mdStage at hmd
          simp only [hal, Option.getD_some] at hmd
          split at hmd
          · rename_i md hg
            split at hmd
            · cases hmd
            · rename_i hne
              injection hmd with hmd
              refine ⟨md, hg, ?_, hs _ hmd.symm⟩
              intro c0 hc0
              cases skip with
              | true => simp at hc0
              | false =>
                simp only [Bool.false_eq_true, if_false, Option.some.injEq] at hc0
                subst hc0
                by_cases hq : md = H alg content
                · exact hq
                · exact absurd ⟨rfl, hq⟩ hne
          all_goals cases hmd
        · intro hnil c0 hc0
          unfold mdStage at hmd
          simp only [hnil] at hmd
          injection hmd with hmd
          cases skip with
          | true => simp at hc0
          | false =>
            simp only [Bool.false_eq_true, if_false, Option.some.injEq] at hc0
            subst hc0
            exact hs _ (by simpa using hmd.symm)
    all_goals cases h

theorem verifyOne_ok {C : Crypto} (H : Alg → Bytes → Bytes) (ct : Option Bytes) (content : Bytes) (skip : Bool)
    (certs : List (Cert C)) (si : SignerInfo C) (cert : Cert C) (h : verifyOne H ct content skip certs si = .ok cert) :
    verifySignerInfo H content skip certs si = .ok cert ∧ ∀ t, ct = some t → CtBound t si := by
  unfold verifyOne at h
  split at h
  · rename_i c hv
    cases ct with
    | none =>
      simp only [Res.ok.injEq] at h
      subst h
      exact ⟨hv, by intro t ht; cases ht⟩
    | some t =>
      simp only at h
      split at h
      · rename_i hcs
        simp only [Res.ok.injEq] at h
        subst h
        refine ⟨hv, ?_⟩
        intro t' ht'
        injection ht' with ht'
        subst ht'
        intro a l hal
        unfold ctypeStage at hcs
        simp only [hal, Option.getD_some] at hcs
        split at hcs
        · rename_i o ho
          split at hcs
          · rename_i heq
            rw [ho, heq]
          · cases hcs
        all_goals cases hcs
      all_goals cases h
  all_goals cases h

theorem verifyAll_ok {C : Crypto} (H : Alg → Bytes → Bytes) (ct : Option Bytes) (content : Bytes) (skip : Bool)
    (certs : List (Cert C))
    (bad : Bool) (l : List (SignerInfo C)) (last : Option (Cert C × SignerInfo C)) (p : Cert C × SignerInfo C)
    (h : verifyAll H ct content skip certs bad l last = .ok p) :
    (∀ si ∈ l, ∃ cert, verifyOne H ct content skip certs si = .ok cert) ∧
    (l = [] → last = some p) ∧
    (l ≠ [] → l.getLast? = some p.2 ∧ verifyOne H ct content skip certs p.2 = .ok p.1) := by
  induction l generalizing last with
  | nil =>
    cases last with
    | none => simp [verifyAll] at h
    | some q =>
      simp only [verifyAll, Res.ok.injEq] at h
      subst h
      simp
  | cons si rest ih =>
    simp only [verifyAll] at h
    split at h
    · rename_i cert hv
      obtain ⟨h1, h2, h3⟩ := ih _ h
      refine ⟨?_, by simp, ?_⟩
      · intro s hs
        rcases List.mem_cons.mp hs with rfl | hs
        · exact ⟨cert, hv⟩
        · exact h1 s hs
      · intro _
        cases rest with
        | nil =>
          have := h2 rfl
          injection this with this
          subst this
          exact ⟨by simp, hv⟩
        | cons r rs =>
          obtain ⟨h4, h5⟩ := h3 (by simp)
          exact ⟨by simpa [List.getLast?_cons_cons] using h4, h5⟩
    all_goals cases h

/-- **cms_accept_implies.**  If `SignedData.Verify(ext, skip)` reports success with certificate `cert` and signer
    info `si`, then: `si` is the last signer info of the structure; *every* signer info passed `SignerInfo.Verify`
    (its certificate was found among the bundled ones by issuer and serial; with authenticated attributes the
    messageDigest attribute equals the digest of the content – unless `skip` – and the signature value is accepted
    over the digest of the attribute bytes; without attributes the signature value is accepted over the digest of
    the content); and the digested content is the embedded one if present, which equals `ext` when both are given. -/
theorem cms_accept_implies {C : Crypto} (H : Alg → Bytes → Bytes) (sd : SignedData C) (ext : Option Bytes) (skip : Bool)
    (cert : Cert C) (si : SignerInfo C) (h : verifySignedData H sd ext skip = .ok (cert, si)) :
    ∃ content : Option Bytes,
      (skip = true → content = none) ∧
      (skip = false → ∃ c, content = some c ∧ Effective sd.content ext c) ∧
      sd.signers.getLast? = some si ∧ si ∈ sd.signers ∧
      SignerOK H sd.contentType content sd.certs si cert ∧
      ∀ si' ∈ sd.signers, ∃ cert', SignerOK H sd.contentType content sd.certs si' cert' := by
  unfold verifySignedData verifySignedDataWith at h
  split at h
  · rename_i content hc
    obtain ⟨h1, h2, h3⟩ := verifyAll_ok H (some sd.contentType) content skip sd.certs sd.badCerts sd.signers none (cert, si) h
    have hne : sd.signers ≠ [] := by
      intro e
      have := h2 e
      cases this
    obtain ⟨hl, hv⟩ := h3 hne
    obtain ⟨hv, hct⟩ := verifyOne_ok H _ content skip _ _ _ hv
    refine ⟨if skip then none else some content, ?_, ?_, hl, List.mem_of_getLast? hl,
      ⟨signer_ok H content skip _ _ _ hv, hct _ rfl⟩, ?_⟩
    · intro hs; simp [hs]
    · intro hs
      subst hs
      refine ⟨content, by simp, ?_⟩
      simp only [Bool.false_eq_true, if_false] at hc
      unfold Effective
      cases hemb : sd.content with
      | none =>
        cases hext : ext with
        | none => simp [resolveContent, hemb, hext] at hc
        | some e =>
          simp only [resolveContent, hemb, hext, Res.ok.injEq] at hc
          subst hc
          exact Or.inr ⟨rfl, rfl⟩
      | some c0 =>
        cases hext : ext with
        | none =>
          simp only [resolveContent, hemb, hext, Res.ok.injEq] at hc
          subst hc
          exact Or.inl ⟨rfl, by intro e he; cases he⟩
        | some e =>
          simp only [resolveContent, hemb, hext] at hc
          split at hc
          · rename_i heq
            injection hc with hc; subst hc
            exact Or.inl ⟨rfl, by intro e' he; injection he with he; rw [← he, heq]⟩
          · cases hc
    · intro s hs
      obtain ⟨c', hv'⟩ := h1 s hs
      obtain ⟨hv', hct'⟩ := verifyOne_ok H _ content skip _ _ _ hv'
      exact ⟨c', signer_ok H content skip _ _ _ hv', hct' _ rfl⟩
  all_goals cases h

/-- the same with a `SigScheme`: the signature clauses read `S.verify cert.pub (H alg …) sig` -/
theorem cms_accept_implies_scheme (S : KeyMatch.SigScheme) (kind : S.Pub → KeyKind) (H : Alg → Bytes → Bytes)
    (sd : SignedData (Crypto.ofScheme S kind)) (ext : Option Bytes) (cert : Cert (Crypto.ofScheme S kind))
    (si : SignerInfo (Crypto.ofScheme S kind)) (h : verifySignedData H sd ext false = .ok (cert, si)) :
    ∃ c alg, Effective sd.content ext c ∧ si ∈ sd.signers ∧ si.digestAlg = some alg ∧
      findCert sd.certs si.issuer si.serial = some cert ∧
      (∀ a l, si.attrs = some (a :: l) →
        getMessageDigest (a :: l) = .ok (H alg c) ∧ S.verify cert.pub (H alg si.attrsBytes) si.sig = true) ∧
      (si.attrs.getD [] = [] → S.verify cert.pub (H alg c) si.sig = true) := by
  obtain ⟨content, _, h2, _, hm, ⟨⟨alg, ha, hf, hw, hn⟩, _⟩, _⟩ := cms_accept_implies H sd ext false cert si h
  obtain ⟨c, rfl, he⟩ := h2 rfl
  refine ⟨c, alg, he, hm, ha, hf, ?_, ?_⟩
  · intro a l hal
    obtain ⟨md, hg, hmd, hs⟩ := hw a l hal
    rw [← hmd c rfl]
    exact ⟨hg, sigAccepts_scheme S kind _ _ _ _ _ hs⟩
  · intro hnil
    exact sigAccepts_scheme S kind _ _ _ _ _ (hn hnil c rfl)

/-! ### tamper corollaries -/

theorem effective_unique (emb ext : Option Bytes) (c c' : Bytes) (h : Effective emb ext c) (h' : Effective emb ext c') :
    c = c' := by
  rcases h with ⟨h1, _⟩ | ⟨h1, h2⟩ <;> rcases h' with ⟨h3, _⟩ | ⟨h3, h4⟩
  · rw [h1] at h3; injection h3
  · rw [h1] at h3; cases h3
  · rw [h1] at h3; cases h3
  · rw [h2] at h4; injection h4

/-- **cms_external_embedded_must_agree.**  Embedded content `c` and a different external content: rejected. -/
theorem cms_external_embedded_must_agree {C : Crypto} (H : Alg → Bytes → Bytes) (sd : SignedData C) (c e : Bytes)
    (hc : sd.content = some c) (hne : e ≠ c) :
    verifySignedData H sd (some e) false = .err "content-mismatch" := by
  simp [verifySignedData, verifySignedDataWith, resolveContent, hc, hne]

/-- **cms_content_change_rejected.**  Two structures with the same signer infos and certificates (e.g. the same
    detached blob with two external contents, or one blob and a copy whose embedded content was altered) are both
    accepted, for different contents `c ≠ c'`.  If the hash of the reported signer's algorithm does not collide on
    `c`, `c'`, then that signer info carries no authenticated attributes and its one signature value is accepted
    over two different digests.  (With attributes, acceptance of both is impossible outright.) -/
theorem cms_content_change_rejected {C : Crypto} (H : Alg → Bytes → Bytes) (sd sd' : SignedData C)
    (ext ext' : Option Bytes) (c c' : Bytes) (cert cert' : Cert C) (si si' : SignerInfo C)
    (hs : sd'.signers = sd.signers) (hcs : sd'.certs = sd.certs)
    (he : Effective sd.content ext c) (he' : Effective sd'.content ext' c')
    (h : verifySignedData H sd ext false = .ok (cert, si))
    (h' : verifySignedData H sd' ext' false = .ok (cert', si'))
    (hcf : ∀ alg, H alg c = H alg c' → c = c') (hne : c ≠ c') :
    si' = si ∧ cert' = cert ∧ si.attrs.getD [] = [] ∧
    ∃ alg, si.digestAlg = some alg ∧ H alg c ≠ H alg c' ∧
      SigAccepts C cert.pub alg si.sigAlg (H alg c) si.sig ∧ SigAccepts C cert.pub alg si.sigAlg (H alg c') si.sig := by
  obtain ⟨k, _, h2, hl, _, ⟨⟨alg, ha, hf, hw, hn⟩, _⟩, _⟩ := cms_accept_implies H sd ext false cert si h
  obtain ⟨k', _, h2', hl', _, ⟨⟨alg', ha', hf', hw', hn'⟩, _⟩, _⟩ := cms_accept_implies H sd' ext' false cert' si' h'
  obtain ⟨c0, rfl, he0⟩ := h2 rfl
  obtain ⟨c0', rfl, he0'⟩ := h2' rfl
  have e1 := effective_unique _ _ _ _ he he0
  have e2 := effective_unique _ _ _ _ he' he0'
  subst e1; subst e2
  rw [hs, hl] at hl'
  injection hl' with hl'
  subst hl'
  rw [ha] at ha'; injection ha' with ha'; subst ha'
  rw [hcs, hf] at hf'; injection hf' with hf'; subst hf'
  have hempty : si.attrs.getD [] = [] := by
    cases hat : si.attrs with
    | none => rfl
    | some l =>
      cases l with
      | nil => rfl
      | cons a l =>
        obtain ⟨md, hg, hmd, _⟩ := hw a l hat
        obtain ⟨md', hg', hmd', _⟩ := hw' a l hat
        rw [hg] at hg'; injection hg' with hg'
        have := hmd c rfl
        have := hmd' c' rfl
        exact absurd (hcf alg (by rw [← hmd c rfl, ← hmd' c' rfl, hg'])) hne
  exact ⟨rfl, rfl, hempty, alg, ha, fun e => hne (hcf alg e), hn hempty c rfl, hn' hempty c' rfl⟩

/-- the attributed case of the above on its own: with authenticated attributes present and no collision, a
    structure cannot be accepted for two different contents -/
theorem cms_content_change_rejected_attrs {C : Crypto} (H : Alg → Bytes → Bytes) (sd sd' : SignedData C)
    (ext ext' : Option Bytes) (c c' : Bytes) (cert cert' : Cert C) (si si' : SignerInfo C)
    (hs : sd'.signers = sd.signers) (hcs : sd'.certs = sd.certs)
    (he : Effective sd.content ext c) (he' : Effective sd'.content ext' c')
    (h : verifySignedData H sd ext false = .ok (cert, si))
    (hcf : ∀ alg, H alg c = H alg c' → c = c') (hne : c ≠ c')
    (hattrs : si.attrs.getD [] ≠ []) :
    verifySignedData H sd' ext' false ≠ .ok (cert', si') := by
  intro h'
  exact hattrs (cms_content_change_rejected H sd sd' ext ext' c c' cert cert' si si' hs hcs he he' h h' hcf hne).2.2.1

/-- **cms_attr_change_rejected.**  A signer info whose authenticated attributes were altered (so that the digested
    bytes `b'` differ from the original `si.attrsBytes`), everything else – in particular the signature value and
    the certificate found – unchanged: if the altered structure is accepted, the *old* signature value is accepted
    over the digest of the *new* attribute bytes, which differs from the digest it was made over. -/
theorem cms_attr_change_rejected {C : Crypto} (H : Alg → Bytes → Bytes) (sd' : SignedData C) (ext : Option Bytes)
    (skip : Bool) (cert : Cert C) (si si' : SignerInfo C) (a : Attr) (l : List Attr) (alg : Alg)
    (h' : verifySignedData H sd' ext skip = .ok (cert, si'))
    (hattrs : si'.attrs = some (a :: l)) (hsig : si'.sig = si.sig) (hsa : si'.sigAlg = si.sigAlg)
    (_halg : si.digestAlg = some alg) (halg' : si'.digestAlg = some alg)
    (hb : si'.attrsBytes ≠ si.attrsBytes)
    (hcf : H alg si'.attrsBytes = H alg si.attrsBytes → si'.attrsBytes = si.attrsBytes) :
    SigAccepts C cert.pub alg si.sigAlg (H alg si'.attrsBytes) si.sig ∧
    H alg si'.attrsBytes ≠ H alg si.attrsBytes := by
  obtain ⟨_, _, _, _, _, ⟨⟨alg', ha', _, hw, _⟩, _⟩, _⟩ := cms_accept_implies H sd' ext skip cert si' h'
  rw [halg'] at ha'; injection ha' with ha'; subst ha'
  obtain ⟨_, _, _, hs⟩ := hw a l hattrs
  rw [hsig, hsa] at hs
  exact ⟨hs, fun e => hb (hcf e)⟩

/-- replace the value set of the first attribute with this OID -/
def setAttr (oid : Bytes) (v : RawVal) : List Attr → List Attr
  | [] => []
  | a :: l => if a.oid == oid then { a with values := v } :: l else a :: setAttr oid v l

theorem tlv_inj (t : UInt8) (c c' : Bytes) (ht : highTag t = false) (hc : c.length < 2 ^ 31) (hc' : c'.length < 2 ^ 31)
    (h : tlv t c = tlv t c') : c = c' := by
  have a := untlv_tlv t c [] ht hc
  have b := untlv_tlv t c' [] ht hc'
  simp only [List.append_nil] at a b
  rw [h, b] at a
  injection a with a
  injection a with _ a
  injection a with a
  exact a.symm

theorem encRaw_len (v : RawVal) (h : v.full = []) : encRaw v = tlv v.tag v.bytes := by
  simp [encRaw, h]

/-- replacing the value set of an attribute that is present changes the encoded attribute list, provided the two
    value sets encode differently (element sizes below 2^31, as Go's parser requires anyway) -/
theorem attrsContent_setAttr_ne (oid : Bytes) (v : RawVal) (l : List Attr) (old : Attr)
    (hfind : l.find? (fun a => a.oid == oid) = some old)
    (hne : encRaw v ≠ encRaw old.values)
    (hlen : (tlv 0x06 old.oid ++ encRaw v).length < 2 ^ 31 ∧ (tlv 0x06 old.oid ++ encRaw old.values).length < 2 ^ 31) :
    attrsContent (setAttr oid v l) ≠ attrsContent l := by
  induction l with
  | nil => simp at hfind
  | cons a l ih =>
    simp only [List.find?_cons] at hfind
    by_cases ha : (a.oid == oid) = true
    · simp only [ha] at hfind
      injection hfind with hfind
      subst hfind
      simp only [setAttr, ha, if_true, attrsContent, List.flatMap_cons]
      intro e
      have e2 := List.append_cancel_right e
      unfold encAttr at e2
      have e3 := tlv_inj 0x30 _ _ (by decide) hlen.1 hlen.2 e2
      exact hne (List.append_cancel_left e3)
    · have ha' : (a.oid == oid) = false := by simpa using ha
      simp only [ha'] at hfind
      simp only [setAttr, ha', attrsContent, List.flatMap_cons]
      intro e
      exact ih hfind (List.append_cancel_left e)

/-- **cms_digest_value_change_rejected.**  Replace the messageDigest attribute value (by `v`, encoding differently
    from the old value set) in a well-formed signer info (`WF`: the digested bytes are the SET OF encoding of the
    attribute list – true of everything Go parsed).  The digested attribute bytes change; hence if the modified
    structure is accepted, the old signature value is accepted over the digest of the *modified* attribute bytes,
    and that digest differs from the one the signature was made over unless the hash collides on the two. -/
theorem cms_digest_value_change_rejected {C : Crypto} (H : Alg → Bytes → Bytes) (sd' : SignedData C) (ext : Option Bytes)
    (skip : Bool) (cert : Cert C) (si si' : SignerInfo C) (l : List Attr) (old : Attr) (v : RawVal) (alg : Alg)
    (hattrs : si.attrs = some l) (hwf : si.WF)
    (hfind : l.find? (fun a => a.oid == oidMessageDigest) = some old)
    (hattrs' : si'.attrs = some (setAttr oidMessageDigest v l)) (hwf' : si'.WF)
    (hsig : si'.sig = si.sig) (hsa : si'.sigAlg = si.sigAlg)
    (halg : si.digestAlg = some alg) (halg' : si'.digestAlg = some alg)
    (hne : encRaw v ≠ encRaw old.values)
    (hlen : (tlv 0x06 old.oid ++ encRaw v).length < 2 ^ 31 ∧ (tlv 0x06 old.oid ++ encRaw old.values).length < 2 ^ 31)
    (hlen2 : (attrsContent (setAttr oidMessageDigest v l)).length < 2 ^ 31 ∧ (attrsContent l).length < 2 ^ 31)
    (hcf : H alg si'.attrsBytes = H alg si.attrsBytes → si'.attrsBytes = si.attrsBytes)
    (h' : verifySignedData H sd' ext skip = .ok (cert, si')) :
    si'.attrsBytes ≠ si.attrsBytes ∧
    SigAccepts C cert.pub alg si.sigAlg (H alg si'.attrsBytes) si.sig ∧
    H alg si'.attrsBytes ≠ H alg si.attrsBytes := by
  have hb : si'.attrsBytes ≠ si.attrsBytes := by
    rw [hwf' _ hattrs', hwf _ hattrs]
    intro e
    exact attrsContent_setAttr_ne _ v l old hfind hne hlen (tlv_inj 0x31 _ _ (by decide) hlen2.1 hlen2.2 e)
  have hcons : ∃ a r, setAttr oidMessageDigest v l = a :: r := by
    cases l with
    | nil => simp at hfind
    | cons a r =>
      simp only [setAttr]
      split
      · exact ⟨_, _, rfl⟩
      · exact ⟨_, _, rfl⟩
  obtain ⟨a, r, hcons⟩ := hcons
  rw [hcons] at hattrs'
  exact ⟨hb, cms_attr_change_rejected H sd' ext skip cert si si' a r alg h' hattrs' hsig hsa halg halg' hb hcf⟩

/-- **cms_cert_swap.**  Whatever certificate the verifier finds for the signer's issuer and serial – e.g. after the
    genuine one was replaced by a certificate with the same issuer and serial and another public key – acceptance
    implies that the signature value is accepted *under that certificate's key*, and that certificate is the one
    reported (to be chain-validated next). -/
theorem cms_cert_swap {C : Crypto} (H : Alg → Bytes → Bytes) (sd' : SignedData C) (ext : Option Bytes)
    (cert' rogue : Cert C) (si : SignerInfo C)
    (h' : verifySignedData H sd' ext false = .ok (cert', si))
    (hfind : findCert sd'.certs si.issuer si.serial = some rogue) :
    cert' = rogue ∧
    ∃ alg c, si.digestAlg = some alg ∧ Effective sd'.content ext c ∧
      (si.attrs.getD [] = [] → SigAccepts C rogue.pub alg si.sigAlg (H alg c) si.sig) ∧
      (si.attrs.getD [] ≠ [] → SigAccepts C rogue.pub alg si.sigAlg (H alg si.attrsBytes) si.sig) := by
  obtain ⟨_, _, h2, _, _, ⟨⟨alg, ha, hf, hw, hn⟩, _⟩, _⟩ := cms_accept_implies H sd' ext false cert' si h'
  obtain ⟨c, rfl, he⟩ := h2 rfl
  rw [hfind] at hf
  injection hf with hf
  subst hf
  refine ⟨rfl, alg, c, ha, he, fun hnil => hn hnil c rfl, ?_⟩
  intro hne
  cases hat : si.attrs with
  | none => simp [hat] at hne
  | some l =>
    cases l with
    | nil => simp [hat] at hne
    | cons a l =>
      obtain ⟨_, _, _, hs⟩ := hw a l hat
      exact hs

/-- the certificate is looked up by issuer *and* serial, first match in bundle order -/
theorem cms_cert_found_by_issuer_and_serial {C : Crypto} (H : Alg → Bytes → Bytes) (sd : SignedData C) (ext : Option Bytes)
    (skip : Bool) (cert : Cert C) (si : SignerInfo C) (h : verifySignedData H sd ext skip = .ok (cert, si)) :
    cert ∈ sd.certs ∧ cert.issuer = si.issuer ∧ cert.serial = si.serial := by
  obtain ⟨_, _, _, _, _, ⟨⟨_, _, hf, _, _⟩, _⟩, _⟩ := cms_accept_implies H sd ext skip cert si h
  exact findCert_some _ _ _ _ hf

/-- every signer info is checked, not only the reported one: one bad signer info makes the whole structure fail -/
theorem cms_all_signers_checked {C : Crypto} (H : Alg → Bytes → Bytes) (sd : SignedData C) (ext : Option Bytes) (skip : Bool)
    (cert : Cert C) (si : SignerInfo C) (h : verifySignedData H sd ext skip = .ok (cert, si)) :
    ∀ si' ∈ sd.signers, ∃ c content, verifySignerInfo H content skip sd.certs si' = .ok c := by
  unfold verifySignedData verifySignedDataWith at h
  split at h
  · rename_i content _
    intro s hs
    obtain ⟨c, hc⟩ := (verifyAll_ok H _ content skip sd.certs sd.badCerts sd.signers none (cert, si) h).1 s hs
    exact ⟨c, content, (verifyOne_ok H _ content skip _ _ _ hc).1⟩
  all_goals cases h

/-- no signer infos: "not signed" (after the content rule), never success -/
theorem cms_no_signers_rejected {C : Crypto} (H : Alg → Bytes → Bytes) (sd : SignedData C) (ext : Option Bytes) (skip : Bool)
    (hs : sd.signers = []) : ∀ p, verifySignedData H sd ext skip ≠ .ok p := by
  intro p h
  obtain ⟨_, _, _, _, hm, _⟩ := cms_accept_implies H sd ext skip p.1 p.2 h
  rw [hs] at hm
  cases hm

/-- chain validation is applied to the certificate that the signature check returned -/
theorem cms_chain_accept_implies {C : Crypto} (H : Alg → Bytes → Bytes) (chainOK : Nat → Tsa.Usage → Int → Bool) (now : Int)
    (sd : SignedData C) (ext : Option Bytes) (skip : Bool) (cert : Cert C) (si : SignerInfo C)
    (h : verifyWithChain H chainOK now none sd ext skip = .ok (cert, si)) :
    verifySignedData H sd ext skip = .ok (cert, si) ∧ chainOK cert.id .requested now = true := by
  unfold verifyWithChain at h
  split at h
  · rename_i c s hv
    simp only [Tsa.verifyChain] at h
    split at h
    · rename_i hch
      split at hch
      · cases hch
      · rename_i hc
        injection h with h
        injection h with h1 h2
        subst h1; subst h2
        exact ⟨hv, by simpa using hc⟩
    all_goals cases h
  · rename_i hr
    exact absurd h (by
      intro e
      exact hr cert si e)

/-! ### stated gaps: what the verifier does *not* check (these are theorems about the code as it is) -/

/-- **cms_contenttype_unchecked** (finding F31, about the code *before* the fix, `verifySignedDataOrig`).  The
    verdict did not depend on the eContentType: neither is it digested, nor was the signed `contentType` attribute
    compared with it (RFC 5652 section 5.3: "the content-type attribute value MUST match the SignedData
    encapContentInfo eContentType value"). -/
theorem cms_contenttype_unchecked {C : Crypto} (H : Alg → Bytes → Bytes) (sd : SignedData C) (ct' : Bytes)
    (ext : Option Bytes) (skip : Bool) :
    verifySignedDataOrig H { sd with contentType := ct' } ext skip = verifySignedDataOrig H sd ext skip := rfl

/-- what a successful `getContentType` says about the attribute list: the first contentType attribute's value set
    is exactly one OBJECT IDENTIFIER element with content octets `ct` -/
theorem getContentType_ok (l : List Attr) (ct : Bytes) (h : getContentType l = .ok ct) :
    ∃ a, l.find? (fun a => a.oid == oidContentType) = some a ∧ a ∈ l ∧ a.oid = oidContentType ∧
      a.values.bytes = tlv 0x06 ct ∧ oidOK ct = true := by
  unfold getContentType at h
  split at h
  · cases h
  · rename_i a hf
    refine ⟨a, hf, List.mem_of_find?_eq_some hf, by simpa using List.find?_some hf, ?_⟩
    split at h
    · rename_i t c rest hu
      split at h
      · cases h
      · rename_i ht
        split at h
        · cases h
        · rename_i ho
          split at h
          · cases h
          · rename_i hr
            injection h with h
            subst h
            obtain ⟨e, _, _⟩ := untlv_inv _ _ _ _ hu
            have ht' : t = 0x06 := by simpa using ht
            have hr' : rest = [] := by simpa using hr
            subst ht'; subst hr'
            exact ⟨by simpa using e, by simpa using ho⟩
    all_goals cases h

/-- **cms_contenttype_bound** (fix F31).  If `SignedData.Verify` reports success, then every signer info that has
    authenticated attributes carries a contentType attribute – inside the attribute bytes its signature value was
    checked over – whose single value is the eContentType of the structure. -/
theorem cms_contenttype_bound {C : Crypto} (H : Alg → Bytes → Bytes) (sd : SignedData C) (ext : Option Bytes) (skip : Bool)
    (cert : Cert C) (si : SignerInfo C) (h : verifySignedData H sd ext skip = .ok (cert, si)) :
    ∀ si' ∈ sd.signers, ∀ a l, si'.attrs = some (a :: l) →
      getContentType (a :: l) = .ok sd.contentType ∧
      ∃ x, x ∈ a :: l ∧ x.oid = oidContentType ∧ x.values.bytes = tlv 0x06 sd.contentType := by
  obtain ⟨_, _, _, _, _, _, hall⟩ := cms_accept_implies H sd ext skip cert si h
  intro s hs a l hal
  obtain ⟨_, _, hct⟩ := hall s hs
  have hg := hct a l hal
  obtain ⟨x, _, hm, ho, hv, _⟩ := getContentType_ok _ _ hg
  exact ⟨hg, x, hm, ho, hv⟩

/-- **cms_contenttype_change_rejected.**  A structure accepted with eContentType `sd.contentType`, whose reported (or
    any) signer info has authenticated attributes, is not accepted any more once the eContentType is changed and
    everything else – attributes, signature – is left as it was. -/
theorem cms_contenttype_change_rejected {C : Crypto} (H : Alg → Bytes → Bytes) (sd : SignedData C) (ct' : Bytes)
    (ext ext' : Option Bytes) (skip skip' : Bool) (cert : Cert C) (si : SignerInfo C)
    (h : verifySignedData H sd ext skip = .ok (cert, si))
    (s : SignerInfo C) (hs : s ∈ sd.signers) (a : Attr) (l : List Attr) (hattrs : s.attrs = some (a :: l))
    (hne : ct' ≠ sd.contentType) :
    ∀ p, verifySignedData H { sd with contentType := ct' } ext' skip' ≠ .ok p := by
  intro p h'
  have b := (cms_contenttype_bound H sd ext skip cert si h s hs a l hattrs).1
  have b' := (cms_contenttype_bound H { sd with contentType := ct' } ext' skip' p.1 p.2 h' s hs a l hattrs).1
  rw [b] at b'
  injection b' with b'
  exact hne b'.symm

theorem verifyOne_noattrs {C : Crypto} (H : Alg → Bytes → Bytes) (t t' : Bytes) (content : Bytes) (skip : Bool)
    (certs : List (Cert C)) (si : SignerInfo C) (hn : si.attrs.getD [] = []) :
    verifyOne H (some t) content skip certs si = verifyOne H (some t') content skip certs si := by
  simp [verifyOne, ctypeStage, hn]

theorem verifyAll_noattrs {C : Crypto} (H : Alg → Bytes → Bytes) (t t' : Bytes) (content : Bytes) (skip : Bool)
    (certs : List (Cert C)) (bad : Bool) (l : List (SignerInfo C)) (last : Option (Cert C × SignerInfo C))
    (hn : ∀ si ∈ l, si.attrs.getD [] = []) :
    verifyAll H (some t) content skip certs bad l last = verifyAll H (some t') content skip certs bad l last := by
  induction l generalizing last with
  | nil => cases last <;> rfl
  | cons si rest ih =>
    simp only [verifyAll]
    rw [verifyOne_noattrs H t t' content skip certs si (hn si (by simp))]
    split
    · exact ih _ (fun s hs => hn s (by simp [hs]))
    all_goals rfl

/-- **cms_contenttype_unprotected_without_attrs** (what the code does, and what PKCS#7 defines, when no signer info has
    authenticated attributes): the signature value covers the content octets only, nothing names the content type, and
    the verdict does not depend on the eContentType – also after fix F31. -/
theorem cms_contenttype_unprotected_without_attrs {C : Crypto} (H : Alg → Bytes → Bytes) (sd : SignedData C) (ct' : Bytes)
    (ext : Option Bytes) (skip : Bool) (hn : ∀ si ∈ sd.signers, si.attrs.getD [] = []) :
    verifySignedData H { sd with contentType := ct' } ext skip = verifySignedData H sd ext skip := by
  unfold verifySignedData verifySignedDataWith
  simp only
  split
  · exact verifyAll_noattrs H _ _ _ _ _ _ _ _ hn
  all_goals rfl

/-- with `skipDigests` and no authenticated attributes the signature value is not examined at all -/
theorem cms_skip_noattrs_signature_unverified {C : Crypto} (H : Alg → Bytes → Bytes) (content : Bytes) (certs : List (Cert C))
    (si : SignerInfo C) (sig' : C.Sig) (hattrs : si.attrs.getD [] = []) :
    verifySignerInfo H content true certs { si with sig := sig' } = verifySignerInfo H content true certs si := by
  unfold verifySignerInfo mdStage
  simp only [hattrs]
  cases si.digestAlg <;> simp

/-- an empty attribute set (`A0 00`) is treated exactly like an absent one -/
theorem cms_empty_attrs_as_absent {C : Crypto} (H : Alg → Bytes → Bytes) (content : Bytes) (skip : Bool) (certs : List (Cert C))
    (si : SignerInfo C) :
    verifySignerInfo H content skip certs { si with attrs := some [] } =
      verifySignerInfo H content skip certs { si with attrs := none } := rfl

/-- attribute-less reinterpretation (inherent to PKCS#7, not specific to relic): a signer info accepted with
    attributes is also accepted, attributes stripped, for the content that *is* its digested attribute bytes -/
theorem cms_attr_strip_reinterpretation {C : Crypto} (H : Alg → Bytes → Bytes) (content : Bytes) (certs : List (Cert C))
    (si : SignerInfo C) (cert : Cert C) (a : Attr) (l : List Attr) (hattrs : si.attrs = some (a :: l))
    (h : verifySignerInfo H content false certs si = .ok cert) :
    verifySignerInfo H si.attrsBytes false certs { si with attrs := none } = .ok cert := by
  obtain ⟨alg, ha, hf, hw, _⟩ := signer_ok H content false certs si cert h
  obtain ⟨_, _, _, hs⟩ := hw a l hattrs
  unfold SigAccepts at hs
  simp [verifySignerInfo, mdStage, ha, hf, hs]

/-! ### link with C10's token abstraction (`Relic.Tsa.Token`): `sigOK` / `mdOK` are what this model computes -/

def resCls {α : Type} : Res α → String
  | .ok _ => "ok"
  | .err e => e
  | .panic s => "panic:" ++ s
  | .diverge => "diverge"

/-- the flags `Relic.Tsa.Token` records about a SignedData value used as a time-stamp token, computed by the
    container model: `mdOK` = no signer info fails the messageDigest comparison, `sigOK` = every signer info
    passes (signature and, since fix F31, contentType binding) or fails only that comparison -/
def toToken {C : Crypto} (H : Alg → Bytes → Bytes) (sd : SignedData C) (serial tsa : Nat) (ctypeTst : Bool)
    (content : Tsa.Content) (sigTime : Option (Option Int)) : Tsa.Token :=
  let c := sd.content.getD []
  { serial := serial, ctypeTst := ctypeTst, nSigners := sd.signers.length,
    sigOK := sd.signers.all (fun si =>
      (verifyOne H (some sd.contentType) c false sd.certs si).isOk || resCls (verifyOne H (some sd.contentType) c false sd.certs si) == "digest"),
    content := content, sigTime := sigTime, tsa := tsa,
    mdOK := sd.signers.all (fun si => resCls (verifyOne H (some sd.contentType) c false sd.certs si) != "digest") }

theorem isOk_ok {α : Type} (a : α) : (Res.ok a).isOk = true := rfl
theorem isOk_err {α : Type} (e : String) : (Res.err e : Res α).isOk = false := rfl
theorem isOk_panic {α : Type} (e : String) : (Res.panic e : Res α).isOk = false := rfl
theorem isOk_diverge {α : Type} : (Res.diverge : Res α).isOk = false := rfl

theorem verifyAll_isOk {C : Crypto} (H : Alg → Bytes → Bytes) (ct : Option Bytes) (content : Bytes) (skip : Bool) (certs : List (Cert C))
    (bad : Bool) (l : List (SignerInfo C)) (last : Option (Cert C × SignerInfo C)) :
    (verifyAll H ct content skip certs bad l last).isOk =
      (l.all (fun si => (verifyOne H ct content skip certs si).isOk) && (!l.isEmpty || last.isSome)) := by
  induction l generalizing last with
  | nil => cases last <;> simp [verifyAll, isOk_ok, isOk_err]
  | cons si rest ih =>
    simp only [verifyAll]
    cases hv : verifyOne H ct content skip certs si with
    | ok cert => simp [ih, hv, isOk_ok]
    | err e => simp [hv, isOk_err]
    | panic s => simp [hv, isOk_panic]
    | diverge => simp [hv, isOk_diverge]

set_option linter.unusedSimpArgs false in
/-- **cms_token_abstraction.**  C10's `p7Verify` on the abstracted token succeeds exactly when the container model's
    `SignedData.Verify(nil, false)` does (`content` abstracts the embedded content: absent iff there is none). -/
theorem cms_token_abstraction {C : Crypto} (H : Alg → Bytes → Bytes) (sd : SignedData C) (serial tsa : Nat) (ctypeTst : Bool)
    (content : Tsa.Content) (sigTime : Option (Option Int)) (hc : content = .absent ↔ sd.content = none) :
    (Tsa.p7Verify (toToken H sd serial tsa ctypeTst content sigTime)).isOk = (verifySignedData H sd none false).isOk := by
  unfold verifySignedData verifySignedDataWith Tsa.p7Verify
  cases hemb : sd.content with
  | none =>
    have : content = .absent := hc.mpr hemb
    simp [toToken, this, resolveContent, isOk_ok, isOk_err, isOk_panic, isOk_diverge]
  | some c =>
    have hne : content ≠ .absent := fun e => by rw [hc.mp e] at hemb; cases hemb
    simp only [toToken, hne, if_false, Bool.false_eq_true, resolveContent, hemb, Option.getD_some, verifyAll_isOk]
    cases hl : sd.signers with
    | nil => simp [isOk_ok, isOk_err, isOk_panic, isOk_diverge]
    | cons si rest =>
      simp only [List.length_cons, Nat.add_one_ne_zero, if_false, List.isEmpty_cons, Bool.not_false, Bool.true_or, Bool.and_true,
        Option.isSome_none]
      generalize hP : (si :: rest) = l
      by_cases hall : l.all (fun si => (verifyOne H (some sd.contentType) c false sd.certs si).isOk) = true
      · have h1 : l.all (fun si => resCls (verifyOne H (some sd.contentType) c false sd.certs si) != "digest") = true := by
          rw [List.all_eq_true] at hall ⊢
          intro x hx
          have := hall x hx
          cases hv : verifyOne H (some sd.contentType) c false sd.certs x <;> simp [hv, isOk_ok, isOk_err, isOk_panic, isOk_diverge, resCls] at this ⊢
        have h2 : l.all (fun si => (verifyOne H (some sd.contentType) c false sd.certs si).isOk ||
            resCls (verifyOne H (some sd.contentType) c false sd.certs si) == "digest") = true := by
          rw [List.all_eq_true] at hall ⊢
          intro x hx
          simp [hall x hx]
        simp [h1, h2, hall, isOk_ok, isOk_err, isOk_panic, isOk_diverge]
      · have hall' : l.all (fun si => (verifyOne H (some sd.contentType) c false sd.certs si).isOk) = false := by simpa using hall
        rw [hall']
        by_cases h1 : l.all (fun si => resCls (verifyOne H (some sd.contentType) c false sd.certs si) != "digest") = true
        · by_cases h2 : l.all (fun si => (verifyOne H (some sd.contentType) c false sd.certs si).isOk ||
              resCls (verifyOne H (some sd.contentType) c false sd.certs si) == "digest") = true
          · exfalso
            apply hall
            rw [List.all_eq_true] at h1 h2 ⊢
            intro x hx
            have a := h1 x hx
            have b := h2 x hx
            simp only [Bool.or_eq_true, beq_iff_eq, bne_iff_ne, ne_eq] at a b
            rcases b with b | b
            · exact b
            · exact absurd b a
          · have : (l.all (fun si => (verifyOne H (some sd.contentType) c false sd.certs si).isOk ||
              resCls (verifyOne H (some sd.contentType) c false sd.certs si) == "digest")) = false := by simpa using h2
            simp [h1, this, isOk_ok, isOk_err, isOk_panic, isOk_diverge]
        · have : (l.all (fun si => resCls (verifyOne H (some sd.contentType) c false sd.certs si) != "digest")) = false := by simpa using h1
          simp [this, isOk_ok, isOk_err, isOk_panic, isOk_diverge]


/-! ### non-vacuity: a toy signature scheme, a toy hash, concrete structures -/

/-- keys are numbers, `pub = id`, a signature is the pair (key, message) -/
abbrev toyScheme : KeyMatch.SigScheme where
  Priv := Nat
  Pub := Nat
  Sig := Nat × Bytes
  pub := id
  sign := fun k m => (k, m)
  verify := fun p m s => s.1 == p && s.2 == m
  sound := by intro k m; simp

abbrev toyC : Crypto := Crypto.ofScheme toyScheme (fun _ => .rsa)

/-- an injective toy hash: tag byte of the algorithm in front of the stream -/
def toyH : Alg → Bytes → Bytes
  | .sha256, b => 1 :: b
  | .sha1, b => 2 :: b
  | _, b => 3 :: b

/-- outcome class of a result (for the examples: `Res (Cert × SignerInfo)` has no decidable equality) -/
def cls {α : Type} : Res α → String
  | .ok _ => "ok"
  | .err e => e
  | .panic s => "panic:" ++ s
  | .diverge => "diverge"

def toyCert : Cert toyC := ⟨100, [0xaa], [0x01], (7 : Nat)⟩
def rogueCert : Cert toyC := ⟨101, [0xaa], [0x01], (8 : Nat)⟩

/-- no attributes: signature directly over the content digest -/
def toySI (content : Bytes) : SignerInfo toyC :=
  ⟨1, [0xaa], [0x01], some .sha256, none, [], .rsa none, toyScheme.sign (7 : Nat) (toyH .sha256 content)⟩

def mdAttr (d : Bytes) : Attr := ⟨oidMessageDigest, ⟨[], 0x31, tlv 0x04 d⟩⟩
def ctAttr (oid : Bytes) : Attr := ⟨oidContentType, ⟨[], 0x31, tlv 0x06 oid⟩⟩

/-- with attributes: contentType + messageDigest, signature over the SET OF encoding -/
def toyAttrs (content : Bytes) : List Attr := [ctAttr [0x2a, 0x03], mdAttr (toyH .sha256 content)]
def toySIA (content : Bytes) : SignerInfo toyC :=
  ⟨2, [0xaa], [0x01], some .sha256, some (toyAttrs content), tlv 0x31 (attrsContent (toyAttrs content)), .rsa none,
    toyScheme.sign (7 : Nat) (toyH .sha256 (tlv 0x31 (attrsContent (toyAttrs content))))⟩

def toySD (emb : Option Bytes) (si : SignerInfo toyC) : SignedData toyC := ⟨[0x2a, 0x03], emb, [toyCert], false, [si]⟩

-- accepted: attached, detached, with and without attributes
example : (verifySignedData toyH (toySD (some [1, 2, 3]) (toySI [1, 2, 3])) none false).isOk = true := by decide
example : (verifySignedData toyH (toySD none (toySIA [1, 2, 3])) (some [1, 2, 3]) false).isOk = true := by decide
example : (toySIA [1, 2, 3]).WF := by intro l h; injection h with h; subst h; rfl
-- content byte flipped: rejected in both forms
example : cls (verifySignedData toyH (toySD (some [1, 2, 4]) (toySI [1, 2, 3])) none false) = "sig" := by decide
example : cls (verifySignedData toyH (toySD none (toySIA [1, 2, 3])) (some [1, 2, 4]) false) = "digest" := by decide
-- messageDigest value replaced by the digest of other content: the old signature is checked over the new attribute bytes
example : cls (verifySignedData toyH (toySD none { toySIA [1, 2, 3] with
      attrs := some (setAttr oidMessageDigest ⟨[], 0x31, tlv 0x04 (toyH .sha256 [9])⟩ (toyAttrs [1, 2, 3])),
      attrsBytes := tlv 0x31 (attrsContent (setAttr oidMessageDigest ⟨[], 0x31, tlv 0x04 (toyH .sha256 [9])⟩ (toyAttrs [1, 2, 3]))) })
    (some [9]) false) = "sig" := by decide
-- embedded and external content disagree
example : verifySignedData toyH (toySD (some [1, 2, 3]) (toySI [1, 2, 3])) (some [1, 2, 4]) false = .err "content-mismatch" :=
  cms_external_embedded_must_agree toyH _ [1, 2, 3] [1, 2, 4] rfl (by decide)
-- certificate replaced by one with the same issuer and serial and another key
example : cls (verifySignedData toyH { toySD none (toySIA [1, 2, 3]) with certs := [rogueCert] } (some [1, 2, 3]) false) = "sig" := by decide
example : cls (verifySignedData toyH { toySD none (toySIA [1, 2, 3]) with certs := [] } (some [1, 2, 3]) false) = "no-cert" := by decide
-- no signer infos; a second, bad signer info in front of or behind a good one
example : cls (verifySignedData toyH { toySD none (toySIA [1, 2, 3]) with signers := [] } (some [1, 2, 3]) false) = "not-signed" := by decide
example : cls (verifySignedData toyH { toySD none (toySIA [1, 2, 3]) with signers := [toySIA [1, 2, 3], toySIA [5]] } (some [1, 2, 3]) false) = "digest" := by decide
example : cls (verifySignedData toyH { toySD none (toySIA [1, 2, 3]) with signers := [toySIA [5], toySIA [1, 2, 3]] } (some [1, 2, 3]) false) = "digest" := by decide
-- F31: eContentType changed, attributes (naming the old type) untouched: accepted before the fix, rejected now;
-- without attributes nothing names the type and the change goes unnoticed (cms_contenttype_unprotected_without_attrs)
example : (verifySignedDataOrig toyH { toySD none (toySIA [1, 2, 3]) with contentType := [0x2a, 0x04] } (some [1, 2, 3]) false).isOk = true := by
  decide
example : cls (verifySignedData toyH { toySD none (toySIA [1, 2, 3]) with contentType := [0x2a, 0x04] } (some [1, 2, 3]) false)
    = "ctype-mismatch" := by decide
example : (verifySignedData toyH { toySD none (toySI [1, 2, 3]) with contentType := [0x2a, 0x04] } (some [1, 2, 3]) false).isOk = true := by
  decide
-- contentType attribute missing from the (properly signed) attributes: rejected
example : cls (verifySignedData toyH (toySD none
    ⟨3, [0xaa], [0x01], some .sha256, some [mdAttr (toyH .sha256 [1])], tlv 0x31 (attrsContent [mdAttr (toyH .sha256 [1])]), .rsa none,
      toyScheme.sign (7 : Nat) (toyH .sha256 (tlv 0x31 (attrsContent [mdAttr (toyH .sha256 [1])])))⟩) (some [1]) false)
    = "no-ct-attr" := by decide
-- the hypotheses of cms_content_change_rejected are satisfiable only through its conclusion: with the toy scheme no
-- signature is valid for two digests, so the two acceptances cannot coexist
example : ¬ ((verifySignedData toyH (toySD none (toySI [1])) (some [1]) false).isOk = true ∧
    (verifySignedData toyH (toySD none (toySI [1])) (some [2]) false).isOk = true) := by decide
-- cms_cert_swap instantiated: the rogue certificate is found and reported, and acceptance needs a signature under key 8
example : verifySignedData toyH ⟨[0x2a, 0x03], some [1], [rogueCert], false,
      [⟨1, [0xaa], [0x01], some .sha256, none, [], .rsa none, toyScheme.sign (8 : Nat) (toyH .sha256 [1])⟩]⟩ none false
    = .ok (rogueCert, ⟨1, [0xaa], [0x01], some .sha256, none, [], .rsa none, toyScheme.sign (8 : Nat) (toyH .sha256 [1])⟩) := by
  rfl
-- the token abstraction on a concrete value: C10's p7Verify agrees with the container model
example : (Tsa.p7Verify (toToken toyH (toySD (some [1, 2, 3]) (toySIA [1, 2, 3])) 1 100 false (.data 0) none)).isOk = true := by decide
example : Tsa.p7Verify (toToken toyH (toySD (some [1, 2, 4]) (toySIA [1, 2, 3])) 1 100 false (.data 0) none) = .err "digest" := by decide
-- chain validation runs on the reported certificate
example : verifyWithChain toyH (fun id _ _ => id == 100) 0 none (toySD (some [1]) (toySI [1])) none false =
    .ok (toyCert, toySI [1]) := by rfl
example : (verifyWithChain toyH (fun id _ _ => id == 100) 0 none ⟨[0x2a, 0x03], some [1], [rogueCert], false,
      [⟨1, [0xaa], [0x01], some .sha256, none, [], .rsa none, toyScheme.sign (8 : Nat) (toyH .sha256 [1])⟩]⟩ none false).isOk = false := by
  decide

end Relic.Props.C02

/-
  Relic.Proofs.ZipRoundtrip — what a standard reader sees of a rewritten archive: the views of the kept and
  of the added members (`keptViews`, `newViews`), and the two assembly orders relic uses
  (`kept_news_parses`: Mangle/MakePatch; `news_kept_parses`: signjar.insertSignature).
-/
import Relic.Proofs.ZipWrite
namespace Relic.Zip
open Relic Relic.SpecZip

/-- what a standard reader sees of a placed member -/
def pmView (p : PM) : View :=
  ⟨p.e.name, p.e.method, p.e.flags, p.e.crc, p.e.csize, p.e.usize, p.e.extra, p.e.comment,
   (p.x.drop (30 + fld p.x 26 2 + fld p.x 28 2)).take p.e.csize⟩

theorem MsFor_views {out : Bytes} {cd : Nat} : ∀ (ps : List PM) (ms : List SpecZip.Member), MsFor out cd ps ms →
    ms.map (fun m => (⟨m.entry.name, m.entry.method, m.entry.flags, m.entry.crc, m.entry.csize, m.entry.usize, m.entry.extra,
      m.entry.comment, (out.drop m.dataOff).take m.entry.csize⟩ : View)) = ps.map pmView := by
  intro ps
  induction ps with
  | nil => intro ms h; cases ms <;> simp_all [MsFor]
  | cons p r ih =>
    intro ms h
    cases ms with
    | nil => simp [MsFor] at h
    | cons m ms =>
      simp only [MsFor] at h
      obtain ⟨⟨_, he, _, hdata, _, _⟩, hr⟩ := h
      simp only [List.map_cons, ih ms hr, pmView, he, hdata]

theorem specView_of_parse {out : Bytes} {a : Archive} {cd : Nat} {ps : List PM} (hp : parse out = some a)
    (hm : MsFor out cd ps a.members) : specView out = some (ps.map pmView) := by
  unfold specView
  rw [hp]
  simp only [Option.map_some, Option.some.injEq]
  exact MsFor_views ps a.members hm

/-- the extra field of a kept member's central record after re-emission at offset `o` -/
def movedExtra (e : Entry) (o : Nat) : Bytes :=
  if e.hoff ≠ o ∧ (e.csize ≥ u32Max ∨ e.usize ≥ u32Max ∨ o ≥ u32Max) then z64Extra e.usize e.csize o ++ e.extra else e.extra

/-- the kept members as a standard reader sees them in the input, with the extra field they have after
    re-emission from running offset `o` -/
def keptViews (z : Bytes) : List KM → Nat → List View
  | [], _ => []
  | (k, sm, m) :: r, o =>
    if k then
      ⟨sm.entry.name, sm.entry.method, sm.entry.flags, sm.entry.crc, sm.entry.csize, sm.entry.usize, movedExtra sm.entry o,
        sm.entry.comment, (z.drop sm.dataOff).take sm.entry.csize⟩ :: keptViews z r (o + m.total)
    else keptViews z r o

theorem keptPMs_views {z : Bytes} {a : Archive} (hcdz : a.ends.cdOff ≤ z.length) :
    ∀ (kms : List KM) (at_ L : Nat), MeasuredL z a at_ kms → (∀ q ∈ kms, q.2.1 ∈ a.members) → L + keptLenK kms < 2 ^ 64 →
      (∀ q ∈ keptPMs z kms L, dirHeaderOK q.1 = true) →
      (keptPMs z kms L).map (fun q => pmView q.2) = keptViews z kms L := by
  intro kms
  induction kms with
  | nil => intro _ _ _ _ _ _; rfl
  | cons q r ih =>
    intro at_ L hM hmem hb hx
    obtain ⟨k, sm, m⟩ := q
    obtain ⟨hmo, hat, hg, ⟨l, ddb, hfile⟩, hdo, hT0, hT1, hTle, hrest⟩ := hM
    have hmem' : ∀ q ∈ r, q.2.1 ∈ a.members := fun q hq => hmem q (List.mem_cons_of_mem _ hq)
    cases k with
    | false =>
      simp only [keptPMs, keptViews, keptLenK, Bool.false_eq_true, if_false, Nat.zero_add] at hb hx ⊢
      exact ih _ L hrest hmem' hb hx
    | true =>
      simp only [keptPMs, keptViews, keptLenK, if_true, List.map_cons] at hb ⊢
      simp only [keptPMs, if_true] at hx
      have hT1' : sm.entry.flags % 16 / 8 = 1 → ∃ w, w ∈ sm.descWidths ∧ (w = 16 ∨ w = 24) ∧
          sm.entry.hoff + m.total = sm.dataOff + sm.entry.csize + w := by
        intro hd; obtain ⟨w, h1, h2, h3, _⟩ := hT1 hd; exact ⟨w, h1, h2, h3⟩
      obtain ⟨_, _, _, _, k5, v1, v2, v3, v4, v5, v6, v7, v8⟩ := kept_pm (o := L) hmo hcdz hat hfile hT0 hT1' (by omega)
        (hx _ (List.mem_cons_self ..))
      rw [ih _ (L + m.total) hrest hmem' (by omega) (fun q hq => hx q (List.mem_cons_of_mem _ hq))]
      congr 1
      simp only [pmView, v1, v2, v3, v4, v5, v6, v7, v8]
      -- the data
      obtain ⟨h30, _, _, _, _, _, _, hdo', hdata, _⟩ := memberOf_some hmo
      have hoff : m.file.offset = sm.entry.hoff := by rw [hfile]; rfl
      have hext : extent z m = (z.drop sm.entry.hoff).take m.total := by unfold extent; rw [hoff]
      have hTge : sm.dataOff + sm.entry.csize ≤ sm.entry.hoff + m.total := by
        by_cases hd : sm.entry.flags % 16 / 8 = 1
        · obtain ⟨w, _, _, hT⟩ := hT1' hd; omega
        · have := hT0 hd; omega
      have f26 : fld (extent z m) 26 2 = fld (z.drop sm.entry.hoff) 26 2 := by rw [hext]; exact fld_take _ _ 26 2 (by omega)
      have f28 : fld (extent z m) 28 2 = fld (z.drop sm.entry.hoff) 28 2 := by rw [hext]; exact fld_take _ _ 28 2 (by omega)
      have hdata : ((extent z m).drop (30 + fld (extent z m) 26 2 + fld (extent z m) 28 2)).take sm.entry.csize =
          (z.drop sm.dataOff).take sm.entry.csize := by
        rw [f26, f28, hext, seg_take _ _ _ _ (by omega), List.drop_drop, hdo']
        congr 2; omega
      have hbig : (sm.entry.hoff ≠ L ∧ synthBig (placed L m)) ↔
          (sm.entry.hoff ≠ L ∧ (sm.entry.csize ≥ u32Max ∨ sm.entry.usize ≥ u32Max ∨ L ≥ u32Max)) := by
        have : synthBig (placed L m) ↔ (sm.entry.csize ≥ u32Max ∨ sm.entry.usize ≥ u32Max ∨ L ≥ u32Max) := by
          simp only [synthBig, placed, hfile, fileOf]
        rw [this]
      simp only [hdata, movedExtra, hbig]

theorem newBytes_fld (mt md : Nat) (n : NewMember) (hn : n.name.length < 2 ^ 16) (hx : n.extra.length < 2 ^ 16) :
    fld (newBytes mt md n) 26 2 = n.name.length ∧ fld (newBytes mt md n) 28 2 = n.extra.length := by
  have hb : newBytes mt md n = encLfh (newLfh mt md n) ++ (n.name ++ (n.extra ++ (n.compd ++ newDdb n))) := by
    simp [newBytes, List.append_assoc]
  have F := fld_encLfh (newLfh mt md n) (n.name ++ (n.extra ++ (n.compd ++ newDdb n)))
  rw [← hb] at F
  obtain ⟨_, _, _, _, _, _, _, _, _, F26, F28⟩ := F
  refine ⟨?_, ?_⟩
  · rw [F26]; simp only [newLfh]; rw [Nat.mod_mod, Nat.mod_eq_of_lt hn]
  · rw [F28]; simp only [newLfh]; rw [Nat.mod_mod, Nat.mod_eq_of_lt hx]

/-- the extra field of an added member's central record when written at offset `o` -/
def newExtra (n : NewMember) (o : Nat) : Bytes :=
  if n.compd.length ≥ u32Max ∨ n.usize ≥ u32Max ∨ o ≥ u32Max then z64Extra n.usize n.compd.length o ++ n.extra else n.extra

/-- the requested members as a standard reader must see them, written from offset `o` -/
def newViews (mt md : Nat) : List NewMember → Nat → List View
  | [], _ => []
  | n :: ns, o =>
    ⟨n.name, if n.deflate then 8 else 0, if n.useDesc then 8 else 0, n.crc, n.compd.length, n.usize, newExtra n o, [], n.compd⟩ ::
      newViews mt md ns (o + (newBytes mt md n).length)

theorem newPMs_views (mt md : Nat) : ∀ (news : List NewMember) (o : Nat), (∀ n ∈ news, NewOK n) →
    (newPMs mt md news o).map (fun q => pmView q.2) = newViews mt md news o := by
  intro news
  induction news with
  | nil => intro _ _; rfl
  | cons n ns ih =>
    intro o hok
    have hn := hok n (List.mem_cons_self ..)
    simp only [newPMs, newViews, List.map_cons, ih _ (fun x hx => hok x (List.mem_cons_of_mem _ hx))]
    congr 1
    obtain ⟨e26, e28⟩ := newBytes_fld mt md n hn.name (by have := hn.extra; omega)
    have hdata : ((newBytes mt md n).drop (30 + n.name.length + n.extra.length)).take n.compd.length = n.compd := by
      have hb : newBytes mt md n = encLfh (newLfh mt md n) ++ (n.name ++ (n.extra ++ (n.compd ++ newDdb n))) := by
        simp [newBytes, List.append_assoc]
      rw [hb, show 30 + n.name.length + n.extra.length = (encLfh (newLfh mt md n)).length + (n.name.length + n.extra.length) by
        rw [encLfh_length]; omega]
      rw [← List.drop_drop, List.drop_left, ← List.drop_drop, List.drop_left, List.drop_left, List.take_left]
    simp only [pmView, e26, e28]
    show View.mk _ _ _ _ _ _ (synthExtra (newEntryAt mt md n o)) _ _ = _
    have hsx : synthExtra (newEntryAt mt md n o) = newExtra n o := rfl
    rw [hsx]
    simp only [synthEntry, newEntryAt, hdata]

theorem newViews_small (mt md : Nat) : ∀ (news : List NewMember) (o : Nat),
    (∀ n ∈ news, n.compd.length < u32Max ∧ n.usize < u32Max) → o + (newEntries mt md news o).2.length < u32Max →
    newViews mt md news o = news.map newView := by
  intro news
  induction news with
  | nil => intro _ _ _; rfl
  | cons n ns ih =>
    intro o hs hb
    simp only [newEntries, List.length_append] at hb
    have hn := hs n (List.mem_cons_self ..)
    have hi := ih (o + (newBytes mt md n).length) (fun x hx => hs x (List.mem_cons_of_mem _ hx)) (by omega)
    simp only [newViews, List.map_cons, hi]
    congr 1
    have : ¬ (n.compd.length ≥ u32Max ∨ n.usize ≥ u32Max ∨ o ≥ u32Max) := by omega
    simp only [newView, newExtra, this, if_false]

theorem keptBytesK_length {z : Bytes} {a : Archive} (hcdz : a.ends.cdOff ≤ z.length) :
    ∀ (kms : List KM) (at_ : Nat), MeasuredL z a at_ kms → (keptBytesK z kms).length = keptLenK kms := by
  intro kms
  induction kms with
  | nil => intro _ _; rfl
  | cons q r ih =>
    intro at_ hM
    obtain ⟨k, sm, m⟩ := q
    obtain ⟨_, _, _, ⟨l, ddb, hfile⟩, _, _, _, hTle, hrest⟩ := hM
    have hoff : m.file.offset = sm.entry.hoff := by rw [hfile]; rfl
    simp only [keptBytesK, keptLenK, List.length_append, ih _ hrest]
    cases k
    · simp
    · simp only [if_true, extent, hoff, List.length_take, List.length_drop]; omega

theorem map_fst_append {α β} (l1 l2 : List (α × β)) : (l1 ++ l2).map (·.1) = l1.map (·.1) ++ l2.map (·.1) := List.map_append

/-- **kept members first, then added ones** (`Mangle` + `Mangler.NewFile` + `MakePatch`; `AddFile` / `NewFile` /
    `WriteDirectory` in that order): the output parses to the kept members followed by the added ones. -/
theorem kept_news_parses {z : Bytes} {a : Archive} (hcdz : a.ends.cdOff ≤ z.length)
    (kms : List KM) (at_ : Nat) (hM : MeasuredL z a at_ kms) (hmem : ∀ q ∈ kms, q.2.1 ∈ a.members)
    (mt md : Nat) (hmt : mt < 2 ^ 16) (hmd : md < 2 ^ 16) (news : List NewMember) (hnews : ∀ n ∈ news, NewOK n)
    (hx : ∀ q ∈ keptPMs z kms 0, dirHeaderOK q.1 = true)
    (force : Bool) (B cd eod : Bytes) (fs : List File)
    (hB : B = keptBytesK z kms ++ (newEntries mt md news (keptLenK kms)).2)
    (hfs : fs = (keptPMs z kms 0).map (·.1) ++ (newEntries mt md news (keptLenK kms)).1)
    (hcd : cd = (headersOf fs).1) (heod : eod = endRecords fs.length cd.length B.length force (maxReader fs))
    (hbound : B.length + cd.length < 2 ^ 64) :
    ∃ a', parse (B ++ cd ++ eod) = some a' ∧
      MsFor (B ++ cd ++ eod) B.length ((keptPMs z kms 0 ++ newPMs mt md news (keptLenK kms)).map (·.2)) a'.members ∧
      specView (B ++ cd ++ eod) = some (keptViews z kms 0 ++ newViews mt md news (keptLenK kms)) ∧
      a'.ends.cdOff = B.length ∧ a'.ends.comment = [] ∧ a'.ends.count = fs.length ∧
      a'.ends.first = B.length + cd.length ∧ a'.ends.zip64 = needZip64 fs.length cd.length B.length force (maxReader fs) ∧
      ((∀ q ∈ keptPMs z kms 0 ++ newPMs mt md news (keptLenK kms), fixedNeed q.2.e.need = true ∧ PMWidthOK q.2) →
        42 ≤ (B ++ cd ++ eod).length →
        noComment a' (B ++ cd ++ eod) = true ∧ descSigned a' = true ∧ zip64Fixed a' = true ∧ (a'.members.all (widthOK a')) = true) := by
  have hkl := keptBytesK_length hcdz kms at_ hM
  have hBl : B.length = keptLenK kms + (newEntries mt md news (keptLenK kms)).2.length := by
    rw [hB, List.length_append, hkl]
  obtain ⟨ke, ks⟩ := kept_segment hcdz kms at_ [] (newEntries mt md news (keptLenK kms)).2 0 hM hmem rfl (by omega) hx
  obtain ⟨ne, ns⟩ := news_segment mt md hmt hmd news (keptLenK kms) (keptBytesK z kms) [] hnews hkl (by omega)
  simp only [List.nil_append, Nat.zero_add] at ks
  simp only [List.append_nil] at ns
  rw [← hB] at ks ns
  have hseg := PMsSeg_append _ _ _ _ _ ks ns
  rw [← hBl, ← List.map_append] at hseg
  have hfs' : fs = (keptPMs z kms 0 ++ newPMs mt md news (keptLenK kms)).map (·.1) := by
    rw [hfs, List.map_append, newPMs_files]
  obtain ⟨a', hp', hfor, h1, h2, h3, h4, h5⟩ := parse_assembled B (keptPMs z kms 0 ++ newPMs mt md news (keptLenK kms)) force fs cd eod
    hfs' hcd heod (by
      intro q hq
      rcases List.mem_append.mp hq with hq | hq
      · exact ke q hq
      · exact ne q hq) hseg hbound
  refine ⟨a', hp', hfor, ?_, h1, h2, by rw [h3, hfs', List.length_map], h4, h5, ?_⟩
  · rw [specView_of_parse hp' hfor, List.map_map, List.map_append]
    have e1 := keptPMs_views hcdz kms at_ 0 hM hmem (by omega) hx
    have e2 := newPMs_views mt md news (keptLenK kms) hnews
    simp only [Function.comp_def]
    rw [e1, e2]
  · intro hq h42
    exact assembled_readable hseg hfor h1 h2 (fun p hp => by
        obtain ⟨q, hq', rfl⟩ := List.mem_map.mp hp; exact (hq q hq').1) (fun p hp => by
        obtain ⟨q, hq', rfl⟩ := List.mem_map.mp hp; exact (hq q hq').2) h42

/-- **added members first, then kept ones** (`insertSignature` of lib/signjar) -/
theorem news_kept_parses {z : Bytes} {a : Archive} (hcdz : a.ends.cdOff ≤ z.length)
    (kms : List KM) (at_ : Nat) (hM : MeasuredL z a at_ kms) (hmem : ∀ q ∈ kms, q.2.1 ∈ a.members)
    (mt md : Nat) (hmt : mt < 2 ^ 16) (hmd : md < 2 ^ 16) (news : List NewMember) (hnews : ∀ n ∈ news, NewOK n)
    (hx : ∀ q ∈ keptPMs z kms (newEntries mt md news 0).2.length, dirHeaderOK q.1 = true)
    (force : Bool) (B cd eod : Bytes) (fs : List File)
    (hB : B = (newEntries mt md news 0).2 ++ keptBytesK z kms)
    (hfs : fs = (newEntries mt md news 0).1 ++ (keptPMs z kms (newEntries mt md news 0).2.length).map (·.1))
    (hcd : cd = (headersOf fs).1) (heod : eod = endRecords fs.length cd.length B.length force (maxReader fs))
    (hbound : B.length + cd.length < 2 ^ 64) :
    ∃ a', parse (B ++ cd ++ eod) = some a' ∧
      MsFor (B ++ cd ++ eod) B.length ((newPMs mt md news 0 ++ keptPMs z kms (newEntries mt md news 0).2.length).map (·.2)) a'.members ∧
      specView (B ++ cd ++ eod) = some (newViews mt md news 0 ++ keptViews z kms (newEntries mt md news 0).2.length) ∧
      a'.ends.cdOff = B.length ∧ a'.ends.comment = [] ∧ a'.ends.count = fs.length ∧
      a'.ends.first = B.length + cd.length ∧ a'.ends.zip64 = needZip64 fs.length cd.length B.length force (maxReader fs) ∧
      ((∀ q ∈ newPMs mt md news 0 ++ keptPMs z kms (newEntries mt md news 0).2.length, fixedNeed q.2.e.need = true ∧ PMWidthOK q.2) →
        42 ≤ (B ++ cd ++ eod).length →
        noComment a' (B ++ cd ++ eod) = true ∧ descSigned a' = true ∧ zip64Fixed a' = true ∧ (a'.members.all (widthOK a')) = true) := by
  have hkl := keptBytesK_length hcdz kms at_ hM
  generalize hL : (newEntries mt md news 0).2.length = L at *
  have hBl : B.length = L + keptLenK kms := by rw [hB, List.length_append, hkl, hL]
  obtain ⟨ke, ks⟩ := kept_segment hcdz kms at_ (newEntries mt md news 0).2 [] L hM hmem hL (by omega) hx
  obtain ⟨ne, ns⟩ := news_segment mt md hmt hmd news 0 [] (keptBytesK z kms) hnews rfl (by omega)
  simp only [List.nil_append, Nat.zero_add] at ns
  simp only [List.append_nil] at ks
  rw [← hB] at ks ns
  rw [hL] at ns
  have hseg := PMsSeg_append _ _ _ _ _ ns ks
  rw [← hBl, ← List.map_append] at hseg
  have hfs' : fs = (newPMs mt md news 0 ++ keptPMs z kms L).map (·.1) := by
    rw [hfs, List.map_append, newPMs_files]
  obtain ⟨a', hp', hfor, h1, h2, h3, h4, h5⟩ := parse_assembled B (newPMs mt md news 0 ++ keptPMs z kms L) force fs cd eod
    hfs' hcd heod (by
      intro q hq
      rcases List.mem_append.mp hq with hq | hq
      · exact ne q hq
      · exact ke q hq) hseg hbound
  refine ⟨a', hp', hfor, ?_, h1, h2, by rw [h3, hfs', List.length_map], h4, h5, ?_⟩
  · rw [specView_of_parse hp' hfor, List.map_map, List.map_append]
    have e1 := keptPMs_views hcdz kms at_ L hM hmem (by omega) hx
    have e2 := newPMs_views mt md news 0 hnews
    simp only [Function.comp_def]
    rw [e1, e2]
  · intro hq h42
    exact assembled_readable hseg hfor h1 h2 (fun p hp => by
        obtain ⟨q, hq', rfl⟩ := List.mem_map.mp hp; exact (hq q hq').1) (fun p hp => by
        obtain ⟨q, hq', rfl⟩ := List.mem_map.mp hp; exact (hq q hq').2) h42

/-! ### how long the re-emitted directory can get -/


def lenSum : List KM → Nat
  | [] => 0
  | (_, sm, _) :: r => sm.entry.len + lenSum r

theorem measured_lens {z : Bytes} {a : Archive} : ∀ (kms : List KM) (at_ : Nat), MeasuredL z a at_ kms →
    at_ + lenSum kms ≤ max at_ a.ends.first ∧ 46 * kms.length ≤ lenSum kms := by
  intro kms
  induction kms with
  | nil => intro at_ _; simp [lenSum]; omega
  | cons q r ih =>
    intro at_ hM
    obtain ⟨k, sm, m⟩ := q
    obtain ⟨_, hat, _, _, _, _, _, _, hrest⟩ := hM
    obtain ⟨b1, _, _, b4, r', _, hr⟩ := entryAt_some hat
    have hlen : sm.entry.len = 46 + fld (z.drop at_) 28 2 + fld (z.drop at_) 30 2 + fld (z.drop at_) 32 2 := by rw [hr]; rfl
    obtain ⟨i1, i2⟩ := ih _ hrest
    simp only [lenSum, List.length_cons]
    refine ⟨by omega, by omega⟩

/-- the re-emitted directory is at most 28 bytes per kept entry longer than the original records -/
theorem keptHeaders_length {z : Bytes} {a : Archive} (hcdz : a.ends.cdOff ≤ z.length) :
    ∀ (kms : List KM) (at_ L : Nat), MeasuredL z a at_ kms → (∀ q ∈ kms, q.2.1 ∈ a.members) → L + keptLenK kms < 2 ^ 64 →
    (∀ q ∈ keptPMs z kms L, dirHeaderOK q.1 = true) →
    (headersOf ((keptPMs z kms L).map (·.1))).1.length ≤ lenSum kms + 28 * kms.length := by
  intro kms
  induction kms with
  | nil => intro _ _ _ _ _ _; simp [keptPMs, headersOf]
  | cons q r ih =>
    intro at_ L hM hmem hb hx
    obtain ⟨k, sm, m⟩ := q
    obtain ⟨hmo, hat, hg, ⟨l, ddb, hfile⟩, hdo, hT0, hT1, hTle, hrest⟩ := hM
    have hmem' : ∀ q ∈ r, q.2.1 ∈ a.members := fun q hq => hmem q (List.mem_cons_of_mem _ hq)
    cases k with
    | false =>
      simp only [keptPMs, keptLenK, Bool.false_eq_true, if_false, Nat.zero_add, lenSum, List.length_cons] at hb hx ⊢
      have := ih _ L hrest hmem' hb hx
      omega
    | true =>
      simp only [keptPMs, keptLenK, if_true, lenSum, List.length_cons, List.map_cons, headersOf_cons, List.length_append] at hb ⊢
      simp only [keptPMs, if_true] at hx
      have hT1' : sm.entry.flags % 16 / 8 = 1 → ∃ w, w ∈ sm.descWidths ∧ (w = 16 ∨ w = 24) ∧
          sm.entry.hoff + m.total = sm.dataOff + sm.entry.csize + w := by
        intro hd; obtain ⟨w, h1, h2, h3, _⟩ := hT1 hd; exact ⟨w, h1, h2, h3⟩
      obtain ⟨k1, _, _, _, _, v1, _, _, _, _, _, v7, v8⟩ := kept_pm (o := L) hmo hcdz hat hfile hT0 hT1' (by omega)
        (hx _ (List.mem_cons_self ..))
      have hb15 := (entryAt_bounds hat).2.2.2.2.2.2.2.2.2.2.2.2.2.2
      have hlen : (keptEntry sm.entry (placed L m) L).len = 46 + (keptEntry sm.entry (placed L m) L).name.length +
          (keptEntry sm.entry (placed L m) L).extra.length + (keptEntry sm.entry (placed L m) L).comment.length := by
        unfold keptEntry
        split
        · exact hb15
        · rfl
      have hxl : (keptEntry sm.entry (placed L m) L).extra.length ≤ sm.entry.extra.length + 28 := by
        rw [v8]; split
        · simp only [List.length_append, z64Extra_length]; omega
        · omega
      have := ih _ (L + m.total) hrest hmem' (by omega) (fun q hq => hx q (List.mem_cons_of_mem _ hq))
      rw [← k1.2, hlen, v1, v7]
      omega


/-! ### the placed members of a rewrite are again readable -/


/-- the kept members' entries keep fixed-layout ZIP64 markers and recognisable descriptors -/
theorem keptPMs_readable {z : Bytes} {a : Archive} (hcdz : a.ends.cdOff ≤ z.length)
    (hfix : (a.members.all fun m => fixedNeed m.entry.need) = true) (hw : (a.members.all (widthOK a)) = true) :
    ∀ (kms : List KM) (at_ L : Nat), MeasuredL z a at_ kms → (∀ q ∈ kms, q.2.1 ∈ a.members) → L + keptLenK kms < 2 ^ 64 →
    (∀ q ∈ keptPMs z kms L, dirHeaderOK q.1 = true) →
    ∀ q ∈ keptPMs z kms L, fixedNeed q.2.e.need = true ∧ PMWidthOK q.2 := by
  intro kms
  induction kms with
  | nil => intro _ _ _ _ _ _ q hq; simp [keptPMs] at hq
  | cons q0 r ih =>
    intro at_ L hM hmem hb hx q hq
    obtain ⟨k, sm, m⟩ := q0
    have hM' := hM
    obtain ⟨hmo, hat, hg, ⟨l, ddb, hfile⟩, hdo, hT0, hT1, hTle, hrest⟩ := hM
    have hmem' : ∀ q ∈ r, q.2.1 ∈ a.members := fun q hq => hmem q (List.mem_cons_of_mem _ hq)
    cases k with
    | false =>
      simp only [keptPMs, keptLenK, Bool.false_eq_true, if_false, Nat.zero_add] at hb hq hx
      exact ih _ L hrest hmem' hb hx q hq
    | true =>
      simp only [keptPMs, keptLenK, if_true] at hb hq hx
      rcases List.mem_cons.mp hq with rfl | hq
      · have hsm := hmem _ (List.mem_cons_self ..)
        simp only at hsm
        have hT1' : sm.entry.flags % 16 / 8 = 1 → ∃ w, w ∈ sm.descWidths ∧ (w = 16 ∨ w = 24) ∧
            sm.entry.hoff + m.total = sm.dataOff + sm.entry.csize + w := by
          intro hd; obtain ⟨w, h1, h2, h3, _⟩ := hT1 hd; exact ⟨w, h1, h2, h3⟩
        obtain ⟨_, _, krec, _, k5, v1, v2, v3, v4, v5, v6, v7, v8⟩ := kept_pm (o := L) hmo hcdz hat hfile hT0 hT1' (by omega)
          (hx _ (List.mem_cons_self ..))
        simp only [List.all_eq_true] at hfix hw
        refine ⟨?_, ?_⟩
        · simp only
          unfold keptEntry
          split
          · exact hfix sm hsm
          · simp only [synthEntry, fixedNeed]
            cases decide (synthBig (placed L m)) <;> rfl
        · simp only [PMWidthOK, v3, v5, v6]
          intro hd
          obtain ⟨w, hwm, hw2, hT, htw⟩ := hT1 hd
          have hwok := hw sm hsm
          unfold widthOK at hwok
          have hemp : sm.descWidths.isEmpty = false := by
            cases hh : sm.descWidths with
            | nil => rw [hh] at hwm; cases hwm
            | cons _ _ => rfl
          rw [hemp, Bool.false_or, htw] at hwok
          simp only [Bool.and_eq_true, Bool.or_eq_true, bne_iff_ne, ne_eq, decide_eq_true_eq] at hwok
          -- the extent ends with the descriptor of the true width
          have hlen := krec.len
          have hxd := krec.desc (by rw [v3]; exact hd)
          obtain ⟨wd, _, hxl, _⟩ := hxd
          rw [v5] at hxl hlen
          have hoff : m.file.offset = sm.entry.hoff := by rw [hfile]; rfl
          obtain ⟨_, _, _, _, _, _, _, hdo', _, _⟩ := memberOf_some hmo
          have hext : extent z m = (z.drop sm.entry.hoff).take m.total := by unfold extent; rw [hoff]
          have f26 : fld (extent z m) 26 2 = fld (z.drop sm.entry.hoff) 26 2 := by rw [hext]; exact fld_take _ _ 26 2 (by omega)
          have f28 : fld (extent z m) 28 2 = fld (z.drop sm.entry.hoff) 28 2 := by rw [hext]; exact fld_take _ _ 28 2 (by omega)
          have hxw : (extent z m).length = 30 + fld (extent z m) 26 2 + fld (extent z m) 28 2 + sm.entry.csize + w := by
            rw [k5, f26, f28]; omega
          obtain ⟨c1, c2⟩ := hwok
          refine ⟨?_, ?_⟩
          · rcases c1 with h | h
            · left; rw [hxw]; omega
            · right; exact h
          · rcases c2 with (h | h) | h
            · left; rw [hxw]; omega
            · right; left; exact h
            · right; right; exact h
      · exact ih _ (L + m.total) hrest hmem' (by omega) (fun q hq => hx q (List.mem_cons_of_mem _ hq)) q hq

/-- what the class `relicReadable` asks of a requested member: a descriptor (`useDesc`) that `readDataDesc` will
    recognise as 24 bytes wide — false exactly for the empty member (F7a) -/
def NewReadable (n : NewMember) : Prop :=
  n.useDesc = true → (n.usize ≥ 0xffffffff ∨ n.compd.length / 2 ^ 32 % 2 ^ 32 ≠ n.usize % 2 ^ 32)

theorem newPMs_readable (mt md : Nat) : ∀ (news : List NewMember) (o : Nat), (∀ n ∈ news, NewOK n ∧ NewReadable n) →
    ∀ q ∈ newPMs mt md news o, fixedNeed q.2.e.need = true ∧ PMWidthOK q.2 := by
  intro news
  induction news with
  | nil => intro _ _ q hq; simp [newPMs] at hq
  | cons n ns ih =>
    intro o hok q hq
    simp only [newPMs] at hq
    rcases List.mem_cons.mp hq with rfl | hq
    · obtain ⟨hn, hr⟩ := hok n (List.mem_cons_self ..)
      refine ⟨?_, ?_⟩
      · simp only [synthEntry, fixedNeed]
        cases decide (synthBig (newEntryAt mt md n o)) <;> rfl
      · intro hd
        have hfl : (synthEntry (newEntryAt mt md n o)).flags = if n.useDesc then 8 else 0 := rfl
        simp only at hd
        rw [hfl] at hd
        have hu : n.useDesc = true := by
          cases hu : n.useDesc
          · rw [hu] at hd; simp at hd
          · rfl
        obtain ⟨e26, e28⟩ := newBytes_fld mt md n hn.name (by have := hn.extra; omega)
        have hlen := newBytes_length mt md n
        have hdl : (newDdb n).length = 24 := by unfold newDdb; rw [if_pos hu]; simp
        have hcs : (synthEntry (newEntryAt mt md n o)).csize = n.compd.length := rfl
        have hus : (synthEntry (newEntryAt mt md n o)).usize = n.usize := rfl
        simp only
        rw [e26, e28, hlen, hdl, hcs, hus]
        refine ⟨Or.inl (by omega), ?_⟩
        rcases hr hu with h | h
        · right; left; exact h
        · right; right; exact h
    · exact ih _ (fun x hx => hok x (List.mem_cons_of_mem _ hx)) q hq

end Relic.Zip

/-
  `Close` at byte level: every live stream reads back the same after writeShortSAT, writeDirStream,
  allocSectorTables, writeSAT, writeMSAT, the header rewrite and the final Truncate; and the sectors Close wrote hold
  the serialised tables of the final state (`tables_roundtrip`, sector level).
-/
import Relic.Proofs.CfbBytesInv
namespace Relic.CfbB
open Relic Relic.CfbW Relic.Cfb Relic.Props.C18

/-! ### free a chain, allocate and link a new one (writeShortSAT, writeDirStream) -/

theorem realloc_fam {τ : Type} [DecidableEq τ] {sat : List Int} {H : τ → Option Int} (ok : FamOK sat H)
    (t0 : τ) (h0 : Int) (l0 : List Nat) (ht0 : H t0 = some h0) (hl0 : chain sat h0 = some l0)
    {sat0 : List Int} (hfree : freeSectors sat h0 = .ok sat0)
    {spb n : Nat} {fl : List Nat} {sat1 : List Int} (hm : makeFree spb sat0 n = .ok (fl, sat1)) :
    FamOK (linkFin EOC fl sat1) (fun t => if t = t0 then some (headInt fl) else H t) ∧
    chain (linkFin EOC fl sat1) (headInt fl) = some fl ∧
    (∀ t h l, t ≠ t0 → H t = some h → chain sat h = some l →
      chain (linkFin EOC fl sat1) h = some l ∧ ∀ x ∈ l, x ∉ fl) ∧
    (∀ (j : Nat) (v : Int), sat[j]? = some v → v ≤ -3 → (linkFin EOC fl sat1)[j]? = some v ∧ j ∉ fl) := by
  obtain ⟨sat0', e1, _, e3, e4, _⟩ := free_then_alloc sat h0 l0 hl0
  rw [hfree] at e1; cases e1
  obtain ⟨c1, c2, c3, _, _⟩ := link_fresh hm
  have fresh := (makeFree_spec hm).wasFree
  have rem := ok.remove t0 h0 l0 ht0 hl0 e4
  have add := rem.add (fun _ h l _ hl => c3 h l hl) t0 (headInt fl) fl c1 fresh
  have keep0 : ∀ t h l, t ≠ t0 → H t = some h → chain sat h = some l → chain sat0 h = some l :=
    fun t h l hne ht hl => e4 h l hl (ok.disj t t0 h h0 l l0 hne ht ht0 hl hl0)
  refine ⟨add.congr (fun t => by by_cases e : t = t0 <;> simp [e]), c1, ?_, ?_⟩
  · intro t h l hne ht hl
    have h0' := keep0 t h l hne ht hl
    exact ⟨c3 h l h0', fun x hx hmem => chain_not_fresh h0' x hx (fresh x hmem)⟩
  · intro j v hj hv
    have hnl : j ∉ l0 := by
      intro hmem
      obtain ⟨w, hw, hw'⟩ := (chain_iff.mp hl0).entry j hmem
      rw [hj] at hw; cases hw; omega
    have hj0 : sat0[j]? = some v := by rw [e3]; simp [hnl, hj]
    refine ⟨c2 j v hj0 (by omega), fun hmem => ?_⟩
    rcases fresh j hmem with hf | hf
    · rw [hj0] at hf; cases hf; omega
    · have := (List.getElem?_eq_some_iff.mp hj0).1; omega

/-! ### lastUsed and Truncate -/

def luStep (acc : Nat) (p : Int × Nat) : Nat := if p.1 ≠ FREE then p.2 + 1 else acc

theorem lu_mono : ∀ (l : List Int) (k acc : Nat),
    (l.zipIdx k).foldl luStep acc = acc ∨ k < (l.zipIdx k).foldl luStep acc := by
  intro l
  induction l with
  | nil => intro k acc; left; rfl
  | cons z r ih =>
    intro k acc
    rw [List.zipIdx_cons, List.foldl_cons]
    by_cases hz : z ≠ FREE
    · have e : luStep acc (z, k) = k + 1 := by simp only [luStep]; rw [if_pos hz]
      rw [e]
      rcases ih (k + 1) (k + 1) with h | h
      · right; rw [h]; omega
      · right; omega
    · have e : luStep acc (z, k) = acc := by simp only [luStep]; rw [if_neg hz]
      rw [e]
      rcases ih (k + 1) acc with h | h
      · left; exact h
      · right; omega

theorem lu_gen : ∀ (l : List Int) (k acc : Nat) (x : Nat) (v : Int), l[x]? = some v → v ≠ FREE →
    k + x < (l.zipIdx k).foldl luStep acc := by
  intro l
  induction l with
  | nil => intro k acc x v h; simp at h
  | cons y rest ih =>
    intro k acc x v hx hv
    rw [List.zipIdx_cons, List.foldl_cons]
    cases x with
    | zero =>
      simp only [List.getElem?_cons_zero, Option.some.injEq] at hx
      subst hx
      have e : luStep acc (y, k) = k + 1 := by simp only [luStep]; rw [if_pos hv]
      rw [e]
      rcases lu_mono rest (k + 1) (k + 1) with h | h
      · rw [h]; omega
      · omega
    | succ x =>
      simp only [List.getElem?_cons_succ] at hx
      have := ih (k + 1) (luStep acc (y, k)) x v hx hv
      omega

/-- every sector whose FAT entry is not FREESECT lies below `lastUsed` -/
theorem lastUsed_spec (sat : List Int) (x : Nat) (v : Int) (hx : sat[x]? = some v) (hv : v ≠ FREE) :
    x < lastUsed sat := by
  have := lu_gen sat 0 0 x v hx hv
  have e : lastUsed sat = (sat.zipIdx 0).foldl luStep 0 := rfl
  rw [e]; omega

theorem getSec_truncSecs {f : File} {n s : Nat} (h : s < n) : getSec (truncSecs f n) s = getSec f s := by
  unfold getSec truncSecs
  simp only
  rw [List.getElem?_take_of_lt h]
  by_cases hs : s < f.secs.length
  · rw [List.getElem?_append_left hs]
  · rw [List.getElem?_append_right (by omega), List.getElem?_eq_none (l := f.secs) (by omega)]
    simp only [List.getElem?_replicate]
    split <;> rfl

theorem truncSecs_WF {f : File} (h : WF f) (n : Nat) : WF (truncSecs f n) := by
  refine ⟨h.pos, h.pre, ?_⟩
  intro s hs
  have hs' := List.mem_of_mem_take hs
  rcases List.mem_append.mp hs' with h1 | h1
  · exact h.secs s h1
  · rw [(List.mem_replicate.mp h1).2]; simp [zeros, truncSecs]

/-! ### allocSectorTables -/

/-- FAT / DIFAT sectors: non-negative, marked in the FAT, listed once -/
structure MarksOK (sat : List Int) (marks : List Int) : Prop where
  marked : ∀ s ∈ marks, 0 ≤ s ∧ ∃ v, sat[s.toNat]? = some v ∧ v ≤ -3
  nodup : marks.Nodup

/-- one new table sector: a free entry becomes a mark -/
theorem mark_one {τ : Type} {spb : Nat} {sat : List Int} {H : τ → Option Int} {x : Nat} {rest : List Nat} {sat1 : List Int}
    {mark : Int} (hmark : mark ≤ -3) (ok : FamOK sat H) (hm : makeFree spb sat 1 = .ok (x :: rest, sat1)) :
    x < sat1.length ∧ FamOK (sat1.set x mark) H ∧
    (∀ h l, chain sat h = some l → chain (sat1.set x mark) h = some l ∧ x ∉ l) ∧
    (∀ (j : Nat) (v : Int), sat[j]? = some v → v ≠ FREE → (sat1.set x mark)[j]? = some v ∧ j ≠ x) ∧
    (sat1.set x mark)[x]? = some mark ∧ sat.length ≤ (sat1.set x mark).length := by
  have f := makeFree_spec hm
  have hx := f.isFree x List.mem_cons_self
  have hxl : x < sat1.length := (List.getElem?_eq_some_iff.mp hx).1
  obtain ⟨k, hext⟩ := f.ext
  have up : ∀ (j : Nat) (v : Int), sat[j]? = some v → sat1[j]? = some v := by
    intro j v hj
    rw [hext, List.getElem?_append_left (List.getElem?_eq_some_iff.mp hj).1]; exact hj
  have keep : ∀ (j : Nat) (v : Int), sat[j]? = some v → v ≠ FREE → (sat1.set x mark)[j]? = some v ∧ j ≠ x := by
    intro j v hj hv
    have hne : j ≠ x := by
      intro e; subst e
      have := up j v hj
      rw [hx] at this; cases this; exact hv rfl
    exact ⟨by rw [List.getElem?_set_ne (Ne.symm hne)]; exact up j v hj, hne⟩
  have chains : ∀ h l, chain sat h = some l → chain (sat1.set x mark) h = some l ∧ x ∉ l := by
    intro h l hl
    have hl' := chain_iff.mp hl
    have hxl' : x ∉ l := fun hmem => chain_not_fresh hl x hmem (f.wasFree x List.mem_cons_self)
    refine ⟨chain_iff.mpr (IsChain.congr ?_ hl'), hxl'⟩
    intro y hy
    obtain ⟨v, hv, hv'⟩ := hl'.entry y hy
    rw [(keep y v hv (by omega)).1, hv]
  refine ⟨hxl, ok.frame (fun _ h l _ hl => (chains h l hl).1) (fun _ _ h => h), chains, keep,
    by simp [hxl], by rw [hext]; simp⟩

theorem allocTables_inv {τ : Type} (ss : Nat) (H : τ → Option Int) : ∀ (fuel : Nat) (sat msat ml sat' msat' ml' : List Int),
    FamOK sat H → MarksOK sat (msat ++ ml) →
    allocTables ss fuel sat msat ml = .ok (sat', msat', ml') →
    FamOK sat' H ∧ MarksOK sat' (msat' ++ ml') ∧
    (∀ h l, chain sat h = some l → chain sat' h = some l) ∧
    (∀ (j : Nat) (v : Int), sat[j]? = some v → v ≠ FREE → sat'[j]? = some v) ∧
    (∀ h l, chain sat h = some l → ∀ s ∈ msat' ++ ml', s.toNat ∉ l) ∧
    sat.length ≤ sat'.length ∧ (∃ m, msat' = msat ++ m) ∧ (∃ m, ml' = ml ++ m) := by
  intro fuel
  induction fuel with
  | zero => intro sat msat ml sat' msat' ml' _ _ h; simp [allocTables] at h
  | succ fuel ih =>
    intro sat msat ml sat' msat' ml' ok mk h
    have notOnChain : ∀ h l, chain sat h = some l → ∀ s ∈ msat ++ ml, s.toNat ∉ l := by
      intro h l hl s hs hmem
      obtain ⟨_, v, hv, hv'⟩ := mk.marked s hs
      obtain ⟨w, hw, hw'⟩ := (chain_iff.mp hl).entry _ hmem
      rw [hv] at hw; cases hw; omega
    -- a fresh sector is not among the marks
    have freshNotMark : ∀ (x : Nat), (sat[x]? = some FREE ∨ sat.length ≤ x) → (x : Int) ∉ msat ++ ml := by
      intro x hx hmem
      obtain ⟨_, v, hv, hv'⟩ := mk.marked _ hmem
      simp only [Int.toNat_natCast] at hv
      rcases hx with hx | hx
      · rw [hv] at hx; cases hx; omega
      · have := (List.getElem?_eq_some_iff.mp hv).1; omega
    unfold allocTables at h
    simp only at h
    split at h
    · cases h
    · split at h
      · cases h
      · split at h
        · -- a new FAT sector
          split at h
          · rename_i x rest sat1 hm
            obtain ⟨hxl, ok', ch', keep', hx', hlen'⟩ := mark_one (mark := FATSECT) (by omega) ok hm
            rw [setChk_ok _ _ hxl] at h
            simp only at h
            have fresh := (makeFree_spec hm).wasFree x List.mem_cons_self
            have mk' : MarksOK (sat1.set x FATSECT) (msat ++ [(x : Int)] ++ ml) := by
              refine ⟨?_, ?_⟩
              · intro s hs
                simp only [List.mem_append, List.mem_singleton] at hs
                rcases hs with (hs | hs) | hs
                · obtain ⟨p, v, hv, hv'⟩ := mk.marked s (List.mem_append_left _ hs)
                  exact ⟨p, v, (keep' _ v hv (by omega)).1, hv'⟩
                · subst hs; exact ⟨by omega, FATSECT, by simpa using hx', by omega⟩
                · obtain ⟨p, v, hv, hv'⟩ := mk.marked s (List.mem_append_right _ hs)
                  exact ⟨p, v, (keep' _ v hv (by omega)).1, hv'⟩
              · have hn := mk.nodup
                have hnot := freshNotMark x fresh
                rw [List.nodup_append] at hn ⊢
                obtain ⟨n1, n2, n3⟩ := hn
                refine ⟨?_, n2, ?_⟩
                · rw [List.nodup_append]
                  exact ⟨n1, by simp, fun a ha b hb hab => by
                    simp at hb; subst hb; subst hab; exact hnot (List.mem_append_left _ ha)⟩
                · intro a ha b hb hab
                  rcases List.mem_append.mp ha with ha | ha
                  · exact n3 a ha b hb hab
                  · simp at ha; subst ha; subst hab; exact hnot (List.mem_append_right _ hb)
            obtain ⟨r1, r2, r3, r4, r5, r6, ⟨m1, r7⟩, r8⟩ := ih _ _ _ _ _ _ ok' mk' h
            refine ⟨r1, r2, fun h l hl => r3 h l (ch' h l hl).1, fun j v hj hv => r4 j v (keep' j v hj hv).1 hv,
              fun h l hl => r5 h l (ch' h l hl).1, by omega, ⟨(x : Int) :: m1, by rw [r7]; simp⟩, r8⟩
          all_goals cases h
        · split at h
          · cases h
          · split at h
            · -- a new DIFAT sector
              split at h
              · rename_i x rest sat1 hm
                obtain ⟨hxl, ok', ch', keep', hx', hlen'⟩ := mark_one (mark := DIFSECT) (by omega) ok hm
                rw [setChk_ok _ _ hxl] at h
                simp only at h
                have fresh := (makeFree_spec hm).wasFree x List.mem_cons_self
                have mk' : MarksOK (sat1.set x DIFSECT) (msat ++ (ml ++ [(x : Int)])) := by
                  refine ⟨?_, ?_⟩
                  · intro s hs
                    simp only [List.mem_append, List.mem_singleton] at hs
                    rcases hs with hs | hs | hs
                    · obtain ⟨p, v, hv, hv'⟩ := mk.marked s (List.mem_append_left _ hs)
                      exact ⟨p, v, (keep' _ v hv (by omega)).1, hv'⟩
                    · obtain ⟨p, v, hv, hv'⟩ := mk.marked s (List.mem_append_right _ hs)
                      exact ⟨p, v, (keep' _ v hv (by omega)).1, hv'⟩
                    · subst hs; exact ⟨by omega, DIFSECT, by simpa using hx', by omega⟩
                  · have hn := mk.nodup
                    have hnot := freshNotMark x fresh
                    rw [← List.append_assoc, List.nodup_append]
                    exact ⟨hn, by simp, fun a ha b hb hab => by simp at hb; subst hb; subst hab; exact hnot ha⟩
                obtain ⟨r1, r2, r3, r4, r5, r6, r7, ⟨m1, r8⟩⟩ := ih _ _ _ _ _ _ ok' mk' h
                refine ⟨r1, r2, fun h l hl => r3 h l (ch' h l hl).1, fun j v hj hv => r4 j v (keep' j v hj hv).1 hv,
                  fun h l hl => r5 h l (ch' h l hl).1, by omega, r7, ⟨(x : Int) :: m1, by rw [r8]; simp⟩⟩
              all_goals cases h
            · cases h
              exact ⟨ok, mk, fun _ _ h => h, fun _ _ h _ => h, notOnChain, Nat.le_refl _, ⟨[], by simp⟩, ⟨[], by simp⟩⟩

/-! ### one rewrite of a table chain (mini-FAT, directory) -/

theorem realloc_phase {τ : Type} [DecidableEq τ] {sat : List Int} {H : τ → Option Int} (ok : FamOK sat H)
    (t0 : τ) (h0 : Int) (ht0 : H t0 = some h0) {f : File} (hwf : WF f) {spb n : Nat} {chunk : Nat → Bytes}
    {sat0 : List Int} (hfree : freeSectors sat h0 = .ok sat0)
    {fl : List Nat} {sat1 : List Int} (hm : makeFree spb sat0 n = .ok (fl, sat1))
    {first prev : Int} {sat2 : List Int} {k : Nat} {f' : File}
    (hl : linkLoop (wChunk chunk) fl EOC EOC sat1 (0, f) = .ok (first, prev, sat2, (k, f'))) (site : String) :
    first = headInt fl ∧ terminate sat2 prev = .ok (linkFin EOC fl sat1) ∧
    (0 ≤ prev → setChk sat2 prev.toNat EOC site = .ok (linkFin EOC fl sat1)) ∧ fl.length = n ∧
    FamOK (linkFin EOC fl sat1) (fun t => if t = t0 then some first else H t) ∧
    chain (linkFin EOC fl sat1) first = some fl ∧
    (∀ t h l, t ≠ t0 → H t = some h → chain sat h = some l →
      chain (linkFin EOC fl sat1) h = some l ∧ ∀ x ∈ l, getSec f' x = getSec f x) ∧
    (∀ (j : Nat) (v : Int), sat[j]? = some v → v ≤ -3 → (linkFin EOC fl sat1)[j]? = some v ∧ getSec f' j = getSec f j) ∧
    WF f' ∧ f'.ss = f.ss ∧ f'.pre = f.pre ∧
    (∀ j (hj : j < fl.length), getSec f' fl[j] = pad f.ss (chunk j)) := by
  obtain ⟨l0, hl0⟩ := ok.valid t0 h0 ht0
  have fr := makeFree_spec hm
  have hb : ∀ x ∈ fl, x < sat1.length := fun x hx => (List.getElem?_eq_some_iff.mp (fr.isFree x hx)).1
  have hnd : fl.Nodup := List.Pairwise.imp (fun hab => Nat.ne_of_lt hab) fr.incr
  obtain ⟨_, hw⟩ := linkLoop_proj _ fl EOC EOC sat1 _ hb (Or.inl rfl) hl
  rw [linkLoop_spec _ fl EOC EOC sat1 _ hb (Or.inl rfl), hw] at hl
  simp only [Res.ok.injEq, Prod.mk.injEq] at hl
  obtain ⟨e1, e2, e3, _⟩ := hl
  obtain ⟨w1, w2, w3, w4, w5, w6⟩ := foldW_wChunk chunk fl 0 f (k, f') hnd hw
  obtain ⟨g1, g2, g3, g4⟩ := realloc_fam ok t0 h0 l0 ht0 hl0 hfree hm
  have hf : firstOf EOC EOC fl = headInt fl := by cases fl <;> simp [firstOf, headInt]
  have hfirst : first = headInt fl := by rw [← e1, hf]
  subst e2 e3
  refine ⟨hfirst, terminate_linkPure fl EOC sat1 hb (Or.inl rfl), ?_, fr.len, by rw [hfirst]; exact g1,
    by rw [hfirst]; exact g2, ?_, ?_, w6 hwf, w2, w3, ?_⟩
  · intro hp
    have hne : lastInt EOC fl ≠ EOC := by omega
    have hbnd := lastInt_bound fl EOC sat1.length hb (Or.inl rfl)
    have hlt : (lastInt EOC fl).toNat < (linkPure EOC fl sat1).length := by
      rw [linkPure_length]; rcases hbnd with h | h; exact absurd h hne; exact h.2
    rw [setChk_ok _ _ hlt, ← linkFin_eq fl EOC sat1 hne]
  · intro t h l hne ht hl'
    obtain ⟨c1, c2⟩ := g3 t h l hne ht hl'
    exact ⟨c1, fun x hx => w4 x (c2 x hx)⟩
  · intro j v hj hv
    obtain ⟨c1, c2⟩ := g4 j v hj hv
    exact ⟨c1, w4 j c2⟩
  · intro j hj
    have := w5 j hj
    simpa using this

/-! ### writeSAT / writeMSAT -/

theorem writeSATB_spec (spb : Nat) (sat : List Int) : ∀ (msat : List Int) (i : Nat) (f f' : File),
    msat.Nodup → writeSATB spb sat msat i f = .ok f' →
    f'.ss = f.ss ∧ f'.pre = f.pre ∧ (WF f → WF f') ∧ (∀ s ∈ msat, 0 ≤ s) ∧
    (∀ t : Nat, (t : Int) ∉ msat → getSec f' t = getSec f t) ∧
    (∀ j (hj : j < msat.length), getSec f' (msat[j]).toNat = pad f.ss (encInts ((sat.drop ((i + j) * spb)).take spb))) := by
  intro msat
  induction msat with
  | nil =>
    intro i f f' _ h
    simp only [writeSATB, Res.ok.injEq] at h
    subst h
    exact ⟨rfl, rfl, id, by simp, fun _ _ => rfl, fun j hj => absurd hj (by simp)⟩
  | cons s rest ih =>
    intro i f f' hn h
    obtain ⟨hns, hnr⟩ := List.nodup_cons.mp hn
    unfold writeSATB at h
    split at h
    · cases h
    · split at h
      · cases h
      · rename_i hs0
        split at h
        · rename_i f1 hw
          obtain ⟨rfl, _⟩ := wSec_ok hw
          obtain ⟨e1, e2, e3, e4, e5, e6⟩ := ih (i + 1) _ f' hnr h
          have hs0' : 0 ≤ s := by omega
          refine ⟨by simpa using e1, by simpa using e2, fun hwf => e3 (setSec_WF hwf _ _ (pad_length _ _)), ?_, ?_, ?_⟩
          · intro x hx
            rcases List.mem_cons.mp hx with rfl | hx
            · exact hs0'
            · exact e4 x hx
          · intro t ht
            have ht1 : (t : Int) ∉ rest := fun h => ht (List.mem_cons_of_mem _ h)
            have ht2 : t ≠ s.toNat := by
              intro e; apply ht; rw [e]; simp [Int.toNat_of_nonneg hs0']
            rw [e5 t ht1, getSec_setSec]; simp [ht2]
          · intro j hj
            cases j with
            | zero =>
              simp only [List.getElem_cons_zero, Nat.add_zero]
              have : ((s.toNat : Nat) : Int) ∉ rest := by rw [Int.toNat_of_nonneg hs0']; exact hns
              rw [e5 _ this, getSec_setSec]; simp
            | succ j =>
              simp only [List.getElem_cons_succ]
              have := e6 j (by simpa using hj)
              simp only [setSec_ss] at this
              rw [this]; congr 5; omega
        all_goals cases h

theorem writeMSATB_spec (spb : Nat) (tail : List Int) : ∀ (ml : List Int) (i : Nat) (f f' : File),
    ml.Nodup → writeMSATB spb tail ml i f = .ok f' →
    f'.ss = f.ss ∧ f'.pre = f.pre ∧ (WF f → WF f') ∧ (∀ s ∈ ml, 0 ≤ s) ∧
    (∀ t : Nat, (t : Int) ∉ ml → getSec f' t = getSec f t) ∧
    (∀ j (hj : j < ml.length), getSec f' (ml[j]).toNat =
      pad f.ss (encInts ((tail.drop ((i + j) * (spb - 1))).take (spb - 1) ++ [(ml.drop (j + 1)).headD EOC]))) := by
  intro ml
  induction ml with
  | nil =>
    intro i f f' _ h
    simp only [writeMSATB, Res.ok.injEq] at h
    subst h
    exact ⟨rfl, rfl, id, by simp, fun _ _ => rfl, fun j hj => absurd hj (by simp)⟩
  | cons s rest ih =>
    intro i f f' hn h
    obtain ⟨hns, hnr⟩ := List.nodup_cons.mp hn
    unfold writeMSATB at h
    simp only at h
    split at h
    · cases h
    · split at h
      · cases h
      · rename_i hs0
        split at h
        · rename_i f1 hw
          obtain ⟨rfl, _⟩ := wSec_ok hw
          obtain ⟨e1, e2, e3, e4, e5, e6⟩ := ih (i + 1) _ f' hnr h
          have hs0' : 0 ≤ s := by omega
          refine ⟨by simpa using e1, by simpa using e2, fun hwf => e3 (setSec_WF hwf _ _ (pad_length _ _)), ?_, ?_, ?_⟩
          · intro x hx
            rcases List.mem_cons.mp hx with rfl | hx
            · exact hs0'
            · exact e4 x hx
          · intro t ht
            have ht1 : (t : Int) ∉ rest := fun h => ht (List.mem_cons_of_mem _ h)
            have ht2 : t ≠ s.toNat := by
              intro e; apply ht; rw [e]; simp [Int.toNat_of_nonneg hs0']
            rw [e5 t ht1, getSec_setSec]; simp [ht2]
          · intro j hj
            cases j with
            | zero =>
              simp only [List.getElem_cons_zero, Nat.add_zero, Nat.zero_add, List.drop_succ_cons, List.drop_zero]
              have : ((s.toNat : Nat) : Int) ∉ rest := by rw [Int.toNat_of_nonneg hs0']; exact hns
              rw [e5 _ this, getSec_setSec]; simp
            | succ j =>
              simp only [List.getElem_cons_succ, List.drop_succ_cons]
              have := e6 j (by simpa using hj)
              simp only [setSec_ss] at this
              rw [this]; congr 6; omega
        all_goals cases h

/-! ### rebuildTree touches colours and links only -/

/-- name, class id, state bits and time stamps -/
def metaEq (e e' : DirEntry) : Prop :=
  e'.units = e.units ∧ e'.nameLen = e.nameLen ∧ e'.clsid = e.clsid ∧ e'.state = e.state ∧
  e'.ctime = e.ctime ∧ e'.mtime = e.mtime

theorem metaEq.refl (e : DirEntry) : metaEq e e := ⟨rfl, rfl, rfl, rfl, rfl, rfl⟩
theorem metaEq.trans {a b c : DirEntry} (h1 : metaEq a b) (h2 : metaEq b c) : metaEq a c :=
  ⟨h2.1.trans h1.1, h2.2.1.trans h1.2.1, h2.2.2.1.trans h1.2.2.1, h2.2.2.2.1.trans h1.2.2.2.1,
   h2.2.2.2.2.1.trans h1.2.2.2.2.1, h2.2.2.2.2.2.trans h1.2.2.2.2.2⟩

theorem getD_set_meta (ents : List DirEntry) (k : Nat) (e' : DirEntry) (h : metaEq (ents.getD k zeroEntry) e') (i : Nat) :
    metaEq (ents.getD i zeroEntry) ((ents.set k e').getD i zeroEntry) := by
  by_cases hk : k < ents.length
  · by_cases e : i = k
    · subst e; simp [List.getD_eq_getElem?_getD, hk] at h ⊢; exact h
    · simp only [List.getD_eq_getElem?_getD, List.getElem?_set_ne (Ne.symm e)]; exact metaEq.refl _
  · rw [List.set_eq_of_length_le (by omega)]; exact metaEq.refl _

theorem setLinks_meta : ∀ (l : List (Bool × Nat × Nat × Nat)) (ents : List DirEntry),
    (setLinks ents l).length = ents.length ∧ ∀ i, metaEq (ents.getD i zeroEntry) ((setLinks ents l).getD i zeroEntry) := by
  intro l
  induction l with
  | nil => intro ents; exact ⟨rfl, fun _ => metaEq.refl _⟩
  | cons p rest ih =>
    intro ents
    obtain ⟨red, k, lft, rgt⟩ := p
    simp only [setLinks]
    obtain ⟨h1, h2⟩ := ih (ents.set k { ents.getD k zeroEntry with color := if red then 0 else 1, left := lft, right := rgt })
    refine ⟨by rw [h1]; simp, fun i => ?_⟩
    exact (getD_set_meta ents k { ents.getD k zeroEntry with color := if red then 0 else 1, left := lft, right := rgt }
      ⟨rfl, rfl, rfl, rfl, rfl, rfl⟩ i).trans (h2 i)

theorem rebuildTree_meta (ents : List DirEntry) (root : Nat) (rf : List Nat) :
    (rebuildTree ents root rf).length = ents.length ∧
    ∀ i, metaEq (ents.getD i zeroEntry) ((rebuildTree ents root rf).getD i zeroEntry) := by
  unfold rebuildTree
  simp only
  have s1 := getD_set_meta ents root { ents.getD root zeroEntry with child := NOSTREAM } ⟨rfl, rfl, rfl, rfl, rfl, rfl⟩
  split
  · exact ⟨by simp, s1⟩
  · rename_i red k lft rgt rest _
    have s2 := getD_set_meta (ents.set root { ents.getD root zeroEntry with child := NOSTREAM }) root
      { (ents.set root { ents.getD root zeroEntry with child := NOSTREAM }).getD root zeroEntry with child := k }
      ⟨rfl, rfl, rfl, rfl, rfl, rfl⟩
    obtain ⟨h1, h2⟩ := setLinks_meta ((red, k, lft, rgt) :: rest)
      ((ents.set root { ents.getD root zeroEntry with child := NOSTREAM }).set root
        { (ents.set root { ents.getD root zeroEntry with child := NOSTREAM }).getD root zeroEntry with child := k })
    exact ⟨by rw [h1]; simp, fun i => ((s1 i).trans (s2 i)).trans (h2 i)⟩

/-! ### allocSectorTables .. Truncate -/

theorem getSec_pre (f : File) (p : Bytes) (s : Nat) : getSec { f with pre := p } s = getSec f s := rfl

theorem getSec_finalFile {f4 : File} {pre' : Bytes} {sat4 : List Int} {x : Nat} {v : Int}
    (hx : sat4[x]? = some v) (hv : v ≠ FREE) : getSec (finalFile f4 pre' (lastUsed sat4)) x = getSec f4 x := by
  unfold finalFile
  have := lastUsed_spec sat4 x v hx hv
  split
  · omega
  · rw [getSec_truncSecs this]; rfl

theorem close_tail {ss : Nat} {sat msat ml sat4 msat' ml' tail : List Int} {fuel : Nat} {f2 f3 f4 : File}
    (hwf : WF f2) (hfs : f2.ss = ss) (mk : MarksOK sat (msat ++ ml))
    (hat : allocTables ss fuel sat msat ml = .ok (sat4, msat', ml'))
    (h3 : writeSATB (ss / 4) sat4 msat' 0 f2 = .ok f3)
    (h4 : writeMSATB (ss / 4) tail ml' 0 f3 = .ok f4) (pre' : Bytes) :
    MarksOK sat4 (msat' ++ ml') ∧
    (∀ h l, chain sat h = some l → chain sat4 h = some l ∧
      ∀ x ∈ l, getSec (finalFile f4 pre' (lastUsed sat4)) x = getSec f2 x) ∧
    (∀ j (hj : j < msat'.length), getSec (finalFile f4 pre' (lastUsed sat4)) (msat'[j]).toNat =
      pad ss (encInts ((sat4.drop (j * (ss / 4))).take (ss / 4)))) ∧
    (∀ j (hj : j < ml'.length), getSec (finalFile f4 pre' (lastUsed sat4)) (ml'[j]).toNat =
      pad ss (encInts ((tail.drop (j * (ss / 4 - 1))).take (ss / 4 - 1) ++ [(ml'.drop (j + 1)).headD EOC]))) ∧
    (finalFile f4 pre' (lastUsed sat4)).pre = pre' ∧ (finalFile f4 pre' (lastUsed sat4)).ss = ss ∧
    (lastUsed sat4 ≠ 0 → (finalFile f4 pre' (lastUsed sat4)).secs.length = lastUsed sat4) ∧
    (pre'.length = ss → WF (finalFile f4 pre' (lastUsed sat4))) ∧
    (∀ (j : Nat) (v : Int), sat[j]? = some v → v ≠ FREE → sat4[j]? = some v) ∧
    (∃ m, msat' = msat ++ m) ∧ (∃ m, ml' = ml ++ m) := by
  have triv : FamOK sat (fun (_ : Unit) => (none : Option Int)) := by
    refine ⟨?_, ?_⟩
    · intro _ _ h; cases h
    · intro _ _ _ _ _ _ _ h; cases h
  obtain ⟨_, mk4, fr, keep, off, _, hm1, hm2⟩ := allocTables_inv ss _ fuel sat msat ml sat4 msat' ml' triv mk hat
  have nd := mk4.nodup
  rw [List.nodup_append] at nd
  obtain ⟨nd1, nd2, nd3⟩ := nd
  obtain ⟨a1, a2, a3, a4, a5, a6⟩ := writeSATB_spec (ss / 4) sat4 msat' 0 f2 f3 nd1 h3
  obtain ⟨b1, b2, b3, b4, b5, b6⟩ := writeMSATB_spec (ss / 4) tail ml' 0 f3 f4 nd2 h4
  have wf4 : WF f4 := b3 (a3 hwf)
  have ss4 : f4.ss = ss := by rw [b1, a1, hfs]
  -- sectors that are not table sectors keep their content
  have other : ∀ x : Nat, (x : Int) ∉ msat' ++ ml' → getSec f4 x = getSec f2 x := by
    intro x hx
    rw [b5 x (fun h => hx (List.mem_append_right _ h)), a5 x (fun h => hx (List.mem_append_left _ h))]
  refine ⟨mk4, ?_, ?_, ?_, ?_, ?_, ?_, ?_, keep, hm1, hm2⟩
  · intro h l hl
    have hl4 := fr h l hl
    refine ⟨hl4, ?_⟩
    intro x hx
    obtain ⟨v, hv, hv'⟩ := (chain_iff.mp hl4).entry x hx
    rw [getSec_finalFile hv (by omega)]
    apply other
    intro hmem
    have := off h l hl _ hmem
    simp at this; exact this hx
  · intro j hj
    have hmem : msat'[j] ∈ msat' ++ ml' := List.mem_append_left _ (List.getElem_mem hj)
    obtain ⟨p, v, hv, hv'⟩ := mk4.marked _ hmem
    rw [getSec_finalFile hv (by omega)]
    have hnot : ((msat'[j].toNat : Nat) : Int) ∉ ml' := by
      rw [Int.toNat_of_nonneg p]
      exact fun h => nd3 _ (List.getElem_mem hj) _ h rfl
    rw [b5 _ hnot, a6 j hj, hfs]; simp
  · intro j hj
    have hmem : ml'[j] ∈ msat' ++ ml' := List.mem_append_right _ (List.getElem_mem hj)
    obtain ⟨p, v, hv, hv'⟩ := mk4.marked _ hmem
    rw [getSec_finalFile hv (by omega), b6 j hj, a1, hfs]; simp
  · unfold finalFile; split <;> rfl
  · unfold finalFile; split <;> simp [truncSecs, ss4]
  · intro hlu
    unfold finalFile
    simp only [hlu, if_false, truncSecs, List.length_take, List.length_append, List.length_replicate]
    omega
  · intro hp
    have w5 : WF { f4 with pre := pre' } := ⟨wf4.pos, by simp [hp, ss4], wf4.secs⟩
    unfold finalFile
    split
    · exact w5
    · exact truncSecs_WF w5 _


/-! ### Close, phase by phase -/

theorem writeShortSATB_spec {b b1 : BSt}
    (fam : FamOK b.st.a.sat (satHeads b.st.a.rootStart b.st.dirStart b.st.ssatStart b.st.cutoff b.st.files))
    (wf : WF b.file) (h : writeShortSATB b = .ok b1) :
    b1.st = { b.st with a := { b.st.a with sat := b1.st.a.sat }, ssatStart := b1.st.ssatStart,
                        ssatCount := b1.st.ssatCount } ∧
    b1.ents = b.ents ∧
    FamOK b1.st.a.sat (satHeads b.st.a.rootStart b.st.dirStart b1.st.ssatStart b.st.cutoff b.st.files) ∧
    WF b1.file ∧ b1.file.ss = b.file.ss ∧ b1.file.pre = b.file.pre ∧
    (∀ t h l, t ≠ Tag.ssat → satHeads b.st.a.rootStart b.st.dirStart b.st.ssatStart b.st.cutoff b.st.files t = some h →
      chain b.st.a.sat h = some l → chain b1.st.a.sat h = some l ∧ ∀ x ∈ l, getSec b1.file x = getSec b.file x) ∧
    (∀ (j : Nat) (v : Int), b.st.a.sat[j]? = some v → v ≤ -3 → b1.st.a.sat[j]? = some v) ∧
    ∃ lS, chain b1.st.a.sat b1.st.ssatStart = some lS ∧ lS.length = b.st.a.ssat.length / (b.st.a.ss / 4) ∧
      b1.st.ssatCount = lS.length % 4294967296 ∧
      ∀ j (hj : j < lS.length), getSec b1.file lS[j] =
        pad b.file.ss (encInts ((b.st.a.ssat.drop (j * (b.st.a.ss / 4))).take (b.st.a.ss / 4))) := by
  unfold writeShortSATB at h
  simp only at h
  split at h
  · cases h
  · split at h
    · rename_i sat0 hf
      split at h
      · rename_i fl sat1 hm
        split at h
        · rename_i frst prev sat2 k f' hl
          split at h
          · rename_i sat3 ht
            cases h
            obtain ⟨a1, a2, _, a4, a5, a6, a7, a8, a9, a10, a11, a12⟩ :=
              realloc_phase fam .ssat b.st.ssatStart (by simp [satHeads]) wf hf hm hl "x"
            rw [a2] at ht; cases ht
            refine ⟨rfl, rfl, a5.congr (fun t => by cases t <;> simp [satHeads]), a9, a10, a11, a7,
              fun j v hj hv => (a8 j v hj hv).1, fl, a6, a4, rfl, a12⟩
          all_goals cases h
        all_goals cases h
      all_goals cases h
    all_goals cases h

theorem writeDirStreamB_spec {b b2 : BSt}
    (fam : FamOK b.st.a.sat (satHeads b.st.a.rootStart b.st.dirStart b.st.ssatStart b.st.cutoff b.st.files))
    (wf : WF b.file) (h : writeDirStreamB b = .ok b2) :
    b2.st = { b.st with a := { b.st.a with sat := b2.st.a.sat }, dirStart := b2.st.dirStart,
                        dirCount := b2.st.dirCount } ∧
    b2.ents = rebuildTree b.ents b.st.root b.st.rootFiles ∧
    FamOK b2.st.a.sat (satHeads b.st.a.rootStart b2.st.dirStart b.st.ssatStart b.st.cutoff b.st.files) ∧
    WF b2.file ∧ b2.file.ss = b.file.ss ∧ b2.file.pre = b.file.pre ∧
    (∀ t h l, t ≠ Tag.dir → satHeads b.st.a.rootStart b.st.dirStart b.st.ssatStart b.st.cutoff b.st.files t = some h →
      chain b.st.a.sat h = some l → chain b2.st.a.sat h = some l ∧ ∀ x ∈ l, getSec b2.file x = getSec b.file x) ∧
    (∀ (j : Nat) (v : Int), b.st.a.sat[j]? = some v → v ≤ -3 → b2.st.a.sat[j]? = some v) ∧
    b.st.a.ss / 128 ≠ 0 ∧ b.st.files.length % (b.st.a.ss / 128) = 0 ∧
    ∃ lD, chain b2.st.a.sat b2.st.dirStart = some lD ∧ lD ≠ [] ∧ lD.length = b.st.files.length / (b.st.a.ss / 128) ∧
      b2.st.dirCount = (if b.st.version ≥ 4 then lD.length % 4294967296 else b.st.dirCount) ∧
      ∀ j (hj : j < lD.length), getSec b2.file lD[j] =
        pad b.file.ss ((List.range (b.st.a.ss / 128)).flatMap fun k =>
          encEntry (entryOut { b with ents := rebuildTree b.ents b.st.root b.st.rootFiles } (j * (b.st.a.ss / 128) + k))) := by
  unfold writeDirStreamB at h
  simp only at h
  split at h
  · rename_i sat0 hf
    split at h
    · cases h
    · rename_i hper
      split at h
      · cases h
      · rename_i hmod
        split at h
        · rename_i fl sat1 hm
          split at h
          · rename_i frst prev sat2 k f' hl
            split at h
            · cases h
            · rename_i hprev
              split at h
              · rename_i sat3 ht
                cases h
                obtain ⟨c1, _, c3, c4, c5, c6, c7, c8, c9, c10, c11, c12⟩ :=
                  realloc_phase fam .dir b.st.dirStart (by simp [satHeads]) wf hf hm hl "writeDirStream:SAT[previous]"
                rw [c3 (by omega)] at ht; cases ht
                have hne : fl ≠ [] := by
                  intro e
                  have fr := makeFree_spec hm
                  have hb : ∀ x ∈ fl, x < sat1.length :=
                    fun x hx => (List.getElem?_eq_some_iff.mp (fr.isFree x hx)).1
                  rw [linkLoop_spec _ fl EOC EOC sat1 _ hb (Or.inl rfl)] at hl
                  split at hl
                  · simp only [Res.ok.injEq, Prod.mk.injEq] at hl
                    have := hl.2.1
                    rw [e] at this; simp [lastInt] at this; omega
                  all_goals cases hl
                refine ⟨rfl, rfl, c5.congr (fun t => by cases t <;> simp [satHeads]), c9, c10, c11, c7,
                  fun j v hj hv => (c8 j v hj hv).1, hper, by omega, fl, c6, hne, c4, rfl, c12⟩
              all_goals cases h
          all_goals cases h
        all_goals cases h
  all_goals cases h

/-! ### Close -/

theorem entryOut_congr {b b' : BSt} (h1 : b'.st.files = b.st.files) (h2 : b'.st.root = b.st.root)
    (h3 : b'.st.a.rootStart = b.st.a.rootStart) (h4 : b'.st.a.rootSize = b.st.a.rootSize) (h5 : b'.ents = b.ents) (i : Nat) :
    entryOut b' i = entryOut b i := by
  unfold entryOut entryAt
  rw [h1, h2, h3, h4, h5]

/-- block `j` of the directory as `writeDirStream` serialises it -/
def dirChunk (b : BSt) (j : Nat) : Bytes :=
  (List.range (b.st.a.ss / 128)).flatMap fun k => encEntry (entryOut b (j * (b.st.a.ss / 128) + k))

/-- what `Close` establishes -/
structure Closed (b b' : BSt) : Prop where
  files : b'.st.files = b.st.files
  cutoff : b'.st.cutoff = b.st.cutoff
  ssat : b'.st.a.ssat = b.st.a.ssat
  ss : b'.st.a.ss = b.st.a.ss
  sss : b'.st.a.sss = b.st.a.sss
  rootStart : b'.st.a.rootStart = b.st.a.rootStart
  rootSize : b'.st.a.rootSize = b.st.a.rootSize
  root : b'.st.root = b.st.root
  version : b'.st.version = b.st.version
  ents : b'.ents = rebuildTree b.ents b.st.root b.st.rootFiles
  live : ∀ t h l, t ≠ Tag.ssat → t ≠ Tag.dir →
    satHeads b.st.a.rootStart b.st.dirStart b.st.ssatStart b.st.cutoff b.st.files t = some h →
    chain b.st.a.sat h = some l → chain b'.st.a.sat h = some l ∧ readChain b'.file l = readChain b.file l
  fam : FamOK b'.st.a.sat (satHeads b'.st.a.rootStart b'.st.dirStart b'.st.ssatStart b'.st.cutoff b'.st.files)
  marks : MarksOK b'.st.a.sat (b'.st.msat ++ b'.st.msatList)
  wf : WF b'.file
  fss : b'.file.ss = b'.st.a.ss
  miniFat : ∃ lS, chain b'.st.a.sat b'.st.ssatStart = some lS ∧ lS.length = b.st.a.ssat.length / (b.st.a.ss / 4) ∧
    b'.st.ssatCount = lS.length % 4294967296 ∧
    ∀ (j x : Nat), lS[j]? = some x → getSec b'.file x =
      pad b.st.a.ss (encInts ((b.st.a.ssat.drop (j * (b.st.a.ss / 4))).take (b.st.a.ss / 4)))
  dir : ∃ lD, chain b'.st.a.sat b'.st.dirStart = some lD ∧ lD.length = b.st.files.length / (b.st.a.ss / 128) ∧
    b.st.a.ss / 128 ≠ 0 ∧ b.st.files.length % (b.st.a.ss / 128) = 0 ∧ lD ≠ [] ∧
    b'.st.dirCount = (if b.st.version ≥ 4 then lD.length % 4294967296 else b.st.dirCount) ∧
    ∀ (j x : Nat), lD[j]? = some x → getSec b'.file x = pad b.st.a.ss (dirChunk b' j)
  fat : b'.st.msat.length * (b.st.a.ss / 4) ≤ b'.st.a.sat.length ∧
    ∀ (j : Nat) (s : Int), b'.st.msat[j]? = some s → getSec b'.file s.toNat =
      pad b.st.a.ss (encInts ((b'.st.a.sat.drop (j * (b.st.a.ss / 4))).take (b.st.a.ss / 4)))
  difat : ∀ (j : Nat) (s : Int), b'.st.msatList[j]? = some s → getSec b'.file s.toNat =
    pad b.st.a.ss (encInts ((((msatPadded (b.st.a.ss / 4) b'.st.msat b'.st.msatList).drop 109).drop (j * (b.st.a.ss / 4 - 1))).take
      (b.st.a.ss / 4 - 1) ++ [(b'.st.msatList.drop (j + 1)).headD EOC]))
  hdr : b'.file.pre = headerBytes b.file.pre b'.st ((msatPadded (b.st.a.ss / 4) b'.st.msat b'.st.msatList).take 109) ++
    b.file.pre.drop 512
  counts : b'.st.satSectors = b'.st.msat.length % 4294967296 ∧ b'.st.msatCount = b'.st.msatList.length % 4294967296 ∧
    b'.st.msatNext = b'.st.msatList.headD EOC
  len : lastUsed b'.st.a.sat ≠ 0 → b'.file.secs.length = lastUsed b'.st.a.sat
  grow : (∃ m, b'.st.msat = b.st.msat ++ m) ∧ (∃ m, b'.st.msatList = b.st.msatList ++ m)

theorem dirChunk_eq {b' bx : BSt} (hss : b'.st.a.ss = bx.st.a.ss) (h : ∀ i, entryOut b' i = entryOut bx i) (j : Nat) :
    dirChunk b' j = (List.range (bx.st.a.ss / 128)).flatMap fun k => encEntry (entryOut bx (j * (bx.st.a.ss / 128) + k)) := by
  unfold dirChunk
  rw [hss]
  simp only [h]

theorem headerBytes_length (pre : Bytes) (st : St) (m : List Int) (hp : 60 ≤ pre.length) (hm : m.length = 109) :
    (headerBytes pre st m).length = 512 := by
  have h4 : ∀ n, (le32 n).length = 4 := fun n => by simp [le32, leBytes]
  have he : ∀ l : List Int, (encInts l).length = 4 * l.length := by
    intro l
    induction l with
    | nil => rfl
    | cons x l ih => simp only [encInts, List.flatMap_cons, List.length_append, h4, List.length_cons] at ih ⊢; omega
  simp only [headerBytes, List.length_append, List.length_take, List.length_drop, h4, he, hm, magic, List.length_cons,
    List.length_nil]
  omega

theorem closeB_spec {b b' : BSt} (inv : Inv b) (hch : b.st.changed = true) (h : closeB b = .ok b') : Closed b b' := by
  unfold closeB at h
  simp only [hch, Bool.not_true, Bool.false_eq_true, if_false] at h
  split at h
  · rename_i b1 h1
    split at h
    · rename_i b2 h2
      obtain ⟨eA, entA, famA, wfA, ssA, preA, liveA, mkA, lS, cS, lenS, cntS, secS⟩ := writeShortSATB_spec inv.t.big inv.wf h1
      -- fields of b1
      have fA1 : b1.st.files = b.st.files := by rw [eA]
      have fA2 : b1.st.cutoff = b.st.cutoff := by rw [eA]
      have fA3 : b1.st.dirStart = b.st.dirStart := by rw [eA]
      have fA4 : b1.st.a.rootStart = b.st.a.rootStart := by rw [eA]
      have fA5 : b1.st.a.ss = b.st.a.ss := by rw [eA]
      have fA6 : b1.st.root = b.st.root := by rw [eA]
      have fA7 : b1.st.rootFiles = b.st.rootFiles := by rw [eA]
      have fA8 : b1.st.msat = b.st.msat := by rw [eA]
      have fA9 : b1.st.msatList = b.st.msatList := by rw [eA]
      have fA10 : b1.st.version = b.st.version := by rw [eA]
      have fA11 : b1.st.dirCount = b.st.dirCount := by rw [eA]
      have fA12 : b1.st.a.ssat = b.st.a.ssat := by rw [eA]
      have fA13 : b1.st.a.sss = b.st.a.sss := by rw [eA]
      have fA14 : b1.st.a.rootSize = b.st.a.rootSize := by rw [eA]
      have famA' : FamOK b1.st.a.sat (satHeads b1.st.a.rootStart b1.st.dirStart b1.st.ssatStart b1.st.cutoff b1.st.files) := by
        rw [fA1, fA2, fA3, fA4]; exact famA
      obtain ⟨eB, entB, famB, wfB, ssB, preB, liveB, mkB, hper, hmod, lD, cD, neD, lenD, cntD, secD⟩ :=
        writeDirStreamB_spec famA' wfA h2
      have fB1 : b2.st.files = b1.st.files := by rw [eB]
      have fB2 : b2.st.cutoff = b1.st.cutoff := by rw [eB]
      have fB3 : b2.st.ssatStart = b1.st.ssatStart := by rw [eB]
      have fB4 : b2.st.a.rootStart = b1.st.a.rootStart := by rw [eB]
      have fB5 : b2.st.a.ss = b1.st.a.ss := by rw [eB]
      have fB6 : b2.st.root = b1.st.root := by rw [eB]
      have fB8 : b2.st.msat = b1.st.msat := by rw [eB]
      have fB9 : b2.st.msatList = b1.st.msatList := by rw [eB]
      have fB10 : b2.st.version = b1.st.version := by rw [eB]
      have fB11 : b2.st.ssatCount = b1.st.ssatCount := by rw [eB]
      have fB12 : b2.st.a.ssat = b1.st.a.ssat := by rw [eB]
      have fB13 : b2.st.a.sss = b1.st.a.sss := by rw [eB]
      have fB14 : b2.st.a.rootSize = b1.st.a.rootSize := by rw [eB]
      have hss2 : b2.st.a.ss = b.st.a.ss := fB5.trans fA5
      have hfss2 : b2.file.ss = b.st.a.ss := by rw [ssB, ssA]; exact inv.fss
      -- marks survive A and B
      have mkC : MarksOK b2.st.a.sat (b2.st.msat ++ b2.st.msatList) := by
        rw [fB8, fB9, fA8, fA9]
        refine ⟨fun s hs => ?_, inv.nodup⟩
        obtain ⟨p, v, hv, hv'⟩ := inv.t.marked s hs
        exact ⟨p, v, mkB _ v (mkA _ v hv hv') hv', hv'⟩
      simp only [hss2] at h
      split at h
      · rename_i sat4 msat' ml' hat
        split at h
        · cases h
        · rename_i hfit
          split at h
          · rename_i f3 h3
            split at h
            · rename_i f4 h4
              simp only [Res.ok.injEq] at h
              have e1 : b'.st = closeState b2.st sat4 msat' ml' := by rw [← h]
              have e2 : b'.ents = b2.ents := by rw [← h]
              have e3 : b'.file = finalFile f4 (headerBytes f4.pre (closeState b2.st sat4 msat' ml')
                  ((msatPadded (b.st.a.ss / 4) msat' ml').take 109) ++ f4.pre.drop 512) (lastUsed sat4) := by rw [← h]
              clear h
              have g1 : b'.st.files = b2.st.files := by rw [e1]; rfl
              have g2 : b'.st.cutoff = b2.st.cutoff := by rw [e1]; rfl
              have g3 : b'.st.a.ssat = b2.st.a.ssat := by rw [e1]; rfl
              have g4 : b'.st.a.ss = b2.st.a.ss := by rw [e1]; rfl
              have g5 : b'.st.a.sss = b2.st.a.sss := by rw [e1]; rfl
              have g6 : b'.st.a.rootStart = b2.st.a.rootStart := by rw [e1]; rfl
              have g7 : b'.st.a.rootSize = b2.st.a.rootSize := by rw [e1]; rfl
              have g8 : b'.st.root = b2.st.root := by rw [e1]; rfl
              have g9 : b'.st.version = b2.st.version := by rw [e1]; rfl
              have g10 : b'.st.a.sat = sat4 := by rw [e1]; rfl
              have g11 : b'.st.msat = msat' := by rw [e1]; rfl
              have g12 : b'.st.msatList = ml' := by rw [e1]; rfl
              have g13 : b'.st.dirStart = b2.st.dirStart := by rw [e1]; rfl
              have g14 : b'.st.ssatStart = b2.st.ssatStart := by rw [e1]; rfl
              have g15 : b'.st.ssatCount = b2.st.ssatCount := by rw [e1]; rfl
              have g16 : b'.st.dirCount = b2.st.dirCount := by rw [e1]; rfl
              have g17 : b'.st.satSectors = msat'.length % 4294967296 := by rw [e1]; rfl
              have g18 : b'.st.msatCount = ml'.length % 4294967296 := by rw [e1]; rfl
              have g19 : b'.st.msatNext = ml'.headD EOC := by rw [e1]; rfl
              obtain ⟨t1, t2, t3, t4, t5, t6, t7, t8, t9, t10, t11⟩ := close_tail wfB hfss2 mkC hat h3 h4
                (headerBytes f4.pre (closeState b2.st sat4 msat' ml') ((msatPadded (b.st.a.ss / 4) msat' ml').take 109) ++
                  f4.pre.drop 512)
              rw [← e3] at t2 t3 t4 t5 t6 t7 t8
              have hpre4 : f4.pre = b.file.pre := by
                have e3' := (writeSATB_spec _ _ _ _ _ _ (List.nodup_append.mp t1.nodup).1 h3).2.1
                have e4' := (writeMSATB_spec _ _ _ _ _ _ (List.nodup_append.mp t1.nodup).2.1 h4).2.1
                rw [e4', e3', preB, preA]
              have hssChain : chain b2.st.a.sat b2.st.ssatStart = some lS ∧ ∀ x ∈ lS, getSec b2.file x = getSec b1.file x := by
                rw [fB3]
                exact liveB .ssat _ lS (by intro e; cases e) (by simp [satHeads]) cS
              refine {
                files := g1.trans (fB1.trans fA1), cutoff := g2.trans (fB2.trans fA2), ssat := g3.trans (fB12.trans fA12),
                ss := g4.trans hss2, sss := g5.trans (fB13.trans fA13), rootStart := g6.trans (fB4.trans fA4),
                rootSize := g7.trans (fB14.trans fA14), root := g8.trans (fB6.trans fA6),
                version := g9.trans (fB10.trans fA10),
                ents := by rw [e2, entB, entA, fA6, fA7],
                live := ?_, fam := ?_, marks := by rw [g10, g11, g12]; exact t1, wf := ?_, fss := ?_,
                miniFat := ?_, dir := ?_, fat := ?_, difat := ?_, hdr := ?_,
                counts := ⟨by rw [g17, g11], by rw [g18, g12], by rw [g19, g12]⟩,
                len := by rw [g10]; exact t7, grow := ?_ }
              · intro t hh l hs hd ht hl
                obtain ⟨p1, p2⟩ := liveA t hh l hs ht hl
                have ht' : satHeads b1.st.a.rootStart b1.st.dirStart b1.st.ssatStart b1.st.cutoff b1.st.files t = some hh := by
                  rw [fA1, fA2, fA3, fA4]
                  cases t <;> first | exact ht | exact absurd rfl hs
                obtain ⟨q1, q2⟩ := liveB t hh l hd ht' p1
                obtain ⟨r1, r2⟩ := t2 hh l q1
                exact ⟨by rw [g10]; exact r1, readChain_congr (fun x hx => by rw [r2 x hx, q2 x hx, p2 x hx])⟩
              · rw [g10, g6, g13, g14, g2, g1, fB1, fB2, fB3, fB4]
                exact famB.frame (fun _ hh l _ hl => (t2 hh l hl).1) (fun _ _ hh => hh)
              · apply t8
                have hpl : b.file.pre.length = b.st.a.ss := by rw [inv.wf.pre]; exact inv.fss
                have hbig := inv.ssBig
                have hpadl : ((msatPadded (b.st.a.ss / 4) msat' ml').take 109).length = 109 := by
                  simp only [msatPadded, List.length_take, List.length_append, List.length_replicate]
                  omega
                rw [List.length_append, headerBytes_length _ _ _ (by rw [hpre4, hpl]; omega) hpadl, List.length_drop, hpre4, hpl]
                omega
              · rw [t6, g4, hss2]
              · refine ⟨lS, by rw [g10, g14]; exact (t2 _ _ hssChain.1).1, lenS, by rw [g15, fB11]; exact cntS, ?_⟩
                intro j x hx
                obtain ⟨hj, rfl⟩ := List.getElem?_eq_some_iff.mp hx
                have hmem : lS[j] ∈ lS := List.getElem_mem hj
                rw [(t2 _ _ hssChain.1).2 _ hmem, hssChain.2 _ hmem, secS j hj, inv.fss]
              · have hD2 : chain b2.st.a.sat b2.st.dirStart = some lD := cD
                refine ⟨lD, by rw [g10, g13]; exact (t2 _ _ hD2).1, by rw [lenD, fA1, fA5], by rw [← fA5]; exact hper,
                  by rw [← fA1, ← fA5]; exact hmod, neD, by rw [g16, cntD, fA10, fA11], ?_⟩
                intro j x hx
                obtain ⟨hj, rfl⟩ := List.getElem?_eq_some_iff.mp hx
                have hmem : lD[j] ∈ lD := List.getElem_mem hj
                have hchunk := dirChunk_eq (b' := b') (bx := { b1 with ents := rebuildTree b1.ents b1.st.root b1.st.rootFiles })
                  (g4.trans fB5) (entryOut_congr (g1.trans fB1) (g8.trans fB6) (g6.trans fB4) (g7.trans fB14) (by rw [e2, entB])) j
                rw [(t2 _ _ hD2).2 _ hmem, secD j hj, ssA, inv.fss, hchunk]
              · refine ⟨by rw [g10, g11]; omega, ?_⟩
                intro j s hs
                rw [g11] at hs
                obtain ⟨hj, rfl⟩ := List.getElem?_eq_some_iff.mp hs
                rw [g10]
                exact t3 j hj
              · intro j s hs
                rw [g12] at hs
                obtain ⟨hj, rfl⟩ := List.getElem?_eq_some_iff.mp hs
                rw [g11, g12]
                exact t4 j hj
              · rw [t5, hpre4, e1]; rfl
              · rw [g11, g12, ← fA8, ← fB8, ← fA9, ← fB9]
                exact ⟨t10, t11⟩
            all_goals cases h
          all_goals cases h
      all_goals cases h
    all_goals cases h
  all_goals cases h

/-- **Close keeps every stream.**  Slots are untouched, the raw entries keep name, class id, state bits and time stamps
    (`rebuildTree` sets colours and links only), and every stream reads back the same bytes from the file Close leaves. -/
theorem closeB_streams {b b' : BSt} (inv : Inv b) (hch : b.st.changed = true) (h : closeB b = .ok b') :
    b'.st.files = b.st.files ∧ b'.ents.length = b.ents.length ∧
    (∀ i, metaEq (b.ents.getD i zeroEntry) (b'.ents.getD i zeroEntry)) ∧
    ∀ (i : Nat) (sl : Slot), b.st.files[i]? = some sl → sl.typ = 2 → slotData b' i = slotData b i := by
  have cl := closeB_spec inv hch h
  obtain ⟨m1, m2⟩ := rebuildTree_meta b.ents b.st.root b.st.rootFiles
  refine ⟨cl.files, by rw [cl.ents, m1], fun i => by rw [cl.ents]; exact m2 i, ?_⟩
  intro i sl hi htyp
  apply slotData_congr hi (by rw [cl.files]; exact hi) htyp cl.cutoff cl.sss
  · intro hh hhh
    have ht : satHeads b.st.a.rootStart b.st.dirStart b.st.ssatStart b.st.cutoff b.st.files (.slot i) = some hh := by
      simp [satHeads, hi, hhh]
    obtain ⟨l, hl⟩ := inv.t.big.valid _ _ ht
    obtain ⟨p1, p2⟩ := cl.live (.slot i) hh l (by intro e; cases e) (by intro e; cases e) ht hl
    exact ⟨l, hl, p1, p2⟩
  · intro hh hhh
    have ht : miniHeads b.st.cutoff b.st.files i = some hh := by simp [miniHeads, hi, hhh]
    obtain ⟨l, hl⟩ := inv.t.mini.valid _ _ ht
    obtain ⟨C, hC⟩ := inv.t.cont
    have hC' : Cont b'.st.a.sat b'.st.a.rootStart C ∧ readChain b'.file C = readChain b.file C := by
      rw [cl.rootStart]
      rcases hC with ⟨hn, rfl⟩ | ⟨hp, hC⟩
      · exact ⟨Or.inl ⟨hn, rfl⟩, rfl⟩
      · obtain ⟨p1, p2⟩ := cl.live .cont b.st.a.rootStart C (by intro e; cases e) (by intro e; cases e)
          (by simp [satHeads, hp]) (chain_iff.mpr hC)
        exact ⟨Or.inr ⟨hp, chain_iff.mp p1⟩, p2⟩
    exact ⟨l, C, C, hl, by rw [cl.ssat]; exact hl, hC, hC'.1, fun m _ => by rw [hC'.2]⟩

end Relic.CfbB

/- lemmas about Relic.Model.Der: length codec, TLV, element splitting -/
import Relic.Model.Der
import Relic.Proofs.Codec
namespace Relic.Der
open Relic

theorem toNat_ofNat_lt (n : Nat) (h : n < 256) : (UInt8.ofNat n).toNat = n := by
  simp [UInt8.toNat_ofNat']; omega

theorem ofNat_eq (b : UInt8) (m : Nat) (h : m = b.toNat) : UInt8.ofNat m = b := by subst h; simp

theorem lenLen_1 (n : Nat) (h : n < 256) : lenLen n = 1 := by
  rw [lenLen]; simp [h]
theorem lenLen_2 (n : Nat) (h1 : 256 ≤ n) (h : n < 65536) : lenLen n = 2 := by
  rw [lenLen, if_neg (by omega), lenLen_1 _ (by omega)]
theorem lenLen_3 (n : Nat) (h1 : 65536 ≤ n) (h : n < 16777216) : lenLen n = 3 := by
  rw [lenLen, if_neg (by omega), lenLen_2 _ (by omega) (by omega)]
theorem lenLen_4 (n : Nat) (h1 : 16777216 ≤ n) (h : n < 4294967296) : lenLen n = 4 := by
  rw [lenLen, if_neg (by omega), lenLen_3 _ (by omega) (by omega)]

theorem loop1 (n : Nat) (rest : Bytes) (h0 : 1 ≤ n) (h1 : n < 256) :
    decLenLoop 1 0 (beBytes 1 n ++ rest) = .ok (n, rest) := by
  simp only [decLenLoop, beBytes, UInt8.toNat_ofNat', List.cons_append, List.nil_append]
  repeat (first | rw [if_neg (by omega)] | rw [if_pos (by omega)])
  simp; omega

theorem loop2 (n : Nat) (rest : Bytes) (h0 : 256 ≤ n) (h1 : n < 65536) :
    decLenLoop 2 0 (beBytes 2 n ++ rest) = .ok (n, rest) := by
  simp only [decLenLoop, beBytes, UInt8.toNat_ofNat', List.cons_append, List.nil_append]
  repeat (first | rw [if_neg (by omega)] | rw [if_pos (by omega)])
  simp; omega

theorem loop3 (n : Nat) (rest : Bytes) (h0 : 65536 ≤ n) (h1 : n < 16777216) :
    decLenLoop 3 0 (beBytes 3 n ++ rest) = .ok (n, rest) := by
  simp only [decLenLoop, beBytes, UInt8.toNat_ofNat', List.cons_append, List.nil_append]
  repeat (first | rw [if_neg (by omega)] | rw [if_pos (by omega)])
  simp; omega

theorem loop4 (n : Nat) (rest : Bytes) (h0 : 16777216 ≤ n) (h1 : n < 2 ^ 31) :
    decLenLoop 4 0 (beBytes 4 n ++ rest) = .ok (n, rest) := by
  simp only [decLenLoop, beBytes, UInt8.toNat_ofNat', List.cons_append, List.nil_append]
  repeat (first | rw [if_neg (by omega)] | rw [if_pos (by omega)])
  simp; omega

theorem loop1_inv (bs : Bytes) (n : Nat) (rest : Bytes) (h : decLenLoop 1 0 bs = .ok (n, rest)) :
    bs = beBytes 1 n ++ rest ∧ 1 ≤ n ∧ n < 256 := by
  match bs, h with
  | [], h => simp [decLenLoop] at h
  | b1 :: r, h =>
    have l1 := b1.toNat_lt
    simp only [decLenLoop] at h
    repeat (split at h <;> try (cases h; done))
    simp only [Res.ok.injEq, Prod.mk.injEq] at h
    obtain ⟨hn, hr⟩ := h; subst hn hr
    refine ⟨?_, by omega, by omega⟩
    simp only [beBytes, List.cons_append, List.nil_append]
    rw [ofNat_eq b1 _ (by omega)]

theorem loop2_inv (bs : Bytes) (n : Nat) (rest : Bytes) (h : decLenLoop 2 0 bs = .ok (n, rest)) :
    bs = beBytes 2 n ++ rest ∧ 256 ≤ n ∧ n < 65536 := by
  match bs, h with
  | [], h => simp [decLenLoop] at h
  | [_], h => simp [decLenLoop] at h; try (repeat (split at h <;> try (cases h; done)))
  | b1 :: b2 :: r, h =>
    have l1 := b1.toNat_lt; have l2 := b2.toNat_lt
    simp only [decLenLoop] at h
    repeat (split at h <;> try (cases h; done))
    simp only [Res.ok.injEq, Prod.mk.injEq] at h
    obtain ⟨hn, hr⟩ := h; subst hn hr
    refine ⟨?_, by omega, by omega⟩
    simp only [beBytes, List.cons_append, List.nil_append]
    rw [ofNat_eq b1 _ (by omega), ofNat_eq b2 _ (by omega)]

theorem loop3_inv (bs : Bytes) (n : Nat) (rest : Bytes) (h : decLenLoop 3 0 bs = .ok (n, rest)) :
    bs = beBytes 3 n ++ rest ∧ 65536 ≤ n ∧ n < 16777216 := by
  match bs, h with
  | [], h => simp [decLenLoop] at h
  | [_], h => simp [decLenLoop] at h; try (repeat (split at h <;> try (cases h; done)))
  | [_, _], h => simp [decLenLoop] at h; try (repeat (split at h <;> try (cases h; done)))
  | b1 :: b2 :: b3 :: r, h =>
    have l1 := b1.toNat_lt; have l2 := b2.toNat_lt; have l3 := b3.toNat_lt
    simp only [decLenLoop] at h
    repeat (split at h <;> try (cases h; done))
    simp only [Res.ok.injEq, Prod.mk.injEq] at h
    obtain ⟨hn, hr⟩ := h; subst hn hr
    refine ⟨?_, by omega, by omega⟩
    simp only [beBytes, List.cons_append, List.nil_append]
    rw [ofNat_eq b1 _ (by omega), ofNat_eq b2 _ (by omega), ofNat_eq b3 _ (by omega)]

theorem loop4_inv (bs : Bytes) (n : Nat) (rest : Bytes) (h : decLenLoop 4 0 bs = .ok (n, rest)) :
    bs = beBytes 4 n ++ rest ∧ 16777216 ≤ n ∧ n < 2 ^ 31 := by
  match bs, h with
  | [], h => simp [decLenLoop] at h
  | [_], h => simp [decLenLoop] at h; try (repeat (split at h <;> try (cases h; done)))
  | [_, _], h => simp [decLenLoop] at h; try (repeat (split at h <;> try (cases h; done)))
  | [_, _, _], h => simp [decLenLoop] at h; try (repeat (split at h <;> try (cases h; done)))
  | b1 :: b2 :: b3 :: b4 :: r, h =>
    have l1 := b1.toNat_lt; have l2 := b2.toNat_lt; have l3 := b3.toNat_lt; have l4 := b4.toNat_lt
    simp only [decLenLoop] at h
    repeat (split at h <;> try (cases h; done))
    simp only [Res.ok.injEq, Prod.mk.injEq] at h
    obtain ⟨hn, hr⟩ := h; subst hn hr
    refine ⟨?_, by omega, by omega⟩
    simp only [beBytes, List.cons_append, List.nil_append]
    rw [ofNat_eq b1 _ (by omega), ofNat_eq b2 _ (by omega), ofNat_eq b3 _ (by omega), ofNat_eq b4 _ (by omega)]

theorem loop5_fail (k : Nat) (bs : Bytes) (n : Nat) (rest : Bytes) : decLenLoop (k + 5) 0 bs ≠ .ok (n, rest) := by
  intro h
  match bs, h with
  | [], h => simp [decLenLoop] at h
  | [_], h => simp [decLenLoop] at h; try (repeat (split at h <;> try (cases h; done)))
  | [_, _], h => simp [decLenLoop] at h; try (repeat (split at h <;> try (cases h; done)))
  | [_, _, _], h => simp [decLenLoop] at h; try (repeat (split at h <;> try (cases h; done)))
  | [_, _, _, _], h => simp [decLenLoop] at h; try (repeat (split at h <;> try (cases h; done)))
  | b1 :: b2 :: b3 :: b4 :: b5 :: r, h =>
    simp only [decLenLoop] at h
    repeat (split at h <;> try (cases h; done))
    all_goals omega

/-- every length below 2^31 survives encode → decode, whatever follows -/
theorem decLen_encLen (n : Nat) (rest : Bytes) (h : n < 2 ^ 31) : decLen (encLen n ++ rest) = .ok (n, rest) := by
  unfold encLen
  by_cases h0 : n < 128
  · simp [h0, decLen, toNat_ofNat_lt n (by omega)]
  · simp only [h0, if_false]
    by_cases h1 : n < 256
    · rw [lenLen_1 n h1]
      simp only [decLen, List.cons_append, toNat_ofNat_lt (128 + 1) (by omega)]
      rw [if_neg (by omega), if_neg (by omega), loop1 n rest (by omega) h1]
      simp; omega
    · by_cases h2 : n < 65536
      · rw [lenLen_2 n (by omega) h2]
        simp only [decLen, List.cons_append, toNat_ofNat_lt (128 + 2) (by omega)]
        rw [if_neg (by omega), if_neg (by omega), loop2 n rest (by omega) h2]
        simp; omega
      · by_cases h3 : n < 16777216
        · rw [lenLen_3 n (by omega) h3]
          simp only [decLen, List.cons_append, toNat_ofNat_lt (128 + 3) (by omega)]
          rw [if_neg (by omega), if_neg (by omega), loop3 n rest (by omega) h3]
          simp; omega
        · rw [lenLen_4 n (by omega) (by omega)]
          simp only [decLen, List.cons_append, toNat_ofNat_lt (128 + 4) (by omega)]
          rw [if_neg (by omega), if_neg (by omega), loop4 n rest (by omega) h]
          simp; omega

/-- unfolding of the long-form branch of `decLen` -/
theorem decLen_long (b : UInt8) (bs : Bytes) (n : Nat) (rest : Bytes) (hb : ¬ b.toNat < 128)
    (h : decLen (b :: bs) = .ok (n, rest)) :
    b.toNat % 128 ≠ 0 ∧ decLenLoop (b.toNat % 128) 0 bs = .ok (n, rest) ∧ 128 ≤ n := by
  simp only [decLen, hb, if_false] at h
  split at h
  · cases h
  · cases hl : decLenLoop (b.toNat % 128) 0 bs with
    | ok p =>
      obtain ⟨n', r'⟩ := p
      rw [hl] at h
      simp only at h
      split at h
      · cases h
      · simp only [Res.ok.injEq, Prod.mk.injEq] at h
        obtain ⟨h1, h2⟩ := h; subst h1 h2
        exact ⟨by assumption, rfl, by omega⟩
    | err e => rw [hl] at h; cases h
    | panic s => rw [hl] at h; cases h
    | diverge => rw [hl] at h; cases h

/-- Go accepts only the minimal encoding: what `decLen` consumed is exactly `encLen n` -/
theorem decLen_inv (bs : Bytes) (n : Nat) (rest : Bytes) (h : decLen bs = .ok (n, rest)) :
    bs = encLen n ++ rest ∧ n < 2 ^ 31 := by
  cases bs with
  | nil => simp [decLen] at h
  | cons b bs =>
    have lb := b.toNat_lt
    by_cases hb : b.toNat < 128
    · simp only [decLen, hb, if_true, Res.ok.injEq, Prod.mk.injEq] at h
      obtain ⟨h1, h2⟩ := h; subst h1 h2
      simp [encLen, hb]
      omega
    · obtain ⟨hk, hl, hn⟩ := decLen_long b bs n rest hb h
      generalize hkk : b.toNat % 128 = k at hk hl
      have hcases : k = 1 ∨ k = 2 ∨ k = 3 ∨ k = 4 ∨ 5 ≤ k := by omega
      have e0 : ¬ n < 128 := by omega
      rcases hcases with rfl | rfl | rfl | rfl | h5
      · obtain ⟨e, a, c⟩ := loop1_inv bs n rest hl
        refine ⟨?_, by omega⟩
        simp only [encLen, e0, if_false, lenLen_1 n c, List.cons_append]
        rw [ofNat_eq b _ (by omega), e]
      · obtain ⟨e, a, c⟩ := loop2_inv bs n rest hl
        refine ⟨?_, by omega⟩
        simp only [encLen, e0, if_false, lenLen_2 n a c, List.cons_append]
        rw [ofNat_eq b _ (by omega), e]
      · obtain ⟨e, a, c⟩ := loop3_inv bs n rest hl
        refine ⟨?_, by omega⟩
        simp only [encLen, e0, if_false, lenLen_3 n a c, List.cons_append]
        rw [ofNat_eq b _ (by omega), e]
      · obtain ⟨e, a, c⟩ := loop4_inv bs n rest hl
        refine ⟨?_, by omega⟩
        simp only [encLen, e0, if_false, lenLen_4 n a (by omega), List.cons_append]
        rw [ofNat_eq b _ (by omega), e]
      · obtain ⟨j, rfl⟩ := Nat.exists_eq_add_of_le h5
        rw [Nat.add_comm] at hl
        exact absurd hl (loop5_fail j bs n rest)

theorem untlv_tlv (t : UInt8) (c rest : Bytes) (ht : highTag t = false) (hc : c.length < 2 ^ 31) :
    untlv (tlv t c ++ rest) = .ok (t, c, rest) := by
  simp only [untlv, tlv, untlvWith, List.cons_append, ht, List.append_assoc, decLen_encLen _ _ hc]
  simp

theorem untlv_inv (bs : Bytes) (t : UInt8) (c rest : Bytes) (h : untlv bs = .ok (t, c, rest)) :
    bs = tlv t c ++ rest ∧ highTag t = false ∧ c.length < 2 ^ 31 := by
  cases bs with
  | nil => simp [untlv, untlvWith] at h
  | cons x xs =>
    simp only [untlv, untlvWith] at h
    split at h
    · cases h
    · rename_i hx
      split at h
      · rename_i n r hd
        split at h
        · cases h
        · rename_i hle
          simp only [Res.ok.injEq, Prod.mk.injEq] at h
          obtain ⟨rfl, rfl, rfl⟩ := h
          obtain ⟨e, hn⟩ := decLen_inv _ _ _ hd
          have hl : (List.take n r).length = n := by simp; omega
          refine ⟨?_, by simpa using hx, by omega⟩
          simp only [tlv, hl, List.cons_append, List.append_assoc, List.take_append_drop]
          rw [e]
      all_goals cases h

theorem retagSet_tlv (c : Bytes) : retagSet (tlv 0x30 c) = .ok (tlv 0x31 c) := by
  simp only [retagSet, tlv]
  rw [if_neg (by decide)]
  rfl

theorem tlv_ne_nil (t : UInt8) (c : Bytes) : tlv t c ≠ [] := by simp [tlv]

theorem tlv_length (t : UInt8) (c : Bytes) : (tlv t c).length = 1 + (encLen c.length).length + c.length := by
  simp [tlv]; omega

theorem splitTLVs_nil : splitTLVs [] = .ok [] := by
  rw [splitTLVs]; simp

theorem splitTLVs_cons (t : UInt8) (c rest : Bytes) (ht : highTag t = false) (hc : c.length < 2 ^ 31) :
    splitTLVs (tlv t c ++ rest) =
      match splitTLVs rest with
      | .ok l => .ok (⟨tlv t c, t, c⟩ :: l)
      | e => e := by
  rw [splitTLVs]
  have hne : (tlv t c ++ rest).isEmpty = false := by simp [tlv]
  rw [hne, if_neg (by simp)]
  split
  · rename_i t' c' rest' hu
    rw [untlv_tlv t c rest ht hc] at hu
    simp only [Res.ok.injEq, Prod.mk.injEq] at hu
    obtain ⟨rfl, rfl, rfl⟩ := hu
    simp
    cases splitTLVs rest <;> rfl
  all_goals (rename_i hu; rw [untlv_tlv t c rest ht hc] at hu; cases hu)

/-- concatenated TLVs split back into exactly those elements -/
theorem splitTLVs_flatMap (l : List (UInt8 × Bytes)) (h : ∀ p ∈ l, highTag p.1 = false ∧ p.2.length < 2 ^ 31) :
    splitTLVs (l.flatMap (fun p => tlv p.1 p.2)) = .ok (l.map (fun p => ⟨tlv p.1 p.2, p.1, p.2⟩)) := by
  induction l with
  | nil => simpa using splitTLVs_nil
  | cons p l ih =>
    have hp := h p (by simp)
    simp only [List.flatMap_cons, List.map_cons]
    rw [splitTLVs_cons _ _ _ hp.1 hp.2, ih (fun q hq => h q (by simp [hq]))]

/-- whatever `splitTLVs` accepts is the concatenation of its elements, each minimally encoded -/
theorem splitTLVs_inv (bs : Bytes) (l : List RawVal) (h : splitTLVs bs = .ok l) :
    bs = l.flatMap (·.full) ∧ ∀ v ∈ l, v.full = tlv v.tag v.bytes ∧ highTag v.tag = false := by
  induction hn : bs.length using Nat.strongRecOn generalizing bs l with
  | _ n ih =>
    rw [splitTLVs] at h
    split at h
    · rename_i he
      simp only [Res.ok.injEq] at h; subst h
      simp at he; simp [he]
    · split at h
      · rename_i t c rest hu
        have hlt := untlv_rest_lt _ _ _ _ hu
        obtain ⟨e, ht, hc⟩ := untlv_inv _ _ _ _ hu
        cases hs : splitTLVs rest with
        | ok l' =>
          rw [hs] at h
          simp only [Res.ok.injEq] at h; subst h
          obtain ⟨e', hall⟩ := ih rest.length (by omega) rest l' hs rfl
          have hfull : List.take (bs.length - rest.length) bs = tlv t c := by
            rw [e]; simp
          simp only [List.flatMap_cons, hfull]
          refine ⟨by rw [← e']; exact e, ?_⟩
          intro v hv
          simp only [List.mem_cons] at hv
          rcases hv with rfl | hv
          · exact ⟨rfl, ht⟩
          · exact hall v hv
        | err x => rw [hs] at h; cases h
        | panic x => rw [hs] at h; cases h
        | diverge => rw [hs] at h; cases h
      all_goals cases h

theorem appendAttr_absent (l : List Attr) (oid v : Bytes) (h : ∀ a ∈ l, a.oid ≠ oid) :
    appendAttr l oid v = l ++ [⟨oid, ⟨[], 0x31, v⟩⟩] := by
  induction l with
  | nil => rfl
  | cons a l ih =>
    have ha := h a (by simp)
    simp only [appendAttr, ha, if_false, List.cons_append]
    rw [ih (fun b hb => h b (by simp [hb]))]

theorem attrListBytes_eq (l : List Attr) : attrListBytes l = .ok (tlv 0x31 (attrsContent l)) := by
  simp [attrListBytes, encAttrList, retagSet_tlv]

theorem emitSignerInfo_split (pre post : List (UInt8 × Bytes)) (attrs : List Attr) :
    emitSignerInfo pre (some attrs) post =
      tlv 0x30 ((pre ++ (0xA0, attrsContent attrs) :: post).flatMap (fun p => tlv p.1 p.2)) := by
  simp [emitSignerInfo, emitAuthAttrs]

theorem authAttrBytes_emit (pre post : List (UInt8 × Bytes)) (attrs attrs' : List Attr)
    (hpre : pre.length = 3)
    (hwf : ∀ p ∈ pre ++ post, highTag p.1 = false ∧ p.2.length < 2 ^ 31)
    (ha : (attrsContent attrs).length < 2 ^ 31)
    (htot : ((pre ++ (0xA0, attrsContent attrs) :: post).flatMap (fun p => tlv p.1 p.2)).length < 2 ^ 31) :
    authAttrBytes ⟨emitSignerInfo pre (some attrs) post, attrs'⟩ = .ok (tlv 0x31 (attrsContent attrs)) := by
  rw [emitSignerInfo_split]
  have hall : ∀ p ∈ pre ++ (0xA0, attrsContent attrs) :: post, highTag p.1 = false ∧ p.2.length < 2 ^ 31 := by
    intro p hp
    simp only [List.mem_append, List.mem_cons] at hp
    rcases hp with hp | rfl | hp
    · exact hwf p (by simp [hp])
    · exact ⟨(by decide : highTag 0xA0 = false), ha⟩
    · exact hwf p (by simp [hp])
  have hu := untlv_tlv 0x30 _ [] (by decide) htot
  rw [List.append_nil] at hu
  have hne : (tlv 0x30 ((pre ++ (0xA0, attrsContent attrs) :: post).flatMap (fun p => tlv p.1 p.2))).isEmpty = false := by
    simp [tlv]
  simp only [authAttrBytes, hne, hu, splitTLVs_flatMap _ hall]
  match pre, hpre with
  | [a, b, c], _ => simp [retagSet_tlv]

/-- for a parsed signer info: whenever `AuthenticatedAttributesBytes` succeeds, the input is a
    SEQUENCE whose fourth element `e` stands in the input minimally encoded, and the result is that
    element with its identifier octet replaced by 0x31 -/
theorem authAttrBytes_parsed (si : SignerInfo) (out : Bytes) (hne : si.rawContent ≠ [])
    (h : authAttrBytes si = .ok out) :
    ∃ (c trailing : Bytes) (seq : List RawVal) (e : RawVal), si.rawContent = tlv 0x30 c ++ trailing ∧ c = seq.flatMap (·.full) ∧
      seq[3]? = some e ∧ e.full = tlv e.tag e.bytes ∧ out = tlv 0x31 e.bytes := by
  have hne' : si.rawContent.isEmpty = false := by
    cases hr : si.rawContent with
    | nil => exact absurd hr hne
    | cons _ _ => rfl
  unfold authAttrBytes at h
  rw [hne'] at h
  simp only [Bool.false_eq_true, if_false] at h
  cases hu : untlv si.rawContent with
  | ok p =>
    obtain ⟨t, c, trailing⟩ := p
    rw [hu] at h
    simp only at h
    split at h
    · cases h
    · rename_i ht
      have ht' : t = 0x30 := Decidable.of_not_not ht
      subst ht'
      cases hs : splitTLVs c with
      | ok seq =>
        rw [hs] at h
        simp only at h
        cases h3 : seq[3]? with
        | none => rw [h3] at h; cases h
        | some e =>
          rw [h3] at h
          simp only [retagSet_tlv, Res.ok.injEq] at h
          obtain ⟨e1, _, _⟩ := untlv_inv _ _ _ _ hu
          obtain ⟨e2, hall⟩ := splitTLVs_inv _ _ hs
          have hmem : e ∈ seq := List.mem_of_getElem? h3
          exact ⟨c, trailing, seq, e, e1, e2, h3, (hall e hmem).1, h.symm⟩
      | err x => rw [hs] at h; cases h
      | panic x => rw [hs] at h; cases h
      | diverge => rw [hs] at h; cases h
  | err x => rw [hu] at h; cases h
  | panic x => rw [hu] at h; cases h
  | diverge => rw [hu] at h; cases h

theorem untlvWith_head (dl) (bs : Bytes) (t : UInt8) (c rest : Bytes) (h : untlvWith dl bs = .ok (t, c, rest)) :
    ∃ tl, bs = t :: tl ∧ highTag t = false := by
  cases bs with
  | nil => simp [untlvWith] at h
  | cons x xs =>
    simp only [untlvWith] at h
    split at h
    · cases h
    · rename_i hx
      split at h
      · split at h
        · cases h
        · simp only [Res.ok.injEq, Prod.mk.injEq] at h
          obtain ⟨rfl, _, _⟩ := h
          exact ⟨xs, rfl, by simpa using hx⟩
      all_goals cases h

/-- element level, lax (BER) reading of a foreign `[0]` element `el` with content `c`: relic's derivation
    `0x31 ‖ minimal length ‖ c` equals the element-as-emitted re-tagged (`0x31 ‖ el.tail`) exactly when
    Go's strict reader accepts the element, i.e. its length octets are minimal. -/
theorem lax_equal_iff_strict (el : Bytes) (t : UInt8) (c : Bytes) (hc : c.length < 2 ^ 31)
    (h : untlvLax el = .ok (t, c, [])) :
    tlv 0x31 c = 0x31 :: el.tail ↔ untlv el = .ok (t, c, []) := by
  obtain ⟨tl, rfl, ht⟩ := untlvWith_head _ _ _ _ _ h
  constructor
  · intro e
    simp only [tlv, List.tail_cons, List.cons.injEq, true_and] at e
    have := untlv_tlv t c [] ht hc
    rw [List.append_nil] at this
    rw [← e]; exact this
  · intro hs
    obtain ⟨e, _, _⟩ := untlv_inv _ _ _ _ hs
    rw [List.append_nil] at e
    rw [e]; simp [tlv]

end Relic.Der

/-
  Relic.Model.Tsa — executable model of relic's time-stamping decision logic (property C10).

  Modelled Go code (names as in /repo):
    lib/pkcs9/http.go        NewRequest, TimeStampReq.ParseResponse, SanityCheckToken, unpackTokenInfo
    lib/pkcs9/microsoft.go   NewLegacyRequest, ParseLegacyResponse
    lib/pkcs9/tsclient       tsClient.Timestamp (ordered failover), tsClient.do
    lib/pkcs9/timestampcache timestampCache.Timestamp
    lib/pkcs9/pkcs7.go       TimestampAndMarshal, VerifyPkcs7, VerifyOptionalTimestamp, VerifyMicrosoftToken,
                             CounterSignature.VerifyChain, TimestampedSignature.VerifyChain
    lib/pkcs9/verify.go      Verify, finishVerify, MessageImprint.Verify
    lib/pkcs7/verify.go      SignedData.Verify (as used on tokens), Signature.VerifyChain (abstract `chainOK`)
    lib/appmanifest          SignedManifest.AddTimestamp -> VerifyTimestamp
    signers/appmanifest      sign (legacy / RFC 3161 choice)
    internal/signinit        Init: (Timestamp || Timestamper != "") && !no-timestamp

  Cryptography is abstract: a token carries the *outcome* of the checks Go's crypto performs
  (`sigOK`), digests are an arbitrary function `H`, signature values and certificates are
  identifiers, X.509 path validation is a predicate `chainOK cert usage time` given as data.
  Core Lean only: linked into the native driver.
-/
import Relic.Base.Bytes
namespace Relic.Tsa

/-- TSTInfo as far as relic reads it -/
structure TstInfo where
  nonce : Option Nat        -- `Nonce *big.Int "optional"`: absent = nil pointer
  imprint : Nat             -- MessageImprint.HashedMessage
  algOK : Bool              -- MessageImprint.HashAlgorithm is the algorithm of the request
  time : Option Int         -- GenTime; `none` = Go's zero time.Time (year 1)
  deriving Repr, DecidableEq

/-- eContent of the token -/
inductive Content where
  | absent                  -- no eContent (also: TimeStampToken omitted from the response)
  | empty                   -- eContent present, zero bytes
  | junk                    -- non-empty, not a TSTInfo
  | tst (i : TstInfo)
  | data (d : Nat)          -- legacy style: the bytes of a signature value
  deriving Repr, DecidableEq

/-- a PKCS#7 SignedData used as a token (or, for `counterSign`, a bare SignerInfo) -/
structure Token where
  serial : Nat              -- identity of the token
  ctypeTst : Bool           -- eContentType = id-ct-TSTInfo
  nSigners : Nat
  sigOK : Bool              -- every SignerInfo verifies against a certificate bundled in the token
  content : Content
  sigTime : Option (Option Int)  -- authenticated signing-time attribute (outer none = missing)
  tsa : Nat                 -- certificate of the signer
  mdOK : Bool := true       -- the messageDigest attribute equals the digest of the embedded content
  deriving Repr, DecidableEq

inductive Body where
  | garbage                                   -- neither DER nor base64
  | der (status : Nat) (tok : Token) (trailing : Bool)   -- DER TimeStampResp
  | b64 (tok : Option Token)                  -- base64 text wrapping DER PKCS#7 (`none`: wrapping junk)
  deriving Repr, DecidableEq

/-- what one authority does with one request -/
inductive Wire where
  | reset                   -- connection refused / reset: `client.Do` fails
  | hang                    -- never answers
  | cancel                  -- the caller's context is cancelled while this request is in flight
  | http (code : Nat) (body : Body)
  deriving Repr, DecidableEq

/-- Which checks the client has.  `asIs` is the unchanged tree. -/
structure Cfg where
  guards : Bool := false        -- fix-F11: nil-nonce and empty-content guards
  legacyChecked : Bool := false -- legacy reply verified by the client before the failover decision
  algChecked : Bool := false    -- SanityCheckToken compares the imprint's hash algorithm
  timeout : Bool := true        -- Timestamp.Timeout ≠ 0 (0 means the http.Client never gives up)
  deriving Repr, DecidableEq

def Cfg.asIs : Cfg := {}
def Cfg.fixed : Cfg := { guards := true, legacyChecked := true, algChecked := true }

structure Req where
  legacy : Bool
  nonce : Nat
  imprint : Nat             -- H(EncryptedDigest) for RFC 3161; EncryptedDigest itself for legacy
  deriving Repr, DecidableEq

structure CounterSig where
  time : Option Int
  cert : Nat
  serial : Nat
  deriving Repr, DecidableEq

/-! ### token checks -/

/-- pkcs7 `SignedData.Verify(nil, false)` on a token -/
def p7Verify (t : Token) : Res Unit :=
  if t.content = .absent then .err "missing-content"
  else if t.nSigners = 0 then .err "not-signed"
  else if t.mdOK = false then .err "digest"
  else if t.sigOK = false then .err "sig"
  else .ok ()

/-- `unpackTokenInfo`: indexes byte 0 of the content without a length check -/
def unpack (guards : Bool) (t : Token) : Res TstInfo :=
  match t.content with
  | .absent => if guards then .err "tstinfo" else .panic "index"
  | .empty => if guards then .err "tstinfo" else .panic "index"
  | .junk => .err "tstinfo"
  | .data _ => .err "tstinfo"
  | .tst i => .ok i

/-- `TimeStampReq.SanityCheckToken` -/
def sanityCheck (c : Cfg) (r : Req) (t : Token) : Res Token :=
  match p7Verify t with
  | .err e => .err e
  | .panic s => .panic s
  | .diverge => .diverge
  | .ok _ =>
    match unpack c.guards t with
    | .err e => .err e
    | .panic s => .panic s
    | .diverge => .diverge
    | .ok i =>
      match i.nonce with
      | none => if c.guards then .err "nonce" else .panic "nil-deref"   -- req.Nonce.Cmp(nil)
      | some n =>
        if n ≠ r.nonce then .err "nonce"
        else if i.imprint ≠ r.imprint then .err "imprint"
        else if c.algChecked && !i.algOK then .err "imprint"
        else .ok t

/-- `VerifyMicrosoftToken token encryptedDigest` -/
def verifyMsToken (t : Token) (ed : Nat) : Res CounterSig :=
  match p7Verify t with
  | .err e => .err e
  | .panic s => .panic s
  | .diverge => .diverge
  | .ok _ =>
    if t.content ≠ .data ed then .err "imprint"
    else match t.sigTime with
      | none => .err "signing-time"
      | some tm => .ok ⟨tm, t.tsa, t.serial⟩

/-- `pkcs9.Verify tst data certs` followed by `finishVerify` -/
def verifyRfcToken (H : Nat → Nat) (guards : Bool) (t : Token) (ed : Nat) : Res CounterSig :=
  if t.nSigners ≠ 1 then .err "signers"
  else match unpack guards t with
    | .err e => .err e
    | .panic s => .panic s
    | .diverge => .diverge
    | .ok i =>
      if i.algOK = false ∨ i.imprint ≠ H ed then .err "imprint"
      else if t.mdOK = false then .err "digest"      -- finishVerify -> SignerInfo.Verify: messageDigest vs TSTInfo blob
      else if t.sigOK = false then .err "sig"
      else .ok ⟨i.time, t.tsa, t.serial⟩

/-- PKCS#9 counterSignature attribute: a SignerInfo whose content is the signature value.  There is no
embedded content: the one comparison Go makes is messageDigest = hash(ed), which holds exactly when the
attribute matches the value the token names (`mdOK`) and that value is `ed`. -/
def verifyCounterSign (t : Token) (ed : Nat) : Res CounterSig :=
  if t.content ≠ .data ed ∨ t.mdOK = false then .err "digest"
  else if t.sigOK = false then .err "sig"
  else match t.sigTime with
    | none => .err "signing-time"
    | some tm => .ok ⟨tm, t.tsa, t.serial⟩

/-- `appmanifest.VerifyTimestamp` -/
def verifyManifestTs (H : Nat → Nat) (guards : Bool) (t : Token) (ed : Nat) : Res CounterSig :=
  if t.ctypeTst then verifyRfcToken H guards t ed else verifyMsToken t ed

/-! ### the client -/

def parseBody (c : Cfg) (r : Req) : Body → Res Token
  | .garbage => .err (if r.legacy then "base64" else "unmarshal")
  | .der st t tr =>
    if r.legacy then .err "base64"
    else if tr then .err "trailing"
    else if st > 1 then .err "denied"
    else sanityCheck c r t
  | .b64 none => .err "unmarshal"
  | .b64 (some t) =>
    if r.legacy then
      if c.legacyChecked then
        match verifyMsToken t r.imprint with
        | .ok _ => .ok t
        | .err e => .err e
        | .panic s => .panic s
        | .diverge => .diverge
      else .ok t                     -- ParseLegacyResponse: decoded, nothing compared
    else .err "unmarshal"

/-- `tsClient.do` -/
def doOne (c : Cfg) (r : Req) : Wire → Res Token
  | .reset => .err "transport"
  | .hang => if c.timeout then .err "timeout" else .diverge
  | .cancel => .err "canceled"
  | .http code b => if code ≠ 200 then .err "http" else parseBody c r b

inductive Src where
  | url (i : Nat)
  | cache
  deriving Repr, DecidableEq

structure Outcome where
  res : Res (Src × Token)
  contacted : List Nat      -- indices of the URLs that received a request, in order
  errs : List String        -- error class of every failed attempt, in order
  deriving Repr, DecidableEq

/-- the loop of `tsClient.Timestamp`; `last` is the error of the previous attempt -/
def tryFrom (c : Cfg) (r : Req) : Nat → List Wire → String → Outcome
  | _, [], last => ⟨.err ("failed:" ++ last), [], []⟩
  | i, w :: ws, _ =>
    match doOne c r w with
    | .ok t => ⟨.ok (.url i, t), [i], []⟩
    | .panic s => ⟨.panic s, [i], []⟩
    | .diverge => ⟨.diverge, [i], []⟩
    | .err e =>
      if w = .cancel then ⟨.err e, [i], [e]⟩         -- ctx.Err() != nil: stop, error unwrapped
      else
        let o := tryFrom c r (i + 1) ws e
        ⟨o.res, i :: o.contacted, e :: o.errs⟩

/-- `tsClient.Timestamp`.  `pre`: the caller's context is already cancelled. -/
def timestamp (c : Cfg) (r : Req) (pre : Bool) (ws : List Wire) : Outcome :=
  match ws with
  | [] => ⟨.err "empty-urls", [], []⟩
  | _ :: _ =>
    if pre then ⟨.err "canceled", [], ["canceled"]⟩
    else tryFrom c r 0 ws ""

/-! ### cache -/

inductive CacheVal where
  | tok (t : Token)
  | junk
  deriving Repr, DecidableEq

/-- cache key: style, pool name, hash id, signature value -/
structure Key where
  legacy : Bool
  name : Nat
  hash : Nat
  ed : Nat
  deriving Repr, DecidableEq

abbrev Store := List (Key × CacheVal)

def lookup (st : Store) (k : Key) : Option CacheVal :=
  match st with
  | [] => none
  | (k', v) :: rest => if k' = k then some v else lookup rest k

/-- `timestampCache.Timestamp`; `up = false`: memcached unreachable (Get and Set fail, logged only) -/
def cachedTimestamp (up : Bool) (st : Store) (k : Key) (inner : Outcome) : Outcome × Store :=
  match (if up then lookup st k else none) with
  | some (.tok t) => (⟨.ok (.cache, t), [], []⟩, st)      -- returned as found, not verified
  | _ =>
    match inner.res with
    | .ok (_, t) => (inner, if up then (k, .tok t) :: st else st)
    | _ => (inner, st)

/-! ### attaching and verifying -/

inductive Flow where
  | p7 | p7ac | manifest
  deriving Repr, DecidableEq

inductive Attach where
  | none
  | tsToken (t : Token)      -- id-aa-timeStampToken
  | spcToken (t : Token)     -- 1.3.6.1.4.1.311.3.3.1
  | counterSign (t : Token)  -- PKCS#9 counterSignature
  | manifestTs (t : Token)   -- as:Timestamp element of a ClickOnce manifest
  deriving Repr, DecidableEq

structure Artefact where
  encDigest : Nat
  leaf : Nat
  attach : Attach
  deriving Repr, DecidableEq

def Attach.token? : Attach → Option Token
  | .none => Option.none
  | .tsToken t => some t
  | .spcToken t => some t
  | .counterSign t => some t
  | .manifestTs t => some t

/-- `VerifyPkcs7` / `appmanifest.Verify`'s timestamp part -/
def verifyAttach (H : Nat → Nat) (guards : Bool) (a : Artefact) : Res (Option CounterSig) :=
  let lift (r : Res CounterSig) : Res (Option CounterSig) :=
    match r with
    | .ok cs => .ok (some cs)
    | .err e => .err e
    | .panic s => .panic s
    | .diverge => .diverge
  match a.attach with
  | .none => .ok Option.none
  | .tsToken t => lift (verifyRfcToken H guards t a.encDigest)
  | .spcToken t => lift (verifyRfcToken H guards t a.encDigest)
  | .counterSign t => lift (verifyCounterSign t a.encDigest)
  | .manifestTs t => lift (verifyManifestTs H guards t a.encDigest)

def mkAttach : Flow → Token → Attach
  | .p7, t => .tsToken t
  | .p7ac, t => .spcToken t
  | .manifest, t => .manifestTs t

/-- usage for `chainOK` -/
inductive Usage where
  | timestamping | requested
  deriving Repr, DecidableEq

/-- `TimestampedSignature.VerifyChain`; a zero `time.Time` makes crypto/x509 use the current time -/
def verifyChain (chainOK : Nat → Usage → Int → Bool) (now : Int) (leaf : Nat) (cs : Option CounterSig) : Res Unit :=
  match cs with
  | some c =>
    if chainOK c.cert .timestamping (c.time.getD now) = false then .err "ts-chain"
    else if chainOK leaf .requested (c.time.getD now) = false then .err "chain"
    else .ok ()
  | none =>
    if chainOK leaf .requested now = false then .err "chain" else .ok ()

/-! ### signing -/

structure SignCfg where
  keyTimestamp : Bool       -- key config `timestamp: true`
  keyNamed : Bool           -- key config `timestamper: <name>` non-empty
  noTimestampFlag : Bool    -- request flag `no-timestamp`
  haveSection : Bool        -- the configuration has a `timestamp:` section
  deriving Repr, DecidableEq

def SignCfg.wanted (s : SignCfg) : Bool := (s.keyTimestamp || s.keyNamed) && !s.noTimestampFlag

structure SignOut where
  res : Res Artefact
  outcome : Outcome
  deriving Repr, DecidableEq

def noOutcome : Outcome := ⟨.err "not-called", [], []⟩

/-- the post-attachment check of `TimestampAndMarshal` / `AddTimestamp` -/
def attachAndCheck (H : Nat → Nat) (guards : Bool) (flow : Flow) (ed leaf : Nat) (t : Token) : Res Artefact :=
  let a : Artefact := ⟨ed, leaf, mkAttach flow t⟩
  match verifyAttach H guards a with
  | .ok _ => .ok a
  | .err e => .err ("selfcheck:" ++ e)
  | .panic s => .panic s
  | .diverge => .diverge

/-- signing with a time-stamper whose behaviour is `o` (client, or cache in front of the client) -/
def signWith (H : Nat → Nat) (guards : Bool) (flow : Flow) (ed leaf : Nat) (o : Outcome) : SignOut :=
  match o.res with
  | .ok (_, t) => ⟨attachAndCheck H guards flow ed leaf t, o⟩
  | .err e => ⟨.err e, o⟩
  | .panic s => ⟨.panic s, o⟩
  | .diverge => ⟨.diverge, o⟩

/-- `signinit.Init` + signer module: the whole signing operation -/
def sign (H : Nat → Nat) (c : Cfg) (s : SignCfg) (flow : Flow) (legacy pre : Bool) (nonce ed leaf : Nat)
    (ws : List Wire) : SignOut :=
  if s.wanted then
    if s.haveSection = false then ⟨.err "no-timestamp-config", noOutcome⟩
    else
      let r : Req := ⟨legacy, nonce, if legacy then ed else H ed⟩
      signWith H c.guards flow ed leaf (timestamp c r pre ws)
  else ⟨.ok ⟨ed, leaf, .none⟩, noOutcome⟩

end Relic.Tsa

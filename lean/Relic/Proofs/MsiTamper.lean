/-
  Relic.Proofs.MsiTamper — the MSI digest inputs as flattenings of one walk over the document, and what equality of
  the two inputs forces when the walks have the same shape.  Core tactics only.
-/
import Relic.Proofs.MsiSign
import Relic.Proofs.Codec
namespace Relic.MsiSign
open Relic Relic.MsiDigest Relic.RedBlack
set_option linter.unusedSimpArgs false
set_option linter.unusedVariables false

/-- the events of a walk over the document in digest order -/
inductive Item where
  | stream (m : Meta) (c : Bytes)
  | opn (m : Meta)
  | cls (m : Meta)
  deriving Repr, DecidableEq

def walkDir (isRoot : Bool) (kids : List (Meta × List Item)) : List Item :=
  ((Spec.MsiDigest.digestOrder kids).filter (fun k => !(isRoot && Spec.MsiDigest.isSignatureStream k.1))).flatMap (·.2)

mutual
def walkEntry : Node → Meta × List Item
  | .mk m c kids =>
    (m, if m.typ = 2 then [.stream m c]
        else if m.typ = 1 then (.opn m :: walkDir false (walkEntries kids)) ++ [.cls m] else [])
def walkEntries : List Node → List (Meta × List Item)
  | [] => []
  | n :: r => walkEntry n :: walkEntries r
end

/-- streams and (opening, closing) storages below the root in the order of the specification, signature streams of the
    root left out -/
def walk (root : Node) : List Item := walkDir true (walkEntries root.kids)

/-- what an event contributes to the hashed stream / to the pre-hash input -/
def mainB : Item → Bytes
  | .stream _ c => c
  | .opn _ => []
  | .cls m => m.clsid
def preB : Item → Bytes
  | .stream m _ => Spec.MsiDigest.metaInput m false
  | .opn m => Spec.MsiDigest.metaInput m false
  | .cls _ => []

variable {β γ : Type}

theorem insertSorted_mapSnd (g : Meta → β → γ) (x : Meta × β) : ∀ l : List (Meta × β),
    Spec.MsiDigest.insertSorted (x.1, g x.1 x.2) (l.map (fun y => (y.1, g y.1 y.2))) =
    (Spec.MsiDigest.insertSorted x l).map (fun y => (y.1, g y.1 y.2))
  | [] => rfl
  | y :: r => by
    simp only [List.map_cons, Spec.MsiDigest.insertSorted]
    by_cases hb : Spec.MsiDigest.specBefore x.1 y.1 = true
    · simp [hb]
    · simp [hb, insertSorted_mapSnd g x r]

theorem digestOrder_mapSnd (g : Meta → β → γ) : ∀ l : List (Meta × β),
    Spec.MsiDigest.digestOrder (l.map (fun y => (y.1, g y.1 y.2))) =
    (Spec.MsiDigest.digestOrder l).map (fun y => (y.1, g y.1 y.2))
  | [] => rfl
  | x :: r => by
    have ih := digestOrder_mapSnd g r
    unfold Spec.MsiDigest.digestOrder at ih ⊢
    simp only [List.map_cons, List.foldr_cons]
    rw [ih, insertSorted_mapSnd]

/-- a directory's bytes are the flattening of its walk -/
theorem dir_flat (f : Item → Bytes) (isRoot : Bool) (l : List (Meta × List Item)) :
    (((Spec.MsiDigest.digestOrder (l.map (fun y => (y.1, y.2.flatMap f)))).filter
        (fun k => !(isRoot && Spec.MsiDigest.isSignatureStream k.1))).flatMap (·.2)) =
    (walkDir isRoot l).flatMap f := by
  rw [digestOrder_mapSnd (fun _ (its : List Item) => its.flatMap f)]
  unfold walkDir
  rw [List.filter_map, List.flatMap_map, List.flatMap_assoc]
  rfl

theorem walkEntries_eq_map : ∀ ks, walkEntries ks = ks.map walkEntry
  | [] => by rw [walkEntries]; rfl
  | n :: r => by rw [walkEntries, walkEntries_eq_map r]; rfl

mutual
theorem entryInput_walk : ∀ n : Node,
    Spec.MsiDigest.entryInput n = ((walkEntry n).1, (walkEntry n).2.flatMap mainB)
  | .mk m c kids => by
    rw [Spec.MsiDigest.entryInput, walkEntry]
    by_cases h2 : m.typ = 2
    · simp [h2, mainB]
    · by_cases h1 : m.typ = 1
      · simp only [h2, h1, if_false, if_true]
        congr 1
        unfold Spec.MsiDigest.dirInput
        rw [entriesInput_walk kids, dir_flat mainB false]
        simp [mainB]
      · simp [h1, h2]
theorem entriesInput_walk : ∀ ks : List Node,
    Spec.MsiDigest.entriesInput ks = (walkEntries ks).map (fun y => (y.1, y.2.flatMap mainB))
  | [] => by rw [Spec.MsiDigest.entriesInput, walkEntries]; rfl
  | n :: r => by
    rw [Spec.MsiDigest.entriesInput, walkEntries, entryInput_walk n, entriesInput_walk r]; rfl
end

mutual
theorem entryMeta_walk : ∀ n : Node,
    Spec.MsiDigest.entryMeta n = ((walkEntry n).1, (walkEntry n).2.flatMap preB)
  | .mk m c kids => by
    rw [Spec.MsiDigest.entryMeta, walkEntry]
    by_cases h2 : m.typ = 2
    · simp [h2, preB]
    · by_cases h1 : m.typ = 1
      · simp only [h2, h1, if_false, if_true]
        congr 1
        unfold Spec.MsiDigest.dirMetaInput
        rw [entriesMeta_walk kids, dir_flat preB false]
        simp [preB]
      · simp [h1, h2]
theorem entriesMeta_walk : ∀ ks : List Node,
    Spec.MsiDigest.entriesMeta ks = (walkEntries ks).map (fun y => (y.1, y.2.flatMap preB))
  | [] => by rw [Spec.MsiDigest.entriesMeta, walkEntries]; rfl
  | n :: r => by
    rw [Spec.MsiDigest.entriesMeta, walkEntries, entryMeta_walk n, entriesMeta_walk r]; rfl
end

/-- **the hashed stream is the contents and CLSIDs along the walk, then the root's CLSID** -/
theorem hashInput_walk (root : Node) :
    Spec.MsiDigest.hashInput root = (walk root).flatMap mainB ++ root.meta.clsid := by
  unfold Spec.MsiDigest.hashInput Spec.MsiDigest.dirInput walk
  rw [entriesInput_walk, dir_flat mainB true]

/-- **the pre-hash input is the root's metadata, then the entries' metadata along the walk** -/
theorem prehashInput_walk (root : Node) :
    Spec.MsiDigest.prehashInput root = Spec.MsiDigest.metaInput root.meta true ++ (walk root).flatMap preB := by
  unfold Spec.MsiDigest.prehashInput Spec.MsiDigest.dirMetaInput walk
  rw [entriesMeta_walk, dir_flat preB true]


/-! ### injectivity of the pieces -/

theorem ofNat_inj_lt {a b : Nat} (ha : a < 256) (hb : b < 256) (h : UInt8.ofNat a = UInt8.ofNat b) : a = b := by
  have := congrArg UInt8.toNat h
  simp only [UInt8.toNat_ofNat'] at this
  omega

theorem le16s_append : ∀ a b : List Nat, le16s (a ++ b) = le16s a ++ le16s b
  | [], b => rfl
  | x :: a, b => by simp [le16s, le16s_append a b]

theorem le16s_inj : ∀ a b : List Nat, (∀ u ∈ a, u < 65536) → (∀ u ∈ b, u < 65536) → le16s a = le16s b → a = b
  | [], [], _, _, _ => rfl
  | [], y :: b, _, _, h => by simp [le16s] at h
  | x :: a, [], _, _, h => by simp [le16s] at h
  | x :: a, y :: b, ha, hb, h => by
    simp only [le16s, List.cons.injEq] at h
    have hx := ha x (by simp)
    have hy := hb y (by simp)
    have e1 := ofNat_inj_lt (Nat.mod_lt _ (by omega)) (Nat.mod_lt _ (by omega)) h.1
    have e2 := ofNat_inj_lt (by omega) (by omega) h.2.1
    have : x = y := by omega
    rw [this, le16s_inj a b (fun u hu => ha u (by simp [hu])) (fun u hu => hb u (by simp [hu])) h.2.2]

theorem leBytes_inj (w a b : Nat) (ha : a < 256 ^ w) (hb : b < 256 ^ w) (h : leBytes w a = leBytes w b) : a = b := by
  have := congrArg leVal h
  rwa [leVal_leBytes_of_lt w a ha, leVal_leBytes_of_lt w b hb] at this

/-- the name bytes the pre-hash takes from a well-formed entry are the code units of its name, little-endian -/
theorem nameBytes_wf (m : Meta) (h : WfName m) :
    ((Spec.MsiDigest.nameField m).take (m.nameLen - 2)).map UInt8.ofNat = le16s (Spec.MsiDigest.specName m) := by
  obtain ⟨pad, hp⟩ := h.split
  rw [List.map_take]
  unfold Spec.MsiDigest.nameField
  rw [nameField_bytes]
  conv => lhs; rw [hp, le16s_append]
  have : m.nameLen - 2 = (le16s (Spec.MsiDigest.specName m)).length := by rw [le16s_length, h.even]; omega
  rw [this, List.take_left']
  rfl

/-- the numeric fields of an entry fit their widths, its CLSID has 16 bytes, its name field is well formed -/
structure MetaOk (m : Meta) : Prop where
  wf : wfNameB m = true
  clsid : m.clsid.length = 16
  size : m.size < 256 ^ 4
  state : m.state < 256 ^ 4
  ctime : m.ctime < 256 ^ 8
  mtime : m.mtime < 256 ^ 8

/-- **metaInput is injective on entries of the same type and name length** -/
theorem metaInput_inj (a b : Meta) (ha : MetaOk a) (hb : MetaOk b) (ht : a.typ = b.typ) (hn : a.nameLen = b.nameLen)
    (h : Spec.MsiDigest.metaInput a false = Spec.MsiDigest.metaInput b false) :
    Spec.MsiDigest.specName a = Spec.MsiDigest.specName b ∧ (a.typ = 2 → a.size = b.size) ∧
    (a.typ ≠ 2 → a.clsid = b.clsid) ∧ a.state = b.state ∧ a.ctime = b.ctime ∧ a.mtime = b.mtime := by
  have wa := wfName_of_B a ha.wf
  have wb := wfName_of_B b hb.wf
  unfold Spec.MsiDigest.metaInput at h
  simp only [Bool.false_eq_true, if_false] at h
  rw [nameBytes_wf a wa, nameBytes_wf b wb] at h
  have hlen : (le16s (Spec.MsiDigest.specName a)).length = (le16s (Spec.MsiDigest.specName b)).length := by
    rw [le16s_length, le16s_length]
    have := wa.even; have := wb.even
    omega
  simp only [List.append_assoc] at h
  obtain ⟨h1, h⟩ := List.append_inj h hlen
  have hname := le16s_inj _ _ (fun u hu => wa.lt16 u (by rw [wa.split.choose_spec]; simp [hu]))
    (fun u hu => wb.lt16 u (by rw [wb.split.choose_spec]; simp [hu])) h1
  by_cases h2 : a.typ = 2
  · have h2' : b.typ = 2 := ht ▸ h2
    simp only [h2, h2', if_true] at h
    obtain ⟨e1, h⟩ := List.append_inj h (by simp)
    obtain ⟨e2, h⟩ := List.append_inj h (by simp)
    obtain ⟨e3, e4⟩ := List.append_inj h (by simp)
    exact ⟨hname, fun _ => leBytes_inj 4 _ _ ha.size hb.size e1, fun hh => absurd h2 hh,
      leBytes_inj 4 _ _ ha.state hb.state e2, leBytes_inj 8 _ _ ha.ctime hb.ctime e3, leBytes_inj 8 _ _ ha.mtime hb.mtime e4⟩
  · have h2' : ¬ b.typ = 2 := ht ▸ h2
    simp only [h2, h2', if_false] at h
    obtain ⟨e1, h⟩ := List.append_inj h (by rw [ha.clsid, hb.clsid])
    obtain ⟨e2, h⟩ := List.append_inj h (by simp)
    obtain ⟨e3, e4⟩ := List.append_inj h (by simp)
    exact ⟨hname, fun hh => absurd hh h2, fun _ => e1,
      leBytes_inj 4 _ _ ha.state hb.state e2, leBytes_inj 8 _ _ ha.ctime hb.ctime e3, leBytes_inj 8 _ _ ha.mtime hb.mtime e4⟩


theorem metaInput_length (m : Meta) (h : MetaOk m) :
    (Spec.MsiDigest.metaInput m false).length = (m.nameLen - 2) + (if m.typ = 2 then 4 else 16) + 4 + 16 := by
  have w := wfName_of_B m h.wf
  unfold Spec.MsiDigest.metaInput
  simp only [Bool.false_eq_true, if_false]
  rw [nameBytes_wf m w]
  have := w.even
  by_cases h2 : m.typ = 2
  · simp [h2, le16s_length]; omega
  · simp [h2, le16s_length, h.clsid]; omega

/-! ### equal digests, same shape ⇒ same walk -/

/-- the fields of an event fit their widths; a stream's content has the length its size field says -/
def ItemOk : Item → Prop
  | .stream m c => MetaOk m ∧ m.typ = 2 ∧ c.length = m.size
  | .opn m => MetaOk m ∧ m.typ = 1
  | .cls m => m.clsid.length = 16

/-- kind of event and length of the name field -/
def shapeOf : Item → Nat × Nat
  | .stream m _ => (2, m.nameLen)
  | .opn m => (1, m.nameLen)
  | .cls _ => (3, 0)

/-- what the two digest inputs together determine of an event: kind, name, CLSID (storages), size (streams), state
    bits, creation and modification time, content (streams) -/
def viewOf : Item → Nat × List Nat × Bytes × Nat × Nat × Nat × Nat × Bytes
  | .stream m c => (2, Spec.MsiDigest.specName m, [], m.size, m.state, m.ctime, m.mtime, c)
  | .opn m => (1, Spec.MsiDigest.specName m, m.clsid, 0, m.state, m.ctime, m.mtime, [])
  | .cls m => (3, [], m.clsid, 0, 0, 0, 0, [])

theorem walk_inj : ∀ (w w' : List Item), (∀ x ∈ w, ItemOk x) → (∀ x ∈ w', ItemOk x) →
    w.map shapeOf = w'.map shapeOf → ∀ (t t' u u' : Bytes),
    w.flatMap preB ++ t = w'.flatMap preB ++ t' → w.flatMap mainB ++ u = w'.flatMap mainB ++ u' →
    w.map viewOf = w'.map viewOf ∧ t = t' ∧ u = u'
  | [], [], _, _, _, t, t', u, u', hp, hm => by simpa using And.intro hp hm
  | [], _ :: _, _, _, hs, _, _, _, _, _, _ => by simp at hs
  | _ :: _, [], _, _, hs, _, _, _, _, _, _ => by simp at hs
  | x :: w, x' :: w', ho, ho', hs, t, t', u, u', hp, hm => by
    simp only [List.map_cons, List.cons.injEq] at hs
    have hx := ho x (by simp)
    have hx' := ho' x' (by simp)
    have ih := walk_inj w w' (fun y hy => ho y (by simp [hy])) (fun y hy => ho' y (by simp [hy])) hs.2
    simp only [List.flatMap_cons, List.append_assoc] at hp hm
    cases x with
    | stream m c =>
      cases x' with
      | stream m' c' =>
        simp only [shapeOf, Prod.mk.injEq, true_and] at hs
        simp only [ItemOk] at hx hx'
        simp only [preB, mainB] at hp hm
        have hl : (Spec.MsiDigest.metaInput m false).length = (Spec.MsiDigest.metaInput m' false).length := by
          rw [metaInput_length m hx.1, metaInput_length m' hx'.1, hs.1, hx.2.1, hx'.2.1]
        obtain ⟨e, hp'⟩ := List.append_inj hp hl
        obtain ⟨f1, f2, _, f4, f5, f6⟩ := metaInput_inj m m' hx.1 hx'.1 (hx.2.1.trans hx'.2.1.symm) hs.1 e
        have hsz := f2 hx.2.1
        obtain ⟨ec, hm'⟩ := List.append_inj hm (by rw [hx.2.2, hx'.2.2, hsz])
        obtain ⟨r1, r2, r3⟩ := ih t t' u u' hp' hm'
        refine ⟨?_, r2, r3⟩
        simp only [List.map_cons, viewOf, r1, f1, hsz, f4, f5, f6, ec]
      | opn m' => simp [shapeOf] at hs
      | cls m' => simp [shapeOf] at hs
    | opn m =>
      cases x' with
      | stream m' c' => simp [shapeOf] at hs
      | opn m' =>
        simp only [shapeOf, Prod.mk.injEq, true_and] at hs
        simp only [ItemOk] at hx hx'
        simp only [preB, mainB, List.nil_append] at hp hm
        have hl : (Spec.MsiDigest.metaInput m false).length = (Spec.MsiDigest.metaInput m' false).length := by
          rw [metaInput_length m hx.1, metaInput_length m' hx'.1, hs.1, hx.2, hx'.2]
        obtain ⟨e, hp'⟩ := List.append_inj hp hl
        have hne : m.typ ≠ 2 := by rw [hx.2]; decide
        obtain ⟨f1, _, f3, f4, f5, f6⟩ := metaInput_inj m m' hx.1 hx'.1 (hx.2.trans hx'.2.symm) hs.1 e
        obtain ⟨r1, r2, r3⟩ := ih t t' u u' hp' hm
        refine ⟨?_, r2, r3⟩
        simp only [List.map_cons, viewOf, r1, f1, f3 hne, f4, f5, f6]
      | cls m' => simp [shapeOf] at hs
    | cls m =>
      cases x' with
      | stream m' c' => simp [shapeOf] at hs
      | opn m' => simp [shapeOf] at hs
      | cls m' =>
        simp only [ItemOk] at hx hx'
        simp only [preB, mainB, List.nil_append] at hp hm
        obtain ⟨ec, hm'⟩ := List.append_inj hm (by rw [hx, hx'])
        obtain ⟨r1, r2, r3⟩ := ih t t' u u' hp hm'
        refine ⟨?_, r2, r3⟩
        simp only [List.map_cons, viewOf, r1, ec]

def metaOkB (m : Meta) : Bool :=
  wfNameB m && m.clsid.length == 16 && decide (m.size < 256 ^ 4) && decide (m.state < 256 ^ 4) &&
  decide (m.ctime < 256 ^ 8) && decide (m.mtime < 256 ^ 8)

theorem metaOkB_sound (m : Meta) (h : metaOkB m = true) : MetaOk m := by
  simp only [metaOkB, Bool.and_eq_true, beq_iff_eq, decide_eq_true_eq] at h
  exact ⟨h.1.1.1.1.1, h.1.1.1.1.2, h.1.1.1.2, h.1.1.2, h.1.2, h.2⟩

/-- executable form of `ItemOk` -/
def itemOkB : Item → Bool
  | .stream m c => metaOkB m && m.typ == 2 && c.length == m.size
  | .opn m => metaOkB m && m.typ == 1
  | .cls m => m.clsid.length == 16

theorem itemOkB_sound (x : Item) (h : itemOkB x = true) : ItemOk x := by
  cases x with
  | stream m c =>
    simp only [itemOkB, Bool.and_eq_true, beq_iff_eq] at h
    exact ⟨metaOkB_sound m h.1.1, h.1.2, h.2⟩
  | opn m =>
    simp only [itemOkB, Bool.and_eq_true, beq_iff_eq] at h
    exact ⟨metaOkB_sound m h.1, h.2⟩
  | cls m => simpa [itemOkB, ItemOk] using h

/-- **equal pre-hash input and equal hashed stream on documents whose walks have the same shape force the same walk**:
    every name, size, CLSID of a storage, state word, creation and modification time and every byte of every stream;
    also the root's CLSID and state bits -/
theorem inputs_inj (d d' : Node) (hw : (walk d).all itemOkB = true) (hw' : (walk d').all itemOkB = true)
    (hc : d.meta.clsid.length = 16) (hc' : d'.meta.clsid.length = 16)
    (hr : d.meta.typ = typRoot) (hr' : d'.meta.typ = typRoot)
    (hst : d.meta.state < 256 ^ 4) (hst' : d'.meta.state < 256 ^ 4)
    (hs : (walk d).map shapeOf = (walk d').map shapeOf)
    (hp : Spec.MsiDigest.prehashInput d = Spec.MsiDigest.prehashInput d')
    (hm : Spec.MsiDigest.hashInput d = Spec.MsiDigest.hashInput d') :
    (walk d).map viewOf = (walk d').map viewOf ∧ d.meta.clsid = d'.meta.clsid ∧ d.meta.state = d'.meta.state := by
  rw [prehashInput_walk, prehashInput_walk] at hp
  rw [hashInput_walk, hashInput_walk] at hm
  have h2 : d.meta.typ ≠ 2 := by rw [hr]; decide
  have h2' : d'.meta.typ ≠ 2 := by rw [hr']; decide
  have hroot : Spec.MsiDigest.metaInput d.meta true = d.meta.clsid ++ leBytes 4 d.meta.state := by
    unfold Spec.MsiDigest.metaInput; simp [h2]
  have hroot' : Spec.MsiDigest.metaInput d'.meta true = d'.meta.clsid ++ leBytes 4 d'.meta.state := by
    unfold Spec.MsiDigest.metaInput; simp [h2']
  rw [hroot, hroot'] at hp
  simp only [List.append_assoc] at hp
  obtain ⟨e1, hp⟩ := List.append_inj hp (by rw [hc, hc'])
  obtain ⟨e2, hp⟩ := List.append_inj hp (by simp)
  have hp' : (walk d).flatMap preB ++ [] = (walk d').flatMap preB ++ [] := by simpa using hp
  obtain ⟨r1, _, _⟩ := walk_inj (walk d) (walk d')
    (fun x hx => itemOkB_sound x (List.all_eq_true.mp hw x hx))
    (fun x hx => itemOkB_sound x (List.all_eq_true.mp hw' x hx)) hs [] [] _ _ hp' hm
  exact ⟨r1, e1, leBytes_inj 4 _ _ hst hst' e2⟩

end Relic.MsiSign

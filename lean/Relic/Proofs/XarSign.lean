/- Relic.Model.Xar: what a successful `Sign` run tells, and what `Verify` then needs -/
import Relic.Proofs.XarFile
namespace Relic.Xar
open Relic

/-! ### unpacking a successful `Sign` -/

theorem signPlan_ok (C : Crypto) (E : Env) (f : Bytes) (hk : HK) (ki : KeyInfo) (so : SignOut)
    (h : (signPlan E f hk ki).run C = .ok so) :
    ∃ hd k0 t n p, parseHeader f = .ok (hd, k0) ∧ hd.clen ≤ 1000000 ∧ hd.ulen ≤ 10000000 ∧
      E.decode (region f 28 hd.clen) = some (t, n) ∧ prep E.num hk ki t = some p ∧
      so = ⟨hk, p.tree E.num, p.origSig, p.newSig, w64 (28 + hd.clen + p.origSig), ki.rsaSize⟩ ∧
      (checkAllStream (f.drop (28 + hd.clen.toNat)) 0 (sortRefs (eRefs E.num p.doc1))).run C = .ok () := by
  rw [run_ok_iff] at h
  obtain ⟨hc, hf⟩ := h
  unfold signPlan at hc hf
  cases hp : parseHeader f with
  | error e => simp [hp, Plan.fail] at hf
  | ok v =>
    obtain ⟨hd, k0⟩ := v
    simp only [hp] at hc hf
    by_cases hl : hd.clen > 1000000 ∨ hd.ulen > 10000000
    · simp [hl, Plan.fail] at hf
    · simp only [hl, ↓reduceIte] at hc hf
      cases hz : E.decode (region f 28 hd.clen) with
      | none => simp [hz, Plan.fail] at hf
      | some v =>
        obtain ⟨t, n⟩ := v
        simp only [hz] at hc hf
        cases hpr : prep E.num hk ki t with
        | none => simp [hpr, Plan.fail] at hf
        | some p =>
          simp only [hpr] at hc hf
          obtain ⟨u, hu1, hu2, hu3⟩ := bind_final_ok _ _ _ hf
          refine ⟨hd, k0, t, n, p, rfl, by omega, by omega, hz, hpr, ?_, ?_⟩
          · simpa [Plan.pure] using hu2.symm
          · rw [run_ok_iff]
            refine ⟨fun c hcm => hc c ?_, ?_⟩
            · rw [hu3]; exact List.mem_append_left _ hcm
            · cases u; exact hu1

/-! ### the sorted list has the same elements -/

theorem mem_insertRef (r x : Ref) : ∀ l, x ∈ insertRef r l ↔ x = r ∨ x ∈ l
  | [] => by simp [insertRef]
  | y :: ys => by
    simp only [insertRef]
    split
    · simp
    · simp only [List.mem_cons, mem_insertRef r x ys]
      constructor
      · rintro (h | h | h) <;> simp [h]
      · rintro (h | h | h) <;> simp [h]

theorem mem_sortRefs (x : Ref) (rs : List Ref) : x ∈ sortRefs rs ↔ x ∈ rs := by
  unfold sortRefs
  suffices ∀ acc, x ∈ rs.foldl (fun acc r => insertRef r acc) acc ↔ x ∈ acc ∨ x ∈ rs by simpa using this []
  induction rs with
  | nil => simp
  | cons r rs ih =>
    intro acc
    simp only [List.foldl_cons, ih, mem_insertRef, List.mem_cons]
    constructor
    · rintro ((h | h) | h) <;> simp [h]
    · rintro (h | h | h) <;> simp [h]

/-! ### what the forward-only member check of `Sign` establishes -/

/-- the facts `checkFile` establishes about one member on the input heap -/
def Checked (C : Crypto) (heap : Bytes) (r : Ref) : Prop :=
  ∃ k exp, hkOfStyle r.style = some k ∧ unhex r.digest = some exp ∧ 0 ≤ r.length ∧
    (r.length ≠ 0 → 0 ≤ r.offset ∧ r.offset.toNat + r.length.toNat ≤ heap.length) ∧
    C.H k (sl heap r.offset.toNat r.length.toNat) = exp

theorem checkFileStream_ok (C : Crypto) (heap : Bytes) (pos pos' : Nat) (r : Ref)
    (h : (checkFileStream heap pos r).run C = .ok pos') : Checked C heap r := by
  rw [run_ok_iff] at h
  obtain ⟨hc, hf⟩ := h
  unfold checkFileStream at hc hf
  cases hs : hkOfStyle r.style with
  | none => simp [hs, Plan.fail] at hf
  | some k =>
    simp only [hs] at hc hf
    cases hx : unhex r.digest with
    | none => simp [hx, Plan.fail] at hf
    | some exp =>
      simp only [hx] at hc hf
      by_cases h1 : r.length < 0
      · simp [h1, Plan.fail] at hf
      · simp only [h1, ↓reduceIte] at hc hf
        by_cases h2 : r.length = 0
        · simp only [h2, ↓reduceIte] at hc hf
          refine ⟨k, exp, hs, hx, by omega, fun h => absurd h2 h, ?_⟩
          have := hc _ List.mem_cons_self
          simp only [Check.holds, beq_iff_eq] at this
          simpa [h2, sl_zero_len] using this
        · simp only [h2, ↓reduceIte] at hc hf
          by_cases h3 : r.offset < (pos : Int)
          · simp [h3, Plan.fail] at hf
          · simp only [h3, ↓reduceIte] at hc hf
            by_cases h4 : r.offset.toNat + r.length.toNat ≤ heap.length
            · simp only [h4, ↓reduceIte] at hc hf
              refine ⟨k, exp, hs, hx, by omega, fun _ => ⟨by omega, h4⟩, ?_⟩
              have := hc _ List.mem_cons_self
              simpa [Check.holds] using this
            · simp [h4, Plan.fail] at hf

theorem run_bind_ok {α β} (C : Crypto) (p : Plan α) (g : α → Plan β) (b : β) (h : (p.bind g).run C = .ok b) :
    ∃ a, p.run C = .ok a ∧ (g a).run C = .ok b := by
  rw [run_ok_iff] at h
  obtain ⟨hc, hf⟩ := h
  obtain ⟨a, h1, h2, h3⟩ := bind_final_ok p g b hf
  refine ⟨a, ?_, ?_⟩
  · rw [run_ok_iff]; exact ⟨fun c hcm => hc c (by rw [h3]; exact List.mem_append_left _ hcm), h1⟩
  · rw [run_ok_iff]; exact ⟨fun c hcm => hc c (by rw [h3]; exact List.mem_append_right _ hcm), h2⟩

theorem checkAllStream_ok (C : Crypto) (heap : Bytes) : ∀ (rs : List Ref) (pos : Nat),
    (checkAllStream heap pos rs).run C = .ok () → ∀ r ∈ rs, Checked C heap r
  | [], _, _, r, hr => by simp at hr
  | x :: xs, pos, h, r, hr => by
    simp only [checkAllStream] at h
    obtain ⟨pos', h1, h2⟩ := run_bind_ok C _ _ _ h
    simp only [List.mem_cons] at hr
    rcases hr with rfl | hr
    · exact checkFileStream_ok C heap pos pos' _ h1
    · exact checkAllStream_ok C heap xs pos' h2 r hr

/-! ### the random-access member check of `Verify` -/

theorem run_bind_of_ok {α β} (C : Crypto) (p : Plan α) (g : α → Plan β) (a : α) (b : β) (h1 : p.run C = .ok a)
    (h2 : (g a).run C = .ok b) : (p.bind g).run C = .ok b := by
  rw [run_ok_iff] at h1 h2 ⊢
  obtain ⟨c1, f1⟩ := h1
  obtain ⟨c2, f2⟩ := h2
  obtain ⟨e1, e2⟩ := bind_checks_final p g a f1
  refine ⟨?_, by rw [e2]; exact f2⟩
  intro c hc
  rw [e1, List.mem_append] at hc
  rcases hc with hc | hc
  · exact c1 c hc
  · exact c2 c hc

theorem checkAllAt_ok (C : Crypto) (f : Bytes) (base : Int) : ∀ rs : List Ref,
    (∀ r ∈ rs, (checkFileAt f base r).run C = .ok ()) → (checkAllAt f base rs).run C = .ok ()
  | [], _ => by simp [checkAllAt, Plan.pure, Plan.run, runChecks]
  | x :: xs, h => by
    simp only [checkAllAt]
    exact run_bind_of_ok C _ _ () () (h x List.mem_cons_self)
      (checkAllAt_ok C f base xs fun r hr => h r (List.mem_cons_of_mem _ hr))

/-! ### which structs `gatherDataFiles` hands to the member check -/

theorem flatXs_append (xs ys : List XFile) : flatXs (xs ++ ys) = flatXs xs ++ flatXs ys := by
  induction xs with
  | nil => simp [flatXs]
  | cons x xs ih => simp [flatXs, ih]

theorem gather_sub_flat : ∀ fs : List XFile, ∀ x ∈ gather fs, x.acc ∈ flatXs fs ∧ x.acc.length ≠ 0
  | [], x, hx => by simp [gather] at hx
  | .mk a ks :: rest, x, hx => by
    simp only [gather] at hx
    split at hx
    · rename_i hl
      simp only [List.mem_cons] at hx
      rcases hx with rfl | hx
      · exact ⟨by simp [flatXs, flatX, XFile.acc], hl⟩
      · obtain ⟨h1, h2⟩ := gather_sub_flat rest x hx
        exact ⟨by simp [flatXs, flatX, h1], h2⟩
    · simp only [List.mem_append] at hx
      rcases hx with hx | hx
      · obtain ⟨h1, h2⟩ := gather_sub_flat ks x hx
        exact ⟨by simp [flatXs, flatX, h1], h2⟩
      · obtain ⟨h1, h2⟩ := gather_sub_flat rest x hx
        exact ⟨by simp [flatXs, flatX, h1], h2⟩

def FileAcc.shiftIf (d : Int) (b : FileAcc) : FileAcc := if b.hasData then b.shift d else b

mutual
theorem flatX_shift (d : Int) : ∀ x, flatX (shiftX d x) = (flatX x).map (FileAcc.shiftIf d)
  | .mk a ks => by simp [shiftX, flatX, FileAcc.shiftIf, flatXs_shift d ks]
theorem flatXs_shift (d : Int) : ∀ xs, flatXs (shiftXs d xs) = (flatXs xs).map (FileAcc.shiftIf d)
  | [] => by simp [shiftXs, flatXs]
  | x :: xs => by simp [shiftXs, flatXs, flatX_shift d x, flatXs_shift d xs]
end

/-! ### a struct with a non-zero length has seen a `<data>` element -/

theorem umFileKids_len (N : Num) : ∀ (ks : List Xml) (a : FileAcc) (r : FileAcc × List XFile), umFileKids N ks a = some r →
    (r.1.hasData = false → r.1.length = a.length) ∧ (∀ b ∈ flatXs r.2, b.hasData = false → b.length = 0)
  | [], a, r, h => by simp [umFileKids] at h; subst h; simp [flatXs]
  | .tx s :: ks, a, r, h => by simp only [umFileKids] at h; exact umFileKids_len N ks a r h
  | .el n as k :: ks, a, r, h => by
    simp only [umFileKids] at h
    by_cases hname : n = "name"
    · simp only [hname, ↓reduceIte] at h
      simpa using umFileKids_len N ks _ r h
    · by_cases hdata : n = "data"
      · subst hdata
        simp only [hname, ↓reduceIte] at h
        cases hu : umData N k { a with hasData := true } with
        | none => simp [hu] at h
        | some a' =>
          simp only [hu] at h
          have hd := umData_hasData N k _ a' hu
          have h2 := umFileKids_hasData N ks a' r h
          obtain ⟨_, p2⟩ := umFileKids_len N ks a' r h
          refine ⟨fun hf => ?_, p2⟩
          rw [h2, hd] at hf
          simp at hf
      · by_cases hfile : n = "file"
        · subst hfile
          simp only [hname, hdata, ↓reduceIte] at h
          cases hk1 : umFileKids N k {} with
          | none => simp [hk1] at h
          | some r1 =>
            cases hk2 : umFileKids N ks a with
            | none => simp [hk1, hk2] at h
            | some r2 =>
              simp only [hk1, hk2, Option.some.injEq] at h
              subst h
              obtain ⟨q1, q2⟩ := umFileKids_len N k {} r1 hk1
              obtain ⟨p1, p2⟩ := umFileKids_len N ks a r2 hk2
              refine ⟨p1, ?_⟩
              intro b hb hd
              simp only [flatXs, flatX, List.cons_append, List.mem_cons, List.mem_append] at hb
              rcases hb with rfl | hb | hb
              · exact q1 hd
              · exact q2 b hb hd
              · exact p2 b hb hd
        · simp only [hname, hdata, hfile, ↓reduceIte] at h
          exact umFileKids_len N ks a r h

theorem umFiles_len (N : Num) : ∀ (ks : List Xml) (fs : List XFile), umFiles N ks = some fs →
    ∀ b ∈ flatXs fs, b.hasData = false → b.length = 0
  | [], fs, h => by simp [umFiles] at h; subst h; simp [flatXs]
  | .tx s :: ks, fs, h => by simp only [umFiles] at h; exact umFiles_len N ks fs h
  | .el n as k :: ks, fs, h => by
    simp only [umFiles] at h
    split at h
    · cases hk1 : umFileKids N k {} with
      | none => simp [umFile, hk1] at h
      | some r1 =>
        cases hk2 : umFiles N ks with
        | none => simp [umFile, hk1, hk2] at h
        | some fs2 =>
          simp only [umFile, hk1, hk2, Option.map_some, Option.bind_some, Option.some.injEq] at h
          subst h
          obtain ⟨q1, q2⟩ := umFileKids_len N k {} r1 hk1
          intro b hb hd
          simp only [flatXs, flatX, List.cons_append, List.mem_cons, List.mem_append] at hb
          rcases hb with rfl | hb | hb
          · exact q1 hd
          · exact q2 b hb hd
          · exact umFiles_len N ks fs2 hk2 b hb hd
    · exact umFiles_len N ks fs h

/-! ### regular documents, decidably -/

theorem append_cons_unique (n : String) : ∀ (pre pre' : List Xml) (t t' : Xml) (post post' : List Xml),
    pre ++ t :: post = pre' ++ t' :: post' → (∀ k ∈ pre, k.isEl n = false) → (∀ k ∈ pre', k.isEl n = false) →
    t.isEl n = true → t'.isEl n = true → pre = pre' ∧ t = t' ∧ post = post' := by
  intro pre pre' t t' post post' h hp hp' ht ht'
  have a := splitFirst_build n pre t post ht hp
  have b := splitFirst_build n pre' t' post' ht' hp'
  rw [h, b] at a
  simp only [Option.some.injEq, Prod.mk.injEq] at a
  exact ⟨a.1.symm, a.2.1.symm, a.2.2.symm⟩

theorem regularDoc_shape (N : Num) (t : Xml) (h : regularDoc N t = true) :
    ∀ ras pre tas tks post, t = .el "xar" ras (pre ++ .el "toc" tas tks :: post) → (∀ k ∈ pre, k.isEl "toc" = false) →
      (∀ k ∈ post, k.isEl "toc" = false) ∧ regFileKids N tks = true := by
  intro ras pre tas tks post e hp
  subst e
  simp only [regularDoc, beq_self_eq_true, Bool.true_and, splitFirst_build "toc" pre (.el "toc" tas tks) post (by simp) hp,
    Bool.and_eq_true, List.all_eq_true, Bool.not_eq_eq_eq_not, Bool.not_true, kids_el] at h
  exact h

/-! ### sign, apply, verify -/

/-- what the heap ranges of the input must satisfy for `Sign` to be expected to produce a verifiable package -/
structure MembersOk (x0 : XToc) (origSig : Int) (flen : Nat) : Prop where
  sane : ∀ b ∈ flatXs x0.files, 0 ≤ b.offset ∧ 0 ≤ b.length ∧ b.offset + b.length < 2 ^ 60
  front : ∀ b ∈ flatXs x0.files, b.length ≠ 0 → origSig ≤ b.offset
  small : flen < 2 ^ 60

theorem newBytes_some (C : Crypto) (E : Env) (so : SignOut) (rsa cms body : Bytes) (h : newBytes C E so rsa cms = some body) :
    (so.hk.size + rsa.length + cms.length : Int) ≤ so.newSig ∧
    body = (newHdr so.hk (E.encode so.tree).1.length (E.encode so.tree).2).enc ++ (E.encode so.tree).1 ++
      C.H so.hk (E.encode so.tree).1 ++ rsa ++ cms ++ zeros (so.newSig.toNat - (so.hk.size + rsa.length + cms.length)) := by
  unfold newBytes at h
  simp only at h
  split at h
  · cases h
  · rename_i hu
    simp only [Option.some.injEq] at h
    exact ⟨by omega, h.symm⟩

theorem sl_drop (f : Bytes) (a off n : Nat) : sl (f.drop a) off n = sl f (a + off) n := by
  simp [sl, List.drop_drop, Nat.add_comm]

/-- **A member behind the old signature area keeps its bytes.**  `body` replaces the first `ot = base + origSig` bytes of `f`.
    A range that `Sign` checked at heap offset `off ≥ origSig` of the input is, in the written file, the range at heap offset
    `off + (|body| − newBase) − origSig` behind the new heap base — the same bytes, so the same comparison succeeds. -/
theorem member_check_after (C : Crypto) (f body : Bytes) (base origSig : Nat) (newBase newSig : Nat)
    (hbody : body.length = newBase + newSig) (hns : newSig < 2 ^ 40) (hot : base + origSig ≤ f.length)
    (name style digest : String) (off len : Int) (hfront : (origSig : Int) ≤ off) (hlen : len ≠ 0) (hoff : off < 2 ^ 60)
    (hc : Checked C (f.drop base) ⟨name, off, len, style, digest⟩) :
    (checkFileAt (body ++ f.drop (base + origSig)) newBase ⟨name, off + (newSig - origSig), len, style, digest⟩).run C = .ok () ∧
    sl (body ++ f.drop (base + origSig)) (newBase + (off + (newSig - origSig)).toNat) len.toNat = sl f (base + off.toNat) len.toNat := by
  obtain ⟨k, exp, h1, h2, h3, h4, h5⟩ := hc
  dsimp only at h1 h2 h3 h4 h5
  obtain ⟨h4a, h4b⟩ := h4 hlen
  simp only [List.length_drop] at h4b
  have e1 : (↑newBase + (off + (↑newSig - ↑origSig)) : Int).toNat = body.length + (off.toNat - origSig) := by omega
  have hsl : sl (body ++ f.drop (base + origSig)) (body.length + (off.toNat - origSig)) len.toNat = sl f (base + off.toNat) len.toNat := by
    rw [sl_skip body _ _ _ (by omega), sl_drop]
    congr 1
    omega
  refine ⟨?_, ?_⟩
  · unfold checkFileAt
    simp only [h1, h2]
    have c1 : ¬ (off + (↑newSig - ↑origSig) < 0 ∨ len < 0 ∨ (newBase : Int) < 0 ∨ off + (↑newSig - ↑origSig) ≥ 2 ^ 62) := by omega
    have c2 : body.length + (off.toNat - origSig) + len.toNat ≤ (body ++ f.drop (base + origSig)).length := by
      simp only [List.length_append, List.length_drop]; omega
    simp only [c1, ↓reduceIte, e1, c2, hsl]
    rw [run_ok_iff]
    refine ⟨?_, rfl⟩
    intro c hc
    simp only [List.mem_cons, List.not_mem_nil, or_false] at hc
    subst hc
    simp only [Check.holds, beq_iff_eq]
    rw [← h5, sl_drop]
  · have : newBase + (off + (↑newSig - ↑origSig)).toNat = body.length + (off.toNat - origSig) := by omega
    rw [this, hsl]

theorem reserve_snd (N : Num) (hk : HK) (ki : KeyInfo) :
    (reserve N hk ki).2 = (hk.size : Int) + (ki.rsaSize.getD 0 : Nat) + (6144 + ki.derTotal) := by
  unfold reserve
  cases ki.rsaSize <;> simp <;> omega

theorem mem_dRefs_doc1 (N : Num) (ras : List (String × String)) (pre : List Xml) (tas : List (String × String))
    (new rest post : List Xml) (d : DRef) (h : d ∈ dRefsKids N none rest) :
    d ∈ dRefs N none (.el "xar" ras (pre ++ .el "toc" tas (new ++ rest) :: post)) := by
  have e1 : ("xar" == "file") = false := by decide
  have e2 : ("toc" == "file") = false := by decide
  simp only [dRefs, List.nil_append, e1, Bool.false_eq_true, ↓reduceIte, dRefsKids_append, dRefsKids_cons, e2,
    List.mem_append]
  exact Or.inr (Or.inl (Or.inr h))

theorem tocRegion_layout (C : Crypto) (hk : HK) (z : Bytes) (u : Nat) (rsa cmsArea tail : Bytes) (hz : z.length < 2 ^ 63)
    (hu : u < 2 ^ 63) : tocRegion (layout C hk z u rsa cmsArea tail) = z := by
  have hp := parseHeader_newHdr hk z.length u hz hu (z ++ (C.H hk z ++ (rsa ++ (cmsArea ++ tail))))
  unfold parseHeader at hp
  unfold tocRegion
  have e : layout C hk z u rsa cmsArea tail = (newHdr hk z.length u).enc ++ (z ++ (C.H hk z ++ (rsa ++ (cmsArea ++ tail)))) := rfl
  rw [e]
  cases hr : readHdr ((newHdr hk z.length u).enc ++ (z ++ (C.H hk z ++ (rsa ++ (cmsArea ++ tail))))) with
  | none => simp [hr] at hp
  | some h =>
    simp only [hr] at hp
    split at hp
    · cases hp
    · split at hp
      · cases hp
      · split at hp
        · cases hp
        · simp only [Except.ok.injEq, Prod.mk.injEq] at hp
          obtain ⟨rfl, _⟩ := hp
          simp only [newHdr]
          have hnn : ¬ ((z.length : Int) < 0) := by omega
          unfold regionSR region
          simp only [hnn, ↓reduceIte]
          split
          · rename_i h0
            have : z = [] := List.length_eq_zero_iff.mp (by omega)
            simp [this]
          · simp only [Int.toNat_natCast]
            exact sl_cat _ z _ 28 z.length (by simp [Hdr.enc_length]) rfl

/-- **Sign, apply, verify (core).**  See `Relic.Props.C01.xar_sign_then_verify`. -/
theorem sign_then_verify_core (C : Crypto) (E : Env) (hE : E.Laws) (hH : ∀ k b, (C.H k b).length = k.size)
    (f : Bytes) (hk : HK) (ki : KeyInfo) (hki : ki.small) (so : SignOut) (rsa cms body : Bytes)
    (hs : (signPlan E f hk ki).run C = .ok so)
    (hb : newBytes C E so rsa cms = some body)
    (hrsa : rsa.length = ki.rsaSize.getD 0)
    (hc1 : ki.certTexts ≠ []) (hc2 : ∀ c ∈ ki.certTexts, E.certOk c = true)
    (hcms : C.cmsOk (cms ++ zeros (so.newSig.toNat - (so.hk.size + rsa.length + cms.length))) (C.H hk (E.encode so.tree).1) = true)
    (hd : Hdr) (k0 : HK) (t : Xml) (n : Nat) (x0 : XToc)
    (hp : parseHeader f = .ok (hd, k0)) (hdec : E.decode (region f 28 hd.clen) = some (t, n))
    (hreg : regularDoc E.num t = true) (hu : unmarshal E.num t = some x0)
    (hsum : ∀ p, prep E.num hk ki t = some p → ∀ d ∈ dRefs E.num none p.doc1, d.length ≠ 0 → d.sum ≠ none)
    (hm : MembersOk x0 so.origSig f.length) (h0 : 0 ≤ so.origSig) (hcl : 0 ≤ hd.clen)
    (h1 : 28 + hd.clen + so.origSig ≤ f.length)
    (hzl : (E.encode so.tree).1.length < 2 ^ 40) (hul : (E.encode so.tree).2 < 2 ^ 63) :
    ∃ v, (verifyPlan E (written f so.origTotal body) false).run C = .ok v ∧ v.hk = hk := by
  obtain ⟨hd', k0', t', n', p, hp', _, _, hdec', hprep, hso, hstream⟩ := signPlan_ok C E f hk ki so hs
  rw [hp] at hp'
  simp only [Except.ok.injEq, Prod.mk.injEq] at hp'
  obtain ⟨rfl, rfl⟩ := hp'
  rw [hdec] at hdec'
  simp only [Option.some.injEq, Prod.mk.injEq] at hdec'
  obtain ⟨rfl, rfl⟩ := hdec'
  subst hso
  simp only at hb hcms hm h0 h1 hzl hul ⊢
  -- the document and what `encoding/xml` reads from it
  have hshape := regularDoc_shape E.num t hreg
  have hus := unmarshal_signed E.num hE.num hk ki hki t p x0 hprep hu hshape
  obtain ⟨ras, pre, tas, tks, post, ht, hpre, hpeq⟩ := prep_some E.num hk ki _ p hprep
  subst ht
  obtain ⟨hpost, hrk⟩ := hshape ras pre tas tks post rfl hpre
  have hPn : p.newSig = (reserve E.num hk ki).2 := by rw [hpeq]
  have hPd : p.doc1 = .el "xar" ras (pre ++ .el "toc" tas ((reserve E.num hk ki).1 ++ (removeSigs E.num tks).2) :: post) := by rw [hpeq]
  obtain ⟨nn, hdz⟩ := hE.dec_enc (p.tree E.num)
  -- sizes
  have hrb := reserve_size_bounds E.num hk ki hki
  have hrs := reserve_snd E.num hk ki
  obtain ⟨hfit, hbody⟩ := newBytes_some C E _ rsa cms body hb
  simp only at hfit hbody
  have hsz := hk.size_le
  have hsmall := hm.small
  -- the origin of the old signature area
  have hot : w64 (28 + hd.clen + p.origSig) = 28 + hd.clen + p.origSig := w64_id (by unfold inI64; omega)
  have hδ : w64 (p.newSig - p.origSig) = p.newSig - p.origSig := w64_id (by unfold inI64; omega)
  -- the written file
  have hg : written f (w64 (28 + hd.clen + p.origSig)) body =
      layout C hk (E.encode (p.tree E.num)).1 (E.encode (p.tree E.num)).2 rsa
        (cms ++ zeros (p.newSig.toNat - (hk.size + rsa.length + cms.length))) (f.drop (28 + hd.clen + p.origSig).toNat) := by
    rw [hot]
    simp [written, hbody, layout, List.append_assoc]
  have hcmsl : ((cms ++ zeros (p.newSig.toNat - (hk.size + rsa.length + cms.length))).length : Int) = 6144 + ki.derTotal := by
    simp only [List.length_append, zeros, List.length_replicate]
    omega
  -- the shifted files are sane
  have hflat : ∀ b' ∈ flatXs (shiftXs (w64 (p.newSig - p.origSig)) x0.files), w64 (b'.offset + b'.length) ≤ 2 ^ 60 + 2 ^ 34 := by
    intro b' hb'
    rw [flatXs_shift, List.mem_map] at hb'
    obtain ⟨b, hbm, rfl⟩ := hb'
    obtain ⟨s1, s2, s3⟩ := hm.sane b hbm
    unfold FileAcc.shiftIf FileAcc.shift
    split
    · simp only [hδ]
      have hw : w64 (b.offset + (p.newSig - p.origSig)) = b.offset + (p.newSig - p.origSig) := w64_id (by unfold inI64; omega)
      rw [hw, w64_id (by unfold inI64; omega)]; omega
    · rw [w64_id (by unfold inI64; omega)]; omega
  have hL := lastOffset_le (2 ^ 60 + 2 ^ 34) (by omega) _ hflat
  have hglen : (layout C hk (E.encode (p.tree E.num)).1 (E.encode (p.tree E.num)).2 rsa
      (cms ++ zeros (p.newSig.toNat - (hk.size + rsa.length + cms.length)))
      (f.drop (28 + hd.clen + p.origSig).toNat)).length < 2 ^ 62 := by
    rw [layout_length C hH]
    simp only [List.length_append, zeros, List.length_replicate, List.length_drop]
    omega
  obtain ⟨tk, hopen⟩ := open_layout C E hH hk ki hki _ _ rsa _ (f.drop (28 + hd.clen + p.origSig).toNat) (p.tree E.num) nn _
    hdz hus hzl hul hrsa hcmsl hc1 hc2 (by omega) hglen
  -- run `Open`
  rw [hg]
  refine ⟨⟨hk, tk.isSome⟩, ?_, rfl⟩
  unfold verifyPlan
  apply run_bind_of_ok C _ _ _ _ (by
    rw [hopen, run_ok_iff]
    exact ⟨by simp [Check.holds], rfl⟩)
  -- `Verify`
  rw [tocRegion_layout C hk _ _ rsa _ _ (by omega) hul]
  unfold verifyOpened
  simp only
  apply run_bind_of_ok C _ _ () _ (by
    rw [run_ok_iff]
    refine ⟨?_, rfl⟩
    intro c hc
    simp only [List.mem_cons, List.not_mem_nil, or_false] at hc
    subst hc
    simpa [Check.holds] using hcms)
  apply run_bind_of_ok C _ _ () _ ?_ (by simp [Plan.pure, Plan.run, runChecks])
  simp only [Bool.false_eq_true, ↓reduceIte]
  apply checkAllAt_ok
  intro r hr
  rw [mem_sortRefs, List.mem_map] at hr
  obtain ⟨x', hx', rfl⟩ := hr
  obtain ⟨hxf, hxl⟩ := gather_sub_flat _ x' hx'
  rw [flatXs_shift, List.mem_map] at hxf
  obtain ⟨b, hbm, hbx⟩ := hxf
  -- the struct comes from a `<data>` element the etree reader saw too
  rw [unmarshal_one_toc E.num "xar" ras pre tas tks post hpre hpost] at hu
  obtain ⟨fs, hfs, hx0⟩ := umTocKids_files E.num tks emptyToc x0 hu
  have hx0' : x0.files = fs := by simpa [emptyToc] using hx0
  have hbm' : b ∈ flatXs fs := by rw [← hx0']; exact hbm
  have hblen : b.length ≠ 0 := by
    rw [← hbx] at hxl
    unfold FileAcc.shiftIf FileAcc.shift at hxl
    split at hxl <;> simpa using hxl
  have hbd : b.hasData = true := by
    cases hbd' : b.hasData with
    | true => rfl
    | false => exact absurd (umFiles_len E.num _ fs hfs b hbm' hbd') hblen
  obtain ⟨d, hdm, hoff, hlen, hsumd⟩ := flat_agrees_toc E.num hE.num _ fs (regFileKids_removeSigs E.num tks hrk) hfs b hbm' hbd
  have hdm' : d ∈ dRefs E.num none p.doc1 := by rw [hPd]; exact mem_dRefs_doc1 E.num ras pre tas _ _ post d hdm
  have hdsum : d.sum = some (b.astyle, b.adigest) := by
    rcases hsumd with h | ⟨h, _, _⟩
    · exact h
    · exact absurd h (hsum p hprep d hdm' (by rw [hlen]; exact hblen))
  have hr0 : (⟨d.name, b.offset, b.length, b.astyle, b.adigest⟩ : Ref) ∈ sortRefs (eRefs E.num p.doc1) := by
    rw [mem_sortRefs]
    unfold eRefs
    rw [List.mem_filterMap]
    exact ⟨d, hdm', by simp [DRef.toRef?, hdsum, hoff, hlen]⟩
  have hchk := checkAllStream_ok C _ _ 0 hstream _ hr0
  obtain ⟨s1, s2, s3⟩ := hm.sane b hbm
  have hfr := hm.front b hbm hblen
  -- the member check on the written file
  have hbody_len : body.length = (28 + (E.encode (p.tree E.num)).1.length) + p.newSig.toNat := by
    rw [hbody]
    simp only [List.length_append, Hdr.enc_length, hH, zeros, List.length_replicate]
    omega
  have key := member_check_after C f body (28 + hd.clen.toNat) p.origSig.toNat (28 + (E.encode (p.tree E.num)).1.length)
    p.newSig.toNat hbody_len (by omega) (by omega) d.name b.astyle b.adigest b.offset b.length (by omega) hblen (by omega) hchk
  have hxr : x'.ref = ⟨b.name, b.offset + (p.newSig - p.origSig), b.length, b.astyle, b.adigest⟩ := by
    unfold XFile.ref FileAcc.ref
    rw [← hbx]
    have hw : w64 (b.offset + (p.newSig - p.origSig)) = b.offset + (p.newSig - p.origSig) := w64_id (by unfold inI64; omega)
    simp [FileAcc.shiftIf, hbd, FileAcc.shift, hδ, hw]
  have hlay : layout C hk (E.encode (p.tree E.num)).1 (E.encode (p.tree E.num)).2 rsa
      (cms ++ zeros (p.newSig.toNat - (hk.size + rsa.length + cms.length))) (f.drop (28 + hd.clen + p.origSig).toNat) =
      body ++ f.drop (28 + hd.clen.toNat + p.origSig.toNat) := by
    rw [hbody]
    have : (28 + hd.clen + p.origSig).toNat = 28 + hd.clen.toNat + p.origSig.toNat := by omega
    simp [layout, List.append_assoc, this]
  rw [hxr, hlay]
  have e1 : (p.newSig - p.origSig) = ((p.newSig.toNat : Int) - (p.origSig.toNat : Int)) := by omega
  have e2 : ((28 + (E.encode (p.tree E.num)).1.length : Nat) : Int) = 28 + ((E.encode (p.tree E.num)).1.length : Int) := by omega
  have := key.1
  rw [← e1, e2] at this
  -- the name is not looked at
  unfold checkFileAt at this ⊢
  exact this

end Relic.Xar

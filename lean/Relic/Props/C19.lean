/-
  C19 — XML signatures depend on canonical meaning, not on serialisation.
  Property theorems about `Relic.Model.Xml` (model of /repo/lib/xmldsig/canonicalize.go + etree's canonical writer),
  `Relic.Model.EcdsaPack` (lib/x509tools EcdsaSignature.Pack/PackCurve/UnpackEcdsaSignature) and
  `Relic.Spec.ExcC14N` (Exclusive C14N 1.0 transcribed from the W3C text).
  Helper lemmas live in Relic/Proofs/Xml.lean.
-/
import Relic.Model.EcdsaPack
import Relic.Model.Xml
import Relic.Spec.ExcC14N
import Relic.Proofs.Codec
import Relic.Proofs.Xml
import Relic.Proofs.XmlSort
import Relic.Proofs.XmlPerm
import Relic.Proofs.XmlEnv
import Relic.Proofs.XmlPermFull
import Relic.Proofs.XmlUnused
import Relic.Proofs.XmlExcCtx
import Relic.Proofs.XmlSens
import Relic.Proofs.XmlInj
import Relic.Proofs.XmlWf
namespace Relic.Props.C19
open Relic Relic.EcdsaPack Relic.Xml Relic.Xml.Sens Relic.Xml.Inj

/-! ## ECDSA `r ‖ s` (F17) -/

/-- **ecdsa_fixed_width.** Packing to the curve's byte length `w` (the repaired `PackCurve`) always gives `2w`
    bytes and `UnpackEcdsaSignature` returns the two numbers, for every `r, s < 256^w`. -/
theorem ecdsa_fixed_width (w r s : Nat) (hr : r < 256 ^ w) (hs : s < 256 ^ w) :
    ∃ p, packW w r s = .ok p ∧ p.length = 2 * w ∧ unpack p = .ok (r, s) := by
  refine ⟨beBytes w r ++ beBytes w s, ?_, ?_, ?_⟩
  · simp [packW, hr, hs]
  · simp only [List.length_append, beBytes_length]; omega
  · have h2 : (beBytes w r ++ beBytes w s).length = w * 2 := by
      simp only [List.length_append, beBytes_length]; omega
    have h3 : w * 2 / 2 = w := by omega
    unfold unpack
    simp only [h2, h3, ne_eq, not_true_eq_false, ↓reduceIte]
    rw [List.take_left' (beBytes_length w r), List.drop_left' (beBytes_length w r),
      beVal_beBytes_of_lt w r hr, beVal_beBytes_of_lt w s hs]

example : ∃ p, packW 32 1 (256 ^ 32 - 1) = .ok p ∧ p.length = 64 ∧ unpack p = .ok (1, 256 ^ 32 - 1) :=
  ecdsa_fixed_width 32 1 _ (by decide) (by decide)

/-- **ecdsa_pack_unfixed_not_fixed_width.** The packing on the unchanged tree (`Pack`, width from
    `max (bitlen r) (bitlen s)`) is *not* fixed-width: `r = s = 1` is a legal P-256 signature value pair and packs
    to 2 bytes instead of 64.  (Replayed on the real code by the `ecdsa` ops of the harness: F17.) -/
theorem ecdsa_pack_unfixed_not_fixed_width :
    ¬ ∀ bits r s : Nat, 0 < r → 0 < s → r < 2 ^ bits → s < 2 ^ bits →
        (packUnfixed r s).length = 2 * curveBytes bits := by
  intro h
  have := h 256 1 1 (by decide) (by decide) (by decide) (by decide)
  revert this
  decide

/-- the length the unchanged code produces is a function of the values, not of the curve -/
theorem packUnfixed_length (r s : Nat) :
    (packUnfixed r s).length = 2 * (((if bitLen s > bitLen r then bitLen s else bitLen r) + 7) / 8) := by
  simp only [packUnfixed, List.length_append, beBytes_length]; omega


/-! ## the canonicaliser -/

/-- **canon_ignores_comments_pis.** Removing every comment, processing instruction and directive, at any depth
    below the apex, does not change relic's canonical form.  (For comments this is what Exclusive C14N "without
    comments" asks for; for processing instructions it is a *deviation*: Canonical XML keeps them — finding F16-pi.) -/
theorem canon_ignores_comments_pis (ctx : List (List Attr)) (root : Node) :
    canon ctx (strip root) = canon ctx root := by
  unfold canon pullDown
  rw [pullDownWith_strip, walk_strip]

/-- two documents that differ only in comments / PIs / directives have the same canonical form -/
theorem canon_eq_of_strip_eq (ctx : List (List Attr)) (t t' : Node) (h : strip t = strip t') :
    canon ctx t = canon ctx t' := by
  rw [← canon_ignores_comments_pis ctx t, ← canon_ignores_comments_pis ctx t', h]

example : strip (.elem [] [97] [] [.comment [120], .text [121] false, .procinst [112] [], .elem [] [98] [] [.comment []]]) =
    .elem [] [97] [] [.text [121] false, .elem [] [98] [] []] := by simp [strip, stripKids]

/-- **sort_unique.** `sort.Slice` is not stable and its algorithm is not modelled; but on attributes with pairwise
    distinct names the comparator of `walkAttributes` is a strict total order, so *every* sorted permutation of the
    attribute list is the list the model's insertion sort returns. -/
theorem sort_unique (l q : List Attr) (hn : NamesNodup l) (hp : q.Perm l) (hs : Sorted q) : q = sortAttrs l :=
  sorted_perm_unique q (sortAttrs l) hs (sortAttrs_sorted l hn) (hp.trans (sortAttrs_perm_self l).symm)
    ((hp.pairwise_iff (fun {_ _} h hs => h (sameName_symm hs))).mpr hn)

/-- **sort_multiset.** The sorted attribute list is a function of the multiset of attributes. -/
theorem sort_multiset (l l' : List Attr) (hp : l.Perm l') (hn : NamesNodup l) : sortAttrs l = sortAttrs l' :=
  sortAttrs_perm_invariant l l' hp hn

/-- full statement: any permutation of the attributes of any element of the subtree, for any ancestor context -/
def canon_invariant_under_attr_perm_full : Prop :=
  ∀ (ctx : List (List Attr)) (sp tag : Bytes) (l l' : List Attr) (kids : List Node),
    l.Perm l' → NamesNodup l → canon ctx (.elem sp tag l kids) = canon ctx (.elem sp tag l' kids)

/-- **canon_invariant_under_attr_perm_partial.** At the apex of a document-element canonicalisation (no ancestors:
    the case of `xmldsig.Sign(root, root, …)` on a manifest), exchanging two neighbouring attributes of which one is
    not a namespace declaration does not change the canonical form, provided attribute names are pairwise distinct.
    Every permutation that keeps the relative order of the namespace declarations is a product of such exchanges.
    Not proved: exchanging two declarations (their push-down order changes the attribute order of descendants, which
    the descendants' own sort then has to absorb), permutations below the apex, non-empty ancestor context. -/
theorem canon_invariant_under_attr_perm_partial (sp tag : Bytes) (pre post : List Attr) (a b : Attr) (kids : List Node)
    (hab : getDecl a = none ∨ getDecl b = none) (hn : NamesNodup (pre ++ a :: b :: post)) :
    canon [] (.elem sp tag (pre ++ a :: b :: post) kids) = canon [] (.elem sp tag (pre ++ b :: a :: post) kids) := by
  have e : ∀ n, canon [] n = ser (walk n) := fun n => rfl
  rw [e, e]
  rcases hab with ha | hb
  · rw [walk_swap sp tag pre post a b kids ha hn]
  · have hn' : NamesNodup (pre ++ b :: a :: post) :=
      ((List.Perm.append_left pre (List.Perm.swap b a post)).pairwise_iff
        (fun {_ _} h hs => h (sameName_symm hs))).mp hn
    rw [← walk_swap sp tag pre post b a kids hb hn']

example : getDecl ⟨[], [98], [49]⟩ = none ∧ NamesNodup ([] ++ ⟨[], [98], [49]⟩ :: ⟨sXmlns, [112], [117]⟩ :: []) := by
  refine ⟨by decide, ?_⟩
  simp [NamesNodup, sameName, sXmlns]

/-- `<q:e xmlns="a" xmlns:="b"><k/></q:e>`: an attribute with prefix `xmlns` and *empty* local name (no XML parser
    produces one) is a second declaration of the default namespace for `getDecl`, under a different attribute name -/
def wEmptyKey (l : List Attr) : Node := .elem [113] [101] l [.elem [] [107] [] []]

/-- **canon_invariant_under_attr_perm_full is false** as stated: distinct attribute *names* do not give distinct
    declared *prefixes* when an attribute `xmlns:` with empty local name is allowed; the push-down order then decides
    which value the child gets.  Hence the hypothesis `AttrsOK` (names distinct and local names non-empty). -/
theorem canon_invariant_under_attr_perm_full_false : ¬ canon_invariant_under_attr_perm_full := by
  intro h
  have h1 := h [] [113] [101] [⟨[], sXmlns, [97]⟩, ⟨sXmlns, [], [98]⟩] [⟨sXmlns, [], [98]⟩, ⟨[], sXmlns, [97]⟩]
    [.elem [] [107] [] []] (List.Perm.swap _ _ _) (by simp [NamesNodup, sameName, sXmlns])
  rw [canon_eq_walkE, canon_eq_walkE] at h1
  simp only [walkE, walkKidsE] at h1
  exact absurd h1 (by decide)

/-- **canon_invariant_under_attr_perm.**  Permuting the attribute list of *any set of elements* of the subtree
    (`PermEq t t'`: same tree up to the order of the attributes of each element), under any ancestor context, does not
    change the canonical form, provided that on every element attribute names are pairwise distinct and local names
    non-empty (`AllOK`: what XML well-formedness gives) and no ancestor declares the prefix `xmlns` (`CtxOK`: forbidden
    by Namespaces in XML; without it the statement still seems true but the proof would have to track the relative
    position of that one pending declaration).  Two exchanged declarations are covered: the push-down order changes
    the attribute order of descendants, which their own sort absorbs. -/
theorem canon_invariant_under_attr_perm (ctx : List (List Attr)) (t t' : Node)
    (hc : CtxOK ctx) (hp : PermEq t t') (hok : AllOK t) : canon ctx t = canon ctx t' := by
  rw [canon_eq_walkE, canon_eq_walkE,
    walkE_perm t t' _ _ (collectSpaces_ok ctx hc) (List.Perm.refl _) hp hok]

/-- the apex form of the full statement, with its exact extra hypotheses -/
theorem canon_invariant_under_attr_perm_apex (ctx : List (List Attr)) (sp tag : Bytes) (l l' : List Attr) (kids : List Node)
    (hc : CtxOK ctx) (hp : l.Perm l') (hok : AllOK (.elem sp tag l kids)) :
    canon ctx (.elem sp tag l kids) = canon ctx (.elem sp tag l' kids) := by
  apply canon_invariant_under_attr_perm ctx _ _ hc _ hok
  simp only [PermEq]
  exact ⟨l', kids, rfl, hp, PermEqL_refl kids⟩

/-- two declarations exchanged on an inner element, below an ancestor that declares a prefix -/
example : CtxOK [[⟨sXmlns, [114], [119]⟩]] ∧
    PermEq (.elem [] [97] [] [.elem [] [98] [⟨sXmlns, [112], [117]⟩, ⟨sXmlns, [113], [118]⟩] [.elem [112] [99] [⟨[113], [120], [49]⟩] []]])
           (.elem [] [97] [] [.elem [] [98] [⟨sXmlns, [113], [118]⟩, ⟨sXmlns, [112], [117]⟩] [.elem [112] [99] [⟨[113], [120], [49]⟩] []]]) ∧
    AllOK (.elem [] [97] [] [.elem [] [98] [⟨sXmlns, [112], [117]⟩, ⟨sXmlns, [113], [118]⟩] [.elem [112] [99] [⟨[113], [120], [49]⟩] []]]) := by
  refine ⟨?_, ?_, ?_⟩
  · intro attrs ha a haa
    simp at ha; subst ha; simp at haa; subst haa; decide
  · simp only [PermEq, PermEqL]
    refine ⟨_, _, rfl, List.Perm.refl _, _, _, rfl, ⟨_, _, rfl, List.Perm.swap _ _ _, ?_⟩, rfl⟩
    exact ⟨_, _, rfl, ⟨_, _, rfl, List.Perm.refl _, rfl⟩, rfl⟩
  · simp [AllOK, AllOKL, AttrsOK, NamesNodup, sameName, sXmlns]

/-- **canon_ignores_unused_ns_decl.**  Adding, at any position of the attribute list of any element of the subtree, a
    namespace declaration `mkDecl s v` (`xmlns="v"` for `s = ""`, `xmlns:s="v"` otherwise) whose prefix is used
    (`usesSpace`, the notion the code implements: the element's own prefix, or the prefix of one of its attributes)
    by no element of that element's subtree does not change the canonical form (`AddDecl s v t t'`), provided no
    ancestor of the apex declares the prefix `xmlns` (`CtxOK`; needed: see `canon_unused_decl_needs_ctxok`).
    No distinctness hypothesis on attribute names is needed. -/
theorem canon_ignores_unused_ns_decl (ctx : List (List Attr)) (s v : Bytes) (t t' : Node)
    (hc : CtxOK ctx) (h : AddDecl s v t t') : canon ctx t' = canon ctx t := by
  rw [canon_eq_walkE, canon_eq_walkE]
  rw [walkE_add_decl s v t t' _ (collectSpaces_ok ctx hc).2 h]

/-- `<a><p:b/></a>` ↦ `<a xmlns:q="v"><p:b/></a>` -/
example : AddDecl [113] [118] (.elem [] [97] [] [.elem [112] [98] [] []]) (.elem [] [97] [⟨sXmlns, [113], [118]⟩] [.elem [112] [98] [] []]) := by
  simp only [AddDecl]
  left
  refine ⟨[], [], rfl, rfl, by decide, ?_⟩
  simp only [UnusedInL, UnusedIn]
  exact ⟨⟨by decide, trivial⟩, trivial⟩

/-- without `CtxOK`: below an ancestor declaring the prefix `xmlns`, an added unused `xmlns:q="v"` *is* an attribute
    of prefix `xmlns`, so `usesSpace` pulls the ancestor's `xmlns:xmlns` onto the element -/
theorem canon_unused_decl_needs_ctxok :
    AddDecl [113] [118] (.elem [] [101] [] []) (.elem [] [101] [⟨sXmlns, [113], [118]⟩] []) ∧
    canon [[⟨sXmlns, sXmlns, [97]⟩]] (.elem [] [101] [⟨sXmlns, [113], [118]⟩] []) ≠
      canon [[⟨sXmlns, sXmlns, [97]⟩]] (.elem [] [101] [] []) := by
  constructor
  · simp only [AddDecl]
    left
    exact ⟨[], [], rfl, rfl, by decide, by simp [UnusedInL]⟩
  · rw [canon_eq_walkE, canon_eq_walkE]
    simp only [walkE, walkKidsE]
    decide

/-- **canon_sensitive (escaping).** Canonical text and attribute-value escaping are injective: two different character
    data strings / attribute values never get the same canonical spelling. -/
theorem escText_injective (a b : Bytes) (h : escText a = escText b) : a = b :=
  (escText_append_inj a b [] [] (by simpa using h) rfl).1

theorem escAttr_injective (a b : Bytes) (h : escAttr a = escAttr b) : a = b :=
  (escAttr_append_inj a b [] [] (by simpa using h) rfl).1

example : escText [0x26] ≠ escText [0x26, 0x61, 0x6d, 0x70, 0x3b] := by decide

/-- **canon_sensitive (single edits).**  Replacing the data of one character-data node anywhere in the subtree
    (`TextEdit d d' t t'`) changes the canonical form, for every ancestor context. -/
theorem canon_sensitive_text (ctx : List (List Attr)) (d d' : Bytes) (t t' : Node)
    (hd : d ≠ d') (h : TextEdit d d' t t') : canon ctx t ≠ canon ctx t' :=
  canon_text_sensitive ctx d d' t t' hd h

/-- replacing the value of one attribute that is not a namespace declaration, on any element of the subtree -/
theorem canon_sensitive_attr_value (ctx : List (List Attr)) (s k v v' : Bytes) (t t' : Node)
    (hnd : getDecl ⟨s, k, v⟩ = none) (hv : v ≠ v') (h : AttrEdit s k v v' t t') : canon ctx t ≠ canon ctx t' :=
  canon_attrval_sensitive ctx s k v v' t t' hnd hv h

/-- replacing the local name of one element of the subtree -/
theorem canon_sensitive_local_name (ctx : List (List Attr)) (g g' : Bytes) (t t' : Node)
    (hg : g ≠ g') (h : TagEdit g g' t t') : canon ctx t ≠ canon ctx t' :=
  canon_tag_sensitive ctx g g' t t' hg h

/-- exchanging two neighbouring child elements (of any element of the subtree) whose qualified names differ and
    contain neither a space nor `>`.  (The general form, "whose canonical forms differ", is `canon_swap_sensitive_of`
    with the hypothesis that the two serialisations do not commute as words; deriving that from mere inequality needs
    the unambiguity of the serialisation and is not proved.) -/
theorem canon_sensitive_child_swap (ctx : List (List Attr)) (sp1 g1 sp2 g2 : Bytes) (t t' : Node)
    (hne : fullName sp1 g1 ≠ fullName sp2 g2) (h1 : NoDelim (fullName sp1 g1)) (h2 : NoDelim (fullName sp2 g2))
    (h : SwapEdit (NamedPair sp1 g1 sp2 g2) t t') : canon ctx t ≠ canon ctx t' :=
  canon_swap_sensitive ctx sp1 g1 sp2 g2 t t' hne h1 h2 h

example : TextEdit [0x61] [0x62] (.elem [] [0x72] [] [.comment [], .elem [] [0x65] [] [.text [0x61] false]])
    (.elem [] [0x72] [] [.comment [], .elem [] [0x65] [] [.text [0x62] false]]) := by
  simp [TextEdit, TextEditL]

/-- **canon_sensitive.**  The canonical form determines the walked tree: on well-formed walked trees (`Inj.wfNode`, a
    decidable predicate: element and attribute names as encoding/xml + etree deliver them – name bytes only, i.e.
    none of SP `>` `=` `/` `!`, prefix without colon, local name non-empty and without inner colon –, character data
    non-empty and without the CDATA flag, no two character-data nodes next to each other, no other token kinds) the
    serialisation is read back uniquely, so equal canonical forms mean equal walked trees: every change of a name, an
    attribute (added, removed, renamed, re-valued), a character-data node, of the order or the nesting of elements,
    that survives `walk`, changes the canonical bytes. -/
theorem canon_sensitive (ctx : List (List Attr)) (t t' : Node)
    (h : wfNode (walk (pullDown ctx t)) = true) (h' : wfNode (walk (pullDown ctx t')) = true)
    (e : canon ctx t = canon ctx t') : walk (pullDown ctx t) = walk (pullDown ctx t') :=
  ser_injective _ _ h h' e

/-- **canon_sensitive_of_input.**  The same with the hypotheses on the *input* documents: proper names (`Inj.wfIn`;
    comments, processing instructions and directives may occur anywhere), and no two character-data nodes that become
    neighbours once those are removed (`Inj.adjOK`) – for every ancestor context `ctx` (a pending declaration becomes
    an attribute only where its prefix is used, and a used prefix is a proper one). -/
theorem canon_sensitive_of_input (ctx : List (List Attr)) (t t' : Node)
    (hw : wfIn t = true) (ha : adjOK t = true) (he : ∃ sp tag as ks, t = .elem sp tag as ks)
    (hw' : wfIn t' = true) (ha' : adjOK t' = true) (he' : ∃ sp tag as ks, t' = .elem sp tag as ks)
    (e : canon ctx t = canon ctx t') : walk (pullDown ctx t) = walk (pullDown ctx t') :=
  canon_sensitive ctx t t' (wfNode_walk_pullDown ctx t hw ha he) (wfNode_walk_pullDown ctx t' hw' ha' he') e

/-- non-vacuity: `<p:r xmlns:p="u" k="v"><!--c-->text<a q:x="1"><b/></a>tail</p:r>` below an ancestor declaring `q` -/
example : wfIn (.elem [112] [114] [⟨sXmlns, [112], [117]⟩, ⟨[], [107], [118]⟩]
      [.comment [99], .text [116] false, .elem [] [97] [⟨[113], [120], [49]⟩] [.elem [] [98] [] []], .text [108] false]) = true ∧
    adjOK (.elem [112] [114] [⟨sXmlns, [112], [117]⟩, ⟨[], [107], [118]⟩]
      [.comment [99], .text [116] false, .elem [] [97] [⟨[113], [120], [49]⟩] [.elem [] [98] [] []], .text [108] false]) = true := by
  refine ⟨?_, ?_⟩
  · simp only [wfIn, wfInKids, List.all_cons, List.all_nil, attrOK]
    decide
  · simp [adjOK, adjKids]

/-- the statement without well-formedness hypotheses -/
def canon_sensitive_full : Prop :=
  ∀ (ctx : List (List Attr)) (t t' : Node), canon ctx t = canon ctx t' → walk (pullDown ctx t) = walk (pullDown ctx t')

/-- it is false, and `adjOK` is the hypothesis that is needed beyond proper names: two character-data nodes that a
    removed comment separated (`<a>x<!--c-->y</a>`) and one node `xy` have the same canonical form `<a>xy</a>` but
    different walked trees.  (The difference is not observable by any XML processor either: adjacent character data is
    one text.) -/
theorem canon_sensitive_full_false : ¬ canon_sensitive_full := by
  intro h
  have h1 := h [] (.elem [] [97] [] [.text [120] false, .comment [99], .text [121] false])
    (.elem [] [97] [] [.text [120, 121] false]) (by
      rw [canon_eq_walkE, canon_eq_walkE]
      simp only [walkE, walkKidsE]
      decide)
  rw [walk_pullDown_eq, walk_pullDown_eq] at h1
  simp only [walkE, walkKidsE] at h1
  simp at h1

/-- hypotheses of `wfNode` that are needed, each with two different trees of the same serialisation: a colon in an
    unprefixed local name (`fullName` collides), `=` in an attribute name (one attribute reads as two), an empty
    character-data node.  (The conditions on element names are sufficient; the repeated name in the end tag makes
    collisions there harder, and none is claimed.) -/
example : ser (.elem [97] [98] [] []) = ser (.elem [] [97, 58, 98] [] []) := by decide
example : ser (.elem [] [97] [⟨[], [107, 61, 34, 118, 34, 32, 120], [119]⟩] []) =
    ser (.elem [] [97] [⟨[], [107], [118]⟩, ⟨[], [120], [119]⟩] []) := by decide
example : ser (.elem [] [97] [] [.text [] false]) = ser (.elem [] [97] [] []) := by decide

/-- **canon_sensitive_child_swap_general.**  The general form of `canon_sensitive_child_swap`: exchanging two
    neighbouring child *elements* (of any element of the subtree) changes the canonical form whenever the two
    elements are well-formed and their canonical forms differ under every list of pending declarations
    (`Inj.GenPair`; `Inj.genPair_of_wfIn` derives it from `wfIn`, `adjOK` and the inequality).  The unambiguity of the
    serialisation (`Inj.ser_elem_inj`: an element's canonical form is self-delimiting) is what was missing. -/
theorem canon_sensitive_child_swap_general (ctx : List (List Attr)) (t t' : Node) (h : SwapEdit GenPair t t') :
    canon ctx t ≠ canon ctx t' :=
  canon_swap_sensitive_general ctx t t' h

/-- two children with the *same* qualified name and different content, which `canon_sensitive_child_swap` does not
    cover: `<r><a>x</a><a>y</a></r>` ↦ `<r><a>y</a><a>x</a></r>` -/
example : SwapEdit GenPair (.elem [] [114] [] [.elem [] [97] [] [.text [120] false], .elem [] [97] [] [.text [121] false]])
    (.elem [] [114] [] [.elem [] [97] [] [.text [121] false], .elem [] [97] [] [.text [120] false]]) := by
  refine (swapEdit_elem ..).2 ⟨rfl, rfl, rfl, Or.inl ⟨[], _, _, [], ?_, rfl, rfl⟩⟩
  refine genPair_of_wfIn _ _ trivial trivial ?_ ?_ ?_ ?_ ?_
  · simp only [wfIn, wfInKids, List.all_nil]; decide
  · simp only [wfIn, wfInKids, List.all_nil]; decide
  · simp [adjOK, adjKids]
  · simp [adjOK, adjKids]
  · intro ds h
    simp [walkE, walkKidsE] at h

/-- full statement of agreement with the standard; false (see the witnesses replayed by the harness: attribute order by
    prefix, redundant declarations, `xmlns=""`, processing instructions) -/
def canon_eq_excc14n_full : Prop :=
  ∀ (ctx : List (List Attr)) (root : Node), canon ctx root = ExcC14N.excC14N ctx root

/-! ### witnesses separating relic's canonical form from Exclusive C14N (F16); each is replayed on the real code
    by the harness (`canon` / `pair` witness ops) -/

/-- `<e xmlns:a="urn:z" xmlns:b="urn:y" a:x="1" b:y="2"/>` (here with one-letter URIs `z`, `y`) -/
def wAttrOrder : Node :=
  .elem [] [101] [⟨sXmlns, [97], [122]⟩, ⟨sXmlns, [98], [121]⟩, ⟨[97], [120], [49]⟩, ⟨[98], [121], [50]⟩] []
/-- `<a>t<?pi d?></a>` -/
def wPi : Node := .elem [] [97] [] [.text [116] false, .procinst [112, 105] [100]]
/-- `<p:a xmlns:p="u"><p:b xmlns:p="u"/></p:a>` -/
def wRedundant : Node := .elem [112] [97] [⟨sXmlns, [112], [117]⟩] [.elem [112] [98] [⟨sXmlns, [112], [117]⟩] []]
/-- `<a><b xmlns=""/></a>` -/
def wEmptyDefault : Node := .elem [] [97] [] [.elem [] [98] [⟨[], sXmlns, []⟩] []]

theorem wAttrOrder_walk : walk wAttrOrder = wAttrOrder := by
  unfold wAttrOrder
  rw [walk]
  simp [walkLoop, getDecl, usesSpace, sXmlns, sortAttrs, insertAttr, attrLess, bytesLt, walkKids]
theorem wPi_walk : walk wPi = .elem [] [97] [] [.text [116] false] := by
  unfold wPi
  simp [walk, walkLoop, sortAttrs, walkKids]
theorem wRedundant_walk : walk wRedundant = wRedundant := by
  unfold wRedundant
  simp [walk, walkLoop, getDecl, usesSpace, sXmlns, sortAttrs, insertAttr, walkKids]
theorem wEmptyDefault_walk : walk wEmptyDefault = wEmptyDefault := by
  unfold wEmptyDefault
  simp [walk, walkLoop, getDecl, usesSpace, sXmlns, sortAttrs, insertAttr, walkKids]

/-- (i) attributes are ordered by prefix, the standard orders them by namespace URI -/
theorem canon_ne_excc14n_attr_order : canon [] wAttrOrder ≠ ExcC14N.excC14N [] wAttrOrder := by
  have e : canon [] wAttrOrder = ser (walk wAttrOrder) := rfl
  rw [e, wAttrOrder_walk]; decide
/-- processing instructions are dropped, the standard keeps them -/
theorem canon_ne_excc14n_pi : canon [] wPi ≠ ExcC14N.excC14N [] wPi := by
  have e : canon [] wPi = ser (walk wPi) := rfl
  rw [e, wPi_walk]; decide
/-- a declaration repeating what an output ancestor rendered is kept, the standard omits it -/
theorem canon_ne_excc14n_redundant_decl : canon [] wRedundant ≠ ExcC14N.excC14N [] wRedundant := by
  have e : canon [] wRedundant = ser (walk wRedundant) := rfl
  rw [e, wRedundant_walk]; decide
/-- `xmlns=""` with no default namespace to undo is kept, the standard omits it -/
theorem canon_ne_excc14n_empty_default : canon [] wEmptyDefault ≠ ExcC14N.excC14N [] wEmptyDefault := by
  have e : canon [] wEmptyDefault = ser (walk wEmptyDefault) := rfl
  rw [e, wEmptyDefault_walk]; decide

/-- **canon_eq_excc14n_full is false** on the unchanged code (F16) -/
theorem canon_eq_excc14n_full_false : ¬ canon_eq_excc14n_full :=
  fun h => canon_ne_excc14n_attr_order (h [] wAttrOrder)

/-- every witness lies outside the class `Agree`, i.e. the classifier names its trigger -/
example : ExcC14N.devs [] wAttrOrder = ["attr-order"] ∧ ExcC14N.devs [] wPi = ["pi"] ∧
    ExcC14N.devs [] wRedundant = ["redundant-decl"] ∧ ExcC14N.devs [] wEmptyDefault = ["empty-default"] := by decide

/-- agreement on the class `Agree` (no deviation trigger present), as first stated: **false** (see below) -/
def canon_eq_excc14n_on_agree_full : Prop :=
  ∀ (ctx : List (List Attr)) (sp tag : Bytes) (attrs : List Attr) (kids : List Node),
    ExcC14N.agree ctx (.elem sp tag attrs kids) = true →
    canon ctx (.elem sp tag attrs kids) = ExcC14N.excC14N ctx (.elem sp tag attrs kids)

/-- `<a xmlns:xml="http://www.w3.org/XML/1998/namespace" xml:lang="e"/>`: a legal document (Namespaces in XML allows
    declaring the prefix `xml` with its fixed URI) -/
def wXmlDecl : Node := .elem [] [97] [⟨sXmlns, ExcC14N.sXml, ExcC14N.xmlUri⟩, ⟨ExcC14N.sXml, [108, 97, 110, 103], [101]⟩] []
/-- `<p:a xmlns:p=""><p:b xmlns:p=""/></p:a>` (not namespace-well-formed in XML 1.0) -/
def wEmptyPrefix : Node := .elem [112] [97] [⟨sXmlns, [112], []⟩] [.elem [112] [98] [⟨sXmlns, [112], []⟩] []]
/-- `<p:a/>` -/
def wPA : Node := .elem [112] [97] [] []

/-- **new deviation (not among the F16 triggers of `devs`)**: an explicit declaration of the prefix `xml` that is
    visibly utilised (`xml:lang`) is emitted by relic; Canonical XML never emits it. -/
theorem canon_ne_excc14n_xml_decl : ExcC14N.agree [] wXmlDecl = true ∧ canon [] wXmlDecl ≠ ExcC14N.excC14N [] wXmlDecl := by
  refine ⟨by decide, ?_⟩
  rw [canon_eq_walkE]
  simp only [wXmlDecl, walkE, walkKidsE]
  decide

/-- a prefix "undeclaration" `xmlns:p=""` repeated below an output ancestor that rendered it: kept by relic, omitted by
    the standard; the trigger `redundant-decl` looks at non-empty values only -/
theorem canon_ne_excc14n_empty_prefix_decl :
    ExcC14N.agree [] wEmptyPrefix = true ∧ canon [] wEmptyPrefix ≠ ExcC14N.excC14N [] wEmptyPrefix := by
  refine ⟨by decide, ?_⟩
  rw [canon_eq_walkE]
  simp only [wEmptyPrefix, walkE, walkKidsE]
  decide

/-- an ancestor with `xmlns:p=""` nearer than `xmlns:p="u"`: `pullDown` skips the empty value -/
theorem canon_ne_excc14n_ctx_empty_prefix_decl :
    ExcC14N.agree [[⟨sXmlns, [112], []⟩], [⟨sXmlns, [112], [117]⟩]] wPA = true ∧
    canon [[⟨sXmlns, [112], []⟩], [⟨sXmlns, [112], [117]⟩]] wPA ≠ ExcC14N.excC14N [[⟨sXmlns, [112], []⟩], [⟨sXmlns, [112], [117]⟩]] wPA := by
  refine ⟨by decide, ?_⟩
  rw [canon_eq_walkE]
  simp only [wPA, walkE, walkKidsE]
  decide

/-- an ancestor carrying the same declaration twice (not well-formed): `pullDown` takes the first, the standard the last -/
theorem canon_ne_excc14n_ctx_dup_decl :
    ExcC14N.agree [[⟨sXmlns, [112], [117]⟩, ⟨sXmlns, [112], [118]⟩]] wPA = true ∧
    canon [[⟨sXmlns, [112], [117]⟩, ⟨sXmlns, [112], [118]⟩]] wPA ≠ ExcC14N.excC14N [[⟨sXmlns, [112], [117]⟩, ⟨sXmlns, [112], [118]⟩]] wPA := by
  refine ⟨by decide, ?_⟩
  rw [canon_eq_walkE]
  simp only [wPA, walkE, walkKidsE]
  decide

/-- **canon_eq_excc14n_on_agree_full is false**: the classifier's class is too large by the `xml` declaration -/
theorem canon_eq_excc14n_on_agree_full_false : ¬ canon_eq_excc14n_on_agree_full :=
  fun h => canon_ne_excc14n_xml_decl.2 (h [] _ _ _ _ canon_ne_excc14n_xml_decl.1)

/-- **canon_eq_excc14n_on_agree.**  On every tree for which the classifier `devs` reports no deviation trigger, relic's
    canonical form *is* the Exclusive C14N (without comments) of the subtree, for every ancestor context, provided the
    document is namespace-well-formed in the following decidable sense, on every element of the subtree (`WF`) and on
    every ancestor of the apex (`CtxWF`):
    * `AttrsOK`: attribute names pairwise distinct, local names non-empty (XML well-formedness;
      witness for the context: `canon_ne_excc14n_ctx_dup_decl`);
    * `DeclsOK`: no namespace declaration has an empty value (`xmlns=""` is the listed trigger `empty-default`;
      `xmlns:p=""` is forbidden by Namespaces in XML 1.0; witnesses `canon_ne_excc14n_empty_prefix_decl`,
      `canon_ne_excc14n_ctx_empty_prefix_decl`), and the prefix `xml` is not declared (legal XML, hence a genuine
      further deviation of relic: `canon_ne_excc14n_xml_decl`). -/
theorem canon_eq_excc14n_on_agree (ctx : List (List Attr)) (sp tag : Bytes) (attrs : List Attr) (kids : List Node)
    (hctx : CtxWF ctx) (hwf : WF (.elem sp tag attrs kids)) (hag : ExcC14N.agree ctx (.elem sp tag attrs kids) = true) :
    canon ctx (.elem sp tag attrs kids) = ExcC14N.excC14N ctx (.elem sp tag attrs kids) :=
  canon_eq_excC14N_agree ctx sp tag attrs kids hctx hwf hag

/-- `<a xmlns:p="u" xmlns="d" z="0"><p:b p:x="1" y="2">t</p:b><!--c--></a>` below an ancestor declaring `xmlns:q="w"`:
    push-down of `xmlns:p`, pulled-down and dropped `xmlns:q`, prefixed and plain attributes, a comment -/
example : CtxWF [[⟨sXmlns, [113], [119]⟩]] ∧
    WF (.elem [] [97] [⟨sXmlns, [112], [117]⟩, ⟨[], sXmlns, [100]⟩, ⟨[], [122], [48]⟩]
      [.elem [112] [98] [⟨[112], [120], [49]⟩, ⟨[], [121], [50]⟩] [.text [116] false], .comment [99]]) ∧
    ExcC14N.agree [[⟨sXmlns, [113], [119]⟩]] (.elem [] [97] [⟨sXmlns, [112], [117]⟩, ⟨[], sXmlns, [100]⟩, ⟨[], [122], [48]⟩]
      [.elem [112] [98] [⟨[112], [120], [49]⟩, ⟨[], [121], [50]⟩] [.text [116] false], .comment [99]]) = true := by
  refine ⟨?_, ?_, by decide⟩
  · intro l hl
    have : l = [⟨sXmlns, [113], [119]⟩] := by simpa using hl
    subst this
    refine ⟨⟨by simp [NamesNodup], by simp⟩, ?_⟩
    intro a ha p hg
    have : a = ⟨sXmlns, [113], [119]⟩ := by simpa using ha
    subst this
    have : p = [113] := by
      have h2 : getDecl ⟨sXmlns, [113], [119]⟩ = some [113] := by decide
      rw [h2] at hg; exact (Option.some.inj hg).symm
    subst this
    exact ⟨by decide, by decide⟩
  · simp only [WF, WFL, and_true]
    refine ⟨⟨by simp [NamesNodup, sameName, sXmlns], by simp [sXmlns]⟩, ?_, ⟨by simp [NamesNodup, sameName], by simp⟩, ?_⟩
    · intro a ha p hg
      simp only [List.mem_cons, List.not_mem_nil, or_false] at ha
      rcases ha with rfl | rfl | rfl
      · have h2 : getDecl ⟨sXmlns, [112], [117]⟩ = some [112] := by decide
        rw [h2] at hg; rw [← Option.some.inj hg]; exact ⟨by decide, by decide⟩
      · have h2 : getDecl ⟨[], sXmlns, [100]⟩ = some [] := by decide
        rw [h2] at hg; rw [← Option.some.inj hg]; exact ⟨by decide, by decide⟩
      · have h2 : getDecl ⟨[], [122], [48]⟩ = none := by decide
        rw [h2] at hg; cases hg
    · intro a ha p hg
      simp only [List.mem_cons, List.not_mem_nil, or_false] at ha
      rcases ha with rfl | rfl
      · have h2 : getDecl ⟨[112], [120], [49]⟩ = none := by decide
        rw [h2] at hg; cases hg
      · have h2 : getDecl ⟨[], [121], [50]⟩ = none := by decide
        rw [h2] at hg; cases hg

end Relic.Props.C19

"""C09 — upload stream, chunking and transport never change what gets signed."""
TIE = "corr:merkle+pechecksum+transport"
TIE_THEOREM = ("Relic.Props.C09.merkle_split_independent / merkle_finish / checksum_even_splits / failover_same_body / "
               "fault_never_accepted / encoding_choice (models Relic.Model.{Merkle,PEChecksum,Transport} vs signers/apk/merkle.go, "
               "lib/authenticode/checksum.go, cmdline/remotecmd/client.go, lib/compresshttp)")
RULE = ("merkle: real merkleHasher (hook) at the real 1 MiB block with a recording hash registered as crypto.MD4: every ordered pair "
        "of 13 edge lengths (0,1,2,17,4096,B/2,B-1,B,B+1,2B-1,2B,2B+1,3B+5) as two writes, seeded multi-section scripts, and scripts "
        "ending in the real Finish over a generated zip directory; block lengths vs the lengths-only Lean model, block digests vs a "
        "one-write-per-section run and vs an independent chunk-then-hash specification. cksum: real peChecksum fed every single cut "
        "(even and odd) of buffers of 0..101 bytes for peStart in {-1,0,1,2,5} plus seeded multi-cut buffers to 1.5 KiB (all-0xff "
        "included) vs the Lean model; FixPEChecksum on files whose checksum field sits at / near a 32 KiB read boundary, and the real "
        "FixPEChecksum on ~40 generated PE-like files shipped in full (e_lfanew+88 on / next to the 32 and 64 KiB io.Copy boundaries, odd / zero "
        "e_lfanew, field at or past EOF, odd lengths, rejects): the 4 stored bytes vs the declarative Spec.peChecksum evaluated by the Lean "
        "driver. transport: "
        "real doRequest (hook) against httptest servers behind the real compresshttp.Middleware with a scripting RoundTripper: first "
        "k attempts failing (refused / 500 / 503) for k=0..4, a 406 at every position, seeded scripts over 16 outcome kinds x 6 "
        "Accept-Encoding strings x retries {0,1,2,3,5} x 1..3 servers x bodies 0..300 KB, really closed listeners; the server records "
        "SHA-256 of the decompressed body per attempt. xfault: the same loop with the real fileProducer whose reader for a scripted "
        "attempt fails after k bytes (k = 0, 1, mid, len-1, len; EIO = permanent, io.ErrUnexpectedEOF = temporary) x Accept-Encoding "
        "{none, identity, gzip, x-snappy-framed, both} x sizes 0..200 KB (thorough: ..1 MB, on the 32/64 KiB buffer and frame edges) "
        "x single server / fail-over / repeated list, plus seeded scripts mixing faults with the 16 outcome kinds; the handler digests "
        "request.Body to its end, refuses on a read error and otherwise records length + SHA-256 and answers 2xx: no attempt may be "
        "answered 2xx for a body that is not the whole file, an attempt whose source faulted is never accepted, and doRequest never "
        "returns a response for it. xresp: responses whose compressed stream is cut mid-frame / lacks the gzip trailer / has a bad "
        "checksum must give the caller a read error, never a short body. xraw: hand-made request bodies (gzip without trailer, cut "
        "streams, bad CRC, Content-Length larger than the bytes sent) against the real Middleware must never be answered 2xx. selenc: CompressRequest's Content-Encoding for 21 hand-written + seeded "
        "Accept-Encoding strings. Oracles without model: 13 digester inputs (PE, PE+page hashes, DLL, PowerShell, CAB, JAR, APK, XAP, "
        "MSI-tar, generated JAR/PS) x 6 read-fragmentation schedules (1-byte, 2-byte, primes, page-straddling, seeded, data+EOF) must "
        "equal the unfragmented digest; transformers re-read after an abandoned partial read; the same JAR digested 16 times in-process; "
        "503-then-lingering-drain front end followed by a healthy server. Non-trivial = distinct op that reaches the modelled/real "
        "code with at least one write, cut, attempt or fragmented read (not an empty script).")
ASSUMPTIONS = ["block size B > 0 (the Go constant is 2^20); with B = 0 the Go loop would not terminate",
               "merkleHasher's hash is any hash.Hash: only the byte strings handed to it are compared (hash = parameter)",
               "peChecksum is modelled after fix F20 (absolute position counter); the pre-fix code is kept as writeOrig with the "
               "refutation checksum_even_splits_orig_false",
               "PE checksum = specification only for an even checksum-field offset (every loadable image); for an odd or absent offset "
               "the code excludes nothing (Relic.Props.C05.pe_checksum_odd_pos)",
               "transport model: one script entry per call of http.Client.Do; httperror.Temporary is modelled for HTTP statuses "
               "(500,502,503,504,507) and as a boolean for transport errors; GetReader/Close are atomic (no goroutine interleaving)",
               "gzip/snappy codecs: only dec(comp b) = b is assumed (library code, exercised by the tie, not proved)",
               "source faults: net/http returns the error of Request.Body.Read from RoundTrip, leaves the chunked body unterminated and does "
               "not retry the request (Go runtime; exercised by the xfault tie); the compressors have no write error while the pipe is read",
               "strings.TrimSpace restricted to ASCII white space (generator stays in ASCII)",
               "io.Copy reads a file in 32 KiB pieces (Go runtime; used only to aim FixPEChecksum cases)"]
TRUSTED = ["models Relic.Model.Merkle / PEChecksum / Transport are hand-written; tied to the Go code by differential execution on every run",
           "recording hash.Hash (SHA-256 inside) registered under crypto.MD4 by the harness",
           "fragmenting-reader oracles compare the implementation with itself (no model): they search, they do not prove"]
UNPROVED = ["pe_reader_split_independent (DigestPE/cabfile/PowerShell/MSI-tar/XAP-tar/AppX readers under short reads: no reader model; implementation oracle only)",
            "stream_digest_eq_file_digest (composition with C01/C17; not stated here)"]
IMPL_PARALLEL = 8
EXTRA_MODULES = ["Relic.Props.C05_Checksum"]


def _f(op):
    return op.split()


def nontrivial(op, mres, tag):
    f = _f(op)
    k = f[1]
    if k == "merkle":
        return any(x != "-" for x in f[4:])
    if k == "cksum":
        return f[3] != "-"
    if k == "fixpehex":
        return mres.startswith("ok")
    if k in ("xport", "xdown", "xfault"):
        return "attempts=0" not in tag
    return True


def branch(op, mres, tag):
    f = _f(op)
    k = f[1]
    r = mres.split(" ")
    if k == "merkle":
        n = int(tag.split("n=")[1].split()[0]) if "n=" in tag else -1
        return "merkle:%s:blocks=%s" % ("finish" if f[3] != "0" else "flush", "0" if n == 0 else "1" if n == 1 else "2-4" if n < 5 else "5+")
    if k == "cksum":
        return "cksum:%s:%s" % (r[0] if r[0] == "ok" else " ".join(r[:2]), tag.replace("oneshot=", "").split(" ", 1)[-1] if tag else "")
    if k in ("xport", "xdown"):
        fin = r[-1].split(":")
        return "%s:%s:%s" % (k, ":".join(fin[:2]) if fin[0] != "resp" else "resp", tag.split(" ")[-1] if tag else "")
    if k == "xfault":
        fin = r[-1].split(":")
        sc = f[5].split(",")
        size = int(f[6])
        atts = [] if r[1] == "-" else r[1].split(",")
        cls = set()
        for i, a in enumerate(atts):
            e = sc[i] if i < len(sc) else "200"
            if e.startswith("f"):
                kk = int(e[1:-1])
                kc = "0" if kk == 0 else "1" if kk == 1 else "len" if kk >= size else "len-1" if kk == size - 1 else "mid"
                cls.add("%s@%s%s" % ({"-": "plain", "gzip": "gzip", "x-snappy-framed": "snappy"}.get(a.split(":")[1], "?"), kc, e[-1]))
        return "xfault:%s:%s" % (fin[0] if fin[0] != "resp" else "resp", "+".join(sorted(cls)) or "nofault")
    if k in ("xresp", "xraw"):
        return "%s:%s:%s" % (k, f[2], f[3])
    if k == "selenc":
        return "selenc:" + (r[1] if len(r) > 1 else "?")
    if k == "frag":
        return "frag:" + f[2]
    return k


def predicate(op, il, mres, tag):
    """the property itself, on the implementation's behaviour"""
    f = _f(op)
    k = f[1]
    if il.startswith("panic") or il.startswith("crash"):
        return ("Relic.Props.C09.merkle_split_independent", mres, "implementation crashed")
    if k == "merkle":
        if "split=DIFF" in il:
            return ("Relic.Props.C09.merkle_sections_split_independent", "split=same",
                    "block digests differ between the scripted writes and one write per section")
        if "spec=DIFF" in il:
            return ("Relic.Props.C09.merkle_finish", "spec=same", "digest differs from chunk-then-hash of the section contents")
        if il.startswith("ok"):
            # block lengths must be the chunk lengths of each section's total (the specification, recomputed here)
            B = 1048576
            want = []
            for s in f[4:]:
                tot = sum(int(x) for x in s.split(",")) if s != "-" else 0
                want += [B] * (tot // B) + ([tot % B] if tot % B else [])
            got = [] if il.split()[1] == "-" else [int(x) for x in il.split()[1].split(",")]
            if got != want:
                return ("Relic.Props.C09.merkle_sections", "ok " + ",".join(map(str, want)), "block boundaries are not the 1 MiB chunks of the section")
        if il.startswith("err"):
            return ("Relic.Props.C09.merkle_sections", mres, "hasher misbehaved: " + il)
    elif k == "cksum":
        even = "even=1" in tag
        one = tag.split("oneshot=")[1].split()[0] if "oneshot=" in tag else ""
        if even:
            if not il.startswith("ok") or il.split()[1] != one:
                return ("Relic.Props.C09.checksum_even_splits", "ok " + one,
                        "all writes but the last are even-sized, yet the sum differs from the one-shot sum")
        else:
            # an odd write before the end must be an explicit error, never a silently different sum
            if il.startswith("ok") and il.split()[1] != one:
                return ("Relic.Props.C09.checksum_odd_then_write", "err odd-write or ok " + one, "odd write before the end gave a different sum without error")
    elif k == "fixpe":
        if il != "ok same":
            return ("Relic.Props.C09.checksum_even_splits", "ok same", "FixPEChecksum wrote a checksum different from the one-shot checksum of the same file")
    elif k == "fixpehex":
        # the stored bytes must be the declarative checksum (even field offset) / the plain sum (odd or no field)
        if "spec=" in tag and il.startswith("ok"):
            spec = tag.split("spec=")[1].split()[0]
            if il.split()[2] != spec:
                return ("Relic.Props.C05.fix_pe_checksum_eq_spec", "ok %s %s" % (il.split()[1], spec),
                        "FixPEChecksum stored a value different from Spec.peChecksum of the file")
    elif k in ("xport", "xdown"):
        if il.startswith("ok"):
            parts = il.split()
            atts = [] if parts[1] == "-" else parts[1].split(",")
            for a in atts:
                body = a.split(":")[2]
                if body not in ("full", "x"):
                    return ("Relic.Props.C09.failover_same_body", "every delivered body is the whole file", "attempt %s delivered %s" % (a, body))
            if "BADRESP" in parts[-1]:
                return ("Relic.Props.C09.failover_same_body", "response body round-trips", parts[-1])
            if parts[-1].startswith("resp:") and atts and atts[-1].split(":")[2] != "full":
                return ("Relic.Props.C09.failover_same_body", "successful attempt carried the whole file", atts[-1])
    elif k == "xfault":
        if il.startswith("ok"):
            parts = il.split()
            atts = [] if parts[1] == "-" else parts[1].split(",")
            sc = [] if f[5] == "-" else f[5].split(",")
            for i, a in enumerate(atts):
                body = a.split(":")[2]
                e = sc[i] if i < len(sc) else "200"
                if body not in ("full", "x"):
                    return ("Relic.Props.C09.fault_never_accepted", "every body a server accepts (2xx) is the whole file",
                            "attempt %d (%s, event %s) was answered 2xx for a truncated body: (length:sha256/32) = %s" % (i, a, e, body))
                if e.startswith("f") and body != "x":
                    return ("Relic.Props.C09.fault_never_accepted", "a source fault makes the attempt fail",
                            "attempt %d (%s): the source failed (%s) yet the server got a cleanly ended body and accepted it" % (i, a, e))
            if "BADRESP" in parts[-1]:
                return ("Relic.Props.C09.failover_same_body", "response body round-trips", parts[-1])
            if parts[-1].startswith("resp:") and atts:
                e = sc[len(atts) - 1] if len(atts) - 1 < len(sc) else "200"
                if e.startswith("f"):
                    return ("Relic.Props.C09.fault_never_accepted", "doRequest returns an error when the last attempt's source faulted",
                            "returned %s although the source of the last attempt failed (%s)" % (parts[-1], e))
                if atts[-1].split(":")[2] != "full":
                    return ("Relic.Props.C09.failover_same_body", "successful attempt carried the whole file", atts[-1])
    elif k == "xresp":
        if il != "ok error":
            return ("Relic.Props.C09.failover_same_body (response side; implementation oracle)", "ok error",
                    "a damaged compressed response was handed to the caller without a read error: " + il)
    elif k == "xraw":
        if il != "ok refused":
            return ("Relic.Props.C09.fault_never_accepted (server side; implementation oracle)", "ok refused",
                    "the server answered 2xx for a request body that is not a complete stream: " + il)
    elif k in ("frag", "transform", "xlinger"):
        if il != "ok same":
            thm = {"frag": "pe_reader_split_independent (unproved; implementation oracle)",
                   "transform": "Relic.Props.C09.failover_same_body (GetReader yields identical bytes each time)",
                   "xlinger": "Relic.Props.C09.failover_same_body"}[k]
            return (thm, "ok same", il)
    elif k == "pipe":
        if il.startswith("ok DIFF"):
            return ("Relic.Props.C09.pgp_pipe_transform_all_or_nothing", "ok same | ok refused",
                    "the transform of a non-seekable input yields something other than the input: " + il)
    elif k == "jarrepro":
        if il != "ok distinct=1":
            return ("stream_digest_eq_file_digest (unproved; implementation oracle)", "ok distinct=1",
                    "the same JAR digested 16 times in one process gives different manifests")
    return None


def matches_known(kn, op, il, mres, tag):
    ident = kn.get("identity", {})
    f = _f(op)
    site = ident.get("site", "")
    if site == "signjar.updateManifest" and f[1] == "jarrepro":
        return int(f[2]) >= 2
    return False


# ---- compression layer (checklib/models/chttp.py): CHTTP ops run as a second correspondence under the pseudo-property C09CH ----
import os as _os, sys as _sys
_sys.path.insert(0, _os.path.join(_os.path.dirname(_os.path.dirname(_os.path.abspath(__file__))), "models"))
import chttp as _chttp
generate = _chttp.generate
UNPROVED = UNPROVED + _chttp.UNPROVED
TRUSTED = TRUSTED + _chttp.TRUSTED
ASSUMPTIONS = ASSUMPTIONS + _chttp.ASSUMPTIONS


def run(ctx):
    import runner
    cov, f, k = ({}, [], []) if _chttp.replay_only_chttp(ctx) else runner.correspondence("C09", ctx, __import__("props.c09", fromlist=["x"]))
    return _chttp.second(ctx, "C09", "C09CH", cov, f, k)
# reader calculus (ops with first token RD; checklib/models/readers.py): split independence of the streaming digesters
import composite as _composite  # noqa: F401  (puts checklib/models on sys.path)
import readers as _readers
_readers.install(globals())

/-
  Property C11 — malformed input yields an error, never a crash or runaway resource use.
  This file: the small parser models (APK signing block, csblob.parseSuper, signxap.removeSignature, binpatch.Load).
  For each: the exact characterisation of the panic on the unchanged tree (`… = .panic site ↔ Trigger`), a concrete
  witness (the unchanged code violates the property), and panic-freedom of the guarded code for all inputs.
  The PE parser is in C11_PE.lean.
-/
import Relic.Model.ApkBlock
import Relic.Model.CsBlob
import Relic.Model.Binpatch
namespace Relic.Props.C11
open Relic

/-- the result is not a panic -/
def NoPanic {α} (r : Res α) : Prop := ∀ s, r ≠ .panic s

theorem noPanic_ok {α} (a : α) : NoPanic (Res.ok a) := by intro s h; cases h
theorem noPanic_err {α} (e : String) : NoPanic (Res.err e : Res α) := by intro s h; cases h
theorem noPanic_diverge {α} : NoPanic (Res.diverge : Res α) := by intro s h; cases h

theorem noPanic_bind {α β} {r : Res α} {f : α → Res β} (h1 : NoPanic r) (h2 : ∀ a, r = .ok a → NoPanic (f a)) :
    NoPanic (r.bind f) := by
  cases r with
  | ok a => exact h2 a rfl
  | err e => exact noPanic_err e
  | panic s => exact absurd rfl (h1 s)
  | diverge => exact noPanic_diverge

/-- a panic of `r.bind f` comes from `r` or from `f` on `r`'s value -/
theorem bind_panic {α β} {r : Res α} {f : α → Res β} {s : String} (h : r.bind f = .panic s) :
    r = .panic s ∨ ∃ a, r = .ok a ∧ f a = .panic s := by
  cases r with
  | ok a => exact Or.inr ⟨a, rfl, h⟩
  | err e => cases h
  | panic t => left; simpa [Res.bind] using h
  | diverge => cases h

theorem panic_eq_iff {α} (a s : String) : ((Res.panic a : Res α) = .panic s) ↔ s = a := by
  constructor
  · intro h; cases h; rfl
  · intro h; rw [h]

theorem ok_eq_panic_iff {α} (a : α) (s : String) : ((Res.ok a : Res α) = .panic s) ↔ False := by
  constructor
  · intro h; cases h
  · intro h; cases h

theorem err_eq_panic_iff {α} (e s : String) : ((Res.err e : Res α) = .panic s) ↔ False := by
  constructor
  · intro h; cases h
  · intro h; cases h

/-! ## APK signing block -/
section Apk
open Relic.ApkBlock

/-- **readPrefix_panic_iff** — `unmarshalR` on the unchanged tree panics exactly when the length prefix `size` lies in the
    window `len − 4 < size ≤ len + 4`: the length test `4+len(blob) < size` is written the wrong way round. -/
theorem readPrefix_panic_iff (blob : Bytes) (s : String) :
    readPrefix false blob = .panic s ↔
      s = "apk.unmarshalR:slice" ∧ 4 ≤ blob.length ∧ blob.length < 4 + u32 blob ∧ u32 blob ≤ 4 + blob.length := by
  unfold readPrefix
  by_cases h1 : blob.length < 4
  · simp [h1] <;> omega
  · by_cases h2 : 4 + blob.length < u32 blob
    · simp [h1, h2] <;> omega
    · by_cases h3 : blob.length < 4 + u32 blob
      · simp [h1, h2, h3]
        constructor
        · intro h; exact ⟨h.symm, by omega, by omega⟩
        · intro h; exact h.1.symm
      · simp [h1, h2, h3] <;> omega

example : readPrefix false [5, 0, 0, 0, 1, 2, 3] = .panic "apk.unmarshalR:slice" := by decide
example : readPrefix false [3, 0, 0, 0, 1, 2, 3] = .ok ([1, 2, 3], []) := by decide

/-- **readPrefix_fixed_no_panic** — with the test the right way round (`len(blob)-4 < size`) the slice cannot fail. -/
theorem readPrefix_fixed_no_panic (blob : Bytes) : NoPanic (readPrefix true blob) := by
  intro s
  unfold readPrefix
  by_cases h1 : blob.length < 4
  · simp [h1]
  · by_cases h3 : blob.length < 4 + u32 blob <;> simp [h1, h3]

theorem readPrefix_no_panic_partial (blob : Bytes) (h : ¬ (blob.length < 4 + u32 blob ∧ u32 blob ≤ 4 + blob.length)) :
    NoPanic (readPrefix false blob) := by
  intro s hp
  have := (readPrefix_panic_iff blob s).mp hp
  exact h ⟨this.2.2.1, this.2.2.2⟩

theorem parseAttr_fixed_no_panic (blob : Bytes) : NoPanic (parseAttr true blob) := by
  unfold parseAttr
  apply noPanic_bind (readPrefix_fixed_no_panic blob)
  intro ⟨inner, rem⟩ _
  by_cases h : inner.length < 4
  · simp only [h, if_true]; exact noPanic_err _
  · simp only [h, if_false]
    apply noPanic_bind (readPrefix_fixed_no_panic _)
    intro ⟨_, rest⟩ _
    by_cases h2 : rest.isEmpty <;> simp only [h2] <;> first | exact noPanic_ok _ | exact noPanic_err _

theorem loopAttrs_fixed_no_panic (fuel : Nat) (blob : Bytes) : NoPanic (loopAttrs true fuel blob) := by
  induction fuel generalizing blob with
  | zero =>
    unfold loopAttrs
    by_cases h : blob.isEmpty <;> simp only [h] <;> first | exact noPanic_ok _ | exact noPanic_diverge
  | succ n ih =>
    unfold loopAttrs
    by_cases h : blob.isEmpty
    · simp only [h, if_true]; exact noPanic_ok _
    · simp only [h]
      exact noPanic_bind (parseAttr_fixed_no_panic blob) (fun rest _ => ih rest)

theorem parseSigner_fixed_no_panic (blob : Bytes) : NoPanic (parseSigner true blob) := by
  unfold parseSigner
  apply noPanic_bind (readPrefix_fixed_no_panic blob)
  intro ⟨inner, rem⟩ _
  apply noPanic_bind (readPrefix_fixed_no_panic _)
  intro ⟨_, r1⟩ _
  apply noPanic_bind (readPrefix_fixed_no_panic _)
  intro ⟨sigs, r2⟩ _
  apply noPanic_bind (loopAttrs_fixed_no_panic _ _)
  intro _ _
  apply noPanic_bind (readPrefix_fixed_no_panic _)
  intro ⟨_, r3⟩ _
  by_cases h2 : r3.isEmpty <;> simp only [h2] <;> first | exact noPanic_ok _ | exact noPanic_err _

theorem loopSigners_fixed_no_panic (fuel : Nat) (blob : Bytes) : NoPanic (loopSigners true fuel blob) := by
  induction fuel generalizing blob with
  | zero =>
    unfold loopSigners
    by_cases h : blob.isEmpty <;> simp only [h] <;> first | exact noPanic_ok _ | exact noPanic_diverge
  | succ n ih =>
    unfold loopSigners
    by_cases h : blob.isEmpty
    · simp only [h, if_true]; exact noPanic_ok _
    · simp only [h]
      apply noPanic_bind (parseSigner_fixed_no_panic blob)
      intro rest _
      exact noPanic_bind (ih rest) (fun n _ => noPanic_ok _)

theorem unmarshalSigners_fixed_no_panic (blob : Bytes) : NoPanic (unmarshalSigners true blob) := by
  unfold unmarshalSigners
  apply noPanic_bind (readPrefix_fixed_no_panic blob)
  intro ⟨inner, rem⟩ _
  apply noPanic_bind (loopSigners_fixed_no_panic _ _)
  intro n _
  by_cases h2 : rem.isEmpty <;> simp only [h2] <;> first | exact noPanic_ok _ | exact noPanic_err _

theorem loopParts_fixed_no_panic (fuel : Nat) (block : Bytes) : NoPanic (loopParts true fuel block) := by
  induction fuel generalizing block with
  | zero =>
    unfold loopParts
    by_cases h : block.isEmpty <;> simp only [h] <;> first | exact noPanic_ok _ | exact noPanic_diverge
  | succ n ih =>
    unfold loopParts
    dsimp only
    split
    · exact noPanic_ok _
    · split
      · exact noPanic_err _
      · split
        · exact noPanic_err _
        · split
          · exact ih _
          · apply noPanic_bind (unmarshalSigners_fixed_no_panic _)
            intro k _
            split <;> exact noPanic_err _

/-- **getSigBlock_panic_iff** — `getSigBlock` on the unchanged tree panics exactly when the bytes in front of the directory end in
    the magic and are shorter than 24 bytes (`blob[len(blob)-24:]`), or are 24..31 bytes long with both size fields equal to
    `len − 8` (`blob[8:len(blob)-24]`). -/
theorem getSigBlock_panic_iff (blob : Bytes) (s : String) :
    getSigBlock false blob = .panic s ↔
      s = "apk.getSigBlock:slice" ∧ hasMagic blob = true ∧
        (blob.length < 24 ∨ (blob.length < 32 ∧ u64 blob = blob.length - 8 ∧ u64 (blob.drop (blob.length - 24)) = blob.length - 8)) := by
  unfold getSigBlock
  by_cases h0 : hasMagic blob = true
  · by_cases h1 : blob.length < 24
    · simp [h0, h1]; exact eq_comm
    · by_cases h2 : u64 blob ≠ blob.length - 8 ∨ u64 (blob.drop (blob.length - 24)) ≠ blob.length - 8
      · simp only [h0, h1, h2]
        simp
        intro _ _ h3 h4
        rcases h2 with h2 | h2
        · exact absurd h3 h2
        · exact absurd h4 h2
      · have h2' : u64 blob = blob.length - 8 ∧ u64 (blob.drop (blob.length - 24)) = blob.length - 8 := by
          constructor
          · apply Classical.byContradiction; intro h; exact h2 (Or.inl h)
          · apply Classical.byContradiction; intro h; exact h2 (Or.inr h)
        by_cases h3 : blob.length - 24 < 8
        · simp [h0, h1, h2', h3]
          constructor
          · intro h; exact ⟨h.symm, by omega⟩
          · intro h; exact h.1.symm
        · simp [h0, h1, h2', h3] <;> omega
  · simp [h0]

example : getSigBlock false (List.replicate 4 0 ++ magic) = .panic "apk.getSigBlock:slice" := by decide

theorem getSigBlock_fixed_no_panic (blob : Bytes) : NoPanic (getSigBlock true blob) := by
  intro s
  unfold getSigBlock
  dsimp only
  split
  · exact fun h => by cases h
  · rename_i h32
    have h32' : ¬ blob.length < 32 := by
      intro h; exact h32 ⟨rfl, h⟩
    split
    · exact fun h => by cases h
    · split
      · omega
      · split
        · exact fun h => by cases h
        · split
          · omega
          · exact fun h => by cases h

/-- **verifyGap_fixed_no_panic** — with the two guards, `apk.Verify`'s signing-block path (getSigBlock, part loop, unmarshalR on
    `[]apkSigner`) does not panic on any bytes. -/
theorem verifyGap_fixed_no_panic (gap : Bytes) : NoPanic (verifyGap true gap) := by
  unfold verifyGap
  by_cases h : gap.isEmpty
  · simp only [h, if_true]; exact noPanic_err _
  · simp only [h]
    apply noPanic_bind (getSigBlock_fixed_no_panic gap)
    intro block _
    exact noPanic_bind (loopParts_fixed_no_panic _ _) (fun _ _ => noPanic_err _)

/-- the unchanged tree violates C11 here: a 51-byte signing block whose v2 part holds the prefix `05 00 00 00` in front of 3 bytes -/
def apkWitness : Bytes :=
  [43, 0, 0, 0, 0, 0, 0, 0] ++ ([11, 0, 0, 0, 0, 0, 0, 0] ++ [0x1a, 0x87, 0x09, 0x71] ++ [5, 0, 0, 0, 1, 2, 3]) ++
  [43, 0, 0, 0, 0, 0, 0, 0] ++ magic

/-- **verifyGap_panics_on_witness** — the negation of panic-freedom for the unchanged tree, by a concrete witness (replayed on the
    real code by the correspondence run: `APKBLK verify <hex of apkWitness>`). -/
theorem verifyGap_panics_on_witness : verifyGap false apkWitness = .panic "apk.unmarshalR:slice" := by decide

example : verifyGap true apkWitness = .err "eof" := by decide

end Apk

/-! ## csblob.parseSuper and signxap.removeSignature -/
section Cs
open Relic.CsBlob

/-- **entry_panic_iff** — one index entry of a code-signature superblob: `parseSuper` on the unchanged tree panics exactly when the
    index offset is smaller than the data offset (`offset − dataOffset < 0`), except that for `−4 ≤ offset − dataOffset < 0` the
    length test may still reject first. -/
theorem entry_panic_iff (data : Bytes) (dataOffset offsetRaw : Nat) (s : String) :
    entry false data dataOffset offsetRaw = .panic s ↔
      s = "csblob.parseSuper:slice" ∧ offsetRaw < dataOffset ∧
        ((offsetRaw : Int) - dataOffset ≤ (data.length : Int) - 8) ∧
        ((offsetRaw : Int) - dataOffset + 4 < 0 ∨
          (offsetRaw : Int) - dataOffset + (be32 data ((offsetRaw : Int) - dataOffset + 4).toNat : Int) ≤ data.length) := by
  unfold entry
  simp only [Bool.false_eq_true, false_and, if_false]
  by_cases h1 : (offsetRaw : Int) - dataOffset > (data.length : Int) - 8
  · simp [h1] <;> omega
  · by_cases h2 : (offsetRaw : Int) - dataOffset + 4 < 0
    · simp [h1, h2]
      constructor
      · intro h; exact ⟨h.symm, by omega, by omega⟩
      · intro h; exact h.1.symm
    · by_cases h3 : (offsetRaw : Int) - dataOffset + (be32 data ((offsetRaw : Int) - dataOffset + 4).toNat : Int) > data.length
      · simp [h1, h2, h3] <;> omega
      · by_cases h4 : (offsetRaw : Int) - dataOffset < 0
        · simp [h1, h2, h3, h4]
          constructor
          · intro h; exact ⟨h.symm, by omega, by omega, by omega⟩
          · intro h; exact h.1.symm
        · simp [h1, h2, h3, h4] <;> omega

theorem entry_fixed_no_panic (data : Bytes) (dataOffset offsetRaw : Nat) : NoPanic (entry true data dataOffset offsetRaw) := by
  intro s
  unfold entry
  by_cases h0 : (offsetRaw : Int) - dataOffset < 0
  · simp [h0]
  · by_cases h1 : (offsetRaw : Int) - dataOffset > (data.length : Int) - 8
    · simp [h0, h1]
    · have h2 : ¬ ((offsetRaw : Int) - dataOffset + 4 < 0) := by omega
      by_cases h3 : (offsetRaw : Int) - dataOffset + (be32 data ((offsetRaw : Int) - dataOffset + 4).toNat : Int) > data.length
      · simp [h0, h1, h2, h3]
      · simp [h0, h1, h2, h3]

theorem entry_no_panic_partial (data : Bytes) (dataOffset offsetRaw : Nat) (h : dataOffset ≤ offsetRaw) :
    NoPanic (entry false data dataOffset offsetRaw) := by
  intro s hp
  have := (entry_panic_iff data dataOffset offsetRaw s).mp hp
  omega

theorem entries_fixed_no_panic (data : Bytes) (dataOffset n : Nat) (idx : Bytes) : NoPanic (entries true data dataOffset n idx) := by
  induction n generalizing idx with
  | zero => unfold entries; exact noPanic_ok _
  | succ k ih =>
    unfold entries
    exact noPanic_bind (entry_fixed_no_panic _ _ _) (fun _ _ => ih _)

/-- **verifyBlob_fixed_no_panic** — with the guard `offset < 0 → errShort`, `parseSuper` does not panic on any bytes. -/
theorem verifyBlob_fixed_no_panic (blob : Bytes) : NoPanic (verifyBlob true blob) := by
  unfold verifyBlob
  apply noPanic_bind
  · unfold parseSuper
    by_cases h1 : blob.length < 12
    · simp only [h1, if_true]; exact noPanic_err _
    · simp only [h1]
      by_cases h2 : be32 blob 4 < 8 ∨ blob.length < be32 blob 4
      · simp only [h2, if_true]; exact noPanic_err _
      · simp only [h2]
        by_cases h3 : (List.drop 12 blob).length < 8 * be32 blob 8
        · simp only [h3, if_true]; exact noPanic_err _
        · simp only [h3]
          exact noPanic_bind (entries_fixed_no_panic _ _ _ _) (fun _ _ => noPanic_ok _)
  · intro magic _
    split <;> exact noPanic_err _

/-- a 20-byte superblob with one index entry whose offset (0) lies before the data area: the unchanged code panics -/
example : verifyBlob false [0,0,0,0, 0,0,0,20, 0,0,0,1, 0,0,0,0, 0,0,0,0] = .panic "csblob.parseSuper:slice" := by decide

/-- **removeSignature_panic_iff** — `signxap.removeSignature` on the unchanged tree panics exactly when the directory blob is shorter
    than the 10-byte trailer, or the trailer magic matches and `TrailerSize + 10` exceeds the blob. -/
theorem removeSignature_panic_iff (cd : Bytes) (s : String) :
    removeSignature false cd = .panic s ↔
      s = "signxap.removeSignature:slice" ∧
        (cd.length < 10 ∨ (leVal ((cd.drop (cd.length - 10)).take 4) = 1399873880 ∧
          cd.length < leVal (((cd.drop (cd.length - 10)).drop 6).take 4) + 10)) := by
  unfold removeSignature
  by_cases h1 : cd.length < 10
  · simp only [h1, if_true, Bool.false_eq_true, if_false, true_or, and_true, panic_eq_iff]
  · by_cases h2 : leVal ((cd.drop (cd.length - 10)).take 4) = 1399873880
    · by_cases h3 : cd.length < leVal (((cd.drop (cd.length - 10)).drop 6).take 4) + 10
      · simp only [h1, h2, h3, if_true, if_false, Bool.false_eq_true, false_or, and_true, true_and, panic_eq_iff]
      · simp only [h1, h2, h3, if_true, if_false, false_or, and_false, ok_eq_panic_iff]
    · simp only [h1, h2, if_false, false_or, false_and, and_false, ok_eq_panic_iff]

theorem removeSignature_fixed_no_panic (cd : Bytes) : NoPanic (removeSignature true cd) := by
  intro s
  unfold removeSignature
  by_cases h1 : cd.length < 10
  · simp only [h1, if_true]; exact fun h => by cases h
  · by_cases h2 : leVal ((cd.drop (cd.length - 10)).take 4) = 1399873880
    · by_cases h3 : cd.length < leVal (((cd.drop (cd.length - 10)).drop 6).take 4) + 10
      · simp only [h1, h2, h3, if_true, if_false]; exact fun h => by cases h
      · simp only [h1, h2, h3, if_true, if_false]; exact fun h => by cases h
    · simp only [h1, h2, if_false]; exact fun h => by cases h

example : removeSignature false [1, 2, 3] = .panic "signxap.removeSignature:slice" := by decide

end Cs

/-! ## binpatch.Load -/
section Bin
open Relic.Binpatch

/-- **load_no_panic** — `binpatch.Load` has no slice or index expression that can fail: the model is panic-free and total
    (structural recursion on the patch count and on the header list; no fuel). -/
theorem load_no_panic (b : Bytes) : NoPanic (load b) := by
  intro s
  unfold load
  split
  · exact fun h => by cases h
  · split
    · exact fun h => by cases h
    · split
      · exact fun h => by cases h
      · split <;> exact fun h => by cases h

theorem load_not_diverge (b : Bytes) : load b ≠ .diverge := by
  unfold load
  split
  · exact fun h => by cases h
  · split
    · exact fun h => by cases h
    · split
      · exact fun h => by cases h
      · split <;> exact fun h => by cases h

/-- bytes requested by `make` before anything is read from the body, on the unchanged tree:
    `make([]PatchHeader, num)` (16 bytes each) and `make([][]byte, num)` (24 bytes each) -/
def loadAlloc (b : Bytes) : Nat :=
  if b.length < 8 ∨ beVal (b.take 4) ≠ 1 then 0 else 40 * beVal ((b.drop 4).take 4)

/-- the same account with the guard `16*num ≤ remaining` of fix-binpatch.Load.patch -/
def loadAllocFixed (b : Bytes) : Nat :=
  if b.length < 8 ∨ beVal (b.take 4) ≠ 1 then 0
  else if b.length - 8 < 16 * beVal ((b.drop 4).take 4) then 0 else 40 * beVal ((b.drop 4).take 4)

/-- **loadAlloc_unbounded** — on the unchanged tree an 8-byte input requests `40 · NumPatches` bytes, for any 32-bit count. -/
theorem loadAlloc_unbounded (n : Nat) (hn : n < 2 ^ 32) :
    ∃ b : Bytes, b.length = 8 ∧ loadAlloc b = 40 * n := by
  refine ⟨[0, 0, 0, 1] ++ beBytes 4 n, by simp [beBytes], ?_⟩
  have h3 : beVal [UInt8.ofNat (n / 16777216 % 256), UInt8.ofNat (n / 65536 % 256), UInt8.ofNat (n / 256 % 256),
      UInt8.ofNat (n % 256)] = n := by
    simp [beVal]
    omega
  have h1 : beVal [(0 : UInt8), 0, 0, 1] = 1 := by decide
  simp [loadAlloc, beBytes, h1, h3]

/-- **loadAllocFixed_le** — with the guard the request is at most 2.5 times the input length. -/
theorem loadAllocFixed_le (b : Bytes) : 2 * loadAllocFixed b ≤ 5 * b.length := by
  unfold loadAllocFixed
  split
  · omega
  · split <;> omega

end Bin
end Relic.Props.C11

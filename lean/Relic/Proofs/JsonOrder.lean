/- json.Marshal does not depend on the iteration order of any Go map inside the value -/
import Relic.Proofs.JsonSort
namespace Relic.Json
open Relic

mutual
/-- the same value with every map listed in the order an arbitrary iteration `σ` delivers it (at every depth) -/
def shuffle (σ : List Member → List Member) : JVal → JVal
  | .null => .null
  | .bool b => .bool b
  | .num t => .num t
  | .str s => .str s
  | .arr es => .arr (shuffleL σ es)
  | .obj ms => .obj (σ (shuffleM σ ms))
def shuffleL (σ : List Member → List Member) : List JVal → List JVal
  | [] => []
  | v :: tl => shuffle σ v :: shuffleL σ tl
def shuffleM (σ : List Member → List Member) : List Member → List Member
  | [] => []
  | (k, v) :: tl => (k, shuffle σ v) :: shuffleM σ tl
end

mutual
/-- every map inside has distinct keys (true of every Go map) -/
def KeysDistinct : JVal → Prop
  | .null => True
  | .bool _ => True
  | .num _ => True
  | .str _ => True
  | .arr es => KeysDistinctL es
  | .obj ms => (keysOf ms).Nodup ∧ KeysDistinctM ms
def KeysDistinctL : List JVal → Prop
  | [] => True
  | v :: tl => KeysDistinct v ∧ KeysDistinctL tl
def KeysDistinctM : List Member → Prop
  | [] => True
  | (_, v) :: tl => KeysDistinct v ∧ KeysDistinctM tl
end

theorem canonM_eq_map (l : List Member) : canonM l = l.map (fun p => (p.1, canon p.2)) := by
  induction l with
  | nil => rfl
  | cons p tl ih => cases p; simp [canonM, ih]

theorem keysOf_canonM (l : List Member) : keysOf (canonM l) = keysOf l := by
  induction l with
  | nil => rfl
  | cons p tl ih => cases p; simp_all [canonM, keysOf]

theorem keysOf_shuffleM (σ) (l : List Member) : keysOf (shuffleM σ l) = keysOf l := by
  induction l with
  | nil => rfl
  | cons p tl ih => cases p; simp_all [shuffleM, keysOf]

mutual
theorem canon_shuffle (σ : List Member → List Member) (hσ : ∀ l, (σ l).Perm l) :
    ∀ v : JVal, KeysDistinct v → canon (shuffle σ v) = canon v
  | .null, _ => rfl
  | .bool _, _ => rfl
  | .num _, _ => rfl
  | .str _, _ => rfl
  | .arr es, h => by
    simp only [shuffle, canon]
    rw [canonL_shuffle σ hσ es (by simpa [KeysDistinct] using h)]
  | .obj ms, h => by
    simp only [KeysDistinct] at h
    simp only [shuffle, canon]
    congr 1
    have h1 : (canonM (σ (shuffleM σ ms))).Perm (canonM (shuffleM σ ms)) := by
      rw [canonM_eq_map, canonM_eq_map]
      exact (hσ _).map _
    rw [canonM_shuffle σ hσ ms h.2] at h1
    refine sortMembers_perm_eq _ _ h1 ?_
    have : keysOf (canonM (σ (shuffleM σ ms))) = keysOf (σ (shuffleM σ ms)) := keysOf_canonM _
    rw [this]
    have hp : (keysOf (σ (shuffleM σ ms))).Perm (keysOf (shuffleM σ ms)) := (hσ _).map _
    rw [keysOf_shuffleM] at hp
    exact (List.Perm.nodup_iff hp).mpr h.1
theorem canonL_shuffle (σ : List Member → List Member) (hσ : ∀ l, (σ l).Perm l) :
    ∀ l : List JVal, KeysDistinctL l → canonL (shuffleL σ l) = canonL l
  | [], _ => rfl
  | v :: tl, h => by
    simp only [KeysDistinctL] at h
    simp only [shuffleL, canonL]
    rw [canon_shuffle σ hσ v h.1, canonL_shuffle σ hσ tl h.2]
theorem canonM_shuffle (σ : List Member → List Member) (hσ : ∀ l, (σ l).Perm l) :
    ∀ l : List Member, KeysDistinctM l → canonM (shuffleM σ l) = canonM l
  | [], _ => rfl
  | (k, v) :: tl, h => by
    simp only [KeysDistinctM] at h
    simp only [shuffleM, canonM]
    rw [canon_shuffle σ hσ v h.1, canonM_shuffle σ hσ tl h.2]
end

/-- `json.Marshal` yields the same bytes whatever order the runtime iterates the maps in -/
theorem marshal_shuffle (σ : List Member → List Member) (hσ : ∀ l, (σ l).Perm l) (v : JVal) (h : KeysDistinct v) :
    marshal (shuffle σ v) = marshal v := by
  simp only [marshal, canon_shuffle σ hσ v h]

end Relic.Json

/- line-protocol handlers for the Apple disk image (UDIF) model (used by C01, C02, C03, C08, C11) -/
import Relic.Model.Dmg
import Relic.Driver.MachO
namespace Relic.Driver.Dmg
open Relic Relic.CodeDir Relic.Dmg
open Relic.Driver.MachO (showRes segsStr optHex finStr itemsStr)

def hchecksStr (cs : List HCheck) : String :=
  if cs.isEmpty then "-" else ",".intercalate (cs.map fun c => s!"{c.ht}:{toHex c.stream}:{toHex c.expected}")

/-- a minimal embedded-signature superblob (no items): stands for the CMS-dependent blob, which the model does not know -/
def placeholder : Bytes := [0xfa, 0xde, 0x0c, 0xc0, 0, 0, 0, 12, 0, 0, 0, 0]

def mkSignParams (hash : Nat) (ident : Bytes) (req : Option Bytes) : SignParams :=
  { hash, flags := 0, ident, team := [], execBase := 0, execLimit := 0, execFlags := 0, requirements := req, entitlement := none,
    entitlementDER := none, infoPlist := none, resources := none, repSpecific := none }

def b01 (b : Bool) : String := if b then "1" else "0"

/-- the trailer bytes `t` selects: `=` = the last 512 bytes of the image (what `transform` sends) -/
def trailerOf (f : Bytes) (t : String) : Option Bytes :=
  if t = "=" then some (f.drop (f.length - 512)) else fromHex t

/-- does the model's verifier, run on the written file, see exactly what the signer hashed? -/
def seesSame (g : Bytes) (pl : Plan) (blob : Bytes) : Bool :=
  match openFile g with
  | .ok o => o.sigBlob == blob && o.koly.forHashing == pl.rep && sectionOf g o.koly.bundle == pl.stream &&
             decide ((pl.stream.length : Int) = pl.bundle)
  | _ => false

def planTag (f : Bytes) (pl : Plan) : String :=
  s!"bundle={pl.bundle} flen={f.length} old={match pl.oldSig with | some o => toString o.length | none => "-1"} magic={b01 (pl.koly.magic = kolyMagic)} entries={pl.patchEntries f.length}"

def signLine (f : Bytes) (inplace : Bool) (so : SignOut) : String :=
  let pl := so.plan
  let tag := s!"#{planTag f pl} opaque={b01 so.cmsOpaque}"
  match signedFile f pl placeholder inplace with
  | .ok (g, strat) =>
    -- in-place application of a patch that does not end at the end of the input is only a formal possibility
    if g ≠ written f pl placeholder then s!"err apply-odd {tag}" else
    let verdict := if seesSame g pl placeholder then "verify=ok" else "verify=fail"
    s!"ok so={pl.bundle} n={so.signed.pages.count} lim={so.signed.pages.limit} cd={segsStr so.signed.cd} items={itemsStr 0 so.signed.hashed} pre={toHex (g.take pl.bundle.toNat)} trailer={toHex pl.rep} slok=1 {verdict} {tag} strat={b01 strat}"
  | .err _ => s!"err apply {tag}"
  | .panic p => s!"panic {p}"
  | .diverge => "diverge"

/-- `n` rounds of signing with the placeholder blob; every round must see the same stream and trailer -/
def rounds (f : Bytes) : Nat → Bytes → Option Plan → Res (Plan × Bytes)
  | 0, g, some pl => .ok (pl, g)
  | 0, _, none => .err "norounds"
  | n + 1, g, prev =>
    if g.length < 512 then .err "seek" else
    match plan (g.drop (g.length - 512)) g with
    | .ok pl =>
      match MachO.defaults (mkSignParams 5 [] none) pl.oldSig with
      | .ok _ =>
        if ¬ pl.fits g.length then .err "trailer" else
        match signedFile g pl placeholder false with
        | .ok (g', _) =>
          if ¬ seesSame g' pl placeholder then .err "unverifiable" else
          match prev with
          | some p0 => if p0.stream ≠ pl.stream ∨ p0.rep ≠ pl.rep then .err "rounds-differ" else rounds f n g' (some pl)
          | none => rounds f n g' (some pl)
        | .err e => .err e
        | .panic p => .panic p
        | .diverge => .diverge
      | .err e => .err e
      | .panic p => .panic p
      | .diverge => .diverge
    | .err e => .err e
    | .panic p => .panic p
    | .diverge => .diverge

def handle : List String → String
  | ["koly", thex] =>
    match fromHex thex with
    | none => "bad-op"
    | some t =>
      if t.length < 512 then "err udif" else
      let k := decode t
      s!"ok fh={toHex k.forHashing} full={toHex k.enc} xo={k.xmlOffset} xl={k.xmlLength} so={k.sigOffset} sl={k.sigLength} magic={k.magic}"
  | ["open", fhex] =>
    match fromHex fhex with
    | none => "bad-op"
    | some f => showRes (openFile f) fun o => s!"ok uo={o.udifOffset} blob={toHex o.sigBlob} #alloc={o.alloc}"
  | ["vfy", fhex, skip, _cms] =>
    match fromHex fhex with
    | none => "bad-op"
    | some f =>
      showRes (verify f (skip = "1")) fun v =>
        s!"ok plan={hchecksStr v.checks} final={finStr v.final}"
  | ["sign", fhex, thex, hash, ident, req, _key, inplace] =>
    match fromHex fhex, hash.toNat?, fromHex ident, optHex req with
    | some f, some hash, some ident, some req =>
      match trailerOf f thex with
      | none => "bad-op"
      | some t => showRes (sign t f (mkSignParams hash ident req)) (signLine f (inplace = "1"))
    | _, _, _, _ => "bad-op"
  | ["realsign", fhex, rs] =>
    match fromHex fhex with
    | none => "bad-op"
    | some f =>
      -- the is-signed probe (`Verify` without digests) on the input, then on every output
      let p0 := match verify f true with
        | .err "notsigned" => "0"
        | .ok v => if v.final = Res.ok () then "1" else "e"
        | _ => "e"
      let n := (rs.splitOn ",").length
      showRes (rounds f n f none) fun (pl, _) =>
        s!"ok so={pl.bundle} pre={toHex pl.stream} trailer={toHex pl.rep} rounds={n} probe={p0}{String.ofList (List.replicate n '1')} #{planTag f pl}"
  | "mutate" :: fhex :: _n :: muts =>
    match fromHex fhex with
    | none => "bad-op"
    | some f =>
      match openFile f, verify f false with
      | .ok o0, .ok v0 =>
        let one (m : String) : String :=
          match m.splitOn ":" with
          | [p, b] =>
            match p.toNat?, b.toNat? with
            | some pos, some byte =>
              let g := f.set pos (UInt8.ofNat byte)
              if g = f then "same" else
              match openFile g with
              | .panic site => s!"panic:{site}"
              | .ok o =>
                if o.sigBlob ≠ o0.sigBlob then
                  -- a changed blob: the CMS layer decides; only a panic of the blob parser is predicted
                  match verify g false with
                  | .panic site => s!"panic:{site}"
                  | _ => "any"
                else
                match verify g false with
                | .ok v => if v.checks = v0.checks ∧ v.final = v0.final then "pass" else "fail"
                | .panic site => s!"panic:{site}"
                | _ => "fail"
              | _ => "fail"
            | _, _ => "bad"
          | _ => "bad"
        s!"ok {" ".intercalate (muts.map one)} #bundle={o0.koly.bundle} so={o0.koly.sigOffset} sl={o0.koly.sigLength} final={finStr v0.final}"
      | _, _ => "err unsigned-or-bad"
  | _ => "bad-op"

end Relic.Driver.Dmg

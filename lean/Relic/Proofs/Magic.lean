/-
  Relic.Proofs.Magic — lemmas about the detection model: the explicit-slice version never leaves its ranges, `Peek`
  only sees a prefix, first-match semantics of the decision list, the ZIP member walk.
-/
import Relic.Model.Magic
namespace Relic.Magic
open Relic

/-! ### `Peek` sees a prefix -/

theorem take_of_take_eq {bs bs' : Bytes} {N k : Nat} (h : bs.take N = bs'.take N) (hk : k ≤ N) : bs.take k = bs'.take k := by
  have h1 : (bs.take N).take k = (bs'.take N).take k := by rw [h]
  simpa [List.take_take, Nat.min_eq_left hk] using h1

theorem length_ge_of_take_eq {bs bs' : Bytes} {N n : Nat} (h : bs.take N = bs'.take N) (hn : n ≤ N) (hl : n ≤ bs.length) :
    n ≤ bs'.length := by
  have h1 : (bs.take N).length = (bs'.take N).length := by rw [h]
  simp only [List.length_take] at h1
  omega

theorem peekAny_congr {bs bs' : Bytes} {N n : Nat} (h : bs.take N = bs'.take N) (hn : min n bufSize ≤ N) :
    peekAny bs n = peekAny bs' n := take_of_take_eq h hn

theorem peekOk_congr {bs bs' : Bytes} {N n : Nat} (h : bs.take N = bs'.take N) (hn : n ≤ bufSize → n ≤ N) :
    peekOk bs n = peekOk bs' n := by
  unfold peekOk
  by_cases hb : n ≤ bufSize
  · have hN := hn hb
    by_cases hl : n ≤ bs.length
    · have hl' := length_ge_of_take_eq h hN hl
      simp [hb, hl, hl', take_of_take_eq h hN]
    · have hl' : ¬ n ≤ bs'.length := fun c => hl (length_ge_of_take_eq h.symm hN c)
      simp [hl, hl']
  · simp [hb]

theorem peekAny_take (bs : Bytes) (n : Nat) : peekAny (bs.take bufSize) n = peekAny bs n :=
  peekAny_congr (N := bufSize) (by simp [List.take_take]) (Nat.min_le_right _ _)

theorem peekOk_take (bs : Bytes) (n : Nat) : peekOk (bs.take bufSize) n = peekOk bs n :=
  peekOk_congr (N := bufSize) (by simp [List.take_take]) (fun h => h)

/-! ### congruence of the tests -/

def Test.bound : Test → Nat
  | .at pos pat => pos + pat.length
  | .contains win _ => win

theorem atPos_congr {bs bs' : Bytes} {N : Nat} (h : bs.take N = bs'.take N) (pat : Bytes) (pos : Nat)
    (hb : pos + pat.length ≤ N) : atPos bs pat pos = atPos bs' pat pos := by
  simp only [atPos, peekAny_congr h (Nat.le_trans (Nat.min_le_left _ _) hb)]

theorem containsIn_congr {bs bs' : Bytes} {N : Nat} (h : bs.take N = bs'.take N) (pat : Bytes) (win : Nat)
    (hb : win ≤ N) : containsIn bs pat win = containsIn bs' pat win := by
  simp only [containsIn, peekAny_congr h (Nat.le_trans (Nat.min_le_left _ _) hb)]

theorem Test.eval_congr {bs bs' : Bytes} {N : Nat} (h : bs.take N = bs'.take N) (t : Test) (hb : t.bound ≤ N) :
    t.eval bs = t.eval bs' := by
  cases t with
  | «at» pos pat => exact atPos_congr h pat pos hb
  | contains win pat => exact containsIn_congr h pat win hb

theorem any_eval_congr {bs bs' : Bytes} {N : Nat} (h : bs.take N = bs'.take N) (ts : List Test)
    (hb : ∀ t ∈ ts, t.bound ≤ N) : ts.any (Test.eval bs) = ts.any (Test.eval bs') := by
  induction ts with
  | nil => rfl
  | cons t ts ih =>
    simp only [List.any_cons]
    rw [Test.eval_congr h t (hb t (by simp)), ih (fun t' ht' => hb t' (by simp [ht']))]

theorem Rule.fires_congr {bs bs' : Bytes} {N : Nat} (h : bs.take N = bs'.take N) (r : Rule)
    (hb : ∀ t ∈ r.tests, t.bound ≤ N) : r.fires bs = r.fires bs' := any_eval_congr h r.tests hb

/-- the `e_lfanew` value the probe reads (low 16 bits) -/
def reloc (bs : Bytes) : Nat := leVal ((peekAny bs 0x3e).drop 0x3c)

theorem mzProbe_congr {bs bs' : Bytes} {N : Nat} (h : bs.take N = bs'.take N) (h1 : 0x3e ≤ N)
    (h2 : reloc bs + 4 ≤ bufSize → reloc bs + 4 ≤ N) : mzProbe bs = mzProbe bs' := by
  have hp : peekAny bs 0x3e = peekAny bs' 0x3e := peekAny_congr h (Nat.le_trans (Nat.min_le_left _ _) h1)
  unfold mzProbe
  simp only [← hp]
  have hr : leVal ((peekAny bs 0x3e).drop 0x3c) = reloc bs := rfl
  rw [hr, peekOk_congr h h2]

theorem detectWith_congr {bs bs' : Bytes} (rs : List Rule)
    (h : ∀ r ∈ rs, r.fires bs = r.fires bs' ∧ (r.fires bs = true → runAction bs r.act = runAction bs' r.act)) :
    detectWith rs bs = detectWith rs bs' := by
  induction rs with
  | nil => rfl
  | cons r rs ih =>
    have hr := h r (by simp)
    simp only [detectWith]
    rw [← hr.1]
    by_cases hf : r.fires bs = true
    · simp [hf, hr.2 hf]
    · simp [hf]
      exact ih (fun q hq => h q (by simp [hq]))

/-! ### the explicit-slice version agrees with the plain one: no slice expression leaves its range -/

theorem atPosR_eq (bs pat : Bytes) (pos : Nat) : atPosR bs pat pos = .ok (atPos bs pat pos) := by
  unfold atPosR atPos
  by_cases hl : (peekAny bs (pos + pat.length)).length < pos + pat.length
  · simp [hl]
  · have hle : pos ≤ (peekAny bs (pos + pat.length)).length := by omega
    have hlen : (List.drop pos (peekAny bs (pos + pat.length))).length ≤ (peekAny bs (pos + pat.length)).length - pos := by
      simp [List.length_drop]
    simp [hl, slice?, hle, List.take_of_length_le hlen]

theorem Test.evalR_eq (bs : Bytes) (t : Test) : t.evalR bs = .ok (t.eval bs) := by
  cases t with
  | «at» pos pat => exact atPosR_eq bs pat pos
  | contains win pat => rfl

theorem anyR_eq (bs : Bytes) (ts : List Test) : anyR bs ts = .ok (ts.any (Test.eval bs)) := by
  induction ts with
  | nil => rfl
  | cons t ts ih =>
    simp only [anyR, Test.evalR_eq, List.any_cons]
    cases t.eval bs <;> simp [ih]

theorem peekOk_length {bs : Bytes} {n : Nat} {b : Bytes} (h : peekOk bs n = some b) : b.length = n := by
  unfold peekOk at h
  split at h
  · rename_i hc
    injection h with h
    subst h
    simp [List.length_take]
    omega
  · cases h

theorem mzProbeR_eq (bs : Bytes) : mzProbeR bs = .ok (mzProbe bs) := by
  unfold mzProbeR mzProbe
  by_cases hl : (peekAny bs 0x3e).length = 0x3e
  · simp only [hl, if_true]
    have hs : slice? (peekAny bs 0x3e) 0x3c 0x3e = some ((peekAny bs 0x3e).drop 0x3c) := by
      have : (List.drop 60 (peekAny bs 62)).length = 2 := by simp [List.length_drop, hl]
      simp [slice?, hl, List.take_of_length_le, this]
    rw [hs]
    simp only
    cases hp : peekOk bs (leVal ((peekAny bs 0x3e).drop 0x3c) + 4) with
    | none => rfl
    | some b2 =>
      have hb := peekOk_length hp
      have : (List.drop (leVal (List.drop 60 (peekAny bs 62))) b2).length = 4 := by simp [List.length_drop, hb]
      simp [slice?, hb, List.take_of_length_le, this]
  · simp [hl]

theorem runActionR_eq (bs : Bytes) (a : Action) : runActionR bs a = .ok (runAction bs a) := by
  cases a with
  | ret t => rfl
  | tar => rfl
  | mzpe =>
    simp only [runActionR, runAction, mzProbeR_eq]
    cases mzProbe bs <;> rfl
  | mzpeOrig => rfl

theorem detectWithR_eq (rs : List Rule) (bs : Bytes) : detectWithR rs bs = .ok (detectWith rs bs) := by
  induction rs with
  | nil => rfl
  | cons r rs ih =>
    simp only [detectWithR, detectWith, anyR_eq, Rule.fires]
    by_cases hf : r.tests.any (Test.eval bs) = true
    · simp only [hf, if_true, runActionR_eq]
    · have hf' : r.tests.any (Test.eval bs) = false := by simpa using hf
      simp only [hf', ih, Bool.false_eq_true, if_false]

/-! ### first-match semantics -/

theorem detectWith_eq_iff (rs : List Rule) (bs : Bytes) (t : FileType) :
    detectWith rs bs = t ↔
      (∃ pre r post, rs = pre ++ r :: post ∧ (∀ q ∈ pre, q.fires bs = false) ∧ r.fires bs = true ∧ runAction bs r.act = t) ∨
      ((∀ q ∈ rs, q.fires bs = false) ∧ t = .unknown) := by
  induction rs with
  | nil =>
    simp only [detectWith]
    constructor
    · intro h; exact Or.inr ⟨by simp, h.symm⟩
    · rintro (⟨pre, r, post, h, _⟩ | ⟨_, h⟩)
      · simp at h
      · exact h.symm
  | cons r rs ih =>
    simp only [detectWith]
    by_cases hf : r.fires bs = true
    · simp only [hf, if_true]
      constructor
      · intro h; exact Or.inl ⟨[], r, rs, rfl, by simp, hf, h⟩
      · rintro (⟨pre, r', post, h, hpre, hr', ht⟩ | ⟨hall, _⟩)
        · cases pre with
          | nil => simp at h; rw [h.1]; exact ht
          | cons p pre =>
            simp at h
            have := hpre p (by simp)
            rw [← h.1] at this; rw [this] at hf; cases hf
        · have := hall r (by simp); rw [this] at hf; cases hf
    · have hf' : r.fires bs = false := by cases h : r.fires bs <;> simp_all
      simp only [hf', Bool.false_eq_true, if_false]
      rw [ih]
      constructor
      · rintro (⟨pre, r', post, h, hpre, hr', ht⟩ | ⟨hall, ht⟩)
        · refine Or.inl ⟨r :: pre, r', post, by simp [h], ?_, hr', ht⟩
          intro q hq
          simp at hq
          rcases hq with rfl | hq
          · exact hf'
          · exact hpre q hq
        · refine Or.inr ⟨?_, ht⟩
          intro q hq
          simp at hq
          rcases hq with rfl | hq
          · exact hf'
          · exact hall q hq
      · rintro (⟨pre, r', post, h, hpre, hr', ht⟩ | ⟨hall, ht⟩)
        · cases pre with
          | nil => simp at h; rw [← h.1] at hr'; rw [hr'] at hf'; cases hf'
          | cons p pre =>
            simp at h
            exact Or.inl ⟨pre, r', post, h.2, fun q hq => hpre q (by simp [hq]), hr', ht⟩
        · exact Or.inr ⟨fun q hq => hall q (by simp [hq]), ht⟩

/-! ### the ZIP member walk -/

/-- what one member name decides on its own: a marker type, IPA, or nothing -/
def hit (n : Bytes) : Option FileType :=
  match markers.lookup (zipName n) with
  | some t => some t
  | none => if isIpaName (zipName n) then some .ipa else none

def isManifest (n : Bytes) : Bool := zipName n == nManifest

theorem classifyLoop_cons (j : Bool) (n : Bytes) (rest : List Bytes) :
    classifyLoop j (n :: rest) = match hit n with
      | some t => t
      | none => classifyLoop (j || isManifest n) rest := by
  simp only [classifyLoop, hit, isManifest]
  cases markers.lookup (zipName n) with
  | some t => rfl
  | none =>
    simp only
    cases isIpaName (zipName n) <;> rfl

theorem classifyLoop_no_hit (j : Bool) (names : List Bytes) (h : ∀ n ∈ names, hit n = none) :
    classifyLoop j names = if j || names.any isManifest then .jar else .unknown := by
  induction names generalizing j with
  | nil => simp [classifyLoop]
  | cons n rest ih =>
    rw [classifyLoop_cons, h n (by simp)]
    simp only
    rw [ih _ (fun m hm => h m (by simp [hm]))]
    simp [List.any_cons, Bool.or_assoc]

theorem classifyLoop_first_hit (j : Bool) (pre : List Bytes) (n : Bytes) (post : List Bytes) (t : FileType)
    (hpre : ∀ m ∈ pre, hit m = none) (hn : hit n = some t) : classifyLoop j (pre ++ n :: post) = t := by
  induction pre generalizing j with
  | nil => simp [classifyLoop_cons, hn]
  | cons p pre ih =>
    simp only [List.cons_append]
    rw [classifyLoop_cons, hpre p (by simp)]
    exact ih _ (fun m hm => hpre m (by simp [hm]))

/-- every list either has a first hitting member or none at all -/
theorem first_hit_or_none (names : List Bytes) :
    (∃ pre n post t, names = pre ++ n :: post ∧ (∀ m ∈ pre, hit m = none) ∧ hit n = some t) ∨ (∀ n ∈ names, hit n = none) := by
  induction names with
  | nil => exact Or.inr (by simp)
  | cons a rest ih =>
    cases ha : hit a with
    | some t => exact Or.inl ⟨[], a, rest, t, rfl, by simp, ha⟩
    | none =>
      rcases ih with ⟨pre, n, post, t, h, hpre, hn⟩ | hall
      · refine Or.inl ⟨a :: pre, n, post, t, by simp [h], ?_, hn⟩
        intro m hm
        simp at hm
        rcases hm with rfl | hm
        · exact ha
        · exact hpre m hm
      · refine Or.inr ?_
        intro m hm
        simp at hm
        rcases hm with rfl | hm
        · exact ha
        · exact hall m hm

end Relic.Magic

/-
  C02 — Any change to signed content or to the signature makes verification fail.
  PE/COFF part: the hashed stream determines every protected byte (injectivity of the digest input), so under
  collision-freeness of the hash on the two streams in question a change to a protected byte changes the
  imprint.  Other formats add their theorems in `Relic/Props/C02_*.lean`.
-/
import Relic.Proofs.PESign
import Relic.Props.C08
namespace Relic.Props.C02
open Relic Relic.PE

theorem seg_seg_prefix (f : Bytes) (n a b : Nat) (hb : b ≤ n) : seg (seg f 0 n) a b = seg f a b := by
  unfold seg
  simp only [List.drop_zero, Nat.sub_zero]
  by_cases hab : a ≤ b
  · rw [List.drop_take, List.take_take]; congr 1; omega
  · have : b - a = 0 := by omega
    simp [this]

theorem seg_append_left (x y : Bytes) (a b : Nat) (hb : b ≤ x.length) : seg (x ++ y) a b = seg x a b := by
  unfold seg
  by_cases hab : a ≤ b
  · rw [List.drop_append_of_le_length (by omega), List.take_append_of_le_length (by simp [List.length_drop]; omega)]
  · have : b - a = 0 := by omega
    simp [this]

/-- **pe_hashed_injective.** Two files whose digests succeed with the same hashed stream agree on every protected
    byte: everything before the checksum, everything between the checksum and the certificate-table directory
    entry, and everything from there to the end of image (up to the ≤ 7 zero bytes of alignment padding, which
    the format itself cannot distinguish from trailing zero data).  The positions of the carve-outs are
    themselves read from the stream, so they agree too. -/
theorem pe_hashed_injective (a b : Bytes) (da db : Digest) (ha : 64 ≤ u32 a 0x3c) (hb : 64 ≤ u32 b 0x3c)
    (ea : DigestPE a = .ok da) (eb : DigestPE b = .ok db) (hs : da.hashed = db.hashed) :
    da.m.peStart = db.m.peStart ∧ da.m.posDDCert = db.m.posDDCert ∧
    seg a 0 (da.m.peStart + 88) = seg b 0 (da.m.peStart + 88) ∧
    seg a (da.m.peStart + 92) da.m.posDDCert = seg b (da.m.peStart + 92) da.m.posDDCert ∧
    seg a (da.m.posDDCert + 8) da.origSize ++ List.replicate (da.certStart - da.origSize) 0
      = seg b (db.m.posDDCert + 8) db.origSize ++ List.replicate (db.certStart - db.origSize) 0 := by
  have A := DigestPE_spec a da ha ea
  have B := DigestPE_spec b db hb eb
  have hdA : da.m.posDDCert ≥ da.m.peStart + 24 + 128 := by have := A.dd; rcases A.dd4 with h | h <;> omega
  have hdB : db.m.posDDCert ≥ db.m.peStart + 24 + 128 := by have := B.dd; rcases B.dd4 with h | h <;> omega
  have a1 := A.ddLe; have a2 := A.origLe; have b1 := B.ddLe; have b2 := B.origLe
  have lA : (seg a 0 (da.m.peStart + 88)).length = da.m.peStart + 88 := by rw [seg_length a _ _ (by omega)]; omega
  have lB : (seg b 0 (db.m.peStart + 88)).length = db.m.peStart + 88 := by rw [seg_length b _ _ (by omega)]; omega
  -- reading inside the first piece of the stream reads the file
  have rdA : ∀ x y, y ≤ da.m.peStart + 88 → seg da.hashed x y = seg a x y := by
    intro x y hy
    rw [A.hashed, List.append_assoc, List.append_assoc, seg_append_left _ _ _ _ (by omega), seg_seg_prefix _ _ _ _ hy]
  have rdB : ∀ x y, y ≤ db.m.peStart + 88 → seg db.hashed x y = seg b x y := by
    intro x y hy
    rw [B.hashed, List.append_assoc, List.append_assoc, seg_append_left _ _ _ _ (by omega), seg_seg_prefix _ _ _ _ hy]
  have pA := A.pe; have pB := B.pe
  have hP : da.m.peStart = db.m.peStart := by
    have x := rdA 60 64 (by omega)
    have y := rdB 60 64 (by omega)
    rw [hs] at x
    unfold u32 at pA pB
    rw [pA, pB, ← x, ← y]
  have hM : u16 a (da.m.peStart + 24) = u16 b (db.m.peStart + 24) := by
    have x := rdA (da.m.peStart + 24) (da.m.peStart + 24 + 2) (by omega)
    have y := rdB (db.m.peStart + 24) (db.m.peStart + 24 + 2) (by omega)
    rw [hs, hP] at x
    unfold u16
    rw [hP, ← x, ← y]
  have hD4 : da.m.dd4Start = db.m.dd4Start := by
    have x := A.dd4; have y := B.dd4
    rw [hM] at x
    rcases x with x | x <;> rcases y with y | y <;> omega
  have hDD : da.m.posDDCert = db.m.posDDCert := by rw [A.dd, B.dd, hP, hD4]
  refine ⟨hP, hDD, ?_⟩
  -- split the two streams at equal positions
  have e := hs
  rw [A.hashed, B.hashed, ← hP, ← hDD] at e
  have l2A : (seg a (da.m.peStart + 92) da.m.posDDCert).length = da.m.posDDCert - (da.m.peStart + 92) :=
    seg_length a _ _ (by omega)
  have l2B : (seg b (da.m.peStart + 92) da.m.posDDCert).length = da.m.posDDCert - (da.m.peStart + 92) :=
    seg_length b _ _ (by omega)
  have lB' : (seg b 0 (da.m.peStart + 88)).length = da.m.peStart + 88 := by rw [hP]; exact lB
  simp only [List.append_assoc] at e
  obtain ⟨e1, e'⟩ := List.append_inj e (by rw [lA, lB'])
  obtain ⟨e2, e3⟩ := List.append_inj e' (by rw [l2A, l2B])
  exact ⟨e1, e2, by rw [← hDD]; exact e3⟩

/-- consequence under collision-freeness of the hash *on these two streams*: equal imprints ⇒ equal protected bytes -/
theorem pe_tamper_evident (H : Bytes → Bytes) (a b : Bytes) (da db : Digest) (ha : 64 ≤ u32 a 0x3c) (hb : 64 ≤ u32 b 0x3c)
    (ea : DigestPE a = .ok da) (eb : DigestPE b = .ok db)
    (collisionFree : H da.hashed = H db.hashed → da.hashed = db.hashed) (himp : H da.hashed = H db.hashed) :
    seg a 0 (da.m.peStart + 88) = seg b 0 (da.m.peStart + 88) ∧
    seg a (da.m.peStart + 92) da.m.posDDCert = seg b (da.m.peStart + 92) da.m.posDDCert :=
  let r := pe_hashed_injective a b da db ha hb ea eb (collisionFree himp)
  ⟨r.2.2.1, r.2.2.2.1⟩

/-- **pe_no_trailing.** A file that carries a certificate table and digests successfully ends exactly where the
    table ends: appended payloads are refused ("trailing garbage after existing certificate"). -/
theorem pe_no_trailing (f : Bytes) (d : Digest) (hp : 64 ≤ u32 f 0x3c) (e : DigestPE f = .ok d) (hs : d.m.certSize ≠ 0) :
    f.length = d.m.certStart + d.m.certSize :=
  ((DigestPE_spec f d hp e).signed hs).2

set_option maxRecDepth 100000 in
example : 64 ≤ u32 C08.minimalPE 0x3c ∧ C08.minimalPE_ok = true := by decide

end Relic.Props.C02
